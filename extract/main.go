// extract — the (deliberately tiny) translator of tie T1: it reads the *current* Go source of
// /repo with go/ast and regenerates Lean facts under lean/Restic/Gen:
//
//	calls    ordered list of the calls in a function body (ordered by the end position of the
//	         call expression, i.e. inner calls before the calls that consume them)
//	funchash sha256 of the gofmt-normalised source of a function (used by vcheck to notice
//	         that a transcribed function was edited; never an alarm by itself)
//	cases    the case expressions of the index-th switch (or type switch) in a function, as strings
//	literals every basic literal in a function body, as written
//	callargs like calls, with the argument expressions of every call
//
// A fact that can no longer be extracted is left undefined in the Lean file, so that every
// theorem depending on it stops building ("fact no longer extractable" is visible, not silent).
package main

import (
	"bytes"
	"crypto/sha256"
	"encoding/hex"
	"encoding/json"
	"flag"
	"fmt"
	"go/ast"
	"go/parser"
	"go/printer"
	"go/token"
	"os"
	"path/filepath"
	"sort"
	"strings"
)

type Fact struct {
	Name  string `json:"name"`
	Kind  string `json:"kind"`
	File  string `json:"file"`
	Func  string `json:"func"`  // "Recv.Name" or "Name"
	Index int    `json:"index"` // cases: which switch statement (0 = first), type switches included
	// results
	Calls []string `json:"calls,omitempty"`
	Hash  string   `json:"hash,omitempty"`
	Cases []string `json:"cases,omitempty"`
	Err   string   `json:"err,omitempty"`
}

type Spec struct {
	Facts []Fact `json:"facts"`
}

func recvName(fd *ast.FuncDecl) string {
	if fd.Recv == nil || len(fd.Recv.List) == 0 {
		return ""
	}
	t := fd.Recv.List[0].Type
	for {
		switch x := t.(type) {
		case *ast.StarExpr:
			t = x.X
			continue
		case *ast.IndexExpr:
			t = x.X
			continue
		case *ast.IndexListExpr:
			t = x.X
			continue
		case *ast.Ident:
			return x.Name
		}
		return ""
	}
}

func findFunc(f *ast.File, name string) *ast.FuncDecl {
	recv, fn := "", name
	if i := strings.Index(name, "."); i >= 0 {
		recv, fn = name[:i], name[i+1:]
	}
	for _, d := range f.Decls {
		if fd, ok := d.(*ast.FuncDecl); ok && fd.Name.Name == fn && recvName(fd) == recv {
			return fd
		}
	}
	return nil
}

func callName(e ast.Expr) string {
	switch x := e.(type) {
	case *ast.Ident:
		return x.Name
	case *ast.SelectorExpr:
		if id, ok := x.X.(*ast.Ident); ok {
			return id.Name + "." + x.Sel.Name
		}
		return callName(x.X) + "." + x.Sel.Name
	case *ast.CallExpr:
		return callName(x.Fun) + "()"
	case *ast.IndexExpr:
		return callName(x.X)
	case *ast.ParenExpr:
		return callName(x.X)
	case *ast.FuncLit:
		return "func"
	}
	return "?"
}

func exprString(fset *token.FileSet, e ast.Node) string {
	var b bytes.Buffer
	printer.Fprint(&b, fset, e)
	return b.String()
}

func leanStr(s string) string {
	s = strings.ReplaceAll(s, "\\", "\\\\")
	s = strings.ReplaceAll(s, "\"", "\\\"")
	s = strings.ReplaceAll(s, "\n", "\\n")
	s = strings.ReplaceAll(s, "\t", "\\t")
	return "\"" + s + "\""
}

func leanList(l []string) string {
	q := make([]string, len(l))
	for i, s := range l {
		q[i] = leanStr(s)
	}
	return "[" + strings.Join(q, ", ") + "]"
}

func writeIfChanged(path string, data []byte) {
	old, err := os.ReadFile(path)
	if err == nil && bytes.Equal(old, data) {
		return
	}
	os.MkdirAll(filepath.Dir(path), 0o755)
	if err := os.WriteFile(path, data, 0o644); err != nil {
		panic(err)
	}
}

func main() {
	repo := flag.String("repo", "/repo", "")
	specf := flag.String("spec", "facts.json", "")
	out := flag.String("out", "", "directory for generated Lean files")
	jsonOut := flag.String("json", "", "")
	flag.Parse()

	// the spec is a directory of JSON files (one per property), merged in name order;
	// a fact name may be requested by several properties (identical requests are merged)
	var spec Spec
	var err error
	entries, err := os.ReadDir(*specf)
	if err != nil {
		panic(err)
	}
	seen := map[string]bool{}
	for _, e := range entries {
		if !strings.HasSuffix(e.Name(), ".json") {
			continue
		}
		b, err := os.ReadFile(filepath.Join(*specf, e.Name()))
		if err != nil {
			panic(err)
		}
		var one Spec
		if err := json.Unmarshal(b, &one); err != nil {
			panic(fmt.Sprintf("%s: %v", e.Name(), err))
		}
		for _, f := range one.Facts {
			if seen[f.Name] {
				continue
			}
			seen[f.Name] = true
			spec.Facts = append(spec.Facts, f)
		}
	}
	fset := token.NewFileSet()
	files := map[string]*ast.File{}
	for i := range spec.Facts {
		f := &spec.Facts[i]
		af, ok := files[f.File]
		if !ok {
			af, err = parser.ParseFile(fset, filepath.Join(*repo, f.File), nil, parser.ParseComments)
			if err != nil {
				af = nil
			}
			files[f.File] = af
		}
		if af == nil {
			f.Err = "file does not parse or is missing"
			continue
		}
		fd := findFunc(af, f.Func)
		if fd == nil || fd.Body == nil {
			f.Err = "function not found"
			continue
		}
		switch f.Kind {
		case "calls":
			type c struct {
				end  token.Pos
				name string
			}
			var cs []c
			ast.Inspect(fd.Body, func(n ast.Node) bool {
				if ce, ok := n.(*ast.CallExpr); ok {
					cs = append(cs, c{ce.End(), callName(ce.Fun)})
				}
				return true
			})
			sort.SliceStable(cs, func(i, j int) bool { return cs[i].end < cs[j].end })
			f.Calls = []string{}
			for _, x := range cs {
				f.Calls = append(f.Calls, x.name)
			}
		case "funchash":
			var buf bytes.Buffer
			// print without comments so that comment edits do not count
			printer.Fprint(&buf, fset, &ast.FuncDecl{Recv: fd.Recv, Name: fd.Name, Type: fd.Type, Body: fd.Body})
			h := sha256.Sum256(buf.Bytes())
			f.Hash = hex.EncodeToString(h[:])
		case "cases":
			// case expressions of the Index-th switch statement (expression or type switch, in
			// source order, nested ones counted too)
			f.Cases = []string{}
			seen := 0
			found := false
			ast.Inspect(fd.Body, func(n ast.Node) bool {
				if found {
					return false
				}
				var body *ast.BlockStmt
				switch sw := n.(type) {
				case *ast.SwitchStmt:
					body = sw.Body
				case *ast.TypeSwitchStmt:
					body = sw.Body
				}
				if body == nil {
					return true
				}
				if seen < f.Index {
					seen++
					return true
				}
				for _, st := range body.List {
					cc := st.(*ast.CaseClause)
					if cc.List == nil {
						f.Cases = append(f.Cases, "default")
					}
					for _, e := range cc.List {
						f.Cases = append(f.Cases, exprString(fset, e))
					}
				}
				found = true
				return false
			})
			if !found {
				f.Err = "switch statement not found"
			}
		case "literals":
			// every basic literal of the body, in source order, as written (strings keep quotes)
			f.Calls = []string{}
			ast.Inspect(fd.Body, func(n ast.Node) bool {
				if bl, ok := n.(*ast.BasicLit); ok {
					f.Calls = append(f.Calls, bl.Value)
				}
				return true
			})
		case "callargs":
			// like `calls`, but each call is rendered with its argument expressions
			type c struct {
				end  token.Pos
				name string
			}
			var cs []c
			ast.Inspect(fd.Body, func(n ast.Node) bool {
				if ce, ok := n.(*ast.CallExpr); ok {
					args := make([]string, len(ce.Args))
					for i, a := range ce.Args {
						if _, isFn := a.(*ast.FuncLit); isFn {
							args[i] = "func"
						} else {
							args[i] = exprString(fset, a)
						}
					}
					cs = append(cs, c{ce.End(), callName(ce.Fun) + "(" + strings.Join(args, ", ") + ")"})
				}
				return true
			})
			sort.SliceStable(cs, func(i, j int) bool { return cs[i].end < cs[j].end })
			f.Calls = []string{}
			for _, x := range cs {
				f.Calls = append(f.Calls, x.name)
			}
		default:
			f.Err = "unknown kind"
		}
	}
	if *out != "" {
		var w bytes.Buffer
		w.WriteString("/- GENERATED by /verif/extract from /repo's Go source on every run — do not edit. -/\nnamespace Restic.Gen\n\n")
		for _, f := range spec.Facts {
			if f.Err != "" {
				fmt.Fprintf(&w, "-- %s: NOT EXTRACTABLE (%s: %s %s)\n\n", f.Name, f.Err, f.File, f.Func)
				continue
			}
			switch f.Kind {
			case "literals":
				fmt.Fprintf(&w, "/-- basic literals in `%s` of %s, in source order -/\ndef %s : List String :=\n  %s\n\n", f.Func, f.File, f.Name, leanList(f.Calls))
			case "callargs":
				fmt.Fprintf(&w, "/-- calls with argument expressions in `%s` of %s, ordered by end position -/\ndef %s : List String :=\n  %s\n\n", f.Func, f.File, f.Name, leanList(f.Calls))
			case "calls":
				fmt.Fprintf(&w, "/-- calls in `%s` of %s, ordered by end position -/\ndef %s : List String :=\n  %s\n\n", f.Func, f.File, f.Name, leanList(f.Calls))
			case "cases":
				fmt.Fprintf(&w, "/-- case expressions of the first switch in `%s` of %s -/\ndef %s : List String :=\n  %s\n\n", f.Func, f.File, f.Name, leanList(f.Cases))
			}
		}
		w.WriteString("end Restic.Gen\n")
		writeIfChanged(filepath.Join(*out, "Source.lean"), w.Bytes())
	}
	if *jsonOut != "" {
		jb, _ := json.MarshalIndent(spec, "", " ")
		writeIfChanged(*jsonOut, jb)
	}
}
