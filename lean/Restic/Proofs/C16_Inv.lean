import Restic.Model.Dedup
/-!
C16: the per-handle invariant of the deduplication model and its preservation by every atomic step.
-/
namespace Restic.Proofs.C16
open Restic.Model.Dedup

/-- the call obtained `known = false` from AddPending (it "claimed" the blob) -/
def claims (t : Thread) : Bool :=
  match t.pc with
  | .checked false => true
  | .done false => true
  | _ => false

/-- the call has executed saveAndEncrypt -/
def saved (t : Thread) : Bool :=
  match t.pc with
  | .done k => !k || t.call.dup
  | _ => false

/-- the call was told `known = true` -/
def toldKnown (t : Thread) : Bool :=
  match t.pc with
  | .checked true => true
  | .done true => true
  | _ => false

def claimers (h : Handle) (ts : List Thread) : Nat := ts.countP fun t => t.call.h == h && claims t
def savers (h : Handle) (ts : List Thread) : Nat := ts.countP fun t => t.call.h == h && saved t

/-- "somebody claimed `h` in this run, or it was in the index from the start" -/
def K (idx0 : List Handle) (h : Handle) (s : St) : Prop := claimers h s.threads = 1 ∨ h ∈ idx0

structure Inv (idx0 : List Handle) (calls : List Call) (h : Handle) (s : St) : Prop where
  calls_eq : s.threads.map (·.call) = calls
  le_one : claimers h s.threads ≤ 1
  claimed_known : claimers h s.threads = 1 → h ∈ s.pending ∨ h ∈ s.index
  idx_mono : ∀ x ∈ idx0, x ∈ s.index
  idx0_unclaimed : h ∈ idx0 → claimers h s.threads = 0
  pend : h ∈ s.pending → claimers h s.threads = 1
  idx : h ∈ s.index → K idx0 h s
  pack : h ∈ s.packed → K idx0 h s
  told : ∀ t ∈ s.threads, t.call.h = h → toldKnown t = true → K idx0 h s
  saves_eq : s.saves.count h = savers h s.threads
  saved_somewhere : ∀ t ∈ s.threads, t.call.h = h → saved t = true → h ∈ s.packed ∨ h ∈ s.index

theorem set_decomp {α} : ∀ {l : List α} {i : Nat} {t : α}, l[i]? = some t →
    ∃ l1 l2, l = l1 ++ t :: l2 ∧ ∀ x, l.set i x = l1 ++ x :: l2
  | [], _, _, h => by simp at h
  | a :: l, 0, t, h => by simp at h; subst h; exact ⟨[], l, rfl, fun x => rfl⟩
  | a :: l, i + 1, t, h => by
    simp at h
    obtain ⟨l1, l2, h1, h2⟩ := set_decomp h
    exact ⟨a :: l1, l2, by simp [h1], fun x => by simp [h2 x]⟩

theorem init_inv (idx0 : List Handle) (calls : List Call) (h : Handle) : Inv idx0 calls h (St.init idx0 calls) := by
  have hc : claimers h (St.init idx0 calls).threads = 0 := by
    simp [claimers, St.init, List.countP_eq_zero, claims]
  have hs : savers h (St.init idx0 calls).threads = 0 := by
    simp [savers, St.init, List.countP_eq_zero, saved]
  refine ⟨by simp [St.init, Function.comp_def], by omega, by omega, fun x hx => hx, fun _ => hc, ?_, fun hi => Or.inr hi, ?_, ?_, ?_, ?_⟩
  · simp [St.init]
  · simp [St.init]
  · intro t ht _ hk; simp [St.init] at ht; obtain ⟨c, _, rfl⟩ := ht; simp [toldKnown] at hk
  · rw [hs]; simp [St.init]
  · intro t ht _ hk; simp [St.init] at ht; obtain ⟨c, _, rfl⟩ := ht; simp [saved] at hk

theorem storePack_inv {idx0 calls h s} (hinv : Inv idx0 calls h s) (hs : List Handle) (hsub : ∀ x ∈ hs, x ∈ s.packed) :
    Inv idx0 calls h (storePack s hs) := by
  have hK : ∀ {P : Prop}, (P → K idx0 h s) → P → K idx0 h (storePack s hs) := fun f p => f p
  refine ⟨hinv.calls_eq, hinv.le_one, ?_, ?_, hinv.idx0_unclaimed, ?_, ?_, ?_, hinv.told, hinv.saves_eq, ?_⟩
  · intro hc
    simp only [storePack, List.mem_filter, List.mem_append, Bool.not_eq_true', List.contains_eq_mem, decide_eq_false_iff_not]
    by_cases hh : h ∈ hs
    · exact Or.inr (Or.inl hh)
    · rcases hinv.claimed_known hc with h1 | h1
      · exact Or.inl ⟨h1, hh⟩
      · exact Or.inr (Or.inr h1)
  · intro x hx; simp only [storePack, List.mem_append]; exact Or.inr (hinv.idx_mono x hx)
  · intro hp; simp only [storePack, List.mem_filter] at hp; exact hinv.pend hp.1
  · intro hi; simp only [storePack, List.mem_append] at hi
    rcases hi with h1 | h1
    · exact hinv.pack (hsub h h1)
    · exact hinv.idx h1
  · intro hp; simp only [storePack, List.mem_filter] at hp; exact hinv.pack hp.1
  · intro t ht hth hsv
    simp only [storePack, List.mem_filter, List.mem_append, Bool.not_eq_true', List.contains_eq_mem, decide_eq_false_iff_not]
    by_cases hh : h ∈ hs
    · exact Or.inr (Or.inl hh)
    · rcases hinv.saved_somewhere t ht hth hsv with h1 | h1
      · exact Or.inl ⟨h1, hh⟩
      · exact Or.inr (Or.inr h1)

theorem claimers_split (h : Handle) (l1 l2 : List Thread) (t : Thread) :
    claimers h (l1 ++ t :: l2) = claimers h l1 + claimers h l2 + (if (t.call.h == h && claims t) = true then 1 else 0) := by
  simp only [claimers, List.countP_append, List.countP_cons]; omega

theorem savers_split (h : Handle) (l1 l2 : List Thread) (t : Thread) :
    savers h (l1 ++ t :: l2) = savers h l1 + savers h l2 + (if (t.call.h == h && saved t) = true then 1 else 0) := by
  simp only [savers, List.countP_append, List.countP_cons]; omega

/-- replacing thread `t` by `t'` (same call) where neither the claim status nor the saved status of
    the thread changes with respect to `h`, and the shared state only grows in `packed`/`saves` by
    handles other than `h` … is covered by the four concrete lemmas below. -/
theorem told_inv {idx0 calls h} {s : St} (hinv : Inv idx0 calls h s) {i : Nat} {t : Thread}
    (ht : s.threads[i]? = some t) (hpc : t.pc = .start) (hk : t.call.h ∈ s.pending ∨ t.call.h ∈ s.index) :
    Inv idx0 calls h { s with threads := s.threads.set i { t with pc := .checked true } } := by
  obtain ⟨l1, l2, hl, hset⟩ := set_decomp ht
  have hcl : claimers h (l1 ++ { t with pc := .checked true } :: l2) = claimers h s.threads := by
    rw [hl, claimers_split, claimers_split]; simp [claims, hpc]
  have hsv : savers h (l1 ++ { t with pc := .checked true } :: l2) = savers h s.threads := by
    rw [hl, savers_split, savers_split]; simp [saved, hpc]
  have hKeq : ∀ s', s'.threads = l1 ++ { t with pc := .checked true } :: l2 → (K idx0 h s' ↔ K idx0 h s) := by
    intro s' hs'; simp only [K, hs', hcl]
  refine ⟨?_, ?_, ?_, hinv.idx_mono, ?_, ?_, ?_, ?_, ?_, ?_, ?_⟩
  · simp only [hset]; rw [← hinv.calls_eq, hl]; simp
  · simp only [hset, hcl]; exact hinv.le_one
  · simp only [hset, hcl]; exact hinv.claimed_known
  · simp only [hset, hcl]; exact hinv.idx0_unclaimed
  · simp only [hset, hcl]; exact hinv.pend
  · intro hi; exact (hKeq _ (hset _)).mpr (hinv.idx hi)
  · intro hp; exact (hKeq _ (hset _)).mpr (hinv.pack hp)
  · intro x hx hxh hxk
    apply (hKeq _ (hset _)).mpr
    simp only [hset, List.mem_append, List.mem_cons] at hx
    rcases hx with hx | hx | hx
    · exact hinv.told x (by rw [hl]; simp [hx]) hxh hxk
    · subst hx
      simp only at hxh
      rcases hk with h1 | h1
      · exact Or.inl (hinv.pend (hxh ▸ h1))
      · exact hinv.idx (hxh ▸ h1)
    · exact hinv.told x (by rw [hl]; simp [hx]) hxh hxk
  · simp only [hset, hsv]; exact hinv.saves_eq
  · intro x hx hxh hxs
    simp only [hset, List.mem_append, List.mem_cons] at hx
    rcases hx with hx | hx | hx
    · exact hinv.saved_somewhere x (by rw [hl]; simp [hx]) hxh hxs
    · subst hx; simp [saved] at hxs
    · exact hinv.saved_somewhere x (by rw [hl]; simp [hx]) hxh hxs

theorem claim_inv {idx0 calls h} {s : St} (hinv : Inv idx0 calls h s) {i : Nat} {t : Thread}
    (ht : s.threads[i]? = some t) (hpc : t.pc = .start) (hnp : t.call.h ∉ s.pending) (hni : t.call.h ∉ s.index) :
    Inv idx0 calls h
      { s with pending := t.call.h :: s.pending, threads := s.threads.set i { t with pc := .checked false } } := by
  obtain ⟨l1, l2, hl, hset⟩ := set_decomp ht
  have hsv : savers h (l1 ++ { t with pc := .checked false } :: l2) = savers h s.threads := by
    rw [hl, savers_split, savers_split]; simp [saved, hpc]
  have hcl : claimers h (l1 ++ { t with pc := .checked false } :: l2) =
      claimers h s.threads + (if t.call.h = h then 1 else 0) := by
    rw [hl, claimers_split, claimers_split]; simp [claims, hpc]
  have hmem_old : ∀ x, x ∈ l1 ∨ x ∈ l2 → x ∈ s.threads := fun x hx => by rw [hl]; rcases hx with h1 | h1 <;> simp [h1]
  by_cases hh : t.call.h = h
  · -- this call claims h: nobody had claimed it before
    have hzero : claimers h s.threads = 0 := by
      have h1 := hinv.le_one
      have h2 := hinv.claimed_known
      by_cases h3 : claimers h s.threads = 1
      · rcases h2 h3 with h4 | h4
        · exact absurd (hh ▸ h4) hnp
        · exact absurd (hh ▸ h4) hni
      · omega
    have hone : claimers h (l1 ++ { t with pc := .checked false } :: l2) = 1 := by rw [hcl, hzero]; simp [hh]
    have hK : ∀ s', s'.threads = l1 ++ { t with pc := .checked false } :: l2 → K idx0 h s' :=
      fun s' hs' => Or.inl (by rw [hs', hone])
    refine ⟨?_, ?_, ?_, hinv.idx_mono, ?_, ?_, ?_, ?_, ?_, ?_, ?_⟩
    · simp only [hset]; rw [← hinv.calls_eq, hl]; simp
    · simp only [hset, hone]; omega
    · intro _; exact Or.inl (by simp [hh])
    · intro h0; exact absurd (hinv.idx_mono h h0) (hh ▸ hni)
    · intro _; simp only [hset, hone]
    · intro _; exact hK _ (hset _)
    · intro _; exact hK _ (hset _)
    · intro _ _ _ _; exact hK _ (hset _)
    · simp only [hset, hsv]; exact hinv.saves_eq
    · intro x hx hxh hxs
      simp only [hset, List.mem_append, List.mem_cons] at hx
      rcases hx with hx | hx | hx
      · exact hinv.saved_somewhere x (hmem_old x (Or.inl hx)) hxh hxs
      · subst hx; simp [saved] at hxs
      · exact hinv.saved_somewhere x (hmem_old x (Or.inr hx)) hxh hxs
  · have hcl' : claimers h (l1 ++ { t with pc := .checked false } :: l2) = claimers h s.threads := by
      rw [hcl]; simp [hh]
    have hKeq : ∀ s', s'.threads = l1 ++ { t with pc := .checked false } :: l2 → (K idx0 h s' ↔ K idx0 h s) := by
      intro s' hs'; simp only [K, hs', hcl']
    have hne : h ≠ t.call.h := fun e => hh e.symm
    refine ⟨?_, ?_, ?_, hinv.idx_mono, ?_, ?_, ?_, ?_, ?_, ?_, ?_⟩
    · simp only [hset]; rw [← hinv.calls_eq, hl]; simp
    · simp only [hset, hcl']; exact hinv.le_one
    · simp only [hset, hcl']; intro hc
      rcases hinv.claimed_known hc with h1 | h1
      · exact Or.inl (List.mem_cons_of_mem _ h1)
      · exact Or.inr h1
    · simp only [hset, hcl']; exact hinv.idx0_unclaimed
    · simp only [hset, hcl']; intro hp
      rcases List.mem_cons.mp hp with h1 | h1
      · exact absurd h1 hne
      · exact hinv.pend h1
    · intro hi; exact (hKeq _ (hset _)).mpr (hinv.idx hi)
    · intro hp; exact (hKeq _ (hset _)).mpr (hinv.pack hp)
    · intro x hx hxh hxk
      apply (hKeq _ (hset _)).mpr
      simp only [hset, List.mem_append, List.mem_cons] at hx
      rcases hx with hx | hx | hx
      · exact hinv.told x (hmem_old x (Or.inl hx)) hxh hxk
      · subst hx; simp [toldKnown] at hxk
      · exact hinv.told x (hmem_old x (Or.inr hx)) hxh hxk
    · simp only [hset, hsv]; exact hinv.saves_eq
    · intro x hx hxh hxs
      simp only [hset, List.mem_append, List.mem_cons] at hx
      rcases hx with hx | hx | hx
      · exact hinv.saved_somewhere x (hmem_old x (Or.inl hx)) hxh hxs
      · subst hx; simp [saved] at hxs
      · exact hinv.saved_somewhere x (hmem_old x (Or.inr hx)) hxh hxs

theorem finish_inv {idx0 calls h} {s : St} (hinv : Inv idx0 calls h s) {i : Nat} {t : Thread} {k : Bool}
    (ht : s.threads[i]? = some t) (hpc : t.pc = .checked k) :
    Inv idx0 calls h
      (if (!k || t.call.dup) = true then
        { s with saves := t.call.h :: s.saves, packed := t.call.h :: s.packed, threads := s.threads.set i { t with pc := .done k } }
       else { s with threads := s.threads.set i { t with pc := .done k } }) := by
  obtain ⟨l1, l2, hl, hset⟩ := set_decomp ht
  have hcl : claimers h (l1 ++ { t with pc := .done k } :: l2) = claimers h s.threads := by
    rw [hl, claimers_split, claimers_split]; cases k <;> simp [claims, hpc]
  have hKeq : ∀ s', s'.threads = l1 ++ { t with pc := .done k } :: l2 → (K idx0 h s' ↔ K idx0 h s) := by
    intro s' hs'; simp only [K, hs', hcl]
  have hmem_old : ∀ x, x ∈ l1 ∨ x ∈ l2 → x ∈ s.threads := fun x hx => by rw [hl]; rcases hx with h1 | h1 <;> simp [h1]
  have htmem : t ∈ s.threads := by rw [hl]; simp
  -- the thread itself witnesses K when it saves h
  have hKself : t.call.h = h → K idx0 h s := by
    intro hh
    cases k with
    | true => exact hinv.told t htmem hh (by simp [toldKnown, hpc])
    | false =>
      left
      have h1 := hinv.le_one
      have : 1 ≤ claimers h s.threads := by
        rw [hl, claimers_split]; simp [claims, hpc, hh]
      omega
  have htold : ∀ s', s'.threads = l1 ++ { t with pc := .done k } :: l2 →
      ∀ x ∈ s'.threads, x.call.h = h → toldKnown x = true → K idx0 h s' := by
    intro s' hs' x hx hxh hxk
    apply (hKeq s' hs').mpr
    rw [hs'] at hx
    simp only [List.mem_append, List.mem_cons] at hx
    rcases hx with hx | hx | hx
    · exact hinv.told x (hmem_old x (Or.inl hx)) hxh hxk
    · subst hx
      cases k with
      | true => exact hinv.told t htmem hxh (by simp [toldKnown, hpc])
      | false => simp [toldKnown] at hxk
    · exact hinv.told x (hmem_old x (Or.inr hx)) hxh hxk
  split
  · rename_i hsave
    have hsv : savers h (l1 ++ { t with pc := .done k } :: l2) = savers h s.threads + (if t.call.h = h then 1 else 0) := by
      rw [hl, savers_split, savers_split]; simp [saved, hpc, hsave]
    refine ⟨?_, ?_, ?_, hinv.idx_mono, ?_, ?_, ?_, ?_, ?_, ?_, ?_⟩
    · simp only [hset]; rw [← hinv.calls_eq, hl]; simp
    · simp only [hset, hcl]; exact hinv.le_one
    · simp only [hset, hcl]; exact hinv.claimed_known
    · simp only [hset, hcl]; exact hinv.idx0_unclaimed
    · simp only [hset, hcl]; exact hinv.pend
    · intro hi; exact (hKeq _ (hset _)).mpr (hinv.idx hi)
    · intro hp
      apply (hKeq _ (hset _)).mpr
      rcases List.mem_cons.mp hp with h1 | h1
      · exact hKself h1.symm
      · exact hinv.pack h1
    · exact htold _ (hset _)
    · simp only [hset, hsv, List.count_cons, hinv.saves_eq]; simp
    · intro x hx hxh hxs
      simp only [hset, List.mem_append, List.mem_cons] at hx
      rcases hx with hx | hx | hx
      · rcases hinv.saved_somewhere x (hmem_old x (Or.inl hx)) hxh hxs with h1 | h1
        · exact Or.inl (List.mem_cons_of_mem _ h1)
        · exact Or.inr h1
      · subst hx; simp only at hxh; exact Or.inl (by simp [hxh])
      · rcases hinv.saved_somewhere x (hmem_old x (Or.inr hx)) hxh hxs with h1 | h1
        · exact Or.inl (List.mem_cons_of_mem _ h1)
        · exact Or.inr h1
  · rename_i hsave
    have hsv : savers h (l1 ++ { t with pc := .done k } :: l2) = savers h s.threads := by
      rw [hl, savers_split, savers_split]; simp [saved, hpc, hsave]
    refine ⟨?_, ?_, ?_, hinv.idx_mono, ?_, ?_, ?_, ?_, ?_, ?_, ?_⟩
    · simp only [hset]; rw [← hinv.calls_eq, hl]; simp
    · simp only [hset, hcl]; exact hinv.le_one
    · simp only [hset, hcl]; exact hinv.claimed_known
    · simp only [hset, hcl]; exact hinv.idx0_unclaimed
    · simp only [hset, hcl]; exact hinv.pend
    · intro hi; exact (hKeq _ (hset _)).mpr (hinv.idx hi)
    · intro hp; exact (hKeq _ (hset _)).mpr (hinv.pack hp)
    · exact htold _ (hset _)
    · simp only [hset, hsv]; exact hinv.saves_eq
    · intro x hx hxh hxs
      simp only [hset, List.mem_append, List.mem_cons] at hx
      rcases hx with hx | hx | hx
      · exact hinv.saved_somewhere x (hmem_old x (Or.inl hx)) hxh hxs
      · subst hx; simp [saved, hsave] at hxs
      · exact hinv.saved_somewhere x (hmem_old x (Or.inr hx)) hxh hxs

theorem step_inv {idx0 calls h} {s : St} (hinv : Inv idx0 calls h s) (a : Act) : Inv idx0 calls h (step s a) := by
  cases a with
  | flush => exact storePack_inv hinv _ (fun x hx => hx)
  | store hs =>
    refine storePack_inv hinv _ (fun x hx => ?_)
    simpa using (List.mem_filter.mp hx).2
  | thread i =>
    simp only [step]
    cases ht : s.threads[i]? with
    | none => exact hinv
    | some t =>
      simp only
      cases hpc : t.pc with
      | done k => exact hinv
      | checked k => exact finish_inv hinv ht hpc
      | start =>
        simp only [addPending]
        by_cases h1 : t.call.h ∈ s.pending
        · simpa [h1] using told_inv hinv ht hpc (Or.inl h1)
        · by_cases h2 : t.call.h ∈ s.index
          · simpa [h1, h2] using told_inv hinv ht hpc (Or.inr h2)
          · simpa [h1, h2] using claim_inv hinv ht hpc h1 h2

theorem run_inv (idx0 : List Handle) (calls : List Call) (h : Handle) (sched : List Act) :
    Inv idx0 calls h (run idx0 calls sched) := by
  unfold run
  generalize hs : St.init idx0 calls = s0
  have h0 : Inv idx0 calls h s0 := hs ▸ init_inv idx0 calls h
  clear hs
  induction sched generalizing s0 with
  | nil => exact h0
  | cons a sched ih => exact ih _ (step_inv h0 a)

end Restic.Proofs.C16
