import Restic.Proofs.C09_Select
/-!
Helper lemmas for C09: what `decidePackAction` and the `keepBlobs` loop guarantee.
-/
namespace Restic.Proofs.C09Plan
open Restic.Model.Repo Restic.Model.Prune Restic.Proofs.C09Select

/-! ### the loop over the listed pack files -/

/-- what one iteration does to the fields the safety argument uses -/
theorem listStep_spec {o : Opts} {t : Nat} {s s' : D1} {id : ID} {size : Nat}
    (h : listStep o t s id size = .ok s') :
    (∀ q, s'.ip q = if q = id then none else s.ip q) ∧
    (s.ip id = none → s'.removeFirst = s.removeFirst ++ [id] ∧ s'.removePacks = s.removePacks) ∧
    (∀ info, s.ip id = some info → s'.removeFirst = s.removeFirst ∧
        (info.usedBlobs = 0 → s'.removePacks = s.removePacks ++ [id]) ∧
        (info.usedBlobs ≠ 0 → s'.removePacks = s.removePacks)) := by
  unfold listStep at h
  split at h
  · rename_i hip
    injection h with h; subst h
    refine ⟨fun q => ?_, fun _ => ⟨rfl, rfl⟩, fun info hc => by simp [hip] at hc⟩
    by_cases hq : q = id
    · subst hq; simp [hip]
    · simp [hq]
  · rename_i p hip
    split at h
    · exact absurd h (by simp)
    · injection h with h; subst h
      refine ⟨fun q => by simp [upd], fun hc => by simp [hip] at hc, ?_⟩
      intro info hinfo
      rw [hip] at hinfo
      simp only [Option.some.injEq] at hinfo; subst hinfo
      refine ⟨rfl, fun hu => ?_, fun hu => ?_⟩
      · simp [packAction, hu]
      · simp only [packAction, hu, if_false]
        split
        · simp
        · split
          · split <;> simp
          · simp

theorem listLoop_induct {o : Opts} {t : Nat} (P : D1 → List (ID × Nat) → Prop)
    (hstep : ∀ s id size rest s', P s ((id, size) :: rest) → listStep o t s id size = .ok s' → P s' rest) :
    ∀ (packs : List (ID × Nat)) (s s' : D1), P s packs → listLoop o t s packs = .ok s' → P s' [] := by
  intro packs
  induction packs with
  | nil => intro s s' hp h; simp only [listLoop] at h; injection h with h; subst h; exact hp
  | cons x rest ih =>
    intro s s' hp h
    obtain ⟨id, size⟩ := x
    simp only [listLoop] at h
    split at h
    · exact absurd h (by simp)
    · rename_i s1 hs1
      exact ih s1 s' (hstep s id size rest s1 hp hs1) h

/-- invariant of the listing loop (no assumption on the listing) -/
def ListInv (ip0 : IP) (all : List ID) (s : D1) (rest : List (ID × Nat)) : Prop :=
  (∀ q, s.ip q = ip0 q ∨ s.ip q = none) ∧
  (∀ q, s.ip q = none → ip0 q = none ∨ q ∈ all) ∧
  (∀ q ∈ s.removePacks, ub ip0 q = 0 ∧ q ∈ all) ∧
  (∀ q ∈ rest.map (·.1), q ∈ all) ∧
  (∀ q ∈ all, q ∉ rest.map (·.1) → s.ip q = none)

theorem listInv_step {o : Opts} {t : Nat} (ip0 : IP) (all : List ID) (s : D1) (id : ID) (size : Nat)
    (rest : List (ID × Nat)) (s' : D1) (hI : ListInv ip0 all s ((id, size) :: rest))
    (h : listStep o t s id size = .ok s') : ListInv ip0 all s' rest := by
  obtain ⟨hA, hB, hC, hE, hF⟩ := hI
  obtain ⟨hip, hn, hs⟩ := listStep_spec h
  have hid : id ∈ all := hE id (by simp)
  refine ⟨?_, ?_, ?_, ?_, ?_⟩
  · intro q; rw [hip q]; split
    · exact Or.inr rfl
    · exact hA q
  · intro q; rw [hip q]; split
    · rename_i hq; intro _; exact Or.inr (hq ▸ hid)
    · exact hB q
  · intro q hq
    cases hc : s.ip id with
    | none => rw [(hn hc).2] at hq; exact hC q hq
    | some info =>
      obtain ⟨_, h0, h1⟩ := hs info hc
      by_cases hu : info.usedBlobs = 0
      · rw [h0 hu] at hq
        rcases List.mem_append.mp hq with hq | hq
        · exact hC q hq
        · simp only [List.mem_singleton] at hq; subst hq
          refine ⟨?_, hid⟩
          rcases hA q with h2 | h2
          · unfold ub; rw [← h2, hc]; simpa using hu
          · rw [hc] at h2; exact absurd h2 (by simp)
      · rw [h1 hu] at hq; exact hC q hq
  · intro q hq; exact hE q (by simp only [List.map_cons, List.mem_cons]; exact Or.inr hq)
  · intro q hq hnr
    rw [hip q]; split
    · rfl
    · rename_i hne
      exact hF q hq (by simp only [List.map_cons, List.mem_cons, not_or]; exact ⟨hne, hnr⟩)

/-- with a duplicate-free listing: packs deleted first are not in the index map -/
def ListInvN (ip0 : IP) (s : D1) (rest : List (ID × Nat)) : Prop :=
  (rest.map (·.1)).Nodup ∧ (∀ q ∈ rest.map (·.1), s.ip q = ip0 q) ∧ (∀ q ∈ s.removeFirst, ip0 q = none)

theorem listInvN_step {o : Opts} {t : Nat} (ip0 : IP) (s : D1) (id : ID) (size : Nat)
    (rest : List (ID × Nat)) (s' : D1) (hI : ListInvN ip0 s ((id, size) :: rest))
    (h : listStep o t s id size = .ok s') : ListInvN ip0 s' rest := by
  obtain ⟨hN, hA, hB⟩ := hI
  obtain ⟨hip, hn, hs⟩ := listStep_spec h
  simp only [List.map_cons, List.nodup_cons] at hN
  refine ⟨hN.2, ?_, ?_⟩
  · intro q hq
    have hne : q ≠ id := fun hc => hN.1 (hc ▸ hq)
    rw [hip q]; simp only [hne, if_false]
    exact hA q (by simp only [List.map_cons, List.mem_cons]; exact Or.inr hq)
  · intro q hq
    cases hc : s.ip id with
    | none =>
      rw [(hn hc).1] at hq
      rcases List.mem_append.mp hq with hq | hq
      · exact hB q hq
      · simp only [List.mem_singleton] at hq; subst hq
        rw [← hA q (by simp)]; exact hc
    | some info => rw [(hs info hc).1] at hq; exact hB q hq

/-! ### missing packs -/

theorem ignoreFold_spec (ip0 : IP) : ∀ (keys : List ID) (s : D1 × List ID),
    (∀ q, s.1.ip q = ip0 q ∨ s.1.ip q = none) → (∀ q ∈ s.2, ub ip0 q = 0) →
    let r := keys.foldl ignoreStep s
    (∀ q, r.1.ip q = ip0 q ∨ r.1.ip q = none) ∧ (∀ q ∈ r.2, ub ip0 q = 0) ∧
    (∀ q, r.1.ip q = none → s.1.ip q = none ∨ q ∈ r.2) ∧
    r.1.removeFirst = s.1.removeFirst ∧ r.1.removePacks = s.1.removePacks ∧ (∀ q ∈ s.2, q ∈ r.2) ∧
    (∀ q ∈ r.2, q ∈ s.2 ∨ (s.1.ip q).isSome) := by
  intro keys
  induction keys with
  | nil => intro s h1 h2; exact ⟨h1, h2, fun q h => Or.inl h, rfl, rfl, fun q h => h, fun q h => Or.inl h⟩
  | cons k keys ih =>
    intro s h1 h2
    simp only [List.foldl_cons]
    have key : (∀ q, (ignoreStep s k).1.ip q = ip0 q ∨ (ignoreStep s k).1.ip q = none) ∧
        (∀ q ∈ (ignoreStep s k).2, ub ip0 q = 0) ∧
        (∀ q, (ignoreStep s k).1.ip q = none → s.1.ip q = none ∨ q ∈ (ignoreStep s k).2) ∧
        (ignoreStep s k).1.removeFirst = s.1.removeFirst ∧ (ignoreStep s k).1.removePacks = s.1.removePacks ∧
        (∀ q ∈ s.2, q ∈ (ignoreStep s k).2) ∧
        (∀ q ∈ (ignoreStep s k).2, q ∈ s.2 ∨ (s.1.ip q).isSome) ∧
        (∀ q, ((ignoreStep s k).1.ip q).isSome → (s.1.ip q).isSome) := by
      unfold ignoreStep
      cases hc : s.1.ip k with
      | none => exact ⟨h1, h2, fun q h => Or.inl h, rfl, rfl, fun q h => h, fun q h => Or.inl h, fun q h => h⟩
      | some p =>
        simp only
        split
        · rename_i hu
          refine ⟨?_, ?_, ?_, rfl, rfl, fun q h => List.mem_append_left _ h, ?_, ?_⟩
          rotate_left 3
          · intro q hq
            rcases List.mem_append.mp hq with hq | hq
            · exact Or.inl hq
            · simp only [List.mem_singleton] at hq; subst hq; right; simp [hc]
          · intro q; simp only [upd]; split
            · simp
            · exact id
          · intro q; simp only [upd]; split
            · exact Or.inr rfl
            · exact h1 q
          · intro q hq
            rcases List.mem_append.mp hq with hq | hq
            · exact h2 q hq
            · simp only [List.mem_singleton] at hq; subst hq
              rcases h1 q with h3 | h3
              · unfold ub; rw [← h3, hc]; simpa using hu
              · rw [hc] at h3; exact absurd h3 (by simp)
          · intro q; simp only [upd]; split
            · rename_i hq; intro _; exact Or.inr (by simp [hq])
            · intro h; exact Or.inl h
        · exact ⟨h1, h2, fun q h => Or.inl h, rfl, rfl, fun q h => h, fun q h => Or.inl h, fun q h => h⟩
    obtain ⟨k1, k2, k3, k4, k5, k6, k7, k8⟩ := key
    obtain ⟨r1, r2, r3, r4, r5, r6, r7⟩ := ih (ignoreStep s k) k1 k2
    refine ⟨r1, r2, ?_, r4.trans k4, r5.trans k5, fun q h => r6 q (k6 q h), ?_⟩
    · intro q hq
      rcases r3 q hq with h | h
      · rcases k3 q h with h | h
        · exact Or.inl h
        · exact Or.inr (r6 q h)
      · exact Or.inr h
    · intro q hq
      rcases r7 q hq with h | h
      · exact k7 q h
      · exact Or.inr (k8 q h)


/-! ### `decidePackAction` -/

theorem decide_spec {o : Opts} {choice : ID → Bool} {keys : List ID} {ip : IP} {packs : List (ID × Nat)}
    {st : Stats} {pl : Plan} (h : decidePackAction o choice keys ip packs st = .ok pl) :
    (∀ q ∈ pl.remove, ub ip q = 0 ∧ q ∈ packs.map (·.1)) ∧ (∀ q ∈ pl.ignore, ub ip q = 0) ∧
    (∀ q ∈ keys, (ip q).isSome → q ∈ packs.map (·.1) ∨ q ∈ pl.ignore) ∧
    ((packs.map (·.1)).Nodup → ∀ q ∈ pl.removeFirst, ip q = none) ∧
    (∀ q ∈ pl.ignore, q ∉ packs.map (·.1)) := by
  unfold decidePackAction at h
  simp only at h
  split at h
  · exact absurd h (by simp)
  · rename_i d hd
    have hI : ListInv ip (packs.map (·.1)) d [] :=
      listLoop_induct (ListInv ip (packs.map (·.1))) (listInv_step ip _) packs _ d
        ⟨fun q => Or.inl rfl, fun q hq => Or.inl hq, by simp, fun q hq => hq, fun q hq hn => absurd hq hn⟩ hd
    obtain ⟨hA, hB, hC, _, hF⟩ := hI
    have hIg := ignoreFold_spec ip keys (d, []) hA (by simp)
    generalize hr : keys.foldl ignoreStep (d, []) = r at h hIg
    obtain ⟨d2, ign⟩ := r
    simp only at h hIg
    obtain ⟨g1, g2, g3, g4, g5, _, g7⟩ := hIg
    split at h
    · exact absurd h (by simp)
    · rename_i hmiss
      injection h with h; subst h
      simp only
      refine ⟨?_, g2, ?_, ?_, ?_⟩
      rotate_left 3
      · intro q hq hin
        rcases g7 q hq with h1 | h1
        · simp at h1
        · rw [hF q hin (by simp)] at h1; simp at h1
      · intro q hq; rw [g5] at hq; exact hC q hq
      · intro q hq hsome
        have hnone : d2.ip q = none := by
          have hm2 : ∀ x ∈ keys, d2.ip x = none := by simpa using hmiss
          exact hm2 q hq
        rcases g3 q hnone with h1 | h1
        · rcases hB q h1 with h2 | h2
          · rw [h2] at hsome; simp at hsome
          · exact Or.inl h2
        · exact Or.inr h1
      · intro hN q hq
        rw [g4] at hq
        have hJ : ListInvN ip d [] :=
          listLoop_induct (ListInvN ip) (listInvN_step ip) packs _ d ⟨hN, fun q _ => rfl, by simp⟩ hd
        exact hJ.2.2 q hq

/-! ### the index map covers every pack of the index -/

theorem hdrFold_some (l : List PB) : ∀ (sz : HdrS) (p : ID),
    ((sz.f p).isSome ∨ p ∈ l.map (·.pack)) → ((l.foldl hdrStep sz).f p).isSome := by
  induction l with
  | nil => intro sz p h; simpa using h
  | cons pb l ih =>
    intro sz p h
    simp only [List.foldl_cons]
    apply ih
    by_cases hp : p = pb.pack
    · left; simp [hdrStep, upd, hp]
    · rcases h with h | h
      · left; simp [hdrStep, upd, hp, h]
      · right; simpa [hp] using h

theorem pass2Fold_some (cnt : Cnt) (l : List PB) : ∀ (s : S2) (p : ID), (s.ip p).isSome →
    ((l.foldl (pass2Step cnt) s).ip p).isSome := by
  induction l with
  | nil => intro s p h; exact h
  | cons pb l ih =>
    intro s p h
    simp only [List.foldl_cons]
    apply ih
    unfold pass2Step
    simp only [upd]
    split
    · simp
    · exact h

theorem pass3Step_some (s : S3) (pb : PB) (p : ID) (h : (s.ip p).isSome) : ((pass3Step s pb).ip p).isSome := by
  unfold pass3Step
  cases s.cnt pb.e.blob with
  | none => exact h
  | some count =>
    simp only
    split
    · exact h
    · split <;> (simp only [upd]; split <;> simp [h])

theorem pass3Fold_some (l : List PB) : ∀ (s : S3) (p : ID), (s.ip p).isSome →
    ((l.foldl pass3Step s).ip p).isSome := by
  induction l with
  | nil => intro s p h; exact h
  | cons pb l ih =>
    intro s p h
    simp only [List.foldl_cons]
    exact ih _ p (pass3Step_some s pb p h)

/-- main facts about a successful `packInfoFromIndex` -/
theorem packInfo_spec {used : List BlobH} {idx : List PB} {st : Stats} {pi : PackInfoResult}
    (h : packInfoFromIndex used idx st = .ok pi) :
    (∀ b ∈ used, ∃ pb ∈ idx, pb.e.blob = b ∧ 1 ≤ ub pi.ip pb.pack) ∧
    (∀ pb ∈ idx, (pi.ip pb.pack).isSome) := by
  unfold packInfoFromIndex at h
  simp only at h
  split at h
  · exact absurd h (by simp)
  · rename_i hm
    have core := packInfo_core used idx st (by simpa using hm)
    split at h
    · exact absurd h (by simp)
    · injection h with h; subst h
      simp only
      refine ⟨fun b hb => (core b hb).2, ?_⟩
      intro pb hpb
      have h0 : ((ipOf (hdrSizes idx)) pb.pack).isSome := by
        unfold ipOf
        rw [Option.isSome_map]
        exact hdrFold_some idx _ _ (Or.inr (List.mem_map_of_mem hpb))
      have h2 := pass2Fold_some (countPass used idx).f idx { ip := ipOf (hdrSizes idx), st := st, hasDup := false } pb.pack h0
      unfold pass23
      simp only
      split
      · exact pass3Fold_some idx _ _ h2
      · exact h2

theorem packInfo_no_panic (used : List BlobH) (idx : List PB) (st : Stats) :
    packInfoFromIndex used idx st ≠ .error .panicSelection := by
  unfold packInfoFromIndex
  simp only
  split
  · simp
  · rename_i hm
    have core := packInfo_core used idx st (by simpa using hm)
    split
    · rename_i hp
      exfalso
      simp only [List.any_eq_true, bne_iff_ne, ne_eq] at hp
      obtain ⟨b, hb, hne⟩ := hp
      exact hne (core b hb).1
    · simp

end Restic.Proofs.C09Plan
