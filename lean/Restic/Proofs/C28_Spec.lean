import Restic.Proofs.C28_Closure
/-!
# C28 helper lemmas, part 5: the executable specification `specMatch` decides `MatchSpec`
-/
namespace Restic.Proofs.C28
open Restic.Model.Filter

theorem windowB_iff (glob : Glob) : ∀ (qs : List Part) (cs : List Str),
    windowB glob qs cs = true ↔
      (qs.length ≤ cs.length ∧ ∀ (i : Nat) (p : Part) (c : Str), qs[i]? = some p → cs[i]? = some c → PartOK glob p c)
  | [], cs => by simp [windowB]
  | q :: qs, [] => by simp [windowB]
  | q :: qs, c :: cs => by
    simp only [windowB, Bool.and_eq_true, decide_eq_true_eq, List.length_cons, Nat.add_le_add_iff_right]
    rw [windowB_iff glob qs cs]
    constructor
    · rintro ⟨h1, h2, h3⟩
      refine ⟨h2, ?_⟩
      intro i p c' hp hc
      cases i with
      | zero =>
        simp only [List.getElem?_cons_zero, Option.some.injEq] at hp hc
        subst hp; subst hc; exact h1
      | succ i =>
        simp only [List.getElem?_cons_succ] at hp hc
        exact h3 i p c' hp hc
    · rintro ⟨h1, h2⟩
      refine ⟨h2 0 q c (by simp) (by simp), h1, ?_⟩
      intro i p c' hp hc
      exact h2 (i + 1) p c' (by simpa using hp) (by simpa using hc)

theorem windowAt_iff_windowB (glob : Glob) (qs : List Part) (strs : List Str) (off : Nat)
    (hoff : off ≤ strs.length) :
    WindowAt glob qs strs off ↔ windowB glob qs (strs.drop off) = true := by
  rw [windowB_iff]
  unfold WindowAt
  simp only [List.length_drop, List.getElem?_drop]
  constructor
  · rintro ⟨h1, h2⟩; exact ⟨by omega, h2⟩
  · rintro ⟨h1, h2⟩; exact ⟨by omega, h2⟩

theorem flatMatchB_iff (glob : Glob) (qs : List Part) (strs : List Str) :
    flatMatchB glob qs strs = true ↔ MatchFlatSpec glob qs strs := by
  cases qs with
  | nil => simp [flatMatchB, MatchFlatSpec]
  | cons q0 qt =>
    simp only [flatMatchB, MatchFlatSpec, List.any_eq_true, List.mem_range, Bool.and_eq_true]
    constructor
    · rintro ⟨off, hlt, hw, hc⟩
      have hoff : off ≤ strs.length := by omega
      refine ⟨off, (windowAt_iff_windowB glob _ strs off hoff).mpr hw, ?_, ?_⟩
      · intro habs
        rw [if_pos habs] at hc
        simpa using hc
      · intro habs hhead
        rw [if_neg habs, if_pos hhead] at hc
        simpa using hc
    · rintro ⟨off, hw, h1, h2⟩
      have hoff : off ≤ strs.length := by have := hw.1; omega
      refine ⟨off, by omega, (windowAt_iff_windowB glob _ strs off hoff).mp hw, ?_⟩
      by_cases habs : q0.pat = slash
      · rw [if_pos habs]; simpa using h1 habs
      · rw [if_neg habs]
        by_cases hhead : strs.head? = some slash
        · rw [if_pos hhead]; simpa using h2 habs hhead
        · rw [if_neg hhead]

theorem mem_expansions (ps : List Part) : ∀ (budget : Nat) (qs : List Part),
    qs ∈ expansions ps budget ↔ (Expand ps qs ∧ qs.length ≤ budget) := by
  induction ps with
  | nil =>
    intro budget qs
    simp only [expansions, List.mem_singleton]
    constructor
    · intro h; subst h; exact ⟨Expand.nil, by simp⟩
    · rintro ⟨h, _⟩; cases h; rfl
  | cons p ps ih =>
    intro budget qs
    unfold expansions
    by_cases hp : p.pat = []
    · rw [if_pos hp]
      simp only [List.mem_flatMap, List.mem_range, List.mem_map]
      constructor
      · rintro ⟨k, hk, q, hq, rfl⟩
        rcases (ih (budget - k) q).mp hq with ⟨he, hl⟩
        refine ⟨Expand.dw k hp he, ?_⟩
        simp only [List.length_append, List.length_replicate]; omega
      · rintro ⟨he, hl⟩
        cases he with
        | keep hk _ => exact absurd hp hk
        | dw k _ he' =>
          simp only [List.length_append, List.length_replicate] at hl
          exact ⟨k, by omega, _, (ih (budget - k) _).mpr ⟨he', by omega⟩, rfl⟩
    · rw [if_neg hp]
      by_cases hb : budget = 0
      · rw [if_pos hb]
        simp only [List.not_mem_nil, false_iff]
        rintro ⟨he, hl⟩
        cases he with
        | keep _ _ => simp at hl; omega
        | dw k hk _ => exact absurd hk hp
      · rw [if_neg hb]
        simp only [List.mem_map]
        constructor
        · rintro ⟨q, hq, rfl⟩
          rcases (ih (budget - 1) q).mp hq with ⟨he, hl⟩
          exact ⟨Expand.keep hp he, by simp only [List.length_cons]; omega⟩
        · rintro ⟨he, hl⟩
          cases he with
          | keep _ he' =>
            simp only [List.length_cons] at hl
            exact ⟨_, (ih (budget - 1) _).mpr ⟨he', by omega⟩, rfl⟩
          | dw k hk _ => exact absurd hk hp

/-- the executable specification decides the documented meaning -/
theorem specMatch_iff (glob : Glob) (ps : List Part) (strs : List Str) :
    specMatch glob ps strs = true ↔ MatchSpec glob ps strs := by
  simp only [specMatch, List.any_eq_true, MatchSpec]
  constructor
  · rintro ⟨qs, hq, hm⟩
    exact ⟨qs, ((mem_expansions ps _ qs).mp hq).1, (flatMatchB_iff glob qs strs).mp hm⟩
  · rintro ⟨qs, he, hm⟩
    exact ⟨qs, (mem_expansions ps _ qs).mpr ⟨he, matchFlatSpec_len hm⟩, (flatMatchB_iff glob qs strs).mpr hm⟩

end Restic.Proofs.C28
