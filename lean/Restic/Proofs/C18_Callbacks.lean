import Restic.Model.RestoreTree
import Restic.Proofs.C18_FS
import Restic.Proofs.C18_Ops
import Restic.Proofs.C18_Ensure
/-!
The operations of the visitor callbacks, applied below a chain of real directories `D`:
each changes only `D ++ [name]` and what lies below it.
-/
namespace Restic.Model.RestoreTree
open Restic.Model.RestoreFS

/-- facts that survive an update confined to `D ++ [name]` and below -/
theorem real_after {fs fs' : FS} {D : Path} {name : Name} (h : Only (D ++ [name]) fs fs')
    (hr : RealFrom fs [] D) : RealFrom fs' [] D :=
  realFrom_of_only h D (fun k _ => not_prefix_take D name k) hr

theorem removeIfThere_only (fs : FS) (D : Path) (name : Name) (hD : PlainPath D) (hn : PlainName name)
    (hr : RealFrom fs [] D) :
    Only (D ++ [name]) fs (removeIfThere fs (D ++ [name])).1 := by
  unfold removeIfThere
  cases lstat fs (D ++ [name]) with
  | none => exact Only.refl _ _
  | some e => exact (remove_only fs _ (Or.inr (locate_real fs D name hD hn hr))).1

theorem nodeCreateAt_only (fs : FS) (n : Node) (D : Path) (name : Name) (hD : PlainPath D)
    (hn : PlainName name) (hr : RealFrom fs [] D) :
    Only (D ++ [name]) fs (nodeCreateAt fs n (D ++ [name])).1 := by
  have hl : Lex fs (D ++ [name]) := Or.inr (locate_real fs D name hD hn hr)
  unfold nodeCreateAt
  cases n.type with
  | symlink => exact symlink_only fs _ _ _ hl
  | fifo => exact mknod_only fs _ _ hl
  | dir =>
    simp only
    have := (mkdir_only fs (D ++ [name]) n.mode hl).1
    cases hm : mkdir fs (D ++ [name]) n.mode with
    | mk f b => rw [hm] at this; exact this
  | file => exact (createFile_only fs _ _ _ hl).1
  | socket => exact Only.refl _ _
  | other => exact Only.refl _ _

section
variable (cfg : Cfg) (hmeta : cfg.metaFix = true)
include hmeta

/-- `restoreNodeMetadataTo` with the type check -/
theorem restoreMetadata_only (fs : FS) (n : Node) (d : Path) (name : Name)
    (hD : PlainPath (cfg.dst ++ d)) (hn : PlainName name) (hr : RealFrom fs [] (cfg.dst ++ d)) :
    Only ((cfg.dst ++ d) ++ [name]) fs (restoreMetadata cfg fs n (d ++ [name])).1 := by
  have hp : cfg.dst ++ (d ++ [name]) = (cfg.dst ++ d) ++ [name] := by simp
  unfold restoreMetadata
  by_cases ht : (n.type == NType.symlink) = true
  · rw [if_pos ht]; exact Only.refl _ _
  · rw [if_neg ht, if_pos hmeta, hp, lstat_real fs _ name hD hn hr]
    cases hg : fs.get ((cfg.dst ++ d) ++ [name]) with
    | none => exact Only.refl _ _
    | some e =>
      simp only
      split
      · exact Only.refl _ _
      · rename_i hs
        apply chmod_only fs _ _ (locate_real fs _ name hD hn hr)
        unfold isSym
        rw [hg]
        simpa using hs

/-- `restoreNodeTo` -/
theorem restoreNodeTo_only (fs : FS) (n : Node) (d : Path) (name : Name)
    (hD : PlainPath (cfg.dst ++ d)) (hn : PlainName name) (hr : RealFrom fs [] (cfg.dst ++ d)) :
    Only ((cfg.dst ++ d) ++ [name]) fs (restoreNodeTo cfg fs n (d ++ [name])).1 := by
  have hp : cfg.dst ++ (d ++ [name]) = (cfg.dst ++ d) ++ [name] := by simp
  unfold restoreNodeTo
  dsimp only
  rw [hp]
  have h1 := removeIfThere_only fs (cfg.dst ++ d) name hD hn hr
  cases hs1 : removeIfThere fs ((cfg.dst ++ d) ++ [name]) with
  | mk fs1 ok1 =>
    rw [hs1] at h1
    simp only at h1 ⊢
    cases ok1 with
    | false => simpa using h1
    | true =>
      simp only [Bool.not_true, Bool.false_eq_true, if_false]
      have hr1 := real_after h1 hr
      have h2 := nodeCreateAt_only fs1 n (cfg.dst ++ d) name hD hn hr1
      cases hs2 : nodeCreateAt fs1 n ((cfg.dst ++ d) ++ [name]) with
      | mk fs2 ok2 =>
        rw [hs2] at h2
        simp only at h2
        cases ok2 with
        | false => exact Only.trans h1 h2
        | true =>
          have hr2 := real_after h2 hr1
          exact Only.trans (Only.trans h1 h2) (restoreMetadata_only cfg hmeta fs2 n d name hD hn hr2)

/-- `restoreHardlinkAt` -/
theorem restoreHardlinkAt_only (fs : FS) (n : Node) (orig d : Path) (name : Name)
    (hD : PlainPath (cfg.dst ++ d)) (hn : PlainName name) (hr : RealFrom fs [] (cfg.dst ++ d)) :
    Only ((cfg.dst ++ d) ++ [name]) fs (restoreHardlinkAt cfg fs n orig (d ++ [name])).1 := by
  have hp : cfg.dst ++ (d ++ [name]) = (cfg.dst ++ d) ++ [name] := by simp
  unfold restoreHardlinkAt
  dsimp only
  rw [hp]
  have h1 := removeIfThere_only fs (cfg.dst ++ d) name hD hn hr
  cases hs1 : removeIfThere fs ((cfg.dst ++ d) ++ [name]) with
  | mk fs1 ok1 =>
    rw [hs1] at h1
    simp only at h1 ⊢
    cases ok1 with
    | false => simpa using h1
    | true =>
      simp only [Bool.not_true, Bool.false_eq_true, if_false]
      have hr1 := real_after h1 hr
      have h2 := link_only fs1 (cfg.dst ++ orig) ((cfg.dst ++ d) ++ [name])
        (Or.inr (locate_real fs1 _ name hD hn hr1))
      cases hs2 : link fs1 (cfg.dst ++ orig) ((cfg.dst ++ d) ++ [name]) with
      | mk fs2 ok2 =>
        rw [hs2] at h2
        simp only at h2
        cases ok2 with
        | false => exact Only.trans h1 h2
        | true =>
          have hr2 := real_after h2 hr1
          exact Only.trans (Only.trans h1 h2) (restoreMetadata_only cfg hmeta fs2 n d name hD hn hr2)

end

/-- the deletion loop of `removeUnexpectedFiles` below a real directory chain `D = dst ++ rel` -/
theorem removeEntries_frame (cfg : Cfg) (rel : Path) (keep : List Name) (entries : List Name) (fs : FS)
    (hD : PlainPath (cfg.dst ++ rel)) (hr : RealFrom fs [] (cfg.dst ++ rel)) :
    Frame (cfg.dst ++ rel) fs (removeEntries cfg rel keep entries fs).1 := by
  induction entries generalizing fs with
  | nil => exact Frame.refl _ _
  | cons e rest ih =>
    simp only [removeEntries]
    split
    · exact ih fs hr
    · split
      · exact Frame.refl _ _
      · rename_i hpl
        have hpn : PlainName e := plainName_of_plain (by simpa using hpl)
        split
        · have hl : Lex fs (cfg.dst ++ rel ++ [e]) := Or.inr (locate_real fs _ e hD hpn hr)
          have ho := (removeAll_only fs (cfg.dst ++ rel ++ [e]) hl).1
          have hf : Frame (cfg.dst ++ rel) fs (removeAll fs (cfg.dst ++ rel ++ [e])).1 :=
            ho.frame (inside_append _ [e] (by simp))
          cases hra : removeAll fs (cfg.dst ++ rel ++ [e]) with
          | mk fs1 ok =>
            rw [hra] at ho hf
            simp only at ho hf
            cases ok with
            | false => exact hf
            | true =>
              simp only
              exact Frame.trans hf (ih fs1 (real_after ho hr))
        · exact ih fs hr

theorem removeUnexpectedFiles_frame (cfg : Cfg) (fs : FS) (rel : Path) (expected : List Name)
    (hD : PlainPath (cfg.dst ++ rel)) (hr : RealFrom fs [] (cfg.dst ++ rel)) :
    Frame (cfg.dst ++ rel) fs (removeUnexpectedFiles cfg fs rel expected).1 := by
  unfold removeUnexpectedFiles
  cases readdir fs (cfg.dst ++ rel) with
  | none => exact Frame.refl _ _
  | some r =>
    obtain ⟨ok, entries⟩ := r
    cases ok with
    | false => exact Frame.refl _ _
    | true => exact removeEntries_frame cfg rel expected entries fs hD hr

end Restic.Model.RestoreTree
