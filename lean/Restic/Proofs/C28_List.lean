import Restic.Proofs.C28_Spec
/-!
# C28 helper lemmas, part 6: `list` (negated patterns, early break)
-/
namespace Restic.Proofs.C28
open Restic.Model.Filter

/-- one iteration of `list` without the `break` -/
def listStep (m c neg : Bool) (acc : Bool × Bool) : Bool × Bool :=
  if neg then (acc.1 && !m, acc.2 && !m) else (acc.1 || m, acc.2 || c)

/-- `list` as a plain fold: `mf p`, `cf p` = answers of match / childMatch for pattern `p` -/
def listFold (mf cf : Pattern → Bool) (pats : List Pattern) (acc : Bool × Bool) : Bool × Bool :=
  pats.foldl (fun acc p => listStep (mf p) (cf p) p.negated acc) acc

theorem listFold_tt (mf cf : Pattern → Bool) (pats : List Pattern)
    (h : ∀ p ∈ pats, p.negated = false) : listFold mf cf pats (true, true) = (true, true) := by
  induction pats with
  | nil => rfl
  | cons p ps ih =>
    simp only [listFold, List.foldl_cons]
    have hp : p.negated = false := h p (by simp)
    simp only [listStep, hp, Bool.false_eq_true, if_false, Bool.true_or]
    exact ih (fun q hq => h q (by simp [hq]))

theorem listLoop_eq_fold (glob : Glob) (checkChild hasNeg : Bool) (strs : List Str)
    (mf cf : Pattern → Bool) :
    ∀ (pats : List Pattern) (m c : Bool),
      (∀ p ∈ pats, matchGo glob p.parts strs = .ok (mf p)) →
      (∀ p ∈ pats, (if checkChild then childMatch glob p.parts strs else .ok true) = .ok (cf p)) →
      (hasNeg = false → ∀ p ∈ pats, p.negated = false) →
      listLoop glob checkChild hasNeg strs pats m c = .ok (listFold mf cf pats (m, c)) := by
  intro pats
  induction pats with
  | nil => intro m c _ _ _; rfl
  | cons p ps ih =>
    intro m c hm hc hneg
    unfold listLoop
    rw [hm p (by simp)]
    simp only
    rw [hc p (by simp)]
    simp only
    have hm' : ∀ q ∈ ps, matchGo glob q.parts strs = .ok (mf q) := fun q hq => hm q (by simp [hq])
    have hc' : ∀ q ∈ ps, (if checkChild then childMatch glob q.parts strs else .ok true) = .ok (cf q) :=
      fun q hq => hc q (by simp [hq])
    have hneg' : hasNeg = false → ∀ q ∈ ps, q.negated = false := fun h q hq => hneg h q (by simp [hq])
    by_cases hn : p.negated = true
    · rw [if_pos hn]
      rw [ih _ _ hm' hc' hneg']
      simp [listFold, listStep, hn]
    · have hn' : p.negated = false := by simpa using hn
      rw [if_neg hn]
      by_cases hbr : ((m || mf p) && (c || cf p) && !hasNeg) = true
      · rw [if_pos hbr]
        simp only [Bool.and_eq_true, Bool.not_eq_true'] at hbr
        rcases hbr with ⟨⟨h1, h2⟩, h3⟩
        simp only [listFold, List.foldl_cons, listStep, hn', Bool.false_eq_true, if_false]
        rw [h1, h2]
        exact congrArg Res.ok (listFold_tt mf cf ps (hneg' h3)).symm
      · rw [if_neg hbr]
        rw [ih _ _ hm' hc' hneg']
        simp [listFold, listStep, hn']

theorem listFold_fst (mf cf : Pattern → Bool) (pats : List Pattern) (acc : Bool × Bool) :
    (listFold mf cf pats acc).1 =
      pats.foldl (fun a p => if p.negated then a && !mf p else a || mf p) acc.1 := by
  induction pats generalizing acc with
  | nil => rfl
  | cons p ps ih =>
    simp only [listFold, List.foldl_cons] at ih ⊢
    rw [ih]
    congr 1
    unfold listStep
    split <;> rfl

/-- relating the folds on a path and on an extension of it -/
theorem listFold_child_sound (mfE cfE mfS cfS : Pattern → Bool) (pats : List Pattern)
    (hchild : ∀ p ∈ pats, mfE p = true → cfS p = true)
    (hup : ∀ p ∈ pats, mfS p = true → mfE p = true) :
    ∀ accE accS : Bool × Bool, (accE.1 = true → accS.2 = true) →
      (listFold mfE cfE pats accE).1 = true → (listFold mfS cfS pats accS).2 = true := by
  induction pats with
  | nil => intro accE accS h; exact h
  | cons p ps ih =>
    intro accE accS h
    simp only [listFold, List.foldl_cons]
    apply ih (fun q hq => hchild q (by simp [hq])) (fun q hq => hup q (by simp [hq]))
    by_cases hn : p.negated = true
    · simp only [listStep, hn, if_true, Bool.and_eq_true, Bool.not_eq_true']
      rintro ⟨h1, h2⟩
      refine ⟨h h1, ?_⟩
      cases hS : mfS p with
      | false => rfl
      | true => rw [hup p (by simp) hS] at h2; cases h2
    · have hn' : p.negated = false := by simpa using hn
      simp only [listStep, hn', Bool.false_eq_true, if_false, Bool.or_eq_true]
      rintro (h1 | h1)
      · exact Or.inl (h h1)
      · exact Or.inr (hchild p (by simp) h1)

theorem listFold_upward (mfE cfE mfS cfS : Pattern → Bool) (pats : List Pattern)
    (hnoneg : ∀ p ∈ pats, p.negated = false)
    (hup : ∀ p ∈ pats, mfS p = true → mfE p = true) :
    ∀ accE accS : Bool × Bool, (accS.1 = true → accE.1 = true) →
      (listFold mfS cfS pats accS).1 = true → (listFold mfE cfE pats accE).1 = true := by
  induction pats with
  | nil => intro accE accS h; exact h
  | cons p ps ih =>
    intro accE accS h
    simp only [listFold, List.foldl_cons]
    apply ih (fun q hq => hnoneg q (by simp [hq])) (fun q hq => hup q (by simp [hq]))
    have hn : p.negated = false := hnoneg p (by simp)
    simp only [listStep, hn, Bool.false_eq_true, if_false, Bool.or_eq_true]
    rintro (h1 | h1)
    · exact Or.inl (h h1)
    · exact Or.inr (hup p (by simp) h1)

end Restic.Proofs.C28

namespace Restic.Proofs.C28
open Restic.Model.Filter

/-- whenever `list` reports a match it also reports "children may match" (each single pattern
    that matches also child-matches; a negated pattern clears both answers together) -/
theorem listFold_matched_child (mf cf : Pattern → Bool) (pats : List Pattern)
    (h : ∀ p ∈ pats, mf p = true → cf p = true) :
    ∀ acc : Bool × Bool, (acc.1 = true → acc.2 = true) →
      (listFold mf cf pats acc).1 = true → (listFold mf cf pats acc).2 = true := by
  induction pats with
  | nil => intro acc h; exact h
  | cons p ps ih =>
    intro acc hacc
    simp only [listFold, List.foldl_cons]
    apply ih (fun q hq => h q (by simp [hq]))
    by_cases hn : p.negated = true
    · simp only [listStep, hn, if_true, Bool.and_eq_true, Bool.not_eq_true']
      rintro ⟨h1, h2⟩
      exact ⟨hacc h1, h2⟩
    · have hn' : p.negated = false := by simpa using hn
      simp only [listStep, hn', Bool.false_eq_true, if_false, Bool.or_eq_true]
      rintro (h1 | h1)
      · exact Or.inl (hacc h1)
      · exact Or.inr (h p (by simp) h1)

end Restic.Proofs.C28
