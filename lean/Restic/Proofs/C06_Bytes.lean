import Restic.Model.Pack
/-!
Byte-level helper lemmas for C06: little-endian round trip, slicing, one header entry.
-/
namespace Restic.Proofs.C06
open Restic.Model.Pack Restic.Gen

/-! ## structural facts about the regenerated layout constants -/

theorem facts_layout :
    pack_headerLengthSize = 4 ∧
    pack_plainEntrySize = 1 + pack_headerLengthSize + restic_idSize ∧
    pack_entrySize = 1 + 2 * pack_headerLengthSize + restic_idSize ∧
    pack_headerSize = pack_headerLengthSize + crypto_Extension ∧
    crypto_Extension = crypto_ivSize + crypto_macSize ∧
    pack_minFileSize = pack_plainEntrySize + crypto_Extension + pack_headerLengthSize ∧
    pack_MaxHeaderSize < 4294967296 ∧
    restic_DataBlob ≠ restic_TreeBlob := by decide

theorem le32_length (n : Nat) : (le32 n).length = 4 := rfl

theorem unle32_le32 (n : Nat) : unle32 (le32 n) = n % 4294967296 := by
  simp only [le32, unle32, UInt8.toNat_ofNat']
  omega

theorem unle32_le32_of_lt (n : Nat) (h : n < 4294967296) : unle32 (le32 n) = n := by
  rw [unle32_le32]; omega

theorem unle32_lt (b : Bytes) : unle32 b < 4294967296 := by
  unfold unle32
  split
  · rename_i a b c d
    have := a.toNat_lt; have := b.toNat_lt; have := c.toNat_lt; have := d.toNat_lt
    omega
  · omega

structure WF (b : Blob) : Prop where
  type : b.type = restic_DataBlob ∨ b.type = restic_TreeBlob
  id : b.id.length = restic_idSize
  length : b.length < 4294967296
  ulen : b.ulen < 4294967296

def entrySizeOf (b : Blob) : Nat := if b.ulen ≠ 0 then pack_entrySize else pack_plainEntrySize

theorem copyID_append (id rest : Bytes) (h : id.length = restic_idSize) : copyID (id ++ rest) = id := by
  unfold copyID
  rw [← h]
  simp

theorem parse_encEntry (b : Blob) (e rest : Bytes) (hwf : WF b) (h : encEntry b = some e) :
    parseHeaderEntry (e ++ rest) = .ok ({ b with offset := 0 }, entrySizeOf b) := by
  obtain ⟨ht, hid, hl, hu⟩ := hwf
  cases b with
  | mk type id length offset ulen =>
  simp only at ht hid hl hu
  have hdt : restic_DataBlob ≠ restic_TreeBlob := facts_layout.2.2.2.2.2.2.2
  have hlen := unle32_le32_of_lt length hl
  have hulen := unle32_le32_of_lt ulen hu
  simp only [le32] at hlen hulen
  have hcid := copyID_append id rest hid
  unfold encEntry typeByte at h
  by_cases hz : ulen = 0
  · subst hz
    rcases ht with ht | ht
    · subst ht
      simp only [and_self, if_true, ne_eq, not_true_eq_false, if_false, List.nil_append] at h
      cases h
      unfold parseHeaderEntry
      simp [le32, entrySizeOf, slice?, from?, pack_plainEntrySize, hid, restic_idSize]
      rw [if_neg (by omega)]
      simp [hlen, hcid]
    · subst ht
      simp only [hdt.symm, false_and, and_self, if_true, if_false, ne_eq, not_true_eq_false, List.nil_append] at h
      cases h
      unfold parseHeaderEntry
      simp [le32, entrySizeOf, slice?, from?, pack_plainEntrySize, hid, restic_idSize]
      rw [if_neg (by omega)]
      simp [hlen, hcid]
  · rcases ht with ht | ht
    · subst ht
      simp only [hz, and_false, if_false, ne_eq, not_false_eq_true, and_self, if_true, hdt] at h
      cases h
      unfold parseHeaderEntry
      simp [le32, entrySizeOf, slice?, from?, pack_plainEntrySize, pack_entrySize, hid, restic_idSize, hz]
      rw [if_neg (by omega), if_neg (by omega)]
      simp [hlen, hulen, hcid]
    · subst ht
      simp only [hz, and_false, if_false, ne_eq, not_false_eq_true, and_self, if_true, hdt.symm, false_and] at h
      cases h
      unfold parseHeaderEntry
      simp [le32, entrySizeOf, slice?, from?, pack_plainEntrySize, pack_entrySize, hid, restic_idSize, hz]
      rw [if_neg (by omega), if_neg (by omega)]
      simp [hlen, hulen, hcid]


theorem encEntry_length (b : Blob) (e : Bytes) (hid : b.id.length = restic_idSize) (h : encEntry b = some e) :
    e.length = entrySizeOf b := by
  unfold encEntry at h
  cases htb : typeByte b with
  | none => simp [htb] at h
  | some tb =>
    simp only [htb, Option.some.injEq] at h
    subst h
    have hf := facts_layout
    unfold entrySizeOf
    by_cases hz : b.ulen = 0
    · simp only [hz, ne_eq, not_true_eq_false, if_false, List.nil_append, List.length_cons, List.length_append, le32_length, hid]
      omega
    · simp only [hz, ne_eq, not_false_eq_true, if_true, List.length_cons, List.length_append, le32_length, hid]
      omega

theorem entrySizeOf_pos (b : Blob) : 0 < entrySizeOf b := by
  have hf := facts_layout
  unfold entrySizeOf
  split <;> omega

theorem encEntry_isSome (b : Blob) (ht : b.type = restic_DataBlob ∨ b.type = restic_TreeBlob) :
    ∃ e, encEntry b = some e := by
  have hdt : restic_TreeBlob ≠ restic_DataBlob := fun h => facts_layout.2.2.2.2.2.2.2 h.symm
  unfold encEntry typeByte
  by_cases hz : b.ulen = 0 <;> rcases ht with ht | ht <;> simp [ht, hz, hdt]

end Restic.Proofs.C06
