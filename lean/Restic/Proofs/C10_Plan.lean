import Restic.Proofs.C09_Plan
/-!
Helper lemmas for C10: under full-prune options no pack with waste survives planning.
-/
namespace Restic.Proofs.C10Plan
open Restic.Model.Repo Restic.Model.Prune Restic.Proofs.C09Select Restic.Proofs.C09Plan

/-- a pack is kept (directly or as one of fewer than 10 small packs) only without unused blobs,
    unless `--repack-cacheable-only` protects data packs -/
theorem packAction_keep_no_waste (o : Opts) (t : Nat) (p : PackInfo) (size : Nat) (hc : o.repackCacheableOnly = false)
    (h : packAction o t p size = .keep ∨ packAction o t p size = .small) : p.unusedBlobs = 0 := by
  unfold packAction at h
  split at h
  · rcases h with h | h <;> simp at h
  · split at h
    · rename_i hco; simp [hc] at hco
    · split at h
      · rename_i hk; exact hk.1
      · rcases h with h | h <;> simp at h

/-- where a listed, indexed pack ends up -/
def Classified (s : D1) (id : ID) (info : PackInfo) : Prop :=
  id ∈ s.removePacks ∨ (∃ c ∈ s.cands, c.id = id) ∨ ((∃ c ∈ s.small, c.id = id) ∧ info.unusedBlobs = 0) ∨ info.unusedBlobs = 0

def ClassInv (ip0 : IP) (s : D1) (_rest : List (ID × Nat)) : Prop :=
  ∀ id, s.ip id = ip0 id ∨ (s.ip id = none ∧ ∀ info, ip0 id = some info → Classified s id info)

theorem classInv_step {o : Opts} {t : Nat} (hc : o.repackCacheableOnly = false) (ip0 : IP) (s : D1) (id : ID) (size : Nat)
    (rest : List (ID × Nat)) (s' : D1) (hI : ClassInv ip0 s ((id, size) :: rest))
    (h : listStep o t s id size = .ok s') : ClassInv ip0 s' rest := by
  -- lists only grow
  have grow : ∀ q info, Classified s q info → Classified s' q info := by
    intro q info hq
    unfold listStep at h
    split at h
    · injection h with h; subst h; exact hq
    · split at h
      · exact absurd h (by simp)
      · injection h with h; subst h
        rcases hq with hq | ⟨c, hc1, hc2⟩ | ⟨⟨c, hc1, hc2⟩, hu⟩ | hq
        · left; simp only; split
          · exact List.mem_append_left _ hq
          · exact hq
        · right; left; refine ⟨c, ?_, hc2⟩; simp only; split
          · exact List.mem_append_left _ hc1
          · exact hc1
        · right; right; left; refine ⟨⟨c, ?_, hc2⟩, hu⟩; simp only; split
          · exact List.mem_append_left _ hc1
          · exact hc1
        · right; right; right; exact hq
  intro q
  by_cases hq : q = id
  · subst hq
    right
    obtain ⟨hip, _, _⟩ := listStep_spec h
    refine ⟨by rw [hip q]; simp, ?_⟩
    intro info hinfo
    rcases hI q with h1 | ⟨_, h1⟩
    · -- first visit: classified now
      rw [hinfo] at h1
      unfold listStep at h
      rw [h1] at h
      simp only at h
      split at h
      · exact absurd h (by simp)
      · injection h with h; subst h
        cases ha : packAction o t info size with
        | remove => left; simp
        | cand => right; left; exact ⟨{ id := q, info := info, mustCompress := mustCompressOf o info }, by simp, rfl⟩
        | small =>
          right; right; left
          exact ⟨⟨{ id := q, info := info, mustCompress := mustCompressOf o info }, by simp, rfl⟩, packAction_keep_no_waste o t info size hc (Or.inr ha)⟩
        | keep => right; right; right; exact packAction_keep_no_waste o t info size hc (Or.inl ha)
    · exact grow q info (h1 info hinfo)
  · obtain ⟨hip, _, _⟩ := listStep_spec h
    rcases hI q with h1 | ⟨h1, h2⟩
    · left; rw [hip q]; simp [hq, h1]
    · right; exact ⟨by rw [hip q]; simp [hq, h1], fun info hi => grow q info (h2 info hi)⟩

theorem ignoreFold_cands : ∀ (keys : List ID) (s : D1 × List ID),
    (keys.foldl ignoreStep s).1.cands = s.1.cands ∧ (keys.foldl ignoreStep s).1.small = s.1.small := by
  intro keys
  induction keys with
  | nil => intro s; exact ⟨rfl, rfl⟩
  | cons k keys ih =>
    intro s
    simp only [List.foldl_cons]
    obtain ⟨h1, h2⟩ := ih (ignoreStep s k)
    have : (ignoreStep s k).1.cands = s.1.cands ∧ (ignoreStep s k).1.small = s.1.small := by
      unfold ignoreStep
      split
      · exact ⟨rfl, rfl⟩
      · split <;> exact ⟨rfl, rfl⟩
    exact ⟨h1.trans this.1, h2.trans this.2⟩

theorem selFold_all (l : List Cand) : ∀ (s : Stats × List ID),
    (l.foldl (selStep fun _ => true) s).2 = s.2 ++ l.map (·.id) := by
  induction l with
  | nil => intro s; simp
  | cons c l ih => intro s; simp [List.foldl_cons, ih, selStep]

/-- **no pack with waste survives a full prune plan**: with every candidate repacked (forced by
    `--max-unused 0` without repack limit) and without `--repack-cacheable-only`, every listed,
    indexed pack is deleted, repacked, or has no unused blob. -/
theorem decide_full_no_waste {o : Opts} {keys : List ID} {ip : IP} {packs : List (ID × Nat)} {st : Stats} {pl : Plan}
    (hc : o.repackCacheableOnly = false)
    (h : decidePackAction o (fun _ => true) keys ip packs st = .ok pl) :
    ∀ id ∈ packs.map (·.1), ∀ info, ip id = some info →
      id ∈ pl.remove ∨ id ∈ pl.repack ∨ info.unusedBlobs = 0 := by
  unfold decidePackAction at h
  simp only at h
  split at h
  · exact absurd h (by simp)
  · rename_i d hd
    have hI : ListInv ip (packs.map (·.1)) d [] :=
      listLoop_induct (ListInv ip (packs.map (·.1))) (listInv_step ip _) packs _ d
        ⟨fun q => Or.inl rfl, fun q hq => Or.inl hq, by simp, fun q hq => hq, fun q hq hn => absurd hq hn⟩ hd
    have hC : ClassInv ip d [] :=
      listLoop_induct (ClassInv ip) (classInv_step hc ip) packs _ d (fun q => Or.inl rfl) hd
    obtain ⟨_, _, _, _, hF⟩ := hI
    have hIg := ignoreFold_spec ip keys (d, []) (fun q => by
      rcases hC q with h1 | h1
      · exact Or.inl h1
      · exact Or.inr h1.1) (by simp)
    generalize hr : keys.foldl ignoreStep (d, []) = r at h hIg
    obtain ⟨d2, ign⟩ := r
    simp only at h hIg
    obtain ⟨_, _, _, _, g5, _, _⟩ := hIg
    split at h
    · exact absurd h (by simp)
    · injection h with h; subst h
      simp only
      intro id hid info hinfo
      have hnone := hF id hid (by simp)
      have hcl : Classified d id info := by
        rcases hC id with h1 | ⟨_, h1⟩
        · rw [hnone, hinfo] at h1; exact absurd h1 (by simp)
        · exact h1 info hinfo
      -- the ignore fold does not touch cands / small
      have hcs := ignoreFold_cands keys (d, [])
      rw [hr] at hcs
      simp only at hcs
      obtain ⟨hc1, hc2⟩ := hcs
      rcases hcl with h1 | ⟨c, h1, h2⟩ | ⟨_, h1⟩ | h1
      · left; rw [g5]; exact h1
      · right; left
        split
        · simp only [selFold_all, List.nil_append, List.mem_map]
          exact ⟨c, by rw [hc1]; exact h1, h2⟩
        · simp only [selFold_all, List.nil_append, List.mem_map]
          exact ⟨c, by rw [hc1]; exact List.mem_append_left _ h1, h2⟩
      · right; right; exact h1
      · right; right; exact h1

end Restic.Proofs.C10Plan
