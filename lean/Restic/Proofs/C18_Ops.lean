import Restic.Model.RestoreFS
import Restic.Proofs.C18_FS
/-!
Frames of the individual operations: an operation applied to a path `p` whose parent chain
contains no symlink changes nothing except at `p` and below (`Only p`).
-/
namespace Restic.Model.RestoreFS

/-- only `p` and locations below `p` differ -/
def Only (p : Path) (a b : FS) : Prop := ∀ q, ¬ p <+: q → b.get q = a.get q

theorem Only.refl (p : Path) (a : FS) : Only p a a := fun _ _ => rfl

theorem Only.trans {p : Path} {a b c : FS} (h1 : Only p a b) (h2 : Only p b c) : Only p a c :=
  fun q hq => by rw [h2 q hq, h1 q hq]

theorem Only.mono {p p' : Path} {a b : FS} (h : Only p' a b) (hp : p <+: p') : Only p a b :=
  fun q hq => h q (fun h' => hq (List.IsPrefix.trans hp h'))

theorem Only.frame {dst p : Path} {a b : FS} (h : Only p a b) (hin : Inside dst p) : Frame dst a b :=
  fun q hq => h q (fun hp => hq (inside_of_prefix hin hp))

theorem only_set (fs : FS) (p : Path) (e : Entry) : Only p fs (fs.set p e) := by
  intro q hq
  rw [FS.get_set]
  by_cases h : q = p
  · subst h; exact absurd (List.prefix_refl _) hq
  · simp [h]

theorem only_erase (fs : FS) (p : Path) : Only p fs (fs.erase p) := by
  intro q hq
  rw [FS.get_erase]
  by_cases h : q = p
  · subst h; exact absurd (List.prefix_refl _) hq
  · simp [h]

theorem only_removeTree (fs : FS) (p : Path) : Only p fs (fs.removeTree p) := by
  intro q hq
  rw [FS.get_removeTree]
  simp [hq]

/-- the location the operation works on is `p` itself (or the operation fails) -/
def Lex (fs : FS) (p : Path) : Prop := locate fs p = none ∨ locate fs p = some p

/-! `NoNewSym` for updates that do not write a symlink -/

theorem noNewSym_set (fs : FS) (p : Path) (e : Entry) (he : e.isSymlink = false) :
    NoNewSym fs (fs.set p e) := by
  intro q h
  rw [FS.get_set] at h
  by_cases hq : q = p
  · simp [hq, he] at h
  · simpa [hq] using h

theorem noNewSym_erase (fs : FS) (p : Path) : NoNewSym fs (fs.erase p) := by
  intro q h
  rw [FS.get_erase] at h
  by_cases hq : q = p
  · simp [hq] at h
  · simpa [hq] using h

theorem noNewSym_removeTree (fs : FS) (p : Path) : NoNewSym fs (fs.removeTree p) := by
  intro q h
  rw [FS.get_removeTree] at h
  by_cases hq : p <+: q
  · simp [hq] at h
  · simpa [hq] using h

/-! ## single operations -/

theorem remove_only (fs : FS) (p : Path) (hl : Lex fs p) :
    Only p fs (remove fs p).1 ∧ NoNewSym fs (remove fs p).1 := by
  unfold remove
  rcases hl with h | h <;> rw [h]
  · exact ⟨Only.refl _ _, NoNewSym.refl _⟩
  · simp only
    cases fs.get p with
    | none => exact ⟨Only.refl _ _, NoNewSym.refl _⟩
    | some e =>
      cases e with
      | dir m =>
        simp only
        split
        · exact ⟨Only.refl _ _, NoNewSym.refl _⟩
        · exact ⟨only_erase _ _, noNewSym_erase _ _⟩
      | file => exact ⟨only_erase _ _, noNewSym_erase _ _⟩
      | symlink => exact ⟨only_erase _ _, noNewSym_erase _ _⟩
      | special => exact ⟨only_erase _ _, noNewSym_erase _ _⟩

theorem removeAll_only (fs : FS) (p : Path) (hl : Lex fs p) :
    Only p fs (removeAll fs p).1 ∧ NoNewSym fs (removeAll fs p).1 := by
  unfold removeAll
  rcases hl with h | h <;> rw [h]
  · exact ⟨Only.refl _ _, NoNewSym.refl _⟩
  · exact ⟨only_removeTree _ _, noNewSym_removeTree _ _⟩

theorem mkdir_only (fs : FS) (p : Path) (m : Nat) (hl : Lex fs p) :
    Only p fs (mkdir fs p m).1 ∧ NoNewSym fs (mkdir fs p m).1 := by
  unfold mkdir
  rcases hl with h | h <;> rw [h]
  · exact ⟨Only.refl _ _, NoNewSym.refl _⟩
  · simp only
    cases fs.get p with
    | none => exact ⟨only_set _ _ _, noNewSym_set _ _ _ rfl⟩
    | some e => exact ⟨Only.refl _ _, NoNewSym.refl _⟩

theorem symlink_only (fs : FS) (p : Path) (a : Bool) (t : List Name) (hl : Lex fs p) :
    Only p fs (symlink fs p a t).1 := by
  unfold symlink
  rcases hl with h | h <;> rw [h]
  · exact Only.refl _ _
  · simp only
    cases fs.get p with
    | none => exact only_set _ _ _
    | some e => exact Only.refl _ _

theorem mknod_only (fs : FS) (p : Path) (m : Nat) (hl : Lex fs p) :
    Only p fs (mknod fs p m).1 := by
  unfold mknod
  rcases hl with h | h <;> rw [h]
  · exact Only.refl _ _
  · simp only
    cases fs.get p with
    | none => exact only_set _ _ _
    | some e => exact Only.refl _ _

theorem link_only (fs : FS) (old p : Path) (hl : Lex fs p) : Only p fs (link fs old p).1 := by
  unfold link
  cases locate fs old with
  | none => exact Only.refl _ _
  | some src =>
    rcases hl with h | h <;> rw [h]
    · exact Only.refl _ _
    · simp only
      cases fs.get src with
      | none => exact Only.refl _ _
      | some e =>
        cases e with
        | dir m => exact Only.refl _ _
        | file c m => cases fs.get p <;> first | exact only_set _ _ _ | exact Only.refl _ _
        | symlink a t => cases fs.get p <;> first | exact only_set _ _ _ | exact Only.refl _ _
        | special m => cases fs.get p <;> first | exact only_set _ _ _ | exact Only.refl _ _

theorem createFile_only (fs : FS) (p : Path) (c : List UInt8) (rd : Bool) (hl : Lex fs p) :
    Only p fs (createFile fs p c rd).1 ∧ NoNewSym fs (createFile fs p c rd).1 := by
  unfold createFile
  rcases hl with h | h <;> rw [h]
  · exact ⟨Only.refl _ _, NoNewSym.refl _⟩
  · simp only
    cases fs.get p with
    | none => exact ⟨only_set _ _ _, noNewSym_set _ _ _ rfl⟩
    | some e =>
      cases e with
      | file c' m => exact ⟨only_set _ _ _, noNewSym_set _ _ _ rfl⟩
      | symlink a t => exact ⟨only_set _ _ _, noNewSym_set _ _ _ rfl⟩
      | special m => exact ⟨only_set _ _ _, noNewSym_set _ _ _ rfl⟩
      | dir m =>
        simp only
        split
        · exact ⟨Only.trans (only_removeTree _ _) (only_set _ _ _),
            NoNewSym.trans (noNewSym_removeTree _ _) (noNewSym_set _ _ _ rfl)⟩
        · split
          · exact ⟨Only.refl _ _, NoNewSym.refl _⟩
          · exact ⟨only_set _ _ _, noNewSym_set _ _ _ rfl⟩

/-- `chmod` of a path whose last component is known not to be a symlink -/
theorem chmod_only (fs : FS) (p : Path) (m : Nat) (hl : locate fs p = some p)
    (hs : isSym fs p = false) : Only p fs (chmod fs p m).1 := by
  unfold chmod
  have hf : locateFollow fs (fuelFor p) p = (match fs.get p with | some _ => some p | none => none) := by
    unfold fuelFor
    rw [locateFollow, hl]
    simp only
    unfold isSym at hs
    cases hg : fs.get p with
    | none => rfl
    | some e =>
      rw [hg] at hs
      cases e with
      | symlink a t => simp [Entry.isSymlink] at hs
      | dir => rfl
      | file => rfl
      | special => rfl
  rw [hf]
  cases hg : fs.get p with
  | none => exact Only.refl _ _
  | some e => simp only [hg]; exact only_set _ _ _

/-! ## chains of real directories -/

theorem realFrom_of_only {fs fs' : FS} {p : Path} (h : Only p fs fs') (d : Path)
    (hd : ∀ k, k ≤ d.length → ¬ p <+: d.take k) (hr : RealFrom fs [] d) : RealFrom fs' [] d := by
  intro k h1 h2
  have := hr k h1 h2
  simp only [List.nil_append] at this ⊢
  unfold isDirAt at this ⊢
  rw [h _ (hd k h2)]
  exact this

theorem noSymFrom_of_noNewSym {fs fs' : FS} (h : NoNewSym fs fs') (d : Path)
    (hr : NoSymFrom fs [] d) : NoSymFrom fs' [] d := by
  intro k h1 h2
  have := hr k h1 h2
  unfold isSym at this ⊢
  cases hb : (match fs'.get ([] ++ d.take k) with | some e => e.isSymlink | none => false) with
  | false => exact hb
  | true => rw [h _ hb] at this; cases this

/-- `p = d ++ [c]` is not a prefix of any prefix of `d` -/
theorem not_prefix_take (d : Path) (c : Name) (k : Nat) : ¬ (d ++ [c]) <+: d.take k := by
  intro h
  have := h.length_le
  simp at this
  omega

/-- a path that extends `d ++ [c]` is not a prefix of `d` -/
theorem not_prefix_take' (d : Path) (c : Name) (r : List Name) (k : Nat) :
    ¬ (d ++ [c] ++ r) <+: d.take k := by
  intro h
  have := h.length_le
  simp at this
  omega

theorem mkdirIfMissing_real (fs : FS) (q : Path) (m : Nat) (name : Name) (d : Path)
    (hq : q = d ++ [name]) (hd : PlainPath d) (hn : PlainName name) (hr : RealFrom fs [] d)
    (hdir : isDirAt fs q = true) : mkdirIfMissing fs q m = fs := by
  subst hq
  unfold mkdirIfMissing
  rw [locate_real fs d name hd hn hr]
  simp only
  unfold isDirAt at hdir
  cases hg : fs.get (d ++ [name]) with
  | none => rw [hg] at hdir; cases hdir
  | some e => rfl

/-- creating a chain that already consists of real directories changes nothing -/
theorem mkdirChain_real (fs : FS) (m : Nat) (base : Path) (rest : List Name)
    (hp : PlainPath (base ++ rest)) (hr : RealFrom fs [] (base ++ rest)) :
    mkdirChain fs m base rest = fs := by
  induction rest generalizing base with
  | nil => rfl
  | cons c rest ih =>
    simp only [mkdirChain]
    have hbase : PlainPath base := fun n hn => hp n (List.mem_append_left _ hn)
    have hc : PlainName c := hp c (by simp)
    have hrb : RealFrom fs [] base := by
      intro k h1 h2
      have := hr k h1 (by simp; omega)
      rwa [List.take_append_of_le_length h2] at this
    have hdir : isDirAt fs (base ++ [c]) = true := by
      have := hr (base.length + 1) (by omega) (by simp)
      have ht : (base ++ c :: rest).take (base.length + 1) = base ++ [c] := by
        have e : base ++ c :: rest = (base ++ [c]) ++ rest := by simp
        rw [e, List.take_append_of_le_length (by simp)]
        exact List.take_of_length_le (by simp)
      rw [ht] at this
      simpa using this
    rw [mkdirIfMissing_real fs (base ++ [c]) m c base rfl hbase hc hrb hdir]
    have : base ++ c :: rest = (base ++ [c]) ++ rest := by simp
    exact ih (base ++ [c]) (by rwa [this] at hp) (by rwa [this] at hr)

theorem mkdirChain_append (fs : FS) (m : Nat) (base : Path) (r1 r2 : List Name) :
    mkdirChain fs m base (r1 ++ r2) = mkdirChain (mkdirChain fs m base r1) m (base ++ r1) r2 := by
  induction r1 generalizing fs base with
  | nil => simp [mkdirChain]
  | cons c r1 ih =>
    simp only [List.cons_append, mkdirChain]
    rw [ih]
    simp [List.append_assoc]

end Restic.Model.RestoreFS
