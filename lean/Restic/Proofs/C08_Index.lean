import Restic.Model.Index
/-!
# C08: index-level lemmas (entries of an index, store / decode / encode / merge)
-/
namespace Restic.Proofs.C08
open Restic.Model.IndexMap (ID Val)
open Restic.Model.Index

/-- resolved entries of one per-type map -/
def entriesOf (packs : List ID) (t : BlobType) (m : IMap) : List PackedBlob := m.filterMap (toPackedBlob packs t)

/-- all entries an index describes (what `Values()` yields) -/
def entries (idx : Index) : List PackedBlob :=
  entriesOf idx.packs .data idx.data ++ entriesOf idx.packs .tree idx.tree

def Valid (packs : List ID) (m : IMap) : Prop := ∀ v, v ∈ m → v.packIndex < packs.length

/-- every entry refers to an existing pack -/
structure WFIdx (idx : Index) : Prop where
  data : Valid idx.packs idx.data
  tree : Valid idx.packs idx.tree

theorem WFIdx.byType {idx : Index} (wf : WFIdx idx) (t : BlobType) : Valid idx.packs (idx.byType t) := by
  cases t
  · exact wf.data
  · exact wf.tree

theorem Valid.mono {packs p2 : List ID} {m : IMap} (h : Valid packs m) : Valid (packs ++ p2) m :=
  fun v hv => by have := h v hv; simp; omega

theorem Valid.filter {packs : List ID} {m : IMap} (h : Valid packs m) (p : Val → Bool) : Valid packs (m.filter p) :=
  fun v hv => h v (List.mem_filter.mp hv).1

theorem resolveAll_ok (packs : List ID) (t : BlobType) : ∀ (l : IMap), Valid packs l →
    resolveAll packs t l = .ok (entriesOf packs t l)
  | [], _ => rfl
  | v :: l, h => by
    have hv : v.packIndex < packs.length := h v (List.mem_cons_self ..)
    have ih := resolveAll_ok packs t l (fun x hx => h x (List.mem_cons_of_mem _ hx))
    simp [resolveAll, toPackedBlob, hv, ih, Out.bind, entriesOf, List.filterMap_cons]

theorem toPackedBlob_append (packs p2 : List ID) (t : BlobType) (v : Val) (h : v.packIndex < packs.length) :
    toPackedBlob (packs ++ p2) t v = toPackedBlob packs t v := by
  simp [toPackedBlob, List.getElem?_append_left h]

theorem entriesOf_append_packs (packs p2 : List ID) (t : BlobType) (m : IMap) (h : Valid packs m) :
    entriesOf (packs ++ p2) t m = entriesOf packs t m := by
  unfold entriesOf
  induction m with
  | nil => rfl
  | cons v m ih =>
    simp only [List.filterMap_cons]
    rw [toPackedBlob_append packs p2 t v (h v (List.mem_cons_self ..)),
      ih (fun x hx => h x (List.mem_cons_of_mem _ hx))]

theorem mem_entriesOf {packs : List ID} {t : BlobType} {m : IMap} {e : PackedBlob} :
    e ∈ entriesOf packs t m ↔ ∃ v, v ∈ m ∧ toPackedBlob packs t v = some e := by
  simp [entriesOf, List.mem_filterMap]

theorem toPackedBlob_blob {packs : List ID} {t : BlobType} {v : Val} {e : PackedBlob}
    (h : toPackedBlob packs t v = some e) : e.blob.type = t ∧ e.blob.id = v.id := by
  unfold toPackedBlob at h
  cases hp : packs[v.packIndex]? with
  | none => simp [hp] at h
  | some p => simp [hp] at h; subst h; exact ⟨rfl, rfl⟩

/-- `Index.Lookup` yields exactly the entries of the index with that handle -/
theorem lookup_mem {idx : Index} (wf : WFIdx idx) (h : Handle) :
    ∃ L, idx.lookup h = .ok L ∧ ∀ e, e ∈ L ↔ e ∈ entries idx ∧ e.handle = h := by
  refine ⟨_, resolveAll_ok _ _ _ ((wf.byType h.type).filter _), ?_⟩
  intro e
  simp only [mem_entriesOf, List.mem_filter, entries, List.mem_append]
  constructor
  · rintro ⟨v, ⟨hv, hid⟩, hr⟩
    obtain ⟨ht, hi⟩ := toPackedBlob_blob hr
    refine ⟨?_, ?_⟩
    · cases hh : h.type with
      | data => left; rw [hh] at hv hr; exact ⟨v, hv, hr⟩
      | tree => right; rw [hh] at hv hr; exact ⟨v, hv, hr⟩
    · cases h; simp only [PackedBlob.handle, Handle.mk.injEq]
      exact ⟨ht, by rw [hi]; simpa using hid⟩
  · rintro ⟨hm, hh⟩
    have hh' : h.type = e.blob.type ∧ h.id = e.blob.id := by
      rw [← hh]; exact ⟨rfl, rfl⟩
    rcases hm with ⟨v, hv, hr⟩ | ⟨v, hv, hr⟩
    · obtain ⟨ht, hi⟩ := toPackedBlob_blob hr
      have : h.type = .data := by rw [hh'.1, ht]
      rw [this]
      exact ⟨v, ⟨hv, by rw [hh'.2, hi]; simp⟩, hr⟩
    · obtain ⟨ht, hi⟩ := toPackedBlob_blob hr
      have : h.type = .tree := by rw [hh'.1, ht]
      rw [this]
      exact ⟨v, ⟨hv, by rw [hh'.2, hi]; simp⟩, hr⟩

/-- `Index.Values` yields the entries -/
theorem values_ok {idx : Index} (wf : WFIdx idx) : idx.values = .ok (entries idx) := by
  simp [Index.values, resolveAll_ok _ _ _ wf.data, resolveAll_ok _ _ _ wf.tree, Out.bind, entries]

theorem bind_eq_ok {α β : Type} {r : Out α} {f : α → Out β} {b : β} :
    r.bind f = .ok b ↔ ∃ a, r = .ok a ∧ f a = .ok b := by
  cases r <;> simp [Out.bind]

/-! ### `store`, `StorePack`, `DecodeIndex` -/

theorem entries_setType (idx : Index) (t : BlobType) (v : Val) :
    (entries (idx.setType t (idx.byType t ++ [v]))).Perm (entries idx ++ (toPackedBlob idx.packs t v).toList) := by
  cases t
  · simp only [entries, Index.setType, Index.byType, entriesOf, List.filterMap_append, List.filterMap_cons,
      List.filterMap_nil]
    cases toPackedBlob idx.packs .data v with
    | none => simp
    | some pb =>
      simp only [Option.toList_some, List.append_assoc]
      exact List.Perm.append_left _ List.perm_append_comm
  · simp only [entries, Index.setType, Index.byType, entriesOf, List.filterMap_append, List.filterMap_cons,
      List.filterMap_nil]
    cases toPackedBlob idx.packs .tree v with
    | none => simp
    | some pb => simp

theorem setType_packs (idx : Index) (t : BlobType) (m : IMap) : (idx.setType t m).packs = idx.packs := by
  cases t <;> rfl
theorem setType_final (idx : Index) (t : BlobType) (m : IMap) : (idx.setType t m).final = idx.final := by
  cases t <;> rfl
theorem setType_ids (idx : Index) (t : BlobType) (m : IMap) : (idx.setType t m).ids = idx.ids := by
  cases t <;> rfl

theorem wf_setType {idx : Index} (wf : WFIdx idx) (t : BlobType) (v : Val) (hv : v.packIndex < idx.packs.length) :
    WFIdx (idx.setType t (idx.byType t ++ [v])) := by
  cases t
  · refine ⟨?_, wf.tree⟩
    intro x hx
    simp only [Index.setType, Index.byType, List.mem_append, List.mem_singleton] at hx
    rcases hx with hx | rfl
    · exact wf.data x hx
    · exact hv
  · refine ⟨wf.data, ?_⟩
    intro x hx
    simp only [Index.setType, Index.byType, List.mem_append, List.mem_singleton] at hx
    rcases hx with hx | rfl
    · exact wf.tree x hx
    · exact hv

/-- storing the blobs of one pack adds exactly these entries -/
theorem storeAll_spec (pi : Nat) (pid : ID) : ∀ (blobs : List Blob) (idx idx' : Index), WFIdx idx →
    idx.packs[pi]? = some pid → storeAll pi blobs idx = .ok idx' →
    WFIdx idx' ∧ idx'.packs = idx.packs ∧ idx'.final = idx.final ∧ idx'.ids = idx.ids ∧
      (entries idx').Perm (entries idx ++ blobs.map fun b => ⟨pid, b⟩)
  | [], idx, idx', wf, _, h => by
    simp only [storeAll, Out.ok.injEq] at h
    subst h
    exact ⟨wf, rfl, rfl, rfl, by simp⟩
  | b :: bs, idx, idx', wf, hp, h => by
    simp only [storeAll, bind_eq_ok] at h
    obtain ⟨idx1, h1, h2⟩ := h
    unfold Index.store at h1
    split at h1
    · cases h1
    · simp only [Out.ok.injEq] at h1
      subst h1
      have hlt : pi < idx.packs.length := by
        rcases Nat.lt_or_ge pi idx.packs.length with h' | h'
        · exact h'
        · rw [List.getElem?_eq_none h'] at hp; cases hp
      have wf1 := wf_setType wf b.type ⟨b.id, pi, b.offset, b.length, b.ulen⟩ hlt
      obtain ⟨wf', hpk, hf, hi, hperm⟩ := storeAll_spec pi pid bs _ idx' wf1 (by rw [setType_packs]; exact hp) h2
      refine ⟨wf', by rw [hpk, setType_packs], by rw [hf, setType_final], by rw [hi, setType_ids], ?_⟩
      refine hperm.trans ?_
      have hpb : toPackedBlob idx.packs b.type ⟨b.id, pi, b.offset, b.length, b.ulen⟩ = some ⟨pid, b⟩ := by
        simp [toPackedBlob, hp]
      have := entries_setType idx b.type ⟨b.id, pi, b.offset, b.length, b.ulen⟩
      rw [hpb] at this
      simp only [Option.toList_some] at this
      simp only [List.map_cons]
      exact (this.append_right _).trans (by simp)

theorem wf_addPack {idx : Index} (wf : WFIdx idx) (id : ID) : WFIdx { idx with packs := idx.packs ++ [id] } :=
  ⟨wf.data.mono, wf.tree.mono⟩

theorem entries_addPack {idx : Index} (wf : WFIdx idx) (id : ID) :
    entries { idx with packs := idx.packs ++ [id] } = entries idx := by
  simp only [entries]
  rw [entriesOf_append_packs _ _ _ _ wf.data, entriesOf_append_packs _ _ _ _ wf.tree]

/-- decoding the packs of a file adds exactly the entries recorded in the file -/
theorem decodePacks_spec : ∀ (f : IndexFile) (idx idx' : Index), WFIdx idx → decodePacks f idx = .ok idx' →
    WFIdx idx' ∧ idx'.final = idx.final ∧ idx'.ids = idx.ids ∧ (entries idx').Perm (entries idx ++ fileEntries f)
  | [], idx, idx', wf, h => by
    simp only [decodePacks, Out.ok.injEq] at h
    subst h
    exact ⟨wf, rfl, rfl, by simp [fileEntries]⟩
  | (pid, blobs) :: ps, idx, idx', wf, h => by
    simp only [decodePacks, bind_eq_ok] at h
    obtain ⟨⟨idx1, pi⟩, h1, idx2, h2, h3⟩ := h
    simp only [Index.addToPacks] at h1
    split at h1
    · cases h1
    · simp only [Out.ok.injEq, Prod.mk.injEq] at h1
      obtain ⟨e1, e2⟩ := h1
      subst e1 e2
      have hp : ({ idx with packs := idx.packs ++ [pid] } : Index).packs[(idx.packs ++ [pid]).length - 1]? = some pid := by
        simp
      obtain ⟨wf2, _, hf2, hi2, hperm2⟩ := storeAll_spec _ pid blobs _ idx2 (wf_addPack wf pid) hp h2
      obtain ⟨wf3, hf3, hi3, hperm3⟩ := decodePacks_spec ps idx2 idx' wf2 h3
      refine ⟨wf3, by rw [hf3, hf2], by rw [hi3, hi2], ?_⟩
      refine hperm3.trans ?_
      rw [entries_addPack wf] at hperm2
      refine (hperm2.append_right _).trans ?_
      simp [fileEntries, List.flatMap_cons]

theorem new_wf : WFIdx Index.new := ⟨fun _ h => by simp [Index.new] at h, fun _ h => by simp [Index.new] at h⟩
theorem entries_new : entries Index.new = [] := rfl

/-- **DecodeIndex**: the decoded index holds exactly the entries of the file (as a multiset) -/
theorem decodeIndex_spec {f : IndexFile} {id : ID} {idx : Index} (h : decodeIndex f id = .ok idx) :
    WFIdx idx ∧ idx.final = true ∧ idx.ids = [id] ∧ (entries idx).Perm (fileEntries f) := by
  simp only [decodeIndex, bind_eq_ok] at h
  obtain ⟨idx1, h1, h2⟩ := h
  obtain ⟨wf, _, hi, hperm⟩ := decodePacks_spec f Index.new idx1 new_wf h1
  simp only [Out.ok.injEq] at h2
  subst h2
  exact ⟨⟨wf.data, wf.tree⟩, rfl, by simp [hi, Index.new], by rw [entries_new, List.nil_append] at hperm; exact hperm⟩

/-! ### `Encode` (`generatePackList`) -/

theorem fileEntries_append (a b : IndexFile) : fileEntries (a ++ b) = fileEntries a ++ fileEntries b := by
  simp [fileEntries]

theorem fileEntries_modify (b : Blob) : ∀ (list : IndexFile) (i : Nat) (p : ID × List Blob), list[i]? = some p →
    (fileEntries (list.modify i fun p => (p.1, p.2 ++ [b]))).Perm (fileEntries list ++ [⟨p.1, b⟩])
  | [], i, p, h => by simp at h
  | q :: rest, 0, p, h => by
    simp only [List.getElem?_cons_zero, Option.some.injEq] at h
    subst h
    simp only [List.modify_zero_cons, fileEntries, List.flatMap_cons, List.map_append, List.map_cons, List.map_nil,
      List.append_assoc]
    exact List.Perm.append_left _ List.perm_append_comm
  | q :: rest, i + 1, p, h => by
    simp only [List.getElem?_cons_succ] at h
    have ih := fileEntries_modify b rest i p h
    simp only [List.modify_succ_cons, fileEntries, List.flatMap_cons, List.append_assoc] at ih ⊢
    exact List.Perm.append_left _ ih

theorem fileEntries_addToPackList (list : IndexFile) (pid : ID) (b : Blob) :
    (fileEntries (addToPackList list pid b)).Perm (fileEntries list ++ [⟨pid, b⟩]) := by
  unfold addToPackList
  split
  · rename_i i hf
    rw [List.findIdx?_eq_some_iff_getElem] at hf
    obtain ⟨hi, hp, _⟩ := hf
    have := fileEntries_modify b list i list[i] (List.getElem?_eq_getElem hi)
    have hpid : list[i].1 = pid := by simpa using hp
    rw [hpid] at this
    exact this
  · rw [fileEntries_append]; simp [fileEntries]

theorem generateType_spec (packs : List ID) (t : BlobType) : ∀ (vs : IMap) (list list' : IndexFile),
    generateType packs t vs list = .ok list' →
    (fileEntries list').Perm (fileEntries list ++ entriesOf packs t vs)
  | [], list, list', h => by
    simp only [generateType, Out.ok.injEq] at h
    subst h; simp [entriesOf]
  | v :: vs, list, list', h => by
    unfold generateType at h
    split at h
    · cases h
    · rename_i packID hp
      split at h
      · cases h
      · have ih := generateType_spec packs t vs _ list' h
        refine ih.trans ?_
        have hpb : toPackedBlob packs t v = some ⟨packID, ⟨t, v.id, v.offset, v.length, v.ulen⟩⟩ := by
          simp [toPackedBlob, hp]
        simp only [entriesOf, List.filterMap_cons, hpb]
        refine ((fileEntries_addToPackList list packID _).append_right _).trans ?_
        simp

/-- **Encode**: the written pack list holds exactly the entries of the index (as a multiset) -/
theorem encode_spec {idx : Index} {f : IndexFile} (h : idx.encode = .ok f) : (fileEntries f).Perm (entries idx) := by
  simp only [Index.encode, bind_eq_ok] at h
  obtain ⟨l, h1, h2⟩ := h
  have p1 := generateType_spec _ _ _ _ _ h1
  have p2 := generateType_spec _ _ _ _ _ h2
  refine p2.trans ?_
  simp only [fileEntries, List.flatMap_nil, List.nil_append] at p1
  exact (p1.append_right _)

/-! ### `merge` -/

theorem hasIdentical_spec (packs packs2 : List ID) (t : BlobType) (m : IMap) (e2 : Val) (hm : Valid packs m)
    (b2 : PackedBlob) (hb2 : toPackedBlob packs2 t e2 = some b2) :
    hasIdenticalEntry packs packs2 t m e2 = .ok (decide (b2 ∈ entriesOf packs t m)) := by
  unfold hasIdenticalEntry
  rw [resolveAll_ok _ _ _ (hm.filter _)]
  simp only [Out.bind, hb2]
  congr 1
  rw [Bool.eq_iff_iff]
  simp only [List.any_eq_true, beq_iff_eq, decide_eq_true_eq, mem_entriesOf, List.mem_filter]
  obtain ⟨_, hid⟩ := toPackedBlob_blob hb2
  constructor
  · rintro ⟨b, ⟨v, ⟨hv, _⟩, hr⟩, rfl⟩; exact ⟨v, hv, hr⟩
  · rintro ⟨v, hv, hr⟩
    refine ⟨b2, ⟨v, ⟨hv, ?_⟩, hr⟩, rfl⟩
    obtain ⟨_, hid'⟩ := toPackedBlob_blob hr
    rw [← hid', hid]

/-- merging one per-type map: the result holds the union of the entries, existing positions are kept -/
theorem mergeMap_spec (packs1 packs2 : List ID) (t : BlobType) (hlen : (packs1 ++ packs2).length ≤ maxUint32) :
    ∀ (es : IMap) (m m' : IMap), Valid (packs1 ++ packs2) m → Valid packs2 es →
    mergeMap (packs1 ++ packs2) packs2 packs1.length t es m = .ok m' →
    Valid (packs1 ++ packs2) m' ∧ (∃ s, m' = m ++ s) ∧
      ∀ e, e ∈ entriesOf (packs1 ++ packs2) t m' ↔
        e ∈ entriesOf (packs1 ++ packs2) t m ∨ e ∈ entriesOf packs2 t es
  | [], m, m', hm, _, h => by
    simp only [mergeMap, Out.ok.injEq] at h
    subst h
    exact ⟨hm, ⟨[], by simp⟩, fun e => by simp [entriesOf]⟩
  | e2 :: es, m, m', hm, hes, h => by
    have he2 : e2.packIndex < packs2.length := hes e2 (List.mem_cons_self ..)
    have hes' : Valid packs2 es := fun v hv => hes v (List.mem_cons_of_mem _ hv)
    obtain ⟨b2, hb2⟩ : ∃ b2, toPackedBlob packs2 t e2 = some b2 := by
      simp [toPackedBlob, List.getElem?_eq_getElem he2]
    unfold mergeMap at h
    rw [hasIdentical_spec _ _ _ _ _ hm b2 hb2] at h
    simp only [Out.bind] at h
    have hcons : ∀ e, e ∈ entriesOf packs2 t (e2 :: es) ↔ e = b2 ∨ e ∈ entriesOf packs2 t es := by
      intro e
      simp only [entriesOf, List.filterMap_cons, hb2, List.mem_cons]
    split at h
    · rename_i hfound
      have hfound' : b2 ∈ entriesOf (packs1 ++ packs2) t m := by simpa using hfound
      obtain ⟨v1, v2, v3⟩ := mergeMap_spec packs1 packs2 t hlen es m m' hm hes' h
      refine ⟨v1, v2, ?_⟩
      intro e
      rw [v3 e, hcons e]
      constructor
      · rintro (h1 | h1)
        · exact Or.inl h1
        · exact Or.inr (Or.inr h1)
      · rintro (h1 | rfl | h1)
        · exact Or.inl h1
        · exact Or.inl hfound'
        · exact Or.inr h1
    · -- the entry is appended with its pack index shifted by the old number of packs
      have hmod : (e2.packIndex + packs1.length) % 2 ^ 32 = packs1.length + e2.packIndex := by
        have : packs1.length + packs2.length ≤ maxUint32 := by simpa using hlen
        have : e2.packIndex + packs1.length < 2 ^ 32 := by unfold maxUint32 at this; omega
        rw [Nat.mod_eq_of_lt this]; omega
      rw [hmod] at h
      have hvalid : Valid (packs1 ++ packs2) (m ++ [{ e2 with packIndex := packs1.length + e2.packIndex }]) := by
        intro v hv
        rcases List.mem_append.mp hv with hv | hv
        · exact hm v hv
        · simp only [List.mem_singleton] at hv; subst hv; simp; omega
      obtain ⟨v1, ⟨s, v2⟩, v3⟩ := mergeMap_spec packs1 packs2 t hlen es _ m' hvalid hes' h
      refine ⟨v1, ⟨{ e2 with packIndex := packs1.length + e2.packIndex } :: s, by rw [v2]; simp⟩, ?_⟩
      intro e
      rw [v3 e, hcons e]
      have hnew : toPackedBlob (packs1 ++ packs2) t { e2 with packIndex := packs1.length + e2.packIndex } = some b2 := by
        simp only [toPackedBlob] at hb2 ⊢
        rw [List.getElem?_append_right (by omega)]
        simpa using hb2
      simp only [entriesOf, List.filterMap_append, List.filterMap_cons, hnew, List.filterMap_nil, List.mem_append,
        List.mem_singleton]
      constructor
      · rintro ((h1 | rfl) | h1)
        · exact Or.inl h1
        · exact Or.inr (Or.inl rfl)
        · exact Or.inr (Or.inr h1)
      · rintro (h1 | rfl | h1)
        · exact Or.inl (Or.inl h1)
        · exact Or.inl (Or.inr rfl)
        · exact Or.inr h1

/-- **merge**: `idx.merge(idx2)` holds the union of both entry sets; the maps of `idx` only grow at
    the end (first positions never change, C48/C56) -/
theorem merge_spec {idx idx2 idx' : Index} (wf : WFIdx idx) (wf2 : WFIdx idx2) (h : idx.merge idx2 = .ok idx') :
    WFIdx idx' ∧ idx'.final = idx.final ∧ idx'.ids = idx.ids ++ idx2.ids ∧
      (∀ t, ∃ s, idx'.byType t = idx.byType t ++ s) ∧
      ∀ e, e ∈ entries idx' ↔ e ∈ entries idx ∨ e ∈ entries idx2 := by
  simp only [Index.merge] at h
  split at h
  · cases h
  · split at h
    · cases h
    · rename_i hlen
      have hlen' : (idx.packs ++ idx2.packs).length ≤ maxUint32 := by omega
      simp only [bind_eq_ok] at h
      obtain ⟨d, hd, t, ht, h⟩ := h
      simp only [Out.ok.injEq] at h
      subst h
      obtain ⟨d1, ⟨sd, d2⟩, d3⟩ := mergeMap_spec idx.packs idx2.packs .data hlen' _ _ d wf.data.mono wf2.data hd
      obtain ⟨t1, ⟨st, t2⟩, t3⟩ := mergeMap_spec idx.packs idx2.packs .tree hlen' _ _ t wf.tree.mono wf2.tree ht
      refine ⟨⟨d1, t1⟩, rfl, rfl, ?_, ?_⟩
      · intro ty; cases ty
        · exact ⟨sd, d2⟩
        · exact ⟨st, t2⟩
      · intro e
        simp only [entries, List.mem_append]
        rw [d3 e, t3 e, entriesOf_append_packs _ _ _ _ wf.data, entriesOf_append_packs _ _ _ _ wf.tree]
        constructor
        · rintro ((h1 | h1) | (h1 | h1))
          · exact Or.inl (Or.inl h1)
          · exact Or.inr (Or.inl h1)
          · exact Or.inl (Or.inr h1)
          · exact Or.inr (Or.inr h1)
        · rintro ((h1 | h1) | (h1 | h1))
          · exact Or.inl (Or.inl h1)
          · exact Or.inr (Or.inl h1)
          · exact Or.inl (Or.inr h1)
          · exact Or.inr (Or.inr h1)

end Restic.Proofs.C08
