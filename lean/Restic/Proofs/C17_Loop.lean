import Restic.Model.Chunk
import Restic.Model.Rabin
/-!
# C17 — Content-defined chunking is lossless, bounded and shift-resistant
-/
namespace Restic.Props.C17
open Restic.Model.Chunk

/-- the bytes not yet handed out: rest of the read buffer, then the rest of the reader -/
def pending (cs : CState) (rd : Reader) : Bytes := cs.buf.drop cs.bpos ++ rd.data

/-! ### what `refill` does when it returns -/

theorem refill_inl {bufSize : Nat} {cs : CState} {rd : Reader} {data : Bytes} {r : Next} {cs' : CState} {rd' : Reader}
    (h : refill bufSize cs rd data = .inl (r, cs', rd')) :
    cs.buf.length ≤ cs.bpos ∧ cs'.buf = cs.buf ∧ cs'.bpos = cs.bpos ∧
    ((r = .chunk data ∧ data ≠ [] ∧ cs.closed = false ∧ cs'.closed = true ∧ rd.data = [] ∧ rd.failAtEnd = false ∧ rd' = rd) ∨
     (r = .eof ∧ (cs.closed = false → data = []) ∧ cs'.closed = true ∧ rd.data = [] ∧ rd.failAtEnd = false ∧ rd' = rd) ∨
     (r = .error ∧ rd.failAtEnd = true) ∨
     (r = .spin ∧ bufSize = 0)) := by
  unfold refill at h
  by_cases hb : cs.bpos ≥ cs.buf.length
  · simp only [hb, if_true] at h
    unfold readFull at h
    by_cases h1 : bufSize ≤ rd.data.length
    · simp only [h1, if_true] at h
      simp at h
      split at h
      · rename_i h0
        simp at h
        obtain ⟨h2, h3, h4⟩ := h
        subst h2; subst h3
        refine ⟨hb, rfl, rfl, Or.inr (Or.inr (Or.inr ⟨rfl, ?_⟩))⟩
        rcases h0 with h0 | h0
        · exact h0
        · rw [h0] at h1; simpa using h1
      · simp at h
    · simp only [h1, if_false] at h
      by_cases h2 : rd.failAtEnd = true
      · simp [h2] at h
        obtain ⟨h3, h4, h5⟩ := h
        subst h3; subst h4
        exact ⟨hb, rfl, rfl, Or.inr (Or.inr (Or.inl ⟨rfl, h2⟩))⟩
      · by_cases h3 : rd.data.isEmpty = true
        · have h3' : rd.data = [] := by simpa using h3
          have h2' : rd.failAtEnd = false := by simpa using h2
          simp [h2, h3] at h
          split at h
          · rename_i hc
            split at h
            · rename_i hd
              simp at h
              obtain ⟨h4, h5, h6⟩ := h
              subst h4; subst h5; subst h6
              exact ⟨hb, rfl, rfl, Or.inr (Or.inl ⟨rfl, fun _ => hd, rfl, h3', h2', rfl⟩)⟩
            · rename_i hd
              simp at h
              obtain ⟨h4, h5, h6⟩ := h
              subst h4; subst h5; subst h6
              exact ⟨hb, rfl, rfl, Or.inl ⟨rfl, hd, hc, rfl, h3', h2', rfl⟩⟩
          · rename_i hc
            simp at h
            obtain ⟨h4, h5, h6⟩ := h
            subst h4; subst h5; subst h6
            have hc' : cs.closed = true := by simpa using hc
            exact ⟨hb, rfl, rfl, Or.inr (Or.inl ⟨rfl, (fun hx => absurd hx hc), hc', h3', h2', rfl⟩)⟩
        · simp [h2, h3] at h
  · simp only [hb, if_false] at h
    cases h


/-! ### one call of `readNextChunk` -/

/-- reachable chunk states: once `closed`, nothing is pending and nothing is accumulated -/
def Inv (cs : CState) (rd : Reader) (data : Bytes) : Prop :=
  cs.closed = true → pending cs rd = [] ∧ data = []

/-- what a `readNextChunk` result means -/
def RncPost {σ : Type} (sp : Splitter σ) (bufSize : Nat) (cs : CState) (rd : Reader) (data : Bytes)
    (res : Next × CState × Reader × σ) : Prop :=
  match res with
  | (.chunk d, cs', rd', _) =>
      data ++ pending cs rd = d ++ pending cs' rd' ∧ data.length ≤ d.length ∧ d ≠ [] ∧ Inv cs' rd' [] ∧
      rd'.failAtEnd = rd.failAtEnd
  | (.eof, cs', rd', _) => data = [] ∧ pending cs rd = [] ∧ rd.failAtEnd = false ∧ Inv cs' rd' []
  | (.error, _, _, _) => rd.failAtEnd = true
  | (.badSplit k a, _, _, _) => ∃ s piece, (sp.next s piece).1 = some k ∧ a = piece.length ∧ (k = 0 ∨ piece.length < k)
  | (.spin, _, _, _) => bufSize = 0

theorem rnc_post {σ : Type} (sp : Splitter σ) (bufSize : Nat) (cs : CState) (rd : Reader) (st : σ) (data : Bytes)
    (hinv : Inv cs rd data) : RncPost sp bufSize cs rd data (readNextChunk sp bufSize cs rd st data) := by
  fun_induction readNextChunk sp bufSize cs rd st data with
  | case1 cs rd st data r cs' rd' h =>
    obtain ⟨hb, hbuf, hbpos, hr⟩ := refill_inl h
    have hdrop : cs.buf.drop cs.bpos = [] := List.drop_eq_nil_of_le hb
    have hdrop' : cs'.buf.drop cs'.bpos = [] := by rw [hbuf, hbpos]; exact hdrop
    rcases hr with ⟨h1, h2, h3, h4, h5, h6, h7⟩ | ⟨h1, h2, h4, h5, h6, h7⟩ | ⟨h1, h2⟩ | ⟨h1, h2⟩
    · subst h1; subst h7
      have hpend : pending cs rd' = [] := by simp [pending, hdrop, h5]
      have hpend' : pending cs' rd' = [] := by simp [pending, hdrop', h5]
      simp only [RncPost]
      exact ⟨by rw [hpend, hpend'], Nat.le_refl _, h2, fun _ => ⟨hpend', rfl⟩, trivial⟩
    · subst h1; subst h7
      have hpend : pending cs rd' = [] := by simp [pending, hdrop, h5]
      have hpend' : pending cs' rd' = [] := by simp [pending, hdrop', h5]
      simp only [RncPost]
      refine ⟨?_, hpend, h6, fun _ => ⟨hpend', rfl⟩⟩
      by_cases hc : cs.closed = false
      · exact h2 hc
      · exact (hinv (by simpa using hc)).2
    · subst h1; exact h2
    · subst h1; exact h2
  | case2 cs rd st data cs' rd' h piece k st' hn hk =>
    simp only [RncPost]
    exact ⟨st, piece, by rw [hn], rfl, hk⟩
  | case3 cs rd st data cs' rd' h piece k st' hn hk =>
    have hk' : 0 < k ∧ k ≤ piece.length := by omega
    have hp : pending cs rd = piece ++ rd'.data := by
      rcases refill_inr h with ⟨_, h2, h3⟩ | ⟨h1, h2, _, _, h5, _⟩
      · subst h2; subst h3; rfl
      · simp only [pending, List.drop_eq_nil_of_le h1, List.nil_append, h5, piece, h2, List.drop_zero]
    have hf : rd'.failAtEnd = rd.failAtEnd := by
      rcases refill_inr h with ⟨_, _, h3⟩ | ⟨_, _, _, _, _, h6⟩
      · rw [h3]
      · exact h6
    have hne : piece ≠ [] := by intro hc; rw [hc] at hk'; simp at hk'; omega
    have hcl : cs.closed = false := by
      by_cases hc : cs.closed = false
      · exact hc
      · have := (hinv (by simpa using hc)).1
        rw [hp] at this
        simp at this
        exact absurd this.1 hne
    have hcl' : cs'.closed = false := by
      rcases refill_inr h with ⟨_, h2, _⟩ | ⟨_, _, _, h4, _, _⟩
      · rw [h2]; exact hcl
      · rw [h4]; exact hcl
    have hp2 : pending { buf := cs'.buf, bpos := cs'.bpos + k, closed := cs'.closed } rd' = piece.drop k ++ rd'.data := by
      simp only [pending, piece, List.drop_drop]
    simp only [RncPost]
    refine ⟨?_, by simp, ?_, ?_, hf⟩
    · rw [hp, hp2, List.append_assoc, ← List.append_assoc (List.take k piece), List.take_append_drop]
    · intro hc
      have h2 := (List.append_eq_nil_iff.mp hc).2
      rcases List.take_eq_nil_iff.mp h2 with h3 | h3
      · omega
      · exact hne h3
    · intro hc; simp [hcl'] at hc
  | case4 cs rd st data cs' rd' h piece st' hn ih =>
    have hp : pending cs rd = piece ++ rd'.data := by
      rcases refill_inr h with ⟨_, h2, h3⟩ | ⟨h1, h2, _, _, h5, _⟩
      · subst h2; subst h3; rfl
      · simp only [pending, List.drop_eq_nil_of_le h1, List.nil_append, h5, piece, h2, List.drop_zero]
    have hf : rd'.failAtEnd = rd.failAtEnd := by
      rcases refill_inr h with ⟨_, _, h3⟩ | ⟨_, _, _, _, _, h6⟩
      · rw [h3]
      · exact h6
    have hne : piece ≠ [] := by
      rcases refill_inr h with ⟨h1, h2, _⟩ | ⟨_, h2, h3, _, _, _⟩
      · subst h2
        intro hc
        have := congrArg List.length hc
        simp [piece] at this
        omega
      · simpa [piece, h2] using h3
    have hcl : cs.closed = false := by
      by_cases hc : cs.closed = false
      · exact hc
      · have := (hinv (by simpa using hc)).1
        rw [hp] at this
        simp at this
        exact absurd this.1 hne
    have hcl' : cs'.closed = false := by
      rcases refill_inr h with ⟨_, h2, _⟩ | ⟨_, _, _, h4, _, _⟩
      · rw [h2]; exact hcl
      · rw [h4]; exact hcl
    have hinv' : Inv { buf := cs'.buf, bpos := cs'.buf.length, closed := cs'.closed } rd' (data ++ piece) := by
      intro hc; simp [hcl'] at hc
    have ih := ih hinv'
    have hp' : pending { buf := cs'.buf, bpos := cs'.buf.length, closed := cs'.closed } rd' = rd'.data := by
      simp [pending]
    revert ih
    generalize readNextChunk sp bufSize { buf := cs'.buf, bpos := cs'.buf.length, closed := cs'.closed } rd' st' (data ++ piece) = res
    obtain ⟨r, cs2, rd2, st2⟩ := res
    cases r with
    | chunk d =>
      simp only [RncPost, hp', hp]
      rintro ⟨h1, h2, h3, h4, h5⟩
      refine ⟨by rw [← h1]; simp, ?_, h3, h4, by rw [h5, hf]⟩
      simp at h2; omega
    | eof =>
      simp only [RncPost, hp', hp]
      rintro ⟨h1, _, _, _⟩
      simp at h1
      exact absurd h1.2 hne
    | error => simp only [RncPost]; intro h1; rw [← hf]; exact h1
    | badSplit k a => simp only [RncPost]; exact id
    | spin => simp only [RncPost]; exact id


/-! ### the chunk loop of `saveFile` -/

/-- what an outcome of the chunk loop means, relative to the chunks already emitted and the
    bytes still pending -/
def LoopPost {σ : Type} (sp : Splitter σ) (bufSize : Nat) (acc : List Bytes) (pend : Bytes) (failAtEnd : Bool) : Out → Prop
  | .ok cs => cs.flatten = acc.flatten ++ pend ∧ failAtEnd = false ∧ (∀ c ∈ cs, c ∈ acc ∨ c ≠ [])
  | .error => failAtEnd = true
  | .badSplit k a => ∃ s piece, (sp.next s piece).1 = some k ∧ a = piece.length ∧ (k = 0 ∨ piece.length < k)
  | .spin => bufSize = 0
  | .fuel => False

theorem chunkLoop_post {σ : Type} (sp : Splitter σ) (bufSize : Nat) (fuel : Nat) (cs : CState) (rd : Reader) (st : σ)
    (acc : List Bytes) (hinv : Inv cs rd []) (hfuel : (pending cs rd).length + 1 < fuel + 1) :
    LoopPost sp bufSize acc (pending cs rd) rd.failAtEnd (chunkLoop sp bufSize fuel cs rd st acc).1 := by
  induction fuel generalizing cs rd st acc with
  | zero => omega
  | succ fuel ih =>
    unfold chunkLoop
    have hp := rnc_post sp bufSize cs rd st [] hinv
    revert hp
    generalize readNextChunk sp bufSize cs rd st [] = res
    obtain ⟨r, cs', rd', st'⟩ := res
    cases r with
    | chunk d =>
      simp only [RncPost, List.nil_append]
      rintro ⟨h1, _, h3, h4, h5⟩
      have hlen : (pending cs' rd').length < (pending cs rd).length := by
        have := congrArg List.length h1
        simp at this
        have : 0 < d.length := List.length_pos_iff.mpr h3
        omega
      have ih := ih cs' rd' st' (acc ++ [d]) h4 (by omega)
      revert ih
      generalize (chunkLoop sp bufSize fuel cs' rd' st' (acc ++ [d])).1 = o
      cases o with
      | ok cs2 =>
        simp only [LoopPost]
        rintro ⟨e1, e2, e3⟩
        refine ⟨by rw [e1, h1]; simp, by rw [← h5]; exact e2, ?_⟩
        intro c hc
        rcases e3 c hc with h | h
        · rcases List.mem_append.mp h with h | h
          · exact Or.inl h
          · right; simp at h; rw [h]; exact h3
        · exact Or.inr h
      | error => simp only [LoopPost]; intro e; rw [← h5]; exact e
      | badSplit k a => simp only [LoopPost]; exact id
      | spin => simp only [LoopPost]; exact id
      | fuel => simp only [LoopPost]; exact id
    | eof =>
      simp only [RncPost, LoopPost]
      rintro ⟨_, h2, h3, _⟩
      exact ⟨by rw [h2]; simp, h3, fun c hc => Or.inl hc⟩
    | error => simp only [RncPost, LoopPost]; exact id
    | badSplit k a => simp only [RncPost, LoopPost]; exact id
    | spin => simp only [RncPost, LoopPost]; exact id

/-- `saveFile` never runs out of the model's fuel -/
theorem saveFile_post {σ : Type} (sp : Splitter σ) (bufSize : Nat) (cs : CState) (st : σ) (file : Reader) :
    LoopPost sp bufSize [] file.data file.failAtEnd (saveFile sp bufSize cs st file).1 := by
  unfold saveFile
  have h := chunkLoop_post sp bufSize (file.data.length + 2) cs.reset file sp.init []
    (by intro hc; simp [CState.reset] at hc) (by simp [pending, CState.reset])
  simpa [pending, CState.reset] using h

theorem saveFile_ne_fuel {σ : Type} (sp : Splitter σ) (bufSize : Nat) (cs : CState) (st : σ) (file : Reader) :
    (saveFile sp bufSize cs st file).1 ≠ .fuel := by
  intro h
  have := saveFile_post sp bufSize cs st file
  rw [h] at this
  exact this

/-- **Lossless** (for every splitter, every read-buffer size, no law assumed): whenever chunking a
    file succeeds, the concatenation of the chunks is the file, and no chunk is empty. -/
theorem chunks_concat {σ : Type} (sp : Splitter σ) (bufSize : Nat) (file : Bytes) (cs : List Bytes)
    (h : chunks sp bufSize file = .ok cs) : cs.flatten = file ∧ ∀ c ∈ cs, c ≠ [] := by
  unfold chunks at h
  have := saveFile_post sp bufSize { buf := [], bpos := 0, closed := false } sp.init { data := file, failAtEnd := false }
  rw [h] at this
  simp only [LoopPost, List.flatten_nil, List.nil_append] at this
  refine ⟨this.1, fun c hc => ?_⟩
  rcases this.2.2 c hc with h | h
  · cases h
  · exact h

/-- the same for the real `saveFile` signature: any incoming worker state, any reader -/
theorem saveFile_concat {σ : Type} (sp : Splitter σ) (bufSize : Nat) (cs0 : CState) (st0 : σ) (file : Reader)
    (cs : List Bytes) (h : (saveFile sp bufSize cs0 st0 file).1 = .ok cs) :
    cs.flatten = file.data ∧ file.failAtEnd = false := by
  have := saveFile_post sp bufSize cs0 st0 file
  rw [h] at this
  simp only [LoopPost, List.flatten_nil, List.nil_append] at this
  exact ⟨this.1, this.2.1⟩

/-- L0 — range law of the library: a split point lies inside the buffer it was found in and is
    not 0 (`idx + i + 1` in `nextSplitPoint`). -/
structure InRange {σ : Type} (sp : Splitter σ) : Prop where
  pos_le : ∀ s a k s', sp.next s a = (some k, s') → 0 < k ∧ k ≤ a.length

/-- **Totality**: with a splitter obeying the range law and a non-empty read buffer, chunking a
    readable file always succeeds; a reader that fails makes `saveFile` fail (no partial node). -/
theorem saveFile_total {σ : Type} (sp : Splitter σ) (hr : InRange sp) (bufSize : Nat) (hb : 0 < bufSize)
    (cs0 : CState) (st0 : σ) (file : Reader) :
    (file.failAtEnd = false → ∃ cs, (saveFile sp bufSize cs0 st0 file).1 = .ok cs) ∧
    (file.failAtEnd = true → (saveFile sp bufSize cs0 st0 file).1 = .error) := by
  have := saveFile_post sp bufSize cs0 st0 file
  revert this
  generalize (saveFile sp bufSize cs0 st0 file).1 = o
  cases o with
  | ok cs => simp only [LoopPost]; rintro ⟨_, h2, _⟩; exact ⟨fun _ => ⟨cs, rfl⟩, fun h => (by rw [h2] at h; cases h)⟩
  | error => simp only [LoopPost]; intro h; exact ⟨fun h' => (by rw [h] at h'; cases h'), fun _ => trivial⟩
  | badSplit k a =>
    simp only [LoopPost]
    rintro ⟨s, piece, h1, _, h3⟩
    have := hr.pos_le s piece k (sp.next s piece).2 (by rw [← h1])
    omega
  | spin => simp only [LoopPost]; intro h; omega
  | fuel => simp only [LoopPost]; exact False.elim


/-! ### independence of the read-buffer size (needs the streaming law of the library) -/

/-- L1 — streaming law: cutting the input of `NextSplitPoint` into several buffers does not
    change where the split is found (the library keeps window, digest and counters across calls). -/
structure Streaming {σ : Type} (sp : Splitter σ) : Prop where
  none_append : ∀ s a b s', sp.next s a = (none, s') →
    sp.next s (a ++ b) = ((sp.next s' b).1.map (· + a.length), (sp.next s' b).2)
  some_append : ∀ s a b k s', sp.next s a = (some k, s') → sp.next s (a ++ b) = (some k, s')

/-- the splitter, started in `s0` at the beginning of the current chunk, has been fed `data` and is now in `st` -/
def Fed {σ : Type} (sp : Splitter σ) (s0 : σ) (data : Bytes) (st : σ) : Prop :=
  (data = [] ∧ st = s0) ∨ sp.next s0 data = (none, st)

theorem fed_none {σ : Type} {sp : Splitter σ} (hs : Streaming sp) {s0 st st' : σ} {data piece : Bytes}
    (hf : Fed sp s0 data st) (hn : sp.next st piece = (none, st')) : Fed sp s0 (data ++ piece) st' := by
  rcases hf with ⟨h1, h2⟩ | h
  · subst h1; subst h2; right; simpa using hn
  · right; rw [hs.none_append _ _ _ _ h, hn]; rfl

theorem fed_some {σ : Type} {sp : Splitter σ} (hs : Streaming sp) {s0 st st' : σ} {data piece : Bytes} {k : Nat}
    (hf : Fed sp s0 data st) (hn : sp.next st piece = (some k, st')) (rest : Bytes) :
    sp.next s0 (data ++ (piece ++ rest)) = (some (k + data.length), st') := by
  have h1 : sp.next st (piece ++ rest) = (some k, st') := hs.some_append _ _ _ _ _ hn
  rcases hf with ⟨h2, h3⟩ | h
  · subst h2; subst h3; simpa using h1
  · rw [hs.none_append _ _ _ _ h, h1]; rfl

def RncRef {σ : Type} (sp : Splitter σ) (s0 : σ) (cs : CState) (rd : Reader) (data : Bytes)
    (res : Next × CState × Reader × σ) : Prop :=
  match res with
  | (.chunk d, cs', rd', st') =>
      data ++ pending cs rd ≠ [] ∧
      ((∃ k, sp.next s0 (data ++ pending cs rd) = (some k, st') ∧ d = (data ++ pending cs rd).take k ∧
          pending cs' rd' = (data ++ pending cs rd).drop k) ∨
       (∃ s', sp.next s0 (data ++ pending cs rd) = (none, s') ∧ d = data ++ pending cs rd ∧ pending cs' rd' = []))
  | (.eof, _, _, _) => data ++ pending cs rd = []
  | _ => True

theorem rnc_ref {σ : Type} (sp : Splitter σ) (hs : Streaming sp) (bufSize : Nat) (s0 : σ)
    (cs : CState) (rd : Reader) (st : σ) (data : Bytes)
    (hinv : Inv cs rd data) (hfed : Fed sp s0 data st) :
    RncRef sp s0 cs rd data (readNextChunk sp bufSize cs rd st data) := by
  fun_induction readNextChunk sp bufSize cs rd st data with
  | case1 cs rd st data r cs' rd' h =>
    obtain ⟨hb, hbuf, hbpos, hr⟩ := refill_inl h
    have hdrop : cs.buf.drop cs.bpos = [] := List.drop_eq_nil_of_le hb
    have hdrop' : cs'.buf.drop cs'.bpos = [] := by rw [hbuf, hbpos]; exact hdrop
    rcases hr with ⟨h1, h2, h3, h4, h5, h6, h7⟩ | ⟨h1, h2, h4, h5, h6, h7⟩ | ⟨h1, h2⟩ | ⟨h1, h2⟩
    · subst h1; subst h7
      have hpend : pending cs rd' = [] := by simp [pending, hdrop, h5]
      have hpend' : pending cs' rd' = [] := by simp [pending, hdrop', h5]
      simp only [RncRef, hpend, hpend', List.append_nil]
      refine ⟨h2, Or.inr ?_⟩
      rcases hfed with ⟨hd, _⟩ | hd
      · exact absurd hd h2
      · exact ⟨st, hd, trivial, trivial⟩
    · subst h1; subst h7
      have hpend : pending cs rd' = [] := by simp [pending, hdrop, h5]
      simp only [RncRef, hpend, List.append_nil]
      by_cases hc : cs.closed = false
      · exact h2 hc
      · exact (hinv (by simpa using hc)).2
    · subst h1; trivial
    · subst h1; trivial
  | case2 cs rd st data cs' rd' h piece k st' hn hk => trivial
  | case3 cs rd st data cs' rd' h piece k st' hn hk =>
    have hk' : 0 < k ∧ k ≤ piece.length := by omega
    have hp : pending cs rd = piece ++ rd'.data := by
      rcases refill_inr h with ⟨_, h2, h3⟩ | ⟨h1, h2, _, _, h5, _⟩
      · subst h2; subst h3; rfl
      · simp only [pending, List.drop_eq_nil_of_le h1, List.nil_append, h5, piece, h2, List.drop_zero]
    have hne : piece ≠ [] := by intro hc; rw [hc] at hk'; simp at hk'; omega
    have hp2 : pending { buf := cs'.buf, bpos := cs'.bpos + k, closed := cs'.closed } rd' = piece.drop k ++ rd'.data := by
      simp only [pending, piece, List.drop_drop]
    simp only [RncRef, hp, hp2]
    refine ⟨by simp [hne], Or.inl ⟨k + data.length, fed_some hs hfed hn _, ?_, ?_⟩⟩
    · rw [Nat.add_comm, List.take_append, List.take_of_length_le (Nat.le_add_right _ _)]
      simp only [Nat.add_sub_cancel_left]
      rw [List.take_append_of_le_length hk'.2]
    · rw [Nat.add_comm, List.drop_append, List.drop_of_length_le (Nat.le_add_right _ _)]
      simp only [Nat.add_sub_cancel_left, List.nil_append]
      rw [List.drop_append_of_le_length hk'.2]
  | case4 cs rd st data cs' rd' h piece st' hn ih =>
    have hp : pending cs rd = piece ++ rd'.data := by
      rcases refill_inr h with ⟨_, h2, h3⟩ | ⟨h1, h2, _, _, h5, _⟩
      · subst h2; subst h3; rfl
      · simp only [pending, List.drop_eq_nil_of_le h1, List.nil_append, h5, piece, h2, List.drop_zero]
    have hne : piece ≠ [] := by
      rcases refill_inr h with ⟨h1, h2, _⟩ | ⟨_, h2, h3, _, _, _⟩
      · subst h2
        intro hc
        have := congrArg List.length hc
        simp [piece] at this
        omega
      · simpa [piece, h2] using h3
    have hcl : cs.closed = false := by
      by_cases hc : cs.closed = false
      · exact hc
      · have := (hinv (by simpa using hc)).1
        rw [hp] at this
        simp at this
        exact absurd this.1 hne
    have hcl' : cs'.closed = false := by
      rcases refill_inr h with ⟨_, h2, _⟩ | ⟨_, _, _, h4, _, _⟩
      · rw [h2]; exact hcl
      · rw [h4]; exact hcl
    have hinv' : Inv { buf := cs'.buf, bpos := cs'.buf.length, closed := cs'.closed } rd' (data ++ piece) := by
      intro hc; simp [hcl'] at hc
    have ih := ih hinv' (fed_none hs hfed hn)
    have hp' : pending { buf := cs'.buf, bpos := cs'.buf.length, closed := cs'.closed } rd' = rd'.data := by
      simp [pending]
    revert ih
    generalize readNextChunk sp bufSize { buf := cs'.buf, bpos := cs'.buf.length, closed := cs'.closed } rd' st' (data ++ piece) = res
    obtain ⟨r, cs2, rd2, st2⟩ := res
    cases r with
    | chunk d => simp only [RncRef, hp', hp, List.append_assoc]; exact id
    | eof => simp only [RncRef, hp', hp, List.append_assoc]; exact id
    | error => intro _; trivial
    | badSplit k a => intro _; trivial
    | spin => intro _; trivial


theorem refChunks_nil {σ : Type} (sp : Splitter σ) (st : σ) : refChunks sp st [] = [] := by
  rw [refChunks]; simp

theorem refChunks_none {σ : Type} (sp : Splitter σ) (st s' : σ) (x : Bytes) (hx : x ≠ [])
    (h : sp.next st x = (none, s')) : refChunks sp st x = [x] := by
  rw [refChunks]; simp [hx, h]

theorem refChunks_some {σ : Type} (sp : Splitter σ) (st s' : σ) (x : Bytes) (k : Nat) (hx : x ≠ [])
    (h : sp.next st x = (some k, s')) (hk : 0 < k ∧ k ≤ x.length) :
    refChunks sp st x = x.take k :: refChunks sp s' (x.drop k) := by
  rw [refChunks]; simp [hx, h, hk]

theorem chunkLoop_ref {σ : Type} (sp : Splitter σ) (hr : InRange sp) (hs : Streaming sp) (bufSize : Nat)
    (fuel : Nat) (cs : CState) (rd : Reader) (st : σ) (acc : List Bytes) (hinv : Inv cs rd [])
    (out : List Bytes) (h : (chunkLoop sp bufSize fuel cs rd st acc).1 = .ok out) :
    out = acc ++ refChunks sp st (pending cs rd) := by
  induction fuel generalizing cs rd st acc with
  | zero => simp [chunkLoop] at h
  | succ fuel ih =>
    unfold chunkLoop at h
    have hp := rnc_post sp bufSize cs rd st [] hinv
    have hq := rnc_ref sp hs bufSize st cs rd st [] hinv (Or.inl ⟨rfl, rfl⟩)
    revert hp hq h
    generalize readNextChunk sp bufSize cs rd st [] = res
    obtain ⟨r, cs', rd', st'⟩ := res
    cases r with
    | chunk d =>
      simp only [RncPost, RncRef, List.nil_append]
      rintro h ⟨_, _, _, h4, _⟩ ⟨hx, hcut | hend⟩
      · obtain ⟨k, hk1, hk2, hk3⟩ := hcut
        have := ih cs' rd' st' (acc ++ [d]) h4 h
        rw [this, hk3, refChunks_some sp st st' _ k hx hk1 (hr.pos_le _ _ _ _ hk1), hk2]
        simp
      · obtain ⟨s', hk1, hk2, hk3⟩ := hend
        have := ih cs' rd' st' (acc ++ [d]) h4 h
        rw [this, hk3, refChunks_nil, refChunks_none sp st s' _ hx hk1, hk2]
        simp
    | eof =>
      simp only [RncPost, RncRef, List.nil_append]
      rintro h _ hx
      rw [hx, refChunks_nil]
      simp at h
      simp [h]
    | error => simp
    | badSplit k a => simp
    | spin => simp

/-- **Boundaries do not depend on the read-buffer size** (nor, through `io.ReadFull`, on how the
    source delivers its bytes): under the streaming and range laws of the library, chunking with
    any read-buffer size yields exactly the reference chunking obtained by handing the splitter
    the whole file at once. -/
theorem chunks_eq_ref {σ : Type} (sp : Splitter σ) (hr : InRange sp) (hs : Streaming sp) (bufSize : Nat)
    (hb : 0 < bufSize) (file : Bytes) : chunks sp bufSize file = .ok (refChunks sp sp.init file) := by
  obtain ⟨cs, hcs⟩ := (saveFile_total sp hr bufSize hb { buf := [], bpos := 0, closed := false } sp.init
    { data := file, failAtEnd := false }).1 rfl
  unfold chunks
  rw [hcs]
  unfold saveFile at hcs
  have := chunkLoop_ref sp hr hs bufSize _ _ _ _ [] (by intro hc; simp [CState.reset] at hc) cs hcs
  simp [pending, CState.reset] at this
  rw [this]

theorem chunks_buffer_indep {σ : Type} (sp : Splitter σ) (hr : InRange sp) (hs : Streaming sp)
    (bufA bufB : Nat) (ha : 0 < bufA) (hb : 0 < bufB) (file : Bytes) :
    chunks sp bufA file = chunks sp bufB file := by
  rw [chunks_eq_ref sp hr hs bufA ha, chunks_eq_ref sp hr hs bufB hb]

/-- **Boundaries do not depend on previously processed files**: `saveFile` resets chunker and
    chunk state, so whatever the worker did before, every file is chunked as on a fresh worker. -/
theorem saveFile_state_indep {σ : Type} (sp : Splitter σ) (bufSize : Nat) (cs cs' : CState) (st st' : σ)
    (file : Reader) : (saveFile sp bufSize cs st file).1 = (saveFile sp bufSize cs' st' file).1 := rfl

theorem worker_file_indep {σ : Type} (sp : Splitter σ) (bufSize : Nat) (cs : CState) (st : σ) (files : List Reader) :
    worker sp bufSize cs st files =
      files.map fun f => (saveFile sp bufSize { buf := [], bpos := 0, closed := false } sp.init f).1 := by
  induction files generalizing cs st with
  | nil => rfl
  | cons f fs ih => simp only [worker, List.map_cons, ih]; rfl


/-! ### size bounds -/

/-- L3 — after reporting a split the chunker is in its initial state again (`c.reset()`). -/
structure ResetsAfterCut {σ : Type} (sp : Splitter σ) : Prop where
  reset_after_cut : ∀ s a k s', sp.next s a = (some k, s') → s' = sp.init

/-- L2 — size bounds of the library: starting from the initial state a split is reported only
    between `min` and `max` bytes, and at the latest after `max` bytes. -/
structure Bounded {σ : Type} (sp : Splitter σ) (min max : Nat) : Prop where
  cut_in_range : ∀ a k s', sp.next sp.init a = (some k, s') → min ≤ k ∧ k ≤ max
  cut_by_max : ∀ a s', max ≤ a.length → sp.next sp.init a ≠ (none, s')

/-- bounds part of the executable statement -/
def boundsOK (min max : Nat) (cs : List Bytes) : Bool :=
  (allButLast cs).all (fun c => min ≤ c.length && c.length ≤ max) &&
  cs.all (fun c => 0 < c.length && c.length ≤ max)

theorem boundsOK_cons (min max : Nat) (c : Bytes) (cs : List Bytes)
    (h1 : min ≤ c.length) (h2 : c.length ≤ max) (h3 : 0 < c.length) (h : boundsOK min max cs = true) :
    boundsOK min max (c :: cs) = true := by
  cases cs with
  | nil => simp [boundsOK, allButLast, h2, h3]
  | cons d ds =>
    simp only [boundsOK, allButLast, List.all_cons, Bool.and_eq_true, decide_eq_true_eq] at h ⊢
    exact ⟨⟨⟨h1, h2⟩, h.1⟩, ⟨h3, h2⟩, h.2⟩

theorem refChunks_bounds {σ : Type} (sp : Splitter σ) (hr : InRange sp) (h3 : ResetsAfterCut sp) (min max : Nat)
    (h2 : Bounded sp min max) (file : Bytes) : boundsOK min max (refChunks sp sp.init file) = true := by
  induction hn : file.length using Nat.strongRecOn generalizing file with
  | _ n ih =>
    by_cases hx : file = []
    · subst hx; rw [refChunks_nil]; rfl
    · cases hnext : sp.next sp.init file with
      | mk o s' =>
        cases o with
        | none =>
          rw [refChunks_none sp _ s' _ hx hnext]
          have hlt : file.length < max := by
            by_cases hc : max ≤ file.length
            · exact absurd hnext (h2.cut_by_max file s' hc)
            · omega
          have hpos : 0 < file.length := List.length_pos_iff.mpr hx
          simp [boundsOK, allButLast, hpos]
          omega
        | some k =>
          have hk := hr.pos_le _ _ _ _ hnext
          have hs' := h3.reset_after_cut _ _ _ _ hnext
          rw [refChunks_some sp _ s' _ k hx hnext hk, hs']
          have hb := h2.cut_in_range _ _ _ hnext
          have hlen : (file.take k).length = k := by simp; omega
          apply boundsOK_cons
          · rw [hlen]; exact hb.1
          · rw [hlen]; exact hb.2
          · rw [hlen]; exact hk.1
          · exact ih (file.drop k).length (by simp; omega) (file.drop k) rfl

theorem refChunks_flatten {σ : Type} (sp : Splitter σ) (st : σ) (file : Bytes) :
    (refChunks sp st file).flatten = file := by
  induction hn : file.length using Nat.strongRecOn generalizing file st with
  | _ n ih =>
    by_cases hx : file = []
    · subst hx; rw [refChunks_nil]; rfl
    · cases hnext : sp.next st file with
      | mk o s' =>
        cases o with
        | none => rw [refChunks_none sp _ s' _ hx hnext]; simp
        | some k =>
          by_cases hk : 0 < k ∧ k ≤ file.length
          · rw [refChunks_some sp _ s' _ k hx hnext hk]
            simp only [List.flatten_cons]
            rw [ih (file.drop k).length (by simp; omega) s' (file.drop k) rfl, List.take_append_drop]
          · rw [refChunks]; simp [hx, hnext, hk]

/-- **Main theorem (transcription meets the executable statement)**: for a library obeying L0–L3,
    every read-buffer size ≥ 1 and every file, restic's chunk loop succeeds and its chunk list
    satisfies `specOK`: the concatenation is the file, every chunk but the last has a size in
    `[min, max]`, the last one is non-empty and at most `max`. -/
theorem chunks_specOK {σ : Type} (sp : Splitter σ) (hr : InRange sp) (hs : Streaming sp) (h3 : ResetsAfterCut sp)
    (min max : Nat) (h2 : Bounded sp min max) (bufSize : Nat) (hb : 0 < bufSize) (file : Bytes) :
    ∃ cs, chunks sp bufSize file = .ok cs ∧ specOK min max file cs = true := by
  refine ⟨_, chunks_eq_ref sp hr hs bufSize hb file, ?_⟩
  have h1 := refChunks_flatten sp sp.init file
  have hbd := refChunks_bounds sp hr h3 min max h2 file
  unfold boundsOK at hbd
  unfold specOK
  rw [h1]
  simpa using hbd


/-! ### edit locality (shift resistance) -/

/-- a split found inside a prefix does not depend on what follows the prefix -/
theorem cut_in_prefix {σ : Type} (sp : Splitter σ) (hr : InRange sp) (hs : Streaming sp) (s s' : σ) (p x y : Bytes)
    (k : Nat) (h : sp.next s (p ++ x) = (some k, s')) (hk : k ≤ p.length) : sp.next s (p ++ y) = (some k, s') := by
  cases hp : sp.next s p with
  | mk o s'' =>
    cases o with
    | some k' =>
      have h1 := hs.some_append _ _ x _ _ hp
      rw [h] at h1
      rw [hs.some_append _ _ y _ _ hp, h1]
    | none =>
      have h1 := hs.none_append _ _ x _ hp
      rw [h] at h1
      cases hx : sp.next s'' x with
      | mk o2 s3 =>
        rw [hx] at h1
        cases o2 with
        | none => simp at h1
        | some k0 =>
          have := hr.pos_le _ _ _ _ hx
          simp at h1
          omega

/-- **Edit locality, part 1**: the chunks of `p ++ x` that end inside `p` (and are not the file's
    last chunk) are also the leading chunks of `p ++ y`, for any `x`, `y`: an edit never changes
    a chunk that ends before it. Stated with the executable predicate used on the implementation. -/
theorem edit_prefix_stable_go {σ : Type} (sp : Splitter σ) (hr : InRange sp) (hs : Streaming sp)
    (s : σ) (p x y : Bytes) (off : Nat) :
    stablePrefixCount.go (off + p.length) off (refChunks sp s (p ++ x)) ≤
      commonPrefixLen (refChunks sp s (p ++ x)) (refChunks sp s (p ++ y)) := by
  induction hn : p.length using Nat.strongRecOn generalizing p s off with
  | _ n ih =>
    by_cases hx : p ++ x = []
    · rw [hx, refChunks_nil]; simp [stablePrefixCount.go]
    · cases hnext : sp.next s (p ++ x) with
      | mk o s' =>
        cases o with
        | none => rw [refChunks_none sp _ s' _ hx hnext]; simp [stablePrefixCount.go]
        | some k =>
          have hk := hr.pos_le _ _ _ _ hnext
          rw [refChunks_some sp _ s' _ k hx hnext hk]
          cases hrest : refChunks sp s' (List.drop k (p ++ x)) with
          | nil => simp [stablePrefixCount.go]
          | cons d ds =>
            simp only [stablePrefixCount.go]
            split
            · rename_i hle
              have hlen : (List.take k (p ++ x)).length = k := by
                rw [List.length_take]; exact Nat.min_eq_left hk.2
              rw [hlen] at hle
              have hkp : k ≤ p.length := by omega
              have hnext' := cut_in_prefix sp hr hs s s' p x y k hnext hkp
              have hy : p ++ y ≠ [] := by
                intro hc
                have : p = [] := (List.append_eq_nil_iff.mp hc).1
                rw [this] at hkp; simp at hkp; omega
              have hk' : 0 < k ∧ k ≤ (p ++ y).length := by simp; omega
              rw [refChunks_some sp _ s' _ k hy hnext' hk']
              have e1 : List.take k (p ++ x) = List.take k p := List.take_append_of_le_length hkp
              have e2 : List.take k (p ++ y) = List.take k p := List.take_append_of_le_length hkp
              have e3 : List.drop k (p ++ x) = List.drop k p ++ x := List.drop_append_of_le_length hkp
              have e4 : List.drop k (p ++ y) = List.drop k p ++ y := List.drop_append_of_le_length hkp
              rw [e1, e2]
              simp only [commonPrefixLen, beq_self_eq_true, if_true]
              have := ih (p.drop k).length (by simp; omega) s' (p.drop k) (off + k) rfl
              have hlen2 : (List.take k p).length = k := by
                rw [List.length_take]; exact Nat.min_eq_left hkp
              rw [← hrest, hlen2, e3, e4]
              have e5 : off + k + (List.drop k p).length = off + n := by simp; omega
              rw [e5] at this
              omega
            · omega

theorem edit_prefix_stable {σ : Type} (sp : Splitter σ) (hr : InRange sp) (hs : Streaming sp) (p x y : Bytes) :
    editLocalOK p.length (refChunks sp sp.init (p ++ x)) (refChunks sp sp.init (p ++ y)) = true := by
  unfold editLocalOK stablePrefixCount
  have := edit_prefix_stable_go sp hr hs sp.init p x y 0
  simp only [Nat.zero_add] at this
  simpa using this

/-- after an exact cut at offset `c` the remaining chunks are the chunking of the remaining bytes -/
theorem chunksAfter_ref {σ : Type} (sp : Splitter σ) (hr : InRange sp) (h3 : ResetsAfterCut sp)
    (file : Bytes) (c : Nat) (a : List Bytes)
    (h : chunksAfter c (refChunks sp sp.init file) = some a) :
    c ≤ file.length ∧ a = refChunks sp sp.init (file.drop c) := by
  induction hn : file.length using Nat.strongRecOn generalizing file c with
  | _ n ih =>
    cases c with
    | zero => simp [chunksAfter] at h; exact ⟨Nat.zero_le _, by simp [h]⟩
    | succ c =>
      by_cases hx : file = []
      · subst hx; rw [refChunks_nil] at h; simp [chunksAfter] at h
      · cases hnext : sp.next sp.init file with
        | mk o s' =>
          cases o with
          | none =>
            rw [refChunks_none sp _ s' _ hx hnext] at h
            simp only [chunksAfter] at h
            split at h
            · rename_i hle
              cases hc : c + 1 - file.length with
              | zero =>
                rw [hc] at h; simp [chunksAfter] at h
                have : c + 1 = file.length := by omega
                refine ⟨by omega, ?_⟩
                rw [this, List.drop_length, refChunks_nil, h]
              | succ m => rw [hc] at h; simp [chunksAfter] at h
            · cases h
          | some k =>
            have hk := hr.pos_le _ _ _ _ hnext
            have hs' := h3.reset_after_cut _ _ _ _ hnext
            rw [refChunks_some sp _ s' _ k hx hnext hk, hs'] at h
            simp only [chunksAfter] at h
            have hlen : (file.take k).length = k := by simp; omega
            rw [hlen] at h
            split at h
            · rename_i hle
              have := ih (file.drop k).length (by simp; omega) (file.drop k) (c + 1 - k) h rfl
              simp at this
              refine ⟨by omega, ?_⟩
              rw [this.2]
              congr 2
              omega
            · cases h

/-- **Edit locality, part 2 (re-synchronisation)**: if the chunking of `u ++ t` has a cut exactly
    after `u` and the chunking of `u' ++ t` has a cut exactly after `u'`, the two files have the
    same chunks from there on — whatever `u` and `u'` are. -/
theorem edit_resync {σ : Type} (sp : Splitter σ) (hr : InRange sp) (h3 : ResetsAfterCut sp) (u u' t : Bytes)
    (a b : List Bytes)
    (ha : chunksAfter u.length (refChunks sp sp.init (u ++ t)) = some a)
    (hb : chunksAfter u'.length (refChunks sp sp.init (u' ++ t)) = some b) : a = b := by
  have h1 := (chunksAfter_ref sp hr h3 _ _ _ ha).2
  have h2 := (chunksAfter_ref sp hr h3 _ _ _ hb).2
  simp at h1 h2
  rw [h1, h2]

/-- the executable form checked on the implementation's chunk lists -/
theorem edit_resyncOK {σ : Type} (sp : Splitter σ) (hr : InRange sp) (h3 : ResetsAfterCut sp) (p x y t : Bytes) :
    resyncOK p.length x.length y.length (refChunks sp sp.init (p ++ x ++ t)) (refChunks sp sp.init (p ++ y ++ t)) = true := by
  unfold resyncOK
  rw [List.all_eq_true]
  intro c _
  split
  · rename_i hc
    split
    · rename_i a b ha hb
      have h1 := chunksAfter_ref sp hr h3 _ _ _ ha
      have h2 := chunksAfter_ref sp hr h3 _ _ _ hb
      have e1 : List.drop c (p ++ x ++ t) = List.drop (c - p.length - x.length) t := by
        rw [List.drop_append, List.drop_of_length_le (by simp; omega)]
        simp
        congr 1
        omega
      have e2 : List.drop (c - x.length + y.length) (p ++ y ++ t) = List.drop (c - p.length - x.length) t := by
        rw [List.drop_append, List.drop_of_length_le (by simp; omega)]
        simp
        congr 1
        omega
      rw [h1.2, h2.2, e1, e2]
      simp
    · rfl
  · rfl


/-! ### several workers at once: a worker's result does not depend on the other workers -/

def iter {α : Type} (f : α → α) : Nat → α → α
  | 0, a => a
  | n + 1, a => iter f n (f a)

theorem getElem?_modify_self {α : Type} (l : List α) (i : Nat) (f : α → α) : (l.modify i f)[i]? = l[i]?.map f := by
  rw [List.getElem?_modify]; simp

theorem getElem?_modify_other {α : Type} (l : List α) (i j : Nat) (f : α → α) (h : i ≠ j) : (l.modify i f)[j]? = l[j]? := by
  rw [List.getElem?_modify]; simp [h]

/-- projection: whatever the schedule, worker `w` ends where it would end running alone for as many
    turns as the schedule gives it -/
theorem runPool_proj {σ : Type} (sp : Splitter σ) (bufSize : Nat) (sched : List Nat) (ws : List (WState σ)) (w : Nat) :
    (runPool sp bufSize sched ws)[w]? = ws[w]?.map (iter (wstep sp bufSize) (sched.count w)) := by
  unfold runPool
  induction sched generalizing ws with
  | nil => simp [iter]
  | cons i rest ih =>
    simp only [List.foldl_cons]
    rw [ih]
    by_cases h : i = w
    · subst h
      rw [getElem?_modify_self]
      simp only [List.count_cons_self, Option.map_map]
      congr 1
    · rw [getElem?_modify_other _ _ _ _ h]
      have : (i == w) = false := by simpa using h
      simp [List.count_cons, this]

/-- the chunk loop is the iteration of `wstep` -/
theorem chunkLoop_iter {σ : Type} (sp : Splitter σ) (bufSize : Nat) (fuel : Nat) (cs : CState) (rd : Reader) (st : σ) (acc : List Bytes) :
    (chunkLoop sp bufSize fuel cs rd st acc).1 =
      ((iter (wstep sp bufSize) fuel { cs := cs, rd := rd, st := st, acc := acc, out := none }).out).getD .fuel := by
  induction fuel generalizing cs rd st acc with
  | zero => simp [chunkLoop, iter]
  | succ fuel ih =>
    have hdone : ∀ (n : Nat) (w : WState σ) (o : Out), w.out = some o → (iter (wstep sp bufSize) n w).out = some o := by
      intro n
      induction n with
      | zero => intro w o h; exact h
      | succ n ihn => intro w o h; simp only [iter]; apply ihn; simp [wstep, h]
    simp only [chunkLoop, iter]
    have e : wstep sp bufSize { cs := cs, rd := rd, st := st, acc := acc, out := none } =
        (match readNextChunk sp bufSize cs rd st [] with
          | (.chunk d, cs', rd', st') => { cs := cs', rd := rd', st := st', acc := acc ++ [d], out := none }
          | (.eof, cs', rd', st') => { cs := cs', rd := rd', st := st', acc := acc, out := some (.ok acc) }
          | (.error, cs', rd', st') => { cs := cs', rd := rd', st := st', acc := acc, out := some .error }
          | (.badSplit k a, cs', rd', st') => { cs := cs', rd := rd', st := st', acc := acc, out := some (.badSplit k a) }
          | (.spin, cs', rd', st') => { cs := cs', rd := rd', st := st', acc := acc, out := some .spin }) := rfl
    rw [e]
    generalize readNextChunk sp bufSize cs rd st [] = res
    obtain ⟨r, cs', rd', st'⟩ := res
    cases r with
    | chunk d => simp only; exact ih cs' rd' st' (acc ++ [d])
    | eof => simp only; rw [hdone _ _ (.ok acc) rfl]; rfl
    | error => simp only; rw [hdone _ _ .error rfl]; rfl
    | badSplit k a => simp only; rw [hdone _ _ (.badSplit k a) rfl]; rfl
    | spin => simp only; rw [hdone _ _ .spin rfl]; rfl

/-- once a worker is finished further turns change nothing -/
theorem iter_done {σ : Type} (sp : Splitter σ) (bufSize : Nat) (n : Nat) (w : WState σ) (o : Out) (h : w.out = some o) :
    (iter (wstep sp bufSize) n w).out = some o := by
  induction n generalizing w with
  | zero => exact h
  | succ n ih => simp only [iter]; apply ih; simp [wstep, h]

theorem iter_add {α : Type} (f : α → α) (m n : Nat) (a : α) : iter f (m + n) a = iter f n (iter f m a) := by
  induction m generalizing a with
  | zero => simp [iter]
  | succ m ih => rw [Nat.succ_add]; simp only [iter]; exact ih (f a)

/-- **Boundaries do not depend on what other workers do.** In a pool of file workers with any number
    of workers in any states, for EVERY schedule that gives worker `w` enough turns to finish its
    file, the outcome of `w` is the outcome of `saveFile` on that file alone — whatever the other
    workers were handed and however their turns are interleaved with those of `w`. -/
theorem pool_worker_indep {σ : Type} (sp : Splitter σ) (bufSize : Nat) (ws : List (WState σ)) (w : Nat)
    (cs : CState) (st : σ) (file : Reader) (hw : ws[w]? = some (wstart sp cs st file))
    (sched : List Nat) (hturns : file.data.length + 2 ≤ sched.count w) :
    ((runPool sp bufSize sched ws)[w]?).bind (·.out) = some (saveFile sp bufSize cs st file).1 := by
  rw [runPool_proj, hw]
  simp only [Option.map_some, Option.bind_some]
  obtain ⟨extra, he⟩ : ∃ extra, sched.count w = (file.data.length + 2) + extra := ⟨_, (Nat.add_sub_cancel' hturns).symm⟩
  rw [he, iter_add]
  have hloop := chunkLoop_iter sp bufSize (file.data.length + 2) cs.reset file sp.init []
  have hne := saveFile_ne_fuel sp bufSize cs st file
  unfold saveFile at hne ⊢
  unfold wstart
  cases ho : (iter (wstep sp bufSize) (file.data.length + 2) { cs := cs.reset, rd := file, st := sp.init, acc := [], out := none }).out with
  | none => rw [ho] at hloop; simp at hloop; exact absurd hloop hne
  | some o =>
    rw [ho] at hloop
    simp at hloop
    rw [iter_done sp bufSize extra _ o ho, hloop]

/-- … in particular it is the chunking of a fresh single worker (`chunks`) for a readable file -/
theorem pool_worker_chunks {σ : Type} (sp : Splitter σ) (bufSize : Nat) (ws : List (WState σ)) (w : Nat)
    (cs : CState) (st : σ) (file : Bytes) (hw : ws[w]? = some (wstart sp cs st { data := file, failAtEnd := false }))
    (sched : List Nat) (hturns : file.length + 2 ≤ sched.count w) :
    ((runPool sp bufSize sched ws)[w]?).bind (·.out) = some (chunks sp bufSize file) := by
  rw [pool_worker_indep sp bufSize ws w cs st _ hw sched hturns]
  rfl

end Restic.Props.C17
