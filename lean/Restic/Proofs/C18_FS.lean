import Restic.Model.RestoreFS
/-!
Lemmas about the file system model of C18: lookups after updates, path resolution along a
chain without symlinks, and the frame ("only locations strictly inside `dst` change") of every
operation.
-/
namespace Restic.Model.RestoreFS

/-! ## lookups -/

namespace FS

theorem get_cons (p : Path) (e : Entry) (l : List (Path × Entry)) (q : Path) :
    (FS.mk ((p, e) :: l)).get q = if p = q then some e else (FS.mk l).get q := by
  simp only [get, List.find?_cons]
  by_cases h : p = q
  · simp [h]
  · have : (p == q) = false := by simpa using h
    simp [this, h]

theorem get_erase (fs : FS) (p q : Path) : (fs.erase p).get q = if q = p then none else fs.get q := by
  obtain ⟨l⟩ := fs
  induction l with
  | nil => simp [erase, get]
  | cons a rest ih =>
    obtain ⟨a1, a2⟩ := a
    simp only [erase, List.filter_cons] at ih ⊢
    by_cases ha : a1 = p
    · subst ha
      simp only [beq_self_eq_true, Bool.not_true, Bool.false_eq_true, if_false]
      rw [ih, get_cons]
      by_cases hq : q = a1
      · simp [hq]
      · have : ¬ a1 = q := fun h => hq h.symm
        simp [hq, this]
    · have hb : (a1 == p) = false := by simpa using ha
      simp only [hb, Bool.not_false, if_true]
      rw [get_cons, get_cons, ih]
      by_cases hq : a1 = q
      · subst hq; simp [ha]
      · simp [hq]

theorem get_set (fs : FS) (p : Path) (e : Entry) (q : Path) :
    (fs.set p e).get q = if q = p then some e else fs.get q := by
  simp only [set]
  rw [get_cons]
  by_cases h : p = q
  · simp [h]
  · have : ¬ q = p := fun h' => h h'.symm
    simp only [h, if_false, this]
    have he : (FS.mk (fs.erase p).ents).get q = (fs.erase p).get q := rfl
    rw [he, get_erase]
    simp [this]

theorem get_removeTree (fs : FS) (p q : Path) :
    (fs.removeTree p).get q = if p <+: q then none else fs.get q := by
  obtain ⟨l⟩ := fs
  induction l with
  | nil => simp [removeTree, get]
  | cons a rest ih =>
    obtain ⟨a1, a2⟩ := a
    simp only [removeTree, List.filter_cons] at ih ⊢
    by_cases ha : p <+: a1
    · have hb : p.isPrefixOf a1 = true := List.isPrefixOf_iff_prefix.mpr ha
      simp only [hb, Bool.not_true, Bool.false_eq_true, if_false]
      rw [ih, get_cons]
      by_cases hq : a1 = q
      · subst hq; simp [ha]
      · simp [hq]
    · have hb : p.isPrefixOf a1 = false := by
        cases h : p.isPrefixOf a1
        · rfl
        · exact absurd (List.isPrefixOf_iff_prefix.mp h) ha
      simp only [hb, Bool.not_false, if_true]
      rw [get_cons, get_cons, ih]
      by_cases hq : a1 = q
      · subst hq; simp [ha]
      · simp [hq]

end FS

/-! ## frames -/

/-- `q` lies strictly inside `dst` -/
def Inside (dst q : Path) : Prop := dst <+: q ∧ q ≠ dst

/-- only locations strictly inside `dst` differ -/
def Frame (dst : Path) (a b : FS) : Prop := ∀ q, ¬Inside dst q → b.get q = a.get q

/-- no symlink appears where there was none -/
def NoNewSym (a b : FS) : Prop :=
  ∀ q, (match b.get q with | some e => e.isSymlink | none => false) = true →
       (match a.get q with | some e => e.isSymlink | none => false) = true

theorem Frame.refl (dst : Path) (a : FS) : Frame dst a a := fun _ _ => rfl

theorem Frame.trans {dst : Path} {a b c : FS} (h1 : Frame dst a b) (h2 : Frame dst b c) : Frame dst a c :=
  fun q hq => by rw [h2 q hq, h1 q hq]

theorem NoNewSym.refl (a : FS) : NoNewSym a a := fun _ h => h

theorem NoNewSym.trans {a b c : FS} (h1 : NoNewSym a b) (h2 : NoNewSym b c) : NoNewSym a c :=
  fun q h => h1 q (h2 q h)

theorem inside_of_prefix {dst p q : Path} (hp : Inside dst p) (hq : p <+: q) : Inside dst q := by
  refine ⟨List.IsPrefix.trans hp.1 hq, ?_⟩
  intro h
  subst h
  have h1 := hp.1.length_le
  have h2 := hq.length_le
  have : p.length = q.length := by omega
  exact hp.2 (List.IsPrefix.eq_of_length hq this)

theorem frame_set {dst : Path} (fs : FS) {p : Path} (e : Entry) (hp : Inside dst p) :
    Frame dst fs (fs.set p e) := by
  intro q hq
  rw [FS.get_set]
  by_cases h : q = p
  · subst h; exact absurd hp hq
  · simp [h]

theorem frame_erase {dst : Path} (fs : FS) {p : Path} (hp : Inside dst p) :
    Frame dst fs (fs.erase p) := by
  intro q hq
  rw [FS.get_erase]
  by_cases h : q = p
  · subst h; exact absurd hp hq
  · simp [h]

theorem frame_removeTree {dst : Path} (fs : FS) {p : Path} (hp : Inside dst p) :
    Frame dst fs (fs.removeTree p) := by
  intro q hq
  rw [FS.get_removeTree]
  by_cases h : p <+: q
  · exact absurd (inside_of_prefix hp h) hq
  · simp [h]

/-! ## resolution along a chain without symlinks -/

/-- a name that is exactly one path component as far as resolution is concerned -/
def PlainName (n : Name) : Prop := n ≠ [] ∧ n ≠ dot ∧ n ≠ dotdot

def PlainPath (p : Path) : Prop := ∀ n ∈ p, PlainName n

def isSym (fs : FS) (q : Path) : Bool := match fs.get q with | some e => e.isSymlink | none => false
def isDirAt (fs : FS) (q : Path) : Bool := match fs.get q with | some e => e.isDir | none => false

/-- none of `cur ++ rest.take k` (1 ≤ k ≤ |rest|) is a symlink -/
def NoSymFrom (fs : FS) (cur : Path) (rest : List Name) : Prop :=
  ∀ k, 1 ≤ k → k ≤ rest.length → isSym fs (cur ++ rest.take k) = false

/-- all of `cur ++ rest.take k` (1 ≤ k ≤ |rest|) are directories -/
def RealFrom (fs : FS) (cur : Path) (rest : List Name) : Prop :=
  ∀ k, 1 ≤ k → k ≤ rest.length → isDirAt fs (cur ++ rest.take k) = true

theorem isSym_false_of_isDirAt {fs : FS} {q : Path} (h : isDirAt fs q = true) : isSym fs q = false := by
  unfold isDirAt at h
  unfold isSym
  cases hg : fs.get q with
  | none => rfl
  | some e => rw [hg] at h; cases e <;> simp_all [Entry.isDir, Entry.isSymlink]

theorem RealFrom.noSym {fs : FS} {cur : Path} {rest : List Name} (h : RealFrom fs cur rest) :
    NoSymFrom fs cur rest := fun k h1 h2 => isSym_false_of_isDirAt (h k h1 h2)

theorem noSymFrom_tail {fs : FS} {cur : Path} {c : Name} {rest : List Name}
    (h : NoSymFrom fs cur (c :: rest)) : NoSymFrom fs (cur ++ [c]) rest := by
  intro k h1 h2
  have := h (k + 1) (by omega) (by simp; omega)
  simpa [List.take_succ_cons, List.append_assoc] using this

theorem realFrom_tail {fs : FS} {cur : Path} {c : Name} {rest : List Name}
    (h : RealFrom fs cur (c :: rest)) : RealFrom fs (cur ++ [c]) rest := by
  intro k h1 h2
  have := h (k + 1) (by omega) (by simp; omega)
  simpa [List.take_succ_cons, List.append_assoc] using this

theorem resolveDir_noSym (fs : FS) (fuel : Nat) (cur : Path) (rest : List Name)
    (hp : PlainPath rest) (hs : NoSymFrom fs cur rest) :
    resolveDir fs fuel cur rest = none ∨ resolveDir fs fuel cur rest = some (cur ++ rest) := by
  induction rest generalizing fuel cur with
  | nil =>
    cases fuel with
    | zero => left; rfl
    | succ f => right; simp [resolveDir]
  | cons c rest ih =>
    cases fuel with
    | zero => left; rfl
    | succ f =>
      have hc := hp c List.mem_cons_self
      have h1 : (c == [] || c == dot) = false := by
        have := hc.1; have := hc.2.1; simp_all
      have h2 : (c == dotdot) = false := by have := hc.2.2; simp_all
      simp only [resolveDir, h1, h2, Bool.false_eq_true, if_false]
      have hsym := hs 1 (by omega) (by simp)
      simp only [List.take_succ_cons, List.take_zero] at hsym
      unfold isSym at hsym
      cases hg : fs.get (cur ++ [c]) with
      | none => left; rfl
      | some e =>
        rw [hg] at hsym
        cases e with
        | dir m =>
          have := ih f (cur ++ [c]) (fun n hn => hp n (List.mem_cons_of_mem _ hn)) (noSymFrom_tail hs)
          simpa [List.append_assoc] using this
        | file => left; rfl
        | special => left; rfl
        | symlink a t => simp [Entry.isSymlink] at hsym

theorem resolveDir_real (fs : FS) (fuel : Nat) (cur : Path) (rest : List Name)
    (hp : PlainPath rest) (hr : RealFrom fs cur rest) (hf : rest.length < fuel) :
    resolveDir fs fuel cur rest = some (cur ++ rest) := by
  induction rest generalizing fuel cur with
  | nil =>
    cases fuel with
    | zero => omega
    | succ f => simp [resolveDir]
  | cons c rest ih =>
    cases fuel with
    | zero => omega
    | succ f =>
      have hc := hp c List.mem_cons_self
      have h1 : (c == [] || c == dot) = false := by
        have := hc.1; have := hc.2.1; simp_all
      have h2 : (c == dotdot) = false := by have := hc.2.2; simp_all
      simp only [resolveDir, h1, h2, Bool.false_eq_true, if_false]
      have hd := hr 1 (by omega) (by simp)
      simp only [List.take_succ_cons, List.take_zero] at hd
      unfold isDirAt at hd
      cases hg : fs.get (cur ++ [c]) with
      | none => rw [hg] at hd; cases hd
      | some e =>
        rw [hg] at hd
        cases e with
        | dir m =>
          have := ih f (cur ++ [c]) (fun n hn => hp n (List.mem_cons_of_mem _ hn)) (realFrom_tail hr)
            (by simp at hf; omega)
          simpa [List.append_assoc] using this
        | file => simp [Entry.isDir] at hd
        | special => simp [Entry.isDir] at hd
        | symlink a t => simp [Entry.isDir] at hd

/-- `locate` of `d ++ [name]` when no component of `d` is a symlink: fails, or is the path itself -/
theorem locate_noSym (fs : FS) (d : Path) (name : Name) (hd : PlainPath d) (hn : PlainName name)
    (hs : NoSymFrom fs [] d) :
    locate fs (d ++ [name]) = none ∨ locate fs (d ++ [name]) = some (d ++ [name]) := by
  unfold locate
  have h1 : (name == [] || name == dot || name == dotdot) = false := by
    have := hn.1; have := hn.2.1; have := hn.2.2; simp_all
  simp only [List.getLast?_append, List.getLast?_singleton, Option.some_or, h1,
    Bool.false_eq_true, if_false, List.dropLast_concat]
  rcases resolveDir_noSym fs (fuelFor (d ++ [name])) [] d hd hs with h | h
  · left; simp [h]
  · right; simp [h]

theorem locate_real (fs : FS) (d : Path) (name : Name) (hd : PlainPath d) (hn : PlainName name)
    (hr : RealFrom fs [] d) : locate fs (d ++ [name]) = some (d ++ [name]) := by
  unfold locate
  have h1 : (name == [] || name == dot || name == dotdot) = false := by
    have := hn.1; have := hn.2.1; have := hn.2.2; simp_all
  simp only [List.getLast?_append, List.getLast?_singleton, Option.some_or, h1,
    Bool.false_eq_true, if_false, List.dropLast_concat]
  rw [resolveDir_real fs _ [] d hd hr (by simp [fuelFor]; omega)]
  simp

end Restic.Model.RestoreFS
