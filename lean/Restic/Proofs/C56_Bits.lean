import Restic.Model.IndexMap
/-!
# C56, layer L2: the bit packing of pointer words

`bloomCleanID (bloomInsertID idx next id) = idx` for `idx < 2^bloomShift`, the bloom bits of the new
word are those of `next` plus the bit of `id`, and every word fits in 64 bits. All statements are
for an arbitrary value of the regenerated constant `bloomShift` (only `bloomShift ≤ 64` is needed
for the width bound and is discharged from the regenerated constant in `Props/C56`).
-/
namespace Restic.Proofs.C56
open Restic.Model.IndexMap

/-- the bloom bit of an id: `id[0] % (64 - bloomShift)` -/
def bitOf (id : ID) : Nat := (id.headD 0).toNat % (wordBits - bloomShift)

theorem bloomForID_eq (id : ID) : bloomForID id = 2 ^ bitOf id := by
  simp [bloomForID, bitOf, Nat.one_shiftLeft]

theorem and_two_pow_ne_zero (x j : Nat) : (x &&& 2 ^ j != 0) = x.testBit j := by
  cases h : x.testBit j
  · have : x &&& 2 ^ j = 0 := by
      apply Nat.eq_of_testBit_eq
      intro i
      simp only [Nat.testBit_and, Nat.testBit_two_pow, Nat.zero_testBit]
      by_cases hi : j = i
      · subst hi; simp [h]
      · simp [hi]
    simp [this]
  · have : (x &&& 2 ^ j).testBit j = true := by
      simp [Nat.testBit_and, Nat.testBit_two_pow, h]
    have hne : x &&& 2 ^ j ≠ 0 := by
      intro h0; rw [h0] at this; simp at this
    simp [hne]

/-- `bloomHasID` tests one bit of the word -/
theorem bloomHasID_eq (w : Nat) (id : ID) : bloomHasID w id = w.testBit (bloomShift + bitOf id) := by
  simp only [bloomHasID, bloomForID_eq, and_two_pow_ne_zero, Nat.testBit_shiftRight]

theorem bloomMask_eq : bloomMask = 2 ^ bloomShift - 1 := by
  simp [bloomMask, Nat.one_shiftLeft]

theorem bloomCleanID_eq (x : Nat) : bloomCleanID x = x % 2 ^ bloomShift := by
  simp [bloomCleanID, bloomMask_eq]

theorem bloomCleanID_of_lt {x : Nat} (h : x < 2 ^ bloomShift) : bloomCleanID x = x := by
  rw [bloomCleanID_eq, Nat.mod_eq_of_lt h]

theorem bloomCleanID_lt (x : Nat) : bloomCleanID x < 2 ^ bloomShift := by
  rw [bloomCleanID_eq]; exact Nat.mod_lt _ (Nat.two_pow_pos _)

theorem testBit_of_lt_shift {p i : Nat} (hp : p < 2 ^ bloomShift) (hi : bloomShift ≤ i) : p.testBit i = false := by
  apply Nat.testBit_lt_two_pow
  exact Nat.lt_of_lt_of_le hp (Nat.pow_le_pow_right (by decide) hi)

/-- the low bits of an inserted word are the index -/
theorem bloomCleanID_insert {idx : Nat} (nxt : Nat) (id : ID) (h : idx < 2 ^ bloomShift) :
    bloomCleanID (bloomInsertID idx nxt id) = idx := by
  rw [bloomCleanID_eq]
  apply Nat.eq_of_testBit_eq
  intro i
  simp only [bloomInsertID, Nat.testBit_mod_two_pow, Nat.testBit_or, Nat.testBit_shiftLeft]
  by_cases hi : i < bloomShift
  · have : ¬ (i ≥ bloomShift) := by omega
    simp [hi, this]
  · have : bloomShift ≤ i := by omega
    simp [hi, testBit_of_lt_shift h this]

/-- bloom of the new word = bloom of `next` ∪ {bit of id} -/
theorem bloomHasID_insert {idx : Nat} (nxt : Nat) (id' id : ID) (h : idx < 2 ^ bloomShift) :
    bloomHasID (bloomInsertID idx nxt id') id = (bloomHasID nxt id || decide (bitOf id' = bitOf id)) := by
  simp only [bloomHasID_eq, bloomInsertID, bloomForID_eq, Nat.testBit_or, Nat.testBit_shiftLeft,
    Nat.testBit_shiftRight, Nat.testBit_two_pow]
  have h1 : idx.testBit (bloomShift + bitOf id) = false := testBit_of_lt_shift h (by omega)
  have h2 : bloomShift + bitOf id ≥ bloomShift := by omega
  have h3 : bloomShift + bitOf id - bloomShift = bitOf id := by omega
  simp [h1, h2, h3]

theorem bloomHasID_zero (id : ID) : bloomHasID 0 id = false := by
  simp [bloomHasID_eq]

/-- the early exit is sound: if the bloom of the new word excludes `id`, then the inserted id is
    different and the bloom of `next` excludes `id` too -/
theorem bloomHasID_insert_false {idx : Nat} {nxt : Nat} {id' id : ID} (h : idx < 2 ^ bloomShift)
    (hf : bloomHasID (bloomInsertID idx nxt id') id = false) : id' ≠ id ∧ bloomHasID nxt id = false := by
  rw [bloomHasID_insert nxt id' id h] at hf
  simp only [Bool.or_eq_false_iff, decide_eq_false_iff_not] at hf
  exact ⟨fun e => hf.2 (by rw [e]), hf.1⟩

theorem bloomHasID_insert_self {idx : Nat} (nxt : Nat) (id : ID) (h : idx < 2 ^ bloomShift) :
    bloomHasID (bloomInsertID idx nxt id) id = true := by
  rw [bloomHasID_insert nxt id id h]; simp

/-- an inserted word fits in 64 bits when `next` does (`uint` never overflows) -/
theorem bloomInsertID_lt {idx nxt : Nat} (id : ID) (hs : bloomShift < wordBits) (h : idx < 2 ^ bloomShift)
    (_hn : nxt < 2 ^ wordBits) : bloomInsertID idx nxt id < 2 ^ wordBits := by
  apply Nat.lt_pow_two_of_testBit
  intro i hi
  simp only [bloomInsertID, bloomForID_eq, Nat.testBit_or, Nat.testBit_shiftLeft, Nat.testBit_shiftRight,
    Nat.testBit_two_pow]
  have h1 : idx.testBit i = false := testBit_of_lt_shift h (by omega)
  have h2 : nxt.testBit (bloomShift + (i - bloomShift)) = false := by
    apply Nat.testBit_lt_two_pow
    exact Nat.lt_of_lt_of_le _hn (Nat.pow_le_pow_right (by decide) (by omega))
  have h3 : bitOf id < wordBits - bloomShift := Nat.mod_lt _ (by omega)
  have h4 : ¬ (bitOf id = i - bloomShift) := by omega
  simp [h1, h2, h4]

end Restic.Proofs.C56
