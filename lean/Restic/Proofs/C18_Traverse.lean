import Restic.Model.RestoreTree
import Restic.Proofs.C18_FS
import Restic.Proofs.C18_Ensure
/-!
A state invariant that every visitor callback preserves (when called with paths made of plain
names) is preserved by the whole traversal: `traverseTreeInner` only calls the visitor with
`target`/`location` = the parent's path extended by a node name that passed the name checks.
-/
namespace Restic.Model.RestoreTree
open Restic.Model.RestoreFS

structure VisInv (v : Visitor) (P : St → Prop) : Prop where
  err : ∀ st, P st → P st.err
  nodel : ∀ st, P st → P { st with delete := false }
  enter : ∀ f, v.enterDir = some f → ∀ st rel, PlainPath rel → P st → P (f st rel).1
  visit : ∀ st n rel, PlainPath rel → rel ≠ [] → P st → P (v.visitNode st n rel).1
  leave : ∀ f, v.leaveDir = some f → ∀ st n rel exp, PlainPath rel → (n.isSome = true → rel ≠ []) →
    P st → P (f st n rel exp).1
  skipped : ∀ g, v.skippedDir = some g → ∀ st rel exp, PlainPath rel → P st → P (g st rel exp).1

theorem VisInv.sanitize {v : Visitor} {P : St → Prop} (h : VisInv v P) (r : St × Bool) (hr : P r.1) :
    P (sanitize r) := by
  unfold RestoreTree.sanitize
  split
  · exact hr
  · exact h.err _ hr

/-- a node name that passes both checks of `traverseTreeInner` is a plain component and the
    node's path is the parent's path extended by it -/
theorem checks_plain (rel : Path) (name : Name) (h1 : ¬(!nameCheck1 name) = true)
    (h2 : ¬(joinName rel name == rel || !List.isPrefixOf rel (joinName rel name)) = true) :
    joinName rel name = rel ++ [name] ∧ PlainName name := by
  by_cases hs : (name == slash) = true
  · exfalso
    simp [joinName, hs] at h2
  · have hj : joinName rel name = rel ++ [name] := by simp [joinName, hs]
    refine ⟨hj, ?_⟩
    have : nameCheck1 name = true := by simpa using h1
    unfold nameCheck1 at this
    simp only [Bool.or_eq_true] at this
    rcases this with h | h
    · exact absurd h hs
    · exact plainName_of_plain h

theorem plainPath_snoc {rel : Path} {name : Name} (hr : PlainPath rel) (hn : PlainName name) :
    PlainPath (rel ++ [name]) := by
  intro n hn'
  rcases List.mem_append.mp hn' with h | h
  · exact hr n h
  · simp only [List.mem_singleton] at h
    exact h ▸ hn

theorem traverse_inv (cfg : Cfg) (v : Visitor) (P : St → Prop) (hv : VisInv v P) :
    ∀ (rel : Path) (nodes : List Node) (st : St) (fn : List Name) (hr : Bool),
      PlainPath rel → P st → P (traverseNodes cfg v rel nodes st fn hr).1 := by
  intro rel nodes st fn hr
  apply traverseNodes.induct cfg v
    (motive_1 := fun rel nodes st fn hr => PlainPath rel → P st → P (traverseNodes cfg v rel nodes st fn hr).1)
    (motive_2 := fun nodeRel n cm st => PlainPath nodeRel → P st → P (traverseDir cfg v nodeRel n cm st).1)
  -- traverseDir: childMay = false
  · intro nodeRel name type mode content links inode la lt hs children cm st hcm _ hP
    rw [traverseDir]
    simp [hcm, hP]
  -- traverseDir: fatal
  · intro nodeRel name type mode content links inode la lt hs children cm st hcm st1 fn1 hr1 heq ih hrel hP
    rw [traverseDir]
    have := ih hrel hP
    rw [heq] at this
    simp only [hcm, heq, Bool.false_eq_true, if_false, if_true]
    exact hv.err _ this
  -- traverseDir: not fatal
  · intro nodeRel name type mode content links inode la lt hs children cm st hcm st1 fn1 hr1 fatal heq hnf ih hrel hP
    rw [traverseDir]
    have := ih hrel hP
    rw [heq] at this
    have hf : fatal = false := by simpa using hnf
    subst hf
    simp only [hcm, heq, Bool.false_eq_true, if_false]
    exact this
  -- nil
  · intro rel st fn hr _ hP
    rw [traverseNodes]
    exact hP
  -- invalid name (check 1)
  · intro rel n rest st fn hr _ h1 ih hrel hP
    rw [traverseNodes]
    simp only [h1, if_true]
    exact ih hrel (hv.nodel _ (hv.err _ hP))
  -- invalid path (check 2)
  · intro rel n rest st fn hr _ h1 _ h2 ih hrel hP
    rw [traverseNodes]
    have h1' : (!nameCheck1 n.name) = false := by simpa using h1
    simp only [h1', Bool.false_eq_true, if_false]
    rw [if_pos h2]
    exact ih hrel (hv.nodel _ (hv.err _ hP))
  -- socket
  · intro rel n rest st fn hr _ h1 _ h2 h3 ih hrel hP
    rw [traverseNodes]
    have h1' : (!nameCheck1 n.name) = false := by simpa using h1
    have h2' : (joinName rel n.name == rel || !List.isPrefixOf rel (joinName rel n.name)) = false := by
      cases hb : (joinName rel n.name == rel || !List.isPrefixOf rel (joinName rel n.name))
      · rfl
      · exact absurd hb h2
    simp only [h1', h2', h3, Bool.false_eq_true, if_true, if_false]
    exact ih hrel hP
  -- dir without subtree
  · intro rel n rest st fn hr h1 _ h2 h3 sel cm hsel hdir hnos _ hP
    rw [traverseNodes]
    have h1' : (!nameCheck1 n.name) = false := by simpa using h1
    have h2' : (joinName rel n.name == rel || !List.isPrefixOf rel (joinName rel n.name)) = false := by
      cases hb : (joinName rel n.name == rel || !List.isPrefixOf rel (joinName rel n.name))
      · rfl
      · exact absurd hb h2
    have h3' : (n.type == NType.socket) = false := by
      cases hb : (n.type == NType.socket)
      · rfl
      · exact absurd hb h3
    simp only [h1', h2', h3', hsel, hdir, hnos, Bool.false_eq_true, if_true, if_false]
    exact hP
  -- dir
  · intro rel n rest st fn hr fn1 h1 nodeRel h2 h3 sel cm hsel hr1 hdir hsub st1 st2 childFn childHr hdirres hr2 st3 ih2 ih1 hrel hP
    obtain ⟨hj, hpn⟩ := checks_plain rel n.name h1 h2
    have hnr : PlainPath (joinName rel n.name) := by rw [hj]; exact plainPath_snoc hrel hpn
    have hne : joinName rel n.name ≠ [] := by rw [hj]; simp
    have hP1 : P st1 := by
      simp only [st1]
      cases sel with
      | false => exact hP
      | true =>
        cases hed : v.enterDir with
        | none => exact hP
        | some f => exact hv.sanitize _ (hv.enter f hed st _ hnr hP)
    have hP2 : P st2 := by
      have := ih2 hnr hP1
      rw [hdirres] at this
      exact this
    have hskip : P (if (!sel && !childHr && cm) = true then
        (match v.skippedDir with
         | some g => sanitize (g st2 (joinName rel n.name) childFn)
         | none => st2) else st2) := by
      split
      · cases hsd : v.skippedDir with
        | none => exact hP2
        | some g => exact hv.sanitize _ (hv.skipped g hsd st2 _ childFn hnr hP2)
      · exact hP2
    have hP3 : P st3 := by
      simp only [st3]
      cases (sel || childHr) with
      | false => exact hskip
      | true =>
        cases hed : v.leaveDir with
        | none => exact hskip
        | some f => exact hv.sanitize _ (hv.leave f hed st2 (some n) _ childFn hnr (fun _ => hne) hP2)
    have hfin := ih1 hrel hP3
    have h1' : (!nameCheck1 n.name) = false := by simpa using h1
    have h2' : (joinName rel n.name == rel || !List.isPrefixOf rel (joinName rel n.name)) = false := by
      cases hb : (joinName rel n.name == rel || !List.isPrefixOf rel (joinName rel n.name))
      · rfl
      · exact absurd hb h2
    have h3' : (n.type == NType.socket) = false := by
      cases hb : (n.type == NType.socket)
      · rfl
      · exact absurd hb h3
    have hsub' : (!n.hasSubtree) = false := by
      cases hb : (!n.hasSubtree)
      · rfl
      · exact absurd hb hsub
    simp only [nodeRel] at hsel
    rw [hdir] at hsel
    simp only [nodeRel, st1] at hdirres
    rw [traverseNodes]
    simp only [h1', h2', h3', Bool.false_eq_true, if_false, hsel, hdir, if_true, hsub', hdirres]
    exact hfin
  -- other node
  · intro rel n rest st fn hr fn1 h1 nodeRel h2 h3 sel cm hsel hr1 hdir st1 ih hrel hP
    obtain ⟨hj, hpn⟩ := checks_plain rel n.name h1 h2
    have hP1 : P st1 := by
      simp only [st1]
      split
      · exact hv.sanitize _ (hv.visit st n _ (by show PlainPath (joinName rel n.name); rw [hj]; exact plainPath_snoc hrel hpn)
          (by show joinName rel n.name ≠ []; rw [hj]; simp) hP)
      · exact hP
    have hfin := ih hrel hP1
    have h1' : (!nameCheck1 n.name) = false := by simpa using h1
    have h2' : (joinName rel n.name == rel || !List.isPrefixOf rel (joinName rel n.name)) = false := by
      cases hb : (joinName rel n.name == rel || !List.isPrefixOf rel (joinName rel n.name))
      · rfl
      · exact absurd hb h2
    have h3' : (n.type == NType.socket) = false := by
      cases hb : (n.type == NType.socket)
      · rfl
      · exact absurd hb h3
    have hdir' : (n.type == NType.dir) = false := by
      cases hb : (n.type == NType.dir)
      · rfl
      · exact absurd hb hdir
    simp only [nodeRel] at hsel
    rw [hdir'] at hsel
    rw [traverseNodes]
    simp only [h1', h2', h3', hdir', Bool.false_eq_true, if_false, hsel]
    exact hfin

theorem traverseTree_inv (cfg : Cfg) (v : Visitor) (P : St → Prop) (hv : VisInv v P)
    (tree : List Node) (st : St) (hP : P st) : P (traverseTree cfg v tree st).1 := by
  unfold traverseTree
  have hnil : PlainPath ([] : Path) := fun n hn => by cases hn
  have hP0 : P (rootEnter v st) := by
    unfold rootEnter
    cases hed : v.enterDir with
    | none => exact hP
    | some f => exact hv.sanitize _ (hv.enter f hed st [] hnil hP)
  have hP1 := traverse_inv cfg v P hv [] tree (rootEnter v st) [] false hnil hP0
  cases htr : traverseNodes cfg v [] tree (rootEnter v st) [] false with
  | mk st1 r =>
    obtain ⟨fn, hr, fatal⟩ := r
    rw [htr] at hP1
    simp only at hP1
    unfold rootLeave
    simp only
    cases fatal with
    | true => exact hP1
    | false =>
      simp only [Bool.false_eq_true, if_false]
      cases hr with
      | false =>
        simp only [Bool.not_false, if_true]
        cases hsd : v.skippedDir with
        | none => exact hP1
        | some g => exact hv.sanitize _ (hv.skipped g hsd st1 [] fn hnil hP1)
      | true =>
        cases hed : v.leaveDir with
        | none => exact hP1
        | some f => exact hv.sanitize _ (hv.leave f hed st1 none [] fn hnil (fun h => by cases h) hP1)

end Restic.Model.RestoreTree
