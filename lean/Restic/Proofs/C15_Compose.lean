import Restic.Props.C15
import Restic.Props.C09
import Restic.Props.C11
import Restic.Proofs.Writer
import Std.Data.String.ToNat
/-!
# C15 — composition with the per-command acceptors proved by other builders

`Restic.Props.C15` proves `CheckOK'` for histories whose commands stay inside the command
languages of `Restic.Model.CheckHist`. This file replaces that hypothesis, for `prune` and for
`backup` / `tag` / `rewrite`, by the acceptors of the builders who proved those commands safe:

* A11: `Restic.Model.Prune.accept` (phase automaton of `PrunePlan.Execute`) with `planOKRepo`,
  theorem `Restic.Props.C09.prune_prefix_safe`;
* A12: `Restic.Model.RepoTrace.accept_backup`, `accept_rewrites` (C11, C26).

Abstraction maps `abs11`, `abs12` send their repository states and events to `CheckHist` states
and events (blob entries are reduced to a token of their handle; A12's numeric file ids go through
an injective encoding). Simulation lemmas show that accepted traces map to traces of the
`CheckHist` languages, guards included, and that the maps commute with `apply`.

**Why `…_partial`.** Both foreign acceptors allow an index file to list only *part* of a pack's
header (`idxSaveOK` / `entryOK`: every listed entry occurs in the pack). `check` does not: it
computes the pack size from the index entries and compares the header with the index
(`checkPackInner`), so `CheckHist.evGuard` demands that an index entry equals the stored pack's blob
list. That is an essential difference between the models, so the simulations carry one extra
executable hypothesis, `exact11` / `exact12` ("every saved index entry is the blob list of a
stored pack"); A12's traces additionally need A12's own `freshOK` (file names are fresh), which
A11's acceptor already enforces.
-/
namespace Restic.Proofs.C15_Compose
open Restic.Model
open Restic.Props.C15 (Inv inv_empty inv_checkok run_inv_every_prefix)

abbrev CH.Repo := CheckHist.Repo

/-! ## A11: prune -/
section prune
variable (tok : Repo.BlobH → CheckHist.Id)

def absEntries (es : List Repo.Entry) : CheckHist.Blobs := es.map fun e => tok e.blob

def absIdx (f : Repo.IdxFile) : List (CheckHist.Id × CheckHist.Blobs) :=
  f.map fun x => (x.1, absEntries tok x.2)

/-- A11's repository state as a `CheckHist` state -/
def abs11 (r : Repo.Repo) : CheckHist.Repo :=
  { packs := r.packs.map fun p => (p.1, absEntries tok p.2),
    idx := r.indexes.map fun i => (i.1, absIdx tok i.2),
    snaps := r.snaps.map fun s => (s.1, s.2.reach.map tok) }

def absEv11 : Repo.Ev → CheckHist.Ev
  | .save .pack p (.pack es) => .savePack p (absEntries tok es)
  | .save .index i (.index f) => .saveIndex i (absIdx tok f)
  | .save .snapshot s (.snap sn) => .saveSnap s (sn.reach.map tok)
  | .remove .pack p => .removePack p
  | .remove .index i => .removeIndex i
  | .remove .snapshot s => .removeSnap s
  | _ => .other

/-- every index entry saved by the trace is the blob list of a pack stored at that moment -/
def exact11 : Repo.Repo → List Repo.Ev → Bool
  | _, [] => true
  | r, e :: tr =>
    (match e with
     | .save .index _ (.index f) => f.all fun x => r.packs.contains x
     | _ => true) && exact11 (Repo.apply r e) tr

theorem rm_noop {α : Type} (l : List (Repo.ID × α)) (id : Repo.ID) (h : ∀ x ∈ l, x.1 ≠ id) :
    Repo.rm l id = l := by
  unfold Repo.rm
  exact List.filter_eq_self.mpr (fun x hx => by simpa using h x hx)

theorem rm_map {α β : Type} (l : List (Repo.ID × α)) (id : Repo.ID) (f : α → β) :
    (Repo.rm l id).map (fun x => (x.1, f x.2)) = (l.map fun x => (x.1, f x.2)).filter fun q => q.1 != id := by
  unfold Repo.rm
  rw [List.filter_map]
  congr 1
  apply List.filter_congr
  intro x _
  by_cases h : x.1 = id <;> simp [h]


theorem abs11_indexedWithout (r : Repo.Repo) (i : Repo.ID) (b : Repo.BlobH)
    (h : Repo.Indexed (Repo.apply r (.remove .index i)) b = true) :
    CheckHist.indexedWithout i (abs11 tok r) (tok b) = true := by
  simp only [Repo.Indexed, Repo.apply, Repo.rm, List.any_eq_true, Bool.and_eq_true, List.mem_filter,
    decide_eq_true_eq] at h
  obtain ⟨j, ⟨hj, hji⟩, x, hx, ⟨e, he, heb⟩, _⟩ := h
  simp only [CheckHist.indexedWithout, abs11, List.any_eq_true, Bool.and_eq_true, List.mem_map,
    bne_iff_ne, ne_eq, List.contains_iff_mem]
  refine ⟨(j.1, absIdx tok j.2), ⟨j, hj, rfl⟩, hji, (x.1, absEntries tok x.2), ?_, ?_⟩
  · exact List.mem_map.mpr ⟨x, hx, rfl⟩
  · exact List.mem_map.mpr ⟨e, he, by rw [heb]⟩

/-- **one step of A11's prune automaton is one step of the `CheckHist` prune language**, and the
    abstraction commutes with it. `hsafe`: the blobs of the snapshots are still indexed after the
    event (this is A11's theorem `prune_prefix_safe`, used for index removals). -/
theorem step11 (pl : Prune.XPlan) (ph ph' : Nat) (r : Repo.Repo) (e : Repo.Ev)
    (hs : Prune.step pl ph r e = some ph')
    (hex : exact11 r [e] = true)
    (hsafe : ∀ s ∈ r.snaps, ∀ b ∈ s.2.reach, Repo.Indexed (Repo.apply r e) b = true) :
    CheckHist.allowed .prune (absEv11 tok e) = true ∧
    CheckHist.evGuard (abs11 tok r) (absEv11 tok e) = true ∧
    abs11 tok (Repo.apply r e) = CheckHist.apply (abs11 tok r) (absEv11 tok e) ∧
    (Repo.apply r e).snaps = r.snaps := by
  cases e with
  | read t id => exact ⟨rfl, rfl, rfl, rfl⟩
  | remove t id =>
    cases t with
    | pack =>
      have hni : Prune.noIndexNames r id = true := by
        simp only [Prune.step] at hs
        split at hs
        · next h => exact h.2.2
        · split at hs
          · next h => exact h.2.1
          · exact absurd hs (by simp)
      refine ⟨rfl, ?_, ?_, rfl⟩
      · simp only [Prune.noIndexNames, List.all_eq_true, decide_eq_true_eq] at hni
        simp only [CheckHist.evGuard, absEv11, abs11, List.all_eq_true, List.mem_map, bne_iff_ne, ne_eq]
        intro ie hie
        obtain ⟨i, hi, rfl⟩ := hie
        intro e he
        simp only [absIdx, List.mem_map] at he
        obtain ⟨x, hx, rfl⟩ := he
        exact hni i hi x hx
      · simp only [Repo.apply, absEv11, CheckHist.apply, abs11]
        congr 1
        exact rm_map r.packs id (absEntries tok)
    | index =>
      refine ⟨rfl, ?_, ?_, rfl⟩
      · simp only [CheckHist.evGuard, absEv11, abs11, List.all_eq_true, List.mem_map]
        intro sn hsn
        obtain ⟨s, hs', rfl⟩ := hsn
        intro tb htb
        change tb ∈ s.2.reach.map tok at htb
        simp only [List.mem_map] at htb
        obtain ⟨b, hb, rfl⟩ := htb
        exact abs11_indexedWithout tok r id b (hsafe s hs' b hb)
      · simp only [Repo.apply, absEv11, CheckHist.apply, abs11]
        congr 1
        exact rm_map r.indexes id (absIdx tok)
    | lock => exact ⟨rfl, rfl, rfl, rfl⟩
    | snapshot => simp [Prune.step] at hs
    | key => simp [Prune.step] at hs
    | config => simp [Prune.step] at hs
  | save t id c =>
    cases t with
    | lock => cases c <;> exact ⟨rfl, rfl, rfl, rfl⟩
    | snapshot => cases c <;> simp [Prune.step] at hs
    | key => cases c <;> simp [Prune.step] at hs
    | config => cases c <;> simp [Prune.step] at hs
    | pack =>
      cases c with
      | pack es =>
        have hfresh : ∀ x ∈ r.packs, x.1 ≠ id := by
          simp only [Prune.step] at hs
          split at hs
          · next h =>
            have := h.2.1
            simp only [Repo.packPresent, Bool.not_eq_true', List.any_eq_false, decide_eq_true_eq] at this
            exact this
          · exact absurd hs (by simp)
        have hnc : (abs11 tok r).packs.contains (id, absEntries tok es) = false := by
          apply Bool.eq_false_iff.mpr
          intro hc
          simp only [abs11, List.contains_iff_mem, List.mem_map] at hc
          obtain ⟨x, hx, hxe⟩ := hc
          exact hfresh x hx (by simpa using congrArg Prod.fst hxe)
        refine ⟨rfl, ?_, ?_, rfl⟩
        · simp only [CheckHist.evGuard, absEv11, abs11, List.all_eq_true, List.mem_map, Bool.or_eq_true,
            bne_iff_ne, ne_eq]
          rintro _ ⟨x, hx, rfl⟩
          exact Or.inl (hfresh x hx)
        · simp only [absEv11, CheckHist.apply, hnc, Bool.false_eq_true, if_false]
          simp only [Repo.apply, abs11, rm_noop r.packs id hfresh, List.map_cons]
      | index f => simp [Prune.step] at hs
      | snap s => simp [Prune.step] at hs
      | «opaque» => simp [Prune.step] at hs
    | index =>
      cases c with
      | index f =>
        have hok : Prune.idxSaveOK pl r id f = true := by
          simp only [Prune.step] at hs
          split at hs
          · next h => exact h.2
          · exact absurd hs (by simp)
        have hfresh : ∀ x ∈ r.indexes, x.1 ≠ id := by
          simp only [Prune.idxSaveOK, Bool.and_eq_true, List.all_eq_true, decide_eq_true_eq] at hok
          exact hok.1
        have hnc : (abs11 tok r).idx.contains (id, absIdx tok f) = false := by
          apply Bool.eq_false_iff.mpr
          intro hc
          simp only [abs11, List.contains_iff_mem, List.mem_map] at hc
          obtain ⟨x, hx, hxe⟩ := hc
          exact hfresh x hx (by simpa using congrArg Prod.fst hxe)
        refine ⟨rfl, ?_, ?_, rfl⟩
        · simp only [exact11, Bool.and_true, List.all_eq_true, List.contains_iff_mem] at hex
          simp only [CheckHist.evGuard, absEv11, absIdx, abs11, List.all_eq_true, List.mem_map,
            List.contains_iff_mem]
          rintro _ ⟨x, hx, rfl⟩
          exact ⟨x, hex x hx, rfl⟩
        · simp only [absEv11, CheckHist.apply, hnc, Bool.false_eq_true, if_false]
          simp only [Repo.apply, abs11, rm_noop r.indexes id hfresh, List.map_cons]
      | pack es => simp [Prune.step] at hs
      | snap s => simp [Prune.step] at hs
      | «opaque» => simp [Prune.step] at hs


theorem exact11_head (r : Repo.Repo) (e : Repo.Ev) (tr : List Repo.Ev) (h : exact11 r (e :: tr) = true) :
    exact11 r [e] = true ∧ exact11 (Repo.apply r e) tr = true := by
  simp only [exact11, Bool.and_eq_true, Bool.and_true] at h ⊢
  exact h

/-- trace level: an accepted prune trace maps into the `CheckHist` prune language, and the
    abstraction commutes with running any prefix -/
theorem sim11 (pl : Prune.XPlan) (tr : List Repo.Ev) : ∀ (ph : Nat) (r : Repo.Repo),
    Prune.acceptFrom pl ph r tr = true → exact11 r tr = true →
    (∀ k, ∀ s ∈ r.snaps, ∀ b ∈ s.2.reach, Repo.Indexed (Repo.applyAll r (tr.take k)) b = true) →
    CheckHist.accept .prune (abs11 tok r) (tr.map (absEv11 tok)) = true ∧
    ∀ k, abs11 tok (Repo.applyAll r (tr.take k)) =
      CheckHist.run (abs11 tok r) ((tr.take k).map (absEv11 tok)) := by
  induction tr with
  | nil => intro ph r _ _ _; exact ⟨rfl, fun k => by simp [Repo.applyAll, CheckHist.run]⟩
  | cons e tr ih =>
    intro ph r hacc hex hsafe
    simp only [Prune.acceptFrom] at hacc
    split at hacc
    · exact absurd hacc (by simp)
    · next ph' hstep =>
      obtain ⟨hex1, hex2⟩ := exact11_head r e tr hex
      have h1 : ∀ s ∈ r.snaps, ∀ b ∈ s.2.reach, Repo.Indexed (Repo.apply r e) b = true := by
        intro s hs b hb
        have := hsafe 1 s hs b hb
        simpa [Repo.applyAll] using this
      obtain ⟨hal, hg, hcomm, hsn⟩ := step11 tok pl ph ph' r e hstep hex1 h1
      have hsafe' : ∀ k, ∀ s ∈ (Repo.apply r e).snaps, ∀ b ∈ s.2.reach,
          Repo.Indexed (Repo.applyAll (Repo.apply r e) (tr.take k)) b = true := by
        intro k s hs b hb
        rw [hsn] at hs
        have := hsafe (k + 1) s hs b hb
        simpa [Repo.applyAll] using this
      obtain ⟨ih1, ih2⟩ := ih ph' (Repo.apply r e) hacc hex2 hsafe'
      refine ⟨?_, ?_⟩
      · simp only [List.map_cons, CheckHist.accept, hal, hg, Bool.and_self, Bool.true_and]
        rw [← hcomm]; exact ih1
      · intro k
        cases k with
        | zero => simp [Repo.applyAll, CheckHist.run]
        | succ k =>
          have := ih2 k
          simp only [List.take_succ_cons, List.map_cons, Repo.applyAll, List.foldl_cons, CheckHist.run] at this ⊢
          rw [← hcomm]; exact this

/-- **Prune, composed with A11's proof (C09).** A prune run accepted by A11's phase automaton,
    with a plan that is OK for the start state (`planOKRepo`, established by `plan_ok` /
    `planOK_repo` in C09), all snapshot blobs among the used blobs, and exact index entries, is a
    run of the `CheckHist` prune language, guards included; the abstraction commutes with every
    prefix. The index-removal guard is discharged by A11's theorem `prune_prefix_safe`. -/
theorem prune_in_language_partial (pl : Prune.XPlan) (used : List Repo.BlobH) (r0 : Repo.Repo)
    (tr : List Repo.Ev)
    (hacc : Prune.accept pl r0 tr = true) (hplan : Restic.Props.C09.planOKRepo pl used r0 = true)
    (hs : ∀ s ∈ r0.snaps, ∀ b ∈ s.2.reach, b ∈ used) (hex : exact11 r0 tr = true) :
    CheckHist.accept .prune (abs11 tok r0) (tr.map (absEv11 tok)) = true ∧
    ∀ k, abs11 tok (Repo.applyAll r0 (tr.take k)) =
      CheckHist.run (abs11 tok r0) ((tr.take k).map (absEv11 tok)) :=
  sim11 tok pl tr 0 r0 hacc hex
    (fun k s hs' b hb => Restic.Props.C09.prune_prefix_safe pl used r0 tr hacc hplan k b (hs s hs' b hb))

/-- the invariant of C15 at every crash point of such a prune run -/
theorem prune_inv_partial (pl : Prune.XPlan) (used : List Repo.BlobH) (r0 : Repo.Repo)
    (tr : List Repo.Ev) (hI : Inv (abs11 tok r0))
    (hacc : Prune.accept pl r0 tr = true) (hplan : Restic.Props.C09.planOKRepo pl used r0 = true)
    (hs : ∀ s ∈ r0.snaps, ∀ b ∈ s.2.reach, b ∈ used) (hex : exact11 r0 tr = true) (k : Nat) :
    Inv (abs11 tok (Repo.applyAll r0 (tr.take k))) := by
  obtain ⟨h1, h2⟩ := prune_in_language_partial tok pl used r0 tr hacc hplan hs hex
  rw [h2 k, List.map_take]
  exact run_inv_every_prefix .prune _ _ hI h1 k

end prune

/-! ## A12: backup, tag, rewrite -/
section writer
variable (enc : Nat → CheckHist.Id) (tokH : RepoTrace.Handle → CheckHist.Id)

def absBlobs (bs : List RepoTrace.Blob) : CheckHist.Blobs := bs.map fun b => tokH b.h

def absEntries12 (es : List RepoTrace.IndexEntry) : List (CheckHist.Id × CheckHist.Blobs) :=
  es.map fun e => (enc e.1, absBlobs tokH e.2)

/-- A12's repository state as a `CheckHist` state (`enc`: encoding of the numeric file ids) -/
def abs12 (r : RepoTrace.Repo) : CheckHist.Repo :=
  { packs := r.packs.map fun p => (enc p.1, absBlobs tokH p.2),
    idx := r.indexes.map fun i => (enc i.1, absEntries12 enc tokH i.2),
    snaps := r.snaps.map fun s => (enc s.1, s.2.needs.map tokH) }

def absEv12 : RepoTrace.Ev → CheckHist.Ev
  | .savePack p bs => .savePack (enc p) (absBlobs tokH bs)
  | .saveIndex i es => .saveIndex (enc i) (absEntries12 enc tokH es)
  | .saveSnap s sn => .saveSnap (enc s) (sn.needs.map tokH)
  | .removePack p => .removePack (enc p)
  | .removeIndex i => .removeIndex (enc i)
  | .removeSnap s => .removeSnap (enc s)

/-- every index entry saved by the trace is the blob list of a pack stored at that moment -/
def exact12 : RepoTrace.Repo → List RepoTrace.Ev → Bool
  | _, [] => true
  | r, e :: tr =>
    (match e with
     | .saveIndex _ es => es.all fun x => r.packs.contains x
     | _ => true) && exact12 (RepoTrace.apply r e) tr

def isRemoveSnap : RepoTrace.Ev → Bool
  | .removeSnap _ => true
  | _ => false

/-- the event-wise content of A12's writer languages: every event is an addition that passes
    A12's guard, or the removal of a snapshot file -/
def acceptW : RepoTrace.Repo → List RepoTrace.Ev → Bool
  | _, [] => true
  | r, e :: tr => (RepoTrace.addGuard r e || isRemoveSnap e) && acceptW (RepoTrace.apply r e) tr

theorem acceptW_of_adds : ∀ (tr : List RepoTrace.Ev) (r : RepoTrace.Repo),
    RepoTrace.acceptAdds r tr = true → acceptW r tr = true := by
  intro tr
  induction tr with
  | nil => intro r _; rfl
  | cons e tr ih =>
    intro r h
    simp only [RepoTrace.acceptAdds, Bool.and_eq_true] at h
    simp only [acceptW, h.1, Bool.true_or, Bool.true_and]
    exact ih _ h.2

theorem acceptW_of_rewrites (ek : List Nat) : ∀ (tr : List RepoTrace.Ev) (r : RepoTrace.Repo)
    (last : Option (Nat × Nat)), RepoTrace.accept_rewrites ek r last tr = true → acceptW r tr = true := by
  intro tr
  induction tr with
  | nil => intro r last _; rfl
  | cons e tr ih =>
    intro r last h
    cases e with
    | savePack p bs =>
      simp only [RepoTrace.accept_rewrites, Bool.and_eq_true] at h
      simp only [acceptW, h.1, Bool.true_or, Bool.true_and]; exact ih _ _ h.2
    | saveIndex i es =>
      simp only [RepoTrace.accept_rewrites, Bool.and_eq_true] at h
      simp only [acceptW, h.1, Bool.true_or, Bool.true_and]; exact ih _ _ h.2
    | saveSnap n sn =>
      simp only [RepoTrace.accept_rewrites, Bool.and_eq_true] at h
      simp only [acceptW, h.1, Bool.true_or, Bool.true_and]; exact ih _ _ h.2
    | removeSnap o =>
      simp only [RepoTrace.accept_rewrites, Bool.and_eq_true] at h
      simp only [acceptW, isRemoveSnap, Bool.or_true, Bool.true_and]; exact ih _ _ h.2
    | removePack p => simp [RepoTrace.accept_rewrites] at h
    | removeIndex i => simp [RepoTrace.accept_rewrites] at h

theorem filter_enc {α β : Type} (henc : Function.Injective enc) (l : List (Nat × α)) (s : Nat) (f : α → β) :
    (l.filter fun x => x.1 != s).map (fun x => (enc x.1, f x.2)) =
    (l.map fun x => (enc x.1, f x.2)).filter fun q => q.1 != enc s := by
  rw [List.filter_map]
  congr 1
  apply List.filter_congr
  intro x _
  by_cases h : x.1 = s
  · simp [h]
  · have h2 : enc x.1 ≠ enc s := fun he => h (henc he)
    rw [bne_iff_ne.mpr h]
    exact (bne_iff_ne.mpr h2).symm

/-- **one event of A12's writer languages is one guarded event of `CheckHist`**, and the
    abstraction commutes with it -/
theorem step12 (henc : Function.Injective enc) (r : RepoTrace.Repo) (e : RepoTrace.Ev)
    (hg : (RepoTrace.addGuard r e || isRemoveSnap e) = true)
    (hfresh : RepoTrace.freshOK r [e] = true) (hex : exact12 r [e] = true) :
    CheckHist.evGuard (abs12 enc tokH r) (absEv12 enc tokH e) = true ∧
    abs12 enc tokH (RepoTrace.apply r e) = CheckHist.apply (abs12 enc tokH r) (absEv12 enc tokH e) := by
  cases e with
  | savePack p bs =>
    have hf : ∀ q ∈ r.packs, q.1 ≠ p := by
      simp only [RepoTrace.freshOK, Bool.and_true, Bool.not_eq_true', List.any_eq_false, beq_iff_eq] at hfresh
      exact hfresh
    have hnc : (abs12 enc tokH r).packs.contains (enc p, absBlobs tokH bs) = false := by
      apply Bool.eq_false_iff.mpr
      intro hc
      simp only [abs12, List.contains_iff_mem, List.mem_map] at hc
      obtain ⟨x, hx, hxe⟩ := hc
      exact hf x hx (henc (by simpa using congrArg Prod.fst hxe))
    refine ⟨?_, ?_⟩
    · simp only [CheckHist.evGuard, absEv12, abs12, List.all_eq_true, List.mem_map, Bool.or_eq_true,
        bne_iff_ne, ne_eq]
      intro q hq
      obtain ⟨x, hx, rfl⟩ := hq
      exact Or.inl (fun he => hf x hx (henc he))
    · simp only [absEv12, CheckHist.apply, hnc, Bool.false_eq_true, if_false]
      simp only [RepoTrace.apply, abs12, List.map_cons]
  | saveIndex i es =>
    have hf : ∀ q ∈ r.indexes, q.1 ≠ i := by
      simp only [RepoTrace.freshOK, Bool.and_true, Bool.not_eq_true', List.any_eq_false, beq_iff_eq] at hfresh
      exact hfresh
    have hnc : (abs12 enc tokH r).idx.contains (enc i, absEntries12 enc tokH es) = false := by
      apply Bool.eq_false_iff.mpr
      intro hc
      simp only [abs12, List.contains_iff_mem, List.mem_map] at hc
      obtain ⟨x, hx, hxe⟩ := hc
      exact hf x hx (henc (by simpa using congrArg Prod.fst hxe))
    refine ⟨?_, ?_⟩
    · simp only [exact12, Bool.and_true, List.all_eq_true, List.contains_iff_mem] at hex
      simp only [CheckHist.evGuard, absEv12, absEntries12, abs12, List.all_eq_true, List.mem_map,
        List.contains_iff_mem]
      intro q hq
      obtain ⟨x, hx, rfl⟩ := hq
      exact ⟨x, hex x hx, rfl⟩
    · simp only [absEv12, CheckHist.apply, hnc, Bool.false_eq_true, if_false]
      simp only [RepoTrace.apply, abs12, List.map_cons]
  | saveSnap s sn =>
    have hf : ∀ q ∈ r.snaps, q.1 ≠ s := by
      simp only [RepoTrace.freshOK, Bool.and_true, Bool.not_eq_true', List.any_eq_false, beq_iff_eq] at hfresh
      exact hfresh
    have hnc : (abs12 enc tokH r).snaps.contains (enc s, sn.needs.map tokH) = false := by
      apply Bool.eq_false_iff.mpr
      intro hc
      simp only [abs12, List.contains_iff_mem, List.mem_map] at hc
      obtain ⟨x, hx, hxe⟩ := hc
      exact hf x hx (henc (by simpa using congrArg Prod.fst hxe))
    refine ⟨?_, ?_⟩
    · simp only [isRemoveSnap, Bool.or_false, RepoTrace.addGuard, RepoTrace.restorable, List.all_eq_true] at hg
      simp only [CheckHist.evGuard, absEv12, List.all_eq_true, List.mem_map]
      intro tb htb
      obtain ⟨h, hh, rfl⟩ := htb
      have hi := hg h hh
      simp only [RepoTrace.indexed, List.any_eq_true, Bool.and_eq_true, beq_iff_eq] at hi
      obtain ⟨ix, hix, e, he, b, hb, hbh, _⟩ := hi
      simp only [CheckHist.indexed, abs12, List.any_eq_true, List.mem_map, List.contains_iff_mem]
      refine ⟨(enc ix.1, absEntries12 enc tokH ix.2), ⟨ix, hix, rfl⟩, (enc e.1, absBlobs tokH e.2), ?_, ?_⟩
      · exact List.mem_map.mpr ⟨e, he, rfl⟩
      · exact List.mem_map.mpr ⟨b, hb, by rw [hbh]⟩
    · simp only [absEv12, CheckHist.apply, hnc, Bool.false_eq_true, if_false]
      simp only [RepoTrace.apply, abs12, List.map_cons]
  | removeSnap s =>
    refine ⟨rfl, ?_⟩
    simp only [RepoTrace.apply, absEv12, CheckHist.apply, abs12]
    congr 1
    exact filter_enc enc henc r.snaps s (fun sn => sn.needs.map tokH)
  | removePack p => simp [RepoTrace.addGuard, isRemoveSnap] at hg
  | removeIndex i => simp [RepoTrace.addGuard, isRemoveSnap] at hg

theorem sim12 (henc : Function.Injective enc) (c : CheckHist.Cmd) (tr : List RepoTrace.Ev) :
    ∀ (r : RepoTrace.Repo), acceptW r tr = true → RepoTrace.freshOK r tr = true → exact12 r tr = true →
    (∀ e ∈ tr, CheckHist.allowed c (absEv12 enc tokH e) = true) →
    CheckHist.accept c (abs12 enc tokH r) (tr.map (absEv12 enc tokH)) = true ∧
    ∀ k, abs12 enc tokH (RepoTrace.applyAll r (tr.take k)) =
      CheckHist.run (abs12 enc tokH r) ((tr.take k).map (absEv12 enc tokH)) := by
  induction tr with
  | nil => intro r _ _ _ _; exact ⟨rfl, fun k => by simp [RepoTrace.applyAll, CheckHist.run]⟩
  | cons e tr ih =>
    intro r hacc hfresh hex hall
    simp only [acceptW, Bool.and_eq_true] at hacc
    have hf1 : RepoTrace.freshOK r [e] = true ∧ RepoTrace.freshOK (RepoTrace.apply r e) tr = true := by
      simp only [RepoTrace.freshOK, Bool.and_eq_true, Bool.and_true] at hfresh ⊢
      exact hfresh
    have hx1 : exact12 r [e] = true ∧ exact12 (RepoTrace.apply r e) tr = true := by
      simp only [exact12, Bool.and_eq_true, Bool.and_true] at hex ⊢
      exact hex
    obtain ⟨hg, hcomm⟩ := step12 enc tokH henc r e hacc.1 hf1.1 hx1.1
    obtain ⟨ih1, ih2⟩ := ih (RepoTrace.apply r e) hacc.2 hf1.2 hx1.2
      (fun e' he' => hall e' (List.mem_cons_of_mem _ he'))
    refine ⟨?_, ?_⟩
    · simp only [List.map_cons, CheckHist.accept, hall e (List.mem_cons_self), hg, Bool.and_self, Bool.true_and]
      rw [← hcomm]; exact ih1
    · intro k
      cases k with
      | zero => simp [RepoTrace.applyAll, CheckHist.run]
      | succ k =>
        have := ih2 k
        simp only [List.take_succ_cons, List.map_cons, RepoTrace.applyAll, List.foldl_cons, CheckHist.run] at this ⊢
        rw [← hcomm]; exact this

theorem adds_allowed_backup : ∀ (tr : List RepoTrace.Ev) (r : RepoTrace.Repo),
    RepoTrace.acceptAdds r tr = true → ∀ e ∈ tr, CheckHist.allowed .backup (absEv12 enc tokH e) = true := by
  intro tr
  induction tr with
  | nil => intro r _ e he; exact absurd he (by simp)
  | cons a tr ih =>
    intro r h e he
    simp only [RepoTrace.acceptAdds, Bool.and_eq_true] at h
    rcases List.mem_cons.mp he with rfl | he
    · cases e <;> first | rfl | simp [RepoTrace.addGuard] at h
    · exact ih _ h.2 e he

theorem acceptW_allowed_rewrite : ∀ (tr : List RepoTrace.Ev) (r : RepoTrace.Repo),
    acceptW r tr = true → ∀ e ∈ tr, CheckHist.allowed .rewrite (absEv12 enc tokH e) = true := by
  intro tr
  induction tr with
  | nil => intro r _ e he; exact absurd he (by simp)
  | cons a tr ih =>
    intro r h e he
    simp only [acceptW, Bool.and_eq_true] at h
    rcases List.mem_cons.mp he with rfl | he
    · cases e <;> first | rfl | simp [RepoTrace.addGuard, isRemoveSnap] at h
    · exact ih _ h.2 e he

/-- **Backup, composed with A12's acceptor (C11).** A (prefix of a) backup run accepted by
    `accept_backup`, with fresh file names (A12's `freshOK`) and exact index entries, is a run of
    the `CheckHist` backup language, guards included; the abstraction commutes with every prefix. -/
theorem backup_in_language_partial (henc : Function.Injective enc) (r : RepoTrace.Repo) (tr : List RepoTrace.Ev)
    (hacc : RepoTrace.accept_backup r tr = true) (hfresh : RepoTrace.freshOK r tr = true)
    (hex : exact12 r tr = true) :
    CheckHist.accept .backup (abs12 enc tokH r) (tr.map (absEv12 enc tokH)) = true ∧
    ∀ k, abs12 enc tokH (RepoTrace.applyAll r (tr.take k)) =
      CheckHist.run (abs12 enc tokH r) ((tr.take k).map (absEv12 enc tokH)) := by
  have hadds : RepoTrace.acceptAdds r tr = true := by
    unfold RepoTrace.accept_backup at hacc
    exact (Bool.and_eq_true _ _ ▸ hacc).1
  exact sim12 enc tokH henc .backup tr r (acceptW_of_adds tr r hadds) hfresh hex
    (adds_allowed_backup enc tokH tr r hadds)

/-- **tag / rewrite / repair snapshots, composed with A12's acceptor (C26).** A run accepted by
    `accept_rewrites` maps into the `CheckHist` rewrite language (which contains the tag language's
    events: snapshot saves and removals, plus uploads). -/
theorem rewrites_in_language_partial (henc : Function.Injective enc) (ek : List Nat) (r : RepoTrace.Repo)
    (tr : List RepoTrace.Ev)
    (hacc : RepoTrace.accept_rewrites ek r none tr = true) (hfresh : RepoTrace.freshOK r tr = true)
    (hex : exact12 r tr = true) :
    CheckHist.accept .rewrite (abs12 enc tokH r) (tr.map (absEv12 enc tokH)) = true ∧
    ∀ k, abs12 enc tokH (RepoTrace.applyAll r (tr.take k)) =
      CheckHist.run (abs12 enc tokH r) ((tr.take k).map (absEv12 enc tokH)) :=
  have hw := acceptW_of_rewrites ek tr r none hacc
  sim12 enc tokH henc .rewrite tr r hw hfresh hex (acceptW_allowed_rewrite enc tokH tr r hw)

end writer


/-! ## the exact-index condition holds for A12's transcription of the writer

`exact12` is not implied by `accept_backup`, but it does hold for every trace of `backupRun`
(A12's transcription of `savePacker` / `saveFullIndex` / `flush` / `Archiver.Snapshot`, all job
lists, schedules and failure points): an index file is always written from `pending`, whose
entries are the `(pack id, blobs)` pairs of packs uploaded before. -/
section writerExact
open RepoTrace Restic.Proofs.Writer

def idxCond (r : RepoTrace.Repo) : RepoTrace.Ev → Bool
  | .saveIndex _ es => es.all fun x => r.packs.contains x
  | _ => true

theorem exact12_snoc (l : List RepoTrace.Ev) : ∀ (r : RepoTrace.Repo) (e : RepoTrace.Ev),
    exact12 r (l ++ [e]) = (exact12 r l && idxCond (RepoTrace.applyAll r l) e) := by
  induction l with
  | nil => intro r e; cases e <;> simp [exact12, idxCond, RepoTrace.applyAll]
  | cons a l ih =>
    intro r e
    simp only [List.cons_append, exact12, ih, RepoTrace.applyAll, List.foldl_cons, Bool.and_assoc]

theorem pending_exact {r0 : RepoTrace.Repo} {w : WState} (h : WInv r0 w) :
    idxCond (RepoTrace.applyAll r0 w.out.reverse) (.saveIndex 0 w.pending.reverse) = true := by
  simp only [idxCond, List.all_eq_true, List.contains_iff_mem]
  intro x hx
  have hm := h.pend x (List.mem_reverse.mp hx)
  exact savePack_mem h.acc (List.mem_reverse.mpr hm)

theorem stepJob_exact {r0 : RepoTrace.Repo} {w : WState} (h : WInv r0 w)
    (hex : exact12 r0 w.out.reverse = true) (j : Nat) (f : Bool) :
    exact12 r0 (stepJob w j f).out.reverse = true := by
  unfold stepJob
  split
  · exact hex
  · split
    · split
      · exact hex
      · simp only [setPc, List.reverse_cons, exact12_snoc, hex, idxCond, Bool.and_self]
    · split
      · exact hex
      · split
        · split
          · split
            · exact hex
            · simp only [setPc, List.reverse_cons, exact12_snoc, hex, Bool.true_and]
              exact pending_exact h
          · exact hex
        · exact hex

theorem runJobs_exact {r0 : RepoTrace.Repo} (s : List (Nat × Bool)) : ∀ {w : WState}, WInv r0 w →
    exact12 r0 w.out.reverse = true → exact12 r0 (runJobs w s).out.reverse = true := by
  induction s with
  | nil => intro w _ hex; exact hex
  | cons x s ih =>
    intro w h hex
    obtain ⟨j, f⟩ := x
    exact ih (stepJob_inv h j f) (stepJob_exact h hex j f)

theorem flushIndex_exact {r0 : RepoTrace.Repo} {w : WState} (h : WInv r0 w)
    (hex : exact12 r0 w.out.reverse = true) (fid : Nat) (f : Bool) :
    exact12 r0 (flushIndex w fid f).out.reverse = true := by
  unfold flushIndex
  split
  · exact hex
  · split
    · exact hex
    · simp only [List.reverse_cons, exact12_snoc, hex, Bool.true_and]
      exact pending_exact h

/-- every trace of the transcribed writer has exact index entries -/
theorem backupRun_exact (r0 : RepoTrace.Repo) (jobs : List PackJob) (sched : List (Nat × Bool)) (fid : Nat)
    (flushFails : Bool) (sid : Nat) (sn : RepoTrace.Snap) (snapFails : Bool) :
    exact12 r0 (backupRun jobs sched fid flushFails sid sn snapFails) = true := by
  have hinv := (runJobs_inv (init_inv r0 jobs) sched).1
  have hex := runJobs_exact (r0 := r0) sched (init_inv r0 jobs) rfl
  unfold backupRun
  simp only
  generalize runJobs { jobs := jobs, pc := fun _ => 0, pending := [], out := [], failed := false } sched = w at *
  have hex2 := flushIndex_exact hinv hex fid flushFails
  split
  · exact hex
  · split
    · exact hex2
    · split
      · exact hex2
      · simp only [List.reverse_cons, exact12_snoc, hex2, idxCond, Bool.and_self]

end writerExact

section writerRun
variable (enc : Nat → CheckHist.Id) (tokH : RepoTrace.Handle → CheckHist.Id)

/-- **The transcribed writer, composed.** Every trace of A12's `backupRun` (any packer jobs,
    uploader schedule, failure points; `PlanOK` as in C11; fresh file names) is a run of the
    `CheckHist` backup language — here the exact-index condition is proved, not assumed. -/
theorem backupRun_in_language (henc : Function.Injective enc) (r0 : RepoTrace.Repo)
    (jobs : List RepoTrace.PackJob) (sched : List (Nat × Bool)) (fid : Nat) (flushFails : Bool) (sid : Nat)
    (sn : RepoTrace.Snap) (snapFails : Bool) (hplan : Restic.Proofs.Writer.PlanOK r0 jobs sn)
    (hfresh : RepoTrace.freshOK r0 (RepoTrace.backupRun jobs sched fid flushFails sid sn snapFails) = true) :
    CheckHist.accept .backup (abs12 enc tokH r0)
      ((RepoTrace.backupRun jobs sched fid flushFails sid sn snapFails).map (absEv12 enc tokH)) = true :=
  (backup_in_language_partial enc tokH henc r0 _
    (Restic.Proofs.Writer.backupRun_accepted r0 jobs sched fid flushFails sid sn snapFails hplan) hfresh
    (backupRun_exact r0 jobs sched fid flushFails sid sn snapFails)).1

end writerRun

/-! ## histories mixing the three kinds of runs -/
section histories
variable (tok : Repo.BlobH → CheckHist.Id) (enc : Nat → CheckHist.Id) (tokH : RepoTrace.Handle → CheckHist.Id)

/-- `CheckHist` states produced, from the empty repository, by backup / rewrite runs accepted by
    A12's acceptors and prune runs accepted by A11's acceptor, each run cut after an arbitrary
    number `k` of backend operations. The state is handed from one run to the next through the
    abstraction maps (a backup run starts in an A12 state whose abstraction is the current state,
    a prune run in an A11 state whose abstraction is the current state). -/
inductive Produced : CheckHist.Repo → Prop
  | empty : Produced CheckHist.Repo.empty
  | backup (r : RepoTrace.Repo) (tr : List RepoTrace.Ev) (k : Nat) :
      Produced (abs12 enc tokH r) → RepoTrace.accept_backup r tr = true →
      RepoTrace.freshOK r tr = true → exact12 r tr = true →
      Produced (abs12 enc tokH (RepoTrace.applyAll r (tr.take k)))
  | rewrite (ek : List Nat) (r : RepoTrace.Repo) (tr : List RepoTrace.Ev) (k : Nat) :
      Produced (abs12 enc tokH r) → RepoTrace.accept_rewrites ek r none tr = true →
      RepoTrace.freshOK r tr = true → exact12 r tr = true →
      Produced (abs12 enc tokH (RepoTrace.applyAll r (tr.take k)))
  | prune (pl : Prune.XPlan) (used : List Repo.BlobH) (r : Repo.Repo) (tr : List Repo.Ev) (k : Nat) :
      Produced (abs11 tok r) → Prune.accept pl r tr = true →
      Restic.Props.C09.planOKRepo pl used r = true →
      (∀ s ∈ r.snaps, ∀ b ∈ s.2.reach, b ∈ used) → exact11 r tr = true →
      Produced (abs11 tok (Repo.applyAll r (tr.take k)))

theorem produced_inv_partial (henc : Function.Injective enc) (s : CheckHist.Repo)
    (h : Produced tok enc tokH s) : Inv s := by
  induction h with
  | empty => exact inv_empty
  | backup r tr k _ hacc hfresh hex ih =>
    obtain ⟨h1, h2⟩ := backup_in_language_partial enc tokH henc r tr hacc hfresh hex
    rw [h2 k, List.map_take]
    exact run_inv_every_prefix .backup _ _ ih h1 k
  | rewrite ek r tr k _ hacc hfresh hex ih =>
    obtain ⟨h1, h2⟩ := rewrites_in_language_partial enc tokH henc ek r tr hacc hfresh hex
    rw [h2 k, List.map_take]
    exact run_inv_every_prefix .rewrite _ _ ih h1 k
  | prune pl used r tr k _ hacc hplan hs hex ih =>
    exact prune_inv_partial tok pl used r tr ih hacc hplan hs hex k

/-- **C15 for histories of backup, tag/rewrite and prune runs, by composition.** For every history
    of runs accepted by the acceptors that A12 (C11, C26) and A11 (C09) proved safe, each run cut
    at an arbitrary prefix, `check` reports no error in the final state. The hypotheses are the
    other builders' acceptors (plus `freshOK`, `planOKRepo`, and the exact-index condition that
    `check` needs and their acceptors do not enforce), not the `CheckHist` languages. -/
theorem produced_checkok_backup_prune_partial (henc : Function.Injective enc) (s : CheckHist.Repo)
    (h : Produced tok enc tokH s) : CheckHist.CheckOK' s = true :=
  inv_checkok s (produced_inv_partial tok enc tokH henc s h)

end histories

/-! ## non-vacuity -/
section examples
open RepoTrace

def encNat : Nat → CheckHist.Id := Nat.repr
theorem encNat_injective : Function.Injective encNat := fun _ _ h => Nat.repr_injective h
def tokHandle : RepoTrace.Handle → CheckHist.Id := fun h => Nat.repr h.1 ++ ":" ++ Nat.repr h.2
def tokBlobH : Repo.BlobH → CheckHist.Id := fun b => (if b.tpe = .tree then "t" else "d") ++ b.id

def exB : Blob := ⟨1, 12, 0, 60⟩
/-- a backup from the empty repository, cut after the index file (the snapshot is never written) -/
def exBackup : List Ev :=
  [.savePack 20 [exB], .saveIndex 21 [(20, [exB])], .saveSnap 22 { key := 2, tree := 12, orig := none, needs := [(1, 12)] }]

example : accept_backup RepoTrace.Repo.empty exBackup = true := by decide
example : freshOK RepoTrace.Repo.empty exBackup = true := by decide
example : exact12 RepoTrace.Repo.empty exBackup = true := by decide

/-- the hypotheses of the composition are satisfiable: a state produced by a cut backup run -/
example : CheckHist.CheckOK' (abs12 encNat tokHandle (applyAll RepoTrace.Repo.empty (exBackup.take 2))) = true :=
  produced_checkok_backup_prune_partial tokBlobH encNat tokHandle encNat_injective _
    (Produced.backup RepoTrace.Repo.empty exBackup 2 Produced.empty (by decide) (by decide) (by decide))

/-- what `exact12` excludes and A12's acceptor admits: an index file listing part of a pack -/
def exB2 : Blob := ⟨0, 13, 60, 10⟩
def exPartial : List Ev := [.savePack 20 [exB, exB2], .saveIndex 21 [(20, [exB])]]
example : accept_backup RepoTrace.Repo.empty exPartial = true := by decide
example : exact12 RepoTrace.Repo.empty exPartial = false := by decide
/-- … and the classification model of check rejects the state it leads to (pack differs from index) -/
example : CheckHist.CheckOK' (abs12 (fun n => String.ofList (List.replicate n 'a')) (fun h => String.ofList (List.replicate (h.1 + 2 * h.2) 'b'))
    (applyAll RepoTrace.Repo.empty exPartial)) = false := by decide

end examples

end Restic.Proofs.C15_Compose
