import Restic.Model.RepoTrace
/-!
Helper lemmas about `Restic.Model.RepoTrace` shared by the property files C11, C14, C26:
monotonicity of the observables in the pack / index part of the repository, and preservation of
`checkOK` by guarded events.
-/
namespace Restic.Proofs.RepoTrace
open Restic.Model.RepoTrace

/-- `r'` has at least the pack and index files of `r` -/
structure SubPI (r r' : Repo) : Prop where
  packs : ∀ x ∈ r.packs, x ∈ r'.packs
  indexes : ∀ x ∈ r.indexes, x ∈ r'.indexes

/-- `r'` has at least the files of `r` (all three types) -/
structure Sub (r r' : Repo) : Prop extends SubPI r r' where
  snaps : ∀ x ∈ r.snaps, x ∈ r'.snaps

theorem SubPI.refl (r : Repo) : SubPI r r := ⟨fun _ h => h, fun _ h => h⟩
theorem SubPI.trans {a b c : Repo} (h1 : SubPI a b) (h2 : SubPI b c) : SubPI a c :=
  ⟨fun x h => h2.packs x (h1.packs x h), fun x h => h2.indexes x (h1.indexes x h)⟩
theorem Sub.refl (r : Repo) : Sub r r := ⟨SubPI.refl r, fun _ h => h⟩
theorem Sub.trans {a b c : Repo} (h1 : Sub a b) (h2 : Sub b c) : Sub a c :=
  ⟨h1.toSubPI.trans h2.toSubPI, fun x h => h2.snaps x (h1.snaps x h)⟩

theorem packHas_mono {r r' : Repo} (h : SubPI r r') {p : Nat} {b : Blob}
    (hp : packHas r p b = true) : packHas r' p b = true := by
  unfold packHas at *
  rw [List.any_eq_true] at *
  obtain ⟨q, hq, hb⟩ := hp
  exact ⟨q, h.packs q hq, hb⟩

theorem entryOK_mono {r r' : Repo} (h : SubPI r r') {e : IndexEntry}
    (he : entryOK r e = true) : entryOK r' e = true := by
  unfold entryOK at *
  rw [List.all_eq_true] at *
  intro b hb
  exact packHas_mono h (he b hb)

theorem indexed_mono {r r' : Repo} (h : SubPI r r') {x : Handle}
    (hx : indexed r x = true) : indexed r' x = true := by
  unfold indexed at *
  rw [List.any_eq_true] at *
  obtain ⟨ix, hix, h2⟩ := hx
  refine ⟨ix, h.indexes ix hix, ?_⟩
  rw [List.any_eq_true] at *
  obtain ⟨e, he, h3⟩ := h2
  refine ⟨e, he, ?_⟩
  rw [List.any_eq_true] at *
  obtain ⟨b, hb, h4⟩ := h3
  refine ⟨b, hb, ?_⟩
  rw [Bool.and_eq_true] at *
  exact ⟨h4.1, packHas_mono h h4.2⟩

theorem restorable_mono {r r' : Repo} (h : SubPI r r') {sn : Snap}
    (hs : restorable r sn = true) : restorable r' sn = true := by
  unfold restorable at *
  rw [List.all_eq_true] at *
  intro x hx
  exact indexed_mono h (hs x hx)

/-- `restorable`, `indexed`, `indexSound` only look at packs and index files -/
theorem indexSound_congr {r r' : Repo} (hp : r'.packs = r.packs) (hi : r'.indexes = r.indexes) :
    indexSound r' = indexSound r := by
  unfold indexSound entryOK packHas
  rw [hp, hi]

theorem restorable_congr {r r' : Repo} (hp : r'.packs = r.packs) (hi : r'.indexes = r.indexes) (sn : Snap) :
    restorable r' sn = restorable r sn := by
  unfold restorable indexed packHas
  rw [hp, hi]

/-- events that never take a pack or index file away -/
def keepsPI : Ev → Bool
  | .removePack _ | .removeIndex _ => false
  | _ => true

theorem apply_subPI (r : Repo) (e : Ev) (h : keepsPI e = true) : SubPI r (apply r e) := by
  cases e <;> simp [keepsPI] at h <;> constructor <;> intro x hx <;> simp [apply, hx]

theorem addGuard_keepsPI {r : Repo} {e : Ev} (h : addGuard r e = true) : keepsPI e = true := by
  cases e <;> simp [addGuard] at h <;> rfl

theorem addGuard_sub {r : Repo} {e : Ev} (h : addGuard r e = true) : Sub r (apply r e) := by
  refine ⟨apply_subPI r e (addGuard_keepsPI h), ?_⟩
  cases e <;> simp [addGuard] at h <;> intro x hx <;> simp [apply, hx]

theorem indexSound_mono_step {r r' : Repo} (h : SubPI r r') (hi : r'.indexes = r.indexes)
    (hs : indexSound r = true) : indexSound r' = true := by
  unfold indexSound at *
  rw [hi]
  rw [List.all_eq_true] at *
  intro ix hix
  have := hs ix hix
  rw [List.all_eq_true] at *
  intro e he
  exact entryOK_mono h (this e he)

theorem snapsOK_of {r r' : Repo} (h : SubPI r r') (hsn : ∀ x ∈ r'.snaps, x ∈ r.snaps ∨ restorable r x.2 = true)
    (hs : snapsOK r = true) : snapsOK r' = true := by
  unfold snapsOK at *
  rw [List.all_eq_true] at *
  intro x hx
  rcases hsn x hx with h1 | h1
  · exact restorable_mono h (hs x h1)
  · exact restorable_mono h h1

/-- one guarded additive event preserves the abstract check -/
theorem checkOK_step {r : Repo} {e : Ev} (hg : addGuard r e = true) (hc : checkOK r = true) :
    checkOK (apply r e) = true := by
  have hsub := apply_subPI r e (addGuard_keepsPI hg)
  unfold checkOK at *
  rw [Bool.and_eq_true] at *
  obtain ⟨hi, hs⟩ := hc
  cases e with
  | savePack p bs =>
    exact ⟨indexSound_mono_step hsub rfl hi, snapsOK_of hsub (fun x hx => Or.inl hx) hs⟩
  | saveIndex i es =>
    refine ⟨?_, snapsOK_of hsub (fun x hx => Or.inl hx) hs⟩
    simp only [addGuard] at hg
    unfold indexSound at *
    simp only [apply, List.all_cons, Bool.and_eq_true]
    constructor
    · rw [List.all_eq_true] at *
      intro en hen
      exact entryOK_mono hsub (hg en hen)
    · rw [List.all_eq_true] at *
      intro ix hix
      have := hi ix hix
      rw [List.all_eq_true] at *
      intro en hen
      exact entryOK_mono hsub (this en hen)
  | saveSnap s sn =>
    simp only [addGuard] at hg
    refine ⟨indexSound_mono_step hsub rfl hi, snapsOK_of hsub ?_ hs⟩
    intro x hx
    simp only [apply, List.mem_cons] at hx
    rcases hx with rfl | hx
    · exact Or.inr hg
    · exact Or.inl hx
  | removePack p => simp [addGuard] at hg
  | removeIndex i => simp [addGuard] at hg
  | removeSnap s => simp [addGuard] at hg

/-- removing a snapshot file never hurts the abstract check -/
theorem checkOK_removeSnap {r : Repo} (s : Nat) (hc : checkOK r = true) :
    checkOK (apply r (.removeSnap s)) = true := by
  unfold checkOK at *
  rw [Bool.and_eq_true] at *
  refine ⟨?_, ?_⟩
  · rw [indexSound_congr (r := r) (r' := apply r (.removeSnap s)) rfl rfl]; exact hc.1
  · have hs := hc.2
    unfold snapsOK at *
    rw [List.all_eq_true] at *
    intro x hx
    simp only [apply, List.mem_filter] at hx
    rw [restorable_congr (r := r) (r' := apply r (.removeSnap s)) rfl rfl]
    exact hs x hx.1

theorem applyAll_nil (r : Repo) : applyAll r [] = r := rfl
theorem applyAll_cons (r : Repo) (e : Ev) (tr : List Ev) :
    applyAll r (e :: tr) = applyAll (apply r e) tr := rfl
theorem applyAll_append (r : Repo) (a b : List Ev) :
    applyAll r (a ++ b) = applyAll (applyAll r a) b := by
  simp [applyAll, List.foldl_append]

/-- `acceptAdds` is prefix closed -/
theorem acceptAdds_take {r : Repo} {tr : List Ev} (h : acceptAdds r tr = true) (k : Nat) :
    acceptAdds r (tr.take k) = true := by
  induction tr generalizing r k with
  | nil => simp [acceptAdds]
  | cons e tr ih =>
    cases k with
    | zero => simp [acceptAdds]
    | succ k =>
      simp only [acceptAdds, Bool.and_eq_true, List.take_succ_cons] at *
      exact ⟨h.1, ih h.2 k⟩

/-- a guarded additive trace only adds files and keeps `checkOK` -/
theorem acceptAdds_safe {r : Repo} {tr : List Ev} (h : acceptAdds r tr = true) :
    Sub r (applyAll r tr) ∧ (checkOK r = true → checkOK (applyAll r tr) = true) := by
  induction tr generalizing r with
  | nil => exact ⟨Sub.refl r, id⟩
  | cons e tr ih =>
    simp only [acceptAdds, Bool.and_eq_true] at h
    obtain ⟨h1, h2⟩ := ih h.2
    rw [applyAll_cons]
    exact ⟨(addGuard_sub h.1).trans h1, fun hc => h2 (checkOK_step h.1 hc)⟩

theorem snapPresent_of_mem {r : Repo} {x : Nat × Snap} (h : x ∈ r.snaps) : snapPresent r x.1 = true := by
  unfold snapPresent
  rw [List.any_eq_true]
  exact ⟨x, h, by simp⟩

theorem keyPresent_of_mem {r : Repo} {x : Nat × Snap} (h : x ∈ r.snaps) : keyPresent r x.2.key = true := by
  unfold keyPresent
  rw [List.any_eq_true]
  exact ⟨x, h, by simp⟩

end Restic.Proofs.RepoTrace
