import Restic.Model.Select
/-!
# C27 helper lemmas: `RewriteTree` on the tree model

For arbitrary decision functions `sel` (RewriteNode keeps the node) and `keep`
(KeepEmptyDirectory): which entries survive, summary statistics, the no-match cases.
-/
set_option linter.unusedSimpArgs false
namespace Restic.Proofs.C27
open Restic.Model.Filter Restic.Model.Select

def fsum (l : List (List Str × Nat)) : Nat := (l.map (·.2)).sum

theorem fsum_append (a b : List (List Str × Nat)) : fsum (a ++ b) = fsum a + fsum b := by
  simp [fsum]

theorem files_cons (names : List Str) (c : Node) (r : List Node) :
    files names (c :: r) = files names [c] ++ files names r := by
  cases c <;> simp [files_nil, files_file, files_other, files_dir]

theorem entries_cons (names : List Str) (c : Node) (r : List Node) :
    entries names (c :: r) = entries names [c] ++ entries names r := by
  cases c <;> simp [entries_nil, entries_file, entries_other, entries_dir]

/-! ### summary statistics -/

mutual
theorem sum_node (sel : List Str → Bool → Bool) (keep : List Str → Bool) (names : List Str) :
    ∀ (n : Node) (st : Stats),
      (rwNode sel keep names n st).2 =
        ⟨st.count + (files names (rwNode sel keep names n st).1.toList).length,
         st.size + fsum (files names (rwNode sel keep names n st).1.toList)⟩
  | .file n sz, st => by
    unfold rwNode
    split <;> simp [files_nil, files_file, files_other, files_dir, fsum]
  | .other n s, st => by
    unfold rwNode
    split <;> simp [files_nil, files_file, files_other, files_dir, fsum]
  | .dir n ch, st => by
    unfold rwNode
    split
    · have ih := sum_list sel keep (names ++ [n]) ch st
      generalize rwList sel keep (names ++ [n]) ch st = r at ih
      obtain ⟨res, st'⟩ := r
      simp only at ih ⊢
      split
      · rename_i he
        simp only [Bool.and_eq_true, List.isEmpty_iff] at he
        rw [ih, he.1]; simp [files_nil, files_file, files_other, files_dir, fsum]
      · rw [ih]; simp [files_nil, files_file, files_other, files_dir, fsum]
    · simp [files_nil, files_file, files_other, files_dir, fsum]
theorem sum_list (sel : List Str → Bool → Bool) (keep : List Str → Bool) (names : List Str) :
    ∀ (l : List Node) (st : Stats),
      (rwList sel keep names l st).2 =
        ⟨st.count + (files names (rwList sel keep names l st).1).length,
         st.size + fsum (files names (rwList sel keep names l st).1)⟩
  | [], st => by simp [rwList, files_nil, files_file, files_other, files_dir, fsum]
  | c :: cs, st => by
    unfold rwList
    have ih1 := sum_node sel keep names c st
    generalize rwNode sel keep names c st = r1 at ih1
    obtain ⟨o, st1⟩ := r1
    cases o with
    | none =>
      simp only at ih1 ⊢
      have ih2 := sum_list sel keep names cs st1
      rw [ih2, ih1]; simp [files_nil, files_file, files_other, files_dir, fsum]
    | some c' =>
      simp only at ih1 ⊢
      have ih2 := sum_list sel keep names cs st1
      generalize rwList sel keep names cs st1 = r2 at ih2
      obtain ⟨r, st2⟩ := r2
      simp only at ih2 ⊢
      rw [ih2, ih1, files_cons names c' r]
      simp only [Option.toList_some, List.length_append, fsum_append, Stats.mk.injEq]
      omega
end

/-! ### which entries survive -/

/-- the decisions on the way from the directory `base` down to the item `p`: the item itself is
    kept by `sel`, and so is every directory strictly between -/
def Chain (sel : List Str → Bool → Bool) (base : Nat) (p : List Str) (isDir : Bool) : Prop :=
  sel p isDir = true ∧ ∀ k, base < k → k < p.length → sel (p.take k) true = true

theorem entries_prefix (names : List Str) : ∀ (l : List Node) (e : Entry), e ∈ entries names l →
    ∃ n rest, e.path = names ++ n :: rest
  | [], e, h => by simp [entries_nil, entries_file, entries_other, entries_dir] at h
  | .file n sz :: r, e, h => by
    simp only [entries_nil, entries_file, entries_other, entries_dir, List.mem_cons] at h
    rcases h with h | h
    · exact ⟨n, [], by rw [h]⟩
    · exact entries_prefix names r e h
  | .other n s :: r, e, h => by
    simp only [entries_nil, entries_file, entries_other, entries_dir, List.mem_cons] at h
    rcases h with h | h
    · exact ⟨n, [], by rw [h]⟩
    · exact entries_prefix names r e h
  | .dir n ch :: r, e, h => by
    simp only [entries_nil, entries_file, entries_other, entries_dir, List.mem_cons, List.mem_append] at h
    rcases h with h | h | h
    · exact ⟨n, [], by rw [h]⟩
    · rcases entries_prefix (names ++ [n]) ch e h with ⟨m, rest, hr⟩
      exact ⟨n, m :: rest, by rw [hr]; simp⟩
    · exact entries_prefix names r e h

theorem chain_top (sel : List Str → Bool → Bool) (names : List Str) (n : Str) (d : Bool) :
    Chain sel names.length (names ++ [n]) d ↔ sel (names ++ [n]) d = true := by
  unfold Chain
  constructor
  · exact fun h => h.1
  · intro h
    refine ⟨h, ?_⟩
    intro k h1 h2
    simp at h2; omega

/-- below the directory `names ++ [n]`: the chain from `names` = the directory's own decision plus
    the chain from the directory -/
theorem chain_below (sel : List Str → Bool → Bool) (names : List Str) (n m : Str) (rest : List Str) (d : Bool) :
    Chain sel names.length (names ++ [n] ++ m :: rest) d ↔
      (sel (names ++ [n]) true = true ∧ Chain sel (names ++ [n]).length (names ++ [n] ++ m :: rest) d) := by
  unfold Chain
  constructor
  · rintro ⟨h1, h2⟩
    refine ⟨?_, h1, ?_⟩
    · have := h2 (names.length + 1) (by omega) (by simp)
      rw [List.take_append_of_le_length (by simp)] at this
      rw [List.take_of_length_le (by simp)] at this
      exact this
    · intro k hk1 hk2
      exact h2 k (by simp at hk1; omega) hk2
  · rintro ⟨h0, h1, h2⟩
    refine ⟨h1, ?_⟩
    intro k hk1 hk2
    by_cases hk : k = names.length + 1
    · subst hk
      rw [List.take_append_of_le_length (by simp)]
      rw [List.take_of_length_le (by simp)]
      exact h0
    · exact h2 k (by simp; omega) hk2

mutual
/-- everything in the rewritten tree is an original entry (same kind and size) whose chain of
    decisions is positive -/
theorem rw_node_sub (sel : List Str → Bool → Bool) (keep : List Str → Bool) (names : List Str) :
    ∀ (n : Node) (st : Stats) (e : Entry),
      e ∈ entries names (rwNode sel keep names n st).1.toList →
        e ∈ entries names [n] ∧ Chain sel names.length e.path e.isDir
  | .file n sz, st, e => by
    unfold rwNode
    split
    · rename_i hs
      simp only [Option.toList_some, entries_nil, entries_file, entries_other, entries_dir, List.mem_singleton]
      intro h; subst h
      exact ⟨rfl, (chain_top sel names n false).mpr hs⟩
    · simp [entries_nil, entries_file, entries_other, entries_dir]
  | .other n s, st, e => by
    unfold rwNode
    split
    · rename_i hs
      simp only [Option.toList_some, entries_nil, entries_file, entries_other, entries_dir, List.mem_singleton]
      intro h; subst h
      exact ⟨rfl, (chain_top sel names n false).mpr hs⟩
    · simp [entries_nil, entries_file, entries_other, entries_dir]
  | .dir n ch, st, e => by
    unfold rwNode
    split
    · rename_i hs
      have ih := rw_list_sub sel keep (names ++ [n]) ch st e
      generalize rwList sel keep (names ++ [n]) ch st = r at ih
      obtain ⟨res, st'⟩ := r
      simp only at ih ⊢
      split
      · simp [entries_nil, entries_file, entries_other, entries_dir]
      · simp only [Option.toList_some, entries_nil, entries_file, entries_other, entries_dir, List.append_nil, List.mem_cons]
        rintro (h | h)
        · subst h
          exact ⟨Or.inl rfl, (chain_top sel names n true).mpr hs⟩
        · rcases ih h with ⟨h1, h2⟩
          refine ⟨Or.inr h1, ?_⟩
          rcases entries_prefix (names ++ [n]) ch e h1 with ⟨m, rest, hr⟩
          rw [hr] at h2 ⊢
          exact (chain_below sel names n m rest e.isDir).mpr ⟨hs, h2⟩
    · simp [entries_nil, entries_file, entries_other, entries_dir]
theorem rw_list_sub (sel : List Str → Bool → Bool) (keep : List Str → Bool) (names : List Str) :
    ∀ (l : List Node) (st : Stats) (e : Entry),
      e ∈ entries names (rwList sel keep names l st).1 →
        e ∈ entries names l ∧ Chain sel names.length e.path e.isDir
  | [], st, e => by simp [rwList, entries_nil, entries_file, entries_other, entries_dir]
  | c :: cs, st, e => by
    unfold rwList
    have ih1 := rw_node_sub sel keep names c st e
    generalize rwNode sel keep names c st = r1 at ih1
    obtain ⟨o, st1⟩ := r1
    cases o with
    | none =>
      simp only
      intro h
      rcases rw_list_sub sel keep names cs st1 e h with ⟨h1, h2⟩
      rw [entries_cons]
      exact ⟨List.mem_append.mpr (Or.inr h1), h2⟩
    | some c' =>
      simp only [Option.toList_some] at ih1 ⊢
      have ih2 := rw_list_sub sel keep names cs st1 e
      generalize rwList sel keep names cs st1 = r2 at ih2
      obtain ⟨r, st2⟩ := r2
      simp only at ih2 ⊢
      rw [entries_cons names c' r, entries_cons names c cs]
      intro h
      rcases List.mem_append.mp h with h | h
      · rcases ih1 h with ⟨h1, h2⟩
        exact ⟨List.mem_append.mpr (Or.inl h1), h2⟩
      · rcases ih2 h with ⟨h1, h2⟩
        exact ⟨List.mem_append.mpr (Or.inr h1), h2⟩
end

mutual
/-- an original entry with a positive chain of decisions survives, provided empty directories are
    kept (`exclude` mode) or the entry is not a directory (then the directories above it are not
    empty) -/
theorem rw_node_sup (sel : List Str → Bool → Bool) (keep : List Str → Bool) (names : List Str) :
    ∀ (n : Node) (st : Stats) (e : Entry),
      ((∀ p, keep p = true) ∨ e.isDir = false) →
      e ∈ entries names [n] → Chain sel names.length e.path e.isDir →
        e ∈ entries names (rwNode sel keep names n st).1.toList
  | .file n sz, st, e => by
    intro _ h hc
    simp only [entries_nil, entries_file, entries_other, entries_dir, List.mem_singleton] at h
    subst h
    unfold rwNode
    rw [if_pos hc.1]
    simp [entries_nil, entries_file, entries_other, entries_dir]
  | .other n s, st, e => by
    intro _ h hc
    simp only [entries_nil, entries_file, entries_other, entries_dir, List.mem_singleton] at h
    subst h
    unfold rwNode
    rw [if_pos hc.1]
    simp [entries_nil, entries_file, entries_other, entries_dir]
  | .dir n ch, st, e => by
    intro hk h hc
    simp only [entries_nil, entries_file, entries_other, entries_dir, List.append_nil, List.mem_cons] at h
    unfold rwNode
    have ih := rw_list_sup sel keep (names ++ [n]) ch st e hk
    rcases h with h | h
    · subst h
      rw [if_pos hc.1]
      generalize rwList sel keep (names ++ [n]) ch st = r at ih
      obtain ⟨res, st'⟩ := r
      simp only
      rcases hk with hk | hk
      · rw [hk]; simp [entries_nil, entries_file, entries_other, entries_dir]
      · simp at hk
    · rcases entries_prefix (names ++ [n]) ch e h with ⟨m, rest, hr⟩
      rw [hr] at hc
      rcases (chain_below sel names n m rest e.isDir).mp hc with ⟨hs, hc'⟩
      rw [← hr] at hc'
      rw [if_pos hs]
      have := ih h hc'
      generalize rwList sel keep (names ++ [n]) ch st = r at this
      obtain ⟨res, st'⟩ := r
      simp only at this ⊢
      have hne : res.isEmpty = false := by
        cases res with
        | nil => simp [entries_nil, entries_file, entries_other, entries_dir] at this
        | cons a b => rfl
      rw [hne]
      simp only [Bool.false_and, Bool.false_eq_true, if_false, Option.toList_some, entries_nil, entries_file, entries_other, entries_dir,
        List.append_nil, List.mem_cons]
      exact Or.inr this
theorem rw_list_sup (sel : List Str → Bool → Bool) (keep : List Str → Bool) (names : List Str) :
    ∀ (l : List Node) (st : Stats) (e : Entry),
      ((∀ p, keep p = true) ∨ e.isDir = false) →
      e ∈ entries names l → Chain sel names.length e.path e.isDir →
        e ∈ entries names (rwList sel keep names l st).1
  | [], st, e => by simp [entries_nil, entries_file, entries_other, entries_dir]
  | c :: cs, st, e => by
    intro hk h hc
    rw [entries_cons] at h
    unfold rwList
    have ih1 := rw_node_sup sel keep names c st e hk
    generalize rwNode sel keep names c st = r1 at ih1
    obtain ⟨o, st1⟩ := r1
    have ih2 := rw_list_sup sel keep names cs st1 e hk
    cases o with
    | none =>
      simp only at ih1 ⊢
      rcases List.mem_append.mp h with h | h
      · have := ih1 h hc
        simp [entries_nil, entries_file, entries_other, entries_dir] at this
      · exact ih2 h hc
    | some c' =>
      simp only [Option.toList_some] at ih1 ⊢
      generalize rwList sel keep names cs st1 = r2 at ih2
      obtain ⟨r, st2⟩ := r2
      simp only at ih2 ⊢
      rw [entries_cons names c' r]
      rcases List.mem_append.mp h with h | h
      · exact List.mem_append.mpr (Or.inl (ih1 h hc))
      · exact List.mem_append.mpr (Or.inr (ih2 h hc))
end

/-! ### nothing matches -/

mutual
theorem rw_node_id (sel : List Str → Bool → Bool) (names : List Str) :
    ∀ (n : Node) (st : Stats), (∀ e ∈ entries names [n], sel e.path e.isDir = true) →
      (rwNode sel (fun _ => true) names n st).1 = some n
  | .file n sz, st => by
    intro h
    unfold rwNode
    rw [if_pos (h ⟨names ++ [n], false, true, sz, false⟩ (by simp [entries_nil, entries_file, entries_other, entries_dir]))]
  | .other n s, st => by
    intro h
    unfold rwNode
    rw [if_pos (h ⟨names ++ [n], false, false, 0, s⟩ (by simp [entries_nil, entries_file, entries_other, entries_dir]))]
  | .dir n ch, st => by
    intro h
    unfold rwNode
    rw [if_pos (h ⟨names ++ [n], true, false, 0, false⟩ (by simp [entries_nil, entries_file, entries_other, entries_dir]))]
    have ih := rw_list_id sel (names ++ [n]) ch st
      (fun e he => h e (by simp only [entries_nil, entries_file, entries_other, entries_dir, List.append_nil, List.mem_cons]; exact Or.inr he))
    generalize rwList sel (fun _ => true) (names ++ [n]) ch st = r at ih
    obtain ⟨res, st'⟩ := r
    simp only at ih ⊢
    rw [ih]; simp
theorem rw_list_id (sel : List Str → Bool → Bool) (names : List Str) :
    ∀ (l : List Node) (st : Stats), (∀ e ∈ entries names l, sel e.path e.isDir = true) →
      (rwList sel (fun _ => true) names l st).1 = l
  | [], st => by intro _; simp [rwList]
  | c :: cs, st => by
    intro h
    rw [entries_cons] at h
    unfold rwList
    have ih1 := rw_node_id sel names c st (fun e he => h e (List.mem_append.mpr (Or.inl he)))
    generalize rwNode sel (fun _ => true) names c st = r1 at ih1
    obtain ⟨o, st1⟩ := r1
    simp only at ih1
    subst ih1
    simp only
    have ih2 := rw_list_id sel names cs st1 (fun e he => h e (List.mem_append.mpr (Or.inr he)))
    generalize rwList sel (fun _ => true) names cs st1 = r2 at ih2
    obtain ⟨r, st2⟩ := r2
    simp only at ih2 ⊢
    rw [ih2]
end

/-- top-level entries decide the top level: if `sel` rejects every top-level node, nothing is left -/
theorem rw_list_none (sel : List Str → Bool → Bool) (keep : List Str → Bool) (names : List Str) :
    ∀ (l : List Node) (st : Stats), (∀ c ∈ l, sel (names ++ [c.name]) c.isDir = false) →
      (rwList sel keep names l st).1 = []
  | [], st => by intro _; simp [rwList]
  | c :: cs, st => by
    intro h
    unfold rwList
    have hc := h c (by simp)
    have h1 : rwNode sel keep names c st = (none, st) := by
      cases c with
      | file n sz => unfold rwNode; simp only [Node.name, Node.isDir] at hc; rw [hc]; simp
      | other n => unfold rwNode; simp only [Node.name, Node.isDir] at hc; rw [hc]; simp
      | dir n ch => unfold rwNode; simp only [Node.name, Node.isDir] at hc; rw [hc]; simp
    rw [h1]
    simp only
    exact rw_list_none sel keep names cs st (fun c' hc' => h c' (by simp [hc']))


mutual
/-- like `rw_node_sup`, also for a directory that `KeepEmptyDirectory` keeps -/
theorem rw_node_sup' (sel : List Str → Bool → Bool) (keep : List Str → Bool) (names : List Str) :
    ∀ (n : Node) (st : Stats) (e : Entry),
      ((∀ p, keep p = true) ∨ e.isDir = false ∨ keep e.path = true) →
      e ∈ entries names [n] → Chain sel names.length e.path e.isDir →
        e ∈ entries names (rwNode sel keep names n st).1.toList
  | .file n sz, st, e => by
    intro _ h hc
    simp only [entries_file, entries_nil, List.mem_singleton] at h
    subst h
    unfold rwNode
    rw [if_pos hc.1]
    simp [entries_file, entries_nil]
  | .other n s, st, e => by
    intro _ h hc
    simp only [entries_other, entries_nil, List.mem_singleton] at h
    subst h
    unfold rwNode
    rw [if_pos hc.1]
    simp [entries_other, entries_nil]
  | .dir n ch, st, e => by
    intro hk h hc
    simp only [entries_dir, entries_nil, List.append_nil, List.mem_cons] at h
    unfold rwNode
    have ih := rw_list_sup' sel keep (names ++ [n]) ch st e hk
    rcases h with h | h
    · subst h
      rw [if_pos hc.1]
      generalize rwList sel keep (names ++ [n]) ch st = r at ih
      obtain ⟨res, st'⟩ := r
      simp only
      rcases hk with hk | hk | hk
      · rw [hk]; simp [entries_dir, entries_nil]
      · simp at hk
      · simp only at hk
        rw [hk]; simp [entries_dir, entries_nil]
    · rcases entries_prefix (names ++ [n]) ch e h with ⟨m, rest, hr⟩
      rw [hr] at hc
      rcases (chain_below sel names n m rest e.isDir).mp hc with ⟨hs, hc'⟩
      rw [← hr] at hc'
      rw [if_pos hs]
      have := ih h hc'
      generalize rwList sel keep (names ++ [n]) ch st = r at this
      obtain ⟨res, st'⟩ := r
      simp only at this ⊢
      have hne : res.isEmpty = false := by
        cases res with
        | nil => simp [entries_nil] at this
        | cons a b => rfl
      rw [hne]
      simp only [Bool.false_and, Bool.false_eq_true, if_false, Option.toList_some, entries_dir, entries_nil,
        List.append_nil, List.mem_cons]
      exact Or.inr this
theorem rw_list_sup' (sel : List Str → Bool → Bool) (keep : List Str → Bool) (names : List Str) :
    ∀ (l : List Node) (st : Stats) (e : Entry),
      ((∀ p, keep p = true) ∨ e.isDir = false ∨ keep e.path = true) →
      e ∈ entries names l → Chain sel names.length e.path e.isDir →
        e ∈ entries names (rwList sel keep names l st).1
  | [], st, e => by simp [entries_nil]
  | c :: cs, st, e => by
    intro hk h hc
    rw [entries_cons] at h
    unfold rwList
    have ih1 := rw_node_sup' sel keep names c st e hk
    generalize rwNode sel keep names c st = r1 at ih1
    obtain ⟨o, st1⟩ := r1
    have ih2 := rw_list_sup' sel keep names cs st1 e hk
    cases o with
    | none =>
      simp only at ih1 ⊢
      rcases List.mem_append.mp h with h | h
      · have := ih1 h hc
        simp [entries_nil] at this
      · exact ih2 h hc
    | some c' =>
      simp only [Option.toList_some] at ih1 ⊢
      generalize rwList sel keep names cs st1 = r2 at ih2
      obtain ⟨r, st2⟩ := r2
      simp only at ih2 ⊢
      rw [entries_cons names c' r]
      rcases List.mem_append.mp h with h | h
      · exact List.mem_append.mpr (Or.inl (ih1 h hc))
      · exact List.mem_append.mpr (Or.inr (ih2 h hc))
end

/-- `e'` lies strictly below the directory `e` -/
def Below (e e' : Entry) : Prop := e.path.length < e'.path.length ∧ e'.path.take e.path.length = e.path

mutual
/-- a directory is only kept for a reason: `KeepEmptyDirectory` says so, or something below it is kept -/
theorem rw_node_dir_reason (sel : List Str → Bool → Bool) (keep : List Str → Bool) (names : List Str) :
    ∀ (n : Node) (st : Stats) (e : Entry),
      e ∈ entries names (rwNode sel keep names n st).1.toList → e.isDir = true →
        keep e.path = true ∨ ∃ e' ∈ entries names (rwNode sel keep names n st).1.toList, Below e e'
  | .file n sz, st, e => by
    unfold rwNode
    split
    · simp only [Option.toList_some, entries_file, entries_nil, List.mem_singleton]
      intro h hd; subst h; simp at hd
    · simp [entries_nil]
  | .other n s, st, e => by
    unfold rwNode
    split
    · simp only [Option.toList_some, entries_other, entries_nil, List.mem_singleton]
      intro h hd; subst h; simp at hd
    · simp [entries_nil]
  | .dir n ch, st, e => by
    unfold rwNode
    split
    · have ih := rw_list_dir_reason sel keep (names ++ [n]) ch st e
      generalize rwList sel keep (names ++ [n]) ch st = r at ih
      obtain ⟨res, st'⟩ := r
      simp only at ih ⊢
      split
      · simp [entries_nil]
      · rename_i hkeep
        simp only [Option.toList_some, entries_dir, entries_nil, List.append_nil, List.mem_cons]
        rintro (h | h) hd
        · subst h
          simp only
          cases hk : keep (names ++ [n]) with
          | true => exact Or.inl rfl
          | false =>
            right
            cases res with
            | nil => simp [hk] at hkeep
            | cons c' r' =>
              -- the first kept child is an entry strictly below
              have : ∃ e', e' ∈ entries (names ++ [n]) (c' :: r') ∧ e'.path = names ++ [n] ++ [c'.name] := by
                cases c' with
                | file m sz =>
                  exact ⟨⟨names ++ [n] ++ [m], false, true, sz, false⟩, by rw [entries_file]; exact List.mem_cons_self, rfl⟩
                | other m s =>
                  exact ⟨⟨names ++ [n] ++ [m], false, false, 0, s⟩, by rw [entries_other]; exact List.mem_cons_self, rfl⟩
                | dir m ch' =>
                  exact ⟨⟨names ++ [n] ++ [m], true, false, 0, false⟩, by rw [entries_dir]; exact List.mem_cons_self, rfl⟩
              rcases this with ⟨e', he', hp⟩
              refine ⟨e', Or.inr he', ?_, ?_⟩
              · rw [hp]; simp
              · rw [hp]
                simp only [List.length_append, List.length_cons, List.length_nil]
                rw [List.take_append_of_le_length (by simp)]
                rw [List.take_of_length_le (by simp)]
        · rcases ih h hd with h1 | ⟨e', he', hb⟩
          · exact Or.inl h1
          · exact Or.inr ⟨e', Or.inr he', hb⟩
    · simp [entries_nil]
theorem rw_list_dir_reason (sel : List Str → Bool → Bool) (keep : List Str → Bool) (names : List Str) :
    ∀ (l : List Node) (st : Stats) (e : Entry),
      e ∈ entries names (rwList sel keep names l st).1 → e.isDir = true →
        keep e.path = true ∨ ∃ e' ∈ entries names (rwList sel keep names l st).1, Below e e'
  | [], st, e => by simp [rwList, entries_nil]
  | c :: cs, st, e => by
    unfold rwList
    have ih1 := rw_node_dir_reason sel keep names c st e
    generalize rwNode sel keep names c st = r1 at ih1
    obtain ⟨o, st1⟩ := r1
    cases o with
    | none =>
      simp only
      exact rw_list_dir_reason sel keep names cs st1 e
    | some c' =>
      simp only [Option.toList_some] at ih1 ⊢
      have ih2 := rw_list_dir_reason sel keep names cs st1 e
      generalize rwList sel keep names cs st1 = r2 at ih2
      obtain ⟨r, st2⟩ := r2
      simp only at ih2 ⊢
      rw [entries_cons names c' r]
      intro h hd
      rcases List.mem_append.mp h with h | h
      · rcases ih1 h hd with h1 | ⟨e', he', hb⟩
        · exact Or.inl h1
        · exact Or.inr ⟨e', List.mem_append.mpr (Or.inl he'), hb⟩
      · rcases ih2 h hd with h1 | ⟨e', he', hb⟩
        · exact Or.inl h1
        · exact Or.inr ⟨e', List.mem_append.mpr (Or.inr he'), hb⟩
end



/-- every directory above an entry of a tree is itself an entry of the tree -/
theorem entries_ancestor (names : List Str) : ∀ (l : List Node) (e' : Entry), e' ∈ entries names l →
    ∀ k, names.length < k → k < e'.path.length → (⟨e'.path.take k, true, false, 0, false⟩ : Entry) ∈ entries names l
  | [], e', h => by simp [entries_nil] at h
  | .file n sz :: r, e', h => by
    intro k hk1 hk2
    simp only [entries_file, List.mem_cons] at h ⊢
    rcases h with h | h
    · subst h; simp at hk2; omega
    · exact Or.inr (entries_ancestor names r e' h k hk1 hk2)
  | .other n s :: r, e', h => by
    intro k hk1 hk2
    simp only [entries_other, List.mem_cons] at h ⊢
    rcases h with h | h
    · subst h; simp at hk2; omega
    · exact Or.inr (entries_ancestor names r e' h k hk1 hk2)
  | .dir n ch :: r, e', h => by
    intro k hk1 hk2
    simp only [entries_dir, List.mem_cons, List.mem_append] at h ⊢
    rcases h with h | h | h
    · subst h; simp at hk2; omega
    · rcases entries_prefix (names ++ [n]) ch e' h with ⟨m, rest, hr⟩
      by_cases hk : k = names.length + 1
      · left
        subst hk
        rw [hr, List.take_append_of_le_length (by simp), List.take_of_length_le (by simp)]
      · right; left
        exact entries_ancestor (names ++ [n]) ch e' h k (by simp; omega) hk2
    · exact Or.inr (Or.inr (entries_ancestor names r e' h k hk1 hk2))

/-- a directory entry carries no size and is not a file -/
theorem entries_dir_shape (names : List Str) : ∀ (l : List Node) (e : Entry), e ∈ entries names l →
    e.isDir = true → e = ⟨e.path, true, false, 0, false⟩
  | [], e, h => by simp [entries_nil] at h
  | .file n sz :: r, e, h => by
    intro hd
    simp only [entries_file, List.mem_cons] at h
    rcases h with h | h
    · subst h; simp at hd
    · exact entries_dir_shape names r e h hd
  | .other n s :: r, e, h => by
    intro hd
    simp only [entries_other, List.mem_cons] at h
    rcases h with h | h
    · subst h; simp at hd
    · exact entries_dir_shape names r e h hd
  | .dir n ch :: r, e, h => by
    intro hd
    simp only [entries_dir, List.mem_cons, List.mem_append] at h
    rcases h with h | h | h
    · subst h; rfl
    · exact entries_dir_shape (names ++ [n]) ch e h hd
    · exact entries_dir_shape names r e h hd


end Restic.Proofs.C27
