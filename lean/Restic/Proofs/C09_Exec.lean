import Restic.Model.Prune
/-!
Helper lemmas for C09: every prefix of an accepted prune trace keeps all used blobs indexed, and
keeps the index sound.
-/
namespace Restic.Proofs.C09Exec
open Restic.Model.Repo Restic.Model.Prune

theorem packHas_iff (r : Repo) (p : ID) (b : BlobH) :
    packHas r p b = true ↔ ∃ pk ∈ r.packs, pk.1 = p ∧ ∃ e ∈ pk.2, e.blob = b := by
  simp [packHas, List.any_eq_true]

theorem hasWitness_iff (avoid : List ID) (r : Repo) (b : BlobH) :
    hasWitness avoid r b = true ↔
      ∃ i ∈ r.indexes, ∃ x ∈ i.2, x.1 ∉ avoid ∧ (∃ e ∈ x.2, e.blob = b) ∧ packHas r x.1 b = true := by
  simp [hasWitness, List.any_eq_true, and_assoc]

theorem indexed_iff (r : Repo) (b : BlobH) :
    Indexed r b = true ↔ ∃ i ∈ r.indexes, ∃ x ∈ i.2, (∃ e ∈ x.2, e.blob = b) ∧ packHas r x.1 b = true := by
  simp [Indexed, List.any_eq_true]

theorem hasWitness_indexed {avoid : List ID} {r : Repo} {b : BlobH} (h : hasWitness avoid r b = true) :
    Indexed r b = true := by
  rw [hasWitness_iff] at h; rw [indexed_iff]
  obtain ⟨i, hi, x, hx, _, he, hp⟩ := h
  exact ⟨i, hi, x, hx, he, hp⟩

theorem hasWitness_weaken {a c : List ID} {r : Repo} {b : BlobH} (h : hasWitness (a ++ c) r b = true) :
    hasWitness a r b = true := by
  rw [hasWitness_iff] at h ⊢
  obtain ⟨i, hi, x, hx, hn, he, hp⟩ := h
  exact ⟨i, hi, x, hx, fun hm => hn (List.mem_append_left _ hm), he, hp⟩

theorem mem_rm {α : Type} (l : List (ID × α)) (id : ID) (x : ID × α) : x ∈ rm l id ↔ x ∈ l ∧ x.1 ≠ id := by
  simp [rm]

/-- a witness survives any change that keeps its index file and its pack -/
theorem hasWitness_mono {avoid : List ID} {r r' : Repo} {b : BlobH}
    (hidx : ∀ i ∈ r.indexes, ∀ x ∈ i.2, x.1 ∉ avoid → (∃ e ∈ x.2, e.blob = b) → packHas r x.1 b = true →
        ∃ i' ∈ r'.indexes, ∃ x' ∈ i'.2, x'.1 = x.1 ∧ ∃ e ∈ x'.2, e.blob = b)
    (hpk : ∀ pk ∈ r.packs, pk.1 ∉ avoid → pk ∈ r'.packs)
    (h : hasWitness avoid r b = true) : hasWitness avoid r' b = true := by
  rw [hasWitness_iff] at h ⊢
  obtain ⟨i, hi, x, hx, hn, he, hp⟩ := h
  obtain ⟨i', hi', x', hx', hxx, he'⟩ := hidx i hi x hx hn he hp
  refine ⟨i', hi', x', hx', by rw [hxx]; exact hn, he', ?_⟩
  rw [packHas_iff] at hp ⊢
  obtain ⟨pk, hpk1, hpk2, hpk3⟩ := hp
  exact ⟨pk, hpk pk hpk1 (by rw [hpk2]; exact hn), by rw [hxx]; exact hpk2, hpk3⟩

/-- the invariant: before deletions of referenced files start (`ph ≤ 1`), blobs to be repacked
    only need a copy outside the unindexed packs; all other used blobs — and from phase 2 on all
    used blobs — have a copy outside every pack that is going to be deleted -/
def Inv (pl : XPlan) (used : List BlobH) (ph : Nat) (r : Repo) : Prop :=
  ∀ b ∈ used,
    (ph ≥ 2 ∨ b ∉ pl.keep → hasWitness (pl.removeFirst ++ pl.exclude) r b = true) ∧
    hasWitness pl.removeFirst r b = true

theorem inv_indexed {pl : XPlan} {used : List BlobH} {ph : Nat} {r : Repo} (h : Inv pl used ph r) :
    ∀ b ∈ used, Indexed r b = true := fun b hb => hasWitness_indexed (h b hb).2

/-- any state change that preserves witnesses (for both avoid sets) and does not lower the phase
    from ≥ 2 preserves the invariant -/
theorem inv_of_mono {pl : XPlan} {used : List BlobH} {ph ph' : Nat} {r r' : Repo}
    (h : Inv pl used ph r)
    (hph : ph' ≥ 2 → ph ≥ 2 ∨ keepGuard pl r = true)
    (hm1 : ∀ b, hasWitness (pl.removeFirst ++ pl.exclude) r b = true → hasWitness (pl.removeFirst ++ pl.exclude) r' b = true)
    (hm2 : ph' ≥ 2 ∨ ∀ b, hasWitness pl.removeFirst r b = true → hasWitness pl.removeFirst r' b = true) :
    Inv pl used ph' r' := by
  intro b hb
  obtain ⟨h1, h2⟩ := h b hb
  have key : (ph' ≥ 2 ∨ b ∉ pl.keep) → hasWitness (pl.removeFirst ++ pl.exclude) r' b = true := by
    intro hc
    apply hm1
    rcases hc with hc | hc
    · rcases hph hc with h3 | h3
      · exact h1 (Or.inl h3)
      · by_cases hk : b ∈ pl.keep
        · simp only [keepGuard, List.all_eq_true] at h3
          exact h3 b hk
        · exact h1 (Or.inr hk)
    · exact h1 (Or.inr hc)
  refine ⟨key, ?_⟩
  rcases hm2 with hm2 | hm2
  · exact hasWitness_weaken (key (Or.inl hm2))
  · exact hm2 b h2


theorem hasWitness_congr {avoid : List ID} {r r' : Repo} (hi : r'.indexes = r.indexes) (hp : r'.packs = r.packs)
    (b : BlobH) : hasWitness avoid r' b = hasWitness avoid r b := by
  simp [hasWitness, packHas, hi, hp]

theorem keepGuard_congr {pl : XPlan} {r r' : Repo} (hi : r'.indexes = r.indexes) (hp : r'.packs = r.packs) :
    keepGuard pl r' = keepGuard pl r := by
  unfold keepGuard
  congr 1
  funext b
  exact hasWitness_congr hi hp b

theorem inv_congr {pl : XPlan} {used : List BlobH} {ph : Nat} {r r' : Repo}
    (hi : r'.indexes = r.indexes) (hp : r'.packs = r.packs) (h : Inv pl used ph r) : Inv pl used ph r' := by
  intro b hb
  rw [hasWitness_congr hi hp, hasWitness_congr hi hp]
  exact h b hb

/-- removing a pack that is in the avoid set keeps every witness -/
theorem hasWitness_rm_pack {avoid : List ID} {r : Repo} {p : ID} (hp : p ∈ avoid) (b : BlobH)
    (h : hasWitness avoid r b = true) : hasWitness avoid { r with packs := rm r.packs p } b = true := by
  apply hasWitness_mono _ _ h
  · intro i hi x hx _ he _
    exact ⟨i, hi, x, hx, rfl, he⟩
  · intro pk hpk hn
    rw [mem_rm]
    exact ⟨hpk, fun hc => hn (hc ▸ hp)⟩

theorem hasWitness_save_pack {avoid : List ID} {r : Repo} {p : ID} {es : List Entry} (hf : packPresent r p = false)
    (b : BlobH) (h : hasWitness avoid r b = true) :
    hasWitness avoid { r with packs := (p, es) :: rm r.packs p } b = true := by
  apply hasWitness_mono _ _ h
  · intro i hi x hx _ he _
    exact ⟨i, hi, x, hx, rfl, he⟩
  · intro pk hpk _
    refine List.mem_cons_of_mem _ ?_
    rw [mem_rm]
    refine ⟨hpk, fun hc => ?_⟩
    have : packPresent r p = true := by
      simp only [packPresent, List.any_eq_true, decide_eq_true_eq]
      exact ⟨pk, hpk, hc⟩
    rw [hf] at this; exact Bool.noConfusion this

theorem hasWitness_save_index {avoid : List ID} {r : Repo} {i : ID} {f : IdxFile}
    (hf : ∀ x ∈ r.indexes, x.1 ≠ i) (b : BlobH) (h : hasWitness avoid r b = true) :
    hasWitness avoid { r with indexes := (i, f) :: rm r.indexes i } b = true := by
  apply hasWitness_mono _ _ h
  · intro j hj x hx _ he _
    refine ⟨j, List.mem_cons_of_mem _ ?_, x, hx, rfl, he⟩
    rw [mem_rm]
    exact ⟨hj, hf j hj⟩
  · intro pk hpk _; exact hpk

theorem hasWitness_rm_index {pl : XPlan} {r : Repo} {i : ID} (hg : idxRemoveOK pl r i = true) (b : BlobH)
    (h : hasWitness (pl.removeFirst ++ pl.exclude) r b = true) :
    hasWitness (pl.removeFirst ++ pl.exclude) { r with indexes := rm r.indexes i } b = true := by
  apply hasWitness_mono _ _ h
  · intro j hj x hx hn he _
    by_cases hji : j.1 = i
    · simp only [idxRemoveOK, List.all_eq_true, Bool.or_eq_true, List.any_eq_true, Bool.and_eq_true,
        decide_eq_true_eq, ne_eq, List.contains_eq_mem] at hg
      have h1 := hg j hj
      rcases h1 with h1 | h1
      · exact absurd hji (by simpa using h1)
      · have h2 := h1 x hx
        rcases h2 with h2 | h2
        · exact absurd (List.mem_append_right _ (by simpa using h2)) hn
        · obtain ⟨e, hex, heb⟩ := he
          obtain ⟨j', hj', hne, y, hy, hyx, e', he', hbb⟩ := h2 e hex
          refine ⟨j', ?_, y, hy, hyx, e', he', by rw [hbb, heb]⟩
          rw [mem_rm]; exact ⟨hj', by simpa using hne⟩
    · refine ⟨j, ?_, x, hx, rfl, he⟩
      rw [mem_rm]; exact ⟨hj, hji⟩
  · intro pk hpk _; exact hpk


theorem step_inv {pl : XPlan} {used : List BlobH} {ph ph' : Nat} {r : Repo} {e : Ev}
    (h : Inv pl used ph r) (hs : step pl ph r e = some ph') : Inv pl used ph' (apply r e) := by
  cases e with
  | read t id =>
    simp only [step, Option.some.injEq] at hs
    subst hs; exact h
  | save t id c =>
    cases t with
    | pack =>
      cases c with
      | pack es =>
        simp only [step] at hs
        split at hs
        · rename_i hc
          obtain ⟨_, hfresh, _, _⟩ := hc
          simp only [Option.some.injEq] at hs; subst hs
          have hf : packPresent r id = false := by simpa using hfresh
          exact inv_of_mono h (fun h2 => absurd h2 (by omega))
            (fun b hb => hasWitness_save_pack hf b hb) (Or.inr fun b hb => hasWitness_save_pack hf b hb)
        · exact absurd hs (by simp)
      | _ => simp [step] at hs
    | index =>
      cases c with
      | index f =>
        simp only [step] at hs
        split at hs
        · rename_i hc
          obtain ⟨_, hok⟩ := hc
          simp only [Option.some.injEq] at hs; subst hs
          have hf : ∀ x ∈ r.indexes, x.1 ≠ id := by
            simp only [idxSaveOK, Bool.and_eq_true, List.all_eq_true, decide_eq_true_eq] at hok
            exact hok.1
          exact inv_of_mono h (fun h2 => absurd h2 (by omega))
            (fun b hb => hasWitness_save_index hf b hb) (Or.inr fun b hb => hasWitness_save_index hf b hb)
        · exact absurd hs (by simp)
      | _ => simp [step] at hs
    | lock =>
      have : step pl ph r (.save .lock id c) = some ph := by cases c <;> rfl
      rw [this] at hs; simp only [Option.some.injEq] at hs; subst hs
      refine inv_congr ?_ ?_ h <;> cases c <;> rfl
    | snapshot => cases c <;> simp [step] at hs
    | key => cases c <;> simp [step] at hs
    | config => cases c <;> simp [step] at hs
  | remove t id =>
    cases t with
    | pack =>
      simp only [step] at hs
      split at hs
      · rename_i hc
        obtain ⟨hph, hmem, _⟩ := hc
        simp only [Option.some.injEq] at hs; subst hs
        have hm : id ∈ pl.removeFirst := by simpa using hmem
        exact inv_of_mono h (fun h2 => absurd h2 (by omega))
          (fun b hb => hasWitness_rm_pack (List.mem_append_left _ hm) b hb)
          (Or.inr fun b hb => hasWitness_rm_pack hm b hb)
      · split at hs
        · rename_i hc
          obtain ⟨hmem, _, hg⟩ := hc
          simp only [Option.some.injEq] at hs; subst hs
          have hm : id ∈ pl.exclude := by simpa using hmem
          exact inv_of_mono h (fun _ => hg)
            (fun b hb => hasWitness_rm_pack (List.mem_append_right _ hm) b hb) (Or.inl (by omega))
        · exact absurd hs (by simp)
    | index =>
      simp only [step] at hs
      split at hs
      · rename_i hc
        obtain ⟨_, hok, hg⟩ := hc
        simp only [Option.some.injEq] at hs; subst hs
        refine inv_of_mono h (fun _ => ?_) (fun b hb => hasWitness_rm_index hok b hb) (Or.inl (by omega))
        rcases hg with hg | hg
        · exact Or.inl (by omega)
        · exact Or.inr hg
      · exact absurd hs (by simp)
    | lock =>
      simp only [step, Option.some.injEq] at hs; subst hs
      exact inv_congr rfl rfl h
    | snapshot => simp [step] at hs
    | key => simp [step] at hs
    | config => simp [step] at hs

theorem acceptFrom_inv {pl : XPlan} {used : List BlobH} :
    ∀ (tr : List Ev) (ph : Nat) (r : Repo), Inv pl used ph r → acceptFrom pl ph r tr = true →
      ∀ k, ∃ ph', Inv pl used ph' (applyAll r (tr.take k)) := by
  intro tr
  induction tr with
  | nil => intro ph r h _ k; exact ⟨ph, by simpa [applyAll] using h⟩
  | cons e tr ih =>
    intro ph r h ha k
    cases k with
    | zero => exact ⟨ph, by simpa [applyAll] using h⟩
    | succ k =>
      simp only [acceptFrom] at ha
      split at ha
      · exact Bool.noConfusion ha
      · rename_i ph' hs
        have := ih ph' (apply r e) (step_inv h hs) ha k
        simpa [applyAll] using this


/-! ### index soundness is preserved by every allowed event -/

theorem idxSound_iff (r : Repo) :
    IdxSound r = true ↔ ∀ i ∈ r.indexes, ∀ x ∈ i.2, ∃ pk ∈ r.packs, pk.1 = x.1 ∧ ∀ e ∈ x.2, e ∈ pk.2 := by
  simp [IdxSound, List.all_eq_true, List.any_eq_true]

theorem idxSound_mono {r r' : Repo} (h : IdxSound r = true)
    (hidx : ∀ i ∈ r'.indexes, i ∈ r.indexes ∨ ∀ x ∈ i.2, ∃ pk ∈ r'.packs, pk.1 = x.1 ∧ ∀ e ∈ x.2, e ∈ pk.2)
    (hpk : ∀ pk ∈ r.packs, (∃ i ∈ r.indexes, ∃ x ∈ i.2, x.1 = pk.1) → pk ∈ r'.packs) : IdxSound r' = true := by
  rw [idxSound_iff] at h ⊢
  intro i hi x hx
  rcases hidx i hi with h1 | h1
  · obtain ⟨pk, hpk1, hpk2, hpk3⟩ := h i h1 x hx
    exact ⟨pk, hpk pk hpk1 ⟨i, h1, x, hx, hpk2.symm⟩, hpk2, hpk3⟩
  · exact h1 x hx

theorem noIndexNames_iff (r : Repo) (p : ID) : noIndexNames r p = true ↔ ∀ i ∈ r.indexes, ∀ x ∈ i.2, x.1 ≠ p := by
  simp [noIndexNames, List.all_eq_true]

theorem step_sound {pl : XPlan} {ph ph' : Nat} {r : Repo} {e : Ev}
    (h : IdxSound r = true) (hs : step pl ph r e = some ph') : IdxSound (apply r e) = true := by
  have rmPack : ∀ p, noIndexNames r p = true → IdxSound { r with packs := rm r.packs p } = true := by
    intro p hn
    rw [noIndexNames_iff] at hn
    refine idxSound_mono h (fun i hi => Or.inl hi) ?_
    intro pk hpk ⟨i, hi, x, hx, hxp⟩
    rw [mem_rm]
    exact ⟨hpk, fun hc => hn i hi x hx (hxp.trans hc)⟩
  cases e with
  | read t id => exact h
  | save t id c =>
    cases t with
    | pack =>
      cases c with
      | pack es =>
        simp only [step] at hs
        split at hs
        · rename_i hc
          obtain ⟨_, hfresh, _, _⟩ := hc
          have hf : packPresent r id = false := by simpa using hfresh
          refine idxSound_mono (r' := apply r (.save .pack id (.pack es))) h (fun i hi => Or.inl hi) ?_
          intro pk hpk _
          refine List.mem_cons_of_mem _ ?_
          rw [mem_rm]
          refine ⟨hpk, fun hc => ?_⟩
          have : packPresent r id = true := by
            simp only [packPresent, List.any_eq_true, decide_eq_true_eq]
            exact ⟨pk, hpk, hc⟩
          rw [hf] at this; exact Bool.noConfusion this
        · exact absurd hs (by simp)
      | _ => simp [step] at hs
    | index =>
      cases c with
      | index f =>
        simp only [step] at hs
        split at hs
        · rename_i hc
          obtain ⟨_, hok⟩ := hc
          simp only [idxSaveOK, Bool.and_eq_true, List.all_eq_true, decide_eq_true_eq, List.any_eq_true,
            List.contains_eq_mem] at hok
          refine idxSound_mono (r' := apply r (.save .index id (.index f))) h ?_ (fun pk hpk _ => hpk)
          intro i hi
          rcases List.mem_cons.mp hi with h1 | h1
          · right
            subst h1
            intro x hx
            obtain ⟨_, pk, hpk, hpk1, hpk2⟩ := hok.2 x hx
            exact ⟨pk, hpk, hpk1, hpk2⟩
          · left; exact ((mem_rm _ _ _).mp h1).1
        · exact absurd hs (by simp)
      | _ => simp [step] at hs
    | lock =>
      have e1 : (apply r (.save .lock id c)).indexes = r.indexes := by cases c <;> rfl
      have e2 : (apply r (.save .lock id c)).packs = r.packs := by cases c <;> rfl
      simpa [IdxSound, e1, e2] using h
    | snapshot => cases c <;> simp [step] at hs
    | key => cases c <;> simp [step] at hs
    | config => cases c <;> simp [step] at hs
  | remove t id =>
    cases t with
    | pack =>
      simp only [step] at hs
      split at hs
      · rename_i hc; exact rmPack id hc.2.2
      · split at hs
        · rename_i hc; exact rmPack id hc.2.1
        · exact absurd hs (by simp)
    | index =>
      refine idxSound_mono (r' := apply r (.remove .index id)) h ?_ (fun pk hpk _ => hpk)
      intro i hi
      exact Or.inl ((mem_rm _ _ _).mp hi).1
    | lock => exact h
    | snapshot => simp [step] at hs
    | key => simp [step] at hs
    | config => simp [step] at hs

theorem acceptFrom_sound {pl : XPlan} :
    ∀ (tr : List Ev) (ph : Nat) (r : Repo), IdxSound r = true → acceptFrom pl ph r tr = true →
      ∀ k, IdxSound (applyAll r (tr.take k)) = true := by
  intro tr
  induction tr with
  | nil => intro ph r h _ k; simpa [applyAll] using h
  | cons e tr ih =>
    intro ph r h ha k
    cases k with
    | zero => simpa [applyAll] using h
    | succ k =>
      simp only [acceptFrom] at ha
      split at ha
      · exact Bool.noConfusion ha
      · rename_i ph' hs
        have := ih ph' (apply r e) (step_sound h hs) ha k
        simpa [applyAll] using this

end Restic.Proofs.C09Exec
