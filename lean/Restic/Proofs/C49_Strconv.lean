import Restic.Model.Strconv
/-!
Exactness of the `strconv` models: `parseUint` / `parseInt` accept exactly the decimal numerals
in range and return their value (helper module for C49 / C52).
-/
namespace Restic.Proofs.Strconv
open Restic.Model.Strconv

/-- decimal value of `s` continued from the accumulator `n` -/
def decFrom (n : Nat) (s : Str) : Nat := s.foldl (fun n c => n * 10 + digitVal c) n

theorem decVal_eq (s : Str) : decVal s = decFrom 0 s := by unfold decVal decFrom; rfl

theorem decFrom_cons (n : Nat) (c : UInt8) (cs : Str) :
    decFrom n (c :: cs) = decFrom (n * 10 + digitVal c) cs := by
  unfold decFrom; rw [List.foldl_cons]

theorem decFrom_ge (n : Nat) (s : Str) : n ≤ decFrom n s := by
  induction s generalizing n with
  | nil => exact Nat.le_refl _
  | cons c cs ih =>
    rw [decFrom_cons]
    exact Nat.le_trans (by omega) (ih _)

theorem decFrom_mono (n m : Nat) (s : Str) (h : n ≤ m) : decFrom n s ≤ decFrom m s := by
  induction s generalizing n m with
  | nil => exact h
  | cons c cs ih => rw [decFrom_cons, decFrom_cons]; exact ih _ _ (by omega)

theorem decFrom_append (n : Nat) (s t : Str) : decFrom n (s ++ t) = decFrom (decFrom n s) t := by
  unfold decFrom; rw [List.foldl_append]

theorem cutoff10_eq : cutoff10 = 1844674407370955162 := by decide

theorem digitVal_le (c : UInt8) (h : isDigit c = true) : digitVal c ≤ 9 := by
  unfold isDigit at h
  unfold digitVal
  simp only [Bool.and_eq_true, decide_eq_true_eq] at h
  have h2 : c.toNat ≤ 57 := by
    have := h.2; exact UInt8.le_iff_toNat_le.mp this
  omega

/-- the digit loop accepts exactly digit strings whose value stays within `maxVal` -/
theorem parseUintLoop_ok_iff (maxVal : Nat) (hmax : maxVal < two64) (n : Nat) (s : Str) (v : Nat) (hn : n ≤ maxVal) :
    parseUintLoop maxVal n s = .ok v ↔ allDigits s = true ∧ decFrom n s = v ∧ v ≤ maxVal := by
  induction s generalizing n with
  | nil =>
    simp only [parseUintLoop, allDigits, List.all_nil, decFrom, List.foldl_nil, true_and]
    constructor
    · intro h; injection h with h; subst h; exact ⟨rfl, hn⟩
    · rintro ⟨rfl, _⟩; rfl
  | cons c cs ih =>
    rw [decFrom_cons]
    unfold parseUintLoop
    by_cases hd : isDigit c = true
    · have hd9 := digitVal_le c hd
      have hall : allDigits (c :: cs) = allDigits cs := by simp [allDigits, hd]
      rw [hall]
      simp only [hd, Bool.not_true, Bool.false_eq_true, if_false]
      by_cases hc : n ≥ cutoff10
      · simp only [hc, if_true]
        constructor
        · intro h; cases h
        · rintro ⟨_, h2, h3⟩
          have := decFrom_ge (n * 10 + digitVal c) cs
          rw [cutoff10_eq] at hc
          unfold two64 at hmax
          omega
      · simp only [hc, if_false]
        rw [cutoff10_eq] at hc
        have hmul : n * 10 % two64 = n * 10 := by unfold two64; omega
        rw [hmul]
        by_cases hover : (n * 10 + digitVal c) % two64 < n * 10 ∨ (n * 10 + digitVal c) % two64 > maxVal
        · have hdec : (decide ((n * 10 + digitVal c) % two64 < n * 10) || decide ((n * 10 + digitVal c) % two64 > maxVal)) = true := by
            simpa using hover
          simp only [hdec, if_true]
          constructor
          · intro h; cases h
          · rintro ⟨_, h2, h3⟩
            have := decFrom_ge (n * 10 + digitVal c) cs
            unfold two64 at hover hmax
            omega
        · have hdec : (decide ((n * 10 + digitVal c) % two64 < n * 10) || decide ((n * 10 + digitVal c) % two64 > maxVal)) = false := by
            simpa using hover
          simp only [hdec, Bool.false_eq_true, if_false]
          have hn1 : (n * 10 + digitVal c) % two64 = n * 10 + digitVal c := by
            unfold two64 at hover hmax ⊢; omega
          rw [hn1]
          rw [hn1] at hover
          exact ih (n * 10 + digitVal c) (by omega)
    · have hall : allDigits (c :: cs) = false := by simp [allDigits, hd]
      simp only [hd, hall]
      simp

/-- `ParseUint(s, 10, bits)` accepts exactly the non-empty digit strings with value below `2^bits` -/
theorem parseUint_ok_iff (bits : Nat) (hb : bits ≤ 64) (s : Str) (v : Nat) :
    parseUint bits s = .ok v ↔ s ≠ [] ∧ allDigits s = true ∧ decVal s = v ∧ v < 2 ^ bits := by
  unfold parseUint
  have hpow : 2 ^ bits ≤ two64 := by
    unfold two64
    calc 2 ^ bits ≤ 2 ^ 64 := Nat.pow_le_pow_right (by omega) hb
      _ = 18446744073709551616 := by decide
  have hpos : 0 < 2 ^ bits := Nat.two_pow_pos bits
  by_cases hs : s = []
  · simp [hs]
  · simp only [hs, if_false, ne_eq, not_false_eq_true, true_and]
    rw [parseUintLoop_ok_iff (2 ^ bits - 1) (by omega) 0 s v (by omega), decVal_eq]
    constructor
    · rintro ⟨h1, h2, h3⟩; exact ⟨h1, h2, by omega⟩
    · rintro ⟨h1, h2, h3⟩; exact ⟨h1, h2, by omega⟩

theorem two63_pow : (2 : Nat) ^ (64 - 1) = 9223372036854775808 := by decide

/-- `ParseInt(s, 10, 64)` accepts exactly: optional sign, non-empty digit string, value within
    `[-2^63, 2^63)`; and returns that value -/
theorem parseInt64_ok_iff (s : Str) (v : Int) :
    parseInt 64 s = .ok v ↔
      (splitSign s).2 ≠ [] ∧ allDigits (splitSign s).2 = true ∧
      v = (if (splitSign s).1 then -(decVal (splitSign s).2 : Int) else (decVal (splitSign s).2 : Int)) ∧
      -9223372036854775808 ≤ v ∧ v < 9223372036854775808 := by
  unfold parseInt
  by_cases hs : s = []
  · subst hs; simp [splitSign]
  · simp only [hs, if_false]
    generalize splitSign s = p
    obtain ⟨neg, ds⟩ := p
    simp only [two63_pow]
    cases hpu : parseUint 64 ds with
    | error e =>
      have hno : ∀ u, ¬ (ds ≠ [] ∧ allDigits ds = true ∧ decVal ds = u ∧ u < 2 ^ 64) := by
        intro u hu
        have := (parseUint_ok_iff 64 (by omega) ds u).mpr hu
        rw [hpu] at this; cases this
      cases e with
      | esyntax =>
        simp only []
        constructor
        · intro h; cases h
        · rintro ⟨h1, h2, h3, h4, h5⟩
          exfalso
          apply hno (decVal ds) ⟨h1, h2, rfl, ?_⟩
          cases neg <;> simp at h3 <;> omega
      | erange =>
        simp only []
        constructor
        · intro h; cases h
        · rintro ⟨h1, h2, h3, h4, h5⟩
          exfalso
          apply hno (decVal ds) ⟨h1, h2, rfl, ?_⟩
          cases neg <;> simp at h3 <;> omega
    | ok un =>
      obtain ⟨h1, h2, h3, h4⟩ := (parseUint_ok_iff 64 (by omega) ds un).mp hpu
      simp only []
      cases neg with
      | false =>
        simp only [Bool.not_false, Bool.true_and, Bool.false_and, Bool.false_eq_true, if_false]
        by_cases hge : un ≥ 9223372036854775808
        · simp only [hge, decide_true, if_true]
          constructor
          · intro h; cases h
          · rintro ⟨_, _, h3', _, h5⟩; omega
        · simp only [hge, decide_false, Bool.false_eq_true, if_false]
          constructor
          · intro h; injection h with h; subst h; exact ⟨h1, h2, by rw [h3], by omega, by omega⟩
          · rintro ⟨_, _, h3', _, _⟩; rw [h3', h3]
      | true =>
        simp only [Bool.not_true, Bool.false_and, Bool.true_and, Bool.false_eq_true, if_false, if_true]
        by_cases hgt : un > 9223372036854775808
        · simp only [hgt, decide_true, if_true]
          constructor
          · intro h; cases h
          · rintro ⟨_, _, h3', h4', _⟩; omega
        · simp only [hgt, decide_false, Bool.false_eq_true, if_false]
          constructor
          · intro h; injection h with h; subst h; exact ⟨h1, h2, by rw [h3], by omega, by omega⟩
          · rintro ⟨_, _, h3', _, _⟩; rw [h3', h3]

/-! ### base 0 -/

theorem evalDigits_ge (base : Nat) (hb : 1 ≤ base) (s : Str) : ∀ n v, evalDigits base n s = some v → n ≤ v := by
  induction s with
  | nil => intro n v h; simp only [evalDigits, Option.some.injEq] at h; omega
  | cons c cs ih =>
    intro n v h
    unfold evalDigits at h
    split at h
    · exact ih n v h
    · split at h
      · cases h
      · split at h
        · cases h
        · have := ih _ v h
          have : n ≤ n * base := Nat.le_mul_of_pos_right n (by omega)
          omega

/-- the base-0 digit loop accepts exactly the digit strings (underscores skipped) whose value stays
    within `maxVal`; stated for any base with the two cutoff facts (instantiated below) -/
theorem parseUintLoopB_ok_iff (base maxVal : Nat) (hmax : maxVal < two64) (hb1 : 1 ≤ base) (hb2 : base ≤ 36)
    (hc1 : ∀ n, n < cutoffB base → n * base < two64) (hc2 : ∀ n, cutoffB base ≤ n → two64 ≤ n * base)
    (s : Str) : ∀ (n v : Nat), n ≤ maxVal →
    (parseUintLoopB base maxVal n s = .ok v ↔ evalDigits base n s = some v ∧ v ≤ maxVal) := by
  induction s with
  | nil =>
    intro n v hn
    simp only [parseUintLoopB, evalDigits, Option.some.injEq]
    constructor
    · intro h; injection h with h; subst h; exact ⟨rfl, hn⟩
    · rintro ⟨rfl, _⟩; rfl
  | cons c cs ih =>
    intro n v hn
    unfold parseUintLoopB evalDigits
    by_cases hu : c = 95
    · simp only [hu, if_true]; exact ih n v hn
    · simp only [hu, if_false]
      cases hd : charDigit c with
      | none => simp
      | some d =>
        simp only
        by_cases hdb : d ≥ base
        · simp [hdb]
        · simp only [hdb, if_false]
          by_cases hc : n ≥ cutoffB base
          · simp only [hc, if_true]
            constructor
            · intro h; cases h
            · rintro ⟨h1, h2⟩
              have := evalDigits_ge base hb1 cs _ v h1
              have := hc2 n hc
              omega
          · simp only [hc, if_false]
            have hlt := hc1 n (by omega)
            generalize n * base = nb at hlt ⊢
            have hmod : nb % two64 = nb := Nat.mod_eq_of_lt hlt
            rw [hmod]
            by_cases hover : (nb + d) % two64 < nb ∨ (nb + d) % two64 > maxVal
            · have hdec : (decide ((nb + d) % two64 < nb) || decide ((nb + d) % two64 > maxVal)) = true := by simpa using hover
              simp only [hdec, if_true]
              constructor
              · intro h; cases h
              · rintro ⟨h1, h2⟩
                have := evalDigits_ge base hb1 cs _ v h1
                unfold two64 at hover hmax hlt
                omega
            · have hdec : (decide ((nb + d) % two64 < nb) || decide ((nb + d) % two64 > maxVal)) = false := by simpa using hover
              simp only [hdec, Bool.false_eq_true, if_false]
              have hn1 : (nb + d) % two64 = nb + d := by unfold two64 at hover hmax hlt ⊢; omega
              rw [hn1]; rw [hn1] at hover
              exact ih (nb + d) v (by omega)

theorem cutoff_facts (base : Nat) (h : base = 2 ∨ base = 8 ∨ base = 10 ∨ base = 16) :
    (∀ n, n < cutoffB base → n * base < two64) ∧ (∀ n, cutoffB base ≤ n → two64 ≤ n * base) := by
  have c2 : cutoffB 2 = 9223372036854775808 := by decide
  have c8 : cutoffB 8 = 2305843009213693952 := by decide
  have c10 : cutoffB 10 = 1844674407370955162 := by decide
  have c16 : cutoffB 16 = 1152921504606846976 := by decide
  rcases h with rfl | rfl | rfl | rfl
  · rw [c2]; unfold two64; exact ⟨fun n h => by omega, fun n h => by omega⟩
  · rw [c8]; unfold two64; exact ⟨fun n h => by omega, fun n h => by omega⟩
  · rw [c10]; unfold two64; exact ⟨fun n h => by omega, fun n h => by omega⟩
  · rw [c16]; unfold two64; exact ⟨fun n h => by omega, fun n h => by omega⟩

theorem prefixBase_base (s : Str) : (prefixBase s).1 = 2 ∨ (prefixBase s).1 = 8 ∨ (prefixBase s).1 = 10 ∨ (prefixBase s).1 = 16 := by
  unfold prefixBase
  split
  · split
    · simp
    · split
      · simp
      · split <;> simp
  · simp
  · simp

/-- `ParseUint(s, 0, bits)` accepts exactly the Go integer literals whose number is below `2^bits`
    and returns that number; in particular nothing with a sign -/
theorem parseUint0_ok_iff (bits : Nat) (hb : bits ≤ 64) (s : Str) (v : Nat) :
    parseUint0 bits s = .ok v ↔ numeral s = some v ∧ v < 2 ^ bits := by
  unfold parseUint0 numeral
  have hpow : 2 ^ bits ≤ two64 := by
    unfold two64
    calc 2 ^ bits ≤ 2 ^ 64 := Nat.pow_le_pow_right (by omega) hb
      _ = 18446744073709551616 := by decide
  have hpos : 0 < 2 ^ bits := Nat.two_pow_pos bits
  by_cases hs : s = []
  · simp [hs]
  · simp only [hs, if_false]
    have hbase := prefixBase_base s
    generalize prefixBase s = p at hbase
    obtain ⟨base, digits⟩ := p
    simp only at hbase ⊢
    obtain ⟨hc1, hc2⟩ := cutoff_facts base hbase
    have key := parseUintLoopB_ok_iff base (2 ^ bits - 1) (by omega) (by omega) (by omega) hc1 hc2 digits 0
    cases hl : parseUintLoopB base (2 ^ bits - 1) 0 digits with
    | error e =>
      simp only
      constructor
      · intro h; cases h
      · rintro ⟨h1, h2⟩
        split at h1
        · cases h1
        · have := (key v (by omega)).mpr ⟨h1, by omega⟩
          rw [hl] at this; cases this
    | ok n =>
      have hn := (key n (by omega)).mp hl
      simp only
      by_cases hund : (digits.contains 95 && !underscoreOK s) = true
      · rw [if_pos hund, if_pos hund]
        constructor
        · intro h; cases h
        · rintro ⟨h, _⟩; cases h
      · rw [if_neg hund, if_neg hund]
        constructor
        · intro h; injection h with h; subst h; exact ⟨hn.1, by omega⟩
        · rintro ⟨h1, _⟩; rw [hn.1] at h1; injection h1 with h1; rw [h1]

/-- `ParseInt(s, 0, 32)`: optional sign, then a Go integer literal; accepted exactly when the signed
    number lies in `[-2^31, 2^31)`, and that number is returned -/
theorem parseInt0_32_ok_iff (s : Str) (v : Int) :
    parseInt0 32 s = .ok v ↔
      ∃ n, numeral (splitSign s).2 = some n ∧
        v = (if (splitSign s).1 then -(n : Int) else (n : Int)) ∧ -2147483648 ≤ v ∧ v < 2147483648 := by
  unfold parseInt0
  have h31 : (2 : Nat) ^ (32 - 1) = 2147483648 := by decide
  have h32 : (2 : Nat) ^ 32 = 4294967296 := by decide
  by_cases hs : s = []
  · subst hs; simp [splitSign, numeral]
  · simp only [hs, if_false, h31]
    generalize splitSign s = p
    obtain ⟨neg, ds⟩ := p
    simp only
    cases hpu : parseUint0 32 ds with
    | error e =>
      have hno : ∀ n, ¬ (numeral ds = some n ∧ n < 2 ^ 32) := by
        intro n hn
        have := (parseUint0_ok_iff 32 (by omega) ds n).mpr hn
        rw [hpu] at this; cases this
      have : ¬ ∃ n, numeral ds = some n ∧ v = (if neg = true then -(n : Int) else (n : Int)) ∧ -2147483648 ≤ v ∧ v < 2147483648 := by
        rintro ⟨n, h1, h2, h3, h4⟩
        apply hno n ⟨h1, ?_⟩
        rw [h32]; cases neg <;> simp at h2 <;> omega
      cases e with
      | esyntax => exact ⟨fun h => (by cases h), fun h => absurd h this⟩
      | erange => exact ⟨fun h => (by cases h), fun h => absurd h this⟩
    | ok un =>
      obtain ⟨h1, h2⟩ := (parseUint0_ok_iff 32 (by omega) ds un).mp hpu
      simp only
      cases neg with
      | false =>
        simp only [Bool.not_false, Bool.true_and, Bool.false_and, Bool.false_eq_true, if_false]
        by_cases hge : un ≥ 2147483648
        · simp only [hge, decide_true, if_true]
          constructor
          · intro h; cases h
          · rintro ⟨n, h1', h2', _, h4'⟩
            rw [h1] at h1'; injection h1' with h1'; omega
        · simp only [hge, decide_false, Bool.false_eq_true, if_false]
          constructor
          · intro h; injection h with h; subst h; exact ⟨un, h1, rfl, by omega, by omega⟩
          · rintro ⟨n, h1', h2', _, _⟩
            rw [h1] at h1'; injection h1' with h1'; subst h1'; rw [h2']
      | true =>
        simp only [Bool.not_true, Bool.false_and, Bool.true_and, Bool.false_eq_true, if_false, if_true]
        by_cases hgt : un > 2147483648
        · simp only [hgt, decide_true, if_true]
          constructor
          · intro h; cases h
          · rintro ⟨n, h1', h2', h3', _⟩
            rw [h1] at h1'; injection h1' with h1'; omega
        · simp only [hgt, decide_false, Bool.false_eq_true, if_false]
          constructor
          · intro h; injection h with h; subst h; exact ⟨un, h1, rfl, by omega, by omega⟩
          · rintro ⟨n, h1', h2', _, _⟩
            rw [h1] at h1'; injection h1' with h1'; subst h1'; rw [h2']

/-- a string with a sign is not an unsigned literal -/
theorem numeral_signed_none (c : UInt8) (r : Str) (hc : c = 45 ∨ c = 43) : numeral (c :: r) = none := by
  unfold numeral
  simp only [List.cons_ne_nil, if_false]
  split
  · rfl
  · have hp : prefixBase (c :: r) = (10, c :: r) := by
      rcases hc with rfl | rfl <;> (unfold prefixBase; rfl)
    rw [hp]
    simp only [evalDigits]
    rcases hc with rfl | rfl <;> rfl

end Restic.Proofs.Strconv
