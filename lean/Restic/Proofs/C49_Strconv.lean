import Restic.Model.Strconv
/-!
Exactness of the `strconv` models: `parseUint` / `parseInt` accept exactly the decimal numerals
in range and return their value (helper module for C49 / C52).
-/
namespace Restic.Proofs.Strconv
open Restic.Model.Strconv

/-- decimal value of `s` continued from the accumulator `n` -/
def decFrom (n : Nat) (s : Str) : Nat := s.foldl (fun n c => n * 10 + digitVal c) n

theorem decVal_eq (s : Str) : decVal s = decFrom 0 s := by unfold decVal decFrom; rfl

theorem decFrom_cons (n : Nat) (c : UInt8) (cs : Str) :
    decFrom n (c :: cs) = decFrom (n * 10 + digitVal c) cs := by
  unfold decFrom; rw [List.foldl_cons]

theorem decFrom_ge (n : Nat) (s : Str) : n ≤ decFrom n s := by
  induction s generalizing n with
  | nil => exact Nat.le_refl _
  | cons c cs ih =>
    rw [decFrom_cons]
    exact Nat.le_trans (by omega) (ih _)

theorem decFrom_mono (n m : Nat) (s : Str) (h : n ≤ m) : decFrom n s ≤ decFrom m s := by
  induction s generalizing n m with
  | nil => exact h
  | cons c cs ih => rw [decFrom_cons, decFrom_cons]; exact ih _ _ (by omega)

theorem decFrom_append (n : Nat) (s t : Str) : decFrom n (s ++ t) = decFrom (decFrom n s) t := by
  unfold decFrom; rw [List.foldl_append]

theorem cutoff10_eq : cutoff10 = 1844674407370955162 := by decide

theorem digitVal_le (c : UInt8) (h : isDigit c = true) : digitVal c ≤ 9 := by
  unfold isDigit at h
  unfold digitVal
  simp only [Bool.and_eq_true, decide_eq_true_eq] at h
  have h2 : c.toNat ≤ 57 := by
    have := h.2; exact UInt8.le_iff_toNat_le.mp this
  omega

/-- the digit loop accepts exactly digit strings whose value stays within `maxVal` -/
theorem parseUintLoop_ok_iff (maxVal : Nat) (hmax : maxVal < two64) (n : Nat) (s : Str) (v : Nat) (hn : n ≤ maxVal) :
    parseUintLoop maxVal n s = .ok v ↔ allDigits s = true ∧ decFrom n s = v ∧ v ≤ maxVal := by
  induction s generalizing n with
  | nil =>
    simp only [parseUintLoop, allDigits, List.all_nil, decFrom, List.foldl_nil, true_and]
    constructor
    · intro h; injection h with h; subst h; exact ⟨rfl, hn⟩
    · rintro ⟨rfl, _⟩; rfl
  | cons c cs ih =>
    rw [decFrom_cons]
    unfold parseUintLoop
    by_cases hd : isDigit c = true
    · have hd9 := digitVal_le c hd
      have hall : allDigits (c :: cs) = allDigits cs := by simp [allDigits, hd]
      rw [hall]
      simp only [hd, Bool.not_true, Bool.false_eq_true, if_false]
      by_cases hc : n ≥ cutoff10
      · simp only [hc, if_true]
        constructor
        · intro h; cases h
        · rintro ⟨_, h2, h3⟩
          have := decFrom_ge (n * 10 + digitVal c) cs
          rw [cutoff10_eq] at hc
          unfold two64 at hmax
          omega
      · simp only [hc, if_false]
        rw [cutoff10_eq] at hc
        have hmul : n * 10 % two64 = n * 10 := by unfold two64; omega
        rw [hmul]
        by_cases hover : (n * 10 + digitVal c) % two64 < n * 10 ∨ (n * 10 + digitVal c) % two64 > maxVal
        · have hdec : (decide ((n * 10 + digitVal c) % two64 < n * 10) || decide ((n * 10 + digitVal c) % two64 > maxVal)) = true := by
            simpa using hover
          simp only [hdec, if_true]
          constructor
          · intro h; cases h
          · rintro ⟨_, h2, h3⟩
            have := decFrom_ge (n * 10 + digitVal c) cs
            unfold two64 at hover hmax
            omega
        · have hdec : (decide ((n * 10 + digitVal c) % two64 < n * 10) || decide ((n * 10 + digitVal c) % two64 > maxVal)) = false := by
            simpa using hover
          simp only [hdec, Bool.false_eq_true, if_false]
          have hn1 : (n * 10 + digitVal c) % two64 = n * 10 + digitVal c := by
            unfold two64 at hover hmax ⊢; omega
          rw [hn1]
          rw [hn1] at hover
          exact ih (n * 10 + digitVal c) (by omega)
    · have hall : allDigits (c :: cs) = false := by simp [allDigits, hd]
      simp only [hd, hall]
      simp

/-- `ParseUint(s, 10, bits)` accepts exactly the non-empty digit strings with value below `2^bits` -/
theorem parseUint_ok_iff (bits : Nat) (hb : bits ≤ 64) (s : Str) (v : Nat) :
    parseUint bits s = .ok v ↔ s ≠ [] ∧ allDigits s = true ∧ decVal s = v ∧ v < 2 ^ bits := by
  unfold parseUint
  have hpow : 2 ^ bits ≤ two64 := by
    unfold two64
    calc 2 ^ bits ≤ 2 ^ 64 := Nat.pow_le_pow_right (by omega) hb
      _ = 18446744073709551616 := by decide
  have hpos : 0 < 2 ^ bits := Nat.two_pow_pos bits
  by_cases hs : s = []
  · simp [hs]
  · simp only [hs, if_false, ne_eq, not_false_eq_true, true_and]
    rw [parseUintLoop_ok_iff (2 ^ bits - 1) (by omega) 0 s v (by omega), decVal_eq]
    constructor
    · rintro ⟨h1, h2, h3⟩; exact ⟨h1, h2, by omega⟩
    · rintro ⟨h1, h2, h3⟩; exact ⟨h1, h2, by omega⟩

theorem two63_pow : (2 : Nat) ^ (64 - 1) = 9223372036854775808 := by decide

/-- `ParseInt(s, 10, 64)` accepts exactly: optional sign, non-empty digit string, value within
    `[-2^63, 2^63)`; and returns that value -/
theorem parseInt64_ok_iff (s : Str) (v : Int) :
    parseInt 64 s = .ok v ↔
      (splitSign s).2 ≠ [] ∧ allDigits (splitSign s).2 = true ∧
      v = (if (splitSign s).1 then -(decVal (splitSign s).2 : Int) else (decVal (splitSign s).2 : Int)) ∧
      -9223372036854775808 ≤ v ∧ v < 9223372036854775808 := by
  unfold parseInt
  by_cases hs : s = []
  · subst hs; simp [splitSign]
  · simp only [hs, if_false]
    generalize splitSign s = p
    obtain ⟨neg, ds⟩ := p
    simp only [two63_pow]
    cases hpu : parseUint 64 ds with
    | error e =>
      have hno : ∀ u, ¬ (ds ≠ [] ∧ allDigits ds = true ∧ decVal ds = u ∧ u < 2 ^ 64) := by
        intro u hu
        have := (parseUint_ok_iff 64 (by omega) ds u).mpr hu
        rw [hpu] at this; cases this
      cases e with
      | esyntax =>
        simp only []
        constructor
        · intro h; cases h
        · rintro ⟨h1, h2, h3, h4, h5⟩
          exfalso
          apply hno (decVal ds) ⟨h1, h2, rfl, ?_⟩
          cases neg <;> simp at h3 <;> omega
      | erange =>
        simp only []
        constructor
        · intro h; cases h
        · rintro ⟨h1, h2, h3, h4, h5⟩
          exfalso
          apply hno (decVal ds) ⟨h1, h2, rfl, ?_⟩
          cases neg <;> simp at h3 <;> omega
    | ok un =>
      obtain ⟨h1, h2, h3, h4⟩ := (parseUint_ok_iff 64 (by omega) ds un).mp hpu
      simp only []
      cases neg with
      | false =>
        simp only [Bool.not_false, Bool.true_and, Bool.false_and, Bool.false_eq_true, if_false]
        by_cases hge : un ≥ 9223372036854775808
        · simp only [hge, decide_true, if_true]
          constructor
          · intro h; cases h
          · rintro ⟨_, _, h3', _, h5⟩; omega
        · simp only [hge, decide_false, Bool.false_eq_true, if_false]
          constructor
          · intro h; injection h with h; subst h; exact ⟨h1, h2, by rw [h3], by omega, by omega⟩
          · rintro ⟨_, _, h3', _, _⟩; rw [h3', h3]
      | true =>
        simp only [Bool.not_true, Bool.false_and, Bool.true_and, Bool.false_eq_true, if_false, if_true]
        by_cases hgt : un > 9223372036854775808
        · simp only [hgt, decide_true, if_true]
          constructor
          · intro h; cases h
          · rintro ⟨_, _, h3', h4', _⟩; omega
        · simp only [hgt, decide_false, Bool.false_eq_true, if_false]
          constructor
          · intro h; injection h with h; subst h; exact ⟨h1, h2, by rw [h3], by omega, by omega⟩
          · rintro ⟨_, _, h3', _, _⟩; rw [h3', h3]

end Restic.Proofs.Strconv
