import Restic.Model.PackerGen
/-!
Helper lemmas for C44: packers (`add`, `merge`), the predicates `Good` / `Open`, slot lists.
-/
namespace Restic.Proofs.C44
open Restic.Model.Packer

/-- what the proofs need of the layout constants; `genCfg_ok` shows it for the regenerated ones -/
structure CfgOK (c : Cfg) : Prop where
  plain_le : c.plainEntrySize ≤ c.entrySize
  one_fits : c.headerSize + c.entrySize ≤ c.maxHeaderSize
  entries : c.headerSize + c.maxHeaderEntries * c.entrySize ≤ c.maxHeaderSize

theorem genCfg_ok : CfgOK genCfg := by
  constructor <;> decide

def WF (p : Packer) : Prop := p.n = p.blobs.length ∧ p.bytes = sumLen p.blobs

/-- a packer that may be handed to the uploader -/
def Good (c : Cfg) (ps : Nat) (p : Packer) : Prop :=
  WF p ∧ c.headerSize + p.n * c.entrySize ≤ c.maxHeaderSize ∧ noAddAfterFull c ps p.blobs = true

/-- what `Add` needs of the packer it adds to -/
def Pre (c : Cfg) (ps : Nat) (p : Packer) : Prop :=
  WF p ∧ p.bytes < ps ∧ hdrFull c p.n = false

/-- a packer sitting in a slot -/
def Open (c : Cfg) (ps : Nat) (p : Packer) : Prop :=
  Good c ps p ∧ p.bytes < ps ∧ hdrFull c p.n = false

theorem Open.pre {c ps p} (h : Open c ps p) : Pre c ps p := ⟨h.1.1, h.2.1, h.2.2⟩

theorem hdrFull_false {c : Cfg} {k : Nat} :
    hdrFull c k = false ↔ c.headerSize + (k + 1) * c.entrySize ≤ c.maxHeaderSize := by
  simp [hdrFull]

theorem sumLen_cons (b : Blob) (l : List Blob) : sumLen (b :: l) = b.len + sumLen l := by
  simp [sumLen]

theorem sumLen_append (a b : List Blob) : sumLen (a ++ b) = sumLen a + sumLen b := by
  simp [sumLen]

theorem new_pre {c : Cfg} (hc : CfgOK c) {ps : Nat} (hps : 0 < ps) (s : Nat) : Pre c ps (Packer.new s) := by
  refine ⟨⟨rfl, rfl⟩, hps, ?_⟩
  rw [hdrFull_false]; simp [Packer.new]; exact hc.one_fits

theorem add_good {c : Cfg} {ps : Nat} {p : Packer} (h : Pre c ps p) (b : Blob) : Good c ps (p.add b) := by
  obtain ⟨⟨hn, hb⟩, hlt, hf⟩ := h
  refine ⟨⟨?_, ?_⟩, ?_, ?_⟩
  · simp [Packer.add, hn]
  · simp [Packer.add, hb, sumLen_cons]; omega
  · simpa [Packer.add] using hdrFull_false.mp hf
  · simp only [Packer.add, noAddAfterFull, Bool.and_eq_true, decide_eq_true_eq, Bool.not_eq_true']
    exact ⟨hb ▸ hlt, hn ▸ hf⟩

theorem entry_sum_le {c : Cfg} (hc : CfgOK c) (l : List Blob) :
    (l.map (entryBytes c)).sum ≤ l.length * c.entrySize := by
  induction l with
  | nil => simp
  | cons b l ih =>
    simp only [List.map_cons, List.sum_cons, List.length_cons]
    have : entryBytes c b ≤ c.entrySize := by
      unfold entryBytes; split
      · exact hc.plain_le
      · exact Nat.le_refl _
    rw [Nat.add_mul]; omega

/-- header_bound for one packer -/
theorem Good.header_le {c : Cfg} (hc : CfgOK c) {ps p} (h : Good c ps p) :
    p.headerBytes c ≤ c.maxHeaderSize := by
  obtain ⟨⟨hn, _⟩, hh, _⟩ := h
  have := entry_sum_le hc p.blobs
  unfold Packer.headerBytes
  rw [hn] at hh; omega

theorem Good.finalizeOK {c : Cfg} (hc : CfgOK c) {ps p} (h : Good c ps p) : p.finalizeOK c = true := by
  simp [Packer.finalizeOK, h.header_le hc]

theorem foldr_add (p : Packer) (l : List Blob) :
    l.foldr (fun b acc => acc.add b) p =
      { p with blobs := l ++ p.blobs, bytes := p.bytes + sumLen l, n := p.n + l.length } := by
  induction l with
  | nil => simp [sumLen]
  | cons b l ih =>
    rw [List.foldr_cons, ih]
    simp only [Packer.add, List.cons_append, sumLen_cons, List.length_cons]
    congr 1 <;> omega

theorem merge_eq (p q : Packer) :
    p.merge q = { p with blobs := q.blobs ++ p.blobs, bytes := p.bytes + sumLen q.blobs, n := p.n + q.blobs.length } :=
  foldr_add p q.blobs

theorem merge_serial (p q : Packer) : (p.merge q).serial = p.serial := by rw [merge_eq]

theorem merge_blobs (p q : Packer) : (p.merge q).blobs = q.blobs ++ p.blobs := by rw [merge_eq]

theorem merge_good {c : Cfg} (hc : CfgOK c) {ps : Nat} {p q : Packer} (hp : Good c ps p) (hq : Good c ps q)
    (hb : p.bytes + q.bytes < ps) (hn : p.n + q.n ≤ c.maxHeaderEntries) : Good c ps (p.merge q) := by
  obtain ⟨⟨hpn, hpb⟩, _, _⟩ := hp
  obtain ⟨⟨hqn, hqb⟩, _, hqa⟩ := hq
  have hent := hc.entries
  have hmul : (p.n + q.n) * c.entrySize ≤ c.maxHeaderEntries * c.entrySize := Nat.mul_le_mul_right _ hn
  rw [merge_eq]
  refine ⟨⟨?_, ?_⟩, ?_, ?_⟩
  · simp [hpn]; omega
  · simp [hpb, sumLen_append]; omega
  · simp only; rw [← hqn]; omega
  · simp only
    cases hqbl : q.blobs with
    | nil => simp [hqbl, noAddAfterFull] at hqa
    | cons b rest =>
      simp only [List.cons_append, noAddAfterFull, Bool.and_eq_true, decide_eq_true_eq, Bool.not_eq_true']
      rw [hqbl] at hqb hqn
      simp only [sumLen_cons, List.length_cons] at hqb hqn
      refine ⟨?_, ?_⟩
      · rw [sumLen_append]; omega
      · rw [hdrFull_false, List.length_append]
        have : (rest.length + p.blobs.length + 1) = p.n + q.n := by omega
        rw [this]; omega

/-! ### slot lists -/

theorem filterMap_set_some {α} : ∀ (l : List (Option α)) (i : Nat) (p : α), l[i]? = some (some p) →
    ∃ A B, l.filterMap id = A ++ p :: B ∧ ∀ x : Option α, (l.set i x).filterMap id = A ++ x.toList ++ B
  | [], i, p, h => by simp at h
  | s :: l, 0, p, h => by
    simp at h; subst h
    exact ⟨[], l.filterMap id, by simp, fun x => by cases x <;> simp⟩
  | s :: l, i + 1, p, h => by
    simp at h
    obtain ⟨A, B, h1, h2⟩ := filterMap_set_some l i p h
    cases s with
    | none => exact ⟨A, B, by simpa using h1, fun x => by simpa using h2 x⟩
    | some a => exact ⟨a :: A, B, by simp [h1], fun x => by simp [h2 x]⟩

theorem filterMap_set_none {α} : ∀ (l : List (Option α)) (i : Nat), l[i]? = some none →
    ∃ A B, l.filterMap id = A ++ B ∧ ∀ x : Option α, (l.set i x).filterMap id = A ++ x.toList ++ B
  | [], i, h => by simp at h
  | s :: l, 0, h => by
    simp at h; subst h
    exact ⟨[], l.filterMap id, by simp, fun x => by cases x <;> simp⟩
  | s :: l, i + 1, h => by
    simp at h
    obtain ⟨A, B, h1, h2⟩ := filterMap_set_none l i h
    cases s with
    | none => exact ⟨A, B, by simpa using h1, fun x => by simpa using h2 x⟩
    | some a => exact ⟨a :: A, B, by simp [h1], fun x => by simp [h2 x]⟩

theorem forget_filterMap (l : List (Option Packer)) (s : Nat) :
    (forget l s).filterMap id = (l.filterMap id).filter (fun q => !decide (q.serial = s)) := by
  induction l with
  | nil => simp [forget]
  | cons a l ih =>
    cases a with
    | none => simpa [forget] using ih
    | some q =>
      simp only [forget, List.map_cons, List.filterMap_cons, id] at ih ⊢
      by_cases h : q.serial = s
      · simp [h, ih]
      · simp [h, ih]

theorem filter_ne_self {l : List Packer} {s : Nat} (h : ∀ q ∈ l, q.serial ≠ s) :
    l.filter (fun q => !decide (q.serial = s)) = l := by
  rw [List.filter_eq_self]; intro q hq; simpa using h q hq

end Restic.Proofs.C44
