import Restic.Model.Prune
/-!
Helper lemmas for C09: the duplicate selection of `packInfoFromIndex`.
-/
namespace Restic.Proofs.C09Select
open Restic.Model.Repo Restic.Model.Prune

/-- number of index entries for blob `b` -/
def occ (b : BlobH) (l : List PB) : Nat := (l.filter fun pb => pb.e.blob = b).length

@[simp] theorem occ_nil (b : BlobH) : occ b [] = 0 := rfl
theorem occ_cons (b : BlobH) (pb : PB) (l : List PB) :
    occ b (pb :: l) = (if pb.e.blob = b then 1 else 0) + occ b l := by
  unfold occ
  by_cases h : pb.e.blob = b <;> simp [h]; omega

theorem occ_pos {b : BlobH} {l : List PB} (h : 1 ≤ occ b l) : ∃ pb ∈ l, pb.e.blob = b := by
  unfold occ at h
  have : (l.filter fun pb => pb.e.blob = b) ≠ [] := by
    intro hc; rw [hc] at h; simp at h
  obtain ⟨pb, hpb⟩ := List.exists_mem_of_ne_nil _ this
  rw [List.mem_filter] at hpb
  exact ⟨pb, hpb.1, by simpa using hpb.2⟩

theorem occ_of_mem {b : BlobH} {l : List PB} {pb : PB} (h : pb ∈ l) (hb : pb.e.blob = b) : 1 ≤ occ b l := by
  unfold occ
  have : pb ∈ l.filter fun pb => pb.e.blob = b := by
    rw [List.mem_filter]; exact ⟨h, by simpa using hb⟩
  exact List.length_pos_of_mem this

/-- used blobs of a pack (0 when the pack is not in the map) -/
def ub (ip : IP) (p : ID) : Nat := ((ip p).getD {}).usedBlobs

/-! ### first pass -/

theorem countFold (l : List PB) : ∀ (c : CntS), (∀ b n, c.f b = some n → n ≤ 255) → ∀ b,
    (l.foldl countStep c).f b = (c.f b).map fun n => min (n + occ b l) 255 := by
  induction l with
  | nil =>
    intro c hc b
    cases h : c.f b with
    | none => simp [h]
    | some n =>
      have := hc b n h
      simp only [List.foldl_nil, h, occ_nil, Option.map_some, Option.some.injEq]
      omega
  | cons pb l ih =>
    intro c hc b
    simp only [List.foldl_cons]
    have hc' : ∀ b n, (countStep c pb).f b = some n → n ≤ 255 := by
      intro b n
      unfold countStep
      cases h : c.f pb.e.blob with
      | none => simpa using hc b n
      | some m =>
        have hm := hc _ _ h
        simp only [upd]
        by_cases hb : b = pb.e.blob
        · simp only [hb, if_true, Option.some.injEq]
          intro h2; subst h2; split <;> omega
        · simp only [hb, if_false]; exact hc b n
    rw [ih _ hc' b, occ_cons]
    unfold countStep
    cases h : c.f pb.e.blob with
    | none =>
      by_cases hb : pb.e.blob = b
      · subst hb; simp [h]
      · simp [hb]
    | some m =>
      have hm := hc _ _ h
      simp only [upd]
      by_cases hb : pb.e.blob = b
      · subst hb
        simp only [if_true, h, Option.map_some, Option.some.injEq]
        split <;> omega
      · have hb' : ¬ b = pb.e.blob := fun hc => hb hc.symm
        simp only [hb', hb, if_false]
        cases c.f b <;> simp

theorem countPass_eq (used : List BlobH) (idx : List PB) (b : BlobH) :
    (countPass used idx).f b = if b ∈ used then some (min (occ b idx) 255) else none := by
  unfold countPass
  rw [countFold idx ⟨initCnt used⟩ (by intro b n; simp only [initCnt]; split <;> simp; omega)]
  simp only [initCnt]
  split <;> simp

/-! ### second pass -/

theorem pass2Step_ub (cnt : Cnt) (s : S2) (pb : PB) (p : ID) :
    ub (pass2Step cnt s pb).ip p =
      ub s.ip p + (if p = pb.pack ∧ cnt pb.e.blob = some 1 then 1 else 0) := by
  unfold pass2Step ub
  simp only [upd]
  by_cases hp : p = pb.pack
  · subst hp
    simp only [if_true, Option.getD_some, true_and]
    cases hc : cnt pb.e.blob with
    | none => simp; split <;> split <;> split <;> simp
    | some n =>
      by_cases h1 : n = 1
      · subst h1; simp; split <;> split <;> split <;> simp
      · by_cases h2 : n ≥ 2
        · simp [h1, h2]; split <;> split <;> split <;> simp
        · have : n = 0 := by omega
          subst this; simp; split <;> split <;> split <;> simp
  · simp [hp]

theorem pass2Fold_ub (cnt : Cnt) (l : List PB) : ∀ (s : S2) (p : ID),
    ub s.ip p ≤ ub (l.foldl (pass2Step cnt) s).ip p ∧
    ((∃ pb ∈ l, pb.pack = p ∧ cnt pb.e.blob = some 1) → 1 ≤ ub (l.foldl (pass2Step cnt) s).ip p) := by
  induction l with
  | nil => intro s p; simp
  | cons pb l ih =>
    intro s p
    simp only [List.foldl_cons]
    obtain ⟨h1, h2⟩ := ih (pass2Step cnt s pb) p
    have hstep := pass2Step_ub cnt s pb p
    refine ⟨by omega, ?_⟩
    rintro ⟨pb', hmem, hp, hc⟩
    rcases List.mem_cons.mp hmem with h3 | h3
    · subst h3
      have : (if p = pb'.pack ∧ cnt pb'.e.blob = some 1 then 1 else 0) = 1 := by simp [hp, hc]
      omega
    · exact h2 ⟨pb', h3, hp, hc⟩

theorem pass2Fold_hasDup (cnt : Cnt) (l : List PB) : ∀ (s : S2),
    (l.foldl (pass2Step cnt) s).hasDup = (s.hasDup || l.any fun pb => decide ((cnt pb.e.blob).getD 0 ≥ 2)) := by
  induction l with
  | nil => intro s; simp
  | cons pb l ih =>
    intro s
    simp only [List.foldl_cons, ih, List.any_cons]
    unfold pass2Step
    simp [Bool.or_assoc]


/-! ### third pass: exactly the counter machine of the scratch prototype, now with the real
    per-pack conditions -/

theorem pass3Step_ub (s : S3) (pb : PB) (p : ID) : ub s.ip p ≤ ub (pass3Step s pb).ip p := by
  unfold pass3Step
  cases hc : s.cnt pb.e.blob with
  | none => simp
  | some count =>
    simp only
    split
    · simp
    · split
      · unfold ub; simp only [upd]
        by_cases hp : p = pb.pack
        · subst hp; simp
        · simp [hp]
      · unfold ub; simp only [upd]
        by_cases hp : p = pb.pack
        · subst hp; simp
        · simp [hp]

theorem pass3Step_cnt_other (s : S3) (pb : PB) (b : BlobH) (hb : b ≠ pb.e.blob) :
    (pass3Step s pb).cnt b = s.cnt b := by
  unfold pass3Step
  cases hc : s.cnt pb.e.blob with
  | none => simp
  | some count =>
    simp only
    split
    · simp
    · split <;> simp [upd, hb]

/-- state of one used blob during the third pass, relative to the entries still to be visited -/
def BlobOK (idx : List PB) (s : S3) (rest : List PB) (b : BlobH) : Prop :=
  (s.cnt b = some 1 ∧ ∃ pb ∈ idx, pb.e.blob = b ∧ 1 ≤ ub s.ip pb.pack)
  ∨ (∃ c, s.cnt b = some c ∧ 2 ≤ c ∧ c ≤ occ b rest)
  ∨ (s.cnt b = some 0 ∧ 1 ≤ occ b rest)

theorem pass3Step_ok (idx : List PB) (s : S3) (pb : PB) (rest : List PB) (hmem : pb ∈ idx) (b : BlobH)
    (h : BlobOK idx s (pb :: rest) b) : BlobOK idx (pass3Step s pb) rest b := by
  by_cases hb : b = pb.e.blob
  · subst hb
    unfold BlobOK at h ⊢
    rw [occ_cons] at h
    simp only [if_true] at h
    unfold pass3Step
    cases hc : s.cnt pb.e.blob with
    | none => simp [hc] at h
    | some count =>
      simp only [hc, Option.some.injEq] at h
      simp only
      by_cases h1 : count = 1
      · subst h1
        simp only [if_true]
        rcases h with h | h | h
        · exact Or.inl ⟨hc, h.2⟩
        · obtain ⟨c, hc1, hc2, _⟩ := h; omega
        · omega
      · simp only [h1, if_false]
        split
        · -- selected
          left
          refine ⟨by simp [upd], pb, hmem, rfl, ?_⟩
          unfold ub; simp [upd]
        · rename_i hsel
          have h0 : count ≠ 0 := fun h0 => hsel (Or.inr (Or.inr h0))
          have hle : count ≤ 1 + occ pb.e.blob rest := by
            rcases h with h | h | h
            · omega
            · obtain ⟨c, hc1, _, hc3⟩ := h; omega
            · omega
          by_cases h2 : count - 1 = 1
          · right; right
            simp only [h2, if_true, upd]
            exact ⟨by simp, by omega⟩
          · right; left
            simp only [h2, if_false, upd]
            exact ⟨count - 1, by simp, by omega, by omega⟩
  · unfold BlobOK at h ⊢
    rw [occ_cons] at h
    have hb' : ¬ pb.e.blob = b := fun hc => hb hc.symm
    simp only [hb', if_false, Nat.zero_add] at h
    rw [pass3Step_cnt_other s pb b hb]
    rcases h with ⟨h1, pb', hm', hb2, hu⟩ | h | h
    · exact Or.inl ⟨h1, pb', hm', hb2, Nat.le_trans hu (pass3Step_ub s pb _)⟩
    · exact Or.inr (Or.inl h)
    · exact Or.inr (Or.inr h)

theorem pass3Fold_ok (idx : List PB) (b : BlobH) : ∀ (rest : List PB) (s : S3), (∀ pb ∈ rest, pb ∈ idx) →
    BlobOK idx s rest b → BlobOK idx (rest.foldl pass3Step s) [] b := by
  intro rest
  induction rest with
  | nil => intro s _ h; exact h
  | cons pb rest ih =>
    intro s hsub h
    simp only [List.foldl_cons]
    exact ih _ (fun x hx => hsub x (List.mem_cons_of_mem _ hx))
      (pass3Step_ok idx s pb rest (hsub pb (List.mem_cons_self ..)) b h)

theorem blobOK_nil {idx : List PB} {s : S3} {b : BlobH} (h : BlobOK idx s [] b) :
    s.cnt b = some 1 ∧ ∃ pb ∈ idx, pb.e.blob = b ∧ 1 ≤ ub s.ip pb.pack := by
  rcases h with h | h | h
  · exact h
  · obtain ⟨c, _, h2, h3⟩ := h; simp at h3; omega
  · simp at h

/-- the result of `packInfoFromIndex`: every used blob ends with counter 1 (so the sanity check
    cannot fire) and has an index entry in a pack that counts at least one used blob -/
theorem packInfo_core (used : List BlobH) (idx : List PB) (st : Stats)
    (hm : (used.any fun b => (countPass used idx).f b == some 0) = false) :
    ∀ b ∈ used, (pass23 (countPass used idx) idx st).cnt b = some 1 ∧
      ∃ pb ∈ idx, pb.e.blob = b ∧ 1 ≤ ub (pass23 (countPass used idx) idx st).ip pb.pack := by
  intro b hb
  unfold pass23
  simp only
  have hcnt0 := countPass_eq used idx b
  generalize hcntdef : (countPass used idx).f = cnt at hm hcnt0 ⊢
  generalize hs2 : idx.foldl (pass2Step cnt) { ip := ipOf (hdrSizes idx), st := st, hasDup := false } = s2
  have hm : (used.any fun b => cnt b == some 0) = false := hm
  have hcnt : cnt b = some (min (occ b idx) 255) := by
    rw [hcnt0]; simp [hb]
  have hocc : 1 ≤ occ b idx := by
    have := List.any_eq_false.mp hm b hb
    rw [hcnt] at this
    simp at this; omega
  -- initial state of the third pass
  have hinit : BlobOK idx { cnt := cnt, ip := s2.ip, st := s2.st, marks := [] } idx b := by
    by_cases h1 : occ b idx = 1
    · left
      refine ⟨by simp [hcnt, h1], ?_⟩
      obtain ⟨pb, hpb, hpbb⟩ := occ_pos hocc
      refine ⟨pb, hpb, hpbb, ?_⟩
      rw [← hs2]
      exact (pass2Fold_ub cnt idx _ pb.pack).2 ⟨pb, hpb, rfl, by rw [hpbb, hcnt, h1]; rfl⟩
    · right; left
      exact ⟨min (occ b idx) 255, hcnt, by omega, by omega⟩
  split
  · exact blobOK_nil (pass3Fold_ok idx b idx _ (fun _ h => h) hinit)
  · rename_i hd
    -- no duplicates at all: the counter of b is 1 already
    have hd' : s2.hasDup = false := by simpa using hd
    rw [← hs2, pass2Fold_hasDup cnt idx _] at hd'
    simp only [Bool.false_or] at hd'
    obtain ⟨pb, hpb, hpbb⟩ := occ_pos hocc
    have := List.any_eq_false.mp hd' pb hpb
    rw [hpbb, hcnt] at this
    simp at this
    have h1 : occ b idx = 1 := by omega
    rcases hinit with h | h | h
    · exact h
    · obtain ⟨c, hc1, hc2, _⟩ := h
      simp only [hcnt, Option.some.injEq] at hc1; omega
    · simp only [hcnt, Option.some.injEq] at h; omega

end Restic.Proofs.C09Select
