import Restic.Model.Backup
/-!
# C01 — lemmas: blob store, writing blobs at cumulative offsets, hard-link index
-/
namespace Restic.Proofs.C01
open Restic.Model.Backup

/-- two different byte strings with the same content address -/
def Collision {ID : Type} (hash : Bytes → ID) : Prop := ∃ a b : Bytes, a ≠ b ∧ hash a = hash b

/-! ### writing blobs at their offsets reconstructs the concatenation -/

theorem writeAll_inorder (blobs : List Bytes) (pre z : Bytes) (hz : z.length = blobs.flatten.length) :
    (withOffsets pre.length blobs).foldl (fun f w => writeAt f w.1 w.2) (pre ++ z) = pre ++ blobs.flatten := by
  induction blobs generalizing pre z with
  | nil =>
    simp at hz
    subst hz
    simp [withOffsets]
  | cons b bs ih =>
    simp only [withOffsets, List.foldl_cons, List.flatten_cons]
    have hw : writeAt (pre ++ z) pre.length b = (pre ++ b) ++ z.drop b.length := by
      unfold writeAt
      have h1 : List.take pre.length (pre ++ z) = pre := by simp
      have h2 : List.drop (pre.length + b.length) (pre ++ z) = z.drop b.length := by
        rw [List.drop_append]; simp
      rw [h1, h2]
    rw [hw]
    have hlen : (pre ++ b).length = pre.length + b.length := by simp
    rw [← hlen]
    have := ih (pre ++ b) (z.drop b.length) (by simp at hz ⊢; omega)
    rw [this]; simp

theorem foldl_range_take (ws : List (Nat × Bytes)) (f0 : Bytes) (n : Nat) (hn : n ≤ ws.length) :
    (List.range n).foldl (writeIdx ws) f0 = (ws.take n).foldl (fun f w => writeAt f w.1 w.2) f0 := by
  induction n with
  | zero => simp
  | succ n ih =>
    have hlt : n < ws.length := by omega
    rw [List.range_succ, List.foldl_append, ih (by omega), List.take_add_one, List.foldl_append]
    simp [writeIdx, List.getElem?_eq_getElem hlt]

/-- **offset lemma**: a file created with its final size and then written blob by blob at the
    cumulative offsets (in file order) contains exactly the concatenation of the blobs -/
theorem restore_inorder (blobs : List Bytes) :
    (List.range blobs.length).foldl (writeIdx (withOffsets 0 blobs)) (List.replicate blobs.flatten.length 0)
      = blobs.flatten := by
  have hl : (withOffsets 0 blobs).length = blobs.length := by
    generalize 0 = off
    induction blobs generalizing off with
    | nil => rfl
    | cons b bs ih => simp [withOffsets, ih]
  rw [foldl_range_take _ _ _ (by omega), ← hl, List.take_length]
  have := writeAll_inorder blobs [] (List.replicate blobs.flatten.length 0) (by simp)
  simpa using this

theorem withOffsets_length (off : Nat) (blobs : List Bytes) : (withOffsets off blobs).length = blobs.length := by
  induction blobs generalizing off with
  | nil => rfl
  | cons b bs ih => simp [withOffsets, ih]

/-! ### the blob store -/

def StoreOK {ID : Type} (hash : Bytes → ID) (s : Store ID) : Prop := ∀ p ∈ s, p.1 = hash p.2

theorem get_some_mem {ID : Type} [DecidableEq ID] (s : Store ID) (id : ID) (b : Bytes) (h : s.get id = some b) :
    (id, b) ∈ s := by
  unfold Store.get at h
  cases hf : s.find? (·.1 = id) with
  | none => rw [hf] at h; cases h
  | some p =>
    rw [hf] at h
    simp at h
    have h1 := List.find?_some hf
    have h2 := List.mem_of_find?_eq_some hf
    simp at h1
    rw [← h1, ← h]
    exact h2

theorem put_ok {ID : Type} [DecidableEq ID] (hash : Bytes → ID) (s : Store ID) (b : Bytes) (h : StoreOK hash s) :
    StoreOK hash (Store.put hash s b) := by
  unfold Store.put
  split
  · exact h
  · intro p hp
    rcases List.mem_append.mp hp with hp | hp
    · exact h p hp
    · simp at hp; rw [hp]

/-- a stored id stays readable with the same bytes (first writer wins) -/
theorem put_get_stable {ID : Type} [DecidableEq ID] (hash : Bytes → ID) (s : Store ID) (b : Bytes) (id : ID) (x : Bytes)
    (h : s.get id = some x) : (Store.put hash s b).get id = some x := by
  unfold Store.put
  split
  · exact h
  · unfold Store.get at h ⊢
    rw [List.find?_append]
    cases hf : s.find? (·.1 = id) with
    | none => rw [hf] at h; cases h
    | some p => rw [hf] at h; simpa using h

theorem put_get_self {ID : Type} [DecidableEq ID] (hash : Bytes → ID) (s : Store ID) (b : Bytes) :
    ∃ x, (Store.put hash s b).get (hash b) = some x := by
  unfold Store.put
  split
  · rename_i h
    exact Option.isSome_iff_exists.mp h
  · rename_i h
    refine ⟨b, ?_⟩
    unfold Store.get at h ⊢
    rw [List.find?_append]
    cases hf : s.find? (·.1 = hash b) with
    | some p => rw [hf] at h; simp at h
    | none => simp

theorem foldl_put_ok {ID : Type} [DecidableEq ID] (hash : Bytes → ID) (cs : List Bytes) (s : Store ID) (h : StoreOK hash s) :
    StoreOK hash (cs.foldl (Store.put hash) s) := by
  induction cs generalizing s with
  | nil => exact h
  | cons c cs ih => exact ih _ (put_ok hash s c h)

theorem foldl_put_stable {ID : Type} [DecidableEq ID] (hash : Bytes → ID) (cs : List Bytes) (s : Store ID) (id : ID) (x : Bytes)
    (h : s.get id = some x) : (cs.foldl (Store.put hash) s).get id = some x := by
  induction cs generalizing s with
  | nil => exact h
  | cons c cs ih => exact ih _ (put_get_stable hash s c id x h)

theorem foldl_put_get {ID : Type} [DecidableEq ID] (hash : Bytes → ID) (cs : List Bytes) (s : Store ID) (c : Bytes)
    (hc : c ∈ cs) : ∃ x, (cs.foldl (Store.put hash) s).get (hash c) = some x := by
  induction cs generalizing s with
  | nil => cases hc
  | cons d ds ih =>
    rcases List.mem_cons.mp hc with h | h
    · subst h
      obtain ⟨x, hx⟩ := put_get_self hash s c
      exact ⟨x, foldl_put_stable hash ds _ _ x hx⟩
    · exact ih _ h

/-- every chunk that was saved can be loaded again — with the same bytes, or there is a collision -/
theorem saved_chunk_loads {ID : Type} [DecidableEq ID] (hash : Bytes → ID) (cs : List Bytes) (c : Bytes) (hc : c ∈ cs) :
    (cs.foldl (Store.put hash) []).get (hash c) = some c ∨ Collision hash := by
  obtain ⟨x, hx⟩ := foldl_put_get hash cs [] c hc
  have hok := foldl_put_ok hash cs [] (by intro p hp; cases hp)
  have hm := get_some_mem _ _ _ hx
  have := hok _ hm
  simp at this
  by_cases hxc : x = c
  · left; rw [hx, hxc]
  · right; exact ⟨c, x, fun h => hxc h.symm, this⟩

theorem loadAll_saved {ID : Type} [DecidableEq ID] (hash : Bytes → ID) (s : Store ID) (chunks : List Bytes)
    (h : ∀ c ∈ chunks, s.get (hash c) = some c) : loadAll s (chunks.map hash) = some chunks := by
  induction chunks with
  | nil => rfl
  | cons c cs ih =>
    simp only [List.map_cons, loadAll]
    rw [h c (by simp), ih (fun d hd => h d (by simp [hd]))]


/-! ### what `backup` produces -/

def chunksOf (split : Bytes → List Bytes) (it : Item) : List Bytes :=
  if it.kind = .file then split it.content else []

def toNode {ID : Type} (hash : Bytes → ID) (split : Bytes → List Bytes) (it : Item) : Node ID :=
  if it.kind = .file then
    { path := it.path, kind := .file, md := it.md, content := (split it.content).map hash,
      size := it.content.length, target := [], device := 0, deviceID := it.dev, inode := it.ino, links := it.nlink }
  else
    { path := it.path, kind := it.kind, md := it.md, content := [], size := 0,
      target := if it.kind = .symlink then it.target else [],
      device := if it.kind = .dev ∨ it.kind = .chardev then it.rdev else 0,
      deviceID := it.dev, inode := it.ino,
      links := if it.kind = .dir ∨ it.kind = .fifo then 0 else it.nlink }

theorem backupItem_eq {ID : Type} [DecidableEq ID] (hash : Bytes → ID) (split : Bytes → List Bytes) (s : Store ID) (it : Item) :
    backupItem hash split s it =
      ((chunksOf split it).foldl (Store.put hash) s, if it.kind = .socket then none else some (toNode hash split it)) := by
  unfold backupItem chunksOf toNode
  cases hk : it.kind <;> simp

theorem backup_fold {ID : Type} [DecidableEq ID] (hash : Bytes → ID) (split : Bytes → List Bytes) (t : List Item)
    (s0 : Store ID) (ns0 : List (Node ID)) :
    t.foldl (backupStep hash split) (s0, ns0)
      = ((t.flatMap (chunksOf split)).foldl (Store.put hash) s0,
         ns0 ++ (t.filter (·.kind != .socket)).map (toNode hash split)) := by
  induction t generalizing s0 ns0 with
  | nil => simp
  | cons it rest ih =>
    simp only [List.foldl_cons, List.flatMap_cons, List.foldl_append, backupStep]
    rw [backupItem_eq]
    by_cases hk : it.kind = .socket
    · simp only [hk, if_true]
      rw [ih]
      simp [hk]
    · simp only [hk, if_false]
      rw [ih]
      simp [hk]

theorem backup_eq {ID : Type} [DecidableEq ID] (hash : Bytes → ID) (split : Bytes → List Bytes) (t : List Item) :
    backup hash split t =
      ((t.flatMap (chunksOf split)).foldl (Store.put hash) [],
       (t.filter (·.kind != .socket)).map (toNode hash split)) := by
  unfold backup
  rw [backup_fold]
  simp

/-! ### the hard-link index maps every key to the FIRST file node with that key -/

def isLinked {ID : Type} (key : Nat × Nat) (n : Node ID) : Bool :=
  n.kind = .file && decide (n.links > 1) && decide ((n.inode, n.deviceID) = key)

theorem hardlinkIndex_fold {ID : Type} (nodes : List (Node ID)) (idx0 : List ((Nat × Nat) × Path)) (key : Nat × Nat) :
    idxValue (nodes.foldl hardlinkStep idx0) key
      = (idxValue idx0 key).or ((nodes.find? (isLinked key)).map (·.path)) := by
  induction nodes generalizing idx0 with
  | nil => simp
  | cons n rest ih =>
    simp only [List.foldl_cons]
    rw [ih]
    unfold hardlinkStep
    by_cases hl : n.kind = .file ∧ n.links > 1
    · simp only [hl, and_self, if_true]
      by_cases hk : (n.inode, n.deviceID) = key
      · have hlk : isLinked key n = true := by simp [isLinked, hl.1, hl.2, hk]
        simp only [List.find?_cons, hlk]
        cases hf : idx0.find? (·.1 = (n.inode, n.deviceID)) with
        | some p =>
          simp only [Option.isSome_some, if_true]
          have : idxValue idx0 key = some p.2 := by simp [idxValue, ← hk, hf]
          simp [this]
        | none =>
          simp only [Option.isSome_none, Bool.false_eq_true, if_false]
          have h0 : idxValue idx0 key = none := by simp [idxValue, ← hk, hf]
          have h1 : idxValue (idx0 ++ [((n.inode, n.deviceID), n.path)]) key = some n.path := by
            simp [idxValue, List.find?_append, ← hk, hf]
          simp [h0, h1]
      · have hlk : isLinked key n = false := by simp [isLinked, hk]
        simp only [List.find?_cons, hlk]
        split
        · rfl
        · have : idxValue (idx0 ++ [((n.inode, n.deviceID), n.path)]) key = idxValue idx0 key := by
            simp only [idxValue, List.find?_append]
            cases idx0.find? (·.1 = key) with
            | some p => simp
            | none => simp [hk]
          rw [this]
    · have hlk : isLinked key n = false := by
        simp only [isLinked]
        by_cases h1 : n.kind = .file
        · have : ¬ n.links > 1 := fun h2 => hl ⟨h1, h2⟩
          simp [this]
        · simp [h1]
      simp only [hl, if_false, List.find?_cons, hlk]

theorem hardlinkIndex_eq {ID : Type} (nodes : List (Node ID)) (key : Nat × Nat) :
    idxValue (hardlinkIndex nodes) key = (nodes.find? (isLinked key)).map (·.path) := by
  unfold hardlinkIndex
  rw [hardlinkIndex_fold]
  simp [idxValue]

theorem mapM'_map {α β : Type} (f : α → Option β) (g : α → β) (l : List α) (h : ∀ a ∈ l, f a = some (g a)) :
    mapM' f l = some (l.map g) := by
  induction l with
  | nil => rfl
  | cons a as ih =>
    simp only [mapM', List.map_cons]
    rw [h a (by simp), ih (fun b hb => h b (by simp [hb]))]

end Restic.Proofs.C01
