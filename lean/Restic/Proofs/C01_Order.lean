import Restic.Proofs.C01_Lemmas
/-!
# C01 — the order in which the blobs of a file are written does not matter

The file restorer works pack by pack, so the blobs of one file are written in an order unrelated to
their position in the file (and a blob may be written more than once after a retry). Because every
blob is written at its own cumulative offset into a file that already has its final size, any
sequence of writes that covers every blob index yields the concatenation.
-/
namespace Restic.Proofs.C01
open Restic.Model.Backup

theorem withOffsets_getElem? (o : Nat) (blobs : List Bytes) (i : Nat) :
    (withOffsets o blobs)[i]? = blobs[i]?.map fun b => (o + ((blobs.take i).flatten).length, b) := by
  induction blobs generalizing o i with
  | nil => simp [withOffsets]
  | cons b bs ih =>
    cases i with
    | zero => simp [withOffsets]
    | succ i =>
      simp only [withOffsets, List.getElem?_cons_succ, ih, List.take_succ_cons, List.flatten_cons, List.length_append]
      cases bs[i]? with
      | none => rfl
      | some x => simp; omega

/-- the file seen as segments aligned with the blobs: writing blob `i` replaces segment `i` -/
theorem writeIdx_segments (blobs segs : List Bytes) (hl : segs.map List.length = blobs.map List.length) (i : Nat) (hi : i < blobs.length) :
    writeIdx (withOffsets 0 blobs) segs.flatten i = (segs.set i blobs[i]).flatten := by
  have hlen : segs.length = blobs.length := by simpa using congrArg List.length hl
  have his : i < segs.length := by omega
  unfold writeIdx
  rw [withOffsets_getElem?, List.getElem?_eq_getElem hi]
  simp only [Option.map_some, Nat.zero_add]
  have hpre : ((blobs.take i).flatten).length = ((segs.take i).flatten).length := by
    have : (blobs.take i).map List.length = (segs.take i).map List.length := by
      rw [List.map_take, List.map_take, hl]
    simp only [List.length_flatten, this]
  have hseg : segs[i].length = blobs[i].length := by
    have := congrArg (fun l => l[i]?) hl
    simp [List.getElem?_map, List.getElem?_eq_getElem his, List.getElem?_eq_getElem hi] at this
    exact this
  have hsplit : segs = segs.take i ++ segs[i] :: segs.drop (i + 1) := by
    rw [List.getElem_cons_drop his, List.take_append_drop]
  have hflat : segs.flatten = (segs.take i).flatten ++ (segs[i] ++ (segs.drop (i + 1)).flatten) := by
    have := congrArg List.flatten hsplit
    rw [List.flatten_append, List.flatten_cons] at this
    exact this
  unfold writeAt
  rw [hpre, hflat]
  have t1 : List.take ((segs.take i).flatten).length ((segs.take i).flatten ++ (segs[i] ++ (segs.drop (i + 1)).flatten)) = (segs.take i).flatten := by
    simp
  have t2 : List.drop (((segs.take i).flatten).length + blobs[i].length) ((segs.take i).flatten ++ (segs[i] ++ (segs.drop (i + 1)).flatten)) = (segs.drop (i + 1)).flatten := by
    rw [List.drop_append]
    simp only [Nat.add_sub_cancel_left]
    rw [List.drop_of_length_le (by omega), List.nil_append, ← hseg, List.drop_append]
    simp
  rw [t1, t2, List.set_eq_take_append_cons_drop]
  simp [his]

/-- the segments after a sequence of writes -/
def segsAfter (blobs : List Bytes) (segs : List Bytes) (order : List Nat) : List Bytes :=
  order.foldl (fun s i => match blobs[i]? with | some b => s.set i b | none => s) segs

theorem segsAfter_lengths (blobs segs : List Bytes) (hl : segs.map List.length = blobs.map List.length) (order : List Nat) :
    (segsAfter blobs segs order).map List.length = blobs.map List.length := by
  induction order generalizing segs with
  | nil => exact hl
  | cons i rest ih =>
    simp only [segsAfter, List.foldl_cons]
    apply ih
    cases hb : blobs[i]? with
    | none => exact hl
    | some b =>
      simp only
      rw [List.map_set, ← hl]
      have hi : i < blobs.length := (List.getElem?_eq_some_iff.mp hb).1
      have hbi : blobs[i] = b := (List.getElem?_eq_some_iff.mp hb).2
      have : (segs.map List.length)[i]? = some b.length := by
        rw [hl, List.getElem?_map, hb]; rfl
      apply List.ext_getElem?
      intro j
      rw [List.getElem?_set]
      split
      · rename_i hij; subst hij
        split
        · exact this.symm
        · rename_i hlt; rw [List.getElem?_eq_none (by omega)] at this; cases this
      · rfl

theorem fold_writes_segments (blobs segs : List Bytes) (hl : segs.map List.length = blobs.map List.length) (order : List Nat) :
    order.foldl (writeIdx (withOffsets 0 blobs)) segs.flatten = (segsAfter blobs segs order).flatten := by
  induction order generalizing segs with
  | nil => rfl
  | cons i rest ih =>
    simp only [List.foldl_cons, segsAfter]
    cases hb : blobs[i]? with
    | none =>
      have : writeIdx (withOffsets 0 blobs) segs.flatten i = segs.flatten := by
        unfold writeIdx; rw [withOffsets_getElem?, hb]; rfl
      rw [this]
      exact ih segs hl
    | some b =>
      have hi : i < blobs.length := (List.getElem?_eq_some_iff.mp hb).1
      have hbi : blobs[i] = b := (List.getElem?_eq_some_iff.mp hb).2
      rw [writeIdx_segments blobs segs hl i hi, hbi]
      have hl' : (segs.set i b).map List.length = blobs.map List.length := by
        have := segsAfter_lengths blobs segs hl [i]
        simpa [segsAfter, hb] using this
      exact ih (segs.set i b) hl'

theorem segsAfter_getElem? (blobs segs : List Bytes) (hlen : segs.length = blobs.length) (order : List Nat) (j : Nat) :
    (segsAfter blobs segs order)[j]? = if j ∈ order then blobs[j]? else segs[j]? := by
  induction order generalizing segs with
  | nil => simp [segsAfter]
  | cons i rest ih =>
    simp only [segsAfter, List.foldl_cons]
    cases hb : blobs[i]? with
    | none =>
      have := ih segs hlen
      simp only [segsAfter] at this
      rw [this]
      by_cases hj : j ∈ rest
      · simp [hj]
      · by_cases hji : j = i
        · subst hji
          have hn : segs[j]? = none := by
            rw [List.getElem?_eq_none]; rw [List.getElem?_eq_none_iff] at hb; omega
          simp [hj, hb, hn]
        · simp [hj, hji]
    | some b =>
      have hi : i < blobs.length := (List.getElem?_eq_some_iff.mp hb).1
      have := ih (segs.set i b) (by simp [hlen])
      simp only [segsAfter] at this
      rw [this]
      by_cases hj : j ∈ rest
      · simp [hj]
      · by_cases hji : j = i
        · subst hji
          have hbj : b = blobs[j] := (List.getElem?_eq_some_iff.mp hb).2.symm
          have hjs : j < segs.length := by omega
          simp only [hj, if_false, List.mem_cons, true_or, if_true]
          rw [List.getElem?_set_self hjs, hb]
        · have : i ≠ j := fun h => hji h.symm
          simp [hj, hji, List.getElem?_set, this]

/-- **Order independence**: any sequence of blob writes that covers every blob of the file —
    in any order, with repetitions, with out-of-range indices ignored — leaves the concatenation. -/
theorem restore_anyorder (blobs : List Bytes) (order : List Nat) (hcover : ∀ i, i < blobs.length → i ∈ order) :
    order.foldl (writeIdx (withOffsets 0 blobs)) (List.replicate blobs.flatten.length 0) = blobs.flatten := by
  have hl : (blobs.map fun b => List.replicate b.length (0 : UInt8)).map List.length = blobs.map List.length := by
    simp [List.map_map, Function.comp_def]
  have hflat : (blobs.map fun b => List.replicate b.length (0 : UInt8)).flatten = List.replicate blobs.flatten.length 0 := by
    clear hcover hl
    induction blobs with
    | nil => rfl
    | cons b bs ih =>
      simp only [List.map_cons, List.flatten_cons, List.length_append]
      rw [ih, List.replicate_append_replicate]
  rw [← hflat, fold_writes_segments _ _ hl]
  congr 1
  apply List.ext_getElem?
  intro j
  rw [segsAfter_getElem? _ _ (by simp)]
  by_cases hj : j < blobs.length
  · simp [hcover j hj]
  · have h1 : blobs[j]? = none := List.getElem?_eq_none (by omega)
    have h2 : (blobs.map fun b => List.replicate b.length (0 : UInt8))[j]? = none := List.getElem?_eq_none (by simp; omega)
    split <;> simp [h1, h2]

end Restic.Proofs.C01
