import Restic.Props.C28
import Restic.Model.Select
/-!
# Selection by pattern lists (`listOn`, used by C20 and C27) in terms of the C28 theorems

For validated pattern lists: `listOn` returns the documented fold; its "matched" answer is upward
closed (no negated patterns), "children may match" is sound, and matched implies children-may-match.
-/
namespace Restic.Proofs.Select
open Restic.Model.Filter Restic.Model.Select Restic.Proofs.C28 Restic.Props.C28

/-- the lists of a command are validated (`CollectPatterns` → `ValidatePatterns`) -/
def ValidLists (glob : Glob) (lists : List PatList) : Prop := ∀ l ∈ lists, ValidPats glob l.pats

def NoNeg (lists : List PatList) : Prop := ∀ l ∈ lists, ∀ p ∈ l.pats, p.negated = false

/-- components after the optional lower-casing -/
def compsOf (l : PatList) (names : List Str) : List Str :=
  if l.insensitive then (itemComps names).map lowerStr else itemComps names

theorem itemComps_append (names ext : List Str) (h : names ≠ []) :
    itemComps (names ++ ext) = itemComps names ++ ext := by
  unfold itemComps
  have h2 : names ++ ext ≠ [] := by
    intro h'; exact h (List.append_eq_nil_iff.mp h').1
  rw [if_neg h, if_neg h2]; rfl

theorem compsOf_append (l : PatList) (names ext : List Str) (h : names ≠ []) :
    ∃ ext', compsOf l (names ++ ext) = compsOf l names ++ ext' := by
  unfold compsOf
  rw [itemComps_append names ext h]
  by_cases hi : l.insensitive = true
  · rw [if_pos hi, if_pos hi]
    exact ⟨ext.map lowerStr, by simp⟩
  · rw [if_neg hi, if_neg hi]
    exact ⟨ext, rfl⟩

theorem compsOf_ne_nil (l : PatList) (names : List Str) : compsOf l names ≠ [] := by
  unfold compsOf itemComps
  split <;> split <;> simp

theorem listOn_valid (glob : Glob) (l : PatList) (hv : ValidPats glob l.pats) (cc : Bool)
    (names : List Str) :
    listOn glob l cc names =
      if l.pats.length = 0 then (false, false)
      else (specList glob l.pats (compsOf l names), specListChild glob cc l.pats (compsOf l names)) := by
  unfold listOn
  by_cases h0 : l.pats.length = 0
  · simp only [h0, if_true]
  · simp only [h0, if_false]
    have := list_spec glob l.pats hv cc (compsOf l names)
    unfold compsOf at this
    rw [this]
    rfl

theorem listOn_upward (glob : Glob) (l : PatList) (hv : ValidPats glob l.pats)
    (hn : ∀ p ∈ l.pats, p.negated = false) (cc : Bool) (names ext : List Str) (hne : names ≠ [])
    (h : (listOn glob l cc names).1 = true) : (listOn glob l cc (names ++ ext)).1 = true := by
  rw [listOn_valid glob l hv] at h ⊢
  by_cases h0 : l.pats.length = 0
  · simp [h0] at h
  · simp only [h0, if_false] at h ⊢
    rcases compsOf_append l names ext hne with ⟨ext', he⟩
    rw [he]
    exact list_upward glob l.pats hn _ ext' (compsOf_ne_nil l names) h

theorem listOn_child_sound (glob : Glob) (l : PatList) (hv : ValidPats glob l.pats)
    (names ext : List Str) (hne : names ≠ [])
    (h : (listOn glob l true (names ++ ext)).1 = true) : (listOn glob l true names).2 = true := by
  rw [listOn_valid glob l hv] at h ⊢
  by_cases h0 : l.pats.length = 0
  · simp [h0] at h
  · simp only [h0, if_false] at h ⊢
    rcases compsOf_append l names ext hne with ⟨ext', he⟩
    rw [he] at h
    exact list_child_sound glob l.pats hv _ ext' (compsOf_ne_nil l names) h

theorem listOn_matched_child (glob : Glob) (l : PatList) (hv : ValidPats glob l.pats)
    (names : List Str) (h : (listOn glob l true names).1 = true) : (listOn glob l true names).2 = true := by
  rw [listOn_valid glob l hv] at h ⊢
  by_cases h0 : l.pats.length = 0
  · simp [h0] at h
  · simp only [h0, if_false] at h ⊢
    exact list_matched_child glob l.pats hv _ h

/-- `List` and `ListWithChild` agree on the matched answer -/
theorem listOn_fst_cc (glob : Glob) (l : PatList) (hv : ValidPats glob l.pats) (names : List Str) :
    (listOn glob l true names).1 = (listOn glob l false names).1 := by
  rw [listOn_valid glob l hv, listOn_valid glob l hv]
  split <;> rfl

/-! ### the selection functions of rewrite -/

theorem exSelect_eq (glob : Glob) (lists : List PatList) (names : List Str) :
    exSelect glob lists names = !(lists.any fun l => (listOn glob l false names).1) := by
  induction lists with
  | nil => rfl
  | cons l ls ih =>
    simp only [exSelect, List.any_cons]
    cases h : (listOn glob l false names).1 <;> simp [ih]

theorem inSelect_file_eq (glob : Glob) (lists : List PatList) (names : List Str) :
    inSelect glob lists names false = lists.any fun l => (listOn glob l true names).1 := by
  induction lists with
  | nil => rfl
  | cons l ls ih =>
    simp only [inSelect, List.any_cons, Bool.false_eq_true, if_false]
    cases h : (listOn glob l true names).1 <;> simp [ih]

theorem inSelect_dir_eq (glob : Glob) (lists : List PatList) (names : List Str) :
    inSelect glob lists names true =
      lists.any fun l => (listOn glob l true names).1 || (listOn glob l true names).2 := by
  induction lists with
  | nil => rfl
  | cons l ls ih =>
    simp only [inSelect, List.any_cons, if_true]
    cases h : ((listOn glob l true names).1 || (listOn glob l true names).2) <;> simp [ih]

theorem inSelectDir_eq (glob : Glob) (lists : List PatList) (names : List Str) :
    inSelectDir glob lists names = lists.any fun l => (listOn glob l true names).1 := by
  induction lists with
  | nil => rfl
  | cons l ls ih =>
    simp only [inSelectDir, List.any_cons]
    cases h : (listOn glob l true names).1 <;> simp [ih]

/-- exclusion is inherited by everything below an excluded item (no negated patterns) -/
theorem exSelect_upward (glob : Glob) (lists : List PatList) (hv : ValidLists glob lists)
    (hn : NoNeg lists) (names ext : List Str) (hne : names ≠ [])
    (h : exSelect glob lists names = false) : exSelect glob lists (names ++ ext) = false := by
  rw [exSelect_eq] at h ⊢
  simp only [Bool.not_eq_eq_eq_not, Bool.not_false, List.any_eq_true] at h ⊢
  rcases h with ⟨l, hl, hm⟩
  exact ⟨l, hl, listOn_upward glob l (hv l hl) (hn l hl) false names ext hne hm⟩

/-- pruning by `inSelect` on directories loses nothing: a selected item below `names` forces the
    directory `names` to be kept by `RewriteNode` -/
theorem inSelect_child_sound (glob : Glob) (lists : List PatList) (hv : ValidLists glob lists)
    (names ext : List Str) (hne : names ≠ [])
    (h : inSelect glob lists (names ++ ext) false = true) : inSelect glob lists names true = true := by
  rw [inSelect_file_eq] at h
  rw [inSelect_dir_eq]
  simp only [List.any_eq_true, Bool.or_eq_true] at h ⊢
  rcases h with ⟨l, hl, hm⟩
  exact ⟨l, hl, Or.inr (listOn_child_sound glob l (hv l hl) names ext hne hm)⟩

end Restic.Proofs.Select

namespace Restic.Proofs.Select
open Restic.Model.Filter Restic.Model.Select Restic.Proofs.C28 Restic.Props.C28

/-! ### the selection functions of restore -/

/-- the `break` in `selectIncludeFilter` does not change the answer -/
theorem selectIncludeLoop_eq (glob : Glob) (names : List Str) :
    ∀ (lists : List PatList) (s c : Bool),
      selectIncludeLoop glob names lists s c =
        (s || lists.any (fun l => (listOn glob l true names).1),
         c || lists.any (fun l => (listOn glob l true names).2)) := by
  intro lists
  induction lists with
  | nil => intro s c; simp [selectIncludeLoop]
  | cons l ls ih =>
    intro s c
    unfold selectIncludeLoop
    simp only [List.any_cons]
    by_cases hb : ((s || (listOn glob l true names).1) && (c || (listOn glob l true names).2)) = true
    · rw [if_pos hb]
      simp only [Bool.and_eq_true] at hb
      rw [← Bool.or_assoc, ← Bool.or_assoc, hb.1, hb.2]; simp
    · rw [if_neg hb, ih]
      simp [Bool.or_assoc]

theorem selectInclude_eq (glob : Glob) (lists : List PatList) (names : List Str) (isDir : Bool) :
    selectInclude glob lists names isDir =
      (lists.any (fun l => (listOn glob l true names).1),
       lists.any (fun l => (listOn glob l true names).2) && isDir) := by
  unfold selectInclude
  rw [selectIncludeLoop_eq]; simp

theorem selectInclude_child_sound (glob : Glob) (lists : List PatList) (hv : ValidLists glob lists)
    (names ext : List Str) (hne : names ≠ []) (d : Bool)
    (h : (selectInclude glob lists (names ++ ext) d).1 = true) :
    (selectInclude glob lists names true).2 = true := by
  rw [selectInclude_eq] at h ⊢
  simp only [List.any_eq_true, Bool.and_true] at h ⊢
  rcases h with ⟨l, hl, hm⟩
  exact ⟨l, hl, listOn_child_sound glob l (hv l hl) names ext hne hm⟩

/-- a directory selected by include patterns is always traversed -/
theorem selectInclude_matched_child (glob : Glob) (lists : List PatList) (hv : ValidLists glob lists)
    (names : List Str) (h : (selectInclude glob lists names true).1 = true) :
    (selectInclude glob lists names true).2 = true := by
  rw [selectInclude_eq] at h ⊢
  simp only [List.any_eq_true, Bool.and_true] at h ⊢
  rcases h with ⟨l, hl, hm⟩
  exact ⟨l, hl, listOn_matched_child glob l (hv l hl) names hm⟩

end Restic.Proofs.Select
