import Restic.Model.FileRestore
import Restic.Proofs.C19_File
/-!
Pointwise reading of the file operations and of a sequence of blob writes delivered in any
order (helper lemmas for `Props/C19.lean`).
-/
namespace Restic.Model.FileRestore

namespace File

@[simp] theorem read_empty (i : Nat) : File.empty.read i = 0 := by simp [read, empty]
@[simp] theorem len_empty : File.empty.len = 0 := rfl
@[simp] theorem len_truncate (f : File) (n : Nat) : (f.truncate n).len = n := rfl
@[simp] theorem len_preallocate (f : File) (n : Nat) : (f.preallocate n).len = max f.len n := rfl

theorem read_truncate (f : File) (n i : Nat) : (f.truncate n).read i = if i < n then f.read i else 0 := by
  unfold truncate read
  rfl

theorem read_preallocate (f : File) (n i : Nat) : (f.preallocate n).read i = f.read i := by
  simp only [preallocate, read]
  by_cases h1 : i < f.len
  · have : i < max f.len n := by omega
    simp [h1, this]
  · simp [h1]

theorem read_ge (f : File) {i : Nat} (h : f.len ≤ i) : f.read i = 0 := by
  simp [read]; omega

theorem toArray_getD (p : Bytes) (j : Nat) : p.toArray.getD j 0 = p.getD j 0 := by
  simp [Array.getD, List.getD_eq_getElem?_getD]
  split <;> rename_i h
  · simp [h]
  · simp at h; simp [h]

theorem len_writeAt (f : File) (off : Nat) (p : Bytes) :
    (f.writeAt off p).len = if p.isEmpty then f.len else max f.len (off + p.length) := by
  unfold writeAt
  split <;> rfl

theorem read_writeAt (f : File) (off : Nat) (p : Bytes) (i : Nat) :
    (f.writeAt off p).read i =
      if off ≤ i ∧ i < off + p.length then p.getD (i - off) 0 else f.read i := by
  unfold writeAt
  by_cases hp : p.isEmpty
  · have : p.length = 0 := by simpa using hp
    simp only [hp, if_true]
    rw [if_neg (by omega)]
  · simp only [hp, Bool.false_eq_true, if_false]
    simp only [read, toArray_getD]
    by_cases hin : off ≤ i ∧ i < off + p.length
    · have : i < max f.len (off + p.length) := by omega
      simp [hin, this]
    · simp only [hin, if_false]
      by_cases h1 : i < f.len
      · have : i < max f.len (off + p.length) := by omega
        simp [h1, this]
      · simp [h1]

/-- a file whose length and bytes are those of `b` -/
theorem toBytes_eq_iff_read (f : File) (b : Bytes) (hl : f.len = b.length)
    (hr : ∀ i, i < f.len → f.read i = b.getD i 0) : f.toBytes = b :=
  toBytes_eq_of_read hl (fun i hi => by rw [← read_of_lt f hi]; exact hr i hi)

theorem seg_eq_of_read (f : File) (off : Nat) (d : Bytes) (hlen : off + d.length ≤ f.len)
    (hr : ∀ i, off ≤ i → i < off + d.length → f.read i = d.getD (i - off) 0) :
    f.seg off d.length = d := by
  apply List.ext_getElem
  · simp [seg]
  · intro j h1 h2
    simp only [seg, List.getElem_map, List.getElem_range]
    have hj : j < d.length := h2
    have := hr (off + j) (by omega) (by omega)
    rw [read_of_lt f (by omega)] at this
    rw [this]
    simp [List.getD_eq_getElem?_getD, hj]

theorem read_of_seg (f : File) (off : Nat) (d : Bytes) (hlen : off + d.length ≤ f.len)
    (hs : f.seg off d.length = d) (i : Nat) (h1 : off ≤ i) (h2 : i < off + d.length) :
    f.read i = d.getD (i - off) 0 := by
  rw [read_of_lt f (by omega)]
  have hj : i - off < d.length := by omega
  have : (f.seg off d.length)[i - off]'(by simp [seg]; exact hj) = d[i - off] := by
    simp only [hs]
  simp only [seg, List.getElem_map, List.getElem_range] at this
  have e : off + (i - off) = i := by omega
  rw [e] at this
  rw [this]
  simp [List.getD_eq_getElem?_getD, hj]

end File

/-! ## zero prefix -/

theorem zeroPrefixLen_le (p : Bytes) : zeroPrefixLen p ≤ p.length := by
  unfold zeroPrefixLen
  induction p with
  | nil => simp
  | cons b rest ih =>
    rw [List.takeWhile_cons]
    split
    · simp only [List.length_cons]; omega
    · simp

theorem zeroPrefixLen_zero (p : Bytes) (j : Nat) (h : j < zeroPrefixLen p) : p.getD j 0 = 0 := by
  induction p generalizing j with
  | nil => simp [zeroPrefixLen] at h
  | cons b rest ih =>
    unfold zeroPrefixLen at h
    rw [List.takeWhile_cons] at h
    by_cases hb : (b == 0) = true
    · simp only [hb, if_true, List.length_cons] at h
      cases j with
      | zero => simpa using hb
      | succ j =>
        have : j < zeroPrefixLen rest := by unfold zeroPrefixLen; omega
        simpa using ih j this
    · simp [hb] at h

theorem getD_drop (p : Bytes) (k j : Nat) : (p.drop k).getD j 0 = p.getD (k + j) 0 := by
  simp [List.getD_eq_getElem?_getD]

/-! ## one write -/

variable {ID : Type}

/-- position `i` lies in the blob's range -/
def InRange (w : Write ID) (i : Nat) : Prop := w.off ≤ i ∧ i < w.off + w.data.length

theorem read_pwrite_out (sp : Bool) (f : File) (w : Write ID) (i : Nat) (h : ¬InRange w i) :
    (pwrite sp f w).read i = f.read i := by
  unfold InRange at h
  unfold pwrite
  cases sp with
  | false =>
    simp only [Bool.not_false, if_true]
    rw [File.read_writeAt, if_neg h]
  | true =>
    simp only [Bool.not_true, Bool.false_eq_true, if_false]
    rw [File.read_writeAt]
    have := zeroPrefixLen_le w.data
    rw [if_neg]
    simp only [List.length_drop]
    omega

theorem read_pwrite_in (sp : Bool) (f : File) (w : Write ID) (i : Nat) (h : InRange w i)
    (hz : sp = true → f.read i = 0 ∨ f.read i = w.data.getD (i - w.off) 0) :
    (pwrite sp f w).read i = w.data.getD (i - w.off) 0 := by
  unfold InRange at h
  unfold pwrite
  cases sp with
  | false =>
    simp only [Bool.not_false, if_true]
    rw [File.read_writeAt, if_pos h]
  | true =>
    simp only [Bool.not_true, Bool.false_eq_true, if_false]
    rw [File.read_writeAt]
    have hk := zeroPrefixLen_le w.data
    by_cases hs : w.off + zeroPrefixLen w.data ≤ i
    · rw [if_pos (by simp only [List.length_drop]; omega), getD_drop]
      congr 1
      omega
    · rw [if_neg (by omega)]
      have hzero := zeroPrefixLen_zero w.data (i - w.off) (by omega)
      rcases hz rfl with h0 | h0
      · rw [h0, hzero]
      · exact h0

theorem len_pwrite_ge (sp : Bool) (f : File) (w : Write ID) : f.len ≤ (pwrite sp f w).len := by
  unfold pwrite
  cases sp <;> simp only [Bool.not_false, Bool.not_true, Bool.false_eq_true, if_true, if_false] <;>
    rw [File.len_writeAt] <;> split <;> omega

theorem len_pwrite_le (sp : Bool) (f : File) (w : Write ID) (n : Nat)
    (h1 : w.off + w.data.length ≤ n) (h2 : f.len ≤ n) : (pwrite sp f w).len ≤ n := by
  unfold pwrite
  have hk := zeroPrefixLen_le w.data
  cases sp with
  | false =>
    simp only [Bool.not_false, if_true]
    rw [File.len_writeAt]
    split <;> omega
  | true =>
    simp only [Bool.not_true, Bool.false_eq_true, if_false]
    rw [File.len_writeAt]
    split
    · omega
    · simp only [List.length_drop]; omega

theorem len_pwrite_end (f : File) (w : Write ID) (h : w.data ≠ []) :
    w.off + w.data.length ≤ (pwrite false f w).len := by
  unfold pwrite
  simp only [Bool.not_false, if_true]
  rw [File.len_writeAt]
  have : w.data.isEmpty = false := by
    cases hd : w.data with
    | nil => exact absurd hd h
    | cons => rfl
  simp [this]
  omega

/-! ## a sequence of writes, in any order -/

theorem read_foldl_out (sp : Bool) (ws : List (Write ID)) (f : File) (i : Nat)
    (h : ∀ w ∈ ws, ¬InRange w i) : (ws.foldl (pwrite sp) f).read i = f.read i := by
  induction ws generalizing f with
  | nil => rfl
  | cons w rest ih =>
    rw [List.foldl_cons, ih _ (fun x hx => h x (List.mem_cons_of_mem _ hx)),
      read_pwrite_out sp f w i (h w List.mem_cons_self)]

/-- ranges of different writes of the list do not overlap -/
def Disj (ws : List (Write ID)) : Prop :=
  ∀ w1 ∈ ws, ∀ w2 ∈ ws, ∀ i, InRange w1 i → InRange w2 i → w1 = w2

theorem read_foldl_in (sp : Bool) (ws : List (Write ID)) (hd : Disj ws) (f : File) (w : Write ID)
    (hw : w ∈ ws) (i : Nat) (hin : InRange w i)
    (hz : sp = true → f.read i = 0 ∨ f.read i = w.data.getD (i - w.off) 0) :
    (ws.foldl (pwrite sp) f).read i = w.data.getD (i - w.off) 0 := by
  induction ws generalizing f with
  | nil => cases hw
  | cons w0 rest ih =>
    rw [List.foldl_cons]
    have hd' : Disj rest := fun a ha b hb => hd a (List.mem_cons_of_mem _ ha) b (List.mem_cons_of_mem _ hb)
    -- what the first write leaves at position i
    have hfirst : (pwrite sp f w0).read i = w.data.getD (i - w.off) 0 ∨
        (pwrite sp f w0).read i = f.read i := by
      by_cases h0 : InRange w0 i
      · have : w0 = w := hd w0 List.mem_cons_self w hw i h0 hin
        subst this
        exact Or.inl (read_pwrite_in sp f w0 i hin hz)
      · exact Or.inr (read_pwrite_out sp f w0 i h0)
    by_cases hr : w ∈ rest
    · apply ih hd' _ hr
      intro hsp
      rcases hfirst with h1 | h1
      · exact Or.inr h1
      · rw [h1]; exact hz hsp
    · have hw0 : w = w0 := by
        rcases List.mem_cons.mp hw with h | h
        · exact h
        · exact absurd h hr
      subst hw0
      rw [read_foldl_out sp rest _ i]
      · exact read_pwrite_in sp f w i hin hz
      · intro x hx hxin
        have : x = w := hd x (List.mem_cons_of_mem _ hx) w List.mem_cons_self i hxin hin
        exact hr (this ▸ hx)

theorem len_foldl_ge (sp : Bool) (ws : List (Write ID)) (f : File) : f.len ≤ (ws.foldl (pwrite sp) f).len := by
  induction ws generalizing f with
  | nil => exact Nat.le_refl _
  | cons w rest ih =>
    rw [List.foldl_cons]
    exact Nat.le_trans (len_pwrite_ge sp f w) (ih _)

theorem len_foldl_le (sp : Bool) (ws : List (Write ID)) (f : File) (n : Nat)
    (h1 : ∀ w ∈ ws, w.off + w.data.length ≤ n) (h2 : f.len ≤ n) : (ws.foldl (pwrite sp) f).len ≤ n := by
  induction ws generalizing f with
  | nil => exact h2
  | cons w rest ih =>
    rw [List.foldl_cons]
    exact ih _ (fun x hx => h1 x (List.mem_cons_of_mem _ hx))
      (len_pwrite_le sp f w n (h1 w List.mem_cons_self) h2)

theorem len_foldl_end (ws : List (Write ID)) (f : File) (w : Write ID) (hw : w ∈ ws) (hne : w.data ≠ []) :
    w.off + w.data.length ≤ (ws.foldl (pwrite false) f).len := by
  induction ws generalizing f with
  | nil => cases hw
  | cons w0 rest ih =>
    rw [List.foldl_cons]
    rcases List.mem_cons.mp hw with h | h
    · subst h
      exact Nat.le_trans (len_pwrite_end f w hne) (len_foldl_ge false rest _)
    · exact ih _ h

/-! ## the layout of the blobs of a file -/

theorem blobWrites_off_ge (bs : List (Blob ID)) (k off : Nat) :
    ∀ w ∈ blobWrites bs k off, off ≤ w.off ∧ w.off + w.data.length ≤ off + totalLen bs := by
  induction bs generalizing k off with
  | nil => intro w hw; cases hw
  | cons b rest ih =>
    intro w hw
    simp only [blobWrites, List.mem_cons] at hw
    rw [totalLen]
    rcases hw with h | h
    · subst h; simp
    · have := ih (k + 1) (off + b.data.length) w h
      omega

theorem blobWrites_idx_ge (bs : List (Blob ID)) (k off : Nat) :
    ∀ w ∈ blobWrites bs k off, k ≤ w.idx := by
  induction bs generalizing k off with
  | nil => intro w hw; cases hw
  | cons b rest ih =>
    intro w hw
    simp only [blobWrites, List.mem_cons] at hw
    rcases hw with h | h
    · subst h; simp
    · have := ih (k + 1) (off + b.data.length) w h
      omega

theorem blobWrites_disj (bs : List (Blob ID)) (k off : Nat) : Disj (blobWrites bs k off) := by
  induction bs generalizing k off with
  | nil => intro w1 h1; cases h1
  | cons b rest ih =>
    intro w1 h1 w2 h2 i hi1 hi2
    simp only [blobWrites, List.mem_cons] at h1 h2
    unfold InRange at hi1 hi2
    rcases h1 with h1 | h1 <;> rcases h2 with h2 | h2
    · rw [h1, h2]
    · have := (blobWrites_off_ge rest (k + 1) (off + b.data.length) w2 h2).1
      subst h1; simp at hi1; omega
    · have := (blobWrites_off_ge rest (k + 1) (off + b.data.length) w1 h1).1
      subst h2; simp at hi2; omega
    · exact ih (k + 1) (off + b.data.length) w1 h1 w2 h2 i hi1 hi2

/-- the last non-empty blob ends at the end of the file -/
theorem blobWrites_last (bs : List (Blob ID)) (k off : Nat) (h : 0 < totalLen bs) :
    ∃ w ∈ blobWrites bs k off, w.data ≠ [] ∧ w.off + w.data.length = off + totalLen bs := by
  induction bs generalizing k off with
  | nil => simp [totalLen] at h
  | cons b rest ih =>
    rw [totalLen] at h ⊢
    by_cases hr : 0 < totalLen rest
    · obtain ⟨w, hw, hne, hend⟩ := ih (k + 1) (off + b.data.length) hr
      exact ⟨w, by simp only [blobWrites, List.mem_cons]; exact Or.inr hw, hne, by omega⟩
    · refine ⟨⟨k, off, b.id, b.data⟩, by simp [blobWrites], ?_, ?_⟩
      · intro he
        simp only at he
        rw [he] at h
        simp only [List.length_nil] at h
        omega
      · simp only
        omega

/-- if every blob's segment of `f` is the blob, `f` carries the concatenation from `off` on -/
theorem seg_eq_concat_of_writes (f : File) (bs : List (Blob ID)) (k off : Nat)
    (h : ∀ w ∈ blobWrites bs k off, f.seg w.off w.data.length = w.data) :
    f.seg off (totalLen bs) = concat bs := by
  induction bs generalizing k off with
  | nil => simp [totalLen, concat, File.seg]
  | cons b rest ih =>
    rw [totalLen, File.seg_append, concat_cons]
    have h1 := h ⟨k, off, b.id, b.data⟩ (by simp [blobWrites])
    simp only at h1
    rw [h1, ih (k + 1) (off + b.data.length) (fun w hw => h w (by simp only [blobWrites, List.mem_cons]; exact Or.inr hw))]

end Restic.Model.FileRestore
