import Restic.Model.FileRestore
/-!
Helper lemmas about the `File` model (pointwise reading of ftruncate / pwrite / fallocate),
segments and `verifyBlobs`. Used by `Props/C19.lean` and `Props/C21.lean`.
-/
namespace Restic.Model.FileRestore

/-- two different byte strings with the same hash -/
def Collision {ID : Type} (hash : Bytes → ID) : Prop := ∃ a b : Bytes, a ≠ b ∧ hash a = hash b

/-- the node is what a repository serves: every blob id is the hash of its plaintext and the
    recorded size is the sum of the blob lengths -/
structure WF {ID : Type} (hash : Bytes → ID) (node : FNode ID) : Prop where
  ids : ∀ b ∈ node.content, b.id = hash b.data
  size : node.size = totalLen node.content

namespace File

theorem seg_length (f : File) (off n : Nat) : (f.seg off n).length = n := by
  simp [seg]

theorem seg_append (f : File) (off n m : Nat) :
    f.seg off (n + m) = f.seg off n ++ f.seg (off + n) m := by
  apply List.ext_getElem
  · simp [seg]
  · intro i h1 h2
    simp only [seg, List.length_map, List.length_range] at h1
    by_cases hi : i < n
    · rw [List.getElem_append_left (by simp [seg]; exact hi)]
      simp [seg]
    · rw [List.getElem_append_right (by simp [seg]; omega)]
      simp [seg]
      congr 1
      omega

theorem toBytes_eq_seg (f : File) : f.toBytes = f.seg 0 f.len := by
  simp [toBytes, seg]

theorem toBytes_length (f : File) : f.toBytes.length = f.len := by
  simp [toBytes]

theorem toBytes_getElem? (f : File) (i : Nat) (h : i < f.len) : f.toBytes[i]? = some (f.byte i) := by
  simp [toBytes, h]

theorem read_of_lt (f : File) {i : Nat} (h : i < f.len) : f.read i = f.byte i := by
  simp [read, h]

/-- two files with the same length and the same bytes below it have the same content -/
theorem toBytes_congr {f g : File} (hl : f.len = g.len) (hb : ∀ i, i < f.len → f.byte i = g.byte i) :
    f.toBytes = g.toBytes := by
  apply List.ext_getElem
  · simp [toBytes, hl]
  · intro i h1 h2
    simp only [toBytes, List.length_map, List.length_range] at h1
    simp [toBytes, hb i h1]

theorem toBytes_eq_of_read {f : File} {b : Bytes} (hl : f.len = b.length)
    (hb : ∀ i, i < f.len → f.byte i = b.getD i 0) : f.toBytes = b := by
  apply List.ext_getElem
  · simp [toBytes, hl]
  · intro i h1 h2
    simp only [toBytes, List.length_map, List.length_range] at h1
    have := hb i h1
    simp [toBytes, this, List.getD_eq_getElem?_getD, h2]

end File

theorem concat_length {ID : Type} (bs : List (Blob ID)) : (concat bs).length = totalLen bs := by
  induction bs with
  | nil => simp [concat, totalLen]
  | cons b rest ih =>
    simp only [concat, List.flatMap_cons, List.length_append, totalLen] at *
    omega

theorem concat_cons {ID : Type} (b : Blob ID) (rest : List (Blob ID)) :
    concat (b :: rest) = b.data ++ concat rest := by
  simp [concat]

variable {ID : Type} [DecidableEq ID]

/-- every blob's segment of `f` (starting at `off`) hashes to the blob id, and is inside `f`
    (empty blobs are never read) -/
def SegsMatch (hash : Bytes → ID) (f : File) : List (Blob ID) → Nat → Prop
  | [], _ => True
  | b :: rest, off =>
    (b.data.length = 0 ∨ off + b.data.length ≤ f.len) ∧ b.id = hash (f.seg off b.data.length) ∧
    SegsMatch hash f rest (off + b.data.length)

/-- with `failFast`, the blob loop succeeds exactly when every segment matches -/
theorem verifyBlobs_failFast_ok_iff (hash : Bytes → ID) (f : File) (bs : List (Blob ID)) (off : Nat) :
    (∃ r, verifyBlobs hash true f bs off = .ok r) ↔ SegsMatch hash f bs off := by
  induction bs generalizing off with
  | nil => simp [verifyBlobs, SegsMatch]
  | cons b rest ih =>
    simp only [verifyBlobs, SegsMatch]
    by_cases hEof : b.data.length ≠ 0 ∧ f.len < off + b.data.length
    · rw [if_pos hEof]
      constructor
      · rintro ⟨r, hr⟩; simp at hr
      · rintro ⟨h1, _⟩; omega
    · rw [if_neg hEof]
      have hb : b.data.length = 0 ∨ off + b.data.length ≤ f.len := by omega
      by_cases hm : b.id = hash (f.seg off b.data.length)
      · have hd : (true && !decide (b.id = hash (f.seg off b.data.length))) = false := by simp [hm]
        rw [hd, ← ih (off + b.data.length)]
        constructor
        · rintro ⟨r, hr⟩
          refine ⟨hb, hm, ?_⟩
          cases hv : verifyBlobs hash true f rest (off + b.data.length) with
          | ok v => exact ⟨v, rfl⟩
          | error e => rw [hv] at hr; simp at hr
        · rintro ⟨_, _, ⟨v, hv⟩⟩
          rw [hv]
          exact ⟨_, rfl⟩
      · have hd : (true && !decide (b.id = hash (f.seg off b.data.length))) = true := by simp [hm]
        rw [hd]
        constructor
        · rintro ⟨r, hr⟩; simp at hr
        · rintro ⟨_, h, _⟩; exact absurd h hm

omit [DecidableEq ID] in
/-- if no segment collides with its blob, matching segments mean the bytes are the concatenation -/
theorem seg_eq_concat_of_segsMatch (hash : Bytes → ID) (f : File) (bs : List (Blob ID)) (off : Nat)
    (hids : ∀ b ∈ bs, b.id = hash b.data)
    (hnc : ∀ b ∈ bs, ∀ s : Bytes, hash s = b.id → s = b.data)
    (h : SegsMatch hash f bs off) : f.seg off (totalLen bs) = concat bs := by
  induction bs generalizing off with
  | nil => simp [totalLen, concat, File.seg]
  | cons b rest ih =>
    obtain ⟨_, hm, hrest⟩ := h
    rw [totalLen, File.seg_append, concat_cons]
    have h1 : f.seg off b.data.length = b.data := hnc b (List.mem_cons_self) _ hm.symm
    rw [h1, ih (off + b.data.length) (fun x hx => hids x (List.mem_cons_of_mem _ hx))
      (fun x hx => hnc x (List.mem_cons_of_mem _ hx)) hrest]

omit [DecidableEq ID] in
/-- conversely, a file whose bytes from `off` on are the concatenation matches segment by segment -/
theorem segsMatch_of_seg_eq_concat (hash : Bytes → ID) (f : File) (bs : List (Blob ID)) (off : Nat)
    (hids : ∀ b ∈ bs, b.id = hash b.data)
    (hlen : off + totalLen bs ≤ f.len)
    (h : f.seg off (totalLen bs) = concat bs) : SegsMatch hash f bs off := by
  induction bs generalizing off with
  | nil => trivial
  | cons b rest ih =>
    rw [totalLen, File.seg_append, concat_cons] at h
    rw [totalLen] at hlen
    have hl : (f.seg off b.data.length).length = b.data.length := File.seg_length _ _ _
    obtain ⟨h1, h2⟩ := List.append_inj h hl
    refine ⟨Or.inr (by omega), ?_, ih (off + b.data.length) (fun x hx => hids x (List.mem_cons_of_mem _ hx)) (by omega) h2⟩
    rw [h1]
    exact hids b List.mem_cons_self

end Restic.Model.FileRestore
