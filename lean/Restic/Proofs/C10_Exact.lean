import Restic.Proofs.C10_Account
import Restic.Proofs.C10_Plan
/-!
Helper lemmas for C10: the index after a completed full prune holds every used blob exactly once
and nothing else.
-/
namespace Restic.Proofs.C10Exact
open Restic.Model.Repo Restic.Model.Prune
open Restic.Proofs.C09Select Restic.Proofs.C09Plan Restic.Proofs.C10Plan Restic.Proofs.C10Account

theorem keepFold_mem' (skip : Bool) (pl : Plan) (b : BlobH) : ∀ (l : List PB) (k : List BlobH),
    b ∈ l.foldl (keepStep skip pl) k ↔
      b ∈ k ∧ ∀ pb ∈ l, pb.e.blob = b → (pb.pack ∈ pl.remove ∨ pb.pack ∈ pl.repack ∨ (skip = true ∧ pb.pack ∈ pl.ignore)) := by
  intro l
  induction l with
  | nil => intro k; simp
  | cons pb l ih =>
    intro k
    simp only [List.foldl_cons, ih, List.mem_cons, forall_eq_or_imp]
    unfold keepStep
    split
    · rename_i hc
      constructor
      · rintro ⟨h1, h2⟩; exact ⟨h1, fun _ => hc, h2⟩
      · rintro ⟨h1, _, h2⟩; exact ⟨h1, h2⟩
    · rename_i hc
      simp only [List.mem_filter, decide_eq_true_eq, ne_eq]
      constructor
      · rintro ⟨⟨h1, h3⟩, h2⟩; exact ⟨h1, fun hb => absurd hb.symm h3, h2⟩
      · rintro ⟨h1, h3, h2⟩
        exact ⟨⟨h1, fun hb => hc (h3 hb.symm)⟩, h2⟩

theorem keepFold_nodup (skip : Bool) (pl : Plan) : ∀ (l : List PB) (k : List BlobH), k.Nodup →
    (l.foldl (keepStep skip pl) k).Nodup := by
  intro l
  induction l with
  | nil => intro k h; exact h
  | cons x l ih =>
    intro k h
    simp only [List.foldl_cons]
    apply ih
    unfold keepStep
    split
    · exact h
    · exact h.filter _

theorem count_filter_map_blob (l : List PB) (q : PB → Bool) (b : BlobH) :
    ((l.filter q).map (·.e.blob)).count b = l.countP fun x => q x && x.e.blob == b := by
  induction l with
  | nil => rfl
  | cons x l ih =>
    by_cases hq : q x = true
    · simp only [List.filter_cons, hq, if_true, List.map_cons, List.count_cons, ih, List.countP_cons, Bool.true_and]
    · simp only [List.filter_cons, hq, Bool.false_eq_true, if_false, ih, List.countP_cons, Bool.false_and]
      simp


theorem exists_zip_mem (l : List PB) : ∀ (ms : List Bool), ms.length = l.length → ∀ x ∈ l, ∃ m, (x, m) ∈ l.zip ms := by
  induction l with
  | nil => intro ms _ x hx; simp at hx
  | cons y l ih =>
    intro ms h x hx
    cases ms with
    | nil => simp at h
    | cons m ms =>
      rcases List.mem_cons.mp hx with h1 | h1
      · subst h1; exact ⟨m, by simp⟩
      · obtain ⟨m', hm'⟩ := ih ms (by simpa using h) x h1
        exact ⟨m', by simp [hm']⟩

theorem countP_le_of_imp {α : Type} (l : List α) (p q : α → Bool) (h : ∀ x ∈ l, p x = true → q x = true) :
    l.countP p ≤ l.countP q := by
  induction l with
  | nil => simp
  | cons x l ih =>
    have ih' := ih (fun y hy => h y (List.mem_cons_of_mem _ hy))
    have hx := h x (List.mem_cons_self ..)
    simp only [List.countP_cons]
    by_cases hp : p x = true
    · simp [hp, hx hp]; omega
    · simp [hp]; omega

/-- **full_prune_exact** at plan level: with every candidate repacked and no
    `--repack-cacheable-only`, the index after the prune lists (i) only used blobs, (ii) every used
    blob exactly once, (iv) and every indexed pack that stays is present. -/
theorem full_prune_exact {o : Opts} {used : List BlobH} {idx : List PB} {packs : List (ID × Nat)} {pl : Plan}
    (hnd : used.Nodup) (hc : o.repackCacheableOnly = false)
    (h : planPrune o (fun _ => true) used idx packs = .ok pl) :
    (∀ b ∈ afterBlobs pl idx, b ∈ used) ∧ (∀ b ∈ used, (afterBlobs pl idx).count b = 1) ∧
    (∀ x ∈ idx, keptB pl x.pack = true → x.pack ∈ packs.map (·.1)) := by
  unfold planPrune planPruneG at h
  split at h
  · exact absurd h (by simp)
  split at h
  · exact absurd h (by simp)
  split at h
  · exact absurd h (by simp)
  split at h
  · exact absurd h (by simp)
  rename_i pi hpi
  split at h
  · exact absurd h (by simp)
  rename_i pl0 hpl0
  injection h with h
  obtain ⟨hsel, hdom⟩ := packInfo_spec hpi
  obtain ⟨hrem, hign, hlisted, _, _⟩ := decide_spec hpl0
  have nw := decide_full_no_waste (pl := pl0) hc hpl0
  have acc := packInfo_account hpi rfl
  have hkeys : ∀ pb ∈ idx, pb.pack ∈ packKeys idx := by
    intro pb hpb
    unfold packKeys
    rw [List.mem_eraseDups]
    exact List.mem_map_of_mem hpb
  have hkept_eq : ∀ p, keptB pl p = keptB pl0 p := by intro p; subst h; rfl
  have keptD : ∀ p, keptB pl0 p = true ↔ (p ∉ pl0.remove ∧ p ∉ pl0.repack ∧ p ∉ pl0.ignore) := by
    intro p; simp [keptB, and_assoc]
  -- kept indexed packs are listed and have no unused blob
  have hkl : ∀ x ∈ idx, keptB pl0 x.pack = true → x.pack ∈ packs.map (·.1) ∧ un pi.ip x.pack = 0 := by
    intro x hx hk
    obtain ⟨k1, k2, k3⟩ := (keptD _).mp hk
    have hl : x.pack ∈ packs.map (·.1) := by
      rcases hlisted _ (hkeys x hx) (hdom x hx) with h1 | h1
      · exact h1
      · exact absurd h1 k3
    refine ⟨hl, ?_⟩
    have hs := hdom x hx
    cases hi : pi.ip x.pack with
    | none => rw [hi] at hs; simp at hs
    | some info =>
      rcases nw _ hl info hi with h1 | h1 | h1
      · exact absurd h1 k1
      · exact absurd h1 k2
      · unfold un; rw [hi]; simpa using h1
  -- (K) every entry of a kept pack is the single or the selected entry of its blob
  have hK : ∀ xm ∈ idx.zip pi.marks, keptB pl0 xm.1.pack = true →
      usedMark (countPass used idx).f xm.1.e.blob xm = true := by
    intro xm hxm hk
    have hx : xm.1 ∈ idx := (List.of_mem_zip (a := xm.1) (b := xm.2) (by simpa using hxm)).1
    have h0 := (hkl xm.1 hx hk).2
    rw [acc.unused, List.countP_eq_zero] at h0
    have := h0 xm hxm
    simp only [unmarkedP, nsP, beq_self_eq_true, Bool.true_and, Bool.and_eq_true, Bool.not_eq_true',
      not_and, Bool.not_eq_false] at this
    simp only [usedMark, beq_self_eq_true, Bool.true_and, Bool.or_eq_true]
    by_cases hs : ((countPass used idx).f xm.1.e.blob == some 1) = true
    · exact Or.inl hs
    · exact Or.inr (this (by simpa using hs))
  -- number of entries of b in kept packs
  have hcount : ∀ b, (idx.countP fun x => keptB pl0 x.pack && x.e.blob == b) ≤
      (idx.zip pi.marks).countP (usedMark (countPass used idx).f b) := by
    intro b
    rw [← countP_zip_fst idx pi.marks acc.len (fun x => keptB pl0 x.pack && x.e.blob == b)]
    apply countP_le_of_imp
    intro xm hxm hp
    simp only [Bool.and_eq_true, beq_iff_eq] at hp
    have := hK xm hxm hp.1
    rw [hp.2] at this
    exact this
  have hab : ∀ b, (afterBlobs pl idx).count b =
      (idx.countP fun x => keptB pl0 x.pack && x.e.blob == b) + (pl.keep.getD []).count b := by
    intro b
    unfold afterBlobs
    rw [List.count_append, count_filter_map_blob]
    congr 2
    funext x; rw [hkept_eq]
  have hkeep : pl.keep = if pl0.repack ≠ [] then some (idx.foldl (keepStep true pl0) used) else none := by
    subst h; rfl
  refine ⟨?_, ?_, ?_⟩
  · -- (i) only used blobs
    intro b hb
    unfold afterBlobs at hb
    rcases List.mem_append.mp hb with hb | hb
    · obtain ⟨x, hx, hxb⟩ := List.mem_map.mp hb
      rw [List.mem_filter] at hx
      obtain ⟨m, hm⟩ := exists_zip_mem idx pi.marks acc.len x hx.1
      have := hK (x, m) hm (by rw [← hkept_eq]; exact hx.2)
      simp only at this
      rw [hxb] at this
      apply Classical.byContradiction
      intro hnu
      have h0 := acc.zero b hnu
      rw [List.countP_eq_zero] at h0
      exact absurd this (h0 (x, m) hm)
    · rw [hkeep] at hb
      split at hb
      · simp only [Option.getD_some] at hb
        exact ((Restic.Proofs.C10Exact.keepFold_mem' true pl0 b idx used).mp hb).1
      · simp at hb
  · -- (ii) every used blob exactly once
    intro b hb
    rw [hab b]
    have h1 := acc.one b hb
    have hle := hcount b
    by_cases hex : ∃ x ∈ idx, x.e.blob = b ∧ keptB pl0 x.pack = true
    · -- b has an entry in a pack that stays: it is not repacked
      obtain ⟨x, hx, hxb, hxk⟩ := hex
      have hpos : 1 ≤ idx.countP fun x => keptB pl0 x.pack && x.e.blob == b := by
        apply List.countP_pos_iff.mpr
        exact ⟨x, hx, by simp [hxk, hxb]⟩
      have hk0 : (pl.keep.getD []).count b = 0 := by
        rw [hkeep]
        split
        · simp only [Option.getD_some]
          rw [List.count_eq_zero]
          intro hmem
          have := ((keepFold_mem' true pl0 b idx used).mp hmem).2 x hx hxb
          obtain ⟨k1, k2, k3⟩ := (keptD _).mp hxk
          rcases this with h2 | h2 | h2
          · exact k1 h2
          · exact k2 h2
          · exact k3 h2.2
        · simp
      omega
    · -- no entry of b in a pack that stays: b is repacked, once
      have hzero : (idx.countP fun x => keptB pl0 x.pack && x.e.blob == b) = 0 := by
        rw [List.countP_eq_zero]
        intro x hx
        by_cases hxb : x.e.blob = b
        · have : keptB pl0 x.pack ≠ true := fun hk => hex ⟨x, hx, hxb, hk⟩
          simp [this]
        · simp [hxb]
      have hallout : ∀ x ∈ idx, x.e.blob = b → (x.pack ∈ pl0.remove ∨ x.pack ∈ pl0.repack ∨ (true = true ∧ x.pack ∈ pl0.ignore)) := by
        intro x hx hxb
        have hk : ¬ keptB pl0 x.pack = true := fun hk => hex ⟨x, hx, hxb, hk⟩
        rw [keptD] at hk
        by_cases a1 : x.pack ∈ pl0.remove
        · exact Or.inl a1
        · by_cases a2 : x.pack ∈ pl0.repack
          · exact Or.inr (Or.inl a2)
          · by_cases a3 : x.pack ∈ pl0.ignore
            · exact Or.inr (Or.inr ⟨rfl, a3⟩)
            · exact absurd ⟨a1, a2, a3⟩ hk
      have hk1 : (pl.keep.getD []).count b = 1 := by
        rw [hkeep]
        split
        · simp only [Option.getD_some]
          rw [(keepFold_nodup true pl0 idx used hnd).count]
          simp [(keepFold_mem' true pl0 b idx used).mpr ⟨hb, hallout⟩]
        · rename_i hrep
          exfalso
          have hrep' : pl0.repack = [] := by
            by_cases hc2 : pl0.repack = []
            · exact hc2
            · exact absurd hc2 hrep
          obtain ⟨pb, hpb, hpbb, hu⟩ := hsel b hb
          apply hex
          refine ⟨pb, hpb, hpbb, (keptD _).mpr ⟨?_, by rw [hrep']; simp, ?_⟩⟩
          · intro hc3; have := (hrem _ hc3).1; omega
          · intro hc3; have := hign _ hc3; omega
      omega
  · -- (iv) indexed packs that stay are present
    intro x hx hk
    rw [hkept_eq] at hk
    exact (hkl x hx hk).1

end Restic.Proofs.C10Exact
