import Restic.Model.RepairIndex
/-!
Helper lemmas for C33: membership characterisation of `flat`, `groupsOf`, `storeGroups`,
and the invariant of the `MasterIndex.Rewrite` loop.
-/
namespace Restic.Proofs.C33
open Restic.Model.RepairIndex

theorem mem_flat {c : IdxContent} {p : ID} {e : Entry} :
    (p, e) ∈ flat c ↔ ∃ es, (p, es) ∈ c ∧ e ∈ es := by
  unfold flat
  simp only [List.mem_flatMap, List.mem_map, Prod.mk.injEq, Prod.exists]
  constructor
  · rintro ⟨q, es, h1, e', h2, rfl, rfl⟩; exact ⟨es, h1, h2⟩
  · rintro ⟨es, h1, h2⟩; exact ⟨p, es, h1, e, h2, rfl, rfl⟩

theorem mem_flatAll {cs : List IdxContent} {x : ID × Entry} :
    x ∈ flatAll cs ↔ ∃ c ∈ cs, x ∈ flat c := by
  unfold flatAll; simp [List.mem_flatMap]

theorem mem_insertOff {e x : Entry} {l : List Entry} : x ∈ insertOff e l ↔ x = e ∨ x ∈ l := by
  induction l with
  | nil => simp [insertOff]
  | cons y ys ih =>
    unfold insertOff
    split
    · simp
    · simp only [List.mem_cons, ih]
      constructor
      · rintro (h | h | h)
        · exact Or.inr (Or.inl h)
        · exact Or.inl h
        · exact Or.inr (Or.inr h)
      · rintro (h | h | h)
        · exact Or.inr (Or.inl h)
        · exact Or.inl h
        · exact Or.inr (Or.inr h)

@[simp] theorem mem_sortOff {x : Entry} {l : List Entry} : x ∈ sortOff l ↔ x ∈ l := by
  induction l with
  | nil => simp [sortOff]
  | cons y ys ih =>
    have : sortOff (y :: ys) = insertOff y (sortOff ys) := rfl
    rw [this, mem_insertOff, ih]; simp

theorem flat_append (a b : IdxContent) : flat (a ++ b) = flat a ++ flat b := by
  unfold flat; simp

theorem flatAll_append (a b : List IdxContent) : flatAll (a ++ b) = flatAll a ++ flatAll b := by
  unfold flatAll; simp

/-- soundness of `EachByPack`: a group only carries entries of the index, for a non-excluded pack -/
theorem groupsOf_sound {c : IdxContent} {ex : List ID} {g : ID × List Entry}
    (hg : g ∈ groupsOf c ex) : g.1 ∉ ex ∧ ∀ e ∈ g.2, (g.1, e) ∈ flat c := by
  unfold groupsOf at hg
  simp only [List.mem_filter, List.mem_map, List.mem_eraseDups] at hg
  obtain ⟨⟨p, ⟨⟨q, hq⟩, hex⟩, rfl⟩, _⟩ := hg
  refine ⟨by simpa using hex, ?_⟩
  intro e he
  simp only [mem_sortOff, List.mem_flatMap, List.mem_filter, beq_iff_eq] at he
  obtain ⟨pe, ⟨hpe, rfl⟩, he⟩ := he
  exact mem_flat.mpr ⟨pe.2, hpe, he⟩

/-- completeness of `EachByPack`: every entry of a non-excluded pack is in the pack's group -/
theorem groupsOf_complete {c : IdxContent} {ex : List ID} {p : ID} {e : Entry}
    (h : (p, e) ∈ flat c) (hex : p ∉ ex) : ∃ g ∈ groupsOf c ex, g.1 = p ∧ e ∈ g.2 := by
  obtain ⟨es, hes, he⟩ := mem_flat.mp h
  refine ⟨(p, sortOff ((c.filter (fun pe => pe.1 == p)).flatMap (·.2))), ?_, rfl, ?_⟩
  · unfold groupsOf
    have hmem : e ∈ sortOff ((c.filter (fun pe => pe.1 == p)).flatMap (·.2)) := by
      simp only [mem_sortOff, List.mem_flatMap, List.mem_filter, beq_iff_eq]
      exact ⟨(p, es), ⟨hes, rfl⟩, he⟩
    simp only [List.mem_filter, List.mem_map, List.mem_eraseDups]
    refine ⟨⟨p, ⟨⟨(p, es), hes, rfl⟩, by simpa using hex⟩, rfl⟩, ?_⟩
    cases hl : sortOff ((c.filter (fun pe => pe.1 == p)).flatMap (·.2)) with
    | nil => rw [hl] at hmem; cases hmem
    | cons a l => simp
  · simp only [mem_sortOff, List.mem_flatMap, List.mem_filter, beq_iff_eq]
    exact ⟨(p, es), ⟨hes, rfl⟩, he⟩

/-- what the index files describe after (part of) a rewrite -/
def out (st : RwState) : List (ID × Entry) :=
  flatAll (st.kept.filterMap (·.content)) ++ flat st.newIndex

theorem mem_out {st : RwState} {x : ID × Entry} :
    x ∈ out st ↔ (∃ f ∈ st.kept, ∃ c, f.content = some c ∧ x ∈ flat c) ∨ x ∈ flat st.newIndex := by
  unfold out
  simp only [List.mem_append, mem_flatAll, List.mem_filterMap]
  constructor
  · rintro (⟨c, ⟨f, hf, hc⟩, hx⟩ | h)
    · exact Or.inl ⟨f, hf, c, hc, hx⟩
    · exact Or.inr h
  · rintro (⟨f, hf, c, hc, hx⟩ | h)
    · exact Or.inl ⟨c, ⟨f, hf, hc⟩, hx⟩
    · exact Or.inr h

/-- the loop invariant of `Rewrite`, for the files `done` processed so far -/
structure Inv (ex : List ID) (extra : List ID) (done : List IdxFile) (st : RwState) : Prop where
  seen_in : ∀ g ∈ st.seen, ∀ e ∈ g.2, (g.1, e) ∈ out st
  sound : ∀ x ∈ out st, x.1 ∉ ex ∧ ∃ f ∈ done, ∃ c, f.content = some c ∧ x ∈ flat c
  complete : ∀ f ∈ done, ∀ c, f.content = some c → ∀ x ∈ flat c, x.1 ∉ ex → x ∈ out st
  kept_sub : ∀ f ∈ st.kept, f ∈ done
  obsolete_eq : ∀ i, i ∈ st.obsolete ↔ i ∈ extra ∨ ∃ f ∈ done, f.content.isSome ∧ f ∉ st.kept ∧ f.id = i
  kept_some : ∀ f ∈ st.kept, f.content.isSome

theorem storeGroups_spec (gs : IdxContent) : ∀ (st : RwState),
    let st' := storeGroups st gs
    st'.kept = st.kept ∧ st'.obsolete = st.obsolete ∧
    (∀ x, x ∈ flat st'.newIndex ↔ x ∈ flat st.newIndex ∨ (∃ g ∈ gs, g ∉ st.seen ∧ x.1 = g.1 ∧ x.2 ∈ g.2)) ∧
    (∀ g, g ∈ st'.seen ↔ g ∈ st.seen ∨ g ∈ gs) := by
  induction gs with
  | nil => intro st; simp [storeGroups]
  | cons g gs ih =>
    intro st
    simp only [storeGroups, List.foldl_cons]
    by_cases hs : st.seen.contains g = true
    · simp only [hs, if_true]
      have := ih st
      simp only [storeGroups] at this
      obtain ⟨h1, h2, h3, h4⟩ := this
      have hs' : g ∈ st.seen := by simpa using hs
      refine ⟨h1, h2, ?_, ?_⟩
      · intro x; rw [h3 x]
        constructor
        · rintro (h | ⟨g', hg', hn, hx⟩)
          · exact Or.inl h
          · exact Or.inr ⟨g', List.mem_cons_of_mem _ hg', hn, hx⟩
        · rintro (h | ⟨g', hg', hn, hx⟩)
          · exact Or.inl h
          · rcases List.mem_cons.mp hg' with rfl | hg''
            · exact absurd hs' hn
            · exact Or.inr ⟨g', hg'', hn, hx⟩
      · intro g'; rw [h4 g']
        constructor
        · rintro (h | h)
          · exact Or.inl h
          · exact Or.inr (List.mem_cons_of_mem _ h)
        · rintro (h | h)
          · exact Or.inl h
          · rcases List.mem_cons.mp h with rfl | h'
            · exact Or.inl hs'
            · exact Or.inr h'
    · simp only [hs, Bool.false_eq_true, if_false]
      have hs' : g ∉ st.seen := by simpa using hs
      have := ih { st with seen := st.seen ++ [g], newIndex := st.newIndex ++ [g] }
      simp only [storeGroups] at this
      obtain ⟨h1, h2, h3, h4⟩ := this
      refine ⟨h1, h2, ?_, ?_⟩
      · intro x; rw [h3 x]
        simp only [flat_append, List.mem_append]
        have hg1 : x ∈ flat [g] ↔ x.1 = g.1 ∧ x.2 ∈ g.2 := by
          obtain ⟨p, e⟩ := x
          rw [mem_flat]; simp only [List.mem_singleton]
          constructor
          · rintro ⟨es, rfl, he⟩; exact ⟨rfl, he⟩
          · rintro ⟨h1, h2⟩; exact ⟨g.2, by cases g; simp_all, h2⟩
        constructor
        · rintro ((h | h) | ⟨g', hg', hn, hx⟩)
          · exact Or.inl h
          · exact Or.inr ⟨g, List.mem_cons_self, hs', hg1.mp h⟩
          · refine Or.inr ⟨g', List.mem_cons_of_mem _ hg', ?_, hx⟩
            intro hc; exact hn (Or.inl hc)
        · rintro (h | ⟨g', hg', hn, hx⟩)
          · exact Or.inl (Or.inl h)
          · rcases List.mem_cons.mp hg' with rfl | hg''
            · exact Or.inl (Or.inr (hg1.mpr hx))
            · by_cases hgg : g' = g
              · subst hgg; exact Or.inl (Or.inr (hg1.mpr hx))
              · refine Or.inr ⟨g', hg'', ?_, hx⟩
                simp only [List.mem_append, List.mem_singleton, not_or]
                exact ⟨hn, hgg⟩
      · intro g'; rw [h4 g']
        simp only [List.mem_append, List.mem_cons, List.not_mem_nil, or_false]
        constructor
        · rintro ((h | h) | h)
          · exact Or.inl h
          · exact Or.inr (Or.inl h)
          · exact Or.inr (Or.inr h)
        · rintro (h | h | h)
          · exact Or.inl (Or.inl h)
          · exact Or.inl (Or.inr h)
          · exact Or.inr h

theorem inv_init (ex extra : List ID) :
    Inv ex extra [] { seen := [], newIndex := [], obsolete := extra, kept := [] } := by
  refine ⟨?_, ?_, ?_, ?_, ?_, ?_⟩ <;> simp [out, flat, flatAll]

theorem rewriteOne_inv {ex extra : List ID} {done : List IdxFile} {st : RwState} (f : IdxFile)
    (hnd : f ∉ done) (h : Inv ex extra done st) : Inv ex extra (done ++ [f]) (rewriteOne ex st f) := by
  unfold rewriteOne
  cases hc : f.content with
  | none =>
    simp only
    refine ⟨h.seen_in, ?_, ?_, ?_, ?_, h.kept_some⟩
    · intro x hx
      obtain ⟨h1, f', hf', c, hc', hx'⟩ := h.sound x hx
      exact ⟨h1, f', List.mem_append_left _ hf', c, hc', hx'⟩
    · intro f' hf' c hc' x hx hex
      rcases List.mem_append.mp hf' with hf'' | hf''
      · exact h.complete f' hf'' c hc' x hx hex
      · simp only [List.mem_singleton] at hf''; subst hf''; rw [hc] at hc'; cases hc'
    · intro f' hf'; exact List.mem_append_left _ (h.kept_sub f' hf')
    · intro i; rw [h.obsolete_eq i]
      constructor
      · rintro (h1 | ⟨f', hf', h2, h3, h4⟩)
        · exact Or.inl h1
        · exact Or.inr ⟨f', List.mem_append_left _ hf', h2, h3, h4⟩
      · rintro (h1 | ⟨f', hf', h2, h3, h4⟩)
        · exact Or.inl h1
        · rcases List.mem_append.mp hf' with hf'' | hf''
          · exact Or.inr ⟨f', hf'', h2, h3, h4⟩
          · simp only [List.mem_singleton] at hf''; subst hf''; rw [hc] at h2; cases h2
  | some c =>
    simp only
    split
    · -- kept as it is
      rename_i hcond
      simp only [Bool.and_eq_true, List.all_eq_true, Bool.not_eq_true', List.mem_map,
        forall_exists_index, and_imp, forall_apply_eq_imp_iff₂] at hcond
      obtain ⟨⟨hnoex, _⟩, hfresh⟩ := hcond
      have hnoex' : ∀ pe ∈ c, pe.1 ∉ ex := by
        intro pe hpe; have := hnoex pe hpe; simpa using this
      have hout : ∀ x, x ∈ out { st with seen := st.seen ++ (groupsOf c ex).eraseDups, kept := st.kept ++ [f] }
          ↔ x ∈ out st ∨ x ∈ flat c := by
        intro x
        simp only [mem_out, List.mem_append, List.mem_singleton]
        constructor
        · rintro (⟨f', hf' | hf', c', hc', hx⟩ | hx)
          · exact Or.inl (Or.inl ⟨f', hf', c', hc', hx⟩)
          · subst hf'; rw [hc] at hc'; cases hc'; exact Or.inr hx
          · exact Or.inl (Or.inr hx)
        · rintro ((⟨f', hf', c', hc', hx⟩ | hx) | hx)
          · exact Or.inl ⟨f', Or.inl hf', c', hc', hx⟩
          · exact Or.inr hx
          · exact Or.inl ⟨f, Or.inr rfl, c, hc, hx⟩
      refine ⟨?_, ?_, ?_, ?_, ?_, ?_⟩
      · intro g hg e he
        rw [hout]
        simp only [List.mem_append, List.mem_eraseDups] at hg
        rcases hg with hg | hg
        · exact Or.inl (h.seen_in g hg e he)
        · exact Or.inr ((groupsOf_sound hg).2 e he)
      · intro x hx
        rcases (hout x).mp hx with hx | hx
        · obtain ⟨h1, f', hf', c', hc', hx'⟩ := h.sound x hx
          exact ⟨h1, f', List.mem_append_left _ hf', c', hc', hx'⟩
        · obtain ⟨p, e⟩ := x
          obtain ⟨es, hes, _⟩ := mem_flat.mp hx
          exact ⟨hnoex' (p, es) hes, f, by simp, c, hc, hx⟩
      · intro f' hf' c' hc' x hx hex
        rw [hout]
        rcases List.mem_append.mp hf' with hf'' | hf''
        · exact Or.inl (h.complete f' hf'' c' hc' x hx hex)
        · simp only [List.mem_singleton] at hf''; subst hf''; rw [hc] at hc'; cases hc'
          exact Or.inr hx
      · intro f' hf'
        simp only [List.mem_append, List.mem_singleton] at hf' ⊢
        rcases hf' with hf' | hf'
        · exact Or.inl (h.kept_sub f' hf')
        · exact Or.inr hf'
      · intro i
        simp only [h.obsolete_eq i, List.mem_append, List.mem_singleton, not_or]
        constructor
        · rintro (h1 | ⟨f', hf', h2, h3, h4⟩)
          · exact Or.inl h1
          · refine Or.inr ⟨f', Or.inl hf', h2, ⟨h3, ?_⟩, h4⟩
            rintro rfl; exact hnd hf'
        · rintro (h1 | ⟨f', hf' | hf', h2, ⟨h3, h5⟩, h4⟩)
          · exact Or.inl h1
          · exact Or.inr ⟨f', hf', h2, h3, h4⟩
          · exact absurd hf' h5
      · intro f' hf'
        simp only [List.mem_append, List.mem_singleton] at hf'
        rcases hf' with hf' | hf'
        · exact h.kept_some f' hf'
        · subst hf'; simp [hc]
    · -- rewritten
      obtain ⟨hk, ho, hn, hs⟩ := storeGroups_spec (groupsOf c ex) { st with obsolete := st.obsolete ++ [f.id] }
      simp only at hk ho hn hs
      generalize storeGroups { st with obsolete := st.obsolete ++ [f.id] } (groupsOf c ex) = st' at *
      have hout : ∀ x, x ∈ out st' ↔ x ∈ out st ∨
          (∃ g ∈ groupsOf c ex, g ∉ st.seen ∧ x.1 = g.1 ∧ x.2 ∈ g.2) := by
        intro x
        simp only [mem_out, hk, hn]
        constructor
        · rintro (h1 | h1 | h1)
          · exact Or.inl (Or.inl h1)
          · exact Or.inl (Or.inr h1)
          · exact Or.inr h1
        · rintro ((h1 | h1) | h1)
          · exact Or.inl h1
          · exact Or.inr (Or.inl h1)
          · exact Or.inr (Or.inr h1)
      -- every group of this file ends up described
      have hall : ∀ g ∈ groupsOf c ex, ∀ e ∈ g.2, (g.1, e) ∈ out st' := by
        intro g hg e he
        rw [hout]
        by_cases hsn : g ∈ st.seen
        · exact Or.inl (h.seen_in g hsn e he)
        · exact Or.inr ⟨g, hg, hsn, rfl, he⟩
      refine ⟨?_, ?_, ?_, ?_, ?_, ?_⟩
      · intro g hg e he
        rcases (hs g).mp hg with hg' | hg'
        · rw [hout]; exact Or.inl (h.seen_in g hg' e he)
        · exact hall g hg' e he
      · intro x hx
        rcases (hout x).mp hx with hx | ⟨g, hg, _, h1, h2⟩
        · obtain ⟨h1, f', hf', c', hc', hx'⟩ := h.sound x hx
          exact ⟨h1, f', List.mem_append_left _ hf', c', hc', hx'⟩
        · obtain ⟨p, e⟩ := x
          simp only at h1 h2; subst h1
          obtain ⟨hg1, hg2⟩ := groupsOf_sound hg
          exact ⟨hg1, f, by simp, c, hc, hg2 e h2⟩
      · intro f' hf' c' hc' x hx hex
        rcases List.mem_append.mp hf' with hf'' | hf''
        · rw [hout]; exact Or.inl (h.complete f' hf'' c' hc' x hx hex)
        · simp only [List.mem_singleton] at hf''; subst hf''; rw [hc] at hc'; cases hc'
          obtain ⟨p, e⟩ := x
          obtain ⟨g, hg, rfl, he⟩ := groupsOf_complete hx hex
          exact hall g hg e he
      · intro f' hf'; rw [hk] at hf'; exact List.mem_append_left _ (h.kept_sub f' hf')
      · intro i
        rw [ho, hk]
        simp only [List.mem_append, List.mem_singleton, h.obsolete_eq i]
        constructor
        · rintro ((h1 | ⟨f', hf', h2, h3, h4⟩) | h1)
          · exact Or.inl h1
          · exact Or.inr ⟨f', Or.inl hf', h2, h3, h4⟩
          · refine Or.inr ⟨f, Or.inr rfl, by simp [hc], ?_, h1.symm⟩
            intro hk'; exact hnd (h.kept_sub f hk')
        · rintro (h1 | ⟨f', hf' | hf', h2, h3, h4⟩)
          · exact Or.inl (Or.inl h1)
          · exact Or.inl (Or.inr ⟨f', hf', h2, h3, h4⟩)
          · subst hf'; exact Or.inr h4.symm
      · intro f' hf'; rw [hk] at hf'; exact h.kept_some f' hf'

theorem foldl_inv {ex extra : List ID} (fs : List IdxFile) : ∀ (done : List IdxFile) (st : RwState),
    (done ++ fs).Nodup → Inv ex extra done st →
    Inv ex extra (done ++ fs) (fs.foldl (rewriteOne ex) st) := by
  induction fs with
  | nil => intro done st _ h; simpa using h
  | cons f fs ih =>
    intro done st hnd h
    simp only [List.foldl_cons]
    have hnd' : ((done ++ [f]) ++ fs).Nodup := by simpa using hnd
    have hf : f ∉ done := by
      have := List.nodup_append.mp hnd
      intro hc; exact this.2.2 f hc f List.mem_cons_self rfl
    have := ih (done ++ [f]) (rewriteOne ex st f) hnd' (rewriteOne_inv f hf h)
    simpa using this

/-- `MasterIndex.Rewrite`, for every processing order of the old index files: -/
theorem rewrite_inv (ex : List ID) (old : List IdxFile) (extra : List ID) (hnd : old.Nodup) :
    Inv ex extra old (rewrite ex old extra) := by
  have := foldl_inv (ex := ex) (extra := extra) old [] _ (by simpa using hnd) (inv_init ex extra)
  simpa [rewrite] using this

end Restic.Proofs.C33
