import Restic.Proofs.C01_Lemmas
import Restic.Proofs.C01_Order
/-!
# C01 — restore ∘ backup on the abstract tree
-/
namespace Restic.Proofs.C01
open Restic.Model.Backup

/-- well-formed source trees: paths are distinct; regular files with the same (st_dev, st_ino) are
    names of the same inode (same link count, content, metadata); an inode with link count 1 has
    one name. All three hold for every walk of a quiescent POSIX file system. -/
structure WF (t : List Item) : Prop where
  nodup : (t.map (·.path)).Nodup
  sameInode : ∀ a ∈ t, ∀ b ∈ t, a.kind = .file → b.kind = .file → (a.ino, a.dev) = (b.ino, b.dev) →
      a.nlink = b.nlink ∧ a.content = b.content ∧ a.md = b.md
  single : ∀ a ∈ t, ∀ b ∈ t, a.kind = .file → b.kind = .file → (a.ino, a.dev) = (b.ino, b.dev) → a.nlink ≤ 1 → a = b

def linkedItem (key : Nat × Nat) (a : Item) : Bool :=
  a.kind = .file && decide (a.nlink > 1) && decide ((a.ino, a.dev) = key)

theorem isLinked_toNode {ID : Type} (hash : Bytes → ID) (split : Bytes → List Bytes) (key : Nat × Nat) (a : Item) :
    isLinked key (toNode hash split a) = linkedItem key a := by
  unfold isLinked linkedItem toNode
  by_cases hk : a.kind = .file
  · simp [hk]
  · simp [hk]

/-- what the restorer leaves at the path of source entry `a` -/
def R (s : List Item) (a : Item) : Restored :=
  if a.kind = .file then
    match (s.find? (linkedItem (a.ino, a.dev))).map (·.path) with
    | some q => if q ≠ a.path then .link q a.md else .fresh .file a.md a.content [] 0
    | none => .fresh .file a.md a.content [] 0
  else .fresh a.kind a.md [] (if a.kind = .symlink then a.target else []) (if a.kind = .dev ∨ a.kind = .chardev then a.rdev else 0)

theorem mapM'_map_map {α β γ : Type} (f : β → Option γ) (h : α → β) (g : α → γ) (l : List α)
    (hh : ∀ a ∈ l, f (h a) = some (g a)) : mapM' f (l.map h) = some (l.map g) := by
  induction l with
  | nil => rfl
  | cons a as ih =>
    simp only [mapM', List.map_cons]
    rw [hh a (by simp), ih (fun b hb => hh b (by simp [hb]))]

theorem idx_of_nodes {ID : Type} (hash : Bytes → ID) (split : Bytes → List Bytes) (s : List Item) (key : Nat × Nat) :
    idxValue (hardlinkIndex (s.map (toNode hash split))) key = (s.find? (linkedItem key)).map (·.path) := by
  rw [hardlinkIndex_eq, List.find?_map]
  have : (isLinked key ∘ toNode hash split) = linkedItem key := by
    funext a; exact isLinked_toNode hash split key a
  rw [this]
  cases s.find? (linkedItem key) with
  | none => rfl
  | some b => simp [toNode]; split <;> rfl

/-- restoring one node of the snapshot made by `backup`, when every saved chunk loads back -/
theorem restoreNode_eq {ID : Type} [DecidableEq ID] (hash : Bytes → ID) (split : Bytes → List Bytes)
    (hsplit : ∀ c, (split c).flatten = c) (s : List Item) (S : Store ID) (order : Path → List Nat) (a : Item)
    (hns : a.kind ≠ .socket)
    (hord : a.kind = .file → ∀ i, i < (split a.content).length → i ∈ order a.path)
    (hload : a.kind = .file → ∀ c ∈ split a.content, S.get (hash c) = some c) :
    restoreNode S (hardlinkIndex (s.map (toNode hash split))) order (toNode hash split a) = some (a.path, R s a) := by
  by_cases hk : a.kind = .file
  · have hc : restoreContent S ((split a.content).map hash) a.content.length (order a.path) = some a.content := by
      unfold restoreContent
      rw [loadAll_saved hash S _ (hload hk)]
      simp only
      have := restore_anyorder (split a.content) (order a.path) (hord hk)
      rw [hsplit] at this
      rw [this]
    have hn : toNode hash split a =
        { path := a.path, kind := .file, md := a.md, content := (split a.content).map hash,
          size := a.content.length, target := [], device := 0, deviceID := a.dev, inode := a.ino, links := a.nlink } := by
      simp [toNode, hk]
    rw [hn]
    simp only [restoreNode]
    rw [idx_of_nodes]
    simp only [R, hk, if_true]
    cases (s.find? (linkedItem (a.ino, a.dev))).map (·.path) with
    | none => simp [hc]
    | some q =>
      by_cases hq : q = a.path
      · simp [hq, hc]
      · simp [hq]
  · have hn : toNode hash split a =
        { path := a.path, kind := a.kind, md := a.md, content := [], size := 0,
          target := if a.kind = .symlink then a.target else [],
          device := if a.kind = .dev ∨ a.kind = .chardev then a.rdev else 0,
          deviceID := a.dev, inode := a.ino,
          links := if a.kind = .dir ∨ a.kind = .fifo then 0 else a.nlink } := by
      simp [toNode, hk]
    rw [hn]
    simp only [R, hk, if_false]
    cases hkk : a.kind <;> simp_all [restoreNode]


/-! ### the restored tree, observed -/

def rsOf (s : List Item) : List (Path × Restored) := s.map fun a => (a.path, R s a)

theorem zip_map_self {α β : Type} (l : List α) (F : α → β) : l.zip (l.map F) = l.map fun a => (a, F a) := by
  induction l with
  | nil => rfl
  | cons a as ih => simp [ih]

theorem item_of_path {l : List Item} (hn : (l.map (·.path)).Nodup) {a b : Item} (ha : a ∈ l) (hb : b ∈ l)
    (h : a.path = b.path) : a = b := by
  induction l with
  | nil => cases ha
  | cons x xs ih =>
    simp only [List.map_cons, List.nodup_cons] at hn
    rcases List.mem_cons.mp ha with ha1 | ha1 <;> rcases List.mem_cons.mp hb with hb1 | hb1
    · rw [ha1, hb1]
    · exact absurd (List.mem_map.mpr ⟨b, hb1, by rw [← h, ha1]⟩ : x.path ∈ xs.map (·.path)) hn.1
    · exact absurd (List.mem_map.mpr ⟨a, ha1, by rw [h, hb1]⟩ : x.path ∈ xs.map (·.path)) hn.1
    · exact ih hn.2 ha1 hb1

theorem find_by_path (G : Item → Restored) {l : List Item} (hn : (l.map (·.path)).Nodup) {b : Item} (hb : b ∈ l) :
    (l.map fun a => (a.path, G a)).find? (·.1 = b.path) = some (b.path, G b) := by
  induction l with
  | nil => cases hb
  | cons x xs ih =>
    simp only [List.map_cons, List.nodup_cons] at hn
    simp only [List.map_cons, List.find?_cons]
    rcases List.mem_cons.mp hb with hb | hb
    · subst hb; simp
    · have hne : x.path ≠ b.path := fun h => hn.1 (h ▸ List.mem_map.mpr ⟨b, hb, rfl⟩)
      simp only [hne, decide_false]
      exact ih hn.2 hb

theorem posOf_inj (rs : List (Path × Restored)) (p q : Path) (hp : p ∈ rs.map (·.1)) (hq : q ∈ rs.map (·.1))
    (h : posOf rs p = posOf rs q) : p = q := by
  unfold posOf at h
  have hp' : ∃ x ∈ rs, decide (x.1 = p) = true := by
    obtain ⟨x, hx, hxp⟩ := List.mem_map.mp hp
    exact ⟨x, hx, by simp [hxp]⟩
  have hq' : ∃ x ∈ rs, decide (x.1 = q) = true := by
    obtain ⟨x, hx, hxq⟩ := List.mem_map.mp hq
    exact ⟨x, hx, by simp [hxq]⟩
  have l1 := List.findIdx_lt_length_of_exists hp'
  have l2 := List.findIdx_lt_length_of_exists hq'
  have e1 := List.findIdx_getElem (w := l1)
  have e2 := List.findIdx_getElem (w := l2)
  simp only [decide_eq_true_eq] at e1 e2
  rw [← e1, ← e2]
  congr 1
  exact getElem_congr_idx h

/-- the representative path of the inode a restored regular file shows -/
def rep (s : List Item) (a : Item) : Path :=
  match R s a with
  | .link q _ => q
  | .fresh .. => a.path

theorem observeOne_ino (s : List Item) (a : Item) :
    (observeOne (rsOf s) (a.path, R s a)).ino = posOf (rsOf s) (rep s a) ∧
    (observeOne (rsOf s) (a.path, R s a)).dev = 0 := by
  unfold observeOne rep
  cases R s a <;> simp

/-- the first linked entry with the key of a multiply linked file -/
theorem first_linked {t : List Item} (hwf : WF t) (a : Item) (ha : a ∈ t.filter (·.kind != .socket))
    (hk : a.kind = .file) (hl : a.nlink > 1) :
    ∃ b, b ∈ t.filter (·.kind != .socket) ∧ (t.filter (·.kind != .socket)).find? (linkedItem (a.ino, a.dev)) = some b ∧
      b.kind = .file ∧ (b.ino, b.dev) = (a.ino, a.dev) ∧ b.content = a.content ∧ b.md = a.md ∧ b.nlink > 1 := by
  have hself : linkedItem (a.ino, a.dev) a = true := by simp [linkedItem, hk, hl]
  cases hf : (t.filter (·.kind != .socket)).find? (linkedItem (a.ino, a.dev)) with
  | none =>
    have := List.find?_eq_none.mp hf a ha
    simp [hself] at this
  | some b =>
    have hb := List.mem_of_find?_eq_some hf
    have hp := List.find?_some hf
    simp only [linkedItem, Bool.and_eq_true, decide_eq_true_eq] at hp
    obtain ⟨⟨h1, h2⟩, h3⟩ := hp
    have hbt : b ∈ t := (List.mem_filter.mp hb).1
    have hat : a ∈ t := (List.mem_filter.mp ha).1
    have := hwf.sameInode b hbt a hat h1 hk h3
    exact ⟨b, hb, rfl, h1, h3, this.2.1, this.2.2, h2⟩

/-- a file that is not multiply linked has no linked entry with its key -/
theorem no_linked {t : List Item} (hwf : WF t) (a : Item) (ha : a ∈ t.filter (·.kind != .socket))
    (hk : a.kind = .file) (hl : ¬ a.nlink > 1) :
    (t.filter (·.kind != .socket)).find? (linkedItem (a.ino, a.dev)) = none := by
  apply List.find?_eq_none.mpr
  intro b hb
  simp only [linkedItem, Bool.and_eq_true, decide_eq_true_eq, not_and]
  intro h1 h3
  have hbt : b ∈ t := (List.mem_filter.mp hb).1
  have hat : a ∈ t := (List.mem_filter.mp ha).1
  have := hwf.sameInode b hbt a hat h1.1 hk h3
  omega


theorem nodup_filter {t : List Item} (h : (t.map (·.path)).Nodup) : ((t.filter (·.kind != .socket)).map (·.path)).Nodup :=
  List.Nodup.sublist (List.Sublist.map _ List.filter_sublist) h

/-- what the restorer leaves for a regular file, under `WF` -/
theorem R_file {t : List Item} (hwf : WF t) (a : Item) (ha : a ∈ t.filter (·.kind != .socket)) (hk : a.kind = .file) :
    (R (t.filter (·.kind != .socket)) a = .fresh .file a.md a.content [] 0 ∧
      (a.nlink > 1 → (t.filter (·.kind != .socket)).find? (linkedItem (a.ino, a.dev)) = some a)) ∨
    (∃ b, b ∈ t.filter (·.kind != .socket) ∧ b.kind = .file ∧ (b.ino, b.dev) = (a.ino, a.dev) ∧ b.content = a.content ∧
      b.path ≠ a.path ∧ (t.filter (·.kind != .socket)).find? (linkedItem (a.ino, a.dev)) = some b ∧
      R (t.filter (·.kind != .socket)) a = .link b.path a.md ∧
      R (t.filter (·.kind != .socket)) b = .fresh .file b.md b.content [] 0) := by
  by_cases hl : a.nlink > 1
  · obtain ⟨b, hb, hf, hbk, hkey, hc, _, hbl⟩ := first_linked hwf a ha hk hl
    by_cases hp : b.path = a.path
    · left
      have hba : b = a := item_of_path (nodup_filter hwf.nodup) hb ha hp
      subst hba
      refine ⟨?_, fun _ => hf⟩
      simp [R, hk, hf]
    · right
      refine ⟨b, hb, hbk, hkey, hc, hp, hf, ?_, ?_⟩
      · simp [R, hk, hf, hp]
      · have hf' : (t.filter (·.kind != .socket)).find? (linkedItem (b.ino, b.dev)) = some b := by rw [hkey]; exact hf
        simp [R, hbk, hf']
  · left
    have := no_linked hwf a ha hk hl
    refine ⟨?_, fun h => absurd h hl⟩
    simp [R, hk, this]

theorem sameEntry_F {t : List Item} (hwf : WF t) (a : Item) (ha : a ∈ t.filter (·.kind != .socket)) :
    sameEntry a (observeOne (rsOf (t.filter (·.kind != .socket))) (a.path, R (t.filter (·.kind != .socket)) a)) = true := by
  by_cases hk : a.kind = .file
  · rcases R_file hwf a ha hk with ⟨h1, _⟩ | ⟨b, hb, hbk, _, hc, _, _, h1, h2⟩
    · rw [h1]; simp [observeOne, sameEntry, hk]
    · rw [h1]
      have hfind := find_by_path (R (t.filter (·.kind != .socket))) (nodup_filter hwf.nodup) hb
      simp only [observeOne, rsOf, hfind, h2]
      simp [sameEntry, hk, hc]
  · have hR : R (t.filter (·.kind != .socket)) a =
        .fresh a.kind a.md [] (if a.kind = .symlink then a.target else []) (if a.kind = .dev ∨ a.kind = .chardev then a.rdev else 0) := by
      simp [R, hk]
    rw [hR]
    simp only [observeOne, sameEntry]
    cases hkk : a.kind <;> simp_all

/-- the representative of a regular file's restored inode is the path of a source entry with the same inode -/
theorem rep_spec {t : List Item} (hwf : WF t) (a : Item) (ha : a ∈ t.filter (·.kind != .socket)) (hk : a.kind = .file) :
    ∃ r, r ∈ t.filter (·.kind != .socket) ∧ r.kind = .file ∧ (r.ino, r.dev) = (a.ino, a.dev) ∧
      rep (t.filter (·.kind != .socket)) a = r.path ∧
      (a.nlink > 1 → (t.filter (·.kind != .socket)).find? (linkedItem (a.ino, a.dev)) = some r) := by
  rcases R_file hwf a ha hk with ⟨h1, h2⟩ | ⟨b, hb, hbk, hkey, _, _, hf, h1, _⟩
  · exact ⟨a, ha, hk, rfl, by simp [rep, h1], h2⟩
  · exact ⟨b, hb, hbk, hkey, by simp [rep, h1], fun _ => hf⟩

theorem grouping_F {t : List Item} (hwf : WF t) (a b : Item) (ha : a ∈ t.filter (·.kind != .socket))
    (hb : b ∈ t.filter (·.kind != .socket)) (hka : a.kind = .file) (hkb : b.kind = .file) :
    ((a.ino, a.dev) = (b.ino, b.dev)) ↔
      (posOf (rsOf (t.filter (·.kind != .socket))) (rep (t.filter (·.kind != .socket)) a) =
       posOf (rsOf (t.filter (·.kind != .socket))) (rep (t.filter (·.kind != .socket)) b)) := by
  obtain ⟨ra, hra, _, hkeya, hrepa, hfa⟩ := rep_spec hwf a ha hka
  obtain ⟨rb, hrb, _, hkeyb, hrepb, hfb⟩ := rep_spec hwf b hb hkb
  have hmem : ∀ r, r ∈ t.filter (·.kind != .socket) → r.path ∈ (rsOf (t.filter (·.kind != .socket))).map (·.1) := by
    intro r hr
    simp only [rsOf, List.map_map]
    exact List.mem_map.mpr ⟨r, hr, rfl⟩
  constructor
  · intro hkey
    have hat : a ∈ t := (List.mem_filter.mp ha).1
    have hbt : b ∈ t := (List.mem_filter.mp hb).1
    have hw := hwf.sameInode a hat b hbt hka hkb hkey
    by_cases hl : a.nlink > 1
    · have h1 := hfa hl
      have h2 := hfb (by omega)
      rw [← hkey] at h2
      rw [h1] at h2
      have : ra = rb := by simpa using h2
      rw [hrepa, hrepb, this]
    · have : a = b := hwf.single a hat b hbt hka hkb hkey (by omega)
      subst this
      rfl
  · intro hpos
    rw [hrepa, hrepb] at hpos
    have hp := posOf_inj _ _ _ (hmem ra hra) (hmem rb hrb) hpos
    have : ra = rb := item_of_path (nodup_filter hwf.nodup) hra hrb hp
    rw [← hkeya, ← hkeyb, this]

/-- the observed restored tree is equivalent to the source tree -/
theorem observe_specOK {t : List Item} (hwf : WF t) :
    specOK t (observe (rsOf (t.filter (·.kind != .socket)))) = true := by
  have hobs : observe (rsOf (t.filter (·.kind != .socket))) =
      (t.filter (·.kind != .socket)).map fun a =>
        observeOne (rsOf (t.filter (·.kind != .socket))) (a.path, R (t.filter (·.kind != .socket)) a) := by
    simp [observe, rsOf, List.map_map, Function.comp_def]
  unfold specOK
  simp only [Bool.and_eq_true]
  refine ⟨⟨?_, ?_⟩, ?_⟩
  · rw [hobs]; simp
  · rw [hobs, zip_map_self, List.all_map, List.all_eq_true]
    intro a ha
    exact sameEntry_F hwf a ha
  · unfold sameGrouping
    rw [hobs, zip_map_self]
    simp only [List.all_map, List.all_eq_true, Function.comp_def]
    intro a ha b hb
    by_cases hf : a.kind = .file ∧ b.kind = .file
    · have hg := grouping_F hwf a b ha hb hf.1 hf.2
      have ia := observeOne_ino (t.filter (·.kind != .socket)) a
      have ib := observeOne_ino (t.filter (·.kind != .socket)) b
      simp only [hf.1, hf.2, beq_self_eq_true, Bool.and_self, Bool.not_true, Bool.false_or]
      rw [ia.1, ia.2, ib.1, ib.2]
      by_cases hkey : (a.ino, a.dev) = (b.ino, b.dev)
      · have h1 : (a.dev, a.ino) = (b.dev, b.ino) := by simp at hkey ⊢; exact ⟨hkey.2, hkey.1⟩
        have h2 := hg.mp hkey
        simp [h1, h2]
      · have h1 : ¬ (a.dev, a.ino) = (b.dev, b.ino) := by
          intro h; apply hkey; simp at h ⊢; exact ⟨h.2, h.1⟩
        have h2 : ¬ _ := fun h => hkey (hg.mpr h)
        have e1 : ((a.dev, a.ino) == (b.dev, b.ino)) = false := beq_eq_false_iff_ne.mpr h1
        have e2 : ((0, posOf (rsOf (t.filter (·.kind != .socket))) (rep (t.filter (·.kind != .socket)) a)) ==
            (0, posOf (rsOf (t.filter (·.kind != .socket))) (rep (t.filter (·.kind != .socket)) b))) = false := by
          apply beq_eq_false_iff_ne.mpr
          intro h
          apply h2
          simpa using h
        rw [e1, e2]
        rfl
    · have : (a.kind == Kind.file && b.kind == Kind.file) = false := by
        by_cases h1 : a.kind = .file
        · have h2 : b.kind ≠ .file := fun h => hf ⟨h1, h⟩
          simp [h1, h2]
        · simp [h1]
      simp [this]

end Restic.Proofs.C01
