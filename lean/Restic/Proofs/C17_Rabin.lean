import Restic.Proofs.C17_Loop
/-!
# C17 — the laws L0–L3 hold for the transcription of github.com/restic/chunker

`Restic.Model.Rabin.splitter` (the transcription that the T2 run compares byte for byte with the
real library) satisfies the range law, the streaming law, reset-after-cut and the size bounds.
So the laws assumed in `Restic.Props.C17` are not only satisfiable: they are theorems about the
transcribed library, for every polynomial, table content and mask.
-/
namespace Restic.Proofs.C17Rabin
open Restic.Model.Chunk Restic.Model.Rabin Restic.Props.C17

/-! ### the scan loop -/

theorem scanByte_fst (cfg : RCfg) (s : Scan) (b : UInt8) :
    (scanByte cfg s b).1.add = s.add + 1 := rfl

theorem scan_range (cfg : RCfg) (s s' : Scan) (buf : Bytes) (i r : Nat)
    (h : scan cfg s buf i = (some r, s')) : i < r ∧ r ≤ i + buf.length := by
  induction buf generalizing s i with
  | nil => simp [scan] at h
  | cons b rest ih =>
    simp only [scan] at h
    split at h
    · simp at h; simp; omega
    · have := ih _ _ h; simp; omega

theorem scan_none_add (cfg : RCfg) (s s' : Scan) (buf : Bytes) (i : Nat)
    (h : scan cfg s buf i = (none, s')) : s'.add = s.add + buf.length := by
  induction buf generalizing s i with
  | nil => simp [scan] at h; simp [h]
  | cons b rest ih =>
    simp only [scan] at h
    split at h
    · simp at h
    · have := ih _ _ h; rw [this, scanByte_fst]; simp; omega

theorem scan_append (cfg : RCfg) (s : Scan) (a b : Bytes) (i : Nat) :
    scan cfg s (a ++ b) i =
      match scan cfg s a i with
      | (some r, s') => (some r, s')
      | (none, s') => scan cfg s' b (i + a.length) := by
  induction a generalizing s i with
  | nil => simp [scan]
  | cons x rest ih =>
    simp only [List.cons_append, scan]
    split
    · rfl
    · rw [ih]; simp only [List.length_cons]; rw [show i + 1 + rest.length = i + (rest.length + 1) by omega]

theorem scan_shift (cfg : RCfg) (s : Scan) (b : Bytes) (i n : Nat) :
    scan cfg s b (i + n) = ((scan cfg s b i).1.map (· + n), (scan cfg s b i).2) := by
  induction b generalizing s i with
  | nil => simp [scan]
  | cons x rest ih =>
    simp only [scan]
    split
    · simp; omega
    · rw [show i + n + 1 = (i + 1) + n by omega, ih]

/-- the scan loop only looks at `wpos` modulo the window size -/
def snorm (s : Scan) : Scan := { s with wpos := s.wpos % windowSize }

theorem scanByte_congr (cfg : RCfg) (s1 s2 : Scan) (b : UInt8) (h : snorm s1 = snorm s2) :
    (scanByte cfg s1 b).2 = (scanByte cfg s2 b).2 ∧ snorm (scanByte cfg s1 b).1 = snorm (scanByte cfg s2 b).1 := by
  have hd : s1.digest = s2.digest := by simpa [snorm] using congrArg Scan.digest h
  have hwin : s1.win = s2.win := by simpa [snorm] using congrArg Scan.win h
  have hadd : s1.add = s2.add := by simpa [snorm] using congrArg Scan.add h
  have hw : s1.wpos % windowSize = s2.wpos % windowSize := by simpa [snorm] using congrArg Scan.wpos h
  have hw1 : (s1.wpos + 1) % windowSize = (s2.wpos + 1) % windowSize := by
    rw [Nat.add_mod, hw, ← Nat.add_mod]
  unfold scanByte
  simp only [hd, hwin, hadd, hw, snorm, hw1, and_self]

theorem scan_congr (cfg : RCfg) (s1 s2 : Scan) (buf : Bytes) (i : Nat) (h : snorm s1 = snorm s2) :
    (scan cfg s1 buf i).1 = (scan cfg s2 buf i).1 ∧ snorm (scan cfg s1 buf i).2 = snorm (scan cfg s2 buf i).2 := by
  induction buf generalizing s1 s2 i with
  | nil => simp [scan, h]
  | cons b rest ih =>
    have hb := scanByte_congr cfg s1 s2 b h
    simp only [scan, hb.1]
    split
    · exact ⟨rfl, hb.2⟩
    · exact ih _ _ _ hb.2

theorem norm_norm (s : Scan) : snorm (snorm s) = snorm s := by
  simp [snorm]

/-! ### L0, L3 -/

theorem rabin_inRange (cfg : RCfg) : InRange (splitter cfg) := by
  constructor
  intro c a k c' h
  simp only [splitter, nextSplitPoint] at h
  split at h
  · simp at h
  · rename_i hc
    split at h
    · rename_i i s' hs
      simp at h
      have := scan_range cfg _ _ _ _ _ hs
      simp at this
      omega
    · simp at h

theorem rabin_resets (cfg : RCfg) : ResetsAfterCut (splitter cfg) := by
  constructor
  intro c a k c' h
  simp only [splitter, nextSplitPoint] at h
  split at h
  · simp at h
  · split at h
    · simp at h; exact h.2.symm
    · simp at h


/-! ### `nextSplitPoint` by cases -/

def S0 (c : RState) (cnt : Nat) : Scan := { digest := c.digest, win := c.window, wpos := c.wpos, add := cnt }

def store (s : Scan) (cnt : Nat) : RState :=
  { window := s.win, wpos := s.wpos % windowSize, digest := s.digest, pre := 0, count := cnt,
    hw := Nat.mod_lt _ (by decide) }

theorem nsp_skip (cfg : RCfg) (c : RState) (buf : Bytes) (h : c.pre > 0 ∧ c.pre ≥ buf.length) :
    nextSplitPoint cfg c buf = (none, { c with pre := c.pre - buf.length, count := c.count + buf.length }) := by
  simp only [nextSplitPoint, h, and_self, if_true]

theorem nsp_some (cfg : RCfg) (c : RState) (buf : Bytes) (h : ¬(c.pre > 0 ∧ c.pre ≥ buf.length)) (i : Nat) (s : Scan)
    (hs : scan cfg (S0 c (c.count + c.pre)) (buf.drop c.pre) 0 = (some i, s)) :
    nextSplitPoint cfg c buf = (some (c.pre + i), reset cfg) := by
  simp only [nextSplitPoint, h, if_false]
  simp only [S0] at hs
  rw [hs]

theorem nsp_none (cfg : RCfg) (c : RState) (buf : Bytes) (h : ¬(c.pre > 0 ∧ c.pre ≥ buf.length)) (s : Scan)
    (hs : scan cfg (S0 c (c.count + c.pre)) (buf.drop c.pre) 0 = (none, s)) :
    nextSplitPoint cfg c buf = (none, store s (c.count + c.pre + (buf.drop c.pre).length)) := by
  simp only [nextSplitPoint, h, if_false]
  simp only [S0] at hs
  rw [hs]
  rfl

/-- case analysis of one call -/
theorem nsp_cases (cfg : RCfg) (c : RState) (buf : Bytes) :
    (c.pre > 0 ∧ c.pre ≥ buf.length ∧
      nextSplitPoint cfg c buf = (none, { c with pre := c.pre - buf.length, count := c.count + buf.length })) ∨
    (¬(c.pre > 0 ∧ c.pre ≥ buf.length) ∧ ∃ i s, scan cfg (S0 c (c.count + c.pre)) (buf.drop c.pre) 0 = (some i, s) ∧
      nextSplitPoint cfg c buf = (some (c.pre + i), reset cfg)) ∨
    (¬(c.pre > 0 ∧ c.pre ≥ buf.length) ∧ ∃ s, scan cfg (S0 c (c.count + c.pre)) (buf.drop c.pre) 0 = (none, s) ∧
      nextSplitPoint cfg c buf = (none, store s (c.count + c.pre + (buf.drop c.pre).length))) := by
  by_cases h : c.pre > 0 ∧ c.pre ≥ buf.length
  · exact Or.inl ⟨h.1, h.2, nsp_skip cfg c buf h⟩
  · cases hs : scan cfg (S0 c (c.count + c.pre)) (buf.drop c.pre) 0 with
    | mk o s =>
      cases o with
      | some i => exact Or.inr (Or.inl ⟨h, i, s, rfl, nsp_some cfg c buf h i s hs⟩)
      | none => exact Or.inr (Or.inr ⟨h, s, rfl, nsp_none cfg c buf h s hs⟩)

/-! ### L1 streaming -/

theorem rabin_some_append (cfg : RCfg) (c : RState) (a b : Bytes) (k : Nat) (c' : RState)
    (h : nextSplitPoint cfg c a = (some k, c')) : nextSplitPoint cfg c (a ++ b) = (some k, c') := by
  rcases nsp_cases cfg c a with ⟨_, _, h1⟩ | ⟨hc, i, s, hs, h1⟩ | ⟨_, s, _, h1⟩
  · rw [h1] at h; simp at h
  · rw [h1] at h
    rw [← h]
    have hle : c.pre ≤ a.length := by omega
    have hc' : ¬(c.pre > 0 ∧ c.pre ≥ (a ++ b).length) := by simp; omega
    apply nsp_some cfg c (a ++ b) hc' i s
    rw [List.drop_append_of_le_length hle, scan_append, hs]
  · rw [h1] at h; simp at h

theorem rstate_ext (c1 c2 : RState) (h1 : c1.window = c2.window) (h2 : c1.wpos = c2.wpos) (h3 : c1.digest = c2.digest)
    (h4 : c1.pre = c2.pre) (h5 : c1.count = c2.count) : c1 = c2 := by
  cases c1; cases c2; simp at *; exact ⟨h1, h2, h3, h4, h5⟩

theorem rabin_none_append (cfg : RCfg) (c : RState) (a b : Bytes) (c' : RState)
    (h : nextSplitPoint cfg c a = (none, c')) :
    nextSplitPoint cfg c (a ++ b) =
      ((nextSplitPoint cfg c' b).1.map (· + a.length), (nextSplitPoint cfg c' b).2) := by
  rcases nsp_cases cfg c a with ⟨hp, hge, h1⟩ | ⟨_, i, s, _, h1⟩ | ⟨hc, s1, hs1, h1⟩
  · -- all of `a` is skipped
    rw [h1] at h
    have hc'eq : c' = { c with pre := c.pre - a.length, count := c.count + a.length } := by
      simpa using (congrArg Prod.snd h).symm
    obtain ⟨c1, hc1⟩ : ∃ c1 : RState, c1 = { c with pre := c.pre - a.length, count := c.count + a.length } := ⟨_, rfl⟩
    have p1 : c1.pre = c.pre - a.length := by rw [hc1]
    have p2 : c1.count = c.count + a.length := by rw [hc1]
    have p3 : c1.window = c.window := by rw [hc1]
    have p4 : c1.wpos = c.wpos := by rw [hc1]
    have p5 : c1.digest = c.digest := by rw [hc1]
    rw [hc'eq, ← hc1]
    clear hc'eq hc1 h h1
    by_cases hall : c.pre ≥ a.length + b.length
    · -- all of `a ++ b` is skipped
      rw [nsp_skip cfg c (a ++ b) ⟨hp, by simp; omega⟩]
      by_cases hpos : c1.pre > 0
      · rw [nsp_skip cfg c1 b ⟨hpos, by omega⟩]
        simp only [Option.map_none, List.length_append]
        congr 1
        apply rstate_ext <;> simp [p3, p4, p5] <;> omega
      · have hb : b = [] := by
          have : b.length = 0 := by omega
          exact List.length_eq_zero_iff.mp this
        subst hb
        have hcn : ¬(c1.pre > 0 ∧ c1.pre ≥ ([] : Bytes).length) := by omega
        rw [nsp_none cfg c1 [] hcn (S0 c1 (c1.count + c1.pre)) (by simp [scan])]
        simp only [Option.map_none, List.append_nil]
        congr 1
        apply rstate_ext <;> simp [store, S0, p3, p4, p5]
        · exact (Nat.mod_eq_of_lt c.hw).symm
        · omega
        · omega
    · -- the skip ends inside `b`
      have hc1 : ¬(c.pre > 0 ∧ c.pre ≥ (a ++ b).length) := by simp; omega
      have hc2 : ¬(c1.pre > 0 ∧ c1.pre ≥ b.length) := by omega
      have hdrop : (a ++ b).drop c.pre = b.drop c1.pre := by
        rw [List.drop_append, List.drop_of_length_le hge, p1]; simp
      have hS : S0 c1 (c1.count + c1.pre) = S0 c (c.count + c.pre) := by
        simp [S0, p3, p4, p5]; omega
      cases hs : scan cfg (S0 c (c.count + c.pre)) (b.drop c1.pre) 0 with
      | mk o s =>
        cases o with
        | some i =>
          rw [nsp_some cfg c (a ++ b) hc1 i s (by rw [hdrop]; exact hs)]
          rw [nsp_some cfg c1 b hc2 i s (by rw [hS]; exact hs)]
          simp; omega
        | none =>
          rw [nsp_none cfg c (a ++ b) hc1 s (by rw [hdrop]; exact hs)]
          rw [nsp_none cfg c1 b hc2 s (by rw [hS]; exact hs)]
          simp only [Option.map_none, hdrop]
          congr 1
          apply rstate_ext <;> simp [store] <;> omega
  · rw [h1] at h; simp at h
  · -- `a` was scanned (after the skip) without finding a split
    rw [h1] at h
    have hc'eq : c' = store s1 (c.count + c.pre + (a.drop c.pre).length) := by
      simpa using (congrArg Prod.snd h).symm
    subst hc'eq
    have hle : c.pre ≤ a.length := by omega
    have hc1 : ¬(c.pre > 0 ∧ c.pre ≥ (a ++ b).length) := by simp; omega
    have hc2 : ¬((store s1 (c.count + c.pre + (a.drop c.pre).length)).pre > 0 ∧
        (store s1 (c.count + c.pre + (a.drop c.pre).length)).pre ≥ b.length) := by simp [store]
    have hadd := scan_none_add cfg _ _ _ _ hs1
    have hnorm : snorm (S0 (store s1 (c.count + c.pre + (a.drop c.pre).length))
        ((store s1 (c.count + c.pre + (a.drop c.pre).length)).count + (store s1 (c.count + c.pre + (a.drop c.pre).length)).pre)) = snorm s1 := by
      simp only [snorm, S0, store, Nat.mod_mod, Nat.add_zero]
      rw [hadd]; simp [S0]
    have hcong := scan_congr cfg _ _ b 0 hnorm
    have hL : scan cfg (S0 c (c.count + c.pre)) ((a ++ b).drop c.pre) 0 = scan cfg s1 b (0 + (a.drop c.pre).length) := by
      rw [List.drop_append_of_le_length hle, scan_append, hs1]
    rw [scan_shift] at hL
    have hdl : (a.drop c.pre).length + c.pre = a.length := by simp; omega
    cases hs2 : scan cfg s1 b 0 with
    | mk o s2 =>
      rw [hs2] at hL hcong
      cases hs3 : scan cfg (S0 (store s1 (c.count + c.pre + (a.drop c.pre).length))
        ((store s1 (c.count + c.pre + (a.drop c.pre).length)).count + (store s1 (c.count + c.pre + (a.drop c.pre).length)).pre)) b 0 with
      | mk o3 s3 =>
        rw [hs3] at hcong
        simp only at hcong
        obtain ⟨ho, hsn⟩ := hcong
        subst ho
        have hs3' : scan cfg (S0 (store s1 (c.count + c.pre + (a.drop c.pre).length))
            ((store s1 (c.count + c.pre + (a.drop c.pre).length)).count + (store s1 (c.count + c.pre + (a.drop c.pre).length)).pre))
            (b.drop (store s1 (c.count + c.pre + (a.drop c.pre).length)).pre) 0 = (o3, s3) := by
          simpa [store] using hs3
        cases o3 with
        | some i =>
          simp only [Option.map_some] at hL
          rw [nsp_some cfg c (a ++ b) hc1 _ s2 hL]
          rw [nsp_some cfg _ b hc2 i s3 hs3']
          simp [store]; omega
        | none =>
          simp only [Option.map_none] at hL
          rw [nsp_none cfg c (a ++ b) hc1 s2 hL]
          rw [nsp_none cfg _ b hc2 s3 hs3']
          simp only [Option.map_none]
          congr 1
          have e1 : s3.win = s2.win := by simpa [snorm] using congrArg Scan.win hsn
          have e2 : s3.digest = s2.digest := by simpa [snorm] using congrArg Scan.digest hsn
          have e3 : s3.wpos % windowSize = s2.wpos % windowSize := by simpa [snorm] using congrArg Scan.wpos hsn
          apply rstate_ext <;> simp [store, e1, e2, e3, List.drop_append_of_le_length hle]
          omega

theorem rabin_streaming (cfg : RCfg) : Streaming (splitter cfg) :=
  ⟨fun s a b s' h => rabin_none_append cfg s a b s' h, fun s a b k s' h => rabin_some_append cfg s a b k s' h⟩


/-! ### L2 size bounds -/

theorem scanByte_true (cfg : RCfg) (s : Scan) (b : UInt8) (h : (scanByte cfg s b).2 = true) :
    cfg.minSize ≤ s.add + 1 := by
  unfold scanByte at h
  simp only at h
  split at h
  · split at h
    · cases h
    · omega
  · cases h

theorem scanByte_false (cfg : RCfg) (s : Scan) (b : UInt8) (h : (scanByte cfg s b).2 = false) :
    s.add + 1 < cfg.minSize ∨ s.add + 1 < cfg.maxSize := by
  unfold scanByte at h
  simp only at h
  split at h
  · split at h
    · left; assumption
    · cases h
  · rename_i hc
    right
    have : ¬ (s.add + 1 ≥ cfg.maxSize) := fun hx => hc (Or.inr hx)
    omega

theorem scan_some_bounds (cfg : RCfg) (hmm : cfg.minSize ≤ cfg.maxSize) (s s' : Scan) (buf : Bytes) (i r : Nat)
    (h : scan cfg s buf i = (some r, s')) :
    cfg.minSize ≤ s.add + (r - i) ∧ (s.add + (r - i) ≤ cfg.maxSize ∨ r = i + 1) := by
  induction buf generalizing s i with
  | nil => simp [scan] at h
  | cons b rest ih =>
    simp only [scan] at h
    split at h
    · rename_i ht
      simp at h
      have := scanByte_true cfg s b ht
      obtain ⟨h1, _⟩ := h
      subst h1
      exact ⟨by omega, Or.inr rfl⟩
    · rename_i hf
      have hf' : (scanByte cfg s b).2 = false := by simpa using hf
      have hb := scanByte_false cfg s b hf'
      have hr := scan_range cfg _ _ _ _ _ h
      have := ih _ _ h
      rw [scanByte_fst] at this
      refine ⟨by omega, Or.inl ?_⟩
      rcases this.2 with h2 | h2
      · omega
      · omega

theorem scan_none_lt (cfg : RCfg) (hmm : cfg.minSize ≤ cfg.maxSize) (s s' : Scan) (buf : Bytes) (i : Nat)
    (hne : buf ≠ []) (h : scan cfg s buf i = (none, s')) : s.add + buf.length < cfg.maxSize := by
  induction buf generalizing s i with
  | nil => exact absurd rfl hne
  | cons b rest ih =>
    simp only [scan] at h
    split at h
    · simp at h
    · rename_i hf
      have hf' : (scanByte cfg s b).2 = false := by simpa using hf
      have hb := scanByte_false cfg s b hf'
      by_cases hr : rest = []
      · subst hr; simp; omega
      · have := ih _ _ hr h
        rw [scanByte_fst] at this
        simp; omega

theorem rabin_bounded (cfg : RCfg) (hmm : cfg.minSize ≤ cfg.maxSize) (hmax : 0 < cfg.maxSize) :
    Bounded (splitter cfg) cfg.minSize cfg.maxSize := by
  have hpre : (reset cfg).pre = cfg.minSize - windowSize := rfl
  have hcount : (reset cfg).count = 0 := rfl
  constructor
  · intro a k s' h
    simp only [splitter] at h
    rcases nsp_cases cfg (reset cfg) a with ⟨_, _, h1⟩ | ⟨hc, i, s, hs, h1⟩ | ⟨_, s, _, h1⟩
    · rw [h1] at h; simp at h
    · rw [h1] at h
      have hk : k = (reset cfg).pre + i := by simpa using (congrArg Prod.fst h).symm
      have hb := scan_some_bounds cfg hmm _ _ _ _ _ hs
      have hr := scan_range cfg _ _ _ _ _ hs
      simp only [S0, hcount, Nat.zero_add, Nat.sub_zero] at hb
      rw [hpre] at hb hk
      simp only [windowSize] at hb hk
      omega
    · rw [h1] at h; simp at h
  · intro a s' hlen h
    simp only [splitter] at h
    rcases nsp_cases cfg (reset cfg) a with ⟨hp, hge, _⟩ | ⟨_, i, s, _, h1⟩ | ⟨hc, s, hs, _⟩
    · rw [hpre] at hp hge; simp only [windowSize] at hp hge; omega
    · rw [h1] at h; simp at h
    · have hne : a.drop (reset cfg).pre ≠ [] := by
        intro hx
        have := congrArg List.length hx
        rw [hpre] at this hc
        simp only [windowSize, List.length_drop, List.length_nil] at this hc
        omega
      have := scan_none_lt cfg hmm _ _ _ _ hne hs
      simp only [S0, hcount, Nat.zero_add, List.length_drop] at this
      rw [hpre] at this hc
      simp only [windowSize] at this hc
      omega

/-- **C17 for the transcribed library**: restic's chunk loop over the transcription of
    github.com/restic/chunker, for every polynomial / table content / mask, every `min ≤ max`,
    every read-buffer size ≥ 1 and every file, yields chunks satisfying the executable statement. -/
theorem rabin_chunks_specOK (cfg : RCfg) (hmm : cfg.minSize ≤ cfg.maxSize) (hmax : 0 < cfg.maxSize)
    (bufSize : Nat) (hb : 0 < bufSize) (file : Bytes) :
    ∃ cs, chunks (splitter cfg) bufSize file = .ok cs ∧ specOK cfg.minSize cfg.maxSize file cs = true :=
  chunks_specOK (splitter cfg) (rabin_inRange cfg) (rabin_streaming cfg) (rabin_resets cfg) _ _
    (rabin_bounded cfg hmm hmax) bufSize hb file

theorem rabin_buffer_indep (cfg : RCfg) (bufA bufB : Nat) (ha : 0 < bufA) (hb : 0 < bufB) (file : Bytes) :
    chunks (splitter cfg) bufA file = chunks (splitter cfg) bufB file :=
  chunks_buffer_indep _ (rabin_inRange cfg) (rabin_streaming cfg) bufA bufB ha hb file

end Restic.Proofs.C17Rabin
