import Restic.Proofs.C28_Expand
/-!
# C28 helper lemmas, part 3: every outcome of `match` (fixed loop bound), with its meaning
-/
namespace Restic.Proofs.C28
open Restic.Model.Filter

/-- every possible result of `match` and what it means; `panic` and `fuel` are not among them -/
inductive Outcome (glob : Glob) (parts : List Part) (strs : List Str) : Res Bool → Prop
  | yes : MatchSpec glob parts strs → Outcome glob parts strs (.ok true)
  | no : ¬ MatchSpec glob parts strs → Outcome glob parts strs (.ok false)
  | bad : BadOn glob parts strs → Outcome glob parts strs (.err .badPattern)

theorem badOn_mono {glob : Glob} {ps ps' : List Part} {strs : List Str}
    (hsub : ∀ p ∈ ps, p ∈ ps' ∨ p = starPart) (h : BadOn glob ps strs) : BadOn glob ps' strs := by
  rcases h with ⟨p, hp, c, hc, hm⟩
  rcases hp with hp | hp
  · exact ⟨p, hsub p hp, c, hc, hm⟩
  · exact ⟨p, Or.inr hp, c, hc, hm⟩

theorem copyInto_replicate (n : Nat) (pre : List Part) (h : pre.length ≤ n) :
    copyInto (List.replicate n zeroPart) pre = pre ++ List.replicate (n - pre.length) zeroPart := by
  simp only [copyInto, List.length_replicate]
  rw [List.take_of_length_le h]
  have : min n pre.length = pre.length := by omega
  rw [this]
  simp

theorem matchFuel_outcome (glob : Glob) (strs : List Str) :
    ∀ fuel parts, countDW parts < fuel →
      Outcome glob parts strs (matchFuel itersFixed glob fuel parts strs) := by
  intro fuel
  induction fuel with
  | zero => intro parts h; omega
  | succ fuel ih =>
    intro parts hfuel
    unfold matchFuel
    cases hdw : hasDW parts with
    | none =>
      simp only
      have hno := hasDW_none hdw
      have hiff : MatchSpec glob parts strs ↔ MatchFlatSpec glob parts strs := by
        constructor
        · rintro ⟨qs, he, hm⟩
          rw [(expand_noDW hno).mp he] at hm; exact hm
        · intro hm
          exact ⟨parts, (expand_noDW hno).mpr rfl, hm⟩
      have hfo := matchFlat_outcome glob parts strs
      generalize matchFlat glob parts strs = r at hfo ⊢
      cases hfo with
      | yes h => exact .yes (hiff.mpr h)
      | no h => exact .no (fun h' => h (hiff.mp h'))
      | bad h => exact .bad h
    | some pos =>
      simp only
      rcases hasDW_some hdw with ⟨pre, d, tail, hparts, hlen, hpre, hd⟩
      have hs1 : sliceTo parts pos = some pre := by
        simp only [sliceTo, hparts, List.length_append, List.length_cons]
        rw [if_pos (by omega)]
        rw [← hlen]; simp
      have hs2 : sliceFrom parts (pos + 1) = some tail := by
        simp only [sliceFrom, hparts, List.length_append, List.length_cons]
        rw [if_pos (by omega)]
        rw [← hlen]; simp
      rw [hs1, hs2]
      simp only
      -- facts about the pattern
      have hreq : required parts = pre.length + required tail := by
        rw [hparts, required_append, required_cons_dw hd, required_noDW hpre]
      have hcnt : countDW parts = countDW tail + 1 := by
        rw [hparts, countDW_append, countDW_noDW hpre, countDW_cons_dw hd]; omega
      -- the recursive calls
      have hrec : ∀ j, Outcome glob (pre ++ (List.replicate j starPart ++ tail)) strs
          (matchFuel itersFixed glob fuel (pre ++ (List.replicate j starPart ++ tail)) strs) := by
        intro j
        apply ih
        rw [countDW_append, countDW_append, countDW_noDW hpre, countDW_noDW (noDW_replicate_star j)]
        omega
      have hsub : ∀ j, ∀ p ∈ pre ++ (List.replicate j starPart ++ tail), p ∈ parts ∨ p = starPart := by
        intro j p hp
        rw [hparts]
        rcases List.mem_append.mp hp with h | h
        · left; exact List.mem_append.mpr (Or.inl h)
        · rcases List.mem_append.mp h with h | h
          · right; exact (List.mem_replicate.mp h).2
          · left; exact List.mem_append.mpr (Or.inr (List.mem_cons_of_mem _ h))
      -- the meaning of the pattern in terms of the expansions of its first recursive wildcard
      have hspec : MatchSpec glob parts strs ↔
          ∃ j, MatchSpec glob (pre ++ (List.replicate j starPart ++ tail)) strs := by
        constructor
        · rintro ⟨qs, he, hm⟩
          rw [hparts] at he
          rcases (expand_first_dw hpre hd).mp he with ⟨j, hj⟩
          exact ⟨j, qs, hj, hm⟩
        · rintro ⟨j, qs, he, hm⟩
          refine ⟨qs, ?_, hm⟩
          rw [hparts]
          exact (expand_first_dw hpre hd).mpr ⟨j, he⟩
      have hjbound : ∀ j, MatchSpec glob (pre ++ (List.replicate j starPart ++ tail)) strs →
          j < itersFixed parts strs := by
        intro j hj
        have := matchSpec_required hj
        rw [required_append, required_append, required_replicate_star, required_noDW hpre] at this
        unfold itersFixed
        omega
      -- replace the buffer loop by the clean loop
      have hloop : expandLoop (fun np => matchFuel itersFixed glob fuel np strs) tail pos
            (itersFixed parts strs) 0 (copyInto (List.replicate strs.length zeroPart) pre) =
          cleanLoop (fun np => matchFuel itersFixed glob fuel np strs) pre tail (itersFixed parts strs) 0 := by
        by_cases hit : itersFixed parts strs = 0
        · rw [hit]; rfl
        · have hle : pre.length ≤ strs.length := by
            unfold itersFixed at hit; omega
          rw [← hlen]
          apply expandLoop_eq_clean _ pre tail strs.length
          · rw [copyInto_replicate _ _ hle]; simp; omega
          · rw [copyInto_replicate _ _ hle]; simp
          · right
            unfold itersFixed; unfold itersFixed at hit
            omega
      rw [hloop]
      rcases cleanLoop_cases (fun np => matchFuel itersFixed glob fuel np strs) pre tail
          (itersFixed parts strs) 0 with ⟨h1, j, _, _, h4⟩ | ⟨h1, h2⟩ | ⟨j, _, _, h3, h4⟩
      · rw [h1]
        have := hrec j
        rw [h4] at this
        cases this with
        | yes h => exact .yes (hspec.mpr ⟨j, h⟩)
      · rw [h1]
        refine .no ?_
        intro hm
        rcases hspec.mp hm with ⟨j, hj⟩
        have hjb := hjbound j hj
        have h5 := h2 j (Nat.zero_le _) (by omega)
        have := hrec j
        rw [h5] at this
        cases this with
        | no h => exact h hj
      · rw [h3]
        have := hrec j
        generalize matchFuel itersFixed glob fuel (pre ++ (List.replicate j starPart ++ tail)) strs = r at this h4 ⊢
        cases this with
        | yes h => exact absurd rfl (h4 true)
        | no h => exact absurd rfl (h4 false)
        | bad h => exact .bad (badOn_mono (hsub j) h)

theorem matchGo_outcome (glob : Glob) (parts : List Part) (strs : List Str) :
    Outcome glob parts strs (matchGo glob parts strs) :=
  matchFuel_outcome glob strs _ parts (Nat.lt_succ_self _)

end Restic.Proofs.C28
