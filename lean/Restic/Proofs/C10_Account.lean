import Restic.Proofs.C09_Plan
/-!
Helper lemmas for C10: exact accounting of the duplicate selection. After `packInfoFromIndex`
* `unusedBlobs` of a pack is the number of its entries that are neither the single entry of a used
  blob nor the selected entry of a duplicated used blob;
* every used blob has exactly one such "marked" entry, unused blobs have none.
-/
namespace Restic.Proofs.C10Account
open Restic.Model.Repo Restic.Model.Prune Restic.Proofs.C09Select

/-- unused blobs of a pack (0 when the pack is not in the map) -/
def un (ip : IP) (p : ID) : Nat := ((ip p).getD {}).unusedBlobs

/-- entry of pack `p` that is not the only entry of a used blob -/
def nsP (cnt1 : Cnt) (p : ID) (x : PB) : Bool := x.pack == p && !(cnt1 x.e.blob == some 1)

def unmarkedP (cnt1 : Cnt) (p : ID) (xm : PB × Bool) : Bool := nsP cnt1 p xm.1 && !xm.2

def markedB (b : BlobH) (xm : PB × Bool) : Bool := xm.1.e.blob == b && xm.2

/-! ### second pass -/

theorem pass2Step_un (cnt : Cnt) (s : S2) (pb : PB) (p : ID) :
    un (pass2Step cnt s pb).ip p = un s.ip p + (if nsP cnt p pb then 1 else 0) := by
  unfold pass2Step un nsP
  simp only [upd]
  by_cases hp : p = pb.pack
  · subst hp
    simp only [if_true, Option.getD_some, beq_self_eq_true, Bool.true_and]
    cases hc : cnt pb.e.blob with
    | none => simp; split <;> split <;> split <;> simp
    | some n =>
      by_cases h1 : n = 1
      · subst h1; simp; split <;> split <;> split <;> simp
      · by_cases h2 : n ≥ 2
        · simp [h1, h2]; split <;> split <;> split <;> simp
        · have : n = 0 := by omega
          subst this; simp; split <;> split <;> split <;> simp
  · have hp' : (pb.pack == p) = false := by simpa using fun h => hp h.symm
    simp [hp, hp']

theorem pass2Fold_un (cnt : Cnt) (l : List PB) : ∀ (s : S2) (p : ID),
    un (l.foldl (pass2Step cnt) s).ip p = un s.ip p + l.countP (nsP cnt p) := by
  induction l with
  | nil => intro s p; simp
  | cons pb l ih =>
    intro s p
    simp only [List.foldl_cons, ih, pass2Step_un, List.countP_cons]
    omega

theorem un_ipOf (hs : HdrS) (p : ID) : un (ipOf hs) p = 0 := by
  unfold un ipOf
  cases hs.f p <;> simp

/-! ### third pass -/

/-- state of blob `b` relative to the visited entries `pre` (with their marks) and the entries
    still to visit -/
def BlobSt (cnt1 : Cnt) (s : S3) (z : List (PB × Bool)) (rest : List PB) (b : BlobH) : Prop :=
  match cnt1 b with
  | none => s.cnt b = none ∧ z.countP (markedB b) = 0
  | some n =>
    if n = 1 then s.cnt b = some 1 ∧ z.countP (markedB b) = 0
    else
      (s.cnt b = some 1 ∧ z.countP (markedB b) = 1)
      ∨ (∃ c, s.cnt b = some c ∧ 2 ≤ c ∧ c ≤ occ b rest ∧ z.countP (markedB b) = 0)
      ∨ (s.cnt b = some 0 ∧ 1 ≤ occ b rest ∧ z.countP (markedB b) = 0)

structure Inv3 (cnt1 : Cnt) (idx : List PB) (s : S3) (pre rest : List PB) : Prop where
  split : pre ++ rest = idx
  len : s.marks.length = pre.length
  un_eq : ∀ p, un s.ip p = (pre.zip s.marks.reverse).countP (unmarkedP cnt1 p) + rest.countP (nsP cnt1 p)
  blob : ∀ b, BlobSt cnt1 s (pre.zip s.marks.reverse) rest b

theorem zip_snoc (pre : List PB) (marks : List Bool) (x : PB) (m : Bool) (h : marks.length = pre.length) :
    (pre ++ [x]).zip ((m :: marks).reverse) = pre.zip marks.reverse ++ [(x, m)] := by
  rw [List.reverse_cons, List.zip_append (by simp [h])]
  rfl

/-- a visited entry that is skipped or not selected: the accounting is shifted from `rest` to the
    visited part, unchanged in value -/
theorem un_shift (cnt1 : Cnt) (z : List (PB × Bool)) (x : PB) (rest : List PB) (p : ID) :
    (z ++ [(x, false)]).countP (unmarkedP cnt1 p) + rest.countP (nsP cnt1 p)
      = z.countP (unmarkedP cnt1 p) + (x :: rest).countP (nsP cnt1 p) := by
  simp only [List.countP_append, List.countP_cons, List.countP_nil, unmarkedP, Bool.not_false, Bool.and_true]
  omega

theorem marked_shift_false (b : BlobH) (z : List (PB × Bool)) (x : PB) :
    (z ++ [(x, false)]).countP (markedB b) = z.countP (markedB b) := by
  simp [List.countP_append, markedB]

theorem marked_shift_true (b : BlobH) (z : List (PB × Bool)) (x : PB) :
    (z ++ [(x, true)]).countP (markedB b) = z.countP (markedB b) + (if x.e.blob = b then 1 else 0) := by
  simp [List.countP_append, markedB]

/-- blobs other than the visited one keep their state when the counter map changes only at the
    visited blob and the new mark does not concern them -/
theorem blobSt_other (cnt1 : Cnt) (s s' : S3) (z : List (PB × Bool)) (x : PB) (m : Bool) (rest : List PB) (b : BlobH)
    (hb : b ≠ x.e.blob) (hcnt : s'.cnt b = s.cnt b)
    (h : BlobSt cnt1 s z (x :: rest) b) : BlobSt cnt1 s' (z ++ [(x, m)]) rest b := by
  have hb' : ¬ x.e.blob = b := fun hc => hb hc.symm
  have hm : (z ++ [(x, m)]).countP (markedB b) = z.countP (markedB b) := by
    cases m
    · exact marked_shift_false b z x
    · rw [marked_shift_true]; simp [hb']
  have ho : occ b (x :: rest) = occ b rest := by
    rw [occ_cons]; simp [hb']
  unfold BlobSt at h ⊢
  rw [hm, hcnt]
  rw [ho] at h
  exact h

theorem pass3Step_inv (cnt1 : Cnt) (idx : List PB) (s : S3) (pre : List PB) (x : PB) (rest : List PB)
    (h : Inv3 cnt1 idx s pre (x :: rest)) : Inv3 cnt1 idx (pass3Step s x) (pre ++ [x]) rest := by
  obtain ⟨hsplit, hlen, hun, hblob⟩ := h
  have hsplit' : (pre ++ [x]) ++ rest = idx := by simpa using hsplit
  -- skip: state unchanged except for the mark
  have skip : (s.cnt x.e.blob = none ∨ s.cnt x.e.blob = some 1) →
      Inv3 cnt1 idx { s with marks := false :: s.marks } (pre ++ [x]) rest := by
    intro hc
    refine ⟨hsplit', by simp [hlen], ?_, ?_⟩
    · intro p
      simp only
      rw [zip_snoc pre s.marks x false hlen, un_shift]
      exact hun p
    · intro b
      simp only
      rw [zip_snoc pre s.marks x false hlen]
      by_cases hb : b = x.e.blob
      · subst hb
        have h0 := hblob x.e.blob
        unfold BlobSt at h0 ⊢
        rw [marked_shift_false]
        cases hc1 : cnt1 x.e.blob with
        | none => simpa [hc1] using h0
        | some n =>
          simp only [hc1] at h0 ⊢
          by_cases hn : n = 1
          · simpa [hn] using h0
          · simp only [hn, if_false] at h0 ⊢
            rcases hc with hc | hc
            · rcases h0 with h0 | ⟨c, h0, _⟩ | h0 <;> simp [hc] at h0
            · rcases h0 with h0 | ⟨c, h0, h2, _⟩ | h0
              · exact Or.inl h0
              · rw [hc] at h0; injection h0 with h0; omega
              · rw [hc] at h0; simp at h0
      · exact blobSt_other cnt1 s _ _ x false rest b hb rfl (hblob b)
  unfold pass3Step
  cases hc : s.cnt x.e.blob with
  | none => simpa using skip (Or.inl hc)
  | some count =>
    simp only
    by_cases h1 : count = 1
    · simp only [h1, if_true]; exact skip (Or.inr (h1 ▸ hc))
    · simp only [h1, if_false]
      -- the visited entry belongs to a duplicated blob
      have h0 := hblob x.e.blob
      have hdup : ∃ n, cnt1 x.e.blob = some n ∧ n ≠ 1 := by
        unfold BlobSt at h0
        cases hc1 : cnt1 x.e.blob with
        | none => simp [hc1, hc] at h0
        | some n =>
          refine ⟨n, rfl, fun hn => ?_⟩
          simp [hc1, hn, hc] at h0
          exact h1 h0.1
      obtain ⟨n, hn, hn1⟩ := hdup
      have hns : ∀ p, nsP cnt1 p x = (x.pack == p) := by
        intro p; simp [nsP, hn, hn1]
      have hst : (s.cnt x.e.blob = some count) ∧
          ((∃ c, s.cnt x.e.blob = some c ∧ 2 ≤ c ∧ c ≤ occ x.e.blob (x :: rest)) ∨ (s.cnt x.e.blob = some 0 ∧ 1 ≤ occ x.e.blob (x :: rest))) ∧
          (pre.zip s.marks.reverse).countP (markedB x.e.blob) = 0 := by
        unfold BlobSt at h0
        simp only [hn, hn1, if_false] at h0
        rcases h0 with h0 | ⟨c, h0, h2, h3, h4⟩ | ⟨h0, h2, h3⟩
        · rw [hc] at h0; exact absurd (Option.some.inj h0.1) h1
        · exact ⟨hc, Or.inl ⟨c, h0, h2, h3⟩, h4⟩
        · exact ⟨hc, Or.inr ⟨h0, h2⟩, h3⟩
      obtain ⟨_, hcase, hmc⟩ := hst
      split
      · -- selected
        refine ⟨hsplit', by simp [hlen], ?_, ?_⟩
        · intro p
          simp only
          rw [zip_snoc pre s.marks x true hlen]
          have hp := hun p
          simp only [List.countP_cons, hns] at hp
          simp only [List.countP_append, List.countP_cons, List.countP_nil, unmarkedP, Bool.not_true, Bool.and_false]
          unfold un at hp ⊢
          simp only [upd]
          by_cases hpp : p = x.pack
          · subst hpp
            simp only [if_true, Option.getD_some]
            simp only [beq_self_eq_true, if_true] at hp
            simp; omega
          · have : (x.pack == p) = false := by simpa using fun h => hpp h.symm
            simp only [hpp, if_false]
            simp only [this] at hp
            simpa using hp
        · intro b
          simp only
          rw [zip_snoc pre s.marks x true hlen]
          by_cases hb : b = x.e.blob
          · subst hb
            unfold BlobSt
            simp only [hn, hn1, if_false]
            left
            refine ⟨by simp [upd], ?_⟩
            rw [marked_shift_true, hmc]; simp
          · exact blobSt_other cnt1 s _ _ x true rest b hb (by simp [upd, hb]) (hblob b)
      · -- not selected
        rename_i hsel
        have hne0 : count ≠ 0 := fun h => hsel (Or.inr (Or.inr h))
        refine ⟨hsplit', by simp [hlen], ?_, ?_⟩
        · intro p
          simp only
          rw [zip_snoc pre s.marks x false hlen, un_shift]
          have hp := hun p
          unfold un at hp ⊢
          simp only [upd]
          by_cases hpp : p = x.pack
          · subst hpp; simpa using hp
          · simpa [hpp] using hp
        · intro b
          simp only
          rw [zip_snoc pre s.marks x false hlen]
          by_cases hb : b = x.e.blob
          · subst hb
            unfold BlobSt
            simp only [hn, hn1, if_false]
            rw [marked_shift_false, hmc]
            rw [occ_cons] at hcase
            simp only [if_true] at hcase
            have hle : count ≤ 1 + occ x.e.blob rest ∧ 2 ≤ count := by
              rcases hcase with ⟨c, hc', h2, h3⟩ | ⟨hc', _⟩
              · rw [hc] at hc'; injection hc' with hc'; omega
              · rw [hc] at hc'; injection hc' with hc'; omega
            by_cases h2 : count - 1 = 1
            · right; right
              simp only [h2, if_true, upd]
              exact ⟨by simp, by omega, trivial⟩
            · right; left
              simp only [h2, if_false, upd]
              exact ⟨count - 1, by simp, by omega, by omega, trivial⟩
          · exact blobSt_other cnt1 s _ _ x false rest b hb (by simp [upd, hb]) (hblob b)

theorem pass3Fold_inv (cnt1 : Cnt) (idx : List PB) : ∀ (rest : List PB) (s : S3) (pre : List PB),
    Inv3 cnt1 idx s pre rest → Inv3 cnt1 idx (rest.foldl pass3Step s) idx [] := by
  intro rest
  induction rest with
  | nil =>
    intro s pre h
    have : pre = idx := by simpa using h.split
    subst this; exact h
  | cons x rest ih =>
    intro s pre h
    simp only [List.foldl_cons]
    exact ih _ _ (pass3Step_inv cnt1 idx s pre x rest h)


/-! ### blob counters of the statistics -/

def isSingle (cnt1 : Cnt) (x : PB) : Bool := cnt1 x.e.blob == some 1
def isDup (cnt1 : Cnt) (x : PB) : Bool := decide ((cnt1 x.e.blob).getD 0 ≥ 2)
def isFree (cnt1 : Cnt) (x : PB) : Bool := !(isSingle cnt1 x) && !(isDup cnt1 x)

/-! ### second pass -/

theorem pass2Step_st (cnt : Cnt) (s : S2) (pb : PB) :
    (pass2Step cnt s pb).st.bUsed = s.st.bUsed + (if isSingle cnt pb then 1 else 0) ∧
    (pass2Step cnt s pb).st.bDup = s.st.bDup + (if isDup cnt pb then 1 else 0) ∧
    (pass2Step cnt s pb).st.bUnused = s.st.bUnused + (if isFree cnt pb then 1 else 0) := by
  unfold pass2Step isFree isSingle isDup
  cases hc : cnt pb.e.blob with
  | none => simp
  | some n =>
    by_cases h1 : n = 1
    · subst h1; simp
    · by_cases h2 : n ≥ 2
      · simp [h1, h2]
      · have : n = 0 := by omega
        subst this; simp

theorem pass2Fold_st (cnt : Cnt) (l : List PB) : ∀ (s : S2),
    (l.foldl (pass2Step cnt) s).st.bUsed = s.st.bUsed + l.countP (isSingle cnt) ∧
    (l.foldl (pass2Step cnt) s).st.bDup = s.st.bDup + l.countP (isDup cnt) ∧
    (l.foldl (pass2Step cnt) s).st.bUnused = s.st.bUnused + l.countP (isFree cnt) := by
  induction l with
  | nil => intro s; simp
  | cons pb l ih =>
    intro s
    simp only [List.foldl_cons, List.countP_cons]
    obtain ⟨h1, h2, h3⟩ := ih (pass2Step cnt s pb)
    obtain ⟨g1, g2, g3⟩ := pass2Step_st cnt s pb
    rw [h1, h2, h3, g1, g2, g3]
    omega

/-! ### third pass -/

structure StInv (cnt1 : Cnt) (b2 u2 : Nat) (s : S3) (pre rest : List PB) : Prop where
  used_eq : s.st.bUsed = b2 + (pre.zip s.marks.reverse).countP (fun xm => xm.2)
  dup_eq : s.st.bDup = (pre.zip s.marks.reverse).countP (fun xm => isDup cnt1 xm.1 && !xm.2) + rest.countP (isDup cnt1)
  unused_eq : s.st.bUnused = u2

theorem pass3Step_st (cnt1 : Cnt) (idx : List PB) (b2 u2 : Nat) (s : S3) (pre : List PB) (x : PB) (rest : List PB)
    (hI : Inv3 cnt1 idx s pre (x :: rest)) (hmiss : ∀ b, cnt1 b ≠ some 0)
    (h : StInv cnt1 b2 u2 s pre (x :: rest)) : StInv cnt1 b2 u2 (pass3Step s x) (pre ++ [x]) rest := by
  obtain ⟨h1, h2, h3⟩ := h
  have hlen := hI.len
  have skip : StInv cnt1 b2 u2 { s with marks := false :: s.marks } (pre ++ [x]) rest := by
    refine ⟨?_, ?_, h3⟩
    · simp only; rw [zip_snoc pre s.marks x false hlen]; simpa [List.countP_append] using h1
    · simp only; rw [zip_snoc pre s.marks x false hlen]
      simp only [List.countP_append, List.countP_cons, List.countP_nil, Bool.not_false, Bool.and_true] at h2 ⊢
      omega
  unfold pass3Step
  cases hc : s.cnt x.e.blob with
  | none => simpa using skip
  | some count =>
    simp only
    by_cases hc1 : count = 1
    · simp only [hc1, if_true]; exact skip
    · simp only [hc1, if_false]
      -- the visited entry belongs to a duplicated blob
      have hd : isDup cnt1 x = true := by
        have h0 := hI.blob x.e.blob
        unfold BlobSt at h0
        unfold isDup
        cases hcc : cnt1 x.e.blob with
        | none => simp [hcc, hc] at h0
        | some n =>
          have hn0 : n ≠ 0 := fun h0' => hmiss x.e.blob (by rw [hcc, h0'])
          by_cases hn : n = 1
          · simp [hcc, hn, hc] at h0; exact absurd h0.1 hc1
          · simp; omega
      split
      · refine ⟨?_, ?_, h3⟩
        · simp only; rw [zip_snoc pre s.marks x true hlen]
          simp only [List.countP_append, List.countP_cons, List.countP_nil]
          simp; omega
        · simp only; rw [zip_snoc pre s.marks x true hlen]
          simp only [List.countP_append, List.countP_cons, List.countP_nil, hd, if_true] at h2 ⊢
          simp; omega
      · refine ⟨?_, ?_, h3⟩
        · simp only; rw [zip_snoc pre s.marks x false hlen]; simpa [List.countP_append] using h1
        · simp only; rw [zip_snoc pre s.marks x false hlen]
          simp only [List.countP_append, List.countP_cons, List.countP_nil, Bool.not_false, Bool.and_true] at h2 ⊢
          omega

theorem pass3Fold_st (cnt1 : Cnt) (idx : List PB) (b2 u2 : Nat) (hmiss : ∀ b, cnt1 b ≠ some 0) :
    ∀ (rest : List PB) (s : S3) (pre : List PB), Inv3 cnt1 idx s pre rest → StInv cnt1 b2 u2 s pre rest →
      StInv cnt1 b2 u2 (rest.foldl pass3Step s) idx [] := by
  intro rest
  induction rest with
  | nil =>
    intro s pre hI h
    have : pre = idx := by simpa using hI.split
    subst this; exact h
  | cons x rest ih =>
    intro s pre hI h
    simp only [List.foldl_cons]
    exact ih _ _ (pass3Step_inv cnt1 idx s pre x rest hI) (pass3Step_st cnt1 idx b2 u2 s pre x rest hI hmiss h)


/-! ### the result of `packInfoFromIndex` -/

/-- entry of blob `b` that counts as used: the only entry of a used blob, or the selected one -/
def usedMark (cnt1 : Cnt) (b : BlobH) (xm : PB × Bool) : Bool :=
  xm.1.e.blob == b && (cnt1 xm.1.e.blob == some 1 || xm.2)

theorem countP_zip_false (l : List PB) (q : PB × Bool → Bool) :
    (l.zip (l.map fun _ => false)).countP q = l.countP fun x => q (x, false) := by
  induction l with
  | nil => rfl
  | cons x l ih => simp [List.countP_cons, ih]

theorem occ_eq_countP (b : BlobH) (l : List PB) : occ b l = l.countP fun x => x.e.blob == b := by
  unfold occ
  rw [List.countP_eq_length_filter]
  congr 1

theorem usedMark_split (cnt1 : Cnt) (b : BlobH) (z : List (PB × Bool)) :
    z.countP (usedMark cnt1 b) + z.countP (fun xm => xm.1.e.blob == b && (cnt1 xm.1.e.blob == some 1) && xm.2)
      = z.countP (fun xm => xm.1.e.blob == b && (cnt1 xm.1.e.blob == some 1)) + z.countP (markedB b) := by
  induction z with
  | nil => rfl
  | cons xm z ih =>
    obtain ⟨x, m⟩ := xm
    simp only [List.countP_cons, usedMark, markedB] at ih ⊢
    by_cases h1 : x.e.blob = b <;> by_cases h2 : cnt1 x.e.blob = some 1 <;> cases m <;> simp [h1, h2] <;> omega

theorem countP_zip_fst (l : List PB) : ∀ (ms : List Bool), ms.length = l.length → ∀ (q : PB → Bool),
    (l.zip ms).countP (fun xm => q xm.1) = l.countP q := by
  induction l with
  | nil => intro ms _ q; simp
  | cons x l ih =>
    intro ms h q
    cases ms with
    | nil => simp at h
    | cons m ms =>
      simp only [List.zip_cons_cons, List.countP_cons]
      rw [ih ms (by simpa using h) q]

structure Account (used : List BlobH) (idx : List PB) (st : Stats) (pi : PackInfoResult) : Prop where
  len : pi.marks.length = idx.length
  unused : ∀ p, un pi.ip p = (idx.zip pi.marks).countP (unmarkedP (countPass used idx).f p)
  one : ∀ b ∈ used, (idx.zip pi.marks).countP (usedMark (countPass used idx).f b) = 1
  zero : ∀ b, b ∉ used → (idx.zip pi.marks).countP (usedMark (countPass used idx).f b) = 0
  marked : ∀ b, (idx.zip pi.marks).countP (markedB b) =
    match (countPass used idx).f b with | none => 0 | some n => if n = 1 then 0 else 1
  bUsed : pi.st.bUsed = st.bUsed + idx.countP (isSingle (countPass used idx).f) + (idx.zip pi.marks).countP (fun xm => xm.2)
  bDup : pi.st.bDup = (idx.zip pi.marks).countP (fun xm => isDup (countPass used idx).f xm.1 && !xm.2)
  bUnused : pi.st.bUnused = st.bUnused + idx.countP (isFree (countPass used idx).f)

theorem packInfo_account {used : List BlobH} {idx : List PB} {st : Stats} {pi : PackInfoResult}
    (h : packInfoFromIndex used idx st = .ok pi) (hst : st.bDup = 0) : Account used idx st pi := by
  unfold packInfoFromIndex at h
  simp only at h
  split at h
  · exact absurd h (by simp)
  rename_i hm
  have hm : (used.any fun b => (countPass used idx).f b == some 0) = false := by simpa using hm
  split at h
  · exact absurd h (by simp)
  injection h with h; subst h
  -- facts about the counter after the first pass
  have hcnt := countPass_eq used idx
  have hunused : ∀ b, b ∉ used → (countPass used idx).f b = none := by intro b hb; rw [hcnt]; simp [hb]
  have hused : ∀ b ∈ used, (countPass used idx).f b = some (min (occ b idx) 255) ∧ 1 ≤ occ b idx := by
    intro b hb
    have h1 : (countPass used idx).f b = some (min (occ b idx) 255) := by rw [hcnt]; simp [hb]
    refine ⟨h1, ?_⟩
    have := List.any_eq_false.mp hm b hb
    rw [h1] at this; simp at this; omega
  -- per blob: number of single entries
  have hsingle : ∀ b, (idx.countP fun x => x.e.blob == b && ((countPass used idx).f x.e.blob == some 1)) =
      if (countPass used idx).f b = some 1 then occ b idx else 0 := by
    intro b
    rw [occ_eq_countP]
    by_cases hb : (countPass used idx).f b = some 1
    · simp only [hb, if_true]
      apply List.countP_congr
      intro x _
      by_cases hx : x.e.blob = b
      · simp [hx, hb]
      · simp [hx]
    · simp only [hb, if_false]
      rw [List.countP_eq_zero]
      intro x _
      by_cases hx : x.e.blob = b
      · simp [hx, hb]
      · simp [hx]
  -- it suffices to know the invariant-style facts for the final marks
  suffices key : (pass23 (countPass used idx) idx st).marks.length = idx.length ∧
      (∀ p, un (pass23 (countPass used idx) idx st).ip p =
        (idx.zip (pass23 (countPass used idx) idx st).marks.reverse).countP (unmarkedP (countPass used idx).f p)) ∧
      (∀ b, (idx.zip (pass23 (countPass used idx) idx st).marks.reverse).countP (markedB b) =
        match (countPass used idx).f b with | none => 0 | some n => if n = 1 then 0 else 1) ∧
      ((pass23 (countPass used idx) idx st).st.bUsed = st.bUsed + idx.countP (isSingle (countPass used idx).f) +
          (idx.zip (pass23 (countPass used idx) idx st).marks.reverse).countP (fun xm => xm.2)) ∧
      ((pass23 (countPass used idx) idx st).st.bDup =
          (idx.zip (pass23 (countPass used idx) idx st).marks.reverse).countP (fun xm => isDup (countPass used idx).f xm.1 && !xm.2)) ∧
      ((pass23 (countPass used idx) idx st).st.bUnused = st.bUnused + idx.countP (isFree (countPass used idx).f)) by
    obtain ⟨k1, k2, k3, k4, k5, k6⟩ := key
    have hz1 : ∀ (q : PB → Bool), ((idx.zip (pass23 (countPass used idx) idx st).marks.reverse).countP fun xm => q xm.1) = idx.countP q :=
      countP_zip_fst idx _ (by simp [k1])
    have both0 : ∀ b, ((idx.zip (pass23 (countPass used idx) idx st).marks.reverse).countP
        fun xm => xm.1.e.blob == b && ((countPass used idx).f xm.1.e.blob == some 1) && xm.2) = 0 := by
      intro b
      rw [List.countP_eq_zero]
      intro xm hxm
      by_cases h1 : xm.1.e.blob = b
      · by_cases h2 : (countPass used idx).f xm.1.e.blob = some 1
        · -- a marked entry of a single blob would give a positive mark count
          cases hm2 : xm.2 with
          | false => simp
          | true =>
            exfalso
            have hk := k3 b
            rw [← h1, h2] at hk
            simp only [if_true] at hk
            rw [List.countP_eq_zero] at hk
            have := hk xm hxm
            simp [markedB, hm2] at this
        · simp [h2]
      · simp [h1]
    refine ⟨by simp [k1], k2, ?_, ?_, k3, k4, k5, k6⟩
    · intro b hb
      have hs := usedMark_split (countPass used idx).f b (idx.zip (pass23 (countPass used idx) idx st).marks.reverse)
      rw [both0 b, hz1 (fun x => x.e.blob == b && ((countPass used idx).f x.e.blob == some 1)), hsingle b, k3 b] at hs
      obtain ⟨hc, ho⟩ := hused b hb
      rw [hc] at hs
      show (idx.zip (pass23 (countPass used idx) idx st).marks.reverse).countP (usedMark (countPass used idx).f b) = 1
      by_cases h1 : min (occ b idx) 255 = 1
      · simp [h1] at hs; omega
      · simp [h1] at hs; omega
    · intro b hb
      have hs := usedMark_split (countPass used idx).f b (idx.zip (pass23 (countPass used idx) idx st).marks.reverse)
      rw [both0 b, hz1 (fun x => x.e.blob == b && ((countPass used idx).f x.e.blob == some 1)), hsingle b, k3 b, hunused b hb] at hs
      show (idx.zip (pass23 (countPass used idx) idx st).marks.reverse).countP (usedMark (countPass used idx).f b) = 0
      simpa using hs
  generalize hcntdef : (countPass used idx).f = cnt1 at hm hcnt hunused hused hsingle ⊢
  unfold pass23
  simp only [hcntdef]
  generalize hs2 : idx.foldl (pass2Step cnt1) { ip := ipOf (hdrSizes idx), st := st, hasDup := false } = s2
  have hun2 : ∀ p, un s2.ip p = idx.countP (nsP cnt1 p) := by
    intro p; rw [← hs2, pass2Fold_un, un_ipOf]; simp
  split
  · -- third pass ran
    have hinit : Inv3 cnt1 idx { cnt := cnt1, ip := s2.ip, st := s2.st, marks := [] } [] idx := by
      refine ⟨rfl, rfl, fun p => by simpa using hun2 p, ?_⟩
      intro b
      unfold BlobSt
      by_cases hb : b ∈ used
      · obtain ⟨hc, ho⟩ := hused b hb
        simp only [hc, List.zip_nil_left, List.countP_nil]
        by_cases h1 : min (occ b idx) 255 = 1
        · simp [h1]
        · simp only [h1, if_false]
          right; left
          exact ⟨_, rfl, by omega, by omega, trivial⟩
      · simp [hunused b hb]
    have hmiss : ∀ b, cnt1 b ≠ some 0 := by
      intro b hb0
      by_cases hb : b ∈ used
      · obtain ⟨hc, ho⟩ := hused b hb
        rw [hc] at hb0; injection hb0 with hb0; omega
      · rw [hunused b hb] at hb0; simp at hb0
    have hst2 := pass2Fold_st cnt1 idx { ip := ipOf (hdrSizes idx), st := st, hasDup := false }
    rw [hs2] at hst2
    have hsinit : StInv cnt1 (st.bUsed + idx.countP (isSingle cnt1)) (st.bUnused + idx.countP (isFree cnt1))
        { cnt := cnt1, ip := s2.ip, st := s2.st, marks := [] } [] idx :=
      ⟨by simpa using hst2.1, by simpa [hst] using hst2.2.1, by simpa using hst2.2.2⟩
    have hsfin := pass3Fold_st cnt1 idx _ _ hmiss idx _ [] hinit hsinit
    have hfin := pass3Fold_inv cnt1 idx idx _ [] hinit
    obtain ⟨_, flen, fun_, fblob⟩ := hfin
    refine ⟨flen, fun p => by simpa using fun_ p, ?_, hsfin.used_eq, by simpa using hsfin.dup_eq, hsfin.unused_eq⟩
    intro b
    have hb := fblob b
    unfold BlobSt at hb
    cases hc : cnt1 b with
    | none => simp only [hc] at hb; exact hb.2
    | some n =>
      simp only [hc] at hb ⊢
      by_cases h1 : n = 1
      · simp only [h1, if_true] at hb ⊢; exact hb.2
      · simp only [h1, if_false] at hb ⊢
        rcases hb with hb | ⟨c, _, h2, h3, _⟩ | ⟨_, h3, _⟩
        · exact hb.2
        · simp at h3; omega
        · simp at h3
  · -- no duplicates: nothing is marked, every used blob is single
    rename_i hd
    have hd' : s2.hasDup = false := by simpa using hd
    rw [← hs2, pass2Fold_hasDup] at hd'
    simp only [Bool.false_or] at hd'
    have hrev : (idx.map fun _ => false).reverse = idx.map fun _ => false := by
      rw [List.map_const', List.reverse_replicate]
    simp only [hrev]
    have hst2 := pass2Fold_st cnt1 idx { ip := ipOf (hdrSizes idx), st := st, hasDup := false }
    rw [hs2] at hst2
    refine ⟨by simp, ?_, ?_, ?_, ?_, by simpa using hst2.2.2⟩
    rotate_left 2
    · rw [countP_zip_false]; simpa using hst2.1
    · rw [countP_zip_false]; simpa [hst] using hst2.2.1
    · intro p
      rw [countP_zip_false, hun2 p]
      apply List.countP_congr
      intro x _
      simp [unmarkedP]
    · intro b
      rw [countP_zip_false]
      have : (idx.countP fun x => markedB b (x, false)) = 0 := by
        rw [List.countP_eq_zero]; intro x _; simp [markedB]
      rw [this]
      cases hc : cnt1 b with
      | none => rfl
      | some n =>
        by_cases h1 : n = 1
        · simp [h1]
        · exfalso
          -- a blob with counter ≠ 1 would be a duplicate (0 is excluded: not missing)
          have hbu : b ∈ used := by
            apply Classical.byContradiction; intro hb; rw [hunused b hb] at hc; simp at hc
          obtain ⟨hc', ho⟩ := hused b hbu
          obtain ⟨pb, hpb, hpbb⟩ := occ_pos ho
          have := List.any_eq_false.mp hd' pb hpb
          rw [hpbb, hc] at this
          rw [hc] at hc'
          simp at this hc'
          omega

end Restic.Proofs.C10Account
