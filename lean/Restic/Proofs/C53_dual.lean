import Restic.Model.Diff
/-!
Helper lemmas for C53: the name order, `find` on strictly sorted levels, and the characterisation
of `dual` (DualTreeIterator) on strictly sorted inputs.
-/
set_option linter.unusedSimpArgs false
set_option linter.unusedVariables false

namespace Restic.Proofs.C53
open Restic.Model.SnapTree Restic.Model.Diff

abbrev nm (t : Tree) : Name := t.meta.name

theorem name_irrefl (a : Name) : ¬ a < a := List.lt_irrefl a
theorem name_trans {a b c : Name} : a < b → b < c → a < c := List.lt_trans
theorem name_tri {a b : Name} : ¬ a < b → ¬ b < a → a = b := fun h1 h2 =>
  List.le_antisymm (List.not_lt.mp h2) (List.not_lt.mp h1)

/-- names strictly increasing on one level (pairwise) -/
def LevelSorted : List Tree → Prop
  | [] => True
  | t :: ts => (∀ u ∈ ts, nm t < nm u) ∧ LevelSorted ts

theorem levelSorted_of_sortedL : ∀ ts, sortedL ts = true → LevelSorted ts
  | [], _ => trivial
  | t :: ts, h => by
    simp only [sortedL, Bool.and_eq_true, List.all_eq_true, decide_eq_true_eq] at h
    exact ⟨h.1.2, levelSorted_of_sortedL ts h.2⟩

theorem sortedL_kids {m : Meta} {kids ts : List Tree} (h : sortedL ts = true) (hm : Tree.mk m kids ∈ ts) :
    sortedL kids = true := by
  induction ts with
  | nil => cases hm
  | cons t ts ih =>
    simp only [sortedL, Bool.and_eq_true] at h
    rcases List.mem_cons.mp hm with rfl | h'
    · simpa [sortedT] using h.1.1
    · exact ih h.2 h'

theorem shapeL_kids {m : Meta} {kids ts : List Tree} (h : shapeL ts = true) (hm : Tree.mk m kids ∈ ts) :
    shapeL kids = true ∧ (m.type = .dir ∨ kids = []) := by
  induction ts with
  | nil => cases hm
  | cons t ts ih =>
    simp only [shapeL, Bool.and_eq_true] at h
    rcases List.mem_cons.mp hm with rfl | h'
    · have := h.1
      simp only [shapeT, Bool.and_eq_true, Bool.or_eq_true, beq_iff_eq, List.isEmpty_iff] at this
      exact ⟨this.2, this.1⟩
    · exact ih h.2 h'

/-! ### find -/

theorem find_cons (t : Tree) (ts : List Tree) (n : Name) :
    find (t :: ts) n = if nm t = n then some t else find ts n := by
  simp only [find, List.find?_cons, nm]
  by_cases h : t.meta.name = n
  · simp [h]
  · have : (t.meta.name == n) = false := by simpa using h
    simp [this, h]

theorem find_some {ts : List Tree} {n : Name} {t : Tree} (h : find ts n = some t) : t ∈ ts ∧ nm t = n := by
  unfold find at h
  exact ⟨List.mem_of_find?_eq_some h, by simpa using List.find?_some h⟩

theorem find_lt {ts : List Tree} {n c : Name} (hc : ∀ u ∈ ts, c < nm u) (h : (find ts n).isSome) : c < n := by
  obtain ⟨t, ht⟩ := Option.isSome_iff_exists.mp h
  obtain ⟨hm, hn⟩ := find_some ht
  exact hn ▸ hc t hm

theorem ne_of_find {ts : List Tree} {n c : Name} (hc : ∀ u ∈ ts, c < nm u) {a : Option Tree}
    (ha : a = find ts n) (hs : a.isSome) : c ≠ n := by
  intro e
  have : c < n := find_lt hc (by rw [← ha]; exact hs)
  rw [e] at this
  exact name_irrefl n this

theorem find_none_of_lt {ts : List Tree} {n : Name} (hc : ∀ u ∈ ts, n < nm u) : find ts n = none := by
  cases h : find ts n with
  | none => rfl
  | some t => exact absurd (find_lt hc (by simp [h])) (name_irrefl n)

theorem find_self {ts : List Tree} (hs : LevelSorted ts) {t : Tree} (ht : t ∈ ts) : find ts (nm t) = some t := by
  induction ts with
  | nil => cases ht
  | cons x xs ih =>
    rw [find_cons]
    rcases List.mem_cons.mp ht with rfl | h'
    · simp
    · have : nm x ≠ nm t := fun e => name_irrefl (nm t) (e ▸ hs.1 t h')
      simp only [this, if_false]
      exact ih hs.2 h'

/-! ### dual -/

theorem dual_nil_left (ys : List Tree) : dual [] ys = ys.map (fun y => (none, some y)) := by
  cases ys <;> rfl

theorem dual_cons (x : Tree) (xs ys : List Tree) : dual (x :: xs) ys = dualAux x (dual xs) ys := rfl

/-- `dual_merge`: on strictly sorted inputs the items of the dual iteration are exactly the pairs
    (node named n in tree 1, node named n in tree 2) for the names n occurring in either tree. -/
theorem mem_dual (l1 : List Tree) : ∀ (l2 : List Tree), LevelSorted l1 → LevelSorted l2 →
    ∀ a b, (a, b) ∈ dual l1 l2 ↔ ∃ n, a = find l1 n ∧ b = find l2 n ∧ (a.isSome ∨ b.isSome) := by
  induction l1 with
  | nil =>
    intro l2 _ h2 a b
    rw [dual_nil_left]
    simp only [List.mem_map, Prod.mk.injEq]
    constructor
    · rintro ⟨y, hy, rfl, rfl⟩
      exact ⟨nm y, by simp [find], (find_self h2 hy).symm, by simp⟩
    · rintro ⟨n, ha, hb, hs⟩
      have ha' : a = none := by simpa [find] using ha
      subst ha'
      cases hb' : find l2 n with
      | none => simp [hb, hb'] at hs
      | some y => exact ⟨y, (find_some hb').1, rfl, by rw [hb, hb']⟩
  | cons x xs ih =>
    intro l2 h1 h2 a b
    rw [dual_cons]
    have hx := h1.1
    have hxs := h1.2
    induction l2 with
    | nil =>
      simp only [dualAux, List.mem_cons, Prod.mk.injEq]
      rw [ih [] hxs trivial]
      constructor
      · rintro (⟨rfl, rfl⟩ | ⟨n, ha, hb, hs⟩)
        · exact ⟨nm x, by simp [find_cons], by simp [find], by simp⟩
        · have hb' : b = none := by simpa [find] using hb
          subst hb'
          have hs' : a.isSome := by simpa using hs
          have hne : nm x ≠ n := ne_of_find hx ha hs'
          exact ⟨n, by rw [find_cons, if_neg hne]; exact ha, by simp [find], Or.inl hs'⟩
      · rintro ⟨n, ha, hb, hs⟩
        by_cases hn : nm x = n
        · left; rw [find_cons, if_pos hn] at ha; exact ⟨ha, by simpa [find] using hb⟩
        · right; rw [find_cons, if_neg hn] at ha; exact ⟨n, ha, hb, hs⟩
    | cons y ys ihy =>
      have hy := h2.1
      have hys := h2.2
      simp only [dualAux]
      by_cases hlt : nm x < nm y
      · -- x alone
        simp only [nm] at hlt
        simp only [hlt, if_true, List.mem_cons, Prod.mk.injEq]
        rw [ih (y :: ys) hxs h2]
        have hall : ∀ u ∈ y :: ys, nm x < nm u := by
          intro u hu
          rcases List.mem_cons.mp hu with rfl | h'
          · exact hlt
          · exact name_trans hlt (hy u h')
        constructor
        · rintro (⟨rfl, rfl⟩ | ⟨n, ha, hb, hs⟩)
          · exact ⟨nm x, by simp [find_cons], (find_none_of_lt hall).symm, by simp⟩
          · have hne : nm x ≠ n := by
              rcases hs with hs | hs
              · exact ne_of_find hx ha hs
              · exact ne_of_find hall hb hs
            exact ⟨n, by rw [find_cons, if_neg hne]; exact ha, hb, hs⟩
        · rintro ⟨n, ha, hb, hs⟩
          by_cases hn : nm x = n
          · left
            rw [find_cons, if_pos hn] at ha
            subst hn
            exact ⟨ha, by rw [hb]; exact find_none_of_lt hall⟩
          · right; rw [find_cons, if_neg hn] at ha; exact ⟨n, ha, hb, hs⟩
      · by_cases hgt : nm y < nm x
        · -- y alone
          simp only [nm] at hlt hgt
          simp only [hlt, hgt, if_true, if_false, List.mem_cons, Prod.mk.injEq]
          have IH := ihy hys
          refine (or_congr Iff.rfl IH).trans ?_
          have hall : ∀ u ∈ x :: xs, nm y < nm u := by
            intro u hu
            rcases List.mem_cons.mp hu with rfl | h'
            · exact hgt
            · exact name_trans hgt (hx u h')
          constructor
          · rintro (⟨rfl, rfl⟩ | ⟨n, ha, hb, hs⟩)
            · exact ⟨nm y, (find_none_of_lt hall).symm, by simp [find_cons], by simp⟩
            · have hne : nm y ≠ n := by
                rcases hs with hs | hs
                · exact ne_of_find hall ha hs
                · exact ne_of_find hy hb hs
              exact ⟨n, ha, by rw [find_cons, if_neg hne]; exact hb, hs⟩
          · rintro ⟨n, ha, hb, hs⟩
            by_cases hn : nm y = n
            · left
              rw [find_cons, if_pos hn] at hb
              subst hn
              exact ⟨by rw [ha]; exact find_none_of_lt hall, hb⟩
            · right; rw [find_cons, if_neg hn] at hb; exact ⟨n, ha, hb, hs⟩
        · -- same name: paired
          have heq : nm x = nm y := name_tri hlt hgt
          simp only [nm] at hlt hgt
          simp only [hlt, hgt, if_false, List.mem_cons, Prod.mk.injEq]
          rw [ih ys hxs hys]
          constructor
          · rintro (⟨rfl, rfl⟩ | ⟨n, ha, hb, hs⟩)
            · exact ⟨nm x, by simp [find_cons], by rw [find_cons, if_pos heq.symm], by simp⟩
            · have hne : nm x ≠ n := by
                rcases hs with hs | hs
                · exact ne_of_find hx ha hs
                · exact ne_of_find (fun u hu => heq ▸ hy u hu) hb hs
              exact ⟨n, by rw [find_cons, if_neg hne]; exact ha,
                by rw [find_cons, if_neg (heq ▸ hne)]; exact hb, hs⟩
          · rintro ⟨n, ha, hb, hs⟩
            by_cases hn : nm x = n
            · left
              rw [find_cons, if_pos hn] at ha
              rw [find_cons, if_pos (heq ▸ hn)] at hb
              exact ⟨ha, hb⟩
            · right
              rw [find_cons, if_neg hn] at ha
              rw [find_cons, if_neg (heq ▸ hn)] at hb
              exact ⟨n, ha, hb, hs⟩

end Restic.Proofs.C53
