import Restic.Model.IndexMap
/-!
# C56: the hashed array tree refines an array

`HATWF` is the representation invariant. Under it `Ref pos` succeeds for `pos < size` and returns
`peek pos`; `set` changes exactly one position; `preallocate`/`grow` (block size doubling with
pairwise block merging) keep every stored entry at its position; `Alloc` returns position `size`.
-/
namespace Restic.Proofs.C56
open Restic.Model.IndexMap

structure HATWF (h : HAT) : Prop where
  bs : h.blockSize = 2 ^ h.maskShift
  shift : 1 ≤ h.maskShift
  mask : h.mask = h.blockSize - 1
  len : h.blockList.length = h.blockSize
  /-- every allocated block has exactly `blockSize` slots -/
  blen : ∀ (i : Nat) (b : Block), h.blockList[i]? = some (some b) → b.length = h.blockSize
  /-- the blocks covering positions below `size` are allocated -/
  blocks : ∀ i, i * h.blockSize < h.size → ∃ b, h.blockList[i]? = some (some b)

theorem HATWF.bs_pos {h : HAT} (wf : HATWF h) : 0 < h.blockSize := by
  rw [wf.bs]; exact Nat.two_pow_pos _

theorem HATWF.index_eq {h : HAT} (wf : HATWF h) (pos : Nat) :
    h.index pos = (pos / h.blockSize, pos % h.blockSize) := by
  simp only [HAT.index, wf.mask, wf.bs, Nat.shiftRight_eq_div_pow, Nat.and_two_pow_sub_one_eq_mod]

theorem newHAT_wf : HATWF newHAT := by
  refine ⟨by decide, by decide, by decide, by decide, ?_, ?_⟩
  · intro i b h
    simp only [newHAT, Nat.shiftLeft_eq, List.getElem?_replicate] at h
    split at h <;> simp at h
  · intro i h
    simp [newHAT] at h

/-- block `i` of a block list, `[]` for `nil`/missing blocks -/
def blk (l : List (Option Block)) (i : Nat) : Block :=
  match l[i]? with
  | some (some b) => b
  | _ => []

theorem blk_of_some {l : List (Option Block)} {i : Nat} {b : Block} (h : l[i]? = some (some b)) : blk l i = b := by
  simp [blk, h]

theorem blk_set (l : List (Option Block)) (i j : Nat) (b : Block) :
    blk (l.set i (some b)) j = if i = j ∧ i < l.length then b else blk l j := by
  unfold blk
  rw [List.getElem?_set]
  by_cases hij : i = j
  · subst hij
    by_cases hl : i < l.length
    · simp [hl]
    · simp [hl]
  · simp [hij]

theorem HATWF.peek_blk {h : HAT} (wf : HATWF h) (q : Nat) :
    h.peek q = (blk h.blockList (q / h.blockSize))[q % h.blockSize]? := by
  unfold HAT.peek blk
  rw [wf.index_eq]
  simp only
  split <;> simp_all

theorem HATWF.peek_some {h : HAT} (wf : HATWF h) {pos : Nat} (hp : pos < h.size) :
    ∃ e, h.peek pos = some e := by
  have hb := wf.bs_pos
  have hlt : pos / h.blockSize * h.blockSize < h.size :=
    Nat.lt_of_le_of_lt (Nat.div_mul_le_self _ _) hp
  obtain ⟨b, hb'⟩ := wf.blocks _ hlt
  have hl := wf.blen _ _ hb'
  rw [wf.peek_blk, blk_of_some hb']
  have : pos % h.blockSize < b.length := by rw [hl]; exact Nat.mod_lt _ hb
  exact ⟨b[pos % h.blockSize], by simp [this]⟩

theorem HATWF.ref_eq {h : HAT} (wf : HATWF h) {pos : Nat} (hp : pos < h.size) :
    ∃ e, h.ref pos = .ok e ∧ h.peek pos = some e := by
  obtain ⟨e, he⟩ := wf.peek_some hp
  refine ⟨e, ?_, he⟩
  have : ¬ (pos ≥ h.size) := by omega
  simp [HAT.ref, this, he]

theorem ref_ok_peek {h : HAT} {pos : Nat} {e : Entry} (hr : h.ref pos = .ok e) :
    h.peek pos = some e ∧ pos < h.size := by
  unfold HAT.ref at hr
  split at hr
  · cases hr
  · split at hr
    · rename_i e' he; cases hr; exact ⟨he, by omega⟩
    · cases hr

/-! ### `set` -/

theorem hat_set_size (h : HAT) (p : Nat) (e : Entry) : (h.set p e).size = h.size := by
  unfold HAT.set; split <;> rfl

theorem hat_set_blockSize (h : HAT) (p : Nat) (e : Entry) : (h.set p e).blockSize = h.blockSize := by
  unfold HAT.set; split <;> rfl

theorem lt_length_of_getElem?_eq_some {α} {l : List α} {i : Nat} {a : α} (h : l[i]? = some a) : i < l.length := by
  rcases Nat.lt_or_ge i l.length with h1 | h1
  · exact h1
  · rw [List.getElem?_eq_none h1] at h; cases h

theorem HATWF.set {h : HAT} (wf : HATWF h) (p : Nat) (e : Entry) : HATWF (h.set p e) := by
  unfold HAT.set
  split
  · rename_i b hb
    refine ⟨wf.bs, wf.shift, wf.mask, by simp [wf.len], ?_, ?_⟩
    · intro i b' hi
      simp only [List.getElem?_set] at hi
      split at hi
      · split at hi
        · cases hi; simp [wf.blen _ _ hb]
        · cases hi
      · exact wf.blen _ _ hi
    · intro i hi
      simp only [List.getElem?_set]
      split
      · rename_i heq
        have := lt_length_of_getElem?_eq_some hb
        rw [if_pos this]
        exact ⟨_, rfl⟩
      · exact wf.blocks i hi
  · exact wf

theorem div_mod_inj {B p q : Nat} (h1 : p / B = q / B) (h2 : p % B = q % B) : p = q := by
  rw [← Nat.div_add_mod p B, ← Nat.div_add_mod q B, h1, h2]

theorem HATWF.peek_set {h : HAT} (wf : HATWF h) (p q : Nat) (e : Entry) :
    (h.set p e).peek q = if q = p then (h.peek p).map (fun _ => e) else h.peek q := by
  have wf' := wf.set p e
  rw [wf'.peek_blk, hat_set_blockSize, wf.peek_blk p, wf.peek_blk q]
  unfold HAT.set
  rw [wf.index_eq]
  simp only
  split
  · rename_i b hb
    have hlt := lt_length_of_getElem?_eq_some hb
    simp only [blk_set, blk_of_some hb]
    by_cases hqp : q = p
    · subst hqp
      simp only [hlt, and_self, if_true, List.getElem?_set]
      by_cases hl : q % h.blockSize < b.length
      · simp [hl]
      · have : b.length ≤ q % h.blockSize := by omega
        simp [hl, List.getElem?_eq_none this]
    · simp only [hqp, if_false]
      by_cases hd : p / h.blockSize = q / h.blockSize
      · have hm : p % h.blockSize ≠ q % h.blockSize := fun hm => hqp (div_mod_inj hd hm).symm
        simp only [hd, true_and]
        rw [hd] at hlt hb
        simp only [hlt, if_true, blk_of_some hb]
        rw [List.getElem?_set_ne hm]
      · simp [hd]
  · rename_i hn
    by_cases hqp : q = p
    · subst hqp
      simp only [if_true]
      have : blk h.blockList (q / h.blockSize) = [] := by
        unfold blk
        split
        · rename_i b hb; exact absurd hb (hn b)
        · rfl
      simp [this]
    · simp [hqp]

/-! ### pairwise block merging -/

theorem padBlock_length (n : Nat) (b : Block) (h : b.length ≤ n) : (padBlock n b).length = n := by
  simp [padBlock]; omega

theorem padBlock_get (n : Nat) (b : Block) (i : Nat) (h : i < b.length) : (padBlock n b)[i]? = b[i]? := by
  simp [padBlock, List.getElem?_append_left h]

theorem mergeBlocks_length_le (bs : Nat) : ∀ l : List (Option Block), (mergeBlocks bs l).length ≤ l.length / 2
  | [] => by simp [mergeBlocks]
  | [_] => by simp [mergeBlocks]
  | a :: b :: rest => by
    have ih := mergeBlocks_length_le bs rest
    cases a <;> cases b <;> simp [mergeBlocks] <;> omega

theorem mergeBlocks_get (bs : Nat) : ∀ (l : List (Option Block)) (j : Nat), l.length % 2 = 0 →
    (∀ j', j' ≤ j → ∃ b, l[2 * j']? = some (some b)) →
    (mergeBlocks bs l)[j]? = some (some (padBlock bs (blk l (2 * j) ++ blk l (2 * j + 1))))
  | [], j, _, h => by
    obtain ⟨b, hb⟩ := h 0 (Nat.zero_le _); simp at hb
  | [_], _, hl, _ => by simp at hl
  | a :: b :: rest, j, hl, h => by
    obtain ⟨a0, ha0⟩ := h 0 (Nat.zero_le _)
    simp at ha0
    subst ha0
    have hm : mergeBlocks bs (some a0 :: b :: rest) =
        some (padBlock bs ((some a0).getD [] ++ b.getD [])) :: mergeBlocks bs rest := by
      cases b <;> simp [mergeBlocks]
    rw [hm]
    cases j with
    | zero =>
      cases b <;> simp [blk]
    | succ j =>
      have hl' : rest.length % 2 = 0 := by simp at hl; omega
      have h' : ∀ j', j' ≤ j → ∃ b', rest[2 * j']? = some (some b') := by
        intro j' hj'
        obtain ⟨b', hb'⟩ := h (j' + 1) (by omega)
        have : 2 * (j' + 1) = 2 * j' + 1 + 1 := by omega
        rw [this] at hb'
        simp at hb'
        exact ⟨b', hb'⟩
      have ih := mergeBlocks_get bs rest j hl' h'
      simp only [List.getElem?_cons_succ, ih]
      have e1 : 2 * (j + 1) = 2 * j + 1 + 1 := by omega
      have e2 : 2 * (j + 1) + 1 = 2 * j + 1 + 1 + 1 := by omega
      simp [blk, e1, e2]

theorem mergeBlocks_blen (bs B : Nat) (hbs : bs = B * 2) : ∀ (l : List (Option Block)),
    (∀ (i : Nat) (b : Block), l[i]? = some (some b) → b.length = B) →
    ∀ (i : Nat) (b : Block), (mergeBlocks bs l)[i]? = some (some b) → b.length = bs
  | [], _, i, b, h => by simp [mergeBlocks] at h
  | [_], _, i, b, h => by simp [mergeBlocks] at h
  | x :: y :: rest, hl, i, b, h => by
    have hx : ∀ bx : Block, x = some bx → bx.length = B := fun bx e => hl 0 bx (by simp [e])
    have hy : ∀ by' : Block, y = some by' → by'.length = B := fun by' e => hl 1 by' (by simp [e])
    have hrest : ∀ (i : Nat) (b : Block), rest[i]? = some (some b) → b.length = B := fun i b e => hl (i + 2) b (by simpa using e)
    have key : ∀ (x y : Option Block), (∀ bx : Block, x = some bx → bx.length = B) → (∀ by' : Block, y = some by' → by'.length = B) →
        (padBlock bs (x.getD [] ++ y.getD [])).length = bs := by
      intro x y hx hy
      apply padBlock_length
      cases x <;> cases y <;> simp <;> (try rw [hx _ rfl]) <;> (try rw [hy _ rfl]) <;> omega
    cases x with
    | none =>
      cases y with
      | none => simp [mergeBlocks] at h
      | some by' =>
        simp only [mergeBlocks] at h
        cases i with
        | zero => simp at h; subst h; exact key none (some by') (by simp) hy
        | succ i => simp at h; exact mergeBlocks_blen bs B hbs rest hrest i b h
    | some bx =>
      have hm : mergeBlocks bs (some bx :: y :: rest) =
          some (padBlock bs ((some bx).getD [] ++ y.getD [])) :: mergeBlocks bs rest := by
        cases y <;> simp [mergeBlocks]
      rw [hm] at h
      cases i with
      | zero => simp at h; subst h; exact key (some bx) y hx hy
      | succ i => simp at h; exact mergeBlocks_blen bs B hbs rest hrest i b h

/-! ### `growStep` -/

theorem hat_growStep_size (h : HAT) : h.growStep.size = h.size := rfl

theorem hat_growStep_blockSize (h : HAT) : h.growStep.blockSize = h.blockSize * 2 := rfl

theorem HATWF.growStep_blocks {h : HAT} (wf : HATWF h) (j : Nat) (hj : j * (h.blockSize * 2) < h.size) :
    h.growStep.blockList[j]? =
      some (some (padBlock (h.blockSize * 2) (blk h.blockList (2 * j) ++ blk h.blockList (2 * j + 1)))) := by
  have hB := wf.bs_pos
  have heven : h.blockList.length % 2 = 0 := by
    rw [wf.len, wf.bs]
    obtain ⟨k, hk⟩ : ∃ k, h.maskShift = k + 1 := ⟨h.maskShift - 1, by have := wf.shift; omega⟩
    rw [hk, Nat.pow_succ]; omega
  have hpre : ∀ j', j' ≤ j → ∃ b, h.blockList[2 * j']? = some (some b) := by
    intro j' hj'
    apply wf.blocks
    calc 2 * j' * h.blockSize = j' * (h.blockSize * 2) := by rw [Nat.mul_comm 2 j', Nat.mul_assoc, Nat.mul_comm 2]
      _ ≤ j * (h.blockSize * 2) := Nat.mul_le_mul_right _ hj'
      _ < h.size := hj
  have hg := mergeBlocks_get (h.blockSize * 2) h.blockList j heven hpre
  have hlt : j < (mergeBlocks (h.blockSize * 2) h.blockList).length := by
    rcases Nat.lt_or_ge j (mergeBlocks (h.blockSize * 2) h.blockList).length with h1 | h1
    · exact h1
    · rw [List.getElem?_eq_none h1] at hg; cases hg
  simp only [HAT.growStep]
  rw [List.getElem?_append_left hlt, hg]

theorem HATWF.growStep {h : HAT} (wf : HATWF h) : HATWF h.growStep := by
  have hB := wf.bs_pos
  have hml := mergeBlocks_length_le (h.blockSize * 2) h.blockList
  refine ⟨?_, ?_, ?_, ?_, ?_, ?_⟩
  · simp only [HAT.growStep, wf.bs, Nat.pow_succ]
  · simp only [HAT.growStep]; have := wf.shift; omega
  · simp only [HAT.growStep, wf.mask]; omega
  · simp only [HAT.growStep, List.length_append, List.length_replicate]
    rw [wf.len] at hml; omega
  · intro i b hi
    simp only [HAT.growStep] at hi ⊢
    rcases Nat.lt_or_ge i (mergeBlocks (h.blockSize * 2) h.blockList).length with h1 | h1
    · rw [List.getElem?_append_left h1] at hi
      exact mergeBlocks_blen (h.blockSize * 2) h.blockSize rfl h.blockList wf.blen i b hi
    · rw [List.getElem?_append_right h1, List.getElem?_replicate] at hi
      split at hi <;> cases hi
  · intro j hj
    exact ⟨_, wf.growStep_blocks j hj⟩

theorem blk_length {h : HAT} (wf : HATWF h) (i : Nat) (hi : i * h.blockSize < h.size) :
    (blk h.blockList i).length = h.blockSize := by
  obtain ⟨b, hb⟩ := wf.blocks i hi
  simp [blk, hb, wf.blen i b hb]

theorem blk_length_le {h : HAT} (wf : HATWF h) (i : Nat) : (blk h.blockList i).length ≤ h.blockSize := by
  unfold blk
  split
  · rename_i b hb; rw [wf.blen i b hb]; exact Nat.le_refl _
  · simp

theorem HATWF.peek_growStep {h : HAT} (wf : HATWF h) {q : Nat} (hq : q < h.size) :
    h.growStep.peek q = h.peek q := by
  have hB := wf.bs_pos
  have wf' := wf.growStep
  have hj : q / (h.blockSize * 2) * (h.blockSize * 2) < h.size :=
    Nat.lt_of_le_of_lt (Nat.div_mul_le_self _ _) hq
  rw [wf'.peek_blk, hat_growStep_blockSize, blk_of_some (wf.growStep_blocks _ hj), wf.peek_blk]
  -- positions
  have hdiv : q / (h.blockSize * 2) = q / h.blockSize / 2 := (Nat.div_div_eq_div_mul _ _ _).symm
  have hmod : q % (h.blockSize * 2) = q % h.blockSize + h.blockSize * (q / h.blockSize % 2) := Nat.mod_mul
  have hr : q % h.blockSize < h.blockSize := Nat.mod_lt _ hB
  have hi : q / h.blockSize * h.blockSize < h.size := Nat.lt_of_le_of_lt (Nat.div_mul_le_self _ _) hq
  have hlen_i := blk_length wf _ hi
  rcases Nat.mod_two_eq_zero_or_one (q / h.blockSize) with h0 | h1
  · -- even block: left half
    have hi2 : 2 * (q / (h.blockSize * 2)) = q / h.blockSize := by rw [hdiv]; omega
    rw [hmod, h0, hi2]
    simp only [Nat.mul_zero, Nat.add_zero]
    have hlt : q % h.blockSize < (blk h.blockList (q / h.blockSize) ++ blk h.blockList (q / h.blockSize + 1)).length := by
      simp [hlen_i]; omega
    rw [padBlock_get _ _ _ hlt, List.getElem?_append_left (by rw [hlen_i]; exact hr)]
  · -- odd block: right half
    have hi2 : 2 * (q / (h.blockSize * 2)) + 1 = q / h.blockSize := by rw [hdiv]; omega
    have hi2' : 2 * (q / (h.blockSize * 2)) = q / h.blockSize - 1 := by omega
    have hprev : (q / h.blockSize - 1) * h.blockSize < h.size := by
      have : (q / h.blockSize - 1) * h.blockSize ≤ q / h.blockSize * h.blockSize :=
        Nat.mul_le_mul_right _ (by omega)
      omega
    have hlen_p := blk_length wf _ hprev
    rw [hmod, h1, hi2, hi2']
    simp only [Nat.mul_one]
    have hlt : q % h.blockSize + h.blockSize <
        (blk h.blockList (q / h.blockSize - 1) ++ blk h.blockList (q / h.blockSize)).length := by
      simp [hlen_i, hlen_p]; omega
    rw [padBlock_get _ _ _ hlt, List.getElem?_append_right (by rw [hlen_p]; omega), hlen_p]
    congr 1; omega

/-! ### `preallocate` -/

theorem preallocLoop_spec : ∀ (fuel idx : Nat) (h : HAT) (n : Nat), HATWF h → idx = n / h.blockSize → idx < fuel →
    let h' := HAT.preallocLoop fuel idx h
    HATWF h' ∧ h'.size = h.size ∧ (∀ q, q < h.size → h'.peek q = h.peek q) ∧
      n / h'.blockSize < h'.blockList.length
  | 0, _, _, _, _, _, hf => by omega
  | fuel + 1, idx, h, n, wf, hidx, hf => by
    simp only [HAT.preallocLoop]
    split
    · rename_i hge
      have hB := wf.bs_pos
      have hidx' : idx / 2 = n / h.growStep.blockSize := by
        rw [hat_growStep_blockSize, hidx, Nat.div_div_eq_div_mul]
      have hpos : 0 < idx := by rw [wf.len] at hge; omega
      have hf' : idx / 2 < fuel := by omega
      obtain ⟨w, s, p, c⟩ := preallocLoop_spec fuel (idx / 2) h.growStep n wf.growStep hidx' hf'
      refine ⟨w, by rw [s, hat_growStep_size], ?_, c⟩
      intro q hq
      rw [p q (by rw [hat_growStep_size]; exact hq), wf.peek_growStep hq]
    · rename_i hlt
      exact ⟨wf, rfl, fun _ _ => rfl, by rw [← hidx]; omega⟩

theorem HATWF.preallocate {h : HAT} (wf : HATWF h) (n : Nat) :
    HATWF (h.preallocate n) ∧ (h.preallocate n).size = h.size ∧
      (∀ q, q < h.size → (h.preallocate n).peek q = h.peek q) ∧
      (n - 1) / (h.preallocate n).blockSize < (h.preallocate n).blockList.length := by
  unfold HAT.preallocate
  have hi : (h.index (n - 1)).1 = (n - 1) / h.blockSize := by rw [wf.index_eq]
  simp only [hi]
  exact preallocLoop_spec _ _ h (n - 1) wf rfl (by omega)

/-! ### `grow` and `Alloc` -/

/-- allocating a fresh block that covers no stored position -/
theorem HATWF.setBlock {g : HAT} (wf : HATWF g) (i : Nat) (hi : i < g.blockList.length)
    (hnew : g.size ≤ i * g.blockSize) :
    HATWF { g with blockList := g.blockList.set i (some (List.replicate g.blockSize zeroEntry)) } ∧
    (∀ q, q < g.size →
      HAT.peek { g with blockList := g.blockList.set i (some (List.replicate g.blockSize zeroEntry)) } q = g.peek q) := by
  have hB := wf.bs_pos
  have wf' : HATWF { g with blockList := g.blockList.set i (some (List.replicate g.blockSize zeroEntry)) } := by
    refine ⟨wf.bs, wf.shift, wf.mask, by simp [wf.len], ?_, ?_⟩
    · intro j b hj
      simp only [List.getElem?_set] at hj
      by_cases hij : i = j
      · simp only [hij, if_true] at hj
        split at hj
        · cases hj; simp
        · cases hj
      · simp only [hij, if_false] at hj
        exact wf.blen _ _ hj
    · intro j hj
      simp only [List.getElem?_set]
      by_cases hij : i = j
      · subst hij; exact ⟨List.replicate g.blockSize zeroEntry, by simp [hi]⟩
      · simp only [hij, if_false]
        exact wf.blocks j hj
  refine ⟨wf', ?_⟩
  intro q hq
  rw [wf'.peek_blk, wf.peek_blk]
  simp only [blk_set]
  have hne : ¬ (i = q / g.blockSize ∧ i < g.blockList.length) := by
    intro ⟨he, _⟩
    have h2 := Nat.div_mul_le_self q g.blockSize
    rw [← he] at h2
    omega
  simp [hne]

/-- after the block of position `size` is allocated the size can be incremented -/
theorem HATWF.bump {g : HAT} (wf : HATWF g) (hblk : ∃ b, g.blockList[g.size / g.blockSize]? = some (some b)) :
    HATWF { g with size := g.size + 1 } := by
  have hB := wf.bs_pos
  refine ⟨wf.bs, wf.shift, wf.mask, wf.len, wf.blen, ?_⟩
  intro i hi
  simp only at hi
  rcases Nat.lt_or_ge (i * g.blockSize) g.size with h1 | h1
  · exact wf.blocks i h1
  · have : i * g.blockSize = g.size := by omega
    have : g.size / g.blockSize = i := by rw [← this, Nat.mul_div_cancel _ hB]
    rw [← this]; exact hblk

theorem peek_size_irrel (g : HAT) (n q : Nat) : HAT.peek { g with size := n } q = g.peek q := rfl

theorem HATWF.alloc {h : HAT} (wf : HATWF h) :
    ∃ h', h.alloc = .ok (h', h.size) ∧ HATWF h' ∧ h'.size = h.size + 1 ∧
      (∀ q, q < h.size → h'.peek q = h.peek q) := by
  obtain ⟨wf1, s1, p1, c1⟩ := wf.preallocate (h.size + 1)
  generalize hg : h.preallocate (h.size + 1) = g at wf1 s1 p1 c1
  simp only [Nat.add_sub_cancel] at c1
  have hB := wf1.bs_pos
  -- the state after `grow`
  have hgrow : ∃ g', h.grow = .ok g' ∧ HATWF g' ∧ g'.size = h.size ∧
      (∀ q, q < h.size → g'.peek q = h.peek q) ∧
      ∃ b, g'.blockList[g'.size / g'.blockSize]? = some (some b) := by
    unfold HAT.grow
    simp only [hg, wf1.index_eq]
    rw [← s1] at c1
    by_cases hsub : g.size % g.blockSize = 0
    · simp only [hsub, beq_self_eq_true, if_true, c1]
      have hnew : g.size ≤ g.size / g.blockSize * g.blockSize := by
        have hdm := Nat.div_add_mod g.size g.blockSize
        rw [hsub, Nat.add_zero, Nat.mul_comm] at hdm
        omega
      obtain ⟨wfs, ps⟩ := wf1.setBlock (g.size / g.blockSize) c1 hnew
      refine ⟨_, rfl, wfs, s1, ?_, ?_⟩
      · intro q hq
        rw [ps q (by omega), p1 q hq]
      · exact ⟨_, by simp only; rw [List.getElem?_set_self c1]⟩
    · have hne : (g.size % g.blockSize == 0) = false := by simp [hsub]
      simp only [hne]
      refine ⟨g, rfl, wf1, s1, p1, ?_⟩
      apply wf1.blocks
      have hdm := Nat.div_add_mod g.size g.blockSize
      have : 0 < g.size % g.blockSize := Nat.pos_of_ne_zero hsub
      rw [Nat.mul_comm] at hdm
      omega
  obtain ⟨g', hg', wf', s', p', hblk⟩ := hgrow
  have wfb := wf'.bump hblk
  obtain ⟨e, he⟩ := wfb.peek_some (pos := g'.size) (by simp)
  rw [peek_size_irrel] at he
  refine ⟨{ g' with size := g'.size + 1 }, ?_, wfb, by simp [s'], ?_⟩
  · unfold HAT.alloc
    rw [hg']
    rw [s'] at he
    simp only [Res.bind, he, s']
  · intro q hq
    rw [peek_size_irrel]; exact p' q hq

end Restic.Proofs.C56
