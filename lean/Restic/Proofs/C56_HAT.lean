import Restic.Model.IndexMap
/-!
# C56: the hashed array tree refines an array

`HAT.WF` is the representation invariant. Under it `Ref pos` succeeds for `pos < size` and returns
`peek pos`; `set` changes exactly one position; `preallocate`/`grow` (block size doubling with
pairwise block merging) keep every stored entry at its position; `Alloc` returns position `size`.
-/
namespace Restic.Proofs.C56
open Restic.Model.IndexMap

structure HAT.WF (h : HAT) : Prop where
  bs : h.blockSize = 2 ^ h.maskShift
  shift : 1 ≤ h.maskShift
  mask : h.mask = h.blockSize - 1
  len : h.blockList.length = h.blockSize
  /-- every allocated block has exactly `blockSize` slots -/
  blen : ∀ i b, h.blockList[i]? = some (some b) → b.length = h.blockSize
  /-- the blocks covering positions below `size` are allocated -/
  blocks : ∀ i, i * h.blockSize < h.size → ∃ b, h.blockList[i]? = some (some b)

theorem HAT.WF.bs_pos {h : HAT} (wf : HAT.WF h) : 0 < h.blockSize := by
  rw [wf.bs]; exact Nat.two_pow_pos _

theorem HAT.WF.index_eq {h : HAT} (wf : HAT.WF h) (pos : Nat) :
    h.index pos = (pos / h.blockSize, pos % h.blockSize) := by
  simp only [HAT.index, wf.mask, wf.bs, Nat.shiftRight_eq_div_pow, Nat.and_two_pow_sub_one_eq_mod]

theorem newHAT_wf : HAT.WF newHAT := by
  refine ⟨by decide, by decide, by decide, by decide, ?_, ?_⟩
  · intro i b h
    simp only [newHAT, Nat.shiftLeft_eq, List.getElem?_replicate] at h
    split at h <;> simp at h
  · intro i h
    simp [newHAT] at h

theorem HAT.WF.peek_eq {h : HAT} (wf : HAT.WF h) (pos : Nat) :
    h.peek pos = match h.blockList[pos / h.blockSize]? with
      | some (some b) => b[pos % h.blockSize]?
      | _ => none := by
  simp only [HAT.peek, wf.index_eq]

theorem HAT.WF.peek_some {h : HAT} (wf : HAT.WF h) {pos : Nat} (hp : pos < h.size) :
    ∃ e, h.peek pos = some e := by
  have hb := wf.bs_pos
  have hlt : pos / h.blockSize * h.blockSize < h.size :=
    Nat.lt_of_le_of_lt (Nat.div_mul_le_self _ _) hp
  obtain ⟨b, hb'⟩ := wf.blocks _ hlt
  have hl := wf.blen _ _ hb'
  rw [wf.peek_eq, hb']
  have : pos % h.blockSize < b.length := by rw [hl]; exact Nat.mod_lt _ hb
  exact ⟨b[pos % h.blockSize], by simp [this]⟩

theorem HAT.WF.ref_eq {h : HAT} (wf : HAT.WF h) {pos : Nat} (hp : pos < h.size) :
    ∃ e, h.ref pos = .ok e ∧ h.peek pos = some e := by
  obtain ⟨e, he⟩ := wf.peek_some hp
  refine ⟨e, ?_, he⟩
  have : ¬ (pos ≥ h.size) := by omega
  simp [HAT.ref, this, he]

theorem ref_ok_peek {h : HAT} {pos : Nat} {e : Entry} (hr : h.ref pos = .ok e) :
    h.peek pos = some e ∧ pos < h.size := by
  unfold HAT.ref at hr
  split at hr
  · cases hr
  · split at hr
    · rename_i e' he; cases hr; exact ⟨he, by omega⟩
    · cases hr

/-! ### `set` -/

theorem HAT.set_size (h : HAT) (p : Nat) (e : Entry) : (h.set p e).size = h.size := by
  unfold HAT.set; split <;> rfl

theorem HAT.WF.set {h : HAT} (wf : HAT.WF h) (p : Nat) (e : Entry) : HAT.WF (h.set p e) := by
  unfold HAT.set
  split
  · rename_i b hb
    refine ⟨wf.bs, wf.shift, wf.mask, by simp [wf.len], ?_, ?_⟩
    · intro i b' hi
      simp only [List.getElem?_set] at hi
      split at hi
      · split at hi
        · cases hi; simp [wf.blen _ _ hb]
        · cases hi
      · exact wf.blen _ _ hi
    · intro i hi
      simp only [List.getElem?_set]
      split
      · rename_i heq
        split
        · exact ⟨_, rfl⟩
        · rename_i hlt
          obtain ⟨b', hb'⟩ := wf.blocks i hi
          have : i < h.blockList.length := by
            rcases Nat.lt_or_ge i h.blockList.length with h1 | h1
            · exact h1
            · rw [List.getElem?_eq_none h1] at hb'; cases hb'
          exact absurd (heq ▸ this) hlt
      · exact wf.blocks i hi
  · exact wf

theorem div_mod_inj {B p q : Nat} (h1 : p / B = q / B) (h2 : p % B = q % B) : p = q := by
  rw [← Nat.div_add_mod p B, ← Nat.div_add_mod q B, h1, h2]

theorem HAT.WF.peek_set {h : HAT} (wf : HAT.WF h) (p q : Nat) (e : Entry) :
    (h.set p e).peek q = if q = p then (h.peek p).map (fun _ => e) else h.peek q := by
  have wf' := wf.set p e
  rw [wf'.peek_eq]
  unfold HAT.set
  rw [wf.index_eq]
  simp only
  split
  · rename_i b hb
    simp only [List.getElem?_set]
    by_cases hqp : q = p
    · subst hqp
      have hlt : q / h.blockSize < h.blockList.length := by
        rcases Nat.lt_or_ge (q / h.blockSize) h.blockList.length with h1 | h1
        · exact h1
        · rw [List.getElem?_eq_none h1] at hb; cases hb
      simp only [if_true, hlt, wf.peek_eq, hb, List.getElem?_set]
      by_cases hl : q % h.blockSize < b.length
      · simp [hl]
      · simp [hl]
        have : b.length ≤ q % h.blockSize := by omega
        simp [List.getElem?_eq_none this]
    · simp only [hqp, if_false]
      by_cases hd : p / h.blockSize = q / h.blockSize
      · have hm : p % h.blockSize ≠ q % h.blockSize := fun hm => hqp (div_mod_inj hd hm).symm
        have hlt : p / h.blockSize < h.blockList.length := by
          rcases Nat.lt_or_ge (p / h.blockSize) h.blockList.length with h1 | h1
          · exact h1
          · rw [List.getElem?_eq_none h1] at hb; cases hb
        rw [wf.peek_eq, ← hd, hb]
        simp [hd, hlt, hm, List.getElem?_set]
        rw [← hd]; simp [hlt, hm]
      · simp only [hd, if_false]
        rw [wf.peek_eq]
  · rename_i hn
    by_cases hqp : q = p
    · subst hqp
      simp only [if_true]
      rw [wf.peek_eq]
      split
      · rename_i b hb; exact absurd hb (hn b)
      · simp
    · simp [hqp, wf.peek_eq]

/-! ### pairwise block merging -/

/-- block `i` of a block list, `[]` for `nil`/missing blocks -/
def blk (l : List (Option Block)) (i : Nat) : Block :=
  match l[i]? with
  | some (some b) => b
  | _ => []

theorem padBlock_length (n : Nat) (b : Block) (h : b.length ≤ n) : (padBlock n b).length = n := by
  simp [padBlock]; omega

theorem padBlock_get (n : Nat) (b : Block) (i : Nat) (h : i < b.length) : (padBlock n b)[i]? = b[i]? := by
  simp [padBlock, List.getElem?_append_left h]

theorem mergeBlocks_length_le (bs : Nat) : ∀ l : List (Option Block), (mergeBlocks bs l).length ≤ l.length / 2
  | [] => by simp [mergeBlocks]
  | [_] => by simp [mergeBlocks]
  | a :: b :: rest => by
    have ih := mergeBlocks_length_le bs rest
    cases a <;> cases b <;> simp [mergeBlocks] <;> omega

theorem mergeBlocks_get (bs : Nat) : ∀ (l : List (Option Block)) (j : Nat), l.length % 2 = 0 →
    (∀ j', j' ≤ j → ∃ b, l[2 * j']? = some (some b)) →
    (mergeBlocks bs l)[j]? = some (some (padBlock bs (blk l (2 * j) ++ blk l (2 * j + 1))))
  | [], j, _, h => by
    obtain ⟨b, hb⟩ := h 0 (Nat.zero_le _); simp at hb
  | [_], _, hl, _ => by simp at hl
  | a :: b :: rest, j, hl, h => by
    obtain ⟨a0, ha0⟩ := h 0 (Nat.zero_le _)
    simp at ha0
    subst ha0
    have hm : mergeBlocks bs (some a0 :: b :: rest) =
        some (padBlock bs ((some a0).getD [] ++ b.getD [])) :: mergeBlocks bs rest := by
      cases b <;> simp [mergeBlocks]
    rw [hm]
    cases j with
    | zero =>
      cases b <;> simp [blk]
    | succ j =>
      have hl' : rest.length % 2 = 0 := by simp at hl; omega
      have h' : ∀ j', j' ≤ j → ∃ b', rest[2 * j']? = some (some b') := by
        intro j' hj'
        obtain ⟨b', hb'⟩ := h (j' + 1) (by omega)
        have : 2 * (j' + 1) = 2 * j' + 1 + 1 := by omega
        rw [this] at hb'
        simp at hb'
        exact ⟨b', hb'⟩
      have ih := mergeBlocks_get bs rest j hl' h'
      simp only [List.getElem?_cons_succ, ih]
      have e1 : 2 * (j + 1) = 2 * j + 1 + 1 := by omega
      have e2 : 2 * (j + 1) + 1 = 2 * j + 1 + 1 + 1 := by omega
      simp [blk, e1, e2]

theorem mergeBlocks_blen (bs B : Nat) (hbs : bs = B * 2) : ∀ (l : List (Option Block)),
    (∀ i b, l[i]? = some (some b) → b.length = B) →
    ∀ i b, (mergeBlocks bs l)[i]? = some (some b) → b.length = bs
  | [], _, i, b, h => by simp [mergeBlocks] at h
  | [_], _, i, b, h => by simp [mergeBlocks] at h
  | x :: y :: rest, hl, i, b, h => by
    have hx : ∀ bx, x = some bx → bx.length = B := fun bx e => hl 0 bx (by simp [e])
    have hy : ∀ by', y = some by' → by'.length = B := fun by' e => hl 1 by' (by simp [e])
    have hrest : ∀ i b, rest[i]? = some (some b) → b.length = B := fun i b e => hl (i + 2) b (by simpa using e)
    have key : ∀ (x y : Option Block), (∀ bx, x = some bx → bx.length = B) → (∀ by', y = some by' → by'.length = B) →
        (padBlock bs (x.getD [] ++ y.getD [])).length = bs := by
      intro x y hx hy
      apply padBlock_length
      cases x <;> cases y <;> simp <;> (try rw [hx _ rfl]) <;> (try rw [hy _ rfl]) <;> omega
    cases x with
    | none =>
      cases y with
      | none => simp [mergeBlocks] at h
      | some by' =>
        simp only [mergeBlocks] at h
        cases i with
        | zero => simp at h; subst h; exact key none (some by') (by simp) hy
        | succ i => simp at h; exact mergeBlocks_blen bs B hbs rest hrest i b h
    | some bx =>
      have hm : mergeBlocks bs (some bx :: y :: rest) =
          some (padBlock bs ((some bx).getD [] ++ y.getD [])) :: mergeBlocks bs rest := by
        cases y <;> simp [mergeBlocks]
      rw [hm] at h
      cases i with
      | zero => simp at h; subst h; exact key (some bx) y hx hy
      | succ i => simp at h; exact mergeBlocks_blen bs B hbs rest hrest i b h

/-! ### `growStep` -/

theorem HAT.growStep_size (h : HAT) : h.growStep.size = h.size := rfl

theorem HAT.growStep_blockSize (h : HAT) : h.growStep.blockSize = h.blockSize * 2 := rfl

theorem HAT.WF.growStep_blocks {h : HAT} (wf : HAT.WF h) (j : Nat) (hj : j * (h.blockSize * 2) < h.size) :
    h.growStep.blockList[j]? =
      some (some (padBlock (h.blockSize * 2) (blk h.blockList (2 * j) ++ blk h.blockList (2 * j + 1)))) := by
  have hB := wf.bs_pos
  have heven : h.blockList.length % 2 = 0 := by
    rw [wf.len, wf.bs]
    obtain ⟨k, hk⟩ : ∃ k, h.maskShift = k + 1 := ⟨h.maskShift - 1, by have := wf.shift; omega⟩
    rw [hk, Nat.pow_succ]; omega
  have hpre : ∀ j', j' ≤ j → ∃ b, h.blockList[2 * j']? = some (some b) := by
    intro j' hj'
    apply wf.blocks
    calc 2 * j' * h.blockSize = j' * (h.blockSize * 2) := by rw [Nat.mul_comm 2 j', Nat.mul_assoc, Nat.mul_comm 2]
      _ ≤ j * (h.blockSize * 2) := Nat.mul_le_mul_right _ hj'
      _ < h.size := hj
  have hg := mergeBlocks_get (h.blockSize * 2) h.blockList j heven hpre
  have hlt : j < (mergeBlocks (h.blockSize * 2) h.blockList).length := by
    rcases Nat.lt_or_ge j (mergeBlocks (h.blockSize * 2) h.blockList).length with h1 | h1
    · exact h1
    · rw [List.getElem?_eq_none h1] at hg; cases hg
  simp only [HAT.growStep]
  rw [List.getElem?_append_left hlt, hg]

theorem HAT.WF.growStep {h : HAT} (wf : HAT.WF h) : HAT.WF h.growStep := by
  have hB := wf.bs_pos
  have hml := mergeBlocks_length_le (h.blockSize * 2) h.blockList
  refine ⟨?_, ?_, ?_, ?_, ?_, ?_⟩
  · simp only [HAT.growStep, wf.bs, Nat.pow_succ]
  · simp only [HAT.growStep]; have := wf.shift; omega
  · simp only [HAT.growStep, wf.mask]; omega
  · simp only [HAT.growStep, List.length_append, List.length_replicate]
    rw [wf.len] at hml; omega
  · intro i b hi
    simp only [HAT.growStep] at hi ⊢
    rcases Nat.lt_or_ge i (mergeBlocks (h.blockSize * 2) h.blockList).length with h1 | h1
    · rw [List.getElem?_append_left h1] at hi
      exact mergeBlocks_blen (h.blockSize * 2) h.blockSize rfl h.blockList wf.blen i b hi
    · rw [List.getElem?_append_right h1, List.getElem?_replicate] at hi
      split at hi <;> cases hi
  · intro j hj
    exact ⟨_, wf.growStep_blocks j hj⟩

theorem blk_length {h : HAT} (wf : HAT.WF h) (i : Nat) (hi : i * h.blockSize < h.size) :
    (blk h.blockList i).length = h.blockSize := by
  obtain ⟨b, hb⟩ := wf.blocks i hi
  simp [blk, hb, wf.blen i b hb]

theorem blk_length_le {h : HAT} (wf : HAT.WF h) (i : Nat) : (blk h.blockList i).length ≤ h.blockSize := by
  unfold blk
  split
  · rename_i b hb; rw [wf.blen i b hb]; exact Nat.le_refl _
  · simp

theorem HAT.WF.peek_blk {h : HAT} (wf : HAT.WF h) (q : Nat) :
    h.peek q = (blk h.blockList (q / h.blockSize))[q % h.blockSize]? := by
  rw [wf.peek_eq]
  unfold blk
  split <;> simp_all

theorem HAT.WF.peek_growStep {h : HAT} (wf : HAT.WF h) {q : Nat} (hq : q < h.size) :
    h.growStep.peek q = h.peek q := by
  have hB := wf.bs_pos
  have wf' := wf.growStep
  have hj : q / (h.blockSize * 2) * (h.blockSize * 2) < h.size :=
    Nat.lt_of_le_of_lt (Nat.div_mul_le_self _ _) hq
  rw [wf'.peek_eq, HAT.growStep_blockSize, wf.growStep_blocks _ hj, wf.peek_blk]
  -- positions
  have hdiv : q / (h.blockSize * 2) = q / h.blockSize / 2 := (Nat.div_div_eq_div_mul _ _ _).symm
  have hmod : q % (h.blockSize * 2) = q % h.blockSize + h.blockSize * (q / h.blockSize % 2) := Nat.mod_mul
  have hr : q % h.blockSize < h.blockSize := Nat.mod_lt _ hB
  have hi : q / h.blockSize * h.blockSize < h.size := Nat.lt_of_le_of_lt (Nat.div_mul_le_self _ _) hq
  have hlen_i := blk_length wf _ hi
  rcases Nat.mod_two_eq_zero_or_one (q / h.blockSize) with h0 | h1
  · -- even block: left half
    have hi2 : 2 * (q / (h.blockSize * 2)) = q / h.blockSize := by rw [hdiv]; omega
    rw [hmod, h0, hi2]
    simp only [Nat.mul_zero, Nat.add_zero]
    have hlt : q % h.blockSize < (blk h.blockList (q / h.blockSize) ++ blk h.blockList (q / h.blockSize + 1)).length := by
      simp [hlen_i]; omega
    rw [padBlock_get _ _ _ hlt, List.getElem?_append_left (by rw [hlen_i]; exact hr)]
  · -- odd block: right half
    have hi2 : 2 * (q / (h.blockSize * 2)) + 1 = q / h.blockSize := by rw [hdiv]; omega
    have hi2' : 2 * (q / (h.blockSize * 2)) = q / h.blockSize - 1 := by omega
    have hprev : (q / h.blockSize - 1) * h.blockSize < h.size := by
      have : (q / h.blockSize - 1) * h.blockSize ≤ q / h.blockSize * h.blockSize :=
        Nat.mul_le_mul_right _ (by omega)
      omega
    have hlen_p := blk_length wf _ hprev
    rw [hmod, h1, hi2, hi2']
    simp only [Nat.mul_one]
    have hlt : q % h.blockSize + h.blockSize <
        (blk h.blockList (q / h.blockSize - 1) ++ blk h.blockList (q / h.blockSize)).length := by
      simp [hlen_i, hlen_p]; omega
    rw [padBlock_get _ _ _ hlt, List.getElem?_append_right (by rw [hlen_p]; omega), hlen_p]
    congr 1; omega

/-! ### `preallocate` -/

theorem preallocLoop_spec : ∀ (fuel idx : Nat) (h : HAT) (n : Nat), HAT.WF h → idx = n / h.blockSize → idx < fuel →
    let h' := HAT.preallocLoop fuel idx h
    HAT.WF h' ∧ h'.size = h.size ∧ (∀ q, q < h.size → h'.peek q = h.peek q) ∧
      n / h'.blockSize < h'.blockList.length
  | 0, _, _, _, _, _, hf => by omega
  | fuel + 1, idx, h, n, wf, hidx, hf => by
    simp only [HAT.preallocLoop]
    split
    · rename_i hge
      have hB := wf.bs_pos
      have hidx' : idx / 2 = n / h.growStep.blockSize := by
        rw [HAT.growStep_blockSize, hidx, Nat.div_div_eq_div_mul]
      have hpos : 0 < idx := by rw [wf.len] at hge; omega
      have hf' : idx / 2 < fuel := by omega
      obtain ⟨w, s, p, c⟩ := preallocLoop_spec fuel (idx / 2) h.growStep n wf.growStep hidx' hf'
      refine ⟨w, by rw [s, HAT.growStep_size], ?_, c⟩
      intro q hq
      rw [p q (by rw [HAT.growStep_size]; exact hq), wf.peek_growStep hq]
    · rename_i hlt
      exact ⟨wf, rfl, fun _ _ => rfl, by rw [← hidx]; omega⟩

theorem HAT.WF.preallocate {h : HAT} (wf : HAT.WF h) (n : Nat) :
    HAT.WF (h.preallocate n) ∧ (h.preallocate n).size = h.size ∧
      (∀ q, q < h.size → (h.preallocate n).peek q = h.peek q) ∧
      (n - 1) / (h.preallocate n).blockSize < (h.preallocate n).blockList.length := by
  unfold HAT.preallocate
  have hi : (h.index (n - 1)).1 = (n - 1) / h.blockSize := by rw [wf.index_eq]
  simp only [hi]
  exact preallocLoop_spec _ _ h (n - 1) wf rfl (by omega)

/-! ### `grow` and `Alloc` -/

theorem HAT.WF.alloc {h : HAT} (wf : HAT.WF h) :
    ∃ h', h.alloc = .ok (h', h.size) ∧ HAT.WF h' ∧ h'.size = h.size + 1 ∧
      (∀ q, q < h.size → h'.peek q = h.peek q) := by
  obtain ⟨wf1, s1, p1, c1⟩ := wf.preallocate (h.size + 1)
  generalize hg : h.preallocate (h.size + 1) = g at wf1 s1 p1 c1
  simp only [Nat.add_sub_cancel] at c1
  have hB := wf1.bs_pos
  -- the state after `grow`
  have hgrow : ∃ g', h.grow = .ok g' ∧ HAT.WF { g' with size := g'.size + 1 } ∧ g'.size = h.size ∧
      (∀ q, q < h.size → g'.peek q = h.peek q) := by
    unfold HAT.grow
    simp only [hg, wf1.index_eq, s1]
    by_cases hsub : h.size % g.blockSize = 0
    · simp only [hsub, beq_self_eq_true, if_true, c1]
      refine ⟨_, rfl, ?_, s1, ?_⟩
      · refine ⟨wf1.bs, wf1.shift, wf1.mask, by simp [wf1.len], ?_, ?_⟩
        · intro i b hi
          simp only [List.getElem?_set] at hi
          split at hi
          · split at hi
            · cases hi; simp
            · cases hi
          · exact wf1.blen _ _ hi
        · intro i hi
          simp only [s1] at hi
          simp only [List.getElem?_set]
          split
          · simp [c1]
          · rename_i hne
            apply wf1.blocks
            rw [s1]
            -- i * B ≤ size, and i ≠ size / B with size % B = 0
            have hdm := Nat.div_add_mod h.size g.blockSize
            rw [hsub, Nat.add_zero] at hdm
            rcases Nat.lt_or_ge (i * g.blockSize) h.size with h1 | h1
            · exact h1
            · exfalso
              have : i * g.blockSize = h.size := by omega
              apply hne
              rw [← this, Nat.mul_div_cancel _ hB]
      · intro q hq
        have wfset : HAT.WF { g with blockList := g.blockList.set (h.size / g.blockSize) (some (List.replicate g.blockSize zeroEntry)) } := by
          refine ⟨wf1.bs, wf1.shift, wf1.mask, by simp [wf1.len], ?_, ?_⟩
          · intro i b hi
            simp only [List.getElem?_set] at hi
            split at hi
            · split at hi
              · cases hi; simp
              · cases hi
            · exact wf1.blen _ _ hi
          · intro i hi
            simp only [List.getElem?_set]
            split
            · simp [c1]
            · exact wf1.blocks i hi
        rw [wfset.peek_eq, ← p1 q hq, wf1.peek_eq]
        simp only
        have hne : h.size / g.blockSize ≠ q / g.blockSize := by
          intro he
          have hdm := Nat.div_add_mod h.size g.blockSize
          rw [hsub, Nat.add_zero] at hdm
          have h2 := Nat.div_mul_le_self q g.blockSize
          rw [← he, Nat.mul_comm] at h2
          omega
        rw [List.getElem?_set_ne hne]
    · have hne : (h.size % g.blockSize == 0) = false := by simp [hsub]
      simp only [hne]
      refine ⟨g, rfl, ?_, s1, p1⟩
      refine ⟨wf1.bs, wf1.shift, wf1.mask, wf1.len, wf1.blen, ?_⟩
      intro i hi
      simp only [s1] at hi
      apply wf1.blocks
      rw [s1]
      rcases Nat.lt_or_ge (i * g.blockSize) h.size with h1 | h1
      · exact h1
      · exfalso
        have : i * g.blockSize = h.size := by omega
        apply hsub
        rw [← this, Nat.mul_mod_left]
  obtain ⟨g', hg', wf', s', p'⟩ := hgrow
  have hpk : ∃ e, g'.peek g'.size = some e := by
    have := wf'.peek_some (pos := g'.size) (by simp)
    obtain ⟨e, he⟩ := this
    exact ⟨e, by simpa [HAT.peek, HAT.index] using he⟩
  obtain ⟨e, he⟩ := hpk
  refine ⟨{ g' with size := g'.size + 1 }, ?_, wf', by simp [s'], ?_⟩
  · unfold HAT.alloc
    rw [hg']
    simp only [Res.bind, he, s']
  · intro q hq
    have := p' q hq
    simpa [HAT.peek, HAT.index] using this

end Restic.Proofs.C56
