import Restic.Proofs.C56_Bits
import Restic.Proofs.C56_HAT
/-!
# C56, layer L1: bucket chains and the bloom early exit

`Chain hat w l` says that the pointer word `w` leads to the chain of positions `l` (newest
first): the low bits of `w` are the head position, the entry there carries the pointer to the rest,
and `w` is *literally* the word `bloomInsertID` builds, so its bloom bits cover the ids of the whole
chain. Positions strictly decrease along a chain (a `next` pointer always points to an older entry),
which is what makes the Go loops terminate.
-/
namespace Restic.Proofs.C56
open Restic.Model.IndexMap

inductive Chain (hat : HAT) : Nat → List Nat → Prop where
  | nil : Chain hat 0 []
  | cons {p : Nat} {e : Entry} {l : List Nat} :
      0 < p → p < hat.size → p < 2 ^ bloomShift → hat.peek p = some e →
      (∀ q, q ∈ l → q < p) → Chain hat e.next l →
      Chain hat (bloomInsertID p e.next e.v.id) (p :: l)

/-- the id stored at a position -/
def idAt (hat : HAT) (p : Nat) : Option ID := (hat.peek p).map (·.v.id)

theorem Chain.mem_bounds {hat : HAT} {w : Nat} {l : List Nat} (c : Chain hat w l) :
    ∀ p, p ∈ l → 0 < p ∧ p < hat.size := by
  induction c with
  | nil => intro p hp; cases hp
  | cons h0 hs _ _ _ _ ih =>
    intro q hq
    rcases List.mem_cons.mp hq with rfl | hq
    · exact ⟨h0, hs⟩
    · exact ih q hq

theorem Chain.length_le {hat : HAT} {w : Nat} {l : List Nat} (c : Chain hat w l) :
    ∀ b, (∀ q, q ∈ l → q < b) → l.length + 1 ≤ b ∨ l = [] := by
  induction c with
  | nil => intro b _; exact Or.inr rfl
  | @cons p e l h0 _ _ _ hlt _ ih =>
    intro b hb
    have hp : p < b := hb p (List.mem_cons_self ..)
    rcases ih p hlt with h | h
    · left; simp; omega
    · left; subst h; simp; omega

theorem Chain.length_lt_size {hat : HAT} {w : Nat} {l : List Nat} (c : Chain hat w l) :
    l.length ≤ hat.size := by
  rcases c.length_le hat.size (fun q hq => (c.mem_bounds q hq).2) with h | h
  · omega
  · subst h; simp

theorem Chain.nodup {hat : HAT} {w : Nat} {l : List Nat} (c : Chain hat w l) : l.Nodup := by
  induction c with
  | nil => exact List.nodup_nil
  | cons _ _ _ _ hlt _ ih =>
    rw [List.nodup_cons]
    refine ⟨fun hm => ?_, ih⟩
    have := hlt _ hm
    omega

/-- a chain only depends on the entries at its own positions -/
theorem Chain.congr {hat hat' : HAT} {w : Nat} {l : List Nat} (c : Chain hat w l)
    (hsz : hat.size ≤ hat'.size) (hpk : ∀ p, p ∈ l → hat'.peek p = hat.peek p) : Chain hat' w l := by
  induction c with
  | nil => exact Chain.nil
  | cons h0 hs hk he hlt _ ih =>
    refine Chain.cons h0 (by omega) hk ?_ hlt (ih fun p hp => hpk p (List.mem_cons_of_mem _ hp))
    rw [hpk _ (List.mem_cons_self ..)]; exact he

/-- the bloom filter of a pointer covers the ids of the whole chain behind it: if it excludes `id`,
    no entry of the chain has that id (soundness of the early exit) -/
theorem Chain.bloom_excludes {hat : HAT} {w : Nat} {l : List Nat} (c : Chain hat w l) (id : ID)
    (hb : bloomHasID w id = false) : ∀ p, p ∈ l → idAt hat p ≠ some id := by
  induction c with
  | nil => intro p hp; cases hp
  | cons _ _ hk he _ _ ih =>
    obtain ⟨hne, hnext⟩ := bloomHasID_insert_false hk hb
    intro q hq
    rcases List.mem_cons.mp hq with rfl | hq
    · simp only [idAt, he, Option.map_some]
      intro h; exact hne (Option.some.inj h)
    · exact ih hnext q hq

theorem ref_of_peek {hat : HAT} {p : Nat} {e : Entry} (hs : p < hat.size) (he : hat.peek p = some e) :
    hat.ref p = .ok e := by
  have : ¬ (p ≥ hat.size) := by omega
  simp [HAT.ref, this, he]

/-- the entries of a chain, in chain order -/
def chainEntries (hat : HAT) (l : List Nat) : List Entry := l.filterMap hat.peek

theorem filter_nil_of_excluded {hat : HAT} {l : List Nat} {id : ID}
    (h : ∀ p, p ∈ l → idAt hat p ≠ some id) : (chainEntries hat l).filter (fun e => e.v.id = id) = [] := by
  rw [List.filter_eq_nil_iff]
  intro e he
  simp only [chainEntries, List.mem_filterMap] at he
  obtain ⟨p, hp, hpe⟩ := he
  have := h p hp
  simp only [idAt, hpe, Option.map_some] at this
  simpa using fun h' => this (by rw [h'])

/-- `valuesWithID`'s loop returns exactly the chain entries with the id -/
theorem walkValues_chain {hat : HAT} {w : Nat} {l : List Nat} (c : Chain hat w l) (id : ID) :
    ∀ fuel, l.length ≤ fuel →
      walkValues hat id fuel w = .ok ((chainEntries hat l).filter (fun e => e.v.id = id)) := by
  induction c with
  | nil =>
    intro fuel _
    unfold walkValues
    simp [bloomHasID_zero, chainEntries]
  | cons h0 hs hk he hlt c' ih =>
    rename_i p e l
    intro fuel hf
    unfold walkValues
    cases hb : bloomHasID (bloomInsertID p e.next e.v.id) id
    · -- early exit: nothing in the chain has this id
      have hex := (Chain.cons h0 hs hk he hlt c').bloom_excludes id hb
      simp [filter_nil_of_excluded hex]
    · cases fuel with
      | zero => simp at hf
      | succ fuel =>
        simp only [Bool.not_true, Bool.false_eq_true, if_false, bloomCleanID_insert _ _ hk, ref_of_peek hs he,
          Res.bind, ih fuel (by simpa using hf)]
        simp only [chainEntries, List.filterMap_cons, he]
        by_cases hid : e.v.id = id
        · simp [hid]
        · simp [hid]

/-- `get`'s loop returns the first chain entry with the id -/
theorem walkGet_chain {hat : HAT} {w : Nat} {l : List Nat} (c : Chain hat w l) (id : ID) :
    ∀ fuel, l.length ≤ fuel →
      walkGet hat id fuel w = .ok ((chainEntries hat l).filter (fun e => e.v.id = id)).head? := by
  induction c with
  | nil =>
    intro fuel _
    unfold walkGet
    simp [bloomHasID_zero, chainEntries]
  | cons h0 hs hk he hlt c' ih =>
    rename_i p e l
    intro fuel hf
    unfold walkGet
    cases hb : bloomHasID (bloomInsertID p e.next e.v.id) id
    · have hex := (Chain.cons h0 hs hk he hlt c').bloom_excludes id hb
      simp [filter_nil_of_excluded hex]
    · cases fuel with
      | zero => simp at hf
      | succ fuel =>
        simp only [Bool.not_true, Bool.false_eq_true, if_false, bloomCleanID_insert _ _ hk, ref_of_peek hs he,
          Res.bind]
        simp only [chainEntries, List.filterMap_cons, he]
        by_cases hid : e.v.id = id
        · simp [hid]
        · simp only [hid, if_false]
          rw [ih fuel (by simpa using hf)]
          simp [hid, chainEntries]

/-- running minimum of `firstIndex` over the matching positions (`-1` = none yet) -/
def firstOf (acc : Int) : List Nat → Int
  | [] => acc
  | p :: ps => if (p : Int) < acc ∨ acc = -1 then firstOf p ps else firstOf acc ps

/-- positions of a chain whose entry has the id -/
def matching (hat : HAT) (id : ID) (l : List Nat) : List Nat := l.filter fun p => idAt hat p = some id

theorem walkFirst_chain {hat : HAT} {w : Nat} {l : List Nat} (c : Chain hat w l) (id : ID) :
    ∀ fuel acc, l.length ≤ fuel →
      walkFirst hat id fuel w acc = .ok (firstOf acc (matching hat id l)) := by
  induction c with
  | nil =>
    intro fuel acc _
    unfold walkFirst
    simp [bloomHasID_zero, matching, firstOf]
  | cons h0 hs hk he hlt c' ih =>
    rename_i p e l
    intro fuel acc hf
    unfold walkFirst
    cases hb : bloomHasID (bloomInsertID p e.next e.v.id) id
    · have hex := (Chain.cons h0 hs hk he hlt c').bloom_excludes id hb
      have : matching hat id (p :: l) = [] := by
        rw [matching, List.filter_eq_nil_iff]
        intro q hq; simpa using hex q hq
      simp [this, firstOf]
    · cases fuel with
      | zero => simp at hf
      | succ fuel =>
        simp only [Bool.not_true, Bool.false_eq_true, if_false, bloomCleanID_insert _ _ hk, ref_of_peek hs he,
          Res.bind]
        have hf' : l.length ≤ fuel := by simpa using hf
        by_cases hid : e.v.id = id
        · have hm : matching hat id (p :: l) = p :: matching hat id l := by
            simp [matching, idAt, he, hid]
          simp only [hid, ne_eq, not_true_eq_false, if_false, hm, firstOf]
          split
          · exact ih fuel _ hf'
          · exact ih fuel _ hf'
        · have hm : matching hat id (p :: l) = matching hat id l := by
            simp [matching, idAt, he, hid]
          simp only [hid, ne_eq, not_false_eq_true, if_true, hm]
          exact ih fuel _ hf'

theorem firstOf_nonneg_spec : ∀ (ps : List Nat) (acc : Int), 0 ≤ acc →
    let r := firstOf acc ps
    r ≤ acc ∧ (∀ p, p ∈ ps → r ≤ (p : Int)) ∧ (r = acc ∨ ∃ p, p ∈ ps ∧ r = (p : Int))
  | [], acc, _ => by simp [firstOf]
  | p :: ps, acc, h => by
    simp only [firstOf]
    split
    · rename_i hc
      have hlt : (p : Int) < acc := by
        rcases hc with h1 | h1
        · exact h1
        · omega
      obtain ⟨a, b, c⟩ := firstOf_nonneg_spec ps (p : Int) (by omega)
      refine ⟨by omega, ?_, ?_⟩
      · intro q hq
        rcases List.mem_cons.mp hq with rfl | hq
        · exact a
        · exact b q hq
      · right
        rcases c with c | ⟨q, hq, c⟩
        · exact ⟨p, List.mem_cons_self .., c⟩
        · exact ⟨q, List.mem_cons_of_mem _ hq, c⟩
    · rename_i hc
      have hge : acc ≤ (p : Int) := by
        by_cases h1 : (p : Int) < acc
        · exact absurd (Or.inl h1) hc
        · omega
      obtain ⟨a, b, c⟩ := firstOf_nonneg_spec ps acc h
      refine ⟨a, ?_, ?_⟩
      · intro q hq
        rcases List.mem_cons.mp hq with rfl | hq
        · omega
        · exact b q hq
      · rcases c with c | ⟨q, hq, c⟩
        · exact Or.inl c
        · exact Or.inr ⟨q, List.mem_cons_of_mem _ hq, c⟩

/-- `firstIndex` yields `-1` when nothing matches, else the least matching position -/
theorem firstOf_spec (ps : List Nat) :
    (ps = [] ∧ firstOf (-1) ps = -1) ∨
    (∃ p, p ∈ ps ∧ firstOf (-1) ps = (p : Int) ∧ ∀ q, q ∈ ps → p ≤ q) := by
  cases ps with
  | nil => left; simp [firstOf]
  | cons p ps =>
    right
    simp only [firstOf, or_true, if_true]
    obtain ⟨a, b, c⟩ := firstOf_nonneg_spec ps (p : Int) (by omega)
    rcases c with c | ⟨q, hq, c⟩
    · refine ⟨p, List.mem_cons_self .., c, ?_⟩
      intro q hq
      rcases List.mem_cons.mp hq with rfl | hq
      · exact Nat.le_refl _
      · have := b q hq; omega
    · refine ⟨q, List.mem_cons_of_mem _ hq, c, ?_⟩
      intro q' hq'
      rcases List.mem_cons.mp hq' with rfl | hq'
      · omega
      · have := b q' hq'; omega

end Restic.Proofs.C56
