import Restic.Proofs.C06_Bytes
/-!
C06 helper lemmas: `readRecords` / `readHeader` (eager read, second read) compute exactly the
`hlen` bytes in front of the length field, and never slice out of range.
-/
namespace Restic.Proofs.C06
open Restic.Model.Pack Restic.Gen

theorem readAt_length (file : Bytes) (off n : Nat) (b : Bytes) (h : readAt file off n = some b) :
    b.length = n := by
  unfold readAt at h
  split at h
  · cases h
    simp only [List.length_take, List.length_drop]; omega
  · cases h

/-- reading the last `bs` bytes of the file -/
theorem readAt_tail (file : Bytes) (bs : Nat) (h : bs ≤ file.length) :
    readAt file (file.length - bs) bs = some (file.drop (file.length - bs)) := by
  unfold readAt
  have : file.length - bs + bs ≤ file.length := by omega
  simp only [this, if_true]
  rw [List.take_of_length_le]
  simp only [List.length_drop]; omega

/-- the simple reading of a pack trailer: the `hlen` bytes in front of the 4-byte length field,
with the guards of `readHeader`/`readRecords` -/
def headerOf (file : Bytes) : Res Bytes :=
  let n := file.length
  if n < pack_minFileSize then .err .fileTooShort else
  let hlen := unle32 (file.drop (n - pack_headerLengthSize))
  if hlen = 0 then .err .hlenZero
  else if hlen < crypto_Extension then .err .hlenTooShort
  else if hlen + pack_headerLengthSize > n then .err .hlenLargerThanFile
  else if hlen + pack_headerLengthSize > pack_MaxHeaderSize then .err .hlenLargerThanMax
  else .ok ((file.drop (n - pack_headerLengthSize - hlen)).take hlen)

/-- `readRecords` on the whole file (`size = len(file)`) with a buffer of at least 4 bytes -/
theorem readRecords_eq (file : Bytes) (bufsize : Nat) (hb : pack_headerLengthSize ≤ bufsize)
    (hn : pack_headerLengthSize ≤ file.length) :
    readRecords file file.length bufsize =
      (let n := file.length
       let bs := if bufsize > n then n else bufsize
       let hlen := unle32 (file.drop (n - pack_headerLengthSize))
       if hlen = 0 then .err .hlenZero
       else if hlen < crypto_Extension then .err .hlenTooShort
       else if hlen + pack_headerLengthSize > n then .err .hlenLargerThanFile
       else if hlen + pack_headerLengthSize > pack_MaxHeaderSize then .err .hlenLargerThanMax
       else .ok (if hlen + pack_headerLengthSize < bs
                  then (file.drop (n - pack_headerLengthSize - hlen)).take hlen
                  else (file.drop (n - bs)).take (bs - pack_headerLengthSize),
                 hlen + pack_headerLengthSize)) := by
  obtain ⟨h4, _, _, _, _, _, hmax, _⟩ := facts_layout
  unfold readRecords
  simp only
  generalize hbs : (if bufsize > file.length then file.length else bufsize) = bs
  have hbsn : bs ≤ file.length := by rw [← hbs]; split <;> omega
  have hbs4 : pack_headerLengthSize ≤ bs := by rw [← hbs]; split <;> omega
  rw [readAt_tail file bs hbsn]
  simp only
  have hlenb : (file.drop (file.length - bs)).length = bs := by simp only [List.length_drop]; omega
  have h1 : ¬ bs < pack_headerLengthSize := by omega
  simp only [hlenb, h1, if_false]
  have h2 : (file.drop (file.length - bs)).drop (bs - pack_headerLengthSize) =
      file.drop (file.length - pack_headerLengthSize) := by
    rw [List.drop_drop]; congr 1; omega
  rw [h2]
  generalize unle32 (file.drop (file.length - pack_headerLengthSize)) = hlen
  by_cases c1 : hlen = 0
  · simp [c1]
  by_cases c2 : hlen < crypto_Extension
  · simp [c1, c2]
  by_cases c3 : hlen + pack_headerLengthSize > file.length
  · simp [c1, c2, c3]
  by_cases c4 : hlen + pack_headerLengthSize > pack_MaxHeaderSize
  · simp [c1, c2, c3, c4]
  simp only [c1, c2, c3, c4, if_false]
  have hmod : (hlen + pack_headerLengthSize) % 4294967296 = hlen + pack_headerLengthSize := by
    apply Nat.mod_eq_of_lt; omega
  rw [hmod]
  by_cases c5 : hlen + pack_headerLengthSize < bs
  · have hl : hlen ≤ ((file.drop (file.length - bs)).take (bs - pack_headerLengthSize)).length := by
      simp only [List.length_take, List.length_drop]; omega
    simp only [c5, if_true, hl]
    congr 2
    simp only [List.length_take, List.length_drop]
    rw [List.drop_take, List.drop_drop]
    have e1 : file.length - bs + (min (bs - pack_headerLengthSize) (file.length - (file.length - bs)) - hlen)
        = file.length - pack_headerLengthSize - hlen := by omega
    have e2 : bs - pack_headerLengthSize - (min (bs - pack_headerLengthSize) (file.length - (file.length - bs)) - hlen) = hlen := by
      omega
    rw [e1, e2]
  · simp only [c5, if_false]

/-- `readHeader` (eager read plus optional second read) equals the simple reading -/
theorem readHeader_eq (file : Bytes) : readHeader file file.length = headerOf file := by
  obtain ⟨h4, hplain, hentry, hhs, hext, hmin, hmax, _⟩ := facts_layout
  unfold readHeader headerOf
  simp only
  by_cases hshort : file.length < pack_minFileSize
  · simp [hshort]
  simp only [hshort, if_false]
  generalize hE : pack_eagerEntries * pack_entrySize + pack_headerSize = E
  have hE4 : pack_headerLengthSize ≤ E := by rw [← hE, hhs]; omega
  have hn4 : pack_headerLengthSize ≤ file.length := by omega
  rw [readRecords_eq file E hE4 hn4]
  simp only
  generalize hh : unle32 (file.drop (file.length - pack_headerLengthSize)) = hlen
  by_cases c1 : hlen = 0
  · simp [c1]
  by_cases c2 : hlen < crypto_Extension
  · simp [c1, c2]
  by_cases c3 : hlen + pack_headerLengthSize > file.length
  · simp [c1, c2, c3]
  by_cases c4 : hlen + pack_headerLengthSize > pack_MaxHeaderSize
  · simp [c1, c2, c3, c4]
  simp only [c1, c2, c3, c4, if_false]
  generalize hbs : (if E > file.length then file.length else E) = bs
  have hbs1 : bs ≤ E := by rw [← hbs]; split <;> omega
  have hbs2 : bs ≤ file.length := by rw [← hbs]; split <;> omega
  have hbs3 : bs = E ∨ bs = file.length := by rw [← hbs]; split <;> simp
  by_cases c5 : hlen + pack_headerLengthSize ≤ E
  · simp only [c5, if_true]
    congr 1
    by_cases c6 : hlen + pack_headerLengthSize < bs
    · simp only [c6, if_true]
    · simp only [c6, if_false]
      -- the eager buffer is exactly the header
      have hbe : bs = hlen + pack_headerLengthSize := by
        rcases hbs3 with h | h <;> omega
      have e1 : hlen + pack_headerLengthSize - pack_headerLengthSize = hlen := by omega
      have e2 : file.length - (hlen + pack_headerLengthSize) = file.length - pack_headerLengthSize - hlen := by omega
      rw [hbe, e1, e2]
  · simp only [c5, if_false]
    have hc4 : pack_headerLengthSize ≤ hlen + pack_headerLengthSize := by omega
    rw [readRecords_eq file (hlen + pack_headerLengthSize) hc4 hn4]
    simp only [hh, c1, c2, c3, c4, if_false]
    have e1 : hlen + pack_headerLengthSize - pack_headerLengthSize = hlen := by omega
    have e2 : file.length - (hlen + pack_headerLengthSize) = file.length - pack_headerLengthSize - hlen := by omega
    simp only [Nat.lt_irrefl, if_false, e1, e2]

/-- `readRecords` never slices out of range (any file, any claimed size) -/
theorem readRecords_no_panic (file : Bytes) (size bufsize : Nat)
    (hb : pack_headerLengthSize ≤ bufsize) (hs : pack_headerLengthSize ≤ size) :
    readRecords file size bufsize ≠ .panic := by
  obtain ⟨h4, _, _, _, _, _, hmax, _⟩ := facts_layout
  unfold readRecords
  simp only
  generalize hbs : (if bufsize > size then size else bufsize) = bs
  have hbs4 : pack_headerLengthSize ≤ bs := by rw [← hbs]; split <;> omega
  cases hr : readAt file (size - bs) bs with
  | none => simp
  | some b =>
    have hl := readAt_length _ _ _ _ hr
    simp only
    have h1 : ¬ b.length < pack_headerLengthSize := by omega
    simp only [h1, if_false]
    generalize unle32 (b.drop (b.length - pack_headerLengthSize)) = hlen
    by_cases c1 : hlen = 0
    · simp [c1]
    by_cases c2 : hlen < crypto_Extension
    · simp [c1, c2]
    by_cases c3 : hlen + pack_headerLengthSize > size
    · simp [c1, c2, c3]
    by_cases c4 : hlen + pack_headerLengthSize > pack_MaxHeaderSize
    · simp [c1, c2, c3, c4]
    simp only [c1, c2, c3, c4, if_false]
    have hmod : (hlen + pack_headerLengthSize) % 4294967296 = hlen + pack_headerLengthSize := by
      apply Nat.mod_eq_of_lt; omega
    rw [hmod]
    by_cases c5 : hlen + pack_headerLengthSize < bs
    · have hle : hlen ≤ b.length - pack_headerLengthSize := by omega
      simp [c5, hle]
    · simp [c5]

theorem readHeader_no_panic (file : Bytes) (size : Nat) : readHeader file size ≠ .panic := by
  obtain ⟨h4, hplain, hentry, hhs, hext, hmin, hmax, _⟩ := facts_layout
  unfold readHeader
  by_cases hshort : size < pack_minFileSize
  · simp [hshort]
  simp only [hshort, if_false]
  generalize hE : pack_eagerEntries * pack_entrySize + pack_headerSize = E
  have hE4 : pack_headerLengthSize ≤ E := by rw [← hE, hhs]; omega
  have hs4 : pack_headerLengthSize ≤ size := by omega
  have hnp := readRecords_no_panic file size E hE4 hs4
  cases h1 : readRecords file size E with
  | panic => exact absurd h1 hnp
  | err e => simp
  | ok r =>
    obtain ⟨b, c⟩ := r
    simp only
    by_cases c5 : c ≤ E
    · simp [c5]
    · simp only [c5, if_false]
      have hnp2 := readRecords_no_panic file size c (by omega) hs4
      cases h2 : readRecords file size c with
      | panic => exact absurd h2 hnp2
      | err e => simp
      | ok r2 => simp

end Restic.Proofs.C06
