import Restic.Proofs.C53_lines
/-!
Helper lemmas for the counters of C53: the dual iteration visits the nodes of each tree once and in
order (`dual_left`, `dual_right`), and projections of event lists.
-/
set_option linter.unusedSimpArgs false
set_option linter.unusedVariables false

namespace Restic.Proofs.C53
open Restic.Model.SnapTree Restic.Model.Diff

def leftOf (ab : Option Tree × Option Tree) : Option (Tree × Option Tree) := ab.1.map (fun x => (x, ab.2))
def rightOf (ab : Option Tree × Option Tree) : Option (Option Tree × Tree) := ab.2.map (fun y => (ab.1, y))

theorem leftOf_some (x : Tree) (b : Option Tree) : leftOf (some x, b) = some (x, b) := rfl
theorem leftOf_none (b : Option Tree) : leftOf (none, b) = none := rfl
theorem rightOf_some (a : Option Tree) (y : Tree) : rightOf (a, some y) = some (a, y) := rfl
theorem rightOf_none (a : Option Tree) : rightOf (a, none) = none := rfl

/-- the nodes of tree 1 come out once each, in order, each with its partner in tree 2 -/
theorem dual_left (l1 : List Tree) : ∀ (l2 : List Tree), LevelSorted l1 → LevelSorted l2 →
    (dual l1 l2).filterMap leftOf = l1.map (fun x => (x, find l2 (nm x))) := by
  induction l1 with
  | nil => intro l2 _ _; rw [dual_nil_left]; simp [List.filterMap_map, leftOf, Function.comp_def]
  | cons x xs ih =>
    intro l2 h1 h2
    rw [dual_cons]
    have hx := h1.1
    have hxs := h1.2
    induction l2 with
    | nil => simp [dualAux, leftOf, ih [] hxs trivial, find]
    | cons y ys ihy =>
      have hy := h2.1
      have hys := h2.2
      simp only [dualAux]
      by_cases hlt : nm x < nm y
      · have hall : ∀ u ∈ y :: ys, nm x < nm u := by
          intro u hu
          rcases List.mem_cons.mp hu with rfl | h'
          · exact hlt
          · exact name_trans hlt (hy u h')
        simp only [nm] at hlt
        simp only [hlt, if_true, List.filterMap_cons, leftOf_some, List.map_cons]
        rw [ih (y :: ys) hxs h2, find_none_of_lt hall]
      · by_cases hgt : nm y < nm x
        · have hall : ∀ u ∈ xs, nm y < nm u := fun u hu => name_trans hgt (hx u hu)
          simp only [nm] at hlt hgt
          simp only [hlt, hgt, if_true, if_false, List.filterMap_cons, leftOf_none]
          have IH := ihy hys
          rw [IH]
          have hne : nm y ≠ nm x := fun e => name_irrefl (nm x) (by simpa [nm, e] using hgt)
          simp only [List.map_cons, find_cons, hne, if_false]
          congr 1
          apply List.map_congr_left
          intro u hu
          have : nm y ≠ nm u := fun e => name_irrefl (nm u) (e ▸ hall u hu)
          simp [find_cons, this]
        · have heq : nm x = nm y := name_tri hlt hgt
          simp only [nm] at hlt hgt
          simp only [hlt, hgt, if_false, List.filterMap_cons, leftOf_some, List.map_cons]
          rw [ih ys hxs hys]
          simp only [find_cons, heq.symm, if_true]
          congr 1
          apply List.map_congr_left
          intro u hu
          have : nm y ≠ nm u := by
            intro e
            have h' := hx u hu
            rw [heq, e] at h'
            exact name_irrefl _ h'
          have this2 : nm x ≠ nm u := by
            intro e
            have h' := hx u hu
            rw [e] at h'
            exact name_irrefl _ h'
          simp [find_cons, this, this2]

/-- the nodes of tree 2 come out once each, in order, each with its partner in tree 1 -/
theorem dual_right (l1 : List Tree) : ∀ (l2 : List Tree), LevelSorted l1 → LevelSorted l2 →
    (dual l1 l2).filterMap rightOf = l2.map (fun y => (find l1 (nm y), y)) := by
  induction l1 with
  | nil => intro l2 _ _; rw [dual_nil_left]; simp [List.filterMap_map, rightOf, Function.comp_def, find]
  | cons x xs ih =>
    intro l2 h1 h2
    rw [dual_cons]
    have hx := h1.1
    have hxs := h1.2
    induction l2 with
    | nil =>
      simp only [dualAux, List.filterMap_cons, rightOf_none, List.map_nil]
      exact ih [] hxs trivial
    | cons y ys ihy =>
      have hy := h2.1
      have hys := h2.2
      simp only [dualAux]
      by_cases hlt : nm x < nm y
      · have hall : ∀ u ∈ y :: ys, nm x < nm u := by
          intro u hu
          rcases List.mem_cons.mp hu with rfl | h'
          · exact hlt
          · exact name_trans hlt (hy u h')
        simp only [nm] at hlt
        simp only [hlt, if_true, List.filterMap_cons, rightOf_none]
        have IH := ih (y :: ys) hxs h2
        rw [IH]
        apply List.map_congr_left
        intro u hu
        have : nm x ≠ nm u := fun e => name_irrefl (nm u) (e ▸ hall u hu)
        simp [find_cons, this]
      · by_cases hgt : nm y < nm x
        · have hall : ∀ u ∈ x :: xs, nm y < nm u := by
            intro u hu
            rcases List.mem_cons.mp hu with rfl | h'
            · exact hgt
            · exact name_trans hgt (hx u h')
          simp only [nm] at hlt hgt
          simp only [hlt, hgt, if_true, if_false, List.filterMap_cons, rightOf_some, List.map_cons]
          have IH := ihy hys
          rw [IH, find_none_of_lt hall]
        · have heq : nm x = nm y := name_tri hlt hgt
          simp only [nm] at hlt hgt
          simp only [hlt, hgt, if_false, List.filterMap_cons, rightOf_some, List.map_cons]
          have IH := ih ys hxs hys
          rw [IH]
          simp only [find_cons, heq, if_true]
          congr 1
          apply List.map_congr_left
          intro u hu
          have : nm x ≠ nm u := by
            intro e
            have h' := hy u hu
            rw [← heq, e] at h'
            exact name_irrefl _ h'
          have this2 : nm y ≠ nm u := by
            intro e
            have h' := hy u hu
            rw [e] at h'
            exact name_irrefl _ h'
          simp [find_cons, this, this2]


/-! ### projections of event lists -/

theorem filterMap_flatMap' {α β γ : Type} (pr : β → Option γ) (f : α → List β) : ∀ (l : List α),
    (l.flatMap f).filterMap pr = l.flatMap (fun a => (f a).filterMap pr)
  | [] => rfl
  | a :: as => by simp [List.flatMap_cons, List.filterMap_append, filterMap_flatMap' pr f as]

theorem filterMap_congr' {α β : Type} {f g : α → Option β} : ∀ (l : List α), (∀ a ∈ l, f a = g a) →
    l.filterMap f = l.filterMap g
  | [], _ => rfl
  | a :: as, h => by
    simp only [List.filterMap_cons, h a List.mem_cons_self]
    rw [filterMap_congr' as (fun x hx => h x (List.mem_cons_of_mem _ hx))]

/-- a loop body that does nothing for items without a tree-1 node can be run over tree 1 alone -/
theorem flatMap_left {γ : Type} (R : Option Tree × Option Tree → List γ) (hR : ∀ b, R (none, b) = []) :
    ∀ (d : List (Option Tree × Option Tree)),
      d.flatMap R = (d.filterMap leftOf).flatMap (fun xb => R (some xb.1, xb.2))
  | [] => rfl
  | (none, b) :: rest => by
    simp only [List.flatMap_cons, List.filterMap_cons, leftOf_none, hR, List.nil_append]
    exact flatMap_left R hR rest
  | (some x, b) :: rest => by
    simp only [List.flatMap_cons, List.filterMap_cons, leftOf_some]
    rw [flatMap_left R hR rest]

theorem flatMap_right {γ : Type} (R : Option Tree × Option Tree → List γ) (hR : ∀ a, R (a, none) = []) :
    ∀ (d : List (Option Tree × Option Tree)),
      d.flatMap R = (d.filterMap rightOf).flatMap (fun ay => R (ay.1, some ay.2))
  | [] => rfl
  | (a, none) :: rest => by
    simp only [List.flatMap_cons, List.filterMap_cons, rightOf_none, hR, List.nil_append]
    exact flatMap_right R hR rest
  | (a, some y) :: rest => by
    simp only [List.flatMap_cons, List.filterMap_cons, rightOf_some]
    rw [flatMap_right R hR rest]

/-! ### the statement side: `specList` along the nodes of the first tree -/

mutual
theorem pathsT_pre (pre : List Name) : ∀ (t : Tree), pathsT pre t = (pathsT [] t).map (pre ++ ·)
  | .mk m kids => by
    simp only [pathsT, List.map_cons, List.nil_append]
    rw [pathsL_pre (pre ++ [m.name]) kids, pathsL_pre [m.name] kids]
    simp [List.map_map, Function.comp_def]
theorem pathsL_pre (pre : List Name) : ∀ (ts : List Tree), pathsL pre ts = (pathsL [] ts).map (pre ++ ·)
  | [] => rfl
  | t :: ts => by
    simp only [pathsL, List.map_append]
    rw [pathsT_pre pre t, pathsL_pre pre ts]
end

mutual
theorem pathsT_ne : ∀ (t : Tree) (p : List Name), p ∈ pathsT [] t → p ≠ []
  | .mk m kids, p, h => by
    simp only [pathsT, List.nil_append, List.mem_cons] at h
    rcases h with rfl | h
    · simp
    · rw [pathsL_pre] at h
      obtain ⟨q, _, rfl⟩ := List.mem_map.mp h
      simp
theorem pathsL_ne : ∀ (ts : List Tree) (p : List Name), p ∈ pathsL [] ts → p ≠ []
  | [], p, h => by simp [pathsL] at h
  | t :: ts, p, h => by
    simp only [pathsL, List.mem_append] at h
    rcases h with h | h
    · exact pathsT_ne t p h
    · exact pathsL_ne ts p h
end

/-- contribution of one node `x` of the first tree (partner `bo` in the second tree) to `specList` -/
def specAt {β : Type} (g : Option Tree → Option Tree → Option β) (x : Tree) (bo : Option Tree) : List β :=
  (g (some x) bo).toList ++ specList g x.kids (kidsOf bo)

theorem specList_suffix {β : Type} (g : Option Tree → Option Tree → Option β) (a b : List Tree) :
    ∀ (s : List Tree), (∀ x ∈ s, find a (nm x) = some x) →
      (pathsL [] s).filterMap (fun p => g (lookup a p) (lookup b p)) =
        s.flatMap (fun x => specAt g x (find b (nm x)))
  | [], _ => rfl
  | x :: xs, h => by
    obtain ⟨m, k⟩ := x
    have hx := h _ List.mem_cons_self
    have hx' : find a m.name = some (Tree.mk m k) := hx
    simp only [pathsL, List.filterMap_append, List.flatMap_cons]
    rw [specList_suffix g a b xs (fun u hu => h u (List.mem_cons_of_mem _ hu))]
    congr 1
    simp only [pathsT, List.nil_append, List.filterMap_cons, specAt, nm, Tree.meta, Tree.kids]
    rw [pathsL_pre [m.name] k, List.filterMap_map]
    have e1 : g (lookup a [m.name]) (lookup b [m.name]) = g (some (Tree.mk m k)) (find b m.name) := by
      rw [lookup_single, lookup_single, hx']
    have e2 : List.filterMap ((fun p => g (lookup a p) (lookup b p)) ∘ fun x => [m.name] ++ x) (pathsL [] k) =
        specList g k (kidsOf (find b m.name)) := by
      unfold specList
      apply filterMap_congr'
      intro rest hrest
      have hne := pathsL_ne k rest hrest
      simp only [Function.comp, List.singleton_append]
      rw [lookup_cons_ne a m.name rest hne, lookup_cons_ne b m.name rest hne, hx']
      rfl
    rw [e2]
    cases hg : g (lookup a [m.name]) (lookup b [m.name]) with
    | none => rw [e1] at hg; simp [hg]
    | some v => rw [e1] at hg; simp [hg]

/-- `specList` decomposed along the (strictly sorted) first tree -/
theorem specList_decomp {β : Type} (g : Option Tree → Option Tree → Option β) (a b : List Tree)
    (ha : LevelSorted a) : specList g a b = a.flatMap (fun x => specAt g x (find b (nm x))) :=
  specList_suffix g a b a (fun x hx => find_self ha hx)

theorem specList_nil_left {β : Type} (g : Option Tree → Option Tree → Option β) (b : List Tree) :
    specList g [] b = [] := rfl

theorem specList_none {β : Type} (g : Option Tree → Option Tree → Option β) (a b : List Tree)
    (h : ∀ p, g (lookup a p) (lookup b p) = none) : specList g a b = [] := by
  unfold specList
  apply List.filterMap_eq_nil_iff.mpr
  intro p _; exact h p


theorem flatMap_congr' {α β : Type} {f g : α → List β} : ∀ (l : List α), (∀ a ∈ l, f a = g a) →
    l.flatMap f = l.flatMap g
  | [], _ => rfl
  | a :: as, h => by
    simp only [List.flatMap_cons, h a List.mem_cons_self]
    rw [flatMap_congr' as (fun x hx => h x (List.mem_cons_of_mem _ hx))]

theorem flatMap_map' {α β γ : Type} (f : α → β) (g : β → List γ) : ∀ (l : List α),
    (l.map f).flatMap g = l.flatMap (fun a => g (f a))
  | [] => rfl
  | a :: as => by simp [List.flatMap_cons, flatMap_map' f g as]

/-! ### what `printDir` / `collectDir` contribute to the counters -/

theorem stat_blobs (s : Side) (w : Which) (bs : List Blob) : (bs.map (Ev.blob w)).filterMap (prStat s) = [] := by
  induction bs with
  | nil => rfl
  | cons b bs ih => simp [List.filterMap_cons, prStat, ih]

theorem changed_blobs (w : Which) (bs : List Blob) : (bs.map (Ev.blob w)).filterMap prChanged = [] := by
  induction bs with
  | nil => rfl
  | cons b bs ih => simp [List.filterMap_cons, prChanged, ih]

mutual
theorem stat_printDirT (s s' : Side) : ∀ (pre : List Name) (t : Tree), shapeT t = true →
    (printDirT s' pre t).filterMap (prStat s) = if s' = s then flattenT t else []
  | pre, .mk m kids, h => by
    simp only [shapeT, Bool.and_eq_true, Bool.or_eq_true, beq_iff_eq, List.isEmpty_iff] at h
    simp only [printDirT, List.filterMap_append, List.filterMap_cons, List.filterMap_nil, prStat, stat_blobs,
      List.append_nil, flattenT]
    by_cases hd : m.type = .dir
    · simp only [hd, beq_self_eq_true, if_true]
      rw [stat_printDirL s s' _ kids h.2]
      by_cases hs : s' = s <;> simp [hs]
    · have hk : kids = [] := h.1.resolve_left hd
      subst hk
      have e : (m.type == NType.dir) = false := by simpa using hd
      by_cases hs : s' = s <;> simp [hs, e, flattenL]
theorem stat_printDirL (s s' : Side) : ∀ (pre : List Name) (ts : List Tree), shapeL ts = true →
    (printDirL s' pre ts).filterMap (prStat s) = if s' = s then flattenL ts else []
  | pre, [], _ => by simp [printDirL, flattenL]
  | pre, t :: ts, h => by
    simp only [shapeL, Bool.and_eq_true] at h
    simp only [printDirL, List.filterMap_append, stat_printDirT s s' pre t h.1, stat_printDirL s s' pre ts h.2, flattenL]
    by_cases hs : s' = s <;> simp [hs]
end

mutual
theorem changed_printDirT (s' : Side) : ∀ (pre : List Name) (t : Tree), (printDirT s' pre t).filterMap prChanged = []
  | pre, .mk m kids => by
    simp only [printDirT, List.filterMap_append, List.filterMap_cons, List.filterMap_nil, prChanged, changed_blobs,
      List.append_nil, List.nil_append]
    split
    · exact changed_printDirL s' _ kids
    · rfl
theorem changed_printDirL (s' : Side) : ∀ (pre : List Name) (ts : List Tree), (printDirL s' pre ts).filterMap prChanged = []
  | pre, [] => rfl
  | pre, t :: ts => by
    simp only [printDirL, List.filterMap_append, changed_printDirT s' pre t, changed_printDirL s' pre ts, List.append_nil]
end

mutual
theorem stat_collectT (s : Side) : ∀ (t : Tree), (collectT t).filterMap (prStat s) = []
  | .mk m kids => by
    simp only [collectT, List.filterMap_append, stat_blobs, List.nil_append]
    split
    · exact stat_collectL s kids
    · rfl
theorem stat_collectL (s : Side) : ∀ (ts : List Tree), (collectL ts).filterMap (prStat s) = []
  | [] => rfl
  | t :: ts => by simp only [collectL, List.filterMap_append, stat_collectT s t, stat_collectL s ts, List.append_nil]
end

mutual
theorem changed_collectT : ∀ (t : Tree), (collectT t).filterMap prChanged = []
  | .mk m kids => by
    simp only [collectT, List.filterMap_append, changed_blobs, List.nil_append]
    split
    · exact changed_collectL kids
    · rfl
theorem changed_collectL : ∀ (ts : List Tree), (collectL ts).filterMap prChanged = []
  | [] => rfl
  | t :: ts => by simp only [collectL, List.filterMap_append, changed_collectT t, changed_collectL ts, List.append_nil]
end

mutual
theorem stat_printDirT_ne (s s' : Side) (hne : s' ≠ s) : ∀ (pre : List Name) (t : Tree),
    (printDirT s' pre t).filterMap (prStat s) = []
  | pre, .mk m kids => by
    simp only [printDirT, List.filterMap_append, List.filterMap_cons, List.filterMap_nil, prStat, stat_blobs,
      List.append_nil, hne, if_false, List.nil_append]
    split
    · exact stat_printDirL_ne s s' hne _ kids
    · rfl
theorem stat_printDirL_ne (s s' : Side) (hne : s' ≠ s) : ∀ (pre : List Name) (ts : List Tree),
    (printDirL s' pre ts).filterMap (prStat s) = []
  | pre, [] => rfl
  | pre, t :: ts => by
    simp only [printDirL, List.filterMap_append, stat_printDirT_ne s s' hne pre t, stat_printDirL_ne s s' hne pre ts,
      List.append_nil]
end

theorem stat_ite_line (s : Side) (c : Prop) [Decidable c] (l : Line) :
    (if c then [Ev.line l] else []).filterMap (prStat s) = [] := by split <;> simp [prStat]
theorem stat_ite_changed (s : Side) (c : Prop) [Decidable c] :
    (if c then [Ev.changed] else []).filterMap (prStat s) = [] := by split <;> simp [prStat]
theorem changed_ite_line (c : Prop) [Decidable c] (l : Line) :
    (if c then [Ev.line l] else []).filterMap prChanged = [] := by split <;> simp [prChanged]
theorem changed_ite_changed (c : Prop) [Decidable c] :
    (if c then [Ev.changed] else []).filterMap prChanged = if c then [()] else [] := by split <;> simp [prChanged]

/-! ### `specList` in the special cases -/

mutual
theorem only_nil_T : ∀ (t : Tree), sortedT t = true → specAt gOnly t none = flattenT t
  | .mk m kids, h => by
    simp only [sortedT] at h
    simp only [specAt, gOnly, Option.toList, Tree.meta, Tree.kids, kidsOf, flattenT, List.singleton_append]
    rw [specList_decomp gOnly kids [] (levelSorted_of_sortedL _ h)]
    have : (fun x => specAt gOnly x (find [] (nm x))) = fun x => specAt gOnly x none := by
      funext x; simp [find]
    rw [this, only_nil_L kids h]
theorem only_nil_L : ∀ (ts : List Tree), sortedL ts = true → ts.flatMap (fun x => specAt gOnly x none) = flattenL ts
  | [], _ => rfl
  | t :: ts, h => by
    simp only [sortedL, Bool.and_eq_true] at h
    simp only [List.flatMap_cons, flattenL, only_nil_T t h.1.1, only_nil_L ts h.2]
end

/-- everything below a directory that exists on one side only -/
theorem only_nil (k : List Tree) (h : sortedL k = true) : specList gOnly k [] = flattenL k := by
  rw [specList_decomp gOnly k [] (levelSorted_of_sortedL _ h)]
  have : (fun x => specAt gOnly x (find [] (nm x))) = fun x => specAt gOnly x none := by
    funext x; simp [find]
  rw [this, only_nil_L k h]

theorem only_same (k : List Tree) : specList gOnly k k = [] := by
  apply specList_none
  intro p
  cases lookup k p <;> rfl

theorem changed_same (k : List Tree) : specList gChanged k k = [] := by
  apply specList_none
  intro p
  cases lookup k p with
  | none => rfl
  | some t => simp [gChanged, isM]

theorem changed_nil_right (k : List Tree) : specList gChanged k [] = [] := by
  apply specList_none
  intro p
  rw [lookup_nil]
  cases lookup k p <;> rfl


/-! ### the part of `diffItem` below a pair of nodes, projected -/

section sub
variable (rec : List Name → List Tree → List Tree → List Ev) (pre' : List Name) (m1 m2 : Meta) (k1 k2 : List Tree)

/-- the expression in `diffItem` that handles what is below the two nodes -/
def subEvs : List Ev :=
  if m1.type == .dir && m2.type == .dir then
    (if m1.subtree == m2.subtree then collectL k1 else rec pre' k1 k2)
  else if m1.type == .dir then printDirL .removed pre' k1
  else if m2.type == .dir then printDirL .added pre' k2
  else []

theorem sub_removed (so1 : sortedL k1 = true) (sh1 : shapeL k1 = true)
    (hd1 : m1.type = .dir ∨ k1 = []) (hd2 : m2.type = .dir ∨ k2 = [])
    (hf : m1.type = .dir → m2.type = .dir → m1.subtree = m2.subtree → k1 = k2)
    (hrec : m1.type = .dir → m2.type = .dir → (rec pre' k1 k2).filterMap (prStat .removed) = specList gOnly k1 k2) :
    (subEvs rec pre' m1 m2 k1 k2).filterMap (prStat .removed) = specList gOnly k1 k2 := by
  unfold subEvs
  by_cases d1 : m1.type = .dir
  · by_cases d2 : m2.type = .dir
    · simp only [d1, d2, beq_self_eq_true, Bool.and_self, if_true]
      by_cases hs : m1.subtree = m2.subtree
      · have := hf d1 d2 hs
        subst this
        simp only [hs, beq_self_eq_true, if_true, stat_collectL, only_same]
      · have : (m1.subtree == m2.subtree) = false := by simpa using hs
        simp only [this, Bool.false_eq_true, if_false]
        exact hrec d1 d2
    · have hk : k2 = [] := hd2.resolve_left d2
      subst hk
      have : (m2.type == NType.dir) = false := by simpa using d2
      simp only [d1, this, beq_self_eq_true, Bool.and_false, Bool.false_eq_true, if_false, if_true]
      rw [stat_printDirL _ _ _ _ sh1, only_nil k1 so1]; simp
  · have hk : k1 = [] := hd1.resolve_left d1
    subst hk
    have e1 : (m1.type == NType.dir) = false := by simpa using d1
    simp only [e1, Bool.false_and, Bool.false_eq_true, if_false, specList_nil_left]
    split
    · exact stat_printDirL_ne _ _ (by decide) _ _
    · rfl

theorem sub_added (so2 : sortedL k2 = true) (sh2 : shapeL k2 = true)
    (hd1 : m1.type = .dir ∨ k1 = []) (hd2 : m2.type = .dir ∨ k2 = [])
    (hf : m1.type = .dir → m2.type = .dir → m1.subtree = m2.subtree → k1 = k2)
    (hrec : m1.type = .dir → m2.type = .dir → (rec pre' k1 k2).filterMap (prStat .added) = specList gOnly k2 k1) :
    (subEvs rec pre' m1 m2 k1 k2).filterMap (prStat .added) = specList gOnly k2 k1 := by
  unfold subEvs
  by_cases d1 : m1.type = .dir
  · by_cases d2 : m2.type = .dir
    · simp only [d1, d2, beq_self_eq_true, Bool.and_self, if_true]
      by_cases hs : m1.subtree = m2.subtree
      · have := hf d1 d2 hs
        subst this
        simp only [hs, beq_self_eq_true, if_true, stat_collectL, only_same]
      · have : (m1.subtree == m2.subtree) = false := by simpa using hs
        simp only [this, Bool.false_eq_true, if_false]
        exact hrec d1 d2
    · have hk : k2 = [] := hd2.resolve_left d2
      subst hk
      have : (m2.type == NType.dir) = false := by simpa using d2
      simp only [d1, this, beq_self_eq_true, Bool.and_false, Bool.false_eq_true, if_false, if_true, specList_nil_left]
      exact stat_printDirL_ne _ _ (by decide) _ _
  · have hk : k1 = [] := hd1.resolve_left d1
    subst hk
    have e1 : (m1.type == NType.dir) = false := by simpa using d1
    simp only [e1, Bool.false_and, Bool.false_eq_true, if_false]
    by_cases d2 : m2.type = .dir
    · simp only [d2, beq_self_eq_true, if_true]
      rw [stat_printDirL _ _ _ _ sh2, only_nil k2 so2]; simp
    · have hk : k2 = [] := hd2.resolve_left d2
      subst hk
      have e2 : (m2.type == NType.dir) = false := by simpa using d2
      simp [e2, specList_nil_left]

theorem sub_changed
    (hd1 : m1.type = .dir ∨ k1 = []) (hd2 : m2.type = .dir ∨ k2 = [])
    (hf : m1.type = .dir → m2.type = .dir → m1.subtree = m2.subtree → k1 = k2)
    (hrec : m1.type = .dir → m2.type = .dir → (rec pre' k1 k2).filterMap prChanged = specList gChanged k1 k2) :
    (subEvs rec pre' m1 m2 k1 k2).filterMap prChanged = specList gChanged k1 k2 := by
  unfold subEvs
  by_cases d1 : m1.type = .dir
  · by_cases d2 : m2.type = .dir
    · simp only [d1, d2, beq_self_eq_true, Bool.and_self, if_true]
      by_cases hs : m1.subtree = m2.subtree
      · have := hf d1 d2 hs
        subst this
        simp only [hs, beq_self_eq_true, if_true, changed_collectL, changed_same]
      · have : (m1.subtree == m2.subtree) = false := by simpa using hs
        simp only [this, Bool.false_eq_true, if_false]
        exact hrec d1 d2
    · have hk : k2 = [] := hd2.resolve_left d2
      subst hk
      have : (m2.type == NType.dir) = false := by simpa using d2
      simp only [d1, this, beq_self_eq_true, Bool.and_false, Bool.false_eq_true, if_false, if_true,
        changed_printDirL, changed_nil_right]
  · have hk : k1 = [] := hd1.resolve_left d1
    subst hk
    have e1 : (m1.type == NType.dir) = false := by simpa using d1
    simp only [e1, Bool.false_and, Bool.false_eq_true, if_false, specList_nil_left]
    split
    · exact changed_printDirL _ _ _
    · rfl

end sub

end Restic.Proofs.C53
