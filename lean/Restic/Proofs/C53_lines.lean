import Restic.Proofs.C53_dual
/-!
Helper lemmas for C53: `lookup`, `expectedLine` below a name, and the lines printed by
`printDir` / `collectDir`.
-/
set_option linter.unusedSimpArgs false
set_option linter.unusedVariables false

namespace Restic.Proofs.C53
open Restic.Model.SnapTree Restic.Model.Diff

def kidsOf : Option Tree → List Tree
  | none => []
  | some t => t.kids

def consPath (n : Name) (l : Line) : Line := { l with path := n :: l.path }
def shift (pre : List Name) (l : Line) : Line := { l with path := pre ++ l.path }

theorem shift_consPath (pre : List Name) (n : Name) (l : Line) :
    shift pre (consPath n l) = shift (pre ++ [n]) l := by
  simp [shift, consPath]

theorem lookup_nil (p : List Name) : lookup [] p = none := by
  cases p with
  | nil => rfl
  | cons n rest => simp [lookup, find]

theorem lookup_single (ts : List Tree) (n : Name) : lookup ts [n] = find ts n := by
  simp only [lookup]
  cases find ts n <;> simp

theorem lookup_cons_ne (ts : List Tree) (n : Name) (rest : List Name) (h : rest ≠ []) :
    lookup ts (n :: rest) = lookup (kidsOf (find ts n)) rest := by
  simp only [lookup]
  cases hf : find ts n with
  | none => simp [kidsOf, lookup_nil]
  | some t =>
    have : rest.isEmpty = false := by cases rest <;> simp_all
    simp [kidsOf, this]

theorem lookup_ne_nil {ts : List Tree} {p : List Name} {t : Tree} (h : lookup ts p = some t) : p ≠ [] := by
  intro e; subst e; simp [lookup] at h

theorem expected_nil_path (md : Bool) (l1 l2 : List Tree) : expectedLine md l1 l2 [] = none := by
  simp [expectedLine, lookup]

/-- below the first component the expected lines are those of the children -/
theorem expected_cons (md : Bool) (l1 l2 : List Tree) (n : Name) (rest : List Name) (h : rest ≠ []) :
    expectedLine md l1 l2 (n :: rest) =
      (expectedLine md (kidsOf (find l1 n)) (kidsOf (find l2 n)) rest).map (consPath n) := by
  unfold expectedLine
  rw [lookup_cons_ne l1 n rest h, lookup_cons_ne l2 n rest h]
  cases lookup (kidsOf (find l1 n)) rest <;> cases lookup (kidsOf (find l2 n)) rest
  · rfl
  · rfl
  · rfl
  · simp only
    split <;> rfl

theorem modOf_self (md : Bool) (m : Meta) : modOf md m m = "" := by
  simp [modOf, equals]

/-- identical children: nothing is expected -/
theorem expected_same (md : Bool) (k : List Tree) (p : List Name) : expectedLine md k k p = none := by
  unfold expectedLine
  cases lookup k p with
  | none => rfl
  | some t => simp [modOf_self]

theorem expected_left (md : Bool) (k : List Tree) (p : List Name) :
    expectedLine md k [] p = (lookup k p).map (fun t => ⟨p, t.meta.type == .dir, "-"⟩) := by
  unfold expectedLine
  rw [lookup_nil]
  cases lookup k p <;> rfl

theorem expected_right (md : Bool) (k : List Tree) (p : List Name) :
    expectedLine md [] k p = (lookup k p).map (fun t => ⟨p, t.meta.type == .dir, "+"⟩) := by
  unfold expectedLine
  rw [lookup_nil]
  cases lookup k p <;> rfl

theorem lookup_cons (t : Tree) (ts : List Tree) (n : Name) (rest : List Name) :
    lookup (t :: ts) (n :: rest) =
      if nm t = n then (if rest.isEmpty then some t else lookup t.kids rest) else lookup ts (n :: rest) := by
  simp only [lookup, find_cons]
  by_cases h : nm t = n <;> simp [h]

theorem lookup_tail {t : Tree} {ts : List Tree} (hs : LevelSorted (t :: ts)) {p : List Name} {u : Tree}
    (h : lookup ts p = some u) : lookup (t :: ts) p = some u := by
  cases p with
  | nil => simp [lookup] at h
  | cons n rest =>
    rw [lookup_cons]
    have : nm t ≠ n := by
      apply ne_of_find hs.1 (a := find ts n) rfl
      simp only [lookup] at h
      cases hf : find ts n with
      | none => simp [hf] at h
      | some _ => rfl
    simp [this, h]

/-! ### printDir / collectDir -/

mutual
theorem collectT_no_line (l : Line) : ∀ t, Ev.line l ∉ collectT t
  | .mk m kids => by
    simp only [collectT, List.mem_append, List.mem_map, not_or]
    refine ⟨by simp, ?_⟩
    split
    · exact collectL_no_line l kids
    · simp
theorem collectL_no_line (l : Line) : ∀ ts, Ev.line l ∉ collectL ts
  | [] => by simp [collectL]
  | t :: ts => by
    simp only [collectL, List.mem_append, not_or]
    exact ⟨collectT_no_line l t, collectL_no_line l ts⟩
end

mutual
theorem printDirT_lines (s : Side) (l : Line) : ∀ (pre : List Name) (t : Tree), sortedT t = true → shapeT t = true →
    (Ev.line l ∈ printDirT s pre t ↔
      l = ⟨pre ++ [nm t], t.meta.type == .dir, s.str⟩ ∨
      ∃ p u, lookup t.kids p = some u ∧ l = ⟨pre ++ [nm t] ++ p, u.meta.type == .dir, s.str⟩)
  | pre, .mk m kids, hso, hsh => by
    simp only [sortedT] at hso
    simp only [shapeT, Bool.and_eq_true, Bool.or_eq_true, beq_iff_eq, List.isEmpty_iff] at hsh
    simp only [printDirT, List.mem_append, List.mem_cons, Ev.line.injEq, List.mem_map, nm, Tree.meta, Tree.kids,
      List.not_mem_nil, or_false, reduceCtorEq, and_false, exists_false]
    by_cases hd : m.type = .dir
    · simp only [hd, beq_self_eq_true, if_true]
      rw [printDirL_lines s l (pre ++ [m.name]) kids hso hsh.2]
      simp only [List.append_assoc, List.singleton_append]
      exact Iff.rfl
    · have hk : kids = [] := hsh.1.resolve_left hd
      subst hk
      simp [hd, lookup_nil]
theorem printDirL_lines (s : Side) (l : Line) : ∀ (pre : List Name) (ts : List Tree), sortedL ts = true → shapeL ts = true →
    (Ev.line l ∈ printDirL s pre ts ↔ ∃ p u, lookup ts p = some u ∧ l = ⟨pre ++ p, u.meta.type == .dir, s.str⟩)
  | pre, [], _, _ => by simp [printDirL, lookup_nil]
  | pre, t :: ts, hso, hsh => by
    have hls := levelSorted_of_sortedL _ hso
    simp only [sortedL, Bool.and_eq_true] at hso
    simp only [shapeL, Bool.and_eq_true] at hsh
    simp only [printDirL, List.mem_append]
    rw [printDirT_lines s l pre t hso.1.1 hsh.1, printDirL_lines s l pre ts hso.2 hsh.2]
    constructor
    · rintro ((h | ⟨p, u, hp, hl⟩) | ⟨p, u, hp, hl⟩)
      · exact ⟨[nm t], t, by simp [lookup_cons], h⟩
      · refine ⟨nm t :: p, u, ?_, by simpa using hl⟩
        have : p.isEmpty = false := by
          cases p with
          | nil => simp [lookup] at hp
          | cons _ _ => rfl
        simp [lookup_cons, this, hp]
      · exact ⟨p, u, lookup_tail hls hp, hl⟩
    · rintro ⟨p, u, hp, hl⟩
      cases p with
      | nil => simp [lookup] at hp
      | cons n rest =>
        rw [lookup_cons] at hp
        by_cases hn : nm t = n
        · simp only [hn, if_true] at hp
          left
          by_cases hr : rest.isEmpty = true
          · simp only [hr, if_true, Option.some.injEq] at hp
            subst hp
            have : rest = [] := List.isEmpty_iff.mp hr
            subst this
            left; rw [hl, hn]
          · simp only [hr] at hp
            right
            refine ⟨rest, u, hp, ?_⟩
            rw [hl, hn]; simp
        · simp only [hn, if_false] at hp
          right
          exact ⟨n :: rest, u, hp, hl⟩
end

/-- `printDir` prints exactly the lines expected for a subtree that exists on one side only -/
theorem printDir_removed (md : Bool) (l : Line) (pre : List Name) (k : List Tree) (hso : sortedL k = true)
    (hsh : shapeL k = true) :
    Ev.line l ∈ printDirL .removed pre k ↔ ∃ p l', expectedLine md k [] p = some l' ∧ l = shift pre l' := by
  rw [printDirL_lines .removed l pre k hso hsh]
  constructor
  · rintro ⟨p, u, hp, hl⟩
    exact ⟨p, ⟨p, u.meta.type == .dir, "-"⟩, by simp [expected_left, hp], by simpa [shift, Side.str] using hl⟩
  · rintro ⟨p, l', he, hl⟩
    rw [expected_left] at he
    cases hlk : lookup k p with
    | none => simp [hlk] at he
    | some u =>
      simp only [hlk, Option.map_some, Option.some.injEq] at he
      exact ⟨p, u, hlk, by rw [hl, ← he]; simp [shift, Side.str]⟩

theorem printDir_added (md : Bool) (l : Line) (pre : List Name) (k : List Tree) (hso : sortedL k = true)
    (hsh : shapeL k = true) :
    Ev.line l ∈ printDirL .added pre k ↔ ∃ p l', expectedLine md [] k p = some l' ∧ l = shift pre l' := by
  rw [printDirL_lines .added l pre k hso hsh]
  constructor
  · rintro ⟨p, u, hp, hl⟩
    exact ⟨p, ⟨p, u.meta.type == .dir, "+"⟩, by simp [expected_right, hp], by simpa [shift, Side.str] using hl⟩
  · rintro ⟨p, l', he, hl⟩
    rw [expected_right] at he
    cases hlk : lookup k p with
    | none => simp [hlk] at he
    | some u =>
      simp only [hlk, Option.map_some, Option.some.injEq] at he
      exact ⟨p, u, hlk, by rw [hl, ← he]; simp [shift, Side.str]⟩

end Restic.Proofs.C53
