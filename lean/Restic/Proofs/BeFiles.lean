import Restic.Model.BeFiles
/-!
Lemmas about the backend-file model `Restic.Model.BeFiles` (finite map as association list).
-/
namespace Restic.Proofs.BeFiles
open Restic.Model.BeFiles

theorem get_cons (h' h : Handle) (c : Content) (st : State) :
    get ((h', c) :: st) h = if h' = h then some c else get st h := rfl

theorem get_erase_same (st : State) (h : Handle) : get (erase st h) h = none := by
  induction st with
  | nil => rfl
  | cons p rest ih =>
    unfold erase
    simp only [List.filter_cons]
    by_cases hp : p.1 = h
    · simp only [ne_eq, hp, not_true_eq_false, decide_false, Bool.false_eq_true, if_false]
      exact ih
    · simp only [ne_eq, hp, not_false_eq_true, decide_true, if_true]
      obtain ⟨a, b⟩ := p
      simp only [get_cons, show a ≠ h from hp, if_false]
      exact ih

theorem get_erase_ne (st : State) (h h' : Handle) (hne : h' ≠ h) :
    get (erase st h) h' = get st h' := by
  induction st with
  | nil => rfl
  | cons p rest ih =>
    obtain ⟨a, b⟩ := p
    unfold erase
    simp only [List.filter_cons]
    by_cases hp : a = h
    · have : a ≠ h' := fun e => hne (e ▸ hp)
      simp only [ne_eq, hp, not_true_eq_false, decide_false, Bool.false_eq_true, if_false, get_cons]
      rw [if_neg (by rw [← hp]; exact this)]
      exact ih
    · simp only [ne_eq, hp, not_false_eq_true, decide_true, if_true, get_cons]
      by_cases ha : a = h'
      · simp only [ha, if_true]
      · simp only [ha, if_false]; exact ih

theorem get_put_same (st : State) (h : Handle) (c : Content) : get (put st h c) h = some c := by
  simp only [put, get_cons, if_true]

theorem get_put_ne (st : State) (h h' : Handle) (c : Content) (hne : h' ≠ h) :
    get (put st h c) h' = get st h' := by
  simp only [put, get_cons, if_neg (Ne.symm hne)]
  exact get_erase_ne st h h' hne

/-- an event that does not write to `h` leaves `h` alone -/
theorem get_apply_untouched (st : State) (e : Ev) (h : Handle) (hn : e.target ≠ some h) :
    get (apply st e) h = get st h := by
  cases e with
  | save h' c =>
    have : h ≠ h' := fun e => hn (by simp [Ev.target, e])
    exact get_put_ne st h' h c this
  | remove h' =>
    have : h ≠ h' := fun e => hn (by simp [Ev.target, e])
    exact get_erase_ne st h' h this
  | load _ => rfl
  | stat _ => rfl
  | list _ => rfl

theorem get_applyAll_untouched (evs : List Ev) (st : State) (h : Handle)
    (hn : ∀ e ∈ evs, e.target ≠ some h) : get (applyAll st evs) h = get st h := by
  induction evs generalizing st with
  | nil => rfl
  | cons e rest ih =>
    simp only [applyAll, List.foldl_cons]
    have h1 := ih (apply st e) (fun e' he' => hn e' (List.mem_cons_of_mem _ he'))
    simp only [applyAll] at h1
    rw [h1]
    exact get_apply_untouched st e h (hn e (List.mem_cons_self))

/-- read-only events do not change the state at all -/
theorem apply_readonly (st : State) (e : Ev) (hr : e.mutating = false) : apply st e = st := by
  cases e <;> simp_all [Ev.mutating, apply]

theorem applyAll_readonly (evs : List Ev) (st : State) (hr : ∀ e ∈ evs, e.mutating = false) :
    applyAll st evs = st := by
  induction evs generalizing st with
  | nil => rfl
  | cons e rest ih =>
    simp only [applyAll, List.foldl_cons]
    rw [apply_readonly st e (hr e List.mem_cons_self)]
    exact ih st (fun e' he' => hr e' (List.mem_cons_of_mem _ he'))

theorem applyAll_append (st : State) (a b : List Ev) :
    applyAll st (a ++ b) = applyAll (applyAll st a) b := by
  simp only [applyAll, List.foldl_append]

/-- a binding that is listed can be looked up (possibly shadowed by an earlier one) -/
theorem get_isSome_of_mem (st : State) (p : Handle × Content) (hp : p ∈ st) : (get st p.1).isSome = true := by
  induction st with
  | nil => cases hp
  | cons q rest ih =>
    obtain ⟨a, b⟩ := q
    simp only [get_cons]
    by_cases ha : a = p.1
    · simp only [ha, if_true, Option.isSome_some]
    · simp only [ha, if_false]
      cases hp with
      | head => exact absurd rfl ha
      | tail _ h => exact ih h

theorem mem_of_get (st : State) (h : Handle) (c : Content) (hg : get st h = some c) : (h, c) ∈ st := by
  induction st with
  | nil => cases hg
  | cons q rest ih =>
    obtain ⟨a, b⟩ := q
    simp only [get_cons] at hg
    by_cases ha : a = h
    · simp only [ha, if_true, Option.some.injEq] at hg
      rw [ha, hg]; exact List.mem_cons_self
    · simp only [ha, if_false] at hg
      exact List.mem_cons_of_mem _ (ih hg)

end Restic.Proofs.BeFiles
