import Restic.Proofs.RepoTrace
/-!
The transcribed writer (`Restic.Model.RepoTrace.backupRun`: uploader pool under an arbitrary
schedule, `flush`, snapshot; with backend failures at arbitrary instructions) only produces
traces of the language `accept_backup`, and a run in which anything failed writes no snapshot.
-/
namespace Restic.Proofs.Writer
open Restic.Model.RepoTrace Restic.Proofs.RepoTrace


theorem acceptAdds_snoc (r : Repo) (l : List Ev) (e : Ev) :
    acceptAdds r (l ++ [e]) = (acceptAdds r l && addGuard (applyAll r l) e) := by
  induction l generalizing r with
  | nil => simp [acceptAdds, applyAll]
  | cons x l ih => simp [acceptAdds, ih, applyAll_cons, Bool.and_assoc]

theorem savePack_mem {r : Repo} {l : List Ev} {p : Nat} {bs : List Blob} (h : acceptAdds r l = true)
    (hm : Ev.savePack p bs ∈ l) : (p, bs) ∈ (applyAll r l).packs := by
  induction l generalizing r with
  | nil => simp at hm
  | cons e l ih =>
    simp only [acceptAdds, Bool.and_eq_true] at h
    rw [applyAll_cons]
    rcases List.mem_cons.mp hm with rfl | hm
    · exact (acceptAdds_safe h.2).1.packs _ (by simp [apply])
    · exact ih h.2 hm

theorem saveIndex_mem {r : Repo} {l : List Ev} {i : Nat} {es : List IndexEntry} (h : acceptAdds r l = true)
    (hm : Ev.saveIndex i es ∈ l) :
    (i, es) ∈ (applyAll r l).indexes ∧ ∀ e ∈ es, entryOK (applyAll r l) e = true := by
  induction l generalizing r with
  | nil => simp at hm
  | cons e l ih =>
    simp only [acceptAdds, Bool.and_eq_true] at h
    rw [applyAll_cons]
    rcases List.mem_cons.mp hm with rfl | hm
    · have hsub := (acceptAdds_safe h.2).1
      refine ⟨hsub.indexes _ (by simp [apply]), fun en hen => ?_⟩
      have hg := h.1
      simp only [addGuard] at hg
      rw [List.all_eq_true] at hg
      exact entryOK_mono hsub.toSubPI (entryOK_mono (apply_subPI r _ rfl) (hg en hen))
    · exact ih h.2 hm

theorem snapOnlyLast_of_nosnap {l : List Ev} (h : ∀ e ∈ l, isSaveSnap e = false) : snapOnlyLast l = true := by
  induction l with
  | nil => rfl
  | cons e l ih =>
    cases l with
    | nil => rfl
    | cons e2 l2 =>
      simp only [snapOnlyLast, Bool.and_eq_true, Bool.not_eq_true']
      exact ⟨h e (by simp), ih (fun x hx => h x (List.mem_cons_of_mem _ hx))⟩

theorem snapOnlyLast_snoc {l : List Ev} (h : ∀ e ∈ l, isSaveSnap e = false) (x : Ev) :
    snapOnlyLast (l ++ [x]) = true := by
  induction l with
  | nil => rfl
  | cons e l ih =>
    cases l with
    | nil => simp [snapOnlyLast, h e (by simp)]
    | cons e2 l2 =>
      simp only [List.cons_append, snapOnlyLast, Bool.and_eq_true, Bool.not_eq_true']
      exact ⟨h e (by simp), by simpa using ih (fun x hx => h x (List.mem_cons_of_mem _ hx))⟩

structure WInv (r0 : Repo) (w : WState) : Prop where
  up : ∀ k job, w.jobs[k]? = some job → (w.pc k = 1 ∨ w.pc k = 2) → Ev.savePack job.pid job.blobs ∈ w.out
  pend : ∀ e ∈ w.pending, Ev.savePack e.1 e.2 ∈ w.out
  acc : acceptAdds r0 w.out.reverse = true
  nosnap : ∀ e ∈ w.out, isSaveSnap e = false
  idx : w.failed = false → ∀ k job, w.jobs[k]? = some job → 2 ≤ w.pc k →
    (job.pid, job.blobs) ∈ w.pending ∨ ∃ i es, Ev.saveIndex i es ∈ w.out ∧ (job.pid, job.blobs) ∈ es

theorem stepJob_jobs (w : WState) (j : Nat) (f : Bool) : (stepJob w j f).jobs = w.jobs := by
  unfold stepJob
  split
  · rfl
  · split
    · split <;> rfl
    · split
      · rfl
      · split
        · split
          · split <;> rfl
          · rfl
        · rfl

theorem pending_entryOK {r0 : Repo} {w : WState} (h : WInv r0 w) :
    ∀ e ∈ w.pending.reverse, entryOK (applyAll r0 w.out.reverse) e = true := by
  intro e he
  have hm := h.pend e (List.mem_reverse.mp he)
  have hp := savePack_mem h.acc (List.mem_reverse.mpr hm)
  unfold entryOK
  rw [List.all_eq_true]
  intro b hb
  unfold packHas
  rw [List.any_eq_true]
  exact ⟨(e.1, e.2), hp, by simp [hb]⟩

theorem stepJob_inv {r0 : Repo} {w : WState} (h : WInv r0 w) (j : Nat) (f : Bool) : WInv r0 (stepJob w j f) := by
  unfold stepJob
  split
  · exact h
  · rename_i job hj
    split
    · rename_i hpc
      split
      · -- upload fails
        exact { up := fun k jb hk hp => by
                  simp only [setPc] at hp hk
                  by_cases hkj : k = j
                  · simp [hkj] at hp
                  · simp only [hkj, if_false] at hp; exact h.up k jb hk hp
                pend := h.pend, acc := h.acc, nosnap := h.nosnap
                idx := fun hf => by simp at hf }
      · -- upload
        exact { up := fun k jb hk hp => by
                  simp only [setPc] at hp hk ⊢
                  by_cases hkj : k = j
                  · subst hkj
                    rw [hj] at hk; cases hk
                    exact List.mem_cons_self
                  · simp only [hkj, if_false] at hp
                    exact List.mem_cons_of_mem _ (h.up k jb hk hp)
                pend := fun e he => List.mem_cons_of_mem _ (h.pend e he)
                acc := by
                  simp only [setPc, List.reverse_cons]
                  rw [acceptAdds_snoc, h.acc]; rfl
                nosnap := fun e he => by
                  simp only [setPc, List.mem_cons] at he
                  rcases he with rfl | he
                  · rfl
                  · exact h.nosnap e he
                idx := fun hf k jb hk hp => by
                  simp only [setPc] at hp hk hf ⊢
                  by_cases hkj : k = j
                  · simp [hkj] at hp
                  · simp only [hkj, if_false] at hp
                    rcases h.idx hf k jb hk hp with h1 | ⟨i, es, h1, h2⟩
                    · exact Or.inl h1
                    · exact Or.inr ⟨i, es, List.mem_cons_of_mem _ h1, h2⟩ }
    · split
      · rename_i hpc0 hpc
        -- store
        exact { up := fun k jb hk hp => by
                  simp only [setPc] at hp hk ⊢
                  by_cases hkj : k = j
                  · subst hkj
                    rw [hj] at hk; cases hk
                    exact h.up k job hj (Or.inl hpc)
                  · simp only [hkj, if_false] at hp
                    exact h.up k jb hk hp
                pend := fun e he => by
                  simp only [setPc, List.mem_cons] at he ⊢
                  rcases he with rfl | he
                  · exact h.up j job hj (Or.inl hpc)
                  · exact h.pend e he
                acc := h.acc, nosnap := h.nosnap
                idx := fun hf k jb hk hp => by
                  simp only [setPc] at hp hk hf ⊢
                  by_cases hkj : k = j
                  · subst hkj
                    rw [hj] at hk; cases hk
                    exact Or.inl List.mem_cons_self
                  · simp only [hkj, if_false] at hp
                    rcases h.idx hf k jb hk hp with h1 | h1
                    · exact Or.inl (List.mem_cons_of_mem _ h1)
                    · exact Or.inr h1 }
      · split
        · rename_i hpc0 hpc1 hpc
          split
          · split
            · -- index save fails
              exact { up := fun k jb hk hp => by
                        simp only [setPc] at hp hk
                        by_cases hkj : k = j
                        · simp [hkj] at hp
                        · simp only [hkj, if_false] at hp; exact h.up k jb hk hp
                      pend := h.pend, acc := h.acc, nosnap := h.nosnap
                      idx := fun hf => by simp at hf }
            · -- index saved
              exact { up := fun k jb hk hp => by
                        simp only [setPc] at hp hk ⊢
                        by_cases hkj : k = j
                        · simp [hkj] at hp
                        · simp only [hkj, if_false] at hp
                          exact List.mem_cons_of_mem _ (h.up k jb hk hp)
                      pend := fun e he => by simp [setPc] at he
                      acc := by
                        simp only [setPc, List.reverse_cons]
                        rw [acceptAdds_snoc, h.acc]
                        simp only [Bool.true_and, addGuard]
                        rw [List.all_eq_true]
                        exact pending_entryOK h
                      nosnap := fun e he => by
                        simp only [setPc, List.mem_cons] at he
                        rcases he with rfl | he
                        · rfl
                        · exact h.nosnap e he
                      idx := fun hf k jb hk hp => by
                        simp only [setPc] at hp hk hf ⊢
                        have old : 2 ≤ w.pc k := by
                          by_cases hkj : k = j
                          · subst hkj; omega
                          · simpa [hkj] using hp
                        rcases h.idx hf k jb hk old with h1 | ⟨i, es, h1, h2⟩
                        · exact Or.inr ⟨job.iid, w.pending.reverse, List.mem_cons_self, List.mem_reverse.mpr h1⟩
                        · exact Or.inr ⟨i, es, List.mem_cons_of_mem _ h1, h2⟩ }
          · -- not full: done
            exact { up := fun k jb hk hp => by
                      simp only [setPc] at hp hk ⊢
                      by_cases hkj : k = j
                      · simp [hkj] at hp
                      · simp only [hkj, if_false] at hp; exact h.up k jb hk hp
                    pend := h.pend, acc := h.acc, nosnap := h.nosnap
                    idx := fun hf k jb hk hp => by
                      simp only [setPc] at hp hk hf ⊢
                      have old : 2 ≤ w.pc k := by
                        by_cases hkj : k = j
                        · subst hkj; omega
                        · simpa [hkj] using hp
                      exact h.idx hf k jb hk old }
        · exact h

theorem runJobs_inv {r0 : Repo} {w : WState} (h : WInv r0 w) (s : List (Nat × Bool)) :
    WInv r0 (runJobs w s) ∧ (runJobs w s).jobs = w.jobs := by
  induction s generalizing w with
  | nil => exact ⟨h, rfl⟩
  | cons x s ih =>
    obtain ⟨j, f⟩ := x
    have := ih (stepJob_inv h j f)
    exact ⟨this.1, by show (runJobs (stepJob w j f) s).jobs = w.jobs; rw [this.2, stepJob_jobs]⟩

theorem flushIndex_inv {r0 : Repo} {w : WState} (h : WInv r0 w) (fid : Nat) (f : Bool) :
    WInv r0 (flushIndex w fid f) ∧ (flushIndex w fid f).jobs = w.jobs ∧ (flushIndex w fid f).pc = w.pc ∧
    ((flushIndex w fid f).failed = false → (flushIndex w fid f).pending = [] ∧ w.failed = false) := by
  unfold flushIndex
  split
  · rename_i he
    refine ⟨h, rfl, rfl, fun hf => ⟨by simpa using he, hf⟩⟩
  · split
    · exact ⟨{ up := h.up, pend := h.pend, acc := h.acc, nosnap := h.nosnap, idx := fun hf => by simp at hf },
        rfl, rfl, fun hf => by simp at hf⟩
    · refine ⟨{ up := fun k jb hk hp => List.mem_cons_of_mem _ (h.up k jb hk hp)
                pend := fun e he => by simp at he
                acc := by
                  simp only [List.reverse_cons]
                  rw [acceptAdds_snoc, h.acc]
                  simp only [Bool.true_and, addGuard]
                  rw [List.all_eq_true]
                  exact pending_entryOK h
                nosnap := fun e he => by
                  simp only [List.mem_cons] at he
                  rcases he with rfl | he
                  · rfl
                  · exact h.nosnap e he
                idx := fun hf k jb hk hp => by
                  rcases h.idx hf k jb hk hp with h1 | ⟨i, es, h1, h2⟩
                  · exact Or.inr ⟨fid, w.pending.reverse, List.mem_cons_self, List.mem_reverse.mpr h1⟩
                  · exact Or.inr ⟨i, es, List.mem_cons_of_mem _ h1, h2⟩ }, rfl, rfl, fun hf => ⟨rfl, hf⟩⟩

/-- the archiver only references blobs it handed to a packer of this run or found in the index it
    loaded (C16 / C44 are about that logic) -/
def PlanOK (r0 : Repo) (jobs : List PackJob) (sn : Snap) : Prop :=
  ∀ h ∈ sn.needs, indexed r0 h = true ∨ ∃ job ∈ jobs, ∃ b ∈ job.blobs, b.h = h

theorem init_inv (r0 : Repo) (jobs : List PackJob) :
    WInv r0 { jobs := jobs, pc := fun _ => 0, pending := [], out := [], failed := false } :=
  { up := fun k jb _ hp => by simp at hp
    pend := fun e he => by simp at he
    acc := rfl
    nosnap := fun e he => by simp at he
    idx := fun _ k jb _ hp => by simp at hp }

theorem backupRun_accepted (r0 : Repo) (jobs : List PackJob) (sched : List (Nat × Bool)) (fid : Nat)
    (flushFails : Bool) (sid : Nat) (sn : Snap) (snapFails : Bool) (hplan : PlanOK r0 jobs sn) :
    accept_backup r0 (backupRun jobs sched fid flushFails sid sn snapFails) = true := by
  obtain ⟨hinv, hjobs⟩ := runJobs_inv (init_inv r0 jobs) sched
  simp only at hjobs
  unfold backupRun
  simp only
  generalize runJobs { jobs := jobs, pc := fun _ => 0, pending := [], out := [], failed := false } sched = w at *
  have plain : ∀ w' : WState, WInv r0 w' → accept_backup r0 w'.out.reverse = true := fun w' h' => by
    unfold accept_backup
    rw [h'.acc, Bool.true_and]
    exact snapOnlyLast_of_nosnap (fun e he => h'.nosnap e (List.mem_reverse.mp he))
  split
  · exact plain w hinv
  · rename_i hcond
    obtain ⟨hinv2, hjobs2, hpc2, hpend2⟩ := flushIndex_inv hinv fid flushFails
    split
    · exact plain _ hinv2
    · rename_i hnf
      split
      · exact plain _ hinv2
      · -- the snapshot is saved
        simp only [Bool.or_eq_true, Bool.not_eq_true', not_or, Bool.not_eq_true, Bool.not_eq_false] at hcond
        have hnf' : (flushIndex w fid flushFails).failed = false := by simpa using hnf
        obtain ⟨hpe, hwf⟩ := hpend2 hnf'
        unfold accept_backup
        rw [List.reverse_cons, acceptAdds_snoc, hinv2.acc, Bool.true_and, Bool.and_eq_true]
        refine ⟨?_, snapOnlyLast_snoc (fun e he => hinv2.nosnap e (List.mem_reverse.mp he)) _⟩
        simp only [addGuard]
        unfold restorable
        rw [List.all_eq_true]
        intro h hh
        rcases hplan h hh with h0 | ⟨job, hjob, b, hb, hbh⟩
        · exact indexed_mono (acceptAdds_safe hinv2.acc).1.toSubPI h0
        · -- the job is done, so its pack is in a saved index file of this run
          obtain ⟨k, hk⟩ := List.mem_iff_getElem?.mp hjob
          have hk' : (flushIndex w fid flushFails).jobs[k]? = some job := by rw [hjobs2, hjobs]; exact hk
          have hklt : k < w.jobs.length := by
            rw [hjobs]
            exact (List.getElem?_eq_some_iff.mp hk).1
          have hdone : w.pc k = 3 := by
            have := hcond.2
            unfold allDone at this
            rw [List.all_eq_true] at this
            simpa using this k (List.mem_range.mpr hklt)
          rcases hinv2.idx hnf' k job hk' (by rw [hpc2, hdone]; omega) with h1 | ⟨i, es, h1, h2⟩
          · rw [hpe] at h1; simp at h1
          · obtain ⟨hix, hok⟩ := saveIndex_mem hinv2.acc (List.mem_reverse.mpr h1)
            have hent := hok _ h2
            unfold entryOK at hent
            rw [List.all_eq_true] at hent
            unfold indexed
            rw [List.any_eq_true]
            refine ⟨(i, es), hix, ?_⟩
            rw [List.any_eq_true]
            refine ⟨(job.pid, job.blobs), h2, ?_⟩
            rw [List.any_eq_true]
            exact ⟨b, hb, by rw [Bool.and_eq_true]; exact ⟨by simp [hbh], hent b hb⟩⟩

/-- a run in which anything failed never writes a snapshot -/
theorem failed_run_no_snapshot (jobs : List PackJob) (sched : List (Nat × Bool)) (fid : Nat)
    (flushFails : Bool) (sid : Nat) (sn : Snap) (snapFails : Bool)
    (hfail : (runJobs { jobs := jobs, pc := fun _ => 0, pending := [], out := [], failed := false } sched).failed = true
      ∨ flushFails = true ∧ (runJobs { jobs := jobs, pc := fun _ => 0, pending := [], out := [], failed := false } sched).pending ≠ []
      ∨ snapFails = true) :
    ∀ e ∈ backupRun jobs sched fid flushFails sid sn snapFails, isSaveSnap e = false := by
  obtain ⟨hinv, _⟩ := runJobs_inv (init_inv Repo.empty jobs) sched
  unfold backupRun
  simp only
  generalize runJobs { jobs := jobs, pc := fun _ => 0, pending := [], out := [], failed := false } sched = w at *
  obtain ⟨hinv2, _, _, _⟩ := flushIndex_inv hinv fid flushFails
  split
  · exact fun e he => hinv.nosnap e (List.mem_reverse.mp he)
  · rename_i hcond
    split
    · exact fun e he => hinv2.nosnap e (List.mem_reverse.mp he)
    · rename_i hnf
      split
      · exact fun e he => hinv2.nosnap e (List.mem_reverse.mp he)
      · rename_i hsf
        exfalso
        simp only [Bool.or_eq_true, not_or, Bool.not_eq_true] at hcond
        rcases hfail with h1 | ⟨h1, h2⟩ | h1
        · rw [h1] at hcond; simp at hcond
        · apply hnf
          unfold flushIndex
          have : w.pending.isEmpty = false := by
            cases hp : w.pending with
            | nil => exact absurd hp h2
            | cons a l => rfl
          simp [this, h1]
        · exact hsf h1


end Restic.Proofs.Writer
