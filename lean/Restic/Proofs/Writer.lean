import Restic.Proofs.RepoTrace
/-!
The transcribed writer (`backupRun`: uploader pool schedule, flush, snapshot; with failures) only
produces traces of the language `accept_backup`.
-/
namespace Restic.Proofs.Writer
open Restic.Model.RepoTrace Restic.Proofs.RepoTrace

end Restic.Proofs.Writer
