import Restic.Proofs.C10_Account
import Restic.Proofs.C09_Plan
/-!
Helper lemmas for C10: the blob counters reported by `packInfoFromIndex` equal counts of the
index and of the used-blob set.
-/
namespace Restic.Proofs.C10Stats
open Restic.Model.Repo Restic.Model.Prune Restic.Proofs.C09Select Restic.Proofs.C09Plan Restic.Proofs.C10Account

theorem countP4 {α : Type} (l : List α) (a b c d : α → Bool)
    (h : ∀ x ∈ l, (if a x then 1 else 0) + (if b x then 1 else 0) + (if c x then 1 else 0) + (if d x then 1 else 0) = 1) :
    l.countP a + l.countP b + l.countP c + l.countP d = l.length := by
  induction l with
  | nil => simp
  | cons x l ih =>
    have ih' := ih (fun y hy => h y (List.mem_cons_of_mem _ hy))
    have hx := h x (List.mem_cons_self ..)
    simp only [List.countP_cons, List.length_cons]
    omega

theorem sum_ones (l : List BlobH) : (l.map fun _ => 1).sum = l.length := by
  induction l with
  | nil => rfl
  | cons x l ih => simp only [List.map_cons, List.sum_cons, List.length_cons, ih]; omega

theorem countP_split_head {α : Type} (key : α → BlobH) (r : α → Bool) (b : BlobH) (L : List BlobH) (hb : b ∉ L) :
    ∀ (z : List α), z.countP (fun x => (b :: L).contains (key x) && r x) =
      z.countP (fun x => key x == b && r x) + z.countP (fun x => L.contains (key x) && r x) := by
  intro z
  induction z with
  | nil => simp
  | cons x z ihz =>
    simp only [List.countP_cons, ihz]
    have e : (if ((b :: L).contains (key x) && r x) = true then 1 else 0) =
        (if (key x == b && r x) = true then 1 else 0) + (if (L.contains (key x) && r x) = true then 1 else 0) := by
      by_cases hk : key x = b
      · have hL : key x ∉ L := by rw [hk]; exact hb
        cases hr : r x <;> simp [hk, hb]
      · by_cases hL : key x ∈ L
        · cases hr : r x <;> simp [hk, hL]
        · cases hr : r x <;> simp [hk, hL]
    omega

/-- partition of a count by a duplicate-free list of keys -/
theorem countP_partition {α : Type} (z : List α) (key : α → BlobH) (r : α → Bool) :
    ∀ (L : List BlobH), L.Nodup →
      z.countP (fun x => L.contains (key x) && r x) = (L.map fun b => z.countP fun x => key x == b && r x).sum := by
  intro L
  induction L with
  | nil => intro _; simp
  | cons b L ih =>
    intro hnd
    rw [List.nodup_cons] at hnd
    rw [countP_split_head key r b L hnd.1 z, ih hnd.2]
    simp

theorem sum_marks (single : PB → Bool) (U : BlobH → Bool) : ∀ (z : List (PB × Bool)),
    (∀ xm ∈ z, single xm.1 = true → U xm.1.e.blob = true ∧ xm.2 = false) →
    (∀ xm ∈ z, xm.2 = true → U xm.1.e.blob = true) →
    z.countP (fun xm => single xm.1) + z.countP (fun xm => xm.2)
      = z.countP (fun xm => U xm.1.e.blob && (single xm.1 || xm.2)) := by
  intro z
  induction z with
  | nil => intro _ _; simp
  | cons xm z ih =>
    intro h1 h2
    have ih' := ih (fun y hy => h1 y (List.mem_cons_of_mem _ hy)) (fun y hy => h2 y (List.mem_cons_of_mem _ hy))
    have g1 := h1 xm (List.mem_cons_self ..)
    have g2 := h2 xm (List.mem_cons_self ..)
    simp only [List.countP_cons]
    rw [← ih']
    by_cases hs : single xm.1 = true
    · obtain ⟨hu, hm⟩ := g1 hs
      simp [hs, hu, hm]; omega
    · cases hm : xm.2 with
      | false => simp [hs]
      | true => simp [hs, g2 hm]; omega

theorem blob_stats {used : List BlobH} {idx : List PB} {pi : PackInfoResult}
    (hnd : used.Nodup) (h : packInfoFromIndex used idx {} = .ok pi) :
    pi.st.bUsed = used.length ∧
    pi.st.bUnused = idx.countP (fun x => !(used.contains x.e.blob)) ∧
    pi.st.bUsed + pi.st.bDup + pi.st.bUnused = idx.length := by
  have acc := packInfo_account h rfl
  obtain ⟨hsel, _⟩ := packInfo_spec h
  have hcnt := countPass_eq used idx
  have hunused : ∀ b, b ∉ used → (countPass used idx).f b = none := by intro b hb; rw [hcnt]; simp [hb]
  have hused : ∀ b ∈ used, ∃ n, (countPass used idx).f b = some n ∧ 1 ≤ n := by
    intro b hb
    obtain ⟨pb, hpb, hpbb, _⟩ := hsel b hb
    have ho := occ_of_mem hpb hpbb
    exact ⟨min (occ b idx) 255, by rw [hcnt]; simp [hb], by omega⟩
  -- classification of an entry
  have hfree : ∀ x, isFree (countPass used idx).f x = !(used.contains x.e.blob) := by
    intro x
    unfold isFree isSingle isDup
    by_cases hb : x.e.blob ∈ used
    · obtain ⟨n, hn, h1⟩ := hused _ hb
      by_cases hn1 : n = 1
      · simp [hn, hn1, hb]
      · simp [hn, hn1, hb]; omega
    · simp [hunused _ hb, hb]
  have hdisj : ∀ x, ¬ (isSingle (countPass used idx).f x = true ∧ isDup (countPass used idx).f x = true) := by
    intro x ⟨h1, h2⟩
    unfold isSingle at h1
    unfold isDup at h2
    have : (countPass used idx).f x.e.blob = some 1 := by simpa using h1
    simp [this] at h2
  -- marks are only set on entries of duplicated blobs
  have hmark : ∀ xm ∈ idx.zip pi.marks, xm.2 = true → isDup (countPass used idx).f xm.1 = true := by
    intro xm hxm hm
    apply Classical.byContradiction
    intro hnd'
    have hk := acc.marked xm.1.e.blob
    have hz : (idx.zip pi.marks).countP (markedB xm.1.e.blob) = 0 := by
      rw [hk]
      unfold isDup at hnd'
      cases hc : (countPass used idx).f xm.1.e.blob with
      | none => rfl
      | some n =>
        by_cases hb : xm.1.e.blob ∈ used
        · obtain ⟨n', hn', h1⟩ := hused _ hb
          rw [hc] at hn'; injection hn' with hn'; subst hn'
          have : n = 1 := by simp [hc] at hnd'; omega
          simp [this]
        · rw [hunused _ hb] at hc; simp at hc
    rw [List.countP_eq_zero] at hz
    have := hz xm hxm
    simp [markedB, hm] at this
  have hzl : ∀ (q : PB → Bool), ((idx.zip pi.marks).countP fun xm => q xm.1) = idx.countP q :=
    countP_zip_fst idx pi.marks acc.len
  have hzlen : (idx.zip pi.marks).length = idx.length := by simp [acc.len]
  refine ⟨?_, ?_, ?_⟩
  · -- used = number of used blobs
    rw [acc.bUsed]
    simp only [Nat.zero_add]
    rw [← hzl (isSingle (countPass used idx).f)]
    have hsum := sum_marks (isSingle (countPass used idx).f) (fun b => used.contains b) (idx.zip pi.marks)
      (by
        intro xm _ hs
        have hu : used.contains xm.1.e.blob = true := by
          apply Classical.byContradiction; intro hc
          have hc' : xm.1.e.blob ∉ used := by simpa using hc
          unfold isSingle at hs; rw [hunused _ hc'] at hs; simp at hs
        refine ⟨hu, ?_⟩
        cases h2 : xm.2 with
        | false => rfl
        | true => exact absurd ⟨hs, hmark xm ‹_› h2⟩ (hdisj xm.1))
      (by
        intro xm hxm h2
        have hd := hmark xm hxm h2
        apply Classical.byContradiction; intro hc
        have hc' : xm.1.e.blob ∉ used := by simpa using hc
        unfold isDup at hd; rw [hunused _ hc'] at hd; simp at hd)
    rw [hsum]
    refine (countP_partition (idx.zip pi.marks) (fun xm => xm.1.e.blob)
      (fun xm => isSingle (countPass used idx).f xm.1 || xm.2) used hnd).trans ?_
    have : (used.map fun b => (idx.zip pi.marks).countP fun xm => xm.1.e.blob == b && (isSingle (countPass used idx).f xm.1 || xm.2))
        = used.map fun _ => 1 := by
      apply List.map_congr_left
      intro b hb
      exact acc.one b hb
    rw [this]
    exact sum_ones used
  · rw [acc.bUnused, show ({} : Stats).bUnused = 0 from rfl, Nat.zero_add]
    apply List.countP_congr
    intro x _
    rw [hfree x]
  · rw [acc.bUsed, acc.bDup, acc.bUnused, show ({} : Stats).bUnused = 0 from rfl, show ({} : Stats).bUsed = 0 from rfl]
    simp only [Nat.zero_add]
    rw [← hzl (isSingle (countPass used idx).f), ← hzl (isFree (countPass used idx).f), ← hzlen]
    have := countP4 (idx.zip pi.marks) (fun xm => isSingle (countPass used idx).f xm.1) (fun xm => xm.2)
      (fun xm => isDup (countPass used idx).f xm.1 && !xm.2) (fun xm => isFree (countPass used idx).f xm.1) (by
        intro xm hxm
        have hm := hmark xm hxm
        have hd := hdisj xm.1
        unfold isFree
        cases h1 : isSingle (countPass used idx).f xm.1 <;> cases h2 : isDup (countPass used idx).f xm.1 <;> cases h3 : xm.2 <;> simp_all)
    omega


/-! ### `decidePackAction` does not touch the used / duplicate / unused blob counters -/

def SameB (a b : Stats) : Prop := a.bUsed = b.bUsed ∧ a.bDup = b.bDup ∧ a.bUnused = b.bUnused

theorem listStats_sameB (st : Stats) (p : PackInfo) (a : Action) : SameB (listStats st p a) st := by
  unfold listStats SameB
  cases a <;> simp only <;> (repeat' split) <;> exact ⟨rfl, rfl, rfl⟩

theorem listStep_sameB {o : Opts} {t : Nat} {s s' : D1} {id : ID} {size : Nat}
    (h : listStep o t s id size = .ok s') : SameB s'.st s.st := by
  unfold listStep at h
  split at h
  · injection h with h; subst h; exact ⟨rfl, rfl, rfl⟩
  · split at h
    · exact absurd h (by simp)
    · injection h with h; subst h; exact listStats_sameB _ _ _

theorem ignoreFold_sameB : ∀ (keys : List ID) (s : D1 × List ID), SameB (keys.foldl ignoreStep s).1.st s.1.st := by
  intro keys
  induction keys with
  | nil => intro s; exact ⟨rfl, rfl, rfl⟩
  | cons k keys ih =>
    intro s
    simp only [List.foldl_cons]
    have h1 := ih (ignoreStep s k)
    have h2 : SameB (ignoreStep s k).1.st s.1.st := by
      unfold ignoreStep
      split
      · exact ⟨rfl, rfl, rfl⟩
      · split <;> exact ⟨rfl, rfl, rfl⟩
    exact ⟨h1.1.trans h2.1, h1.2.1.trans h2.2.1, h1.2.2.trans h2.2.2⟩

theorem selFold_sameB (choice : ID → Bool) : ∀ (l : List Cand) (s : Stats × List ID),
    SameB (l.foldl (selStep choice) s).1 s.1 := by
  intro l
  induction l with
  | nil => intro s; exact ⟨rfl, rfl, rfl⟩
  | cons c l ih =>
    intro s
    simp only [List.foldl_cons]
    have h1 := ih (selStep choice s c)
    have h2 : SameB (selStep choice s c).1 s.1 := by
      unfold selStep
      split
      · unfold repackStats; simp only; split <;> exact ⟨rfl, rfl, rfl⟩
      · exact ⟨rfl, rfl, rfl⟩
    exact ⟨h1.1.trans h2.1, h1.2.1.trans h2.2.1, h1.2.2.trans h2.2.2⟩

theorem decide_sameB {o : Opts} {choice : ID → Bool} {keys : List ID} {ip : IP} {packs : List (ID × Nat)}
    {st : Stats} {pl : Plan} (h : decidePackAction o choice keys ip packs st = .ok pl) : SameB pl.stats st := by
  unfold decidePackAction at h
  simp only at h
  split at h
  · exact absurd h (by simp)
  · rename_i d hd
    have h1 : SameB d.st st :=
      listLoop_induct (fun s _ => SameB s.st st)
        (fun s id size rest s' hp hs => by
          have := listStep_sameB hs
          exact ⟨this.1.trans hp.1, this.2.1.trans hp.2.1, this.2.2.trans hp.2.2⟩)
        packs _ d ⟨rfl, rfl, rfl⟩ hd
    have h2 := ignoreFold_sameB keys (d, [])
    generalize hr : keys.foldl ignoreStep (d, []) = r at h h2
    obtain ⟨d2, ign⟩ := r
    simp only at h h2
    split at h
    · exact absurd h (by simp)
    · injection h with h; subst h
      simp only
      have h3 : SameB d2.st st := ⟨h2.1.trans h1.1, h2.2.1.trans h1.2.1, h2.2.2.trans h1.2.2⟩
      generalize hpair : (if d2.small.length < 10 then
          (({ d2.st with pKeep := d2.st.pKeep + d2.small.length } : Stats), d2.cands) else (d2.st, d2.cands ++ d2.small)) = pr
      have hpr : SameB pr.1 st := by
        rw [← hpair]; split <;> exact h3
      obtain ⟨st1, cands⟩ := pr
      have h4 := selFold_sameB choice cands (st1, [])
      generalize cands.foldl (selStep choice) (st1, []) = q at h4 ⊢
      obtain ⟨st2, repack⟩ := q
      simp only at h4 hpr ⊢
      have h5 : SameB st2 st := ⟨h4.1.trans hpr.1, h4.2.1.trans hpr.2.1, h4.2.2.trans hpr.2.2⟩
      split <;> exact h5

/-- **stats_blobs_exact**: the used / unused / duplicate / total blob counts of the plan's
    statistics equal the counts of the index and of the used-blob set -/
theorem plan_blob_stats {o : Opts} {choice : ID → Bool} {used : List BlobH} {idx : List PB} {packs : List (ID × Nat)}
    {pl : Plan} (hnd : used.Nodup) (h : planPrune o choice used idx packs = .ok pl) :
    pl.stats.bUsed = used.length ∧
    pl.stats.bUnused = idx.countP (fun x => !(used.contains x.e.blob)) ∧
    pl.stats.bTotal = idx.length ∧
    pl.stats.bUsed + pl.stats.bDup + pl.stats.bUnused = idx.length := by
  unfold planPrune planPruneG at h
  split at h
  · exact absurd h (by simp)
  split at h
  · exact absurd h (by simp)
  split at h
  · exact absurd h (by simp)
  split at h
  · exact absurd h (by simp)
  rename_i pi hpi
  split at h
  · exact absurd h (by simp)
  rename_i pl0 hpl0
  injection h with h
  subst h
  obtain ⟨b1, b2, b3⟩ := blob_stats hnd hpi
  obtain ⟨s1, s2, s3⟩ := decide_sameB hpl0
  simp only [totals]
  refine ⟨by rw [s1, b1], by rw [s3, b2], ?_, ?_⟩
  · rw [s1, s2, s3]; omega
  · rw [s1, s2, s3]; omega

end Restic.Proofs.C10Stats
