import Restic.Proofs.C44_PM
/-!
C44: the executable predicates of the model (`sameBlobs`, `distinct`, `noAddAfterFull`, `specOK`)
versus their propositional meaning.
-/
namespace Restic.Proofs.C44
open Restic.Model.Packer

abbrev tcode (t : BlobType) : Nat := t.code

theorem Blob.le_iff (a b : Blob) : Blob.le a b = true ↔
    (tcode a.tpe < tcode b.tpe ∨ (tcode a.tpe = tcode b.tpe ∧ (a.id < b.id ∨ (a.id = b.id ∧
      (a.len < b.len ∨ (a.len = b.len ∧ a.ulen ≤ b.ulen)))))) := by
  simp [Blob.le]

theorem tcode_inj {s t : BlobType} (h : tcode s = tcode t) : s = t := by
  cases s <;> cases t <;> simp [BlobType.code] at h ⊢

theorem Blob.le_trans (a b c : Blob) : Blob.le a b = true → Blob.le b c = true → Blob.le a c = true := by
  simp only [Blob.le_iff]; omega

theorem Blob.le_total (a b : Blob) : (Blob.le a b || Blob.le b a) = true := by
  simp only [Bool.or_eq_true, Blob.le_iff]; omega

theorem Blob.le_antisymm (a b : Blob) : Blob.le a b = true → Blob.le b a = true → a = b := by
  simp only [Blob.le_iff]
  intro h1 h2
  have h : tcode a.tpe = tcode b.tpe ∧ a.id = b.id ∧ a.len = b.len ∧ a.ulen = b.ulen := by omega
  cases a; cases b
  simp only at h
  obtain ⟨ht, hi, hl, hu⟩ := h
  simp [tcode_inj ht, hi, hl, hu]

theorem sameBlobs_iff (a b : List Blob) : sameBlobs a b = true ↔ a.Perm b := by
  simp only [sameBlobs, beq_iff_eq]
  constructor
  · intro h
    exact ((List.mergeSort_perm a Blob.le).symm.trans (h ▸ List.Perm.refl _)).trans (List.mergeSort_perm b Blob.le)
  · intro h
    apply List.Perm.eq_of_pairwise (le := fun x y => Blob.le x y = true)
    · intro x y _ _; exact Blob.le_antisymm x y
    · exact List.pairwise_mergeSort Blob.le_trans Blob.le_total a
    · exact List.pairwise_mergeSort Blob.le_trans Blob.le_total b
    · exact ((List.mergeSort_perm a Blob.le).trans h).trans (List.mergeSort_perm b Blob.le).symm

theorem adj_ne_of_sorted_nodup : ∀ (s : List Nat), s.Pairwise (· ≤ ·) →
    (((s.zip s.tail).all fun (a, b) => a != b) = true ↔ s.Nodup)
  | [], _ => by simp
  | [a], _ => by simp
  | a :: b :: t, h => by
    have ih := adj_ne_of_sorted_nodup (b :: t) (List.pairwise_cons.mp h).2
    simp only [List.tail_cons, List.zip_cons_cons, List.all_cons, Bool.and_eq_true, bne_iff_ne, ne_eq] at ih ⊢
    rw [ih, List.nodup_cons (a := a)]
    constructor
    · rintro ⟨hab, hnd⟩
      refine ⟨?_, hnd⟩
      intro hmem
      rcases List.mem_cons.mp hmem with h1 | h1
      · exact hab h1
      · have h2 := (List.pairwise_cons.mp h).1
        have h3 := (List.pairwise_cons.mp (List.pairwise_cons.mp h).2).1
        have : b ≤ a := h3 a h1
        have : a ≤ b := h2 b List.mem_cons_self
        exact hab (by omega)
    · rintro ⟨hnm, hnd⟩
      exact ⟨fun hab => hnm (hab ▸ List.mem_cons_self), hnd⟩

theorem distinct_iff (l : List Nat) : distinct l = true ↔ l.Nodup := by
  unfold distinct
  have hs : (l.mergeSort (fun a b => decide (a ≤ b))).Pairwise (· ≤ ·) := by
    have := List.pairwise_mergeSort (le := fun a b => decide (a ≤ b))
      (fun a b c h1 h2 => by simp at *; omega) (fun a b => by simp; omega) l
    simpa using this
  simp only
  rw [adj_ne_of_sorted_nodup _ hs]
  exact (List.mergeSort_perm l _).nodup_iff

/-- "no Add after full", spelled out: every earlier state of the pack (a proper suffix of the
    newest-first entry list) was below the pack size and its header was not full -/
theorem noAddAfterFull_suffix {c : Cfg} {ps : Nat} {l : List Blob} (h : noAddAfterFull c ps l = true) :
    l ≠ [] ∧ ∀ s, s <:+ l → s ≠ l → sumLen s < ps ∧ hdrFull c s.length = false := by
  cases l with
  | nil => simp [noAddAfterFull] at h
  | cons b rest =>
    simp only [noAddAfterFull, Bool.and_eq_true, decide_eq_true_eq, Bool.not_eq_true'] at h
    refine ⟨by simp, fun s hs hne => ?_⟩
    have hsr : s <:+ rest := by
      rcases List.suffix_cons_iff.mp hs with h1 | h1
      · exact absurd h1 hne
      · exact h1
    obtain ⟨t, ht⟩ := hsr
    have hlen : s.length ≤ rest.length := by rw [← ht]; simp
    have hsum : sumLen s ≤ sumLen rest := by rw [← ht, sumLen_append]; omega
    refine ⟨by omega, ?_⟩
    have := hdrFull_false.mp h.2
    rw [hdrFull_false]
    have : (s.length + 1) * c.entrySize ≤ (rest.length + 1) * c.entrySize := Nat.mul_le_mul_right _ (by omega)
    omega

end Restic.Proofs.C44
