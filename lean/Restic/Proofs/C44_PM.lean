import Restic.Proofs.C44_Packer
/-!
C44: what one `SaveBlob` / `Flush` does to the list of open packers and to the queue
(`saveBlob_cases`, `mergePackers` lemmas) and the manager invariant `PMInv`.
-/
namespace Restic.Proofs.C44
open Restic.Model.Packer

def packers (pm : PM) : List Packer := slotPackers pm ++ pm.queued

structure PMInv (c : Cfg) (pm : PM) : Prop where
  opens : ∀ p ∈ slotPackers pm, Open c pm.packSize p
  goods : ∀ q ∈ pm.queued, Good c pm.packSize q
  nodup : ((packers pm).map (·.serial)).Nodup
  lt_next : ∀ p ∈ packers pm, p.serial < pm.next

/-- Effect of one `SaveBlob` on the open packers and the queue. `old` is the packer found in the
    chosen slot (none: a new packer with the fresh serial `pm.next` was created). -/
structure SaveEffect (c : Cfg) (pm pm' : PM) (b : Blob) (out : SaveOut) : Prop where
  ex : ∃ (A B : List Packer) (old : Option Packer) (p : Packer),
    slotPackers pm = A ++ old.toList ++ B ∧
    (old = some p ∨ (old = none ∧ p = Packer.new pm.next ∧ pm'.next = pm.next + 1)) ∧
    pm'.packSize = pm.packSize ∧ pm.next ≤ pm'.next ∧
    ((slotPackers pm' = A ++ [p.add b] ++ B ∧ pm'.queued = pm.queued ∧
        (p.add b).bytes < pm.packSize ∧ hdrFull c (p.add b).n = false ∧ ∃ sz, out = .ok sz none) ∨
     (slotPackers pm' = A ++ B ∧ pm'.queued = p.add b :: pm.queued ∧ ∃ sz, out = .ok sz (some (p.add b))))

theorem slotPackers_mk (ps : Nat) (sl : List (Option Packer)) (n : Nat) (q : List Packer) :
    slotPackers ⟨ps, sl, n, q⟩ = sl.filterMap id := rfl

theorem saveBlob_of_pick {c : Cfg} {pm : PM} {b : Blob} {idx : Nat} {p : Packer} {home : Option Nat} {pm1 : PM}
    (h : pm.pickPacker b.len idx = some ⟨p, home, pm1⟩) :
    pm.saveBlob c b idx =
      if (p.add b).bytes < pm1.packSize ∧ ¬ (p.add b).headerFull c = true then
        (match home with
          | some i => ({ pm1 with slots := pm1.slots.set i (some (p.add b)) }, .ok (b.len + entryBytes c b) none)
          | none => (pm1, .ok (b.len + entryBytes c b) none))
      else
        ({ pm1 with slots := forget pm1.slots (p.add b).serial, queued := p.add b :: pm1.queued },
          .ok (b.len + entryBytes c b + c.headerOverhead) (some (p.add b))) := by
  simp only [PM.saveBlob, h]
  split <;> rfl

theorem saveBlob_cases {c : Cfg} {pm : PM} (hinv : PMInv c pm) (b : Blob) (idx : Nat) :
    let r := pm.saveBlob c b idx
    (r.2 = .panic ∧ r.1 = pm) ∨ SaveEffect c pm r.1 b r.2 := by
  intro r
  have hlt : ∀ q ∈ slotPackers pm, q.serial ≠ pm.next := fun q hq =>
    Nat.ne_of_lt (hinv.lt_next q (List.mem_append_left _ hq))
  by_cases hov : b.len ≥ pm.packSize
  · -- oversized blob: separate packer, always queued
    right
    have hpick : pm.pickPacker b.len idx = some ⟨Packer.new pm.next, none, { pm with next := pm.next + 1 }⟩ := by
      simp [PM.pickPacker, hov]
    have hnot : ¬ (((Packer.new pm.next).add b).bytes < pm.packSize ∧ ¬ ((Packer.new pm.next).add b).headerFull c = true) := by
      intro h; have := h.1; simp [Packer.add, Packer.new] at this; omega
    have hr : r = _ := saveBlob_of_pick (c := c) hpick
    rw [if_neg hnot] at hr
    rw [hr]
    refine ⟨slotPackers pm, [], none, Packer.new pm.next, by simp, Or.inr ⟨rfl, rfl, rfl⟩, rfl, Nat.le_succ _, Or.inr ⟨?_, rfl, _, rfl⟩⟩
    simp only [slotPackers, forget_filterMap, List.append_nil]
    exact filter_ne_self hlt
  · cases hs : pm.slots[idx]? with
    | none =>
      left
      show (pm.saveBlob c b idx).2 = .panic ∧ (pm.saveBlob c b idx).1 = pm
      simp [PM.saveBlob, PM.pickPacker, hov, hs]
    | some s =>
      right
      cases s with
      | some p =>
        obtain ⟨A, B, hAB, hset⟩ := filterMap_set_some pm.slots idx p hs
        have hnd : ((A ++ p :: B).map (·.serial)).Nodup := by
          have := hinv.nodup
          rw [packers, List.map_append, List.nodup_append] at this
          simpa [slotPackers, hAB] using this.1
        have hpick : pm.pickPacker b.len idx = some ⟨p, some idx, pm⟩ := by
          simp [PM.pickPacker, hov, hs]
        have hr : r = _ := saveBlob_of_pick (c := c) hpick
        by_cases hfull : (p.add b).bytes < pm.packSize ∧ ¬ (p.add b).headerFull c = true
        · rw [if_pos hfull] at hr
          rw [hr]
          refine ⟨A, B, some p, p, by simpa [slotPackers] using hAB, Or.inl rfl, rfl, Nat.le_refl _, Or.inl ⟨?_, rfl, hfull.1, ?_, _, rfl⟩⟩
          · simp [slotPackers, hset]
          · simpa [Packer.headerFull] using hfull.2
        · rw [if_neg hfull] at hr
          rw [hr]
          refine ⟨A, B, some p, p, by simpa [slotPackers] using hAB, Or.inl rfl, rfl, Nat.le_refl _, Or.inr ⟨?_, rfl, _, rfl⟩⟩
          simp only [slotPackers, forget_filterMap, hAB, Packer.add]
          rw [List.map_append, List.map_cons, List.nodup_append] at hnd
          obtain ⟨hA, hpB, hdisj⟩ := hnd
          rw [List.nodup_cons] at hpB
          have h1 : A.filter (fun q => !decide (q.serial = p.serial)) = A := filter_ne_self (fun q hq h => by
            exact hdisj q.serial (List.mem_map_of_mem hq) p.serial (List.mem_cons_self) h)
          have h2 : B.filter (fun q => !decide (q.serial = p.serial)) = B := filter_ne_self (fun q hq h => by
            exact hpB.1 (h ▸ List.mem_map_of_mem hq))
          simp [List.filter_append, h1, h2]
      | none =>
        obtain ⟨A, B, hAB, hset⟩ := filterMap_set_none pm.slots idx hs
        have hAB' : slotPackers pm = A ++ B := hAB
        have hpick : pm.pickPacker b.len idx = some ⟨Packer.new pm.next, some idx,
            { pm with next := pm.next + 1, slots := pm.slots.set idx (some (Packer.new pm.next)) }⟩ := by
          simp [PM.pickPacker, hov, hs]
        have hr : r = _ := saveBlob_of_pick (c := c) hpick
        by_cases hfull : ((Packer.new pm.next).add b).bytes < pm.packSize ∧ ¬ ((Packer.new pm.next).add b).headerFull c = true
        · rw [if_pos hfull] at hr
          rw [hr]
          refine ⟨A, B, none, Packer.new pm.next, by simpa using hAB', Or.inr ⟨rfl, rfl, rfl⟩, rfl, Nat.le_succ _, Or.inl ⟨?_, rfl, hfull.1, ?_, _, rfl⟩⟩
          · simp [slotPackers, List.set_set, hset]
          · simpa [Packer.headerFull] using hfull.2
        · rw [if_neg hfull] at hr
          rw [hr]
          refine ⟨A, B, none, Packer.new pm.next, by simpa using hAB', Or.inr ⟨rfl, rfl, rfl⟩, rfl, Nat.le_succ _, Or.inr ⟨?_, rfl, _, rfl⟩⟩
          simp only [slotPackers, forget_filterMap, hset, Packer.add, Packer.new, Option.toList]
          have hA : A.filter (fun q => !decide (q.serial = pm.next)) = A := filter_ne_self (fun q hq => hlt q (by rw [hAB']; exact List.mem_append_left _ hq))
          have hB : B.filter (fun q => !decide (q.serial = pm.next)) = B := filter_ne_self (fun q hq => hlt q (by rw [hAB']; exact List.mem_append_right _ hq))
          simp [List.filter_append, hA, hB]

/-! ### invariant preservation: SaveBlob -/

def cnt (a : Blob) (l : List Packer) : Nat := (l.map (fun p => p.blobs.count a)).sum

theorem cnt_append (a : Blob) (l m : List Packer) : cnt a (l ++ m) = cnt a l + cnt a m := by
  simp [cnt]

theorem cnt_cons (a : Blob) (p : Packer) (l : List Packer) : cnt a (p :: l) = p.blobs.count a + cnt a l := by
  simp [cnt]

theorem cnt_nil (a : Blob) : cnt a [] = 0 := rfl

theorem SaveEffect.inv {c : Cfg} (hc : CfgOK c) {pm pm' : PM} {b : Blob} {out : SaveOut}
    (hps : 0 < pm.packSize) (hinv : PMInv c pm) (h : SaveEffect c pm pm' b out) : PMInv c pm' := by
  obtain ⟨A, B, old, p, hsl, hold, hpsz, hnext, hcase⟩ := h.ex
  have hpre : Pre c pm.packSize p := by
    rcases hold with h | ⟨_, h, _⟩
    · subst h; exact (hinv.opens p (by rw [hsl]; simp)).pre
    · rw [h]; exact new_pre hc hps _
  have hgood : Good c pm.packSize (p.add b) := add_good hpre b
  have hA : ∀ q ∈ A, q ∈ slotPackers pm := fun q hq => by rw [hsl]; simp [hq]
  have hB : ∀ q ∈ B, q ∈ slotPackers pm := fun q hq => by rw [hsl]; simp [hq]
  have hser : (p.add b).serial = p.serial := rfl
  -- serial bookkeeping, common to both outcomes
  have hnd := hinv.nodup
  have hlt := hinv.lt_next
  simp only [packers, hsl] at hnd hlt
  have hpser : p.serial < pm'.next ∧ (old = none → ∀ q ∈ A ++ B ++ pm.queued, q.serial ≠ p.serial) := by
    rcases hold with h | ⟨h1, h2, h3⟩
    · subst h; exact ⟨Nat.lt_of_lt_of_le (hlt p (by simp)) hnext, fun h => by simp at h⟩
    · subst h2; refine ⟨by rw [h3]; exact Nat.lt_succ_self _, fun _ q hq => ?_⟩
      have := hlt q (by subst h1; simpa using hq)
      simp [Packer.new]; omega
  rcases hcase with ⟨hsl', hq', hlt', hnf', _⟩ | ⟨hsl', hq', _⟩
  · refine ⟨?_, ?_, ?_, ?_⟩
    · intro q hq; rw [hsl'] at hq; rw [hpsz]
      simp only [List.mem_append, List.mem_singleton] at hq
      rcases hq with (hq | hq) | hq
      · exact hinv.opens q (hA q hq)
      · subst hq; exact ⟨hgood, hlt', hnf'⟩
      · exact hinv.opens q (hB q hq)
    · rw [hq', hpsz]; exact hinv.goods
    · simp only [packers, hsl', hq']
      rcases hold with h | ⟨h1, _, _⟩
      · subst h; simpa [hser] using hnd
      · subst h1
        have hne := hpser.2 rfl
        simp only [Option.toList, List.append_nil] at hnd
        simp only [List.map_append, List.map_cons, List.map_nil, hser] at hnd ⊢
        have : (List.map (fun x => x.serial) A ++ [p.serial] ++ List.map (fun x => x.serial) B ++ List.map (fun x => x.serial) pm.queued).Perm
            (p.serial :: (List.map (fun x => x.serial) A ++ List.map (fun x => x.serial) B ++ List.map (fun x => x.serial) pm.queued)) := by
          simp only [List.append_assoc, List.singleton_append]
          exact List.perm_middle
        rw [this.nodup_iff, List.nodup_cons]
        refine ⟨?_, hnd⟩
        intro hmem
        simp only [← List.map_append, List.mem_map] at hmem
        obtain ⟨q, hq, hqs⟩ := hmem
        exact hne q hq hqs
    · intro q hq
      simp only [packers, hsl', hq', List.mem_append, List.mem_singleton] at hq
      rcases hq with ((hq | hq) | hq) | hq
      · exact Nat.lt_of_lt_of_le (hlt q (by simp [hq])) hnext
      · subst hq; exact hpser.1
      · exact Nat.lt_of_lt_of_le (hlt q (by simp [hq])) hnext
      · exact Nat.lt_of_lt_of_le (hlt q (by simp [hq])) hnext
  · refine ⟨?_, ?_, ?_, ?_⟩
    · intro q hq; rw [hsl'] at hq; rw [hpsz]
      rcases List.mem_append.mp hq with hq | hq
      · exact hinv.opens q (hA q hq)
      · exact hinv.opens q (hB q hq)
    · intro q hq; rw [hq'] at hq; rw [hpsz]
      rcases List.mem_cons.mp hq with hq | hq
      · subst hq; exact hgood
      · exact hinv.goods q hq
    · simp only [packers, hsl', hq']
      simp only [List.map_append, List.map_cons, hser]
      have hperm : (List.map (fun x => x.serial) A ++ List.map (fun x => x.serial) B ++ p.serial :: List.map (fun x => x.serial) pm.queued).Perm
          (p.serial :: (List.map (fun x => x.serial) A ++ List.map (fun x => x.serial) B ++ List.map (fun x => x.serial) pm.queued)) := by
        exact List.perm_middle
      rw [hperm.nodup_iff]
      rcases hold with h | ⟨h1, _, _⟩
      · subst h
        simp only [Option.toList, List.map_append, List.map_cons, List.map_nil] at hnd
        have hperm2 : (List.map (fun x => x.serial) A ++ [p.serial] ++ List.map (fun x => x.serial) B ++ List.map (fun x => x.serial) pm.queued).Perm
            (p.serial :: (List.map (fun x => x.serial) A ++ List.map (fun x => x.serial) B ++ List.map (fun x => x.serial) pm.queued)) := by
          simp only [List.append_assoc, List.singleton_append]
          exact List.perm_middle
        exact hperm2.nodup_iff.mp hnd
      · subst h1
        have hne := hpser.2 rfl
        simp only [Option.toList, List.append_nil, List.map_append] at hnd
        rw [List.nodup_cons]
        refine ⟨?_, hnd⟩
        intro hmem
        simp only [← List.map_append, List.mem_map] at hmem
        obtain ⟨q, hq, hqs⟩ := hmem
        exact hne q hq hqs
    · intro q hq
      simp only [packers, hsl', hq', List.mem_append, List.mem_cons] at hq
      rcases hq with (hq | hq) | hq | hq
      · exact Nat.lt_of_lt_of_le (hlt q (by simp [hq])) hnext
      · exact Nat.lt_of_lt_of_le (hlt q (by simp [hq])) hnext
      · subst hq; exact hpser.1
      · exact Nat.lt_of_lt_of_le (hlt q (by simp [hq])) hnext

/-- one more occurrence of `b`, nothing else changes -/
theorem SaveEffect.count_eq {c : Cfg} {pm pm' : PM} {b : Blob} {out : SaveOut}
    (h : SaveEffect c pm pm' b out) (a : Blob) :
    cnt a (packers pm') = cnt a (packers pm) + (if b = a then 1 else 0) := by
  obtain ⟨A, B, old, p, hsl, hold, _, _, hcase⟩ := h.ex
  have hp : (p.add b).blobs.count a = (if b = a then 1 else 0) + cnt a old.toList := by
    rcases hold with h | ⟨h1, h2, _⟩
    · subst h; simp [Packer.add, List.count_cons, cnt]; omega
    · subst h1 h2; simp [Packer.add, Packer.new, List.count_cons, cnt]
  rcases hcase with ⟨hsl', hq', _⟩ | ⟨hsl', hq', _⟩
  · simp only [packers, hsl, hsl', hq', cnt_append, cnt_cons, cnt_nil, hp]; omega
  · simp only [packers, hsl, hsl', hq', cnt_append, cnt_cons, hp]; omega

/-! ### invariant preservation: Flush / mergePackers -/

/-- loop body of `mergePackers` on the non-nil slots -/
def mstep (c : Cfg) (ps : Nat) (acc : List Packer × Option Packer) (q : Packer) : List Packer × Option Packer :=
  match acc.2 with
  | none => (acc.1, some q)
  | some p =>
    if p.bytes + q.bytes < ps ∧ p.n + q.n ≤ c.maxHeaderEntries then (acc.1, some (p.merge q))
    else (p :: acc.1, some q)

theorem foldl_mergeStep (c : Cfg) (ps : Nat) : ∀ (sl : List (Option Packer)) (acc : List Packer × Option Packer),
    sl.foldl (mergeStep c ps) acc = (sl.filterMap id).foldl (mstep c ps) acc
  | [], _ => rfl
  | none :: sl, acc => by simpa [mergeStep] using foldl_mergeStep c ps sl acc
  | some q :: sl, acc => by
    simp only [List.foldl_cons, List.filterMap_cons, id]
    rw [foldl_mergeStep c ps sl]
    rfl

def fin (r : List Packer × Option Packer) : List Packer :=
  match r.2 with
  | none => r.1
  | some p => p :: r.1

theorem mergePackers_eq (c : Cfg) (pm : PM) :
    pm.mergePackers c = fin ((slotPackers pm).foldl (mstep c pm.packSize) ([], none)) := by
  simp only [PM.mergePackers, foldl_mergeStep, slotPackers, fin]
  split <;> simp [*]

/-- one iteration: either `q` is merged into the current packer or it becomes the current one -/
theorem mstep_cases (c : Cfg) (ps : Nat) (acc : List Packer × Option Packer) (q : Packer) :
    (∃ p rest, fin acc = p :: rest ∧ p.bytes + q.bytes < ps ∧ p.n + q.n ≤ c.maxHeaderEntries ∧
        fin (mstep c ps acc q) = p.merge q :: rest) ∨
    fin (mstep c ps acc q) = q :: fin acc := by
  rcases acc with ⟨pend, cur⟩
  cases cur with
  | none => right; rfl
  | some p =>
    by_cases h : p.bytes + q.bytes < ps ∧ p.n + q.n ≤ c.maxHeaderEntries
    · left; exact ⟨p, pend, rfl, h.1, h.2, by simp [mstep, fin, h]⟩
    · right; simp [mstep, fin, h]

theorem merge_fold {c : Cfg} (hc : CfgOK c) (ps : Nat) (T : List Nat) :
    ∀ (L : List Packer) (acc : List Packer × Option Packer),
    (∀ p ∈ fin acc, Good c ps p) → (∀ q ∈ L, Good c ps q) →
    (∀ p ∈ fin (L.foldl (mstep c ps) acc), Good c ps p) ∧
    (∀ a, cnt a (fin (L.foldl (mstep c ps) acc)) = cnt a (fin acc) + cnt a L) ∧
    (((fin acc).map (·.serial) ++ L.map (·.serial) ++ T).Nodup →
      ((fin (L.foldl (mstep c ps) acc)).map (·.serial) ++ T).Nodup) ∧
    (∀ p ∈ fin (L.foldl (mstep c ps) acc), ∃ q ∈ fin acc ++ L, p.serial = q.serial)
  | [], acc, hacc, _ => ⟨hacc, fun a => by simp [cnt_nil], fun h => by simpa using h, fun p hp => ⟨p, by simpa using hp, rfl⟩⟩
  | q :: L, acc, hacc, hL => by
    have hq : Good c ps q := hL q List.mem_cons_self
    have hL' : ∀ x ∈ L, Good c ps x := fun x hx => hL x (List.mem_cons_of_mem _ hx)
    simp only [List.foldl_cons]
    rcases mstep_cases c ps acc q with ⟨p, rest, hfa, hb, hn, hfin⟩ | hfin
    · have hacc' : ∀ x ∈ fin (mstep c ps acc q), Good c ps x := by
        intro x hx; rw [hfin] at hx
        rcases List.mem_cons.mp hx with hx | hx
        · subst hx; exact merge_good hc (hacc p (by rw [hfa]; exact List.mem_cons_self)) hq hb hn
        · exact hacc x (by rw [hfa]; exact List.mem_cons_of_mem _ hx)
      obtain ⟨g, cn, nd, mem⟩ := merge_fold hc ps T L (mstep c ps acc q) hacc' hL'
      refine ⟨g, ?_, ?_, ?_⟩
      · intro a; rw [cn a, hfin, hfa]
        simp only [cnt_cons, merge_blobs, List.count_append]; omega
      · intro h; apply nd
        rw [hfin]; rw [hfa] at h
        simp only [List.map_cons, merge_serial, List.cons_append, List.append_assoc] at h ⊢
        have hsub : (p.serial :: (rest.map (·.serial) ++ (L.map (·.serial) ++ T))).Sublist
            (p.serial :: (rest.map (·.serial) ++ (q.serial :: (L.map (·.serial) ++ T)))) :=
          List.Sublist.cons_cons _ (List.Sublist.append_left (List.sublist_cons_self _ _) _)
        exact hsub.nodup h
      · intro x hx
        obtain ⟨y, hy, hxy⟩ := mem x hx
        rw [hfin] at hy
        simp only [List.cons_append, List.mem_cons, List.mem_append] at hy
        rcases hy with hy | hy | hy
        · subst hy; exact ⟨p, by rw [hfa]; simp, by rw [hxy, merge_serial]⟩
        · exact ⟨y, by rw [hfa]; simp [hy], hxy⟩
        · exact ⟨y, by simp [hy], hxy⟩
    · have hacc' : ∀ x ∈ fin (mstep c ps acc q), Good c ps x := by
        intro x hx; rw [hfin] at hx
        rcases List.mem_cons.mp hx with hx | hx
        · subst hx; exact hq
        · exact hacc x hx
      obtain ⟨g, cn, nd, mem⟩ := merge_fold hc ps T L (mstep c ps acc q) hacc' hL'
      refine ⟨g, ?_, ?_, ?_⟩
      · intro a; rw [cn a, hfin]; simp only [cnt_cons]; omega
      · intro h; apply nd
        rw [hfin]
        simp only [List.map_cons, List.cons_append, List.append_assoc] at h ⊢
        exact (List.perm_middle).nodup_iff.mp h
      · intro x hx
        obtain ⟨y, hy, hxy⟩ := mem x hx
        rw [hfin] at hy
        simp only [List.cons_append, List.mem_cons, List.mem_append] at hy
        rcases hy with hy | hy | hy
        · subst hy; exact ⟨y, by simp, hxy⟩
        · exact ⟨y, by simp [hy], hxy⟩
        · exact ⟨y, by simp [hy], hxy⟩

theorem slotPackers_flush (c : Cfg) (pm : PM) : slotPackers (pm.flush c) = [] := by
  simp only [slotPackers, PM.flush]
  induction pm.slots with
  | nil => rfl
  | cons a l ih => simpa using ih

theorem flush_inv {c : Cfg} (hc : CfgOK c) {pm : PM} (hinv : PMInv c pm) : PMInv c (pm.flush c) := by
  have hgood : ∀ q ∈ slotPackers pm, Good c pm.packSize q := fun q hq => (hinv.opens q hq).1
  obtain ⟨g, _, nd, mem⟩ := merge_fold hc pm.packSize (pm.queued.map (·.serial)) (slotPackers pm) ([], none)
    (by simp [fin]) hgood
  rw [← mergePackers_eq] at g nd mem
  refine ⟨?_, ?_, ?_, ?_⟩
  · rw [slotPackers_flush]; simp
  · intro q hq
    simp only [PM.flush, List.mem_append] at hq
    rcases hq with hq | hq
    · exact g q hq
    · exact hinv.goods q hq
  · simp only [packers, slotPackers_flush, List.nil_append]
    simp only [PM.flush, List.map_append]
    apply nd
    simpa [fin, packers] using hinv.nodup
  · intro q hq
    simp only [packers, slotPackers_flush, List.nil_append] at hq
    simp only [PM.flush, List.mem_append] at hq ⊢
    rcases hq with hq | hq
    · obtain ⟨y, hy, hxy⟩ := mem q hq
      rw [hxy]; exact hinv.lt_next y (by simpa [fin, packers] using Or.inl hy)
    · exact hinv.lt_next q (by simp [packers, hq])

theorem flush_cnt {c : Cfg} (hc : CfgOK c) {pm : PM} (hinv : PMInv c pm) (a : Blob) :
    cnt a (packers (pm.flush c)) = cnt a (packers pm) := by
  have hgood : ∀ q ∈ slotPackers pm, Good c pm.packSize q := fun q hq => (hinv.opens q hq).1
  obtain ⟨_, cn, _, _⟩ := merge_fold hc pm.packSize [] (slotPackers pm) ([], none) (by simp [fin]) hgood
  rw [← mergePackers_eq] at cn
  simp only [packers, slotPackers_flush, List.nil_append]
  simp only [PM.flush, cnt_append, cn a]
  simp [fin, cnt_nil]

end Restic.Proofs.C44
