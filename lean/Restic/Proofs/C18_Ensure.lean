import Restic.Model.RestoreTree
import Restic.Proofs.C18_FS
import Restic.Proofs.C18_Ops
/-!
`ensureDir` (fixed version): touches only locations strictly inside `dst`, creates no symlink,
keeps `dst` a real directory, and on success leaves the whole chain `dst ++ rel` as real
directories.
-/
namespace Restic.Model.RestoreTree
open Restic.Model.RestoreFS

theorem plainName_of_plain {n : Name} (h : plain n = true) : PlainName n := by
  unfold plain at h
  simp only [Bool.and_eq_true, Bool.not_eq_true', beq_eq_false_iff_ne] at h
  exact ⟨h.1.1.1, h.1.1.2, h.1.2⟩

theorem lstat_real (fs : FS) (d : Path) (name : Name) (hd : PlainPath d) (hn : PlainName name)
    (hr : RealFrom fs [] d) : lstat fs (d ++ [name]) = fs.get (d ++ [name]) := by
  unfold lstat
  rw [locate_real fs d name hd hn hr]

theorem realFrom_snoc {fs : FS} {d : Path} {c : Name} (hr : RealFrom fs [] d)
    (hc : isDirAt fs (d ++ [c]) = true) : RealFrom fs [] (d ++ [c]) := by
  intro k h1 h2
  by_cases hk : k ≤ d.length
  · have := hr k h1 hk
    rwa [List.take_append_of_le_length hk]
  · have : k = d.length + 1 := by simp at h2; omega
    subst this
    have ht : (d ++ [c]).take (d.length + 1) = d ++ [c] := List.take_of_length_le (by simp)
    rw [ht]
    simpa using hc

theorem realFrom_prefix {fs : FS} {d r : Path} (hr : RealFrom fs [] (d ++ r)) : RealFrom fs [] d := by
  intro k h1 h2
  have := hr k h1 (by simp; omega)
  rwa [List.take_append_of_le_length h2] at this

/-- the body of `ensureDir` on `d ++ [c]` below a real chain `d` -/
theorem ensureSingleDir_spec (fs : FS) (d : Path) (c : Name) (hd : PlainPath d) (hc : PlainName c)
    (hr : RealFrom fs [] d) :
    Only (d ++ [c]) fs (ensureSingleDir fs (d ++ [c])).1 ∧
    NoNewSym fs (ensureSingleDir fs (d ++ [c])).1 ∧
    ((ensureSingleDir fs (d ++ [c])).2 = true → isDirAt (ensureSingleDir fs (d ++ [c])).1 (d ++ [c]) = true) := by
  have hloc := locate_real fs d c hd hc hr
  have hlex : Lex fs (d ++ [c]) := Or.inr hloc
  -- step 1: remove a non-directory
  let s1 : FS × Bool := match lstat fs (d ++ [c]) with
    | some e => if e.isDir then (fs, true) else remove fs (d ++ [c])
    | none => (fs, true)
  have hs1 : Only (d ++ [c]) fs s1.1 ∧ NoNewSym fs s1.1 ∧
      (s1.2 = true → s1.1.get (d ++ [c]) = none ∨ isDirAt s1.1 (d ++ [c]) = true) := by
    simp only [s1]
    rw [lstat_real fs d c hd hc hr]
    cases hg : fs.get (d ++ [c]) with
    | none => exact ⟨Only.refl _ _, NoNewSym.refl _, fun _ => Or.inl hg⟩
    | some e =>
      cases e with
      | dir m => exact ⟨Only.refl _ _, NoNewSym.refl _, fun _ => Or.inr (by simp [isDirAt, hg, Entry.isDir])⟩
      | file cc m =>
        simp only [Entry.isDir, Bool.false_eq_true, if_false]
        refine ⟨(remove_only fs _ hlex).1, (remove_only fs _ hlex).2, fun _ => Or.inl ?_⟩
        simp [remove, hloc, hg, FS.get_erase]
      | symlink a t =>
        simp only [Entry.isDir, Bool.false_eq_true, if_false]
        refine ⟨(remove_only fs _ hlex).1, (remove_only fs _ hlex).2, fun _ => Or.inl ?_⟩
        simp [remove, hloc, hg, FS.get_erase]
      | special m =>
        simp only [Entry.isDir, Bool.false_eq_true, if_false]
        refine ⟨(remove_only fs _ hlex).1, (remove_only fs _ hlex).2, fun _ => Or.inl ?_⟩
        simp [remove, hloc, hg, FS.get_erase]
  obtain ⟨ho1, hn1, hd1⟩ := hs1
  have hr1 : RealFrom s1.1 [] d := realFrom_of_only ho1 d (fun k _ => not_prefix_take d c k) hr
  -- step 2: MkdirAll
  have hchain : mkdirChain s1.1 0o700 [] (d ++ [c]) = mkdirIfMissing s1.1 (d ++ [c]) 0o700 := by
    rw [mkdirChain_append, mkdirChain_real s1.1 _ [] d (by simpa using hd) (by simpa using hr1)]
    simp [mkdirChain]
  have hloc1 := locate_real s1.1 d c hd hc hr1
  have hm : Only (d ++ [c]) s1.1 (mkdirIfMissing s1.1 (d ++ [c]) 0o700) ∧
      NoNewSym s1.1 (mkdirIfMissing s1.1 (d ++ [c]) 0o700) ∧
      ((s1.1.get (d ++ [c]) = none ∨ isDirAt s1.1 (d ++ [c]) = true) →
        isDirAt (mkdirIfMissing s1.1 (d ++ [c]) 0o700) (d ++ [c]) = true) := by
    unfold mkdirIfMissing
    rw [hloc1]
    simp only
    cases hg : s1.1.get (d ++ [c]) with
    | none =>
      refine ⟨only_set _ _ _, noNewSym_set _ _ _ rfl, fun _ => ?_⟩
      simp [isDirAt, FS.get_set, Entry.isDir]
    | some e =>
      refine ⟨Only.refl _ _, NoNewSym.refl _, fun h => ?_⟩
      rcases h with h | h
      · cases h
      · exact h
  have hres : ensureSingleDir fs (d ++ [c]) =
      if !s1.2 then (s1.1, false) else mkdirAll s1.1 (d ++ [c]) 0o700 := rfl
  rw [hres]
  cases hok : s1.2 with
  | false =>
    simp only [Bool.not_false, if_true]
    exact ⟨ho1, hn1, fun h => by cases h⟩
  | true =>
    simp only [Bool.not_true, Bool.false_eq_true, if_false]
    have hfs : (mkdirAll s1.1 (d ++ [c]) 0o700).1 = mkdirIfMissing s1.1 (d ++ [c]) 0o700 := by
      unfold mkdirAll
      simp only [hchain]
      split
      · split <;> rfl
      · rfl
    rw [hfs]
    exact ⟨Only.trans ho1 hm.1, NoNewSym.trans hn1 hm.2.1, fun _ => hm.2.2 (hd1 hok)⟩

/-- on a path that already is a real directory chain nothing changes -/
theorem ensureSingleDir_real (fs : FS) (d : Path) (c : Name) (hd : PlainPath d) (hc : PlainName c)
    (hr : RealFrom fs [] (d ++ [c])) : (ensureSingleDir fs (d ++ [c])).1 = fs := by
  have hrd : RealFrom fs [] d := realFrom_prefix hr
  have hdir : isDirAt fs (d ++ [c]) = true := by
    have := hr (d.length + 1) (by omega) (by simp)
    have ht : (d ++ [c]).take (d.length + 1) = d ++ [c] := List.take_of_length_le (by simp)
    rw [ht] at this
    simpa using this
  unfold ensureSingleDir
  rw [lstat_real fs d c hd hc hrd]
  unfold isDirAt at hdir
  cases hg : fs.get (d ++ [c]) with
  | none => rw [hg] at hdir; cases hdir
  | some e =>
    rw [hg] at hdir
    simp only [hdir, if_true, Bool.not_true, Bool.false_eq_true, if_false]
    unfold mkdirAll
    have : mkdirChain fs 0o700 [] (d ++ [c]) = fs :=
      mkdirChain_real fs _ [] (d ++ [c]) (by
        intro n hn
        simp only [List.nil_append, List.mem_append, List.mem_singleton] at hn
        rcases hn with h | h
        · exact hd n h
        · exact h ▸ hc) (by simpa using hr)
    simp only [this]
    split
    · split <;> rfl
    · rfl

theorem inside_append (dst r : Path) (hr : r ≠ []) : Inside dst (dst ++ r) := by
  refine ⟨List.prefix_append _ _, fun h => hr ?_⟩
  have := congrArg List.length h
  simp at this
  exact this

theorem frame_mono {dst base : Path} {a b : FS} (h : Frame base a b) (hb : dst <+: base) : Frame dst a b := by
  intro q hq
  apply h
  intro hin
  apply hq
  refine ⟨List.IsPrefix.trans hb hin.1, ?_⟩
  intro heq
  subst heq
  have h1 := hb.length_le
  have h2 := hin.1.length_le
  exact hin.2 (List.IsPrefix.eq_of_length hin.1 (by omega)).symm

/-- `chainFrom`: every component below a real `base` -/
theorem chainFrom_spec (fs : FS) (base : Path) (rest : List Name) (hp : PlainPath (base ++ rest))
    (hr : RealFrom fs [] base) :
    Frame base fs (chainFrom fs base rest).1 ∧ NoNewSym fs (chainFrom fs base rest).1 ∧
    ((chainFrom fs base rest).2 = true → RealFrom (chainFrom fs base rest).1 [] (base ++ rest)) := by
  induction rest generalizing fs base with
  | nil => exact ⟨Frame.refl _ _, NoNewSym.refl _, fun _ => by simpa [chainFrom] using hr⟩
  | cons c rest ih =>
    have hbase : PlainPath base := fun n hn => hp n (List.mem_append_left _ hn)
    have hc : PlainName c := hp c (by simp)
    obtain ⟨ho, hn, hd⟩ := ensureSingleDir_spec fs base c hbase hc hr
    simp only [chainFrom]
    cases hes : ensureSingleDir fs (base ++ [c]) with
    | mk fs1 ok =>
      rw [hes] at ho hn hd
      simp only at ho hn hd
      have hf1 : Frame base fs fs1 := ho.frame (inside_append base [c] (by simp))
      cases ok with
      | false => exact ⟨hf1, hn, fun h => by cases h⟩
      | true =>
        simp only
        have hr1 : RealFrom fs1 [] (base ++ [c]) :=
          realFrom_snoc (realFrom_of_only ho base (fun k _ => not_prefix_take base c k) hr) (hd rfl)
        have e : base ++ c :: rest = (base ++ [c]) ++ rest := by simp
        obtain ⟨hf2, hn2, hd2⟩ := ih fs1 (base ++ [c]) (by rwa [e] at hp) hr1
        refine ⟨Frame.trans hf1 (frame_mono hf2 (List.prefix_append _ _)), NoNewSym.trans hn hn2, ?_⟩
        intro h
        rw [e]
        exact hd2 h

/-- `dst` stays a real chain under any frame of `dst` -/
theorem realFrom_dst_of_frame {dst : Path} {a b : FS} (h : Frame dst a b) (hr : RealFrom a [] dst) :
    RealFrom b [] dst := by
  intro k h1 h2
  have := hr k h1 h2
  unfold isDirAt at this ⊢
  rw [h]
  · exact this
  · intro hin
    have := hin.1.length_le
    simp at this
    have hk : k = dst.length := by omega
    subst hk
    apply hin.2
    simp

/-- **`ensureDir` (with the fix)** -/
theorem ensureDir_spec (cfg : Cfg) (hfix : cfg.chainFix = true) (hdst : PlainPath cfg.dst)
    (hne : cfg.dst ≠ []) (fs : FS) (rel : Path) (hrel : PlainPath rel)
    (hr : RealFrom fs [] cfg.dst) :
    Frame cfg.dst fs (ensureDir cfg fs rel).1 ∧ NoNewSym fs (ensureDir cfg fs rel).1 ∧
    RealFrom (ensureDir cfg fs rel).1 [] cfg.dst ∧
    ((ensureDir cfg fs rel).2 = true → RealFrom (ensureDir cfg fs rel).1 [] (cfg.dst ++ rel)) := by
  have key : Frame cfg.dst fs (ensureDir cfg fs rel).1 ∧ NoNewSym fs (ensureDir cfg fs rel).1 ∧
      ((ensureDir cfg fs rel).2 = true → RealFrom (ensureDir cfg fs rel).1 [] (cfg.dst ++ rel)) := by
    unfold ensureDir
    simp only [hfix, if_true]
    -- dst = d0 ++ [c0]
    obtain ⟨d0, c0, hd0⟩ : ∃ d0 c0, cfg.dst = d0 ++ [c0] :=
      ⟨cfg.dst.dropLast, cfg.dst.getLast hne, (List.dropLast_concat_getLast hne).symm⟩
    have hpd0 : PlainPath d0 := fun n hn => hdst n (by rw [hd0]; exact List.mem_append_left _ hn)
    have hpc0 : PlainName c0 := hdst c0 (by rw [hd0]; simp)
    have hsame : (ensureSingleDir fs cfg.dst).1 = fs := by
      rw [hd0]; exact ensureSingleDir_real fs d0 c0 hpd0 hpc0 (by rwa [hd0] at hr)
    cases hes : ensureSingleDir fs cfg.dst with
    | mk fs1 ok =>
      rw [hes] at hsame
      simp only at hsame
      subst hsame
      cases ok with
      | false => exact ⟨Frame.refl _ _, NoNewSym.refl _, fun h => by cases h⟩
      | true =>
        simp only
        exact chainFrom_spec fs1 cfg.dst rel (by
          intro n hn
          rcases List.mem_append.mp hn with h | h
          · exact hdst n h
          · exact hrel n h) hr
  exact ⟨key.1, key.2.1, realFrom_dst_of_frame key.1 hr, key.2.2⟩

end Restic.Model.RestoreTree
