import Restic.Proofs.C28_Match
/-!
# C28 helper lemmas, part 4: upward closure and soundness of `childMatch` (specification level
and transcription level)
-/
namespace Restic.Proofs.C28
open Restic.Model.Filter

/-- oracle law G1: the single-component wildcard is well-formed and accepts every component
    that contains no separator, i.e. every component except the root marker "/" of an absolute
    path (`filepath.Match("*", "/")` is false) -/
def G1 (glob : Glob) : Prop := ∀ c, glob ['*'] c = some (decide ('/' ∉ c))

/-- no part of the pattern is malformed for the glob oracle (what `ValidatePatterns` checks) -/
def NoErr (glob : Glob) (parts : List Part) : Prop := ∀ p ∈ parts, ∀ c, partMatch glob p c ≠ none

theorem not_badOn {glob : Glob} (hg : G1 glob) {parts : List Part} (hne : NoErr glob parts)
    (strs : List Str) : ¬ BadOn glob parts strs := by
  rintro ⟨p, hp, c, _, hm⟩
  rcases hp with hp | hp
  · exact hne p hp c hm
  · rw [hp] at hm
    simp [partMatch, starPart, hg c] at hm

theorem matchGo_true_of_spec {glob : Glob} (hg : G1 glob) {parts : List Part} (hne : NoErr glob parts)
    {strs : List Str} (h : MatchSpec glob parts strs) : matchGo glob parts strs = .ok true := by
  have ho := matchGo_outcome glob parts strs
  generalize matchGo glob parts strs = r at ho ⊢
  cases ho with
  | yes _ => rfl
  | no h' => exact absurd h h'
  | bad h' => exact absurd h' (not_badOn hg hne strs)

theorem matchGo_false_of_not_spec {glob : Glob} (hg : G1 glob) {parts : List Part} (hne : NoErr glob parts)
    {strs : List Str} (h : ¬ MatchSpec glob parts strs) : matchGo glob parts strs = .ok false := by
  have ho := matchGo_outcome glob parts strs
  generalize matchGo glob parts strs = r at ho ⊢
  cases ho with
  | yes h' => exact absurd h' h
  | no _ => rfl
  | bad h' => exact absurd h' (not_badOn hg hne strs)

theorem spec_of_matchGo_true {glob : Glob} {parts : List Part} {strs : List Str}
    (h : matchGo glob parts strs = .ok true) : MatchSpec glob parts strs := by
  have ho := matchGo_outcome glob parts strs
  rw [h] at ho
  cases ho with
  | yes h' => exact h'

theorem not_spec_of_matchGo_false {glob : Glob} {parts : List Part} {strs : List Str}
    (h : matchGo glob parts strs = .ok false) : ¬ MatchSpec glob parts strs := by
  have ho := matchGo_outcome glob parts strs
  rw [h] at ho
  cases ho with
  | no h' => exact h'

/-! ### a match on a directory covers everything inside it -/

theorem windowAt_append {glob : Glob} {qs : List Part} {s : List Str} {off : Nat} (ext : List Str)
    (h : WindowAt glob qs s off) : WindowAt glob qs (s ++ ext) off := by
  refine ⟨by have := h.1; simp only [List.length_append]; omega, ?_⟩
  intro i p c hp hc
  have hi : i < qs.length := by
    rcases List.getElem?_eq_some_iff.mp hp with ⟨h', _⟩; exact h'
  have hlt : off + i < s.length := by have := h.1; omega
  rw [List.getElem?_append_left hlt] at hc
  exact h.2 i p c hp hc

theorem matchFlatSpec_append {glob : Glob} {qs : List Part} {s : List Str} (ext : List Str)
    (hs : s ≠ []) (h : MatchFlatSpec glob qs s) : MatchFlatSpec glob qs (s ++ ext) := by
  cases qs with
  | nil => exact absurd h hs
  | cons q0 qt =>
    rcases h with ⟨off, hw, h1, h2⟩
    refine ⟨off, windowAt_append ext hw, h1, ?_⟩
    intro hq hhead
    apply h2 hq
    cases s with
    | nil => exact absurd rfl hs
    | cons a t => simpa using hhead

theorem matchSpec_upward {glob : Glob} {ps : List Part} {s : List Str} (ext : List Str)
    (hs : s ≠ []) (h : MatchSpec glob ps s) : MatchSpec glob ps (s ++ ext) := by
  rcases h with ⟨qs, he, hm⟩
  exact ⟨qs, he, matchFlatSpec_append ext hs hm⟩

/-! ### children-may-match is sound -/

theorem expand_take_noDW {ps qs : List Part} (he : Expand ps qs) (l : Nat)
    (hno : NoDW (ps.take l)) : ∀ (i : Nat) (p : Part), (ps.take l)[i]? = some p → qs[i]? = some p := by
  have hsplit : ps = ps.take l ++ ps.drop l := (List.take_append_drop l ps).symm
  rw [hsplit] at he
  rcases (expand_noDW_append hno).mp he with ⟨qs', h1, _⟩
  intro i p hp
  rw [h1]
  have hi : i < (ps.take l).length := by
    rcases List.getElem?_eq_some_iff.mp hp with ⟨h', _⟩; exact h'
  rw [List.getElem?_append_left hi]
  exact hp

/-- core of `child_sound`: an absolute pattern matching `s ++ ext` has a wildcard-free prefix
    that matches the corresponding prefix of `s`. -/
theorem child_core {glob : Glob} {p0 : Part} {pt : List Part} {s ext : List Str}
    (habs : p0.pat = slash) (h : MatchSpec glob (p0 :: pt) (s ++ ext))
    (l m : Nat) (hl : l ≤ (p0 :: pt).length) (hno : NoDW ((p0 :: pt).take l))
    (hlm : l ≤ (s.take m).length) (hz : l = 0 → s.take m = []) :
    MatchSpec glob ((p0 :: pt).take l) (s.take m) := by
  refine ⟨(p0 :: pt).take l, (expand_noDW hno).mpr rfl, ?_⟩
  cases l with
  | zero =>
    simp only [List.take_zero]
    exact hz rfl
  | succ l =>
    rcases h with ⟨qs, he, hm⟩
    have hpre := expand_take_noDW he (l + 1) hno
    have hq0 : qs[0]? = some p0 := hpre 0 p0 (by simp)
    cases qs with
    | nil => simp at hq0
    | cons q0 qt =>
      simp only [List.getElem?_cons_zero, Option.some.injEq] at hq0
      subst hq0
      rcases hm with ⟨off, hw, h1, _⟩
      have hoff := h1 habs
      subst hoff
      simp only [List.take_succ_cons]
      refine ⟨0, ⟨?_, ?_⟩, fun _ => rfl, fun hne => absurd habs hne⟩
      · simp only [List.length_cons, List.length_take] at hlm hl ⊢
        omega
      · intro i p c hp hc
        have hp' := hpre i p (by simpa using hp)
        simp only [Nat.zero_add] at hc
        have hc' : (s ++ ext)[0 + i]? = some c := by
          rw [List.getElem?_take] at hc
          split at hc
          · rename_i hlt
            have hi : i < s.length := by
              rcases List.getElem?_eq_some_iff.mp hc with ⟨h', _⟩; exact h'
            simp only [Nat.zero_add]
            rw [List.getElem?_append_left hi]; exact hc
          · cases hc
        exact hw.2 i p c hp' hc'

theorem noDW_take {ps : List Part} (h : NoDW ps) (l : Nat) : NoDW (ps.take l) :=
  fun p hp => h p (List.mem_of_mem_take hp)

theorem noErr_take {glob : Glob} {ps : List Part} (h : NoErr glob ps) (l : Nat) : NoErr glob (ps.take l) :=
  fun p hp => h p (List.mem_of_mem_take hp)

/-- `childMatch` never panics on a pattern with at least one part (every prepared pattern) and
    only ever reports `ok` or the glob error -/
theorem childMatch_shape (glob : Glob) (p0 : Part) (pt : List Part) (strs : List Str) :
    childMatch glob (p0 :: pt) strs = .ok true ∨
    ∃ l m, l ≤ (p0 :: pt).length ∧ NoDW ((p0 :: pt).take l) ∧ l ≤ (strs.take m).length ∧
      (l = 0 → strs.take m = []) ∧ p0.pat = slash ∧
      childMatch glob (p0 :: pt) strs = matchGo glob ((p0 :: pt).take l) (strs.take m) := by
  unfold childMatch
  simp only [List.getElem?_cons_zero]
  by_cases habs : p0.pat = slash
  · right
    rw [if_neg (by simpa using habs)]
    cases hdw : hasDW (p0 :: pt) with
    | none =>
      simp only
      have hno := hasDW_none hdw
      refine ⟨min strs.length (p0 :: pt).length, strs.length, Nat.min_le_right _ _, noDW_take hno _, ?_, ?_, habs, ?_⟩
      · simp only [List.take_length, List.length_cons]; omega
      · intro h0
        have : strs.length = 0 := by
          simp only [List.length_cons] at h0; omega
        simp [List.length_eq_zero_iff.mp this]
      · simp only [sliceTo]
        rw [if_pos (Nat.min_le_right _ _)]
        simp
    | some pos =>
      simp only
      rcases hasDW_some hdw with ⟨pre, d, tail, hparts, hlen, hpre, hd⟩
      have hpos : pos < (p0 :: pt).length := by
        rw [hparts]; simp; omega
      by_cases hge : strs.length ≥ pos
      · rw [if_pos hge]
        simp only [sliceTo]
        rw [if_pos hge]
        simp only [List.length_take]
        have hmin : min (min pos strs.length) (p0 :: pt).length = pos := by omega
        rw [hmin, if_pos (by omega)]
        have htake : (p0 :: pt).take pos = pre := by rw [hparts, ← hlen]; simp
        refine ⟨pos, pos, by omega, by rw [htake]; exact hpre, by omega, ?_, habs, rfl⟩
        intro h0
        -- pos = 0 is impossible: the first part is "/" and not the recursive wildcard
        exfalso
        have : pre = [] := by rw [← List.length_eq_zero_iff]; omega
        rw [this] at hparts
        simp only [List.nil_append, List.cons.injEq] at hparts
        rw [hparts.1, hd] at habs
        simp [slash] at habs
      · rw [if_neg hge]
        simp only
        have hmin : min strs.length (p0 :: pt).length = strs.length := by omega
        rw [hmin]
        simp only [sliceTo]
        rw [if_pos (by omega)]
        have htake : (p0 :: pt).take strs.length = pre.take strs.length := by
          rw [hparts]; rw [List.take_append_of_le_length (by omega)]
        refine ⟨strs.length, strs.length, by omega, by rw [htake]; exact noDW_take hpre _, by simp, ?_, habs, by simp⟩
        intro h0
        simp [List.length_eq_zero_iff.mp h0]
  · left
    rw [if_pos (by simpa using habs)]

end Restic.Proofs.C28
