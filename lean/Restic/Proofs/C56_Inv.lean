import Restic.Proofs.C56_Chain
/-!
# C56: the representation invariant of `indexMap` and its preservation by `add` / `preallocate`
-/
namespace Restic.Proofs.C56
open Restic.Model.IndexMap

section
variable (hash : ID → Nat)

/-- `m.hash(id)` for a table with `nb` buckets -/
def bucketOf (nb : Nat) (id : ID) : Nat := hash id &&& (nb - 1)

theorem bucketOf_lt {nb : Nat} (hnb : 0 < nb) (id : ID) : bucketOf hash nb id < nb :=
  Nat.lt_of_le_of_lt Nat.and_le_right (by omega)

/-- the chains of all buckets link exactly the positions `1 .. k-1`, each in the bucket of its id -/
structure Part (nb : Nat) (bk : Array Nat) (hat : HAT) (k : Nat) : Prop where
  sz : bk.size = nb
  chains : ∀ b w, bk[b]? = some w → ∃ l, Chain hat w l ∧
    ∀ p, p ∈ l ↔ (0 < p ∧ p < k ∧ ∃ id, idAt hat p = some id ∧ bucketOf hash nb id = b)

theorem Part.empty (nb : Nat) (hat : HAT) : Part hash nb (Array.replicate nb 0) hat 1 := by
  refine ⟨by simp, ?_⟩
  intro b w hw
  rw [Array.getElem?_replicate] at hw
  split at hw
  · cases hw
    exact ⟨[], Chain.nil, fun p => by simp; omega⟩
  · cases hw

theorem idAt_set {hat : HAT} (wf : HATWF hat) (k q : Nat) (e' : Entry) (hq : q ≠ k) :
    idAt (hat.set k e') q = idAt hat q := by
  simp [idAt, wf.peek_set, hq]

/-- linking position `k` in front of the chain of its bucket (the body of the rehash loop and the
    tail of `add`) -/
theorem Part.link {nb : Nat} {bk : Array Nat} {hat : HAT} {k : Nat} (hp : Part hash nb bk hat k)
    (wf : HATWF hat) (hk0 : 0 < k) (hks : k < hat.size) (hkk : k < 2 ^ bloomShift)
    (e' : Entry) (hnxt : bk[bucketOf hash nb e'.v.id]? = some e'.next) :
    Part hash nb (bk.set! (bucketOf hash nb e'.v.id) (bloomInsertID k e'.next e'.v.id)) (hat.set k e') (k + 1) := by
  obtain ⟨e0, he0⟩ := wf.peek_some hks
  have hpk : (hat.set k e').peek k = some e' := by simp [wf.peek_set, he0]
  have hpq : ∀ q, q ≠ k → (hat.set k e').peek q = hat.peek q := fun q hq => by simp [wf.peek_set, hq]
  have hsz : (hat.set k e').size = hat.size := hat_set_size _ _ _
  have hlt : bucketOf hash nb e'.v.id < bk.size := by
    rcases Nat.lt_or_ge (bucketOf hash nb e'.v.id) bk.size with h | h
    · exact h
    · rw [Array.getElem?_eq_none h] at hnxt; cases hnxt
  refine ⟨by simp [hp.sz], ?_⟩
  intro b w hw
  rw [Array.set!_eq_setIfInBounds, Array.getElem?_setIfInBounds] at hw
  by_cases hb : bucketOf hash nb e'.v.id = b
  · simp only [hb, if_true] at hw
    rw [hb] at hlt hnxt
    simp only [hlt, if_true] at hw
    cases hw
    obtain ⟨l, cl, ml⟩ := hp.chains b e'.next hnxt
    have hlk : ∀ q, q ∈ l → q < k := fun q hq => ((ml q).mp hq).2.1
    have cl' : Chain (hat.set k e') e'.next l :=
      cl.congr (by omega) (fun p hp' => hpq p (by have := hlk p hp'; omega))
    refine ⟨k :: l, Chain.cons hk0 (by omega) hkk hpk hlk cl', ?_⟩
    intro p
    rw [List.mem_cons]
    constructor
    · rintro (rfl | hpl)
      · exact ⟨hk0, by omega, e'.v.id, by simp [idAt, hpk], hb⟩
      · obtain ⟨h1, h2, id, h3, h4⟩ := (ml p).mp hpl
        exact ⟨h1, by omega, id, by rw [idAt_set wf _ _ _ (by omega)]; exact h3, h4⟩
    · rintro ⟨h1, h2, id, h3, h4⟩
      by_cases hpk' : p = k
      · exact Or.inl hpk'
      · right
        rw [idAt_set wf _ _ _ hpk'] at h3
        exact (ml p).mpr ⟨h1, by omega, id, h3, h4⟩
  · simp only [hb, if_false] at hw
    obtain ⟨l, cl, ml⟩ := hp.chains b w hw
    have hlk : ∀ q, q ∈ l → q < k := fun q hq => ((ml q).mp hq).2.1
    refine ⟨l, cl.congr (by omega) (fun p hp' => hpq p (by have := hlk p hp'; omega)), ?_⟩
    intro p
    constructor
    · intro hpl
      obtain ⟨h1, h2, id, h3, h4⟩ := (ml p).mp hpl
      exact ⟨h1, by omega, id, by rw [idAt_set wf _ _ _ (by omega)]; exact h3, h4⟩
    · rintro ⟨h1, h2, id, h3, h4⟩
      by_cases hpk' : p = k
      · subst hpk'
        simp only [idAt, hpk, Option.map_some] at h3
        cases h3
        exact absurd h4 hb
      · rw [idAt_set wf _ _ _ hpk'] at h3
        exact (ml p).mpr ⟨h1, by omega, id, h3, h4⟩

/-- the rehash loop of `preallocate` rebuilds all chains and keeps every stored value -/
theorem rehashLoop_spec {nb : Nat} (hnb : 0 < nb) : ∀ (n k : Nat) (bk : Array Nat) (hat : HAT),
    Part hash nb bk hat k → HATWF hat → 0 < k → k + n = hat.size → hat.size ≤ 2 ^ bloomShift →
    ∃ bk' hat', rehashLoop hash (List.range' k n) (bk, hat) = .ok (bk', hat') ∧
      Part hash nb bk' hat' hat.size ∧ HATWF hat' ∧ hat'.size = hat.size ∧
      ∀ q, (hat'.peek q).map (·.v) = (hat.peek q).map (·.v)
  | 0, k, bk, hat, hp, wf, _, hkn, _ => by
    refine ⟨bk, hat, by simp [rehashLoop], ?_, wf, rfl, fun _ => rfl⟩
    have : k = hat.size := by omega
    subst this; exact hp
  | n + 1, k, bk, hat, hp, wf, hk0, hkn, hsm => by
    have hks : k < hat.size := by omega
    obtain ⟨e, hr, he⟩ := wf.ref_eq hks
    have hlt : bucketOf hash nb e.v.id < bk.size := by rw [hp.sz]; exact bucketOf_lt hash hnb _
    obtain ⟨nxt, hnxt⟩ : ∃ nxt, bk[bucketOf hash nb e.v.id]? = some nxt := ⟨_, Array.getElem?_eq_getElem hlt⟩
    have hnxt' : bk[hash e.v.id &&& nb - 1]? = some nxt := hnxt
    simp only [List.range'_succ, rehashLoop, rehashStep, hr, Res.bind, hp.sz, hnxt']
    have hlink := hp.link hash wf hk0 hks (by omega) { e with next := nxt } hnxt
    have wf' := wf.set k { e with next := nxt }
    have hsz' : (hat.set k { e with next := nxt }).size = hat.size := hat_set_size _ _ _
    obtain ⟨bk', hat', h1, h2, h3, h4, h5⟩ :=
      rehashLoop_spec hnb n (k + 1) _ _ hlink wf' (by omega) (by rw [hsz']; omega) (by rw [hsz']; exact hsm)
    refine ⟨bk', hat', h1, by rw [hsz'] at h2; exact h2, h3, by rw [h4, hsz'], ?_⟩
    intro q
    rw [h5 q, wf.peek_set]
    by_cases hq : q = k
    · subst hq; simp [he]
    · simp [hq]

/-- representation invariant of an initialised `indexMap` holding the values `ins` (in insertion
    order; value number `i` lives at position `i+1`, position 0 is the null entry) -/
structure Inv (m : IndexMap) (ins : List Val) : Prop where
  wf : HATWF m.blockList
  size : m.blockList.size = ins.length + 1
  num : m.numentries = ins.length
  small : m.blockList.size ≤ 2 ^ bloomShift
  nb : 0 < m.buckets.size
  vals : ∀ i (h : i < ins.length), (m.blockList.peek (i + 1)).map (·.v) = some ins[i]
  part : Part hash m.buckets.size m.buckets m.blockList m.blockList.size

/-- a reachable state: not yet initialised (zero value) or initialised and invariant -/
def State (m : IndexMap) (ins : List Val) : Prop :=
  (m.buckets.size = 0 ∧ m.numentries = 0 ∧ m.blockList.size = 0 ∧ ins = []) ∨ Inv hash m ins

theorem State.empty : State hash IndexMap.empty [] := Or.inl ⟨rfl, rfl, rfl, rfl⟩

theorem one_le_two_pow_shift : 1 ≤ 2 ^ bloomShift := Nat.one_le_two_pow

theorem init_spec (m : IndexMap) (hn : m.numentries = 0) :
    ∃ m', m.init = .ok m' ∧ Inv hash m' [] := by
  obtain ⟨h', ha, wf', hs', _⟩ := newHAT_wf.alloc
  have hsz0 : newHAT.size = 0 := rfl
  rw [hsz0] at ha hs'
  have hclean : bloomCleanID 0 = 0 := bloomCleanID_of_lt (Nat.two_pow_pos _)
  refine ⟨{ m with buckets := Array.replicate initialBuckets 0, blockList := h' }, ?_, ?_⟩
  · simp [IndexMap.init, IndexMap.newEntry, ha, Res.bind, hclean]
  · refine ⟨wf', by simp [hs'], by simp [hn], by simp only [hs']; exact one_le_two_pow_shift, by simp [initialBuckets], ?_, ?_⟩
    · intro i h; simp at h
    · simp only [hs', Array.size_replicate]
      exact Part.empty hash _ _

theorem growBuckets_pos (target : Nat) : ∀ fuel s, 0 < s → 0 < growBuckets target fuel s
  | 0, s, h => by simpa [growBuckets] using h
  | fuel + 1, s, h => by
    simp only [growBuckets]
    split
    · exact growBuckets_pos target fuel _ (by omega)
    · exact h

/-- `preallocate` keeps the contents; afterwards the table is initialised unless `n = 0` -/
theorem preallocate_spec {m : IndexMap} {ins : List Val} (st : State hash m ins) (n : Nat) :
    ∃ m', m.preallocate hash n = .ok m' ∧ State hash m' ins ∧ (0 < n → Inv hash m' ins) := by
  unfold IndexMap.preallocate
  by_cases hn : n = 0
  · subst hn; exact ⟨m, by simp, st, fun h => absurd h (by omega)⟩
  · have hn' : (n == 0) = false := by simp [hn]
    simp only [hn', Bool.false_eq_true, if_false]
    -- after the lazy initialisation
    have hinit : ∃ m1, (if m.buckets.size == 0 then m.init else Res.ok m) = .ok m1 ∧ Inv hash m1 ins := by
      rcases st with ⟨hb, hnum, _, hins⟩ | inv
      · subst hins
        obtain ⟨m1, h1, i1⟩ := init_spec hash m hnum
        exact ⟨m1, by simp [hb, h1], i1⟩
      · have hnb := inv.nb
        have hne0 : m.buckets.size ≠ 0 := by omega
        have : (m.buckets.size == 0) = false := by simp [hne0]
        exact ⟨m, by simp [this], inv⟩
    obtain ⟨m1, h1, inv⟩ := hinit
    rw [h1]
    simp only [Res.bind]
    split
    · exact ⟨m1, rfl, Or.inr inv, fun _ => inv⟩
    · rename_i hne
      generalize hns : growBuckets ((n + maxLoad - 1) / maxLoad) ((n + maxLoad - 1) / maxLoad) m1.buckets.size = newSize
      have hpos : 0 < newSize := by rw [← hns]; exact growBuckets_pos _ _ _ inv.nb
      have hsz : 1 + (m1.blockList.size - 1) = m1.blockList.size := by have := inv.size; omega
      obtain ⟨bk', hat', hl, hp', wf', hs', hv'⟩ :=
        rehashLoop_spec hash hpos (m1.blockList.size - 1) 1 (Array.replicate newSize 0) m1.blockList
          (Part.empty hash _ _) inv.wf (by omega) hsz inv.small
      rw [hl]
      simp only
      obtain ⟨wfp, sp, pp, _⟩ := wf'.preallocate n
      have hinv : Inv hash { m1 with buckets := bk', blockList := hat'.preallocate n } ins := by
        refine ⟨wfp, by rw [sp, hs']; exact inv.size, inv.num, by rw [sp, hs']; exact inv.small,
          by simp only [hp'.sz]; exact hpos, ?_, ?_⟩
        · intro i h
          have hlt : i + 1 < hat'.size := by rw [hs', inv.size]; omega
          simp only
          rw [pp _ hlt, hv', inv.vals i h]
        · simp only [sp, hs', hp'.sz]
          refine ⟨hp'.sz, ?_⟩
          intro b w hw
          obtain ⟨l, cl, ml⟩ := hp'.chains b w hw
          have hlb : ∀ p, p ∈ l → p < hat'.size := fun p hp => by rw [hs']; exact ((ml p).mp hp).2.1
          refine ⟨l, cl.congr (by omega) (fun p hp => pp p (hlb p hp)), ?_⟩
          intro p
          rw [ml p]
          constructor
          · rintro ⟨a, b', id, c, d⟩
            exact ⟨a, b', id, by simp only [idAt] at c ⊢; rw [pp p (by rw [hs']; exact b')]; exact c, d⟩
          · rintro ⟨a, b', id, c, d⟩
            exact ⟨a, b', id, by simp only [idAt] at c ⊢; rw [pp p (by rw [hs']; exact b')] at c; exact c, d⟩
      exact ⟨_, rfl, Or.inr hinv, fun _ => hinv⟩

/-- `add` appends the value (no panic below `2^bloomShift` entries) -/
theorem add_spec {m : IndexMap} {ins : List Val} (st : State hash m ins) (v : Val)
    (hbound : ins.length + 1 < 2 ^ bloomShift) :
    ∃ m', m.add hash v = .ok m' ∧ Inv hash m' (ins ++ [v]) := by
  unfold IndexMap.add
  obtain ⟨m1, h1, _, inv1⟩ := preallocate_spec hash st (m.numentries + 1)
  have inv := inv1 (by omega)
  rw [h1]
  simp only [Res.bind]
  obtain ⟨hat2, ha, wf2, hs2, hp2⟩ := inv.wf.alloc
  have hidx : m1.blockList.size < 2 ^ bloomShift := by rw [inv.size]; exact hbound
  have hclean : bloomCleanID m1.blockList.size = m1.blockList.size := bloomCleanID_of_lt hidx
  have hne : (m1.blockList.size != bloomCleanID m1.blockList.size) = false := by simp [hclean]
  simp only [IndexMap.newEntry, ha, Res.bind, hne, Bool.false_eq_true, if_false]
  have hlt : m1.hashOf hash v.id < m1.buckets.size := bucketOf_lt hash inv.nb _
  obtain ⟨nxt, hnxt⟩ : ∃ nxt, m1.buckets[m1.hashOf hash v.id]? = some nxt := ⟨_, Array.getElem?_eq_getElem hlt⟩
  simp only [IndexMap.hashOf] at hnxt ⊢
  simp only [hnxt]
  refine ⟨_, rfl, ?_⟩
  -- the old chains are chains of the grown tree
  have hpart2 : Part hash m1.buckets.size m1.buckets hat2 m1.blockList.size := by
    refine ⟨rfl, ?_⟩
    intro b w hw
    obtain ⟨l, cl, ml⟩ := inv.part.chains b w hw
    refine ⟨l, cl.congr (by omega) (fun p hp => hp2 p ((ml p).mp hp).2.1), ?_⟩
    intro p
    rw [ml p]
    constructor
    · rintro ⟨a, b', id, c, d⟩
      exact ⟨a, b', id, by simp only [idAt] at c ⊢; rw [hp2 p b']; exact c, d⟩
    · rintro ⟨a, b', id, c, d⟩
      exact ⟨a, b', id, by simp only [idAt] at c ⊢; rw [hp2 p b'] at c; exact c, d⟩
  have hlink := hpart2.link hash wf2 (by rw [inv.size]; omega) (by omega) hidx ⟨v, nxt⟩ hnxt
  have hsz3 : (hat2.set m1.blockList.size ⟨v, nxt⟩).size = m1.blockList.size + 1 := by rw [hat_set_size, hs2]
  refine ⟨wf2.set _ _, by rw [hsz3, inv.size]; simp,
    by simp [inv.num], by simp only [hsz3]; omega, by simpa using inv.nb, ?_, ?_⟩
  · intro i h
    simp only [wf2.peek_set]
    by_cases hi : i + 1 = m1.blockList.size
    · obtain ⟨e0, he0⟩ := wf2.peek_some (pos := m1.blockList.size) (by omega)
      have : i = ins.length := by rw [inv.size] at hi; omega
      subst this
      simp [hi, he0]
    · have hil : i < ins.length := by
        simp only [List.length_append, List.length_singleton] at h
        rw [inv.size] at hi; omega
      simp only [hi, if_false]
      rw [hp2 _ (by rw [inv.size]; omega), inv.vals i hil, List.getElem_append_left hil]
  · simp only [hsz3, Array.set!_eq_setIfInBounds, Array.size_setIfInBounds]
    exact hlink

end
end Restic.Proofs.C56
