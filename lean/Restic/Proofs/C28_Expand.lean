import Restic.Proofs.C28_Flat
/-!
# C28 helper lemmas, part 2: the recursive wildcard

* `Expand ps qs`: `qs` arises from `ps` by replacing every recursive wildcard by `k ≥ 0` parts `*`;
* `MatchSpec`: the documented meaning of a pattern;
* the expansion loop of `match` with its shared buffer computes exactly the clean loop over
  `pre ++ replicate i * ++ tail` (`expandLoop_eq_clean`), all slice operations in range.
-/
namespace Restic.Proofs.C28
open Restic.Model.Filter

inductive Expand : List Part → List Part → Prop
  | nil : Expand [] []
  | keep {p : Part} {ps qs : List Part} : p.pat ≠ [] → Expand ps qs → Expand (p :: ps) (p :: qs)
  | dw {p : Part} {ps qs : List Part} (k : Nat) : p.pat = [] → Expand ps qs →
      Expand (p :: ps) (List.replicate k starPart ++ qs)

/-- documented meaning of a pattern: some expansion of the recursive wildcards fits a window -/
def MatchSpec (glob : Glob) (ps : List Part) (strs : List Str) : Prop :=
  ∃ qs, Expand ps qs ∧ MatchFlatSpec glob qs strs

def NoDW (ps : List Part) : Prop := ∀ p ∈ ps, p.pat ≠ []

theorem starPart_pat_ne : starPart.pat ≠ [] := by simp [starPart]

theorem noDW_replicate_star (k : Nat) : NoDW (List.replicate k starPart) := by
  intro p hp
  rw [List.mem_replicate] at hp
  rw [hp.2]; exact starPart_pat_ne

theorem NoDW.append {a b : List Part} (ha : NoDW a) (hb : NoDW b) : NoDW (a ++ b) := by
  intro p hp
  rcases List.mem_append.mp hp with h | h
  · exact ha p h
  · exact hb p h

/-- a wildcard-free prefix is copied unchanged by every expansion -/
theorem expand_noDW_append {pre : List Part} (h : NoDW pre) {rest qs : List Part} :
    Expand (pre ++ rest) qs ↔ ∃ qs', qs = pre ++ qs' ∧ Expand rest qs' := by
  induction pre generalizing qs with
  | nil => simp
  | cons p pre ih =>
    have hp : p.pat ≠ [] := h p (by simp)
    have hpre : NoDW pre := fun q hq => h q (by simp [hq])
    constructor
    · intro he
      cases he with
      | keep _ he' =>
        rcases (ih hpre).mp he' with ⟨qs', h1, h2⟩
        exact ⟨qs', by simp [h1], h2⟩
      | dw k hk _ => exact absurd hk hp
    · rintro ⟨qs', h1, h2⟩
      subst h1
      exact Expand.keep hp ((ih hpre).mpr ⟨qs', rfl, h2⟩)

theorem expand_noDW {ps qs : List Part} (h : NoDW ps) : Expand ps qs ↔ qs = ps := by
  have := expand_noDW_append (pre := ps) h (rest := []) (qs := qs)
  simp only [List.append_nil] at this
  rw [this]
  constructor
  · rintro ⟨qs', h1, h2⟩
    cases h2
    simpa using h1
  · intro h1
    exact ⟨[], by simp [h1], Expand.nil⟩

/-- expanding the first recursive wildcard into `i` stars, `i` arbitrary, loses nothing -/
theorem expand_first_dw {pre tail : List Part} {d : Part} (hpre : NoDW pre) (hd : d.pat = [])
    {qs : List Part} :
    Expand (pre ++ d :: tail) qs ↔ ∃ i, Expand (pre ++ (List.replicate i starPart ++ tail)) qs := by
  rw [expand_noDW_append hpre]
  constructor
  · rintro ⟨qs', h1, h2⟩
    cases h2 with
    | keep hk _ => exact absurd hd hk
    | dw k _ he =>
      refine ⟨k, ?_⟩
      rw [expand_noDW_append hpre]
      refine ⟨_, h1, ?_⟩
      rw [expand_noDW_append (noDW_replicate_star k)]
      exact ⟨_, rfl, he⟩
  · rintro ⟨i, hi⟩
    rw [expand_noDW_append hpre] at hi
    rcases hi with ⟨qs', h1, h2⟩
    rw [expand_noDW_append (noDW_replicate_star i)] at h2
    rcases h2 with ⟨qs'', h3, h4⟩
    refine ⟨qs', h1, ?_⟩
    rw [h3]
    exact Expand.dw i hd h4

theorem required_le_of_expand {ps qs : List Part} (h : Expand ps qs) : required ps ≤ qs.length := by
  induction h with
  | nil => simp [required]
  | keep hp _ ih =>
    simp only [required, List.length_cons] at ih ⊢
    rw [List.filter_cons_of_pos (by simpa using hp)]
    simp only [List.length_cons]
    omega
  | dw k hp _ ih =>
    simp only [required, List.length_append, List.length_replicate] at ih ⊢
    rw [List.filter_cons_of_neg (by simpa using hp)]
    omega

theorem matchFlatSpec_len {glob : Glob} {qs : List Part} {strs : List Str}
    (h : MatchFlatSpec glob qs strs) : qs.length ≤ strs.length := by
  cases qs with
  | nil => simp
  | cons q0 qt =>
    rcases h with ⟨off, hw, _⟩
    have := hw.1
    omega

/-- a pattern can only match a path with at least as many components as it has plain parts -/
theorem matchSpec_required {glob : Glob} {ps : List Part} {strs : List Str}
    (h : MatchSpec glob ps strs) : required ps ≤ strs.length := by
  rcases h with ⟨qs, he, hm⟩
  exact Nat.le_trans (required_le_of_expand he) (matchFlatSpec_len hm)

theorem required_append (a b : List Part) : required (a ++ b) = required a + required b := by
  simp [required, List.filter_append]

theorem required_replicate_star (k : Nat) : required (List.replicate k starPart) = k := by
  induction k with
  | zero => simp [required]
  | succ k ih =>
    simp only [required, List.replicate_succ] at ih ⊢
    rw [List.filter_cons_of_pos (by simp [starPart])]
    simp only [List.length_cons, ih]

theorem required_cons_dw {d : Part} (hd : d.pat = []) (tail : List Part) :
    required (d :: tail) = required tail := by
  simp only [required]
  rw [List.filter_cons_of_neg (by simpa using hd)]

theorem required_noDW {ps : List Part} (h : NoDW ps) : required ps = ps.length := by
  induction ps with
  | nil => simp [required]
  | cons p ps ih =>
    have hp : p.pat ≠ [] := h p (by simp)
    have := ih (fun q hq => h q (by simp [hq]))
    simp only [required] at this ⊢
    rw [List.filter_cons_of_pos (by simpa using hp)]
    simp only [List.length_cons, this]

theorem countDW_append (a b : List Part) : countDW (a ++ b) = countDW a + countDW b := by
  simp [countDW, List.filter_append]

theorem countDW_noDW {ps : List Part} (h : NoDW ps) : countDW ps = 0 := by
  induction ps with
  | nil => simp [countDW]
  | cons p ps ih =>
    have hp : p.pat ≠ [] := h p (by simp)
    have := ih (fun q hq => h q (by simp [hq]))
    simp only [countDW] at this ⊢
    rw [List.filter_cons_of_neg (by simpa using hp)]
    exact this

theorem countDW_cons_dw {d : Part} (hd : d.pat = []) (tail : List Part) :
    countDW (d :: tail) = countDW tail + 1 := by
  simp only [countDW]
  rw [List.filter_cons_of_pos (by simpa using hd)]
  simp

/-! ### `hasDoubleWildcard` -/

theorem hasDW_none {ps : List Part} (h : hasDW ps = none) : NoDW ps := by
  induction ps with
  | nil => intro p hp; cases hp
  | cons p ps ih =>
    unfold hasDW at h
    by_cases hp : p.pat = []
    · simp [hp] at h
    · simp only [hp, if_false, Option.map_eq_none_iff] at h
      intro q hq
      rcases List.mem_cons.mp hq with h1 | h1
      · rw [h1]; exact hp
      · exact ih h q h1

theorem hasDW_some {ps : List Part} {pos : Nat} (h : hasDW ps = some pos) :
    ∃ pre d tail, ps = pre ++ d :: tail ∧ pre.length = pos ∧ NoDW pre ∧ d.pat = [] := by
  induction ps generalizing pos with
  | nil => simp [hasDW] at h
  | cons p ps ih =>
    unfold hasDW at h
    by_cases hp : p.pat = []
    · simp only [hp, if_true, Option.some.injEq] at h
      exact ⟨[], p, ps, rfl, by simp [← h], by simp [NoDW], hp⟩
    · simp only [hp, if_false, Option.map_eq_some_iff] at h
      rcases h with ⟨pos', h1, h2⟩
      rcases ih h1 with ⟨pre, d, tail, e1, e2, e3, e4⟩
      refine ⟨p :: pre, d, tail, by simp [e1], by simp [e2, ← h2], ?_, e4⟩
      intro q hq
      rcases List.mem_cons.mp hq with h3 | h3
      · rw [h3]; exact hp
      · exact e3 q h3

/-! ### the expansion loop: shared buffer versus clean loop -/

/-- the loop without buffer: try `pre ++ i stars ++ tail` for `i, i+1, …` (`r` iterations) -/
def cleanLoop (rec : List Part → Res Bool) (pre tail : List Part) : Nat → Nat → Res Bool
  | 0, _ => .ok false
  | r + 1, i =>
    match rec (pre ++ (List.replicate i starPart ++ tail)) with
    | .ok true => .ok true
    | .ok false => cleanLoop rec pre tail r (i + 1)
    | e => e

theorem take_set_succ {α} (l : List α) (k : Nat) (v : α) (h : k < l.length) :
    (l.set k v).take (k + 1) = l.take k ++ [v] := by
  rw [List.take_set]
  rw [List.set_eq_take_append_cons_drop]
  have h1 : k < (List.take (k + 1) l).length := by simp; omega
  rw [if_pos h1]
  rw [List.take_take]
  have : min k (k + 1) = k := by omega
  rw [this]
  have h2 : List.drop (k + 1) (List.take (k + 1) l) = [] := by
    apply List.drop_eq_nil_of_le
    rw [List.length_take]; exact Nat.min_le_left _ _
  rw [h2]

theorem overwriteAt_length {α} (buf : List α) (k : Nat) (tail : List α) (h : k + tail.length ≤ buf.length) :
    (overwriteAt buf k tail).length = buf.length := by
  simp only [overwriteAt, List.length_append, List.length_take, List.length_drop]
  omega

theorem overwriteAt_take {α} (buf : List α) (k : Nat) (tail : List α) (h : k ≤ buf.length) :
    (overwriteAt buf k tail).take k = buf.take k := by
  simp only [overwriteAt, List.append_assoc]
  rw [List.take_append_of_le_length (by simp; omega)]
  rw [List.take_take]
  simp

/-- Invariant of the buffer at the head of iteration `i`: the first `pos + (i-1)` cells hold the
    static prefix followed by `i-1` stars (the cell `pos+i-1` is written in this iteration). -/
theorem expandLoop_eq_clean (rec : List Part → Res Bool) (pre tail : List Part) (n : Nat) :
    ∀ r i buf, buf.length = n →
      buf.take (pre.length + (i - 1)) = pre ++ List.replicate (i - 1) starPart →
      (r = 0 ∨ pre.length + i + r ≤ n + 1) →
      expandLoop rec tail pre.length r i buf = cleanLoop rec pre tail r i := by
  intro r
  induction r with
  | zero => intro i buf _ _ _; rfl
  | succ r ih =>
    intro i buf hlen hinv hbound
    have hb : pre.length + i ≤ n := by omega
    unfold expandLoop cleanLoop
    rw [if_pos (by omega)]
    -- the buffer after the conditional write
    have key : ∃ buf1, (if i > 0 then setAt buf (pre.length + i - 1) starPart else some buf) = some buf1 ∧
        buf1.length = n ∧ buf1.take (pre.length + i) = pre ++ List.replicate i starPart := by
      by_cases hi : i > 0
      · rw [if_pos hi]
        obtain ⟨j, hj⟩ : ∃ j, i = j + 1 := ⟨i - 1, by omega⟩
        subst hj
        have e0 : pre.length + (j + 1) - 1 = pre.length + j := by omega
        have e1 : pre.length + (j + 1) = (pre.length + j) + 1 := by omega
        have e2 : j + 1 - 1 = j := by omega
        rw [e0]
        rw [e2] at hinv
        have hlt : pre.length + j < buf.length := by omega
        refine ⟨buf.set (pre.length + j) starPart, by simp [setAt, hlt], by simp [hlen], ?_⟩
        rw [e1, take_set_succ _ _ _ hlt, hinv, List.replicate_succ']
        simp
      · have hi0 : i = 0 := by omega
        subst hi0
        refine ⟨buf, by simp, hlen, ?_⟩
        simpa using hinv
    rcases key with ⟨buf1, hk1, hk2, hk3⟩
    rw [hk1]
    simp only
    rw [hk3]
    have hnp : pre ++ List.replicate i starPart ++ tail = pre ++ (List.replicate i starPart ++ tail) := by simp
    rw [hnp]
    cases hrec : rec (pre ++ (List.replicate i starPart ++ tail)) with
    | ok b =>
      cases b with
      | true => rfl
      | false =>
        simp only
        apply ih
        · by_cases hfit : pre.length + i + tail.length ≤ buf1.length
          · rw [if_pos hfit, overwriteAt_length _ _ _ hfit, hk2]
          · rw [if_neg hfit, hk2]
        · have e : pre.length + (i + 1 - 1) = pre.length + i := by omega
          have e' : i + 1 - 1 = i := by omega
          rw [e, e']
          by_cases hfit : pre.length + i + tail.length ≤ buf1.length
          · rw [if_pos hfit, overwriteAt_take _ _ _ (by omega), hk3]
          · rw [if_neg hfit, hk3]
        · omega
    | err e => rfl
    | panic => rfl
    | fuel => rfl

/-- outcome of the clean loop in terms of the outcomes of the recursive calls -/
theorem cleanLoop_cases (rec : List Part → Res Bool) (pre tail : List Part) :
    ∀ r i,
      (cleanLoop rec pre tail r i = .ok true ∧
        ∃ j, i ≤ j ∧ j < i + r ∧ rec (pre ++ (List.replicate j starPart ++ tail)) = .ok true) ∨
      (cleanLoop rec pre tail r i = .ok false ∧
        ∀ j, i ≤ j → j < i + r → rec (pre ++ (List.replicate j starPart ++ tail)) = .ok false) ∨
      (∃ j, i ≤ j ∧ j < i + r ∧
        cleanLoop rec pre tail r i = rec (pre ++ (List.replicate j starPart ++ tail)) ∧
        ∀ b, rec (pre ++ (List.replicate j starPart ++ tail)) ≠ .ok b) := by
  intro r
  induction r with
  | zero =>
    intro i
    right; left
    refine ⟨rfl, ?_⟩
    intro j h1 h2; omega
  | succ r ih =>
    intro i
    unfold cleanLoop
    cases hrec : rec (pre ++ (List.replicate i starPart ++ tail)) with
    | ok b =>
      cases b with
      | true => left; exact ⟨rfl, i, Nat.le_refl _, by omega, hrec⟩
      | false =>
        simp only
        rcases ih (i + 1) with ⟨h1, j, h2, h3, h4⟩ | ⟨h1, h2⟩ | ⟨j, h1, h2, h3, h4⟩
        · left; exact ⟨h1, j, by omega, by omega, h4⟩
        · right; left
          refine ⟨h1, ?_⟩
          intro j hj1 hj2
          by_cases hji : j = i
          · subst hji; exact hrec
          · exact h2 j (by omega) (by omega)
        · right; right
          exact ⟨j, by omega, by omega, h3, h4⟩
    | err e =>
      right; right
      exact ⟨i, Nat.le_refl _, by omega, by rw [hrec], by rw [hrec]; intro b h; cases h⟩
    | panic =>
      right; right
      exact ⟨i, Nat.le_refl _, by omega, by rw [hrec], by rw [hrec]; intro b h; cases h⟩
    | fuel =>
      right; right
      exact ⟨i, Nat.le_refl _, by omega, by rw [hrec], by rw [hrec]; intro b h; cases h⟩

end Restic.Proofs.C28
