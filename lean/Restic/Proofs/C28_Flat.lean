import Restic.Model.Filter
/-!
# C28 helper lemmas, part 1: the loops of `match` on a pattern without recursive wildcard

`FlatOutcome` characterises every possible result of `matchFlat`; in particular it never panics
(all indices `parts[i]`, `strs[offset+i]`, `parts[0]`, `strs[0]` are in range).
-/
namespace Restic.Proofs.C28
open Restic.Model.Filter

/-- one pattern part accepts one component -/
def PartOK (glob : Glob) (p : Part) (c : Str) : Prop := partMatch glob p c = some true

/-- the parts `qs` accept the components of `strs` at positions `off, off+1, …` -/
def WindowAt (glob : Glob) (qs : List Part) (strs : List Str) (off : Nat) : Prop :=
  off + qs.length ≤ strs.length ∧
  ∀ i p c, qs[i]? = some p → strs[off + i]? = some c → PartOK glob p c

/-- documented meaning of a pattern without recursive wildcard -/
def MatchFlatSpec (glob : Glob) (qs : List Part) (strs : List Str) : Prop :=
  match qs with
  | [] => strs = []
  | q0 :: _ => ∃ off, WindowAt glob qs strs off ∧
      (q0.pat = slash → off = 0) ∧ (q0.pat ≠ slash → strs.head? = some slash → 1 ≤ off)

/-- some comparison a run may perform makes the glob oracle fail -/
def BadOn (glob : Glob) (parts : List Part) (strs : List Str) : Prop :=
  ∃ p, (p ∈ parts ∨ p = starPart) ∧ ∃ c ∈ strs, partMatch glob p c = none

theorem windowLoop_cases (glob : Glob) (parts : List Part) (strs : List Str) (off : Nat)
    (hb : off + parts.length ≤ strs.length) :
    ∀ n, n ≤ parts.length →
      (windowLoop glob parts strs off n = .ok true ∧
          ∀ i p c, i < n → parts[i]? = some p → strs[off + i]? = some c → PartOK glob p c) ∨
      (windowLoop glob parts strs off n = .ok false ∧
          ∃ i p c, i < n ∧ parts[i]? = some p ∧ strs[off + i]? = some c ∧ partMatch glob p c = some false) ∨
      (windowLoop glob parts strs off n = .err .badPattern ∧ BadOn glob parts strs) := by
  intro n
  induction n with
  | zero =>
    intro _
    left
    refine ⟨rfl, ?_⟩
    intro i p c hi; omega
  | succ n ih =>
    intro hn
    have hpi : n < parts.length := by omega
    have hsi : off + n < strs.length := by omega
    have hp : parts[n]? = some parts[n] := List.getElem?_eq_getElem hpi
    have hs : strs[off + n]? = some strs[off + n] := List.getElem?_eq_getElem hsi
    unfold windowLoop
    rw [hp, hs]
    simp only
    cases hm : partMatch glob parts[n] strs[off + n] with
    | none =>
      right; right
      refine ⟨rfl, parts[n], Or.inl (List.getElem_mem hpi), strs[off + n], List.getElem_mem hsi, hm⟩
    | some b =>
      cases b with
      | false =>
        right; left
        exact ⟨rfl, n, parts[n], strs[off + n], Nat.lt_succ_self n, hp, hs, hm⟩
      | true =>
        simp only
        rcases ih (by omega) with ⟨h1, h2⟩ | ⟨h1, i, p, c, hi, h2⟩ | ⟨h1, h2⟩
        · left
          refine ⟨h1, ?_⟩
          intro i p c hi hpp hcc
          by_cases hin : i = n
          · subst hin
            rw [hp] at hpp; rw [hs] at hcc
            cases hpp; cases hcc
            exact hm
          · exact h2 i p c (by omega) hpp hcc
        · right; left
          exact ⟨h1, i, p, c, by omega, h2⟩
        · right; right
          exact ⟨h1, h2⟩

theorem windowLoop_full (glob : Glob) (parts : List Part) (strs : List Str) (off : Nat)
    (hb : off + parts.length ≤ strs.length) :
    (windowLoop glob parts strs off parts.length = .ok true ∧ WindowAt glob parts strs off) ∨
    (windowLoop glob parts strs off parts.length = .ok false ∧ ¬ WindowAt glob parts strs off) ∨
    (windowLoop glob parts strs off parts.length = .err .badPattern ∧ BadOn glob parts strs) := by
  rcases windowLoop_cases glob parts strs off hb parts.length (Nat.le_refl _) with
    ⟨h1, h2⟩ | ⟨h1, i, p, c, hi, hp, hc, hm⟩ | h
  · left
    refine ⟨h1, hb, ?_⟩
    intro i p c hp hc
    have hi : i < parts.length := by
      rcases List.getElem?_eq_some_iff.mp hp with ⟨h, _⟩; exact h
    exact h2 i p c hi hp hc
  · right; left
    refine ⟨h1, ?_⟩
    intro hw
    have := hw.2 i p c hp hc
    unfold PartOK at this
    rw [hm] at this
    cases this
  · right; right; exact h

/-- outcome of the offset loop started at `n = maxOffset + 1` -/
theorem offsetLoop_cases (glob : Glob) (parts : List Part) (strs : List Str) (minOff : Nat) :
    ∀ n, (n = 0 ∨ (n - 1) + parts.length ≤ strs.length) →
      (offsetLoop glob parts strs minOff n = .ok true ∧
          ∃ off, minOff ≤ off ∧ off < n ∧ WindowAt glob parts strs off) ∨
      (offsetLoop glob parts strs minOff n = .ok false ∧
          ∀ off, minOff ≤ off → off < n → ¬ WindowAt glob parts strs off) ∨
      (offsetLoop glob parts strs minOff n = .err .badPattern ∧ BadOn glob parts strs) := by
  intro n
  induction n with
  | zero =>
    intro _
    right; left
    refine ⟨rfl, ?_⟩
    intro off _ h; omega
  | succ n ih =>
    intro hn
    have hb : n + parts.length ≤ strs.length := by
      rcases hn with h | h
      · omega
      · simpa using h
    unfold offsetLoop
    by_cases hlt : n < minOff
    · rw [if_pos hlt]
      right; left
      refine ⟨rfl, ?_⟩
      intro off h1 h2; omega
    · rw [if_neg hlt]
      rcases windowLoop_full glob parts strs n hb with ⟨h1, h2⟩ | ⟨h1, h2⟩ | ⟨h1, h2⟩
      · rw [h1]
        left
        exact ⟨rfl, n, by omega, Nat.lt_succ_self n, h2⟩
      · rw [h1]
        simp only
        have hn' : n = 0 ∨ (n - 1) + parts.length ≤ strs.length := by omega
        rcases ih hn' with ⟨h3, off, h4, h5, h6⟩ | ⟨h3, h4⟩ | ⟨h3, h4⟩
        · left; exact ⟨h3, off, h4, by omega, h6⟩
        · right; left
          refine ⟨h3, ?_⟩
          intro off ho1 ho2
          by_cases hon : off = n
          · subst hon; exact h2
          · exact h4 off ho1 (by omega)
        · right; right; exact ⟨h3, h4⟩
      · rw [h1]
        right; right
        exact ⟨rfl, h2⟩

/-- every possible result of the wildcard-free `match`, with what it means -/
inductive FlatOutcome (glob : Glob) (parts : List Part) (strs : List Str) : Res Bool → Prop
  | yes : MatchFlatSpec glob parts strs → FlatOutcome glob parts strs (.ok true)
  | no : ¬ MatchFlatSpec glob parts strs → FlatOutcome glob parts strs (.ok false)
  | bad : BadOn glob parts strs → FlatOutcome glob parts strs (.err .badPattern)

theorem WindowAt.len_le {glob : Glob} {qs : List Part} {strs : List Str} {off : Nat}
    (h : WindowAt glob qs strs off) : off + qs.length ≤ strs.length := h.1

theorem matchFlat_outcome (glob : Glob) (parts : List Part) (strs : List Str) :
    FlatOutcome glob parts strs (matchFlat glob parts strs) := by
  unfold matchFlat
  cases parts with
  | nil =>
    cases strs with
    | nil => simp only [List.length_nil, and_self, if_true]; exact .yes rfl
    | cons s ss =>
      simp only [List.length_nil, List.length_cons, true_and, Nat.succ_ne_zero, if_false, if_true]
      exact .no (by simp [MatchFlatSpec])
  | cons p0 pt =>
    have hne : ¬ ((p0 :: pt).length = 0) := by simp
    simp only [hne, false_and, if_false]
    by_cases hle : (p0 :: pt).length ≤ strs.length
    · simp only [hle, if_true, List.getElem?_cons_zero]
      by_cases habs : p0.pat = slash
      · simp only [habs, if_true]
        rcases offsetLoop_cases glob (p0 :: pt) strs 0 (0 + 1) (Or.inr (by simpa using hle)) with
          ⟨h1, off, h2, h3, h4⟩ | ⟨h1, h2⟩ | ⟨h1, h2⟩
        · rw [h1]
          refine .yes ⟨off, h4, ?_, ?_⟩
          · intro _; omega
          · intro h; exact absurd habs h
        · rw [h1]
          refine .no ?_
          rintro ⟨off, hw, ha, _⟩
          have := ha habs
          subst this
          exact h2 0 (Nat.le_refl _) (by omega) hw
        · rw [h1]; exact .bad h2
      · simp only [habs, if_false]
        cases strs with
        | nil => simp at hle
        | cons s0 st =>
          simp only [List.getElem?_cons_zero]
          have hmax : ((s0 :: st).length - (p0 :: pt).length + 1 = 0 ∨
              ((s0 :: st).length - (p0 :: pt).length + 1 - 1) + (p0 :: pt).length ≤ (s0 :: st).length) := by
            right; omega
          by_cases hroot : s0 = slash
          · simp only [hroot, if_true]
            rcases offsetLoop_cases glob (p0 :: pt) (slash :: st) 1 _ (by rw [hroot] at hmax; exact hmax) with
              ⟨h1, off, h2, h3, h4⟩ | ⟨h1, h2⟩ | ⟨h1, h2⟩
            · rw [h1]
              refine .yes ⟨off, h4, ?_, ?_⟩
              · intro h; exact absurd h habs
              · intro _ _; exact h2
            · rw [h1]
              refine .no ?_
              rintro ⟨off, hw, _, hb⟩
              have h1le := hb habs (by simp)
              have := hw.1
              exact h2 off h1le (by simp only [List.length_cons] at this ⊢; omega) hw
            · rw [h1]; exact .bad h2
          · simp only [hroot, if_false]
            rcases offsetLoop_cases glob (p0 :: pt) (s0 :: st) 0 _ hmax with
              ⟨h1, off, h2, h3, h4⟩ | ⟨h1, h2⟩ | ⟨h1, h2⟩
            · rw [h1]
              refine .yes ⟨off, h4, ?_, ?_⟩
              · intro h; exact absurd h habs
              · intro _ h; simp at h; exact absurd h hroot
            · rw [h1]
              refine .no ?_
              rintro ⟨off, hw, _, _⟩
              have := hw.1
              exact h2 off (Nat.zero_le _) (by simp only [List.length_cons] at this ⊢; omega) hw
            · rw [h1]; exact .bad h2
    · simp only [hle, if_false]
      refine .no ?_
      rintro ⟨off, hw, _, _⟩
      have := hw.1
      omega

end Restic.Proofs.C28
