import Restic.Model.Select
/-!
# C20 helper lemmas: which nodes the pruned traversal of `traverseTreeInner` enters / visits

For an arbitrary selection function `sel path isDir = (selectedForRestore, childMayBeSelected)`.
-/
set_option linter.unusedSimpArgs false
namespace Restic.Proofs.C20
open Restic.Model.Filter Restic.Model.Select

/-- what an event says about a snapshot item: (path, isDir, isFile) -/
def evItem : Ev → Option (List Str × Bool × Bool)
  | .enter p => some (p, true, false)
  | .visit p f => some (p, false, f)
  | .leave _ _ => none
  | .skipped _ _ => none

/-- the traversal descends through every directory strictly between `base` and the item -/
def ChainT (sel : List Str → Bool → Bool × Bool) (base : Nat) (p : List Str) : Prop :=
  ∀ k, base < k → k < p.length → (sel (p.take k) true).2 = true

/-- the snapshot has an item with this path and kind -/
def HasItem (names : List Str) (l : List Node) (p : List Str) (d f : Bool) : Prop :=
  ∃ e ∈ entries names l, e.path = p ∧ e.isDir = d ∧ e.isFile = f ∧ e.sock = false

theorem entries_cons' (names : List Str) (c : Node) (r : List Node) :
    entries names (c :: r) = entries names [c] ++ entries names r := by
  cases c <;> simp [entries_nil, entries_file, entries_other, entries_dir]

theorem entries_prefix' (names : List Str) : ∀ (l : List Node) (e : Entry), e ∈ entries names l →
    ∃ n rest, e.path = names ++ n :: rest
  | [], e, h => by simp [entries_nil] at h
  | .file n sz :: r, e, h => by
    simp only [entries_file, List.mem_cons] at h
    rcases h with h | h
    · exact ⟨n, [], by rw [h]⟩
    · exact entries_prefix' names r e h
  | .other n s :: r, e, h => by
    simp only [entries_other, List.mem_cons] at h
    rcases h with h | h
    · exact ⟨n, [], by rw [h]⟩
    · exact entries_prefix' names r e h
  | .dir n ch :: r, e, h => by
    simp only [entries_dir, List.mem_cons, List.mem_append] at h
    rcases h with h | h | h
    · exact ⟨n, [], by rw [h]⟩
    · rcases entries_prefix' (names ++ [n]) ch e h with ⟨m, rest, hr⟩
      exact ⟨n, m :: rest, by rw [hr]; simp⟩
    · exact entries_prefix' names r e h

theorem chainT_top (sel : List Str → Bool → Bool × Bool) (names : List Str) (n : Str) :
    ChainT sel names.length (names ++ [n]) := by
  intro k h1 h2
  simp at h2; omega

theorem chainT_below (sel : List Str → Bool → Bool × Bool) (names : List Str) (n m : Str) (rest : List Str) :
    ChainT sel names.length (names ++ [n] ++ m :: rest) ↔
      ((sel (names ++ [n]) true).2 = true ∧ ChainT sel (names ++ [n]).length (names ++ [n] ++ m :: rest)) := by
  unfold ChainT
  constructor
  · intro h2
    refine ⟨?_, ?_⟩
    · have := h2 (names.length + 1) (by omega) (by simp)
      rw [List.take_append_of_le_length (by simp)] at this
      rw [List.take_of_length_le (by simp)] at this
      exact this
    · intro k hk1 hk2
      exact h2 k (by simp at hk1; omega) hk2
  · rintro ⟨h0, h2⟩
    intro k hk1 hk2
    by_cases hk : k = names.length + 1
    · subst hk
      rw [List.take_append_of_le_length (by simp)]
      rw [List.take_of_length_le (by simp)]
      exact h0
    · exact h2 k (by simp; omega) hk2

mutual
/-- an `enter` / `visit` event is emitted exactly for the snapshot items that are selected and
    whose ancestors all let the traversal descend -/
theorem tr_node_item (sel : List Str → Bool → Bool × Bool) (names : List Str) :
    ∀ (n : Node) (p : List Str) (d f : Bool),
      (∃ ev ∈ (trNode sel names n).1, evItem ev = some (p, d, f)) ↔
        (HasItem names [n] p d f ∧ (sel p d).1 = true ∧ ChainT sel names.length p)
  | .file n sz, p, d, f => by
    unfold trNode HasItem
    simp only [entries_file, entries_nil, List.mem_singleton]
    constructor
    · rintro ⟨ev, hev, hi⟩
      split at hev
      · rename_i hs
        simp only [List.mem_singleton] at hev
        subst hev
        simp only [evItem, Option.some.injEq, Prod.mk.injEq] at hi
        rcases hi with ⟨rfl, rfl, rfl⟩
        exact ⟨⟨_, rfl, rfl, rfl, rfl, rfl⟩, hs, chainT_top sel names n⟩
      · simp at hev
    · rintro ⟨⟨e, rfl, rfl, rfl, rfl, _⟩, hs, _⟩
      simp only at hs
      rw [if_pos hs]
      exact ⟨Ev.visit (names ++ [n]) true, by simp, rfl⟩
  | .other n s, p, d, f => by
    unfold trNode HasItem
    simp only [entries_other, entries_nil, List.mem_singleton]
    cases s with
    | true =>
      simp only [if_true]
      constructor
      · rintro ⟨ev, hev, _⟩; simp at hev
      · rintro ⟨⟨e, rfl, _, _, _, h⟩, _, _⟩; simp at h
    | false =>
      simp only [Bool.false_eq_true, if_false]
      constructor
      · rintro ⟨ev, hev, hi⟩
        split at hev
        · rename_i hs
          simp only [List.mem_singleton] at hev
          subst hev
          simp only [evItem, Option.some.injEq, Prod.mk.injEq] at hi
          rcases hi with ⟨rfl, rfl, rfl⟩
          exact ⟨⟨_, rfl, rfl, rfl, rfl, rfl⟩, hs, chainT_top sel names n⟩
        · simp at hev
      · rintro ⟨⟨e, rfl, rfl, rfl, rfl, _⟩, hs, _⟩
        simp only at hs
        rw [if_pos hs]
        exact ⟨Ev.visit (names ++ [n]) false, by simp, rfl⟩
  | .dir n ch, p, d, f => by
    have ih := tr_list_item sel (names ++ [n]) ch p d f
    unfold trNode HasItem
    simp only [entries_dir, entries_nil, List.append_nil, List.mem_cons]
    by_cases hs2 : (sel (names ++ [n]) true).2 = true
    · -- the directory is traversed
      simp only [hs2, if_true]
      generalize trList sel (names ++ [n]) ch = r at ih
      obtain ⟨evs, chr⟩ := r
      simp only at ih ⊢
      constructor
      · rintro ⟨ev, hev, hi⟩
        simp only [List.mem_append] at hev
        rcases hev with (hev | hev) | hev
        · split at hev
          · rename_i hs1
            simp only [List.mem_singleton] at hev
            subst hev
            simp only [evItem, Option.some.injEq, Prod.mk.injEq] at hi
            rcases hi with ⟨rfl, rfl, rfl⟩
            exact ⟨⟨_, Or.inl rfl, rfl, rfl, rfl, rfl⟩, hs1, chainT_top sel names n⟩
          · simp at hev
        · rcases ih.mp ⟨ev, hev, hi⟩ with ⟨⟨e, he, h1, h2, h3, h3'⟩, h4, h5⟩
          refine ⟨⟨e, Or.inr he, h1, h2, h3, h3'⟩, h4, ?_⟩
          rcases entries_prefix' (names ++ [n]) ch e he with ⟨m, rest, hr⟩
          rw [← h1, hr] at h5 ⊢
          exact (chainT_below sel names n m rest).mpr ⟨hs2, h5⟩
        · split at hev
          · simp only [List.mem_singleton] at hev
            subst hev
            simp [evItem] at hi
          · simp only [List.mem_singleton] at hev
            subst hev
            simp [evItem] at hi
      · rintro ⟨⟨e, he, h1, h2, h3, h3'⟩, h4, h5⟩
        rcases he with he | he
        · subst he
          simp only at h1 h2 h3
          subst h1; subst h2; subst h3
          rw [if_pos h4]
          exact ⟨Ev.enter (names ++ [n]), by simp, rfl⟩
        · rcases entries_prefix' (names ++ [n]) ch e he with ⟨m, rest, hr⟩
          have h5' : ChainT sel (names ++ [n]).length p := by
            rw [← h1, hr] at h5 ⊢
            exact ((chainT_below sel names n m rest).mp h5).2
          rcases ih.mpr ⟨⟨e, he, h1, h2, h3, h3'⟩, h4, h5'⟩ with ⟨ev, hev, hi⟩
          exact ⟨ev, by simp only [List.mem_append]; exact Or.inl (Or.inr hev), hi⟩
    · -- pruned: only the directory itself can be entered
      simp only [hs2, Bool.false_eq_true, if_false, List.append_nil]
      constructor
      · rintro ⟨ev, hev, hi⟩
        simp only [List.mem_append] at hev
        rcases hev with hev | hev
        · split at hev
          · rename_i hs1
            simp only [List.mem_singleton] at hev
            subst hev
            simp only [evItem, Option.some.injEq, Prod.mk.injEq] at hi
            rcases hi with ⟨rfl, rfl, rfl⟩
            exact ⟨⟨_, Or.inl rfl, rfl, rfl, rfl, rfl⟩, hs1, chainT_top sel names n⟩
          · simp at hev
        · split at hev
          · simp only [List.mem_singleton] at hev
            subst hev
            simp [evItem] at hi
          · simp at hev
      · rintro ⟨⟨e, he, h1, h2, h3, h3'⟩, h4, h5⟩
        rcases he with he | he
        · subst he
          simp only at h1 h2 h3
          subst h1; subst h2; subst h3
          rw [if_pos h4]
          exact ⟨Ev.enter (names ++ [n]), by simp, rfl⟩
        · exfalso
          rcases entries_prefix' (names ++ [n]) ch e he with ⟨m, rest, hr⟩
          rw [← h1, hr] at h5
          exact hs2 ((chainT_below sel names n m rest).mp h5).1
theorem tr_list_item (sel : List Str → Bool → Bool × Bool) (names : List Str) :
    ∀ (l : List Node) (p : List Str) (d f : Bool),
      (∃ ev ∈ (trList sel names l).1, evItem ev = some (p, d, f)) ↔
        (HasItem names l p d f ∧ (sel p d).1 = true ∧ ChainT sel names.length p)
  | [], p, d, f => by
    simp [trList, HasItem, entries_nil]
  | c :: cs, p, d, f => by
    have ih1 := tr_node_item sel names c p d f
    have ih2 := tr_list_item sel names cs p d f
    unfold trList
    generalize trNode sel names c = r1 at ih1
    obtain ⟨e1, b1⟩ := r1
    generalize trList sel names cs = r2 at ih2
    obtain ⟨e2, b2⟩ := r2
    simp only at ih1 ih2 ⊢
    unfold HasItem at ih1 ih2 ⊢
    rw [entries_cons']
    constructor
    · rintro ⟨ev, hev, hi⟩
      rcases List.mem_append.mp hev with hev | hev
      · rcases ih1.mp ⟨ev, hev, hi⟩ with ⟨⟨e, he, h⟩, h'⟩
        exact ⟨⟨e, List.mem_append.mpr (Or.inl he), h⟩, h'⟩
      · rcases ih2.mp ⟨ev, hev, hi⟩ with ⟨⟨e, he, h⟩, h'⟩
        exact ⟨⟨e, List.mem_append.mpr (Or.inr he), h⟩, h'⟩
    · rintro ⟨⟨e, he, h⟩, h'⟩
      rcases List.mem_append.mp he with he | he
      · rcases ih1.mpr ⟨⟨e, he, h⟩, h'⟩ with ⟨ev, hev, hi⟩
        exact ⟨ev, List.mem_append.mpr (Or.inl hev), hi⟩
      · rcases ih2.mpr ⟨⟨e, he, h⟩, h'⟩ with ⟨ev, hev, hi⟩
        exact ⟨ev, List.mem_append.mpr (Or.inr hev), hi⟩
end

mutual
/-- every `leaveDir` call concerns a directory of the snapshot that the traversal reached; the
    expected names are those of the snapshot directory when it was traversed, nil otherwise -/
theorem tr_node_leave (sel : List Str → Bool → Bool × Bool) (names : List Str) :
    ∀ (n : Node) (p : List Str) (exp : Option (List Str)), Ev.leave p exp ∈ (trNode sel names n).1 →
      HasItem names [n] p true false ∧ ChainT sel names.length p ∧
        ((sel p true).2 = false → exp = none) ∧ ((sel p true).2 = true → ∃ names', exp = some names') ∧
        (exp = none → (sel p true).1 = true)
  | .file n sz, p, exp => by
    unfold trNode; split <;> simp
  | .other n s, p, exp => by
    unfold trNode; split
    · simp
    · split <;> simp
  | .dir n ch, p, exp => by
    have ih := tr_list_leave sel (names ++ [n]) ch p exp
    unfold trNode HasItem
    simp only [entries_dir, entries_nil, List.append_nil, List.mem_cons]
    by_cases hs2 : (sel (names ++ [n]) true).2 = true
    · simp only [hs2, if_true]
      generalize trList sel (names ++ [n]) ch = r at ih
      obtain ⟨evs, chr⟩ := r
      simp only at ih ⊢
      intro hev
      simp only [List.mem_append] at hev
      rcases hev with (hev | hev) | hev
      · split at hev <;> simp at hev
      · rcases ih hev with ⟨⟨e, he, h1, h2, h3, h3'⟩, h5, h6⟩
        refine ⟨⟨e, Or.inr he, h1, h2, h3, h3'⟩, ?_, h6⟩
        rcases entries_prefix' (names ++ [n]) ch e he with ⟨m, rest, hr⟩
        rw [← h1, hr] at h5 ⊢
        exact (chainT_below sel names n m rest).mpr ⟨hs2, h5⟩
      · split at hev
        · simp only [List.mem_singleton, Ev.leave.injEq] at hev
          rcases hev with ⟨rfl, rfl⟩
          refine ⟨⟨_, Or.inl rfl, rfl, rfl, rfl, rfl⟩, chainT_top sel names n, ?_, ?_, ?_⟩
          · intro h; rw [hs2] at h; cases h
          · intro _; exact ⟨_, rfl⟩
          · intro h; cases h
        · simp at hev
    · simp only [hs2, Bool.false_eq_true, if_false, List.append_nil]
      intro hev
      simp only [List.mem_append] at hev
      rcases hev with hev | hev
      · split at hev <;> simp at hev
      · split at hev
        · simp only [List.mem_singleton, Ev.leave.injEq] at hev
          rcases hev with ⟨rfl, rfl⟩
          rename_i hcond
          refine ⟨⟨_, Or.inl rfl, rfl, rfl, rfl, rfl⟩, chainT_top sel names n, ?_, ?_, ?_⟩
          · intro _; rfl
          · intro h; exact absurd h hs2
          · intro _; simpa using hcond
        · simp at hev
theorem tr_list_leave (sel : List Str → Bool → Bool × Bool) (names : List Str) :
    ∀ (l : List Node) (p : List Str) (exp : Option (List Str)), Ev.leave p exp ∈ (trList sel names l).1 →
      HasItem names l p true false ∧ ChainT sel names.length p ∧
        ((sel p true).2 = false → exp = none) ∧ ((sel p true).2 = true → ∃ names', exp = some names') ∧
        (exp = none → (sel p true).1 = true)
  | [], p, exp => by simp [trList]
  | c :: cs, p, exp => by
    have ih1 := tr_node_leave sel names c p exp
    have ih2 := tr_list_leave sel names cs p exp
    unfold trList
    generalize trNode sel names c = r1 at ih1
    obtain ⟨e1, b1⟩ := r1
    generalize trList sel names cs = r2 at ih2
    obtain ⟨e2, b2⟩ := r2
    simp only at ih1 ih2 ⊢
    unfold HasItem at ih1 ih2 ⊢
    rw [entries_cons']
    intro hev
    rcases List.mem_append.mp hev with hev | hev
    · rcases ih1 hev with ⟨⟨e, he, h⟩, h'⟩
      exact ⟨⟨e, List.mem_append.mpr (Or.inl he), h⟩, h'⟩
    · rcases ih2 hev with ⟨⟨e, he, h⟩, h'⟩
      exact ⟨⟨e, List.mem_append.mpr (Or.inr he), h⟩, h'⟩
end


/-! ### every traversed directory is handed to `removeUnexpectedFiles` (after the fix) -/

theorem dirListings_prefix (names : List Str) : ∀ (l : List Node) (p : List Str) (ns : List Str),
    (p, ns) ∈ dirListingsList names l → ∃ n rest, p = names ++ n :: rest
  | [], p, ns, h => by simp [dirListingsList] at h
  | .file n sz :: r, p, ns, h => by
    simp only [dirListingsList, dirListingsNode, List.nil_append] at h
    exact dirListings_prefix names r p ns h
  | .other n s :: r, p, ns, h => by
    simp only [dirListingsList, dirListingsNode, List.nil_append] at h
    exact dirListings_prefix names r p ns h
  | .dir n ch :: r, p, ns, h => by
    simp only [dirListingsList, dirListingsNode, List.cons_append, List.mem_cons, List.mem_append,
      Prod.mk.injEq] at h
    rcases h with h | h | h
    · exact ⟨n, [], h.1⟩
    · rcases dirListings_prefix (names ++ [n]) ch p ns h with ⟨m, rest, hr⟩
      exact ⟨n, m :: rest, by rw [hr]; simp⟩
    · exact dirListings_prefix names r p ns h

mutual
theorem tr_node_deldir (sel : List Str → Bool → Bool × Bool) (names : List Str) :
    ∀ (n : Node) (p : List Str) (ns : List Str), (p, ns) ∈ dirListingsNode names n →
      ChainT sel names.length p → (sel p true).2 = true →
        ∃ ev ∈ (trNode sel names n).1, delDir ev = some (p, some ns)
  | .file n sz, p, ns => by simp [dirListingsNode]
  | .other n s, p, ns => by simp [dirListingsNode]
  | .dir n ch, p, ns => by
    intro h hc hs
    have ih := tr_list_deldir sel (names ++ [n]) ch p ns
    simp only [dirListingsNode, List.mem_cons, Prod.mk.injEq] at h
    unfold trNode
    rcases h with ⟨rfl, rfl⟩ | h
    · simp only [hs, if_true]
      generalize trList sel (names ++ [n]) ch = r
      obtain ⟨evs, chr⟩ := r
      simp only
      by_cases hl : ((sel (names ++ [n]) true).1 || chr) = true
      · rw [if_pos hl]
        exact ⟨Ev.leave (names ++ [n]) (some (ch.map Node.name)), by simp, rfl⟩
      · rw [if_neg hl]
        exact ⟨Ev.skipped (names ++ [n]) (some (ch.map Node.name)), by simp, rfl⟩
    · rcases dirListings_prefix (names ++ [n]) ch p ns h with ⟨m, rest, hr⟩
      have hr' : p = names ++ [n] ++ m :: rest := by rw [hr]
      rw [hr'] at hc
      rcases (chainT_below sel names n m rest).mp hc with ⟨hs2, hc'⟩
      rw [← hr'] at hc'
      rcases ih h hc' hs with ⟨ev, hev, hd⟩
      simp only [hs2, if_true]
      generalize trList sel (names ++ [n]) ch = r at hev
      obtain ⟨evs, chr⟩ := r
      simp only at hev ⊢
      exact ⟨ev, by simp only [List.mem_append]; exact Or.inl (Or.inr hev), hd⟩
theorem tr_list_deldir (sel : List Str → Bool → Bool × Bool) (names : List Str) :
    ∀ (l : List Node) (p : List Str) (ns : List Str), (p, ns) ∈ dirListingsList names l →
      ChainT sel names.length p → (sel p true).2 = true →
        ∃ ev ∈ (trList sel names l).1, delDir ev = some (p, some ns)
  | [], p, ns => by simp [dirListingsList]
  | c :: cs, p, ns => by
    intro h hc hs
    have ih1 := tr_node_deldir sel names c p ns
    have ih2 := tr_list_deldir sel names cs p ns
    simp only [dirListingsList, List.mem_append] at h
    unfold trList
    generalize trNode sel names c = r1 at ih1
    obtain ⟨e1, b1⟩ := r1
    generalize trList sel names cs = r2 at ih2
    obtain ⟨e2, b2⟩ := r2
    simp only at ih1 ih2 ⊢
    rcases h with h | h
    · rcases ih1 h hc hs with ⟨ev, hev, hd⟩
      exact ⟨ev, List.mem_append.mpr (Or.inl hev), hd⟩
    · rcases ih2 h hc hs with ⟨ev, hev, hd⟩
      exact ⟨ev, List.mem_append.mpr (Or.inr hev), hd⟩
end

/-! ### the name list handed to `removeUnexpectedFiles` is the full listing of the snapshot directory
(every node of the tree: unselected ones and sockets included) -/

mutual
theorem tr_node_deldir_names (sel : List Str → Bool → Bool × Bool) (names : List Str) :
    ∀ (n : Node) (ev : Ev) (p ns : List Str), ev ∈ (trNode sel names n).1 →
      delDir ev = some (p, some ns) → (p, ns) ∈ dirListingsNode names n
  | .file n sz, ev, p, ns => by
    unfold trNode
    split
    · intro h hd; simp only [List.mem_singleton] at h; subst h; simp [delDir] at hd
    · intro h; simp at h
  | .other n s, ev, p, ns => by
    unfold trNode
    split
    · intro h; simp at h
    · split
      · intro h hd; simp only [List.mem_singleton] at h; subst h; simp [delDir] at hd
      · intro h; simp at h
  | .dir n ch, ev, p, ns => by
    have ih := tr_list_deldir_names sel (names ++ [n]) ch ev p ns
    unfold trNode
    simp only [dirListingsNode, List.mem_cons, Prod.mk.injEq]
    by_cases hs2 : (sel (names ++ [n]) true).2 = true
    · simp only [hs2, if_true]
      generalize trList sel (names ++ [n]) ch = r at ih
      obtain ⟨evs, chr⟩ := r
      simp only at ih ⊢
      intro hev hd
      simp only [List.mem_append] at hev
      rcases hev with (hev | hev) | hev
      · split at hev
        · simp only [List.mem_singleton] at hev; subst hev; simp [delDir] at hd
        · simp at hev
      · exact Or.inr (ih hev hd)
      · split at hev
        · simp only [List.mem_singleton] at hev; subst hev
          simp only [delDir, Option.some.injEq, Prod.mk.injEq] at hd
          exact Or.inl ⟨hd.1.symm, hd.2.symm⟩
        · simp only [List.mem_singleton] at hev; subst hev
          simp only [delDir, Option.some.injEq, Prod.mk.injEq] at hd
          exact Or.inl ⟨hd.1.symm, hd.2.symm⟩
    · simp only [hs2, Bool.false_eq_true, if_false, List.append_nil]
      intro hev hd
      simp only [List.mem_append] at hev
      rcases hev with hev | hev
      · split at hev
        · simp only [List.mem_singleton] at hev; subst hev; simp [delDir] at hd
        · simp at hev
      · split at hev
        · simp only [List.mem_singleton] at hev; subst hev
          simp [delDir] at hd
        · simp at hev
theorem tr_list_deldir_names (sel : List Str → Bool → Bool × Bool) (names : List Str) :
    ∀ (l : List Node) (ev : Ev) (p ns : List Str), ev ∈ (trList sel names l).1 →
      delDir ev = some (p, some ns) → (p, ns) ∈ dirListingsList names l
  | [], ev, p, ns => by simp [trList]
  | c :: cs, ev, p, ns => by
    have ih1 := tr_node_deldir_names sel names c ev p ns
    have ih2 := tr_list_deldir_names sel names cs ev p ns
    unfold trList
    generalize trNode sel names c = r1 at ih1
    obtain ⟨e1, b1⟩ := r1
    generalize trList sel names cs = r2 at ih2
    obtain ⟨e2, b2⟩ := r2
    simp only at ih1 ih2 ⊢
    simp only [dirListingsList, List.mem_append]
    intro hev hd
    rcases hev with hev | hev
    · exact Or.inl (ih1 hev hd)
    · exact Or.inr (ih2 hev hd)
end

mutual
theorem skipped_none_notin_node (sel : List Str → Bool → Bool × Bool) (names : List Str) :
    ∀ (n : Node) (p : List Str), Ev.skipped p none ∉ (trNode sel names n).1
  | .file n sz, p => by unfold trNode; split <;> simp
  | .other n s, p => by
    unfold trNode; split
    · simp
    · split <;> simp
  | .dir n ch, p => by
    have ih := skipped_none_notin sel (names ++ [n]) ch p
    unfold trNode
    by_cases hs2 : (sel (names ++ [n]) true).2 = true
    · simp only [hs2, if_true]
      generalize trList sel (names ++ [n]) ch = r at ih
      obtain ⟨evs, chr⟩ := r
      simp only at ih ⊢
      intro hev
      simp only [List.mem_append] at hev
      rcases hev with (hev | hev) | hev
      · split at hev <;> simp at hev
      · exact ih hev
      · split at hev <;> simp at hev
    · simp only [hs2, Bool.false_eq_true, if_false, List.append_nil]
      intro hev
      simp only [List.mem_append] at hev
      rcases hev with hev | hev
      · split at hev <;> simp at hev
      · split at hev <;> simp at hev
theorem skipped_none_notin (sel : List Str → Bool → Bool × Bool) (names : List Str) :
    ∀ (l : List Node) (p : List Str), Ev.skipped p none ∉ (trList sel names l).1
  | [], p => by simp [trList]
  | c :: cs, p => by
    have ih1 := skipped_none_notin_node sel names c p
    have ih2 := skipped_none_notin sel names cs p
    unfold trList
    generalize trNode sel names c = r1 at ih1
    obtain ⟨e1, b1⟩ := r1
    generalize trList sel names cs = r2 at ih2
    obtain ⟨e2, b2⟩ := r2
    simp only at ih1 ih2 ⊢
    intro h
    rcases List.mem_append.mp h with h | h
    · exact ih1 h
    · exact ih2 h
end

end Restic.Proofs.C20
