import Restic.Proofs.C06_Read
/-!
C06 helper lemmas: `parseHeaderEntry` / `parseLoop` are total (no slice out of range, fuel suffices),
produce only well-formed entries with cumulative offsets, and invert `makeHeader`.
-/
namespace Restic.Proofs.C06
open Restic.Model.Pack Restic.Gen

/-- offsets as assigned by the loop of `List`: running sum of the stored lengths -/
def withOffsets : Nat → List Blob → List Blob
  | _, [] => []
  | pos, b :: bs => { b with offset := pos } :: withOffsets (pos + b.length) bs

theorem slice?_ok (p : Bytes) (lo hi : Nat) (h1 : lo ≤ hi) (h2 : hi ≤ p.length) :
    slice? p lo hi = some ((p.take hi).drop lo) := by
  unfold slice?; simp [h1, h2]

theorem from?_ok (p : Bytes) (lo : Nat) (h : lo ≤ p.length) : from? p lo = some (p.drop lo) := by
  unfold from?; simp [h]

theorem copyID_length (p : Bytes) : (copyID p).length = restic_idSize := by
  unfold copyID
  simp only [List.length_append, List.length_take, List.length_replicate]
  omega

/-- what a successful `parseHeaderEntry` guarantees -/
structure EntryOK (p : Bytes) (e : Blob) (sz : Nat) : Prop where
  pos : 0 < sz
  le : sz ≤ p.length
  type : e.type = restic_DataBlob ∨ e.type = restic_TreeBlob
  id : e.id.length = restic_idSize
  length : e.length < 4294967296
  ulen : e.ulen < 4294967296
  offset : e.offset = 0
  size : sz = pack_plainEntrySize ∨ sz = pack_entrySize

theorem parseHeaderEntry_cases (p : Bytes) :
    (parseHeaderEntry p = .err .entryShort ∨ parseHeaderEntry p = .err .invalidType) ∨
    (∃ e sz, parseHeaderEntry p = .ok (e, sz) ∧ EntryOK p e sz) := by
  obtain ⟨h4, hplain, hentry, _⟩ := facts_layout
  unfold parseHeaderEntry
  simp only
  by_cases h : p.length < pack_plainEntrySize
  · left; left; simp [h]
  · simp only [h, if_false]
    cases p with
    | nil => simp only [List.length_nil] at h; omega
    | cons tpe rest =>
      simp only
      have hlen : 5 ≤ (tpe :: rest).length := by omega
      rw [slice?_ok _ 1 5 (by omega) hlen, from?_ok _ 5 hlen]
      by_cases t02 : tpe = 0 ∨ tpe = 2
      · simp only [t02, if_true]
        by_cases t23 : tpe = 2 ∨ tpe = 3
        · simp only [t23, if_true]
          by_cases hl : (tpe :: rest).length < pack_entrySize
          · left; left; rw [if_pos hl]
          · rw [if_neg hl]
            have hlen2 : 4 ≤ ((tpe :: rest).drop 5).length := by simp only [List.length_drop]; omega
            rw [slice?_ok _ 0 4 (by omega) hlen2, from?_ok _ 4 hlen2]
            right
            exact ⟨_, _, rfl, ⟨by omega, by omega, Or.inl rfl, copyID_length _, unle32_lt _, unle32_lt _, rfl, Or.inr rfl⟩⟩
        · simp only [t23, if_false]
          right
          exact ⟨_, _, rfl, ⟨by omega, by omega, Or.inl rfl, copyID_length _, unle32_lt _, by simp, rfl, Or.inl rfl⟩⟩
      · simp only [t02, if_false]
        by_cases t13 : tpe = 1 ∨ tpe = 3
        · simp only [t13, if_true]
          by_cases t23 : tpe = 2 ∨ tpe = 3
          · simp only [t23, if_true]
            by_cases hl : (tpe :: rest).length < pack_entrySize
            · left; left; rw [if_pos hl]
            · rw [if_neg hl]
              have hlen2 : 4 ≤ ((tpe :: rest).drop 5).length := by simp only [List.length_drop]; omega
              rw [slice?_ok _ 0 4 (by omega) hlen2, from?_ok _ 4 hlen2]
              right
              exact ⟨_, _, rfl, ⟨by omega, by omega, Or.inr rfl, copyID_length _, unle32_lt _, unle32_lt _, rfl, Or.inr rfl⟩⟩
          · simp only [t23, if_false]
            right
            exact ⟨_, _, rfl, ⟨by omega, by omega, Or.inr rfl, copyID_length _, unle32_lt _, by simp, rfl, Or.inl rfl⟩⟩
        · left; right; simp [t13]

theorem parseHeaderEntry_no_panic (p : Bytes) : parseHeaderEntry p ≠ .panic := by
  rcases parseHeaderEntry_cases p with (h | h) | ⟨e, sz, h, _⟩ <;> simp [h]

/-- all entries well formed -/
def AllWF (bs : List Blob) : Prop := ∀ b ∈ bs, WF b

theorem parseLoop_cases (fuel : Nat) (p : Bytes) (pos : Nat) (hf : p.length ≤ fuel) :
    (parseLoop fuel p pos = .err .entryShort ∨ parseLoop fuel p pos = .err .invalidType) ∨
    (∃ es, parseLoop fuel p pos = .ok es ∧ AllWF es ∧ withOffsets pos es = es) := by
  induction fuel generalizing p pos with
  | zero =>
    cases p with
    | nil => right; exact ⟨[], by simp [parseLoop], (fun b hb => by cases hb), rfl⟩
    | cons x xs => simp at hf
  | succ f ih =>
    cases p with
    | nil => right; exact ⟨[], by simp [parseLoop], (fun b hb => by cases hb), rfl⟩
    | cons x xs =>
      unfold parseLoop
      rcases parseHeaderEntry_cases (x :: xs) with (h | h) | ⟨e, sz, h, hok⟩
      · left; left; simp [h]
      · left; right; simp [h]
      · simp only [h]
        rw [from?_ok _ sz hok.le]
        simp only
        have hlen : ((x :: xs).drop sz).length ≤ f := by
          have := hok.pos
          simp only [List.length_drop]
          simp only [List.length_cons] at hf ⊢
          omega
        rcases ih ((x :: xs).drop sz) (pos + e.length) hlen with (h' | h') | ⟨es, h', hwf, hoff⟩
        · left; left; simp [h']
        · left; right; simp [h']
        · right
          refine ⟨{ e with offset := pos } :: es, by simp [h'], ?_, ?_⟩
          · intro b hb
            rcases List.mem_cons.1 hb with rfl | hb
            · exact ⟨hok.type, hok.id, hok.length, hok.ulen⟩
            · exact hwf b hb
          · simp only [withOffsets, hoff]

theorem parseLoop_no_panic (fuel : Nat) (p : Bytes) (pos : Nat) (hf : p.length ≤ fuel) :
    parseLoop fuel p pos ≠ .panic := by
  rcases parseLoop_cases fuel p pos hf with (h | h) | ⟨es, h, _⟩ <;> simp [h]

/-- the loop inverts `makeHeader` on well-formed blobs -/
theorem parseLoop_makeHeader (bs : List Blob) (hwf : AllWF bs) (h : Bytes) (hm : makeHeader bs = some h)
    (fuel : Nat) (hf : h.length ≤ fuel) (pos : Nat) :
    parseLoop fuel h pos = .ok (withOffsets pos bs) := by
  induction bs generalizing h fuel pos with
  | nil =>
    simp only [makeHeader, Option.some.injEq] at hm
    subst hm
    cases fuel <;> simp [parseLoop, withOffsets]
  | cons b bs ih =>
    have hb : WF b := hwf b (List.mem_cons_self ..)
    unfold makeHeader at hm
    cases he : encEntry b with
    | none => simp [he] at hm
    | some e =>
      cases hr : makeHeader bs with
      | none => simp [he, hr] at hm
      | some r =>
        simp only [he, hr, Option.some.injEq] at hm
        subst hm
        have helen := encEntry_length b e hb.id he
        have hpos := entrySizeOf_pos b
        cases hx : e ++ r with
        | nil =>
          have : (e ++ r).length = 0 := by rw [hx]; rfl
          simp only [List.length_append] at this; omega
        | cons x xs =>
          have hflen : (e ++ r).length ≤ fuel := hf
          cases fuel with
          | zero => simp only [List.length_append] at hflen; omega
          | succ f =>
            rw [← hx]
            have hpe := parse_encEntry b e r hb he
            have hstep : parseLoop (f + 1) (e ++ r) pos =
                match parseHeaderEntry (e ++ r) with
                | .err e => .err e
                | .panic => .panic
                | .ok (entry, sz) =>
                  match from? (e ++ r) sz with
                  | none => .panic
                  | some rest =>
                    match parseLoop f rest (pos + entry.length) with
                    | .err e => .err e
                    | .panic => .panic
                    | .ok es => .ok ({ entry with offset := pos } :: es) := by
              rw [hx]; rfl
            rw [hstep, hpe]
            simp only
            have hfrom : from? (e ++ r) (entrySizeOf b) = some r := by
              rw [from?_ok _ _ (by simp only [List.length_append]; omega), ← helen]
              simp
            rw [hfrom]
            simp only
            have hrl : r.length ≤ f := by
              simp only [List.length_append] at hflen; omega
            rw [ih (fun b' hb' => hwf b' (List.mem_cons_of_mem _ hb')) r hr f hrl (pos + b.length)]
            simp [withOffsets]

end Restic.Proofs.C06
