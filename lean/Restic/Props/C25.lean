import Restic.Model.Tags
import Restic.Gen.Source
/-!
# C25 — Tag edits leave snapshots with exactly the requested tags

Theorems about `Restic.Model.Tags` (transcription of AddTags / RemoveTags / Flatten / changeTags /
runTag). All statements are for *all* tag lists, including lists with duplicates.
-/
namespace Restic.Props.C25
open Restic.Model.Tags

/-! helper lemmas -/

theorem addTags_fst_mem (tags add : List Tag) (t : Tag) :
    t ∈ (addTags tags add).1 ↔ t ∈ tags ∨ t ∈ add := by
  unfold addTags
  suffices h : ∀ (acc : List Tag × Bool), t ∈ (add.foldl addOne acc).1 ↔ t ∈ acc.1 ∨ t ∈ add from h _
  induction add with
  | nil => intro acc; simp
  | cons a as ih =>
    intro acc
    simp only [List.foldl_cons, ih, List.mem_cons]
    unfold addOne
    by_cases h : a ∈ acc.1
    · simp only [h, if_true]
      constructor
      · rintro (h1 | h1)
        · exact Or.inl h1
        · exact Or.inr (Or.inr h1)
      · rintro (h1 | h1 | h1)
        · exact Or.inl h1
        · exact Or.inl (h1 ▸ h)
        · exact Or.inr h1
    · simp only [h, if_false, List.mem_append, List.mem_singleton]
      constructor
      · rintro ((h1 | h1) | h1)
        · exact Or.inl h1
        · exact Or.inr (Or.inl h1)
        · exact Or.inr (Or.inr h1)
      · rintro (h1 | h1 | h1)
        · exact Or.inl (Or.inl h1)
        · exact Or.inl (Or.inr h1)
        · exact Or.inr h1

theorem removeTags_fst_mem (tags rem : List Tag) (t : Tag) :
    t ∈ (removeTags tags rem).1 ↔ t ∈ tags ∧ t ∉ rem := by
  unfold removeTags
  suffices h : ∀ (acc : List Tag × Bool), t ∈ (rem.foldl removeOne acc).1 ↔ t ∈ acc.1 ∧ t ∉ rem from h _
  induction rem with
  | nil => intro acc; simp
  | cons r rs ih =>
    intro acc
    simp only [List.foldl_cons, ih, List.mem_cons, not_or]
    unfold removeOne
    simp only [List.mem_filter, decide_eq_true_eq, ne_eq]
    constructor
    · rintro ⟨⟨h1, h2⟩, h3⟩; exact ⟨h1, h2, h3⟩
    · rintro ⟨h1, h2, h3⟩; exact ⟨⟨h1, h2⟩, h3⟩

/-- `changed = false` means the tag list is literally unchanged (the snapshot is not rewritten). -/
theorem addTags_unchanged (tags add : List Tag) :
    (addTags tags add).2 = false → (addTags tags add).1 = tags := by
  unfold addTags
  suffices h : ∀ (acc : List Tag × Bool), (add.foldl addOne acc).2 = false →
      (add.foldl addOne acc).1 = acc.1 ∧ acc.2 = false from fun h' => (h _ h').1
  induction add with
  | nil => intro acc h; exact ⟨rfl, h⟩
  | cons a as ih =>
    intro acc h
    simp only [List.foldl_cons] at h ⊢
    have := ih _ h
    unfold addOne at this ⊢
    by_cases hm : a ∈ acc.1
    · simp only [hm, if_true] at this ⊢; exact this
    · simp only [hm, if_false] at this; exact absurd this.2 (by simp)

theorem removeTags_unchanged (tags rem : List Tag) :
    (removeTags tags rem).2 = false → (removeTags tags rem).1 = tags := by
  unfold removeTags
  suffices h : ∀ (acc : List Tag × Bool), (rem.foldl removeOne acc).2 = false →
      (rem.foldl removeOne acc).1 = acc.1 ∧ acc.2 = false from fun h' => (h _ h').1
  induction rem with
  | nil => intro acc h; exact ⟨rfl, h⟩
  | cons r rs ih =>
    intro acc h
    simp only [List.foldl_cons] at h ⊢
    have ⟨h1, h2⟩ := ih _ h
    unfold removeOne at h1 h2 ⊢
    simp only [Bool.or_eq_false_iff, bne_eq_false_iff_eq] at h2
    refine ⟨?_, h2.1⟩
    rw [h1]
    exact List.filter_eq_self.mpr (List.length_filter_eq_length_iff.mp h2.2)

/-! ### The property theorems -/

/-- After `--add A --remove R` (no `--set`): a tag is present iff it was there or was added, and
    it is not in `R`.  Holds for every old tag list, duplicates included. -/
theorem add_remove_mem (old add rem : List Tag) (t : Tag) :
    t ∈ (changeTags old [] add rem).1 ↔ (t ∈ old ∨ t ∈ add) ∧ t ∉ rem := by
  simp [changeTags, removeTags_fst_mem, addTags_fst_mem]

/-- no tag of R remains -/
theorem no_removed_tag_left (old add rem : List Tag) :
    ∀ r ∈ rem, r ∉ (changeTags old [] add rem).1 := by
  intro r hr h; exact ((add_remove_mem old add rem r).mp h).2 hr

/-- every tag of A that is not in R is present -/
theorem added_tag_present (old add rem : List Tag) :
    ∀ a ∈ add, a ∉ rem → a ∈ (changeTags old [] add rem).1 := by
  intro a ha hr; exact (add_remove_mem old add rem a).mpr ⟨Or.inr ha, hr⟩

/-- `--set L` with a non-empty flattened list: tags are exactly L -/
theorem set_exact (old set add rem : List Tag) (h : set ≠ []) (h' : set ≠ [""]) :
    (changeTags old set add rem) = (set, true) := by
  simp [changeTags, h, h']

/-- if `changeTags` reports no change, the tags are untouched -/
theorem unchanged_same (old add rem : List Tag) :
    (changeTags old [] add rem).2 = false → (changeTags old [] add rem).1 = old := by
  simp only [changeTags, ne_eq, not_true_eq_false, if_false, Bool.or_eq_false_iff]
  rintro ⟨h1, h2⟩
  rw [removeTags_unchanged _ _ h2, addTags_unchanged _ _ h1]

/-- flattened CLI tags are never empty strings -/
theorem flatten_no_empty (ls : List (List Tag)) : "" ∉ flatten ls := by
  simp [flatten]

/-- CLI level, the full statement: whenever `runTag` accepts the options, the resulting tags
    satisfy the executable specification `specOK` (which is the reading of C25). -/
theorem runTag_spec (old : List Tag) (setL addL remL : List (List Tag)) (new : List Tag) (c : Bool)
    (h : runTag old setL addL remL = .ok new c) : specOK old setL addL remL new = true := by
  unfold runTag at h
  split at h
  · cases h
  · split at h
    · cases h
    · rename_i h1 h2
      injection h with hn hc
      unfold specOK
      by_cases hs : setL = []
      · -- add/remove path
        subst hn
        simp only [hs, ne_eq, not_true_eq_false, false_and, if_false, flatten, List.flatten_nil,
          List.filter_nil]
        have key := add_remove_mem old (flatten addL) (flatten remL)
        simp only [flatten] at key
        simp only [Bool.and_eq_true, List.all_eq_true, Bool.or_eq_true, decide_eq_true_eq,
          Bool.not_eq_true', decide_eq_false_iff_not]
        refine ⟨⟨⟨?_, ?_⟩, ?_⟩, ?_⟩
        · intro a ha
          by_cases hr : a ∈ List.filter (· ≠ "") remL.flatten
          · exact Or.inl (decide_eq_true hr)
          · exact Or.inr ((key a).mpr ⟨Or.inr ha, hr⟩)
        · intro r hr hmem; exact ((key r).mp hmem).2 hr
        · intro t ht; exact ((key t).mp ht).1.imp id decide_eq_true
        · intro t ht
          by_cases hr : t ∈ List.filter (· ≠ "") remL.flatten
          · exact Or.inl (decide_eq_true hr)
          · exact Or.inr ((key t).mpr ⟨Or.inl ht, hr⟩)
      · simp only [ne_eq, hs, not_false_eq_true, true_and, if_true] at hn ⊢
        by_cases he : flatten setL = []
        · simp only [he, if_true] at hn
          simp [changeTags] at hn
          simp [he, hn]
        · simp only [he, if_false] at hn
          have hne : flatten setL ≠ [""] := by
            intro hc
            have := flatten_no_empty setL
            rw [hc] at this; simp at this
          rw [set_exact old _ _ _ he hne] at hn
          simp [← hn]

/-- T1 (regenerated from cmd/restic/cmd_tag.go on every run): in `changeTags` the new snapshot is
    saved before the old one is removed, and both calls are still there. -/
theorem save_before_remove :
    (Restic.Gen.changeTags_calls.idxOf "data.SaveSnapshot") < (Restic.Gen.changeTags_calls.idxOf "repo.RemoveUnpacked")
    ∧ "repo.RemoveUnpacked" ∈ Restic.Gen.changeTags_calls := by decide

/-! ### Non-vacuity: concrete non-trivial instances -/

example : (changeTags ["a", "a", "b"] [] ["c"] ["a"]).1 = ["b", "c"] := by decide
example : runTag ["a", "a"] [] [] [["a"]] = .ok [] true := by decide
example : runTag ["x"] [[""]] [] [] = .ok [] true := by decide
example : runTag ["x"] [["NL", "CH"]] [] [] = .ok ["NL", "CH"] true := by decide

end Restic.Props.C25
