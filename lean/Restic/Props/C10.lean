import Restic.Proofs.C10_Plan
import Restic.Proofs.C10_Exact
import Restic.Proofs.C10_Stats
import Restic.Props.C09
/-!
# C10 — A full prune leaves no waste and reports accurate statistics

Theorems over `Restic.Model.Prune` (the same transcription as C09).
-/
namespace Restic.Props.C10
open Restic.Model.Repo Restic.Model.Prune
open Restic.Proofs.C09Select Restic.Proofs.C09Plan Restic.Proofs.C10Plan Restic.Proofs.C10Account Restic.Proofs.C10Exact

/-! ## The repack loop is forced under full-prune options -/

/-- the `switch` of the repack loop of `decidePackAction` for one candidate (transcribed with its
    inputs explicit): `true` = repack -/
def repackDecision (sizeRepackSoFar maxRepackBytes remainingUnused maxUnusedAfter packBytes target : Nat)
    (isData mustCompress : Bool) : Bool :=
  let reachedUnusedSizeAfter := decide (remainingUnused < maxUnusedAfter)
  let reachedRepackSize := decide (sizeRepackSoFar + packBytes ≥ maxRepackBytes)
  let packIsLargeEnough := decide (packBytes ≥ target)
  if reachedRepackSize then false
  else if !isData || mustCompress then true
  else if reachedUnusedSizeAfter && packIsLargeEnough then false
  else true

/-- with `--max-unused 0` (limit 0) and no repack limit (2^64-1, never reached by 64-bit sizes)
    every candidate is repacked, whatever the sort order: the choice oracle is forced -/
theorem forced_repack (sizeRepackSoFar remainingUnused packBytes target : Nat) (isData mustCompress : Bool)
    (h64 : sizeRepackSoFar + packBytes < 2 ^ 64 - 1) :
    repackDecision sizeRepackSoFar (2 ^ 64 - 1) remainingUnused 0 packBytes target isData mustCompress = true := by
  unfold repackDecision
  have h1 : decide (sizeRepackSoFar + packBytes ≥ 2 ^ 64 - 1) = false := by
    rw [decide_eq_false_iff_not]; omega
  simp [h1]

/-! ## No waste -/

/-- **full_plan_no_waste**: under full-prune options (every candidate repacked, no
    `--repack-cacheable-only`) every pack file that is listed and indexed is deleted, repacked or
    consists of used blobs only (each counted once): no pack with unused or superfluous duplicate
    blobs survives. -/
theorem full_plan_no_waste (o : Opts) (used : List BlobH) (idx : List PB) (packs : List (ID × Nat)) (pl : Plan)
    (hc : o.repackCacheableOnly = false)
    (h : planPrune o (fun _ => true) used idx packs = .ok pl) :
    ∃ pi, packInfoFromIndex used idx {} = .ok pi ∧
      ∀ id ∈ packs.map (·.1), ∀ info, pi.ip id = some info →
        id ∈ pl.remove ∨ id ∈ pl.repack ∨ info.unusedBlobs = 0 := by
  unfold planPrune planPruneG at h
  split at h
  · exact absurd h (by simp)
  split at h
  · exact absurd h (by simp)
  split at h
  · exact absurd h (by simp)
  split at h
  · exact absurd h (by simp)
  rename_i pi hpi
  split at h
  · exact absurd h (by simp)
  rename_i pl0 hpl0
  injection h with h
  subst h
  exact ⟨pi, hpi, decide_full_no_waste (pl := pl0) hc hpl0⟩

/-- **select_exactly_one**: after `packInfoFromIndex`, with `marks` the ghost record of the entries
    the duplicate pass switched to "used": `unusedBlobs` of every pack counts exactly its entries
    that are neither the only entry of a used blob nor a selected duplicate; every used blob has
    exactly one entry counted as used; unused blobs have none. -/
theorem select_exactly_one (used : List BlobH) (idx : List PB) (pi : PackInfoResult)
    (h : packInfoFromIndex used idx {} = .ok pi) :
    pi.marks.length = idx.length ∧
    (∀ p, ((pi.ip p).getD {}).unusedBlobs = (idx.zip pi.marks).countP (unmarkedP (countPass used idx).f p)) ∧
    (∀ b ∈ used, (idx.zip pi.marks).countP (usedMark (countPass used idx).f b) = 1) ∧
    (∀ b, b ∉ used → (idx.zip pi.marks).countP (usedMark (countPass used idx).f b) = 0) :=
  let a := packInfo_account (st := {}) h rfl
  ⟨a.len, a.unused, a.one, a.zero⟩

/-- **full_prune_exact** (index part of C10, at plan level): under full-prune options (every
    candidate repacked, no `--repack-cacheable-only`), for every index order, listing and
    duplicate constellation, the index after the prune — the entries of the packs that stay plus
    one entry per repacked blob — lists (i) only blobs reachable from snapshots, (ii) every such
    blob exactly once, and (iv) no entry for a missing pack. (iii) is `unindexed_removed` +
    `C09.plan_ok`: packs without index entry are deleted first.) -/
theorem full_prune_exact (o : Opts) (used : List BlobH) (idx : List PB) (packs : List (ID × Nat)) (pl : Plan)
    (hnd : used.Nodup) (hc : o.repackCacheableOnly = false)
    (h : planPrune o (fun _ => true) used idx packs = .ok pl) :
    (∀ b ∈ afterBlobs pl idx, b ∈ used) ∧ (∀ b ∈ used, (afterBlobs pl idx).count b = 1) ∧
    (∀ x ∈ idx, keptB pl x.pack = true → x.pack ∈ packs.map (·.1)) :=
  Restic.Proofs.C10Exact.full_prune_exact hnd hc h

/-- link to the executable statement evaluated by the driver on the real plan -/
theorem full_plan_ok (o : Opts) (used : List BlobH) (idx : List PB) (packs : List (ID × Nat)) (pl : Plan)
    (hnd : used.Nodup) (hc : o.repackCacheableOnly = false)
    (h : planPrune o (fun _ => true) used idx packs = .ok pl) : fullPlanOK used idx packs pl = true := by
  obtain ⟨h1, h2, h3⟩ := full_prune_exact o used idx packs pl hnd hc h
  unfold fullPlanOK
  simp only [Bool.and_eq_true, List.all_eq_true, List.contains_eq_mem, decide_eq_true_eq, Bool.or_eq_true,
    Bool.not_eq_true', List.any_eq_true]
  refine ⟨⟨h1, h2⟩, ?_⟩
  intro x hx
  by_cases hk : keptB pl x.pack = true
  · right
    obtain ⟨y, hy, hyx⟩ := List.mem_map.mp (h3 x hx hk)
    exact ⟨y, hy, hyx⟩
  · left; simpa using hk

/-- unindexed packs are deleted first, whatever the options -/
theorem unindexed_removed (o : Opts) (choice : ID → Bool) (used : List BlobH) (idx : List PB)
    (packs : List (ID × Nat)) (pl : Plan) (hN : (packs.map (·.1)).Nodup)
    (h : planPrune o choice used idx packs = .ok pl) :
    ∀ p ∈ pl.removeFirst, ∀ pb ∈ idx, pb.pack ≠ p := by
  have := Restic.Props.C09.plan_ok o choice used idx packs pl hN h
  unfold planOK at this
  simp only [Bool.and_eq_true, List.all_eq_true, Bool.not_eq_true', List.any_eq_false, decide_eq_true_eq] at this
  exact fun p hp pb hpb => this.1.1 p hp pb hpb

/-! ## Statistics -/

/-- **stats_blobs_exact** (part of `stats_exact`): for every option set and oracle, the reported
    number of used blobs is the number of blobs reachable from snapshots, the reported number of
    unused blobs is the number of index entries of unreachable blobs, the total is the number of
    index entries, and duplicates are the rest (each used blob counted once, its further copies as
    duplicates) — through counter saturation and for every index order. -/
theorem stats_blobs_exact (o : Opts) (choice : ID → Bool) (used : List BlobH) (idx : List PB)
    (packs : List (ID × Nat)) (pl : Plan) (hnd : used.Nodup) (h : planPrune o choice used idx packs = .ok pl) :
    pl.stats.bUsed = used.length ∧
    pl.stats.bUnused = idx.countP (fun x => !(used.contains x.e.blob)) ∧
    pl.stats.bTotal = idx.length ∧
    pl.stats.bUsed + pl.stats.bDup + pl.stats.bUnused = idx.length :=
  Restic.Proofs.C10Stats.plan_blob_stats hnd h


/-- the derived statistics fields are exactly the sums / differences the code assigns -/
theorem totals_identities (st : Stats) :
    let t := totals st
    t.bTotal = st.bUsed + st.bUnused + st.bDup ∧
    t.bRemoveTotal = st.bRemove + st.bRepackrm ∧
    t.bRemain = t.bTotal - t.bRemoveTotal ∧
    t.sTotal = st.sUsed + st.sDup + st.sUnused + st.sUnref ∧
    t.sRemoveTotal = st.sRemove + st.sRepackrm + st.sUnref ∧
    t.sRemain = t.sTotal - t.sRemoveTotal ∧
    t.sRemainUnused = st.sDup + st.sUnused - st.sRemove - st.sRepackrm ∧
    t.pTotal = st.pUsed + st.pPartly + st.pUnused + st.pUnref ∧
    t.pRemoveTotal = st.pUnref + st.pRemove := by
  simp [totals]

/-! ## Non-vacuity -/

section Examples
private def bD (s : String) : BlobH := { tpe := .data, id := s }
private def en (p : ID) (b : String) (len : Nat) : PB := { pack := p, e := { blob := bD b, off := 0, len := len, unc := true } }
/-- P: b (duplicate) + unused u1; Q: b + unused u2 + c; R: d only (kept). Used: b, c, d. -/
private def exIdx : List PB := [en "P" "b" 100, en "P" "u1" 50, en "Q" "b" 100, en "Q" "u2" 70, en "Q" "c" 30, en "R" "d" 10]
private def exPacks : List (ID × Nat) := [("P", 36 + 2 * 37 + 150), ("Q", 36 + 3 * 37 + 200), ("R", 36 + 37 + 10), ("Z", 99)]
private def exOpts : Opts := { maxUnusedZero := true, smallPackBytes := 1 }

example :
    (match planPrune exOpts (fun _ => true) [bD "b", bD "c", bD "d"] exIdx exPacks with
     | .ok pl => pl.removeFirst == ["Z"] && pl.remove == ["P"] && pl.repack == ["Q"] &&
                 afterBlobs pl exIdx == [bD "d", bD "b", bD "c"] &&
                 pl.stats.bUsed == 3 && pl.stats.bDup == 1 && pl.stats.bUnused == 2 && pl.stats.bTotal == 6 &&
                 pl.stats.bRemain == 3 && pl.stats.sUnref == 99 && pl.stats.pKeep == 1
     | .error _ => false) = true := by decide
end Examples

end Restic.Props.C10
