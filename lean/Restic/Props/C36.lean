import Restic.Model.LocalFS
import Restic.Gen.Source
/-!
# C36 — The local backend never exposes a partially written file

`save_crash_safe`, `save_kill_safe`, `save_durable` are theorems about the durability model of
`Restic.Model.LocalFS` **instantiated with the step order regenerated from the current source**
(`Restic.Gen.localSave_calls`): the two proof obligations "data fsynced before rename" and "rename
before directory fsync" are discharged by `decide` on the regenerated list (`gen_allExecsSafe`,
`gen_durableAtEnd`, `gen_order`), everything else is a general lemma over the model
(`abs_sound`, valid for every step list, every data, every crash choice).
-/
namespace Restic.Props.C36
open Restic.Model.LocalFS

/-! ## general lemmas over the model (any step list) -/

/-- the abstract state describes the concrete one (for a save of `data`) -/
structure R (data : Bytes) (a : Abs) (s : St) : Prop where
  hEmpty : a.content = .empty → s.vdata = [] ∧ s.pos = 0
  hZero : a.content = .zeroed → s.vdata = List.replicate data.length 0 ∧ s.pos = 0
  hFull : a.content = .full → s.vdata = data
  hDirty : a.dirty = false → s.dirty = false
  hTmp : a.tmp = s.tmp
  hNotRen : a.renamed = false → s.fin = false ∧ s.dFin = false ∧ MetaOp.renameTmpFinal ∉ s.pending
  hRen : a.renamed = true → s.vdata = data ∧ s.dirty = false
  hDur : a.renameDurable = true → s.dFin = true
  hRenFin : a.renamed = true → s.fin = true
  hDir : s.pending.foldl applyMeta (s.dTmp, s.dFin) = (s.tmp, s.fin)

theorem fold_fin_true (l : List MetaOp) : ∀ (t : Bool), (l.foldl applyMeta (t, true)).2 = true := by
  induction l with
  | nil => intro t; rfl
  | cons x xs ih =>
    intro t
    cases x <;> simp only [List.foldl_cons, applyMeta]
    · exact ih _
    · cases t <;> simp [ih]
    · exact ih _

theorem fold_fin_of (l : List MetaOp) : ∀ (t f : Bool), (l.foldl applyMeta (t, f)).2 = true →
    f = true ∨ MetaOp.renameTmpFinal ∈ l := by
  induction l with
  | nil => intro t f h; exact Or.inl h
  | cons x xs ih =>
    intro t f h
    cases x <;> simp only [List.foldl_cons, applyMeta] at h
    · rcases ih _ _ h with h1 | h1
      · exact Or.inl h1
      · exact Or.inr (List.mem_cons_of_mem _ h1)
    · exact Or.inr List.mem_cons_self
    · rcases ih _ _ h with h1 | h1
      · exact Or.inl h1
      · exact Or.inr (List.mem_cons_of_mem _ h1)

theorem overwrite_zero (data : Bytes) : overwrite (List.replicate data.length 0) 0 data = data := by
  simp [overwrite]

theorem overwrite_nil (data : Bytes) : overwrite [] 0 data = data := by
  simp [overwrite]

/-- one abstract step that is accepted is simulated by the concrete step -/
theorem absStep_sound (data : Bytes) (n : Nat) (a a' : Abs) (s : St) (st : Step)
    (h : absStep a st = some a') (r : R data a s) : R data a' (apply s (conc data n st)) := by
  obtain ⟨hE, hZ, hF, hD, hT, hN, hRn, hDu, hRF, hDi⟩ := r
  cases st with
  | mkdir => simp only [absStep, Option.some.injEq] at h; subst h; exact ⟨hE, hZ, hF, hD, hT, hN, hRn, hDu, hRF, hDi⟩
  | close => simp only [absStep, Option.some.injEq] at h; subst h; exact ⟨hE, hZ, hF, hD, hT, hN, hRn, hDu, hRF, hDi⟩
  | chmod => simp only [absStep, Option.some.injEq] at h; subst h; exact ⟨hE, hZ, hF, hD, hT, hN, hRn, hDu, hRF, hDi⟩
  | create =>
    simp only [absStep] at h
    split at h
    · cases h
    · rename_i hc
      simp only [Bool.or_eq_true, not_or, Bool.not_eq_true] at hc
      cases h
      have hn := hN hc.2
      refine ⟨fun _ => ⟨rfl, rfl⟩, fun h => (by cases h), fun h => (by cases h), fun _ => rfl, rfl, fun _ => ?_, fun h => ?_, fun h => ?_, fun h => ?_, ?_⟩
      · simp only [apply, conc]
        refine ⟨hn.1, hn.2.1, ?_⟩
        simp [hn.2.2]
      · simp only at h; rw [hc.2] at h; cases h
      · simp only [apply, conc]; exact hDu h
      · simp only at h; rw [hc.2] at h; cases h
      · simp only [apply, conc, List.foldl_append, hDi, List.foldl_cons, List.foldl_nil, applyMeta]
  | prealloc =>
    simp only [absStep] at h
    split at h
    · cases h
    · rename_i hc
      have hc' : a.renamed = false := by simpa using hc
      cases h
      refine ⟨fun h => ?_, fun h => ?_, fun h => ?_, fun h => (by cases h), hT, fun _ => hN hc', fun h => ?_, hDu, hRF, hDi⟩
      · simp only at h; split at h
        · cases h
        · split at h <;> cases h
      · simp only at h
        simp only [apply, conc]
        split at h
        · rename_i he; obtain ⟨h1, h2⟩ := hE he; simp [h1, h2]
        · split at h
          · rename_i hz; obtain ⟨h1, h2⟩ := hZ hz; simp [h1, h2]
          · cases h
      · simp only at h; split at h
        · cases h
        · split at h <;> cases h
      · simp only at h; rw [hc'] at h; cases h
  | write =>
    simp only [absStep] at h
    split at h
    · cases h
    · rename_i hc
      have hc' : a.renamed = false := by simpa using hc
      cases h
      refine ⟨fun h => ?_, fun h => ?_, fun h => ?_, fun h => (by cases h), hT, fun _ => hN hc', fun h => ?_, hDu, hRF, hDi⟩
      · simp only at h; split at h <;> cases h
      · simp only at h; split at h <;> cases h
      · simp only at h
        simp only [apply, conc]
        split at h
        · rename_i he
          rcases he with he | he
          · obtain ⟨h1, h2⟩ := hE he; rw [h1, h2]; exact overwrite_nil data
          · obtain ⟨h1, h2⟩ := hZ he; rw [h1, h2]; exact overwrite_zero data
        · cases h
      · simp only at h; rw [hc'] at h; cases h
  | writePartial =>
    simp only [absStep] at h
    split at h
    · cases h
    · rename_i hc
      have hc' : a.renamed = false := by simpa using hc
      cases h
      exact ⟨fun h => (by cases h), fun h => (by cases h), fun h => (by cases h), fun h => (by cases h), hT,
        fun _ => hN hc', fun h => (by simp only at h; rw [hc'] at h; cases h), hDu, hRF, hDi⟩
  | fsyncFile =>
    simp only [absStep, Option.some.injEq] at h; subst h
    exact ⟨hE, hZ, hF, fun _ => rfl, hT, hN, fun h => ⟨(hRn h).1, rfl⟩, hDu, hRF, hDi⟩
  | rename =>
    simp only [absStep] at h
    split at h
    · rename_i ht
      have ht' : s.tmp = false := by rw [← hT]; simpa using ht
      cases h
      simp only [apply, conc, ht', Bool.false_eq_true, if_false]
      exact ⟨hE, hZ, hF, hD, hT, hN, hRn, hDu, hRF, hDi⟩
    · rename_i ht
      have ht' : s.tmp = true := by rw [← hT]; simpa using ht
      split at h
      · rename_i hc
        cases h
        simp only [apply, conc, ht', if_true]
        have hfull := hF hc.1
        have hclean := hD hc.2
        refine ⟨hE, hZ, hF, hD, rfl, fun h => (by cases h), fun _ => ⟨hfull, hclean⟩, hDu, fun _ => rfl, ?_⟩
        simp only [List.foldl_append, hDi, List.foldl_cons, List.foldl_nil, applyMeta, ht', if_true]
      · cases h
  | fsyncDir =>
    simp only [absStep, Option.some.injEq] at h; subst h
    simp only [apply, conc]
    refine ⟨hE, hZ, hF, hD, hT, fun h => ?_, hRn, fun h => ?_, hRF, ?_⟩
    · obtain ⟨h1, h2, h3⟩ := hN h
      refine ⟨h1, ?_, by simp⟩
      rw [hDi]; exact h1
    · simp only at h
      rw [hDi]; exact hRF h
    · simp only [List.foldl_nil, hDi]
  | unlinkTmp =>
    simp only [absStep, Option.some.injEq] at h; subst h
    simp only [apply, conc]
    split
    · rename_i ht
      refine ⟨hE, hZ, hF, hD, rfl, fun h => ?_, hRn, hDu, hRF, ?_⟩
      · obtain ⟨h1, h2, h3⟩ := hN h
        exact ⟨h1, h2, by simp [h3]⟩
      · simp only [List.foldl_append, hDi, List.foldl_cons, List.foldl_nil, applyMeta]
    · rename_i ht
      exact ⟨hE, hZ, hF, hD, by simpa using ht, hN, hRn, hDu, hRF, hDi⟩

theorem absRun_sound (data : Bytes) (n : Nat) : ∀ (steps : List Step) (a a' : Abs) (s : St),
    absRun a steps = some a' → R data a s → R data a' (run s (steps.map (conc data n))) := by
  intro steps
  induction steps with
  | nil => intro a a' s h r; simp only [absRun, Option.some.injEq] at h; subst h; exact r
  | cons st rest ih =>
    intro a a' s h r
    simp only [absRun] at h
    split at h
    · cases h
    · rename_i a1 h1
      simp only [List.map_cons, run, List.foldl_cons]
      exact ih a1 a' _ h (absStep_sound data n a a1 s st h1 r)

theorem R_init (data : Bytes) : R data {} {} :=
  ⟨fun _ => ⟨rfl, rfl⟩, fun h => (by cases h), fun h => (by cases h), fun _ => rfl, rfl,
   fun _ => ⟨rfl, rfl, by simp⟩, fun h => (by cases h), fun h => (by cases h), fun h => (by cases h), rfl⟩

/-- a process kill in a state described by an accepted abstract run shows the previous state or
    the complete data under the final name -/
theorem kill_ok (data : Bytes) (a : Abs) (s : St) (r : R data a s) (prev : Option Bytes) :
    specOK prev data (killView s) = true := by
  unfold specOK finalContent killView
  cases hr : a.renamed with
  | false => simp [(r.hNotRen hr).1]
  | true => simp [r.hRenFin hr, (r.hRen hr).1]

/-- ... and so does a power loss, for every choice of the persisted prefix of directory
    operations and every content of un-fsynced data -/
theorem crash_ok (data : Bytes) (a : Abs) (s : St) (r : R data a s) (prev : Option Bytes) (k : Nat) (g : Bytes) :
    specOK prev data (crashView s k g) = true := by
  unfold specOK finalContent crashView
  cases hr : a.renamed with
  | false =>
    obtain ⟨_, h2, h3⟩ := r.hNotRen hr
    have : (List.foldl applyMeta (s.dTmp, s.dFin) (List.take k s.pending)).2 = false := by
      cases hf : (List.foldl applyMeta (s.dTmp, s.dFin) (List.take k s.pending)).2 with
      | false => rfl
      | true =>
        rcases fold_fin_of _ _ _ hf with h4 | h4
        · rw [h2] at h4; cases h4
        · exact absurd (List.mem_of_mem_take h4) h3
    simp [this]
  | true =>
    obtain ⟨h1, h2⟩ := r.hRen hr
    simp only [h2, Bool.false_eq_true, if_false, h1]
    cases (List.foldl applyMeta (s.dTmp, s.dFin) (List.take k s.pending)).2 <;> simp

/-- once the rename is durable every crash shows the complete data -/
theorem crash_durable (data : Bytes) (a : Abs) (s : St) (r : R data a s) (hd : a.renameDurable = true)
    (hr : a.renamed = true) (prev : Option Bytes) (k : Nat) (g : Bytes) :
    finalContent prev (crashView s k g) = some data := by
  unfold finalContent crashView
  obtain ⟨h1, h2⟩ := r.hRen hr
  have h3 := r.hDur hd
  simp only [h2, Bool.false_eq_true, if_false, h1, h3, fold_fin_true, if_true]

/-- **General lemma.** For *any* main path and cleanup whose executions pass the abstract check
    ("content complete and fsynced when the rename is issued, no write afterwards"), every
    execution — every success prefix, a failure at every step with any partial write, every prefix
    of the cleanup — is safe at every crash point under both crash semantics. -/
theorem crash_safe_of_safe_order (main cleanup : List Step) (hs : allExecsSafe main cleanup = true)
    (data : Bytes) (prev : Option Bytes) (k j n : Nat) (failed : Bool)
    (hk : k ≤ main.length) (hj : j ≤ cleanup.length) :
    let s := run {} ((execSteps main cleanup k failed j).map (conc data n))
    specOK prev data (killView s) = true ∧ ∀ kk g, specOK prev data (crashView s kk g) = true := by
  intro s
  have hk' := List.all_eq_true.mp hs k (List.mem_range.mpr (Nat.lt_succ_of_le hk))
  simp only [Bool.and_eq_true] at hk'
  have hsome : (absRun {} (execSteps main cleanup k failed j)).isSome = true := by
    cases failed with
    | false =>
      have : execSteps main cleanup k false j = execSteps main cleanup k false 0 := by simp [execSteps]
      rw [this]; exact hk'.1
    | true => exact List.all_eq_true.mp hk'.2 j (List.mem_range.mpr (Nat.lt_succ_of_le hj))
  obtain ⟨a, ha⟩ := Option.isSome_iff_exists.mp hsome
  have r := absRun_sound data n _ _ a _ ha (R_init data)
  exact ⟨kill_ok data a s r prev, fun kk g => crash_ok data a s r prev kk g⟩

theorem durable_of_order (main : List Step) (hd : durableAtEnd main = true) (data : Bytes) (prev : Option Bytes)
    (n kk : Nat) (g : Bytes) :
    finalContent prev (crashView (run {} (main.map (conc data n))) kk g) = some data := by
  unfold durableAtEnd at hd
  split at hd
  · rename_i a ha
    simp only [Bool.and_eq_true] at hd
    have r := absRun_sound data n _ _ a _ ha (R_init data)
    exact crash_durable data a _ r hd.1.1.1 hd.1.1.2 prev kk g
  · cases hd

/-! ## instantiation with the step order regenerated from the current source (tie T1) -/

def genMain : List Step := mainSteps Restic.Gen.localSave_calls
def genCleanup : List Step := cleanupSteps Restic.Gen.localSave_calls

/-- the regenerated list contains the steps the theorems talk about (so they are not vacuous; a
    renamed call that `classify` no longer recognises breaks this) -/
theorem gen_has_steps :
    Step.create ∈ genMain ∧ Step.write ∈ genMain ∧ Step.fsyncFile ∈ genMain ∧ Step.rename ∈ genMain ∧
    Step.fsyncDir ∈ genMain ∧ Step.unlinkTmp ∈ genCleanup := by decide

/-- **Closed world.** Every call in the regenerated body of `Local.Save` is either one of the
    modelled file system steps or a call known not to touch the file system. A new helper, an
    `os.OpenFile` / `os.WriteFile` / `os.Create` of the final name, an early-return fast path
    through some other function … is an unknown call and breaks this theorem: the final name may
    only be produced by `os.Rename` of a file made by `tempFile`. -/
theorem gen_calls_known : allCallsKnown Restic.Gen.localSave_calls = true := by decide

/-- ... and both `tempFile` calls lie before the rename, there is exactly one rename -/
theorem gen_single_rename : (Restic.Gen.localSave_calls.filter (· == "os.Rename")).length = 1 := by decide

/-- proof obligation 1 on the regenerated order: **data fsynced before rename** (for every
    execution including failures and the deferred cleanup) -/
theorem gen_allExecsSafe : allExecsSafe genMain genCleanup = true := by decide

/-- proof obligation 2 on the regenerated order: **rename before directory fsync** -/
theorem gen_durableAtEnd : durableAtEnd genMain = true := by decide

/-- the same two obligations as index positions in the raw regenerated call list -/
theorem gen_order :
    Restic.Gen.localSave_calls.idxOf "io.Copy" < Restic.Gen.localSave_calls.idxOf "f.Sync" ∧
    Restic.Gen.localSave_calls.idxOf "f.Sync" < Restic.Gen.localSave_calls.idxOf "os.Rename" ∧
    Restic.Gen.localSave_calls.idxOf "os.Rename" < Restic.Gen.localSave_calls.idxOf "fsyncDir" ∧
    Restic.Gen.localSave_calls.idxOf "fsyncDir" < Restic.Gen.localSave_calls.length := by decide

/-- **save_crash_safe**: at every crash point of `Local.Save` (current step order), under
    power-loss semantics, a file under its final name shows what was there before or the
    complete, final content. -/
theorem save_crash_safe (data : Bytes) (prev : Option Bytes) (k j n : Nat) (failed : Bool)
    (hk : k ≤ genMain.length) (hj : j ≤ genCleanup.length) (kk : Nat) (g : Bytes) :
    specOK prev data (crashView (run {} ((execSteps genMain genCleanup k failed j).map (conc data n))) kk g) = true :=
  (crash_safe_of_safe_order genMain genCleanup gen_allExecsSafe data prev k j n failed hk hj).2 kk g

/-- the same under process-kill semantics (what the correspondence runs exercise) -/
theorem save_kill_safe (data : Bytes) (prev : Option Bytes) (k j n : Nat) (failed : Bool)
    (hk : k ≤ genMain.length) (hj : j ≤ genCleanup.length) :
    specOK prev data (killView (run {} ((execSteps genMain genCleanup k failed j).map (conc data n)))) = true :=
  (crash_safe_of_safe_order genMain genCleanup gen_allExecsSafe data prev k j n failed hk hj).1

/-- **save_durable**: after `Save` returned successfully no crash loses or damages the file -/
theorem save_durable (data : Bytes) (prev : Option Bytes) (kk : Nat) (g : Bytes) :
    finalContent prev (crashView (run {} (genMain.map (conc data 0))) kk g) = some data :=
  durable_of_order genMain gen_durableAtEnd data prev 0 kk g

/-- General lemma: a name that contains, anywhere, a character that is no hex digit never parses
    as an ID — for every base name, every infix with such a character and every suffix. -/
theorem infix_not_id (base inf suffix : List Char) (h : inf.any (fun c => !isHex c) = true) :
    parsesAsID (tempName base inf suffix) = false := by
  unfold parsesAsID tempName
  obtain ⟨c, hc, hx⟩ := List.any_eq_true.mp h
  have : (base ++ inf ++ suffix).all isHex = false := by
    rw [List.all_eq_false]
    exact ⟨c, by simp [hc], by simpa using hx⟩
  rw [this]; simp

/-- the infix of temporary names in the current source (regenerated `literals` fact) -/
def genInfix : List Char := (tmpInfixOf Restic.Gen.localSave_literals).getD []

/-- the regenerated infix exists and contains a character that is no hex digit (tie T1) -/
theorem gen_infix_not_hex :
    (tmpInfixOf Restic.Gen.localSave_literals).isSome = true ∧ genInfix.any (fun c => !isHex c) = true := by decide

/-- **tmp_not_listed**: a name made by `os.CreateTemp(dir, base + <infix of the current source>)`
    never parses as an ID, so `Repository.List` skips it — for every base name and every random
    suffix. -/
theorem tmp_not_listed (base suffix : List Char) : parsesAsID (tempName base genInfix suffix) = false :=
  infix_not_id base genInfix suffix gen_infix_not_hex.2

/-! ## non-vacuity (examples) -/

/-- the regenerated main path really reaches the rename with full, fsynced content -/
example : (absRun {} genMain).map (fun a => (a.renamed, a.renameDurable, a.content)) = some (true, true, .full) := by decide

/-- an order with the rename before the file fsync is rejected by the check -/
example : allExecsSafe [.create, .write, .close, .rename, .fsyncFile, .fsyncDir] [.close, .unlinkTmp] = false := by decide

/-- ... and in the model that order has a crash point showing garbage under the final name -/
example : specOK none [1, 2, 3]
    (crashView (run {} ([Step.create, .write, .close, .rename].map (conc [1, 2, 3] 0))) 2 [7]) = false := by decide

/-- a fsyncDir before the rename is rejected by the durability obligation -/
example : durableAtEnd [.create, .write, .fsyncFile, .close, .fsyncDir, .rename, .chmod] = false := by decide

/-- concrete run of the regenerated order: killed after the partial write, the final name is
    still absent and the temporary file holds the partial data (over the preallocated zeros) -/
example : killView (run {} ((execSteps genMain genCleanup 2 true 0).map (conc [1, 2, 3] 2)))
    = { tmpC := some [1, 2, 0], finC := none } := by decide

end Restic.Props.C36
