import Restic.Proofs.C01_Main
import Restic.Proofs.C17_Loop
import Restic.Gen.Source
/-!
# C01 — Backup then restore reproduces the source tree exactly (composite)

Statement (properties.jsonl): restoring a snapshot made from a directory tree recreates every
backed-up entry with identical name, type, file content, symlink target, device number, permission
and special mode bits, modification time, ownership, extended attributes and hard-link grouping, for
every repository format version, compression mode, pack size and read/save concurrency.

Model (`Restic.Model.Backup`): the data path of `Archiver.save`/`saveFile` and of
`Restorer.RestoreTo` over an abstract tree (entries in traversal order): chunking (C17), the
content-addressed blob store with first-writer-wins, nodes with ordered content lists, the
hard-link index of the first pass, writing blobs at cumulative offsets, the second pass (special
files, hard links, metadata). Theorems:

* `restore_backup`: for every hash function, every lossless chunking, every well-formed tree,
  `restore (backup t)` succeeds and the observed result satisfies the executable statement
  `specOK t ·` (`≃`), OR the hash function has a collision (exhibited);
* `restore_cfg_indep`: the restored tree does not depend on the chunking / hash (the parts of the
  configuration that reach this model), up to collisions;
* component lemmas in `Restic.Proofs.C01`: `restore_inorder`, `restore_anyorder` (offsets, any write order), `saved_chunk_loads`
  (store), `hardlinkIndex_eq` (index maps every key to the first linked node), `observe_specOK`;
* `chunks_split_law`: restic's chunk loop (C17 `chunks_concat`) is a lossless chunking;
* T1: the two passes of `RestoreTo` enclose `restoreFiles`; `chmod` comes after `lchown` (so that
  setuid/setgid bits survive the ownership change); sockets are the only type `save` ignores.

PARTIAL. Below the model and covered only by the correspondence run: JSON tree encoding (C41),
tree traversal (C42), packs/index (C02/C44), AES/zstd, and the system calls (`mknod`, `lchown`,
`utimensat`, xattr calls). The file restorer writes blobs pack by pack, i.e. in an order that is not
the file order: `restore_backup` holds for EVERY write sequence that covers each blob of the file
(any order, repetitions allowed; `Restic.Proofs.C01.restore_anyorder`). Format version, compression, pack size and
concurrency do not occur in the model at all — that they do not matter is established by the
correspondence run only (18 configurations drawn per case).
-/
namespace Restic.Props.C01
open Restic.Model.Backup Restic.Proofs.C01

/-- **C01 on the model.** -/
theorem restore_backup {ID : Type} [DecidableEq ID] (hash : Bytes → ID) (split : Bytes → List Bytes)
    (hsplit : ∀ c, (split c).flatten = c) (t : List Item) (hwf : WF t) (order : Path → List Nat)
    (hord : ∀ a ∈ t, a.kind = .file → ∀ i, i < (split a.content).length → i ∈ order a.path) :
    (restore (backup hash split t).1 (backup hash split t).2 order = some (rsOf (t.filter (·.kind != .socket))) ∧
      specOK t (observe (rsOf (t.filter (·.kind != .socket)))) = true) ∨ Collision hash := by
  by_cases hall : ∀ c ∈ t.flatMap (chunksOf split),
      ((t.flatMap (chunksOf split)).foldl (Store.put hash) []).get (hash c) = some c
  · left
    refine ⟨?_, observe_specOK hwf⟩
    rw [backup_eq]
    unfold restore rsOf
    apply mapM'_map_map
    intro a ha
    have hat : a ∈ t := (List.mem_filter.mp ha).1
    have hns : a.kind ≠ .socket := by
      have := (List.mem_filter.mp ha).2
      simpa using this
    apply restoreNode_eq hash split hsplit _ _ order a hns (hord a hat)
    intro hk c hc
    apply hall
    apply List.mem_flatMap.mpr
    exact ⟨a, hat, by simp [chunksOf, hk, hc]⟩
  · right
    have : ∃ c, c ∈ t.flatMap (chunksOf split) ∧
        ((t.flatMap (chunksOf split)).foldl (Store.put hash) []).get (hash c) ≠ some c := by
      apply Classical.byContradiction
      intro hne
      apply hall
      intro c hc
      apply Classical.byContradiction
      intro h
      exact hne ⟨c, hc, h⟩
    obtain ⟨c, hc, hne⟩ := this
    rcases saved_chunk_loads hash _ c hc with h | h
    · exact absurd h hne
    · exact h

/-- the restored tree does not depend on how the files were chunked or hashed -/
theorem restore_cfg_indep {ID₁ ID₂ : Type} [DecidableEq ID₁] [DecidableEq ID₂]
    (hash₁ : Bytes → ID₁) (hash₂ : Bytes → ID₂) (split₁ split₂ : Bytes → List Bytes)
    (h₁ : ∀ c, (split₁ c).flatten = c) (h₂ : ∀ c, (split₂ c).flatten = c) (t : List Item) (hwf : WF t)
    (order₁ order₂ : Path → List Nat)
    (ho₁ : ∀ a ∈ t, a.kind = .file → ∀ i, i < (split₁ a.content).length → i ∈ order₁ a.path)
    (ho₂ : ∀ a ∈ t, a.kind = .file → ∀ i, i < (split₂ a.content).length → i ∈ order₂ a.path) :
    restore (backup hash₁ split₁ t).1 (backup hash₁ split₁ t).2 order₁ =
      restore (backup hash₂ split₂ t).1 (backup hash₂ split₂ t).2 order₂ ∨ Collision hash₁ ∨ Collision hash₂ := by
  rcases restore_backup hash₁ split₁ h₁ t hwf order₁ ho₁ with ⟨e1, _⟩ | c
  · rcases restore_backup hash₂ split₂ h₂ t hwf order₂ ho₂ with ⟨e2, _⟩ | c
    · left; rw [e1, e2]
    · right; right; exact c
  · right; left; exact c

/-- restic's chunk loop (C17) is a lossless chunking, whatever the splitter does -/
def splitOf {σ : Type} (sp : Restic.Model.Chunk.Splitter σ) (bufSize : Nat) (c : Bytes) : List Bytes :=
  match Restic.Model.Chunk.chunks sp bufSize c with
  | .ok cs => cs
  | _ => [c]

theorem chunks_split_law {σ : Type} (sp : Restic.Model.Chunk.Splitter σ) (bufSize : Nat) (c : Bytes) :
    (splitOf sp bufSize c).flatten = c := by
  unfold splitOf
  cases h : Restic.Model.Chunk.chunks sp bufSize c with
  | ok cs => exact (Restic.Props.C17.chunks_concat sp bufSize c cs h).1
  | _ => simp

/-! ### T1 -/

def callIdx (l : List String) (c : String) : Nat := l.findIdx (· == c)

/-- `RestoreTo`: first traversal, then the file contents, then the second traversal -/
theorem two_passes :
    callIdx Gen.RestoreTo_calls "res.traverseTree" < callIdx Gen.RestoreTo_calls "filerestorer.restoreFiles" ∧
    callIdx Gen.RestoreTo_calls "filerestorer.restoreFiles" < callIdx Gen.RestoreTo_calls "res.restoreHardlinkAt" ∧
    callIdx Gen.RestoreTo_calls "idx.Add" < callIdx Gen.RestoreTo_calls "filerestorer.restoreFiles" ∧
    Gen.RestoreTo_calls.getLast? = some "res.traverseTree" := by decide

/-- metadata order: ownership first, mode last (a chown clears setuid/setgid) -/
theorem chmod_after_lchown :
    callIdx Gen.nodeRestoreMetadata_calls "lchown" < callIdx Gen.nodeRestoreMetadata_calls "chmod" ∧
    callIdx Gen.nodeRestoreMetadata_calls "nodeRestoreExtendedAttributes" < callIdx Gen.nodeRestoreMetadata_calls "chmod" ∧
    callIdx Gen.nodeRestoreMetadata_calls "chmod" < Gen.nodeRestoreMetadata_calls.length := by decide

/-- the type switch of `Archiver.save`: regular, dir, socket (ignored), everything else -/
theorem save_type_switch :
    Gen.archiver_save_cases = ["fi.Mode.IsRegular()", "fi.Mode.IsDir()", "fi.Mode&os.ModeSocket > 0", "default"] := by decide

/-! ### non-vacuity -/

def m0 : Meta := { mode := 0o644, uid := 1000, gid := 1000, mtimeSec := 1700000000, mtimeNsec := 5, xattrs := [([117], [1])] }

/-- a tree with a directory, two names of one inode, a single file, a symlink, a device, a socket -/
def tEx : List Item :=
  [ { path := [[100]], kind := .dir, md := m0, content := [], target := [], rdev := 0, dev := 1, ino := 10, nlink := 2 },
    { path := [[100], [97]], kind := .file, md := m0, content := [1, 2, 3, 4, 5], target := [], rdev := 0, dev := 1, ino := 11, nlink := 2 },
    { path := [[100], [98]], kind := .file, md := m0, content := [1, 2, 3, 4, 5], target := [], rdev := 0, dev := 1, ino := 11, nlink := 2 },
    { path := [[100], [99]], kind := .file, md := { m0 with mode := 0o4755 }, content := [9], target := [], rdev := 0, dev := 1, ino := 12, nlink := 1 },
    { path := [[108]], kind := .symlink, md := m0, content := [], target := [255, 10], rdev := 0, dev := 1, ino := 13, nlink := 1 },
    { path := [[110]], kind := .chardev, md := m0, content := [], target := [], rdev := 259, dev := 1, ino := 14, nlink := 1 },
    { path := [[115]], kind := .socket, md := m0, content := [], target := [], rdev := 0, dev := 1, ino := 15, nlink := 1 } ]

/-- chunks of two bytes -/
def split2 : Bytes → List Bytes
  | [] => []
  | [a] => [[a]]
  | a :: b :: r => [a, b] :: split2 r

/-- the hypotheses of `restore_backup` are satisfiable by this non-trivial tree -/
example : WF tEx ∧ (∀ c, (split2 c).flatten = c) := by
  refine ⟨⟨by decide, by decide, by decide⟩, ?_⟩
  intro c
  induction c using split2.induct with
  | case1 => rfl
  | case2 a => rfl
  | case3 a b r ih => simp [split2, ih]

/-- the model really runs: with the identity as (collision-free) hash the example tree comes back,
    the second name as a hard link, the socket left out -/
example : (restore (backup (ID := Bytes) id split2 tEx).1 (backup (ID := Bytes) id split2 tEx).2 (fun _ => [0, 1, 2])).map
    (fun rs => specOK tEx (observe rs)) = some true := by decide

/-- the executable statement is not trivially true: a wrong mtime, a lost hard link, a lost entry -/
example : specOK tEx (tEx.filter (·.kind != .socket)) = true ∧
    specOK tEx ((tEx.filter (·.kind != .socket)).map fun a => { a with md := { a.md with mtimeSec := -2147483648 } }) = false ∧
    specOK tEx ((tEx.filter (·.kind != .socket)).map fun a => { a with ino := a.path.length + a.content.length + (a.path.getLast?.getD []).length * 7 + (a.path.getLast?.getD [0])[0]!.toNat }) = false ∧
    specOK tEx (tEx.filter (·.kind == .file)) = false := by decide

end Restic.Props.C01
