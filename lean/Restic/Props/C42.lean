import Restic.Model.Traverse
import Restic.Gen.Source
/-!
# C42 — Traversals visit exactly the reachable trees and blobs

Theorems about the transition system `Restic.Model.Traverse.step` (transcription of
`StreamTrees` / `filterTrees` / `loadTreeWorker` / `subtreesCollector`, with the consumers
`FindUsedBlobs` and `Checker.Structure`).  All statements quantify over every tree store
(any sharing, cycles included), every list of roots and **every** schedule (`Run` = any finite
sequence of enabled actions).
-/
namespace Restic.Props.C42
open Restic.Model.Traverse

set_option linter.unusedSectionVars false

variable {ID : Type} [DecidableEq ID]

/-- reference semantics: the least set containing the roots and closed under `children` -/
inductive Reach (cfg : Cfg ID) (roots : List ID) : ID → Prop
  | root {r : ID} : r ∈ roots → Reach cfg roots r
  | child {t c : ID} : Reach cfg roots t → c ∈ children cfg t → Reach cfg roots c

/-- any finite execution: reflexive-transitive closure of `step` over all actions -/
inductive Run (cfg : Cfg ID) (c : Consumer ID) : State ID → State ID → Prop
  | refl (s : State ID) : Run cfg c s s
  | tail {s s' s'' : State ID} (a : Action ID) :
      Run cfg c s s' → step cfg c a s' = some s'' → Run cfg c s s''

/-- relational presentation of `step` (one constructor per branch) -/
inductive Step (cfg : Cfg ID) (c : Consumer ID) : State ID → State ID → Prop
  | popSkip {s : State ID} {id : ID} {rest : List ID} :
      s.status = .running → s.pending = none → s.backlog = id :: rest → id ∈ s.seen →
      Step cfg c s { s with backlog := rest }
  | popMark {s : State ID} {id : ID} {rest : List ID} :
      s.status = .running → s.pending = none → s.backlog = id :: rest → id ∉ s.seen →
      Step cfg c s { s with backlog := rest, seen := id :: s.seen, pending := some id }
  | send {s : State ID} {id : ID} :
      s.status = .running → s.pending = some id →
      Step cfg c s { s with pending := none, outstanding := id :: s.outstanding }
  | workAbort {s : State ID} {id : ID} :
      s.status = .running → id ∈ s.outstanding → c.proc cfg id (cfg.store id) = .abort →
      Step cfg c s { s with outstanding := s.outstanding.erase id, loads := id :: s.loads,
                            status := .failed }
  | workPanic {s : State ID} {id : ID} {bl : List ID} {rep : Bool} {nodes : List (Node ID)} {b : Bool} :
      s.status = .running → id ∈ s.outstanding →
      c.proc cfg id (cfg.store id) = .fine bl rep false → cfg.store id = .tree nodes b →
      Step cfg c s { s with outstanding := s.outstanding.erase id, loads := id :: s.loads,
                            blobs := bl ++ s.blobs,
                            reported := if rep then id :: s.reported else s.reported,
                            status := .panicked }
  | workDone {s : State ID} {id : ID} {bl : List ID} {rep dr : Bool} :
      s.status = .running → id ∈ s.outstanding →
      c.proc cfg id (cfg.store id) = .fine bl rep dr →
      Step cfg c s { s with outstanding := s.outstanding.erase id, loads := id :: s.loads,
                            blobs := bl ++ s.blobs,
                            reported := if rep then id :: s.reported else s.reported,
                            done := (id, collected cfg id) :: s.done }
  | recv {s : State ID} {id : ID} {subs : List ID} :
      s.status = .running → (id, subs) ∈ s.done →
      Step cfg c s { s with done := s.done.erase (id, subs), received := id :: s.received,
                            backlog := subs.filter (fun c => !cfg.isNull c) ++ s.backlog }

theorem step_Step {cfg : Cfg ID} {c : Consumer ID} {a : Action ID} {s s' : State ID}
    (h : step cfg c a s = some s') : Step cfg c s s' := by
  unfold step at h
  split at h
  · cases h
  · rename_i hrun
    have hrun : s.status = .running := by
      cases hs : s.status <;> simp_all
    cases a with
    | pop =>
      simp only at h
      split at h
      · rename_i id rest hp hb
        split at h
        · rename_i hm; cases h; exact .popSkip hrun hp hb hm
        · rename_i hm; cases h; exact .popMark hrun hp hb hm
      · cases h
    | send =>
      simp only at h
      split at h
      · rename_i id hp; cases h; exact .send hrun hp
      · cases h
    | work id =>
      simp only at h
      split at h
      · rename_i hm
        split at h
        · rename_i hpr; cases h; exact .workAbort hrun hm hpr
        · rename_i bl rep dr hpr
          split at h
          · rename_i hst
            cases h
            have : collected cfg id = [] := by simp [collected, hst]
            rw [← this]
            exact .workDone hrun hm hpr
          · rename_i nodes b hst
            split at h
            · rename_i hd
              cases h
              have : collected cfg id = collect nodes := by simp [collected, hst]
              rw [← this]
              exact .workDone hrun hm hpr
            · rename_i hd
              cases h
              have hd : dr = false := by simpa using hd
              subst hd
              exact .workPanic hrun hm hpr hst
      · cases h
    | recv id subs =>
      simp only at h
      split at h
      · rename_i hm; cases h; exact .recv hrun hm
      · cases h


/-- steps are only possible from running states -/
theorem Step.running {cfg : Cfg ID} {c : Consumer ID} {s s' : State ID} (h : Step cfg c s s') :
    s.status = .running := by
  cases h <;> assumption

/-! ### The invariant of running states -/

/-- `S` already contains everything its members reference (trivially true for the empty set) -/
def ClosedSet (cfg : Cfg ID) (S : List ID) : Prop := ∀ t ∈ S, ∀ c ∈ children cfg t, c ∈ S

structure Inv (cfg : Cfg ID) (roots seen0 : List ID) (s : State ID) : Prop where
  rootsIn : ∀ r ∈ roots, r ∈ s.seen ∨ r ∈ s.backlog
  seen0In : ∀ t ∈ seen0, t ∈ s.seen
  backlogReach : ∀ t ∈ s.backlog, Reach cfg roots t
  seenReach : ∀ t ∈ s.seen, t ∈ seen0 ∨ Reach cfg roots t
  seenWhere : ∀ t ∈ s.seen, t ∈ seen0 ∨ s.pending = some t ∨ t ∈ s.outstanding ∨
      (∃ subs, (t, subs) ∈ s.done) ∨ t ∈ s.received
  pendReach : ∀ t, s.pending = some t → Reach cfg roots t
  outReach : ∀ t ∈ s.outstanding, Reach cfg roots t
  doneReach : ∀ p ∈ s.done, Reach cfg roots p.1
  doneSubs : ∀ p ∈ s.done, p.2 = collected cfg p.1
  recvClosed : ∀ t ∈ s.received, ∀ c ∈ children cfg t, c ∈ s.seen ∨ c ∈ s.backlog

theorem inv_init (cfg : Cfg ID) (roots seen0 blobs0 : List ID) :
    Inv cfg roots seen0 (init roots seen0 blobs0) := by
  refine ⟨?_, ?_, ?_, ?_, ?_, ?_, ?_, ?_, ?_, ?_⟩ <;> simp [init]
  · intro r hr; exact Or.inr hr
  · intro t ht; exact .root ht
  · intro t ht; exact Or.inl ht

theorem inv_step {cfg : Cfg ID} {c : Consumer ID} {roots seen0 : List ID} {s s' : State ID}
    (hi : Inv cfg roots seen0 s) (h : Step cfg c s s') (hr : s'.status = .running) :
    Inv cfg roots seen0 s' := by
  obtain ⟨h1, h2, h3, h4, h5, h6, h7, h8, h9, h10⟩ := hi
  cases h with
  | popSkip _ hp hb hm =>
    refine ⟨?_, h2, ?_, h4, h5, h6, h7, h8, h9, ?_⟩
    · intro r hr'
      rcases h1 r hr' with h | h
      · exact Or.inl h
      · rw [hb] at h
        rcases List.mem_cons.mp h with h | h
        · exact Or.inl (h ▸ hm)
        · exact Or.inr h
    · intro t ht; exact h3 t (hb ▸ List.mem_cons_of_mem _ ht)
    · intro t ht c hc
      rcases h10 t ht c hc with h | h
      · exact Or.inl h
      · rw [hb] at h
        rcases List.mem_cons.mp h with h | h
        · exact Or.inl (h ▸ hm)
        · exact Or.inr h
  | @popMark id rest _ hp hb hm =>
    have hid : Reach cfg roots id := h3 id (hb ▸ List.mem_cons_self)
    refine ⟨?_, ?_, ?_, ?_, ?_, ?_, h7, h8, h9, ?_⟩
    · intro r hr'
      rcases h1 r hr' with h | h
      · exact Or.inl (List.mem_cons_of_mem _ h)
      · rw [hb] at h
        rcases List.mem_cons.mp h with h | h
        · exact Or.inl (h ▸ List.mem_cons_self)
        · exact Or.inr h
    · intro t ht; exact List.mem_cons_of_mem _ (h2 t ht)
    · intro t ht; exact h3 t (hb ▸ List.mem_cons_of_mem _ ht)
    · intro t ht
      rcases List.mem_cons.mp ht with h | h
      · exact Or.inr (h ▸ hid)
      · exact h4 t h
    · intro t ht
      rcases List.mem_cons.mp ht with h | h
      · exact Or.inr (Or.inl (by simp [h]))
      · rcases h5 t h with h | h | h
        · exact Or.inl h
        · rw [hp] at h; cases h
        · exact Or.inr (Or.inr h)
    · intro t ht
      have : id = t := by simpa using ht
      exact this ▸ hid
    · intro t ht c hc
      rcases h10 t ht c hc with h | h
      · exact Or.inl (List.mem_cons_of_mem _ h)
      · rw [hb] at h
        rcases List.mem_cons.mp h with h | h
        · exact Or.inl (h ▸ List.mem_cons_self)
        · exact Or.inr h
  | @send id _ hp =>
    refine ⟨h1, h2, h3, h4, ?_, ?_, ?_, h8, h9, h10⟩
    · intro t ht
      rcases h5 t ht with h | h | h | h
      · exact Or.inl h
      · rw [hp] at h
        have : id = t := by simpa using h
        exact Or.inr (Or.inr (Or.inl (this ▸ List.mem_cons_self)))
      · exact Or.inr (Or.inr (Or.inl (List.mem_cons_of_mem _ h)))
      · exact Or.inr (Or.inr (Or.inr h))
    · intro t ht; cases ht
    · intro t ht
      rcases List.mem_cons.mp ht with h | h
      · exact h ▸ h6 id hp
      · exact h7 t h
  | workAbort _ _ _ => cases hr
  | workPanic _ _ _ _ => cases hr
  | @workDone id bl rep dr _ hm hpr =>
    refine ⟨h1, h2, h3, h4, ?_, h6, ?_, ?_, ?_, h10⟩
    · intro t ht
      rcases h5 t ht with h | h | h | h | h
      · exact Or.inl h
      · exact Or.inr (Or.inl h)
      · by_cases hti : t = id
        · exact Or.inr (Or.inr (Or.inr (Or.inl ⟨collected cfg id, hti ▸ List.mem_cons_self⟩)))
        · exact Or.inr (Or.inr (Or.inl ((List.mem_erase_of_ne hti).mpr h)))
      · obtain ⟨subs, hs⟩ := h
        exact Or.inr (Or.inr (Or.inr (Or.inl ⟨subs, List.mem_cons_of_mem _ hs⟩)))
      · exact Or.inr (Or.inr (Or.inr (Or.inr h)))
    · intro t ht; exact h7 t (List.mem_of_mem_erase ht)
    · intro p hp
      rcases List.mem_cons.mp hp with h | h
      · subst h; exact h7 id hm
      · exact h8 p h
    · intro p hp
      rcases List.mem_cons.mp hp with h | h
      · subst h; rfl
      · exact h9 p h
  | @recv id subs _ hm =>
    have hsubs : subs = collected cfg id := h9 _ hm
    have hid : Reach cfg roots id := h8 _ hm
    refine ⟨?_, h2, ?_, h4, ?_, h6, h7, ?_, ?_, ?_⟩
    · intro r hr'
      rcases h1 r hr' with h | h
      · exact Or.inl h
      · exact Or.inr (List.mem_append_right _ h)
    · intro t ht
      rcases List.mem_append.mp ht with h | h
      · exact .child hid (by simpa [children, hsubs] using h)
      · exact h3 t h
    · intro t ht
      rcases h5 t ht with h | h | h | h | h
      · exact Or.inl h
      · exact Or.inr (Or.inl h)
      · exact Or.inr (Or.inr (Or.inl h))
      · obtain ⟨subs', hs⟩ := h
        by_cases hti : (t, subs') = (id, subs)
        · have : t = id := by simpa using congrArg Prod.fst hti
          exact Or.inr (Or.inr (Or.inr (Or.inr (this ▸ List.mem_cons_self))))
        · exact Or.inr (Or.inr (Or.inr (Or.inl ⟨subs', (List.mem_erase_of_ne hti).mpr hs⟩)))
      · exact Or.inr (Or.inr (Or.inr (Or.inr (List.mem_cons_of_mem _ h))))
    · intro p hp; exact h8 p (List.mem_of_mem_erase hp)
    · intro p hp; exact h9 p (List.mem_of_mem_erase hp)
    · intro t ht c hc
      rcases List.mem_cons.mp ht with h | h
      · subst h
        exact Or.inr (List.mem_append_left _ (by simpa [children, hsubs] using hc))
      · rcases h10 t h c hc with h | h
        · exact Or.inl h
        · exact Or.inr (List.mem_append_right _ h)

theorem run_running {cfg : Cfg ID} {c : Consumer ID} {s s' : State ID}
    (h : Run cfg c s s') (hr : s'.status = .running) : s.status = .running := by
  induction h with
  | refl => exact hr
  | tail a _ hs ih => exact ih (step_Step hs).running

theorem inv_run {cfg : Cfg ID} {c : Consumer ID} {roots seen0 blobs0 : List ID} {s : State ID}
    (h : Run cfg c (init roots seen0 blobs0) s) (hr : s.status = .running) :
    Inv cfg roots seen0 s := by
  generalize hs0 : init roots seen0 blobs0 = s0 at h
  induction h with
  | refl => subst hs0; exact inv_init cfg roots seen0 blobs0
  | tail a _ hs ih =>
    have hst := step_Step hs
    exact inv_step (ih hst.running) hst hr


theorem terminal_iff (s : State ID) : terminal s = true ↔
    s.status = .running ∧ s.pending = none ∧ s.backlog = [] ∧ s.outstanding = [] ∧ s.done = [] := by
  simp [terminal, Option.isNone_iff_eq_none, List.isEmpty_iff, and_assoc]

/-! ### Exactly the reachable trees -/

/-- **traverse_exact (trees)**: when `filterTrees` returns normally, the visited set is the old
    content of the set plus exactly the trees reachable from the roots — for every store, every
    consumer and every schedule.  (`seen0 = []` for prune / check / copy; `stats` passes the set of
    the previous snapshots, which is closed because it was produced by earlier successful calls.) -/
theorem traverse_exact_trees {cfg : Cfg ID} {c : Consumer ID} {roots seen0 blobs0 : List ID}
    {s : State ID} (h : Run cfg c (init roots seen0 blobs0) s) (ht : terminal s = true)
    (hc : ClosedSet cfg seen0) :
    ∀ t, t ∈ s.seen ↔ t ∈ seen0 ∨ Reach cfg roots t := by
  obtain ⟨hr, hp, hb, ho, hd⟩ := (terminal_iff s).mp ht
  have hi := inv_run h hr
  intro t
  constructor
  · exact hi.seenReach t
  · rintro (h0 | hre)
    · exact hi.seen0In t h0
    · induction hre with
      | root hroot =>
        rcases hi.rootsIn _ hroot with h | h
        · exact h
        · rw [hb] at h; cases h
      | @child t c _ hch ih =>
        rcases hi.seenWhere t ih with h | h | h | h | h
        · exact hi.seen0In c (hc t h c hch)
        · rw [hp] at h; cases h
        · rw [ho] at h; cases h
        · obtain ⟨subs, h⟩ := h; rw [hd] at h; cases h
        · rcases hi.recvClosed t h c hch with h | h
          · exact h
          · rw [hb] at h; cases h

/-- with an initially empty set: visited = reachable -/
theorem traverse_exact_trees_empty {cfg : Cfg ID} {c : Consumer ID} {roots : List ID}
    {s : State ID} (h : Run cfg c (init roots [] []) s) (ht : terminal s = true) :
    ∀ t, t ∈ s.seen ↔ Reach cfg roots t := by
  intro t
  have := traverse_exact_trees h ht (by intro t ht; cases ht) t
  simpa using this

/-! ### Each tree is loaded at most once -/

def pcount (p : Option ID) (t : ID) : Nat := if p = some t then 1 else 0

/-- number of times `t` is or was in the hands of a worker -/
def inflight (s : State ID) (t : ID) : Nat :=
  pcount s.pending t + s.outstanding.count t + s.loads.count t

structure Once (seen0 : List ID) (s : State ID) : Prop where
  cnt : ∀ t, inflight s t ≤ 1
  inSeen : ∀ t, 0 < inflight s t → t ∈ s.seen ∧ t ∉ seen0
  mono : ∀ t ∈ seen0, t ∈ s.seen

theorem count_move {id t : ID} {l m : List ID} (h : id ∈ l) :
    (l.erase id).count t + (id :: m).count t = l.count t + m.count t := by
  by_cases ht : t = id
  · subst ht
    have : 0 < l.count t := List.count_pos_iff.mpr h
    simp [List.count_erase_self]
    omega
  · have ht' : id ≠ t := fun h => ht h.symm
    simp [List.count_erase_of_ne ht, ht']

theorem once_step {cfg : Cfg ID} {c : Consumer ID} {seen0 : List ID} {s s' : State ID}
    (ho : Once seen0 s) (h : Step cfg c s s') : Once seen0 s' := by
  obtain ⟨h1, h2, h3⟩ := ho
  have work : ∀ (id : ID) (s'' : State ID), id ∈ s.outstanding → s''.pending = s.pending →
      s''.outstanding = s.outstanding.erase id → s''.loads = id :: s.loads → s''.seen = s.seen →
      Once seen0 s'' := by
    intro id s'' hm e1 e2 e3 e4
    have key : ∀ t, inflight s'' t = inflight s t := by
      intro t; simp only [inflight, e1, e2, e3]
      have := count_move (t := t) (m := s.loads) hm
      omega
    exact ⟨fun t => key t ▸ h1 t, fun t ht => e4 ▸ h2 t (key t ▸ ht), fun t ht => e4 ▸ h3 t ht⟩
  cases h with
  | popSkip _ hp hb hm => exact ⟨h1, h2, h3⟩
  | @popMark id rest _ hp hb hm =>
    have hz : inflight s id = 0 := by
      rcases Nat.eq_zero_or_pos (inflight s id) with h | h
      · exact h
      · exact absurd (h2 id h).1 hm
    have key : ∀ t, inflight { s with backlog := rest, seen := id :: s.seen, pending := some id } t
        = inflight s t + (if id = t then 1 else 0) := by
      intro t; simp [inflight, pcount, hp]; omega
    refine ⟨?_, ?_, ?_⟩
    · intro t; rw [key]
      by_cases hti : id = t
      · subst hti; simp [hz]
      · simp [hti]; exact h1 t
    · intro t ht; rw [key] at ht
      by_cases hti : id = t
      · subst hti
        exact ⟨List.mem_cons_self, fun h0 => hm (h3 _ h0)⟩
      · simp [hti] at ht
        exact ⟨List.mem_cons_of_mem _ (h2 t ht).1, (h2 t ht).2⟩
    · intro t ht; exact List.mem_cons_of_mem _ (h3 t ht)
  | @send id _ hp =>
    have key : ∀ t, inflight { s with pending := none, outstanding := id :: s.outstanding } t
        = inflight s t := by
      intro t; simp [inflight, pcount, hp, List.count_cons]; omega
    exact ⟨fun t => key t ▸ h1 t, fun t ht => h2 t (key t ▸ ht), h3⟩
  | workAbort _ hm _ => exact work _ _ hm rfl rfl rfl rfl
  | workPanic _ hm _ _ => exact work _ _ hm rfl rfl rfl rfl
  | workDone _ hm _ => exact work _ _ hm rfl rfl rfl rfl
  | recv _ hm => exact ⟨h1, h2, h3⟩

theorem once_run {cfg : Cfg ID} {c : Consumer ID} {roots seen0 blobs0 : List ID} {s : State ID}
    (h : Run cfg c (init roots seen0 blobs0) s) : Once seen0 s := by
  generalize hs0 : init roots seen0 blobs0 = s0 at h
  induction h with
  | refl =>
    subst hs0
    refine ⟨?_, ?_, ?_⟩ <;> simp [init, inflight, pcount]
  | tail a _ hs ih => exact once_step ih (step_Step hs)

/-- **each_tree_once**: in every execution (any schedule, any consumer, finished or aborted) no
    tree is loaded twice, and trees that were already in the caller's set are not loaded at all. -/
theorem each_tree_once {cfg : Cfg ID} {c : Consumer ID} {roots seen0 blobs0 : List ID} {s : State ID}
    (h : Run cfg c (init roots seen0 blobs0) s) :
    (∀ t, s.loads.count t ≤ 1) ∧ (∀ t ∈ s.loads, t ∈ s.seen ∧ t ∉ seen0) := by
  have ho := once_run h
  constructor
  · intro t; have := ho.cnt t; simp only [inflight] at this; omega
  · intro t ht
    apply ho.inSeen t
    have : 0 < s.loads.count t := List.count_pos_iff.mpr ht
    simp only [inflight]; omega


/-! ### What the consumer has processed -/

/-- `t` was loaded, processed by the consumer without abort and its subtrees handed back -/
def processed (s : State ID) (t : ID) : Prop := (∃ subs, (t, subs) ∈ s.done) ∨ t ∈ s.received

/-- how `blobs`, `reported` and `processed` change in one step -/
theorem step_effect {cfg : Cfg ID} {c : Consumer ID} {s s' : State ID} (h : Step cfg c s s')
    (hr : s'.status = .running) :
    (s'.blobs = s.blobs ∧ s'.reported = s.reported ∧ ∀ t, processed s' t → processed s t) ∨
    (∃ id bl rep dr, id ∈ s.outstanding ∧ c.proc cfg id (cfg.store id) = .fine bl rep dr ∧
      s'.blobs = bl ++ s.blobs ∧ s'.reported = (if rep then id :: s.reported else s.reported) ∧
      ∀ t, processed s' t → t = id ∨ processed s t) := by
  cases h with
  | popSkip _ hp hb hm => exact Or.inl ⟨rfl, rfl, fun t h => h⟩
  | popMark _ hp hb hm => exact Or.inl ⟨rfl, rfl, fun t h => h⟩
  | send _ hp => exact Or.inl ⟨rfl, rfl, fun t h => h⟩
  | workAbort _ _ _ => cases hr
  | workPanic _ _ _ _ => cases hr
  | @workDone id bl rep dr _ hm hpr =>
    refine Or.inr ⟨id, bl, rep, dr, hm, hpr, rfl, rfl, ?_⟩
    rintro t (⟨subs, h⟩ | h)
    · rcases List.mem_cons.mp h with h | h
      · exact Or.inl (by simpa using congrArg Prod.fst h)
      · exact Or.inr (Or.inl ⟨subs, h⟩)
    · exact Or.inr (Or.inr h)
  | @recv id subs _ hm =>
    refine Or.inl ⟨rfl, rfl, ?_⟩
    rintro t (⟨subs', h⟩ | h)
    · exact Or.inl ⟨subs', List.mem_of_mem_erase h⟩
    · rcases List.mem_cons.mp h with h | h
      · exact Or.inl ⟨subs, h ▸ hm⟩
      · exact Or.inr h

/-- at a terminal state every visited tree outside the initial set has been processed -/
theorem seen_processed {cfg : Cfg ID} {c : Consumer ID} {roots seen0 blobs0 : List ID}
    {s : State ID} (h : Run cfg c (init roots seen0 blobs0) s) (ht : terminal s = true) :
    ∀ t ∈ s.seen, t ∈ seen0 ∨ t ∈ s.received := by
  obtain ⟨hr, hp, hb, ho, hd⟩ := (terminal_iff s).mp ht
  have hi := inv_run h hr
  intro t hts
  rcases hi.seenWhere t hts with h | h | h | h | h
  · exact Or.inl h
  · rw [hp] at h; cases h
  · rw [ho] at h; cases h
  · obtain ⟨subs, h⟩ := h; rw [hd] at h; cases h
  · exact Or.inr h

/-! ### Exactly the data blobs of the reachable trees (FindUsedBlobs) -/

/-- the consumer inserts exactly the file contents of the tree it was given -/
def BlobLaw (cfg : Cfg ID) (c : Consumer ID) : Prop :=
  ∀ id bl rep dr, c.proc cfg id (cfg.store id) = .fine bl rep dr → bl = treeBlobs cfg id

/-- the consumer returns an error for every tree that cannot be loaded and decoded completely -/
def StrictLaw (cfg : Cfg ID) (c : Consumer ID) : Prop :=
  ∀ id bl rep dr, c.proc cfg id (cfg.store id) = .fine bl rep dr → good cfg id = true

/-- the consumer reports every tree that cannot be loaded and decoded completely -/
def ReportLaw (cfg : Cfg ID) (c : Consumer ID) : Prop :=
  ∀ id bl rep dr, c.proc cfg id (cfg.store id) = .fine bl rep dr → good cfg id = false → rep = true

/-- the consumer reads the node iterator to its end whenever it returns nil -/
def Drains (cfg : Cfg ID) (c : Consumer ID) : Prop :=
  ∀ id nodes b bl rep dr, cfg.store id = .tree nodes b →
    c.proc cfg id (cfg.store id) = .fine bl rep dr → dr = true

theorem findUsed_blobLaw (cfg : Cfg ID) : BlobLaw cfg findUsed := by
  intro id bl rep dr h
  simp only [findUsed] at h
  split at h
  · cases h
  · rename_i nodes bad hst
    split at h
    · cases h
    · cases h; simp [treeBlobs, hst]

theorem findUsed_strictLaw (cfg : Cfg ID) : StrictLaw cfg findUsed := by
  intro id bl rep dr h
  simp only [findUsed] at h
  split at h
  · cases h
  · rename_i nodes bad hst
    split at h
    · cases h
    · rename_i hb
      have : bad = false := by simpa using hb
      subst this
      simp [good, hst]

theorem findUsed_drains (cfg : Cfg ID) : Drains cfg findUsed := by
  intro id nodes b bl rep dr _ h
  simp only [findUsed] at h
  split at h
  · cases h
  · split at h
    · cases h
    · cases h; rfl

theorem checker_reportLaw (cfg : Cfg ID) (drains : Bool) : ReportLaw cfg (checker drains) := by
  intro id bl rep dr h hg
  simp only [checker] at h
  split at h
  · cases h; rfl
  · rename_i nodes bad hst
    cases h
    cases bad
    · simp [good, hst] at hg
    · simp

/-- the checker as it is after the F15 fix reads every tree to its end -/
theorem checker_fixed_drains (cfg : Cfg ID) : Drains cfg (checker true) := by
  intro id nodes b bl rep dr _ h
  simp only [checker] at h
  split at h
  · cases h; rfl
  · cases h; simp

structure InvB (cfg : Cfg ID) (roots blobs0 : List ID) (s : State ID) : Prop where
  blobs0In : ∀ b ∈ blobs0, b ∈ s.blobs
  blobsFrom : ∀ b ∈ s.blobs, b ∈ blobs0 ∨ ∃ t, Reach cfg roots t ∧ b ∈ treeBlobs cfg t
  procBlobs : ∀ t, processed s t → ∀ b ∈ treeBlobs cfg t, b ∈ s.blobs

theorem invB_run {cfg : Cfg ID} {c : Consumer ID} (hl : BlobLaw cfg c) {roots seen0 blobs0 : List ID}
    {s : State ID} (h : Run cfg c (init roots seen0 blobs0) s) (hr : s.status = .running) :
    InvB cfg roots blobs0 s := by
  generalize hs0 : init roots seen0 blobs0 = s0 at h
  induction h with
  | refl =>
    subst hs0
    refine ⟨fun b hb => hb, fun b hb => Or.inl hb, ?_⟩
    rintro t (⟨subs, h⟩ | h) <;> simp [init] at h
  | @tail s' s'' a hrun hs ih =>
    have hst := step_Step hs
    have hi : Inv cfg roots seen0 s' := inv_run (hs0 ▸ hrun) hst.running
    obtain ⟨b1, b2, b3⟩ := ih hst.running
    rcases step_effect hst hr with ⟨e1, _, e3⟩ | ⟨id, bl, rep, dr, hm, hpr, e1, _, e3⟩
    · exact ⟨fun b hb => e1 ▸ b1 b hb, fun b hb => b2 b (e1 ▸ hb),
        fun t ht b hb => e1 ▸ b3 t (e3 t ht) b hb⟩
    · have hbl := hl id bl rep dr hpr
      refine ⟨?_, ?_, ?_⟩
      · intro b hb; rw [e1]; exact List.mem_append_right _ (b1 b hb)
      · intro b hb; rw [e1] at hb
        rcases List.mem_append.mp hb with h | h
        · exact Or.inr ⟨id, hi.outReach id hm, hbl ▸ h⟩
        · exact b2 b h
      · intro t ht b hb; rw [e1]
        rcases e3 t ht with h | h
        · subst h; exact List.mem_append_left _ (hbl ▸ hb)
        · exact List.mem_append_right _ (b3 t h b hb)

/-- **traverse_exact (data blobs)**: when `FindUsedBlobs` returns without error the data blobs in
    the set are the old ones plus exactly the contents of the files of the reachable trees. -/
theorem traverse_exact_blobs {cfg : Cfg ID} {c : Consumer ID} (hl : BlobLaw cfg c)
    {roots seen0 blobs0 : List ID} {s : State ID}
    (h : Run cfg c (init roots seen0 blobs0) s) (ht : terminal s = true)
    (hc : ClosedSet cfg seen0) (hcb : ∀ t ∈ seen0, ∀ b ∈ treeBlobs cfg t, b ∈ blobs0) :
    ∀ b, b ∈ s.blobs ↔ b ∈ blobs0 ∨ ∃ t, Reach cfg roots t ∧ b ∈ treeBlobs cfg t := by
  have hr := ((terminal_iff s).mp ht).1
  have hb := invB_run hl h hr
  intro b
  constructor
  · exact hb.blobsFrom b
  · rintro (h0 | ⟨t, hre, hbt⟩)
    · exact hb.blobs0In b h0
    · have hts : t ∈ s.seen := (traverse_exact_trees h ht hc t).mpr (Or.inr hre)
      rcases seen_processed h ht t hts with h0 | hrec
      · exact hb.blobs0In b (hcb t h0 b hbt)
      · exact hb.procBlobs t (Or.inr hrec) b hbt

/-! ### No silent truncation -/

theorem processed_law {cfg : Cfg ID} {c : Consumer ID} (P : ID → Prop)
    (hl : ∀ id bl rep dr, c.proc cfg id (cfg.store id) = .fine bl rep dr → P id)
    {s0 s : State ID} (h0 : ∀ t, ¬ processed s0 t)
    (h : Run cfg c s0 s) (hr : s.status = .running) : ∀ t, processed s t → P t := by
  induction h with
  | refl => intro t ht; exact absurd ht (h0 t)
  | @tail s' s'' a hrun hs ih =>
    have hst := step_Step hs
    have ih := ih hst.running
    rcases step_effect hst hr with ⟨_, _, e3⟩ | ⟨id, bl, rep, dr, hm, hpr, _, _, e3⟩
    · intro t ht; exact ih t (e3 t ht)
    · intro t ht
      rcases e3 t ht with h | h
      · subst h; exact hl _ bl rep dr hpr
      · exact ih t h

theorem init_not_processed (roots seen0 blobs0 : List ID) :
    ∀ t, ¬ processed (init roots seen0 blobs0) t := by
  rintro t (⟨subs, h⟩ | h) <;> simp [init] at h

/-- **missing_tree_is_error**: a consumer that returns load/decode errors (FindUsedBlobs, copy)
    can only finish normally if *every* reachable tree (outside the caller's initial set) was
    loaded and decoded completely.  Contrapositive: one missing or undecodable reachable tree ⇒ no
    schedule ends in a normal return; the result is never silently truncated. -/
theorem missing_tree_is_error {cfg : Cfg ID} {c : Consumer ID} (hl : StrictLaw cfg c)
    {roots seen0 blobs0 : List ID} {s : State ID}
    (h : Run cfg c (init roots seen0 blobs0) s) (ht : terminal s = true) (hc : ClosedSet cfg seen0) :
    ∀ t, Reach cfg roots t → t ∈ seen0 ∨ good cfg t = true := by
  have hr := ((terminal_iff s).mp ht).1
  intro t hre
  have hts : t ∈ s.seen := (traverse_exact_trees h ht hc t).mpr (Or.inr hre)
  rcases seen_processed h ht t hts with h0 | hrec
  · exact Or.inl h0
  · exact Or.inr (processed_law (fun t => good cfg t = true) hl (init_not_processed _ _ _) h hr t (Or.inr hrec))

/-- reported trees only grow -/
theorem reported_law {cfg : Cfg ID} {c : Consumer ID} (hl : ReportLaw cfg c)
    {s0 s : State ID} (h0 : ∀ t, ¬ processed s0 t)
    (h : Run cfg c s0 s) (hr : s.status = .running) :
    ∀ t, processed s t → good cfg t = false → t ∈ s.reported := by
  induction h with
  | refl => intro t ht; exact absurd ht (h0 t)
  | @tail s' s'' a hrun hs ih =>
    have hst := step_Step hs
    have ih := ih hst.running
    rcases step_effect hst hr with ⟨_, e2, e3⟩ | ⟨id, bl, rep, dr, hm, hpr, _, e2, e3⟩
    · intro t ht hg; rw [e2]; exact ih t (e3 t ht) hg
    · intro t ht hg; rw [e2]
      rcases e3 t ht with h | h
      · subst h
        have := hl _ bl rep dr hpr hg
        simp [this]
      · have := ih t h hg
        split
        · exact List.mem_cons_of_mem _ this
        · exact this

/-- **undecodable_reported**: a consumer that reports instead of aborting (the checker) has, when
    the traversal finishes, reported every reachable tree that is missing or fails to decode
    part-way — and (previous theorems) still visited everything reachable through the nodes
    decoded before the error. -/
theorem undecodable_reported {cfg : Cfg ID} {c : Consumer ID} (hl : ReportLaw cfg c)
    {roots : List ID} {s : State ID}
    (h : Run cfg c (init roots [] []) s) (ht : terminal s = true) :
    ∀ t, Reach cfg roots t → good cfg t = false → t ∈ s.reported := by
  have hr := ((terminal_iff s).mp ht).1
  intro t hre hg
  have hts : t ∈ s.seen := (traverse_exact_trees_empty h ht t).mpr hre
  rcases seen_processed h ht t hts with h0 | hrec
  · cases h0
  · exact reported_law hl (init_not_processed _ _ _) h hr t (Or.inr hrec) hg

/-- **undecodable_no_panic**: with a consumer that drains the iterator (FindUsedBlobs; the checker
    after the F15 fix) no schedule reaches the "tree was not read completely" panic. -/
theorem undecodable_no_panic {cfg : Cfg ID} {c : Consumer ID} (hd : Drains cfg c)
    {s0 s : State ID} (h0 : s0.status ≠ .panicked) (h : Run cfg c s0 s) : s.status ≠ .panicked := by
  induction h with
  | refl => exact h0
  | tail a _ hs ih =>
    have hst := step_Step hs
    cases hst with
    | popSkip hr _ _ _ => simp [hr]
    | popMark hr _ _ _ => simp [hr]
    | send hr _ => simp [hr]
    | workAbort _ _ _ => simp
    | workPanic _ _ hpr hst' => exact absurd (hd _ _ _ _ _ _ hst' hpr) (by simp)
    | workDone hr _ _ => simp [hr]
    | recv hr _ => simp [hr]


/-! ### Progress: the traversal never gets stuck -/

/-- **progress** (deadlock freedom): a running state that is not terminal always has an enabled
    action, so every maximal execution ends in a terminal, failed or panicked state. -/
theorem progress (cfg : Cfg ID) (c : Consumer ID) (s : State ID) (hr : s.status = .running)
    (ht : terminal s = false) : ∃ a, (step cfg c a s).isSome = true := by
  have hne : ¬ (s.status ≠ .running) := by simp [hr]
  cases hp : s.pending with
  | some id => exact ⟨.send, by simp [step, hr, hp]⟩
  | none =>
    cases hb : s.backlog with
    | cons id rest =>
      by_cases hm : id ∈ s.seen
      · exact ⟨.pop, by simp [step, hr, hp, hb, hm]⟩
      · exact ⟨.pop, by simp [step, hr, hp, hb, hm]⟩
    | nil =>
      cases ho : s.outstanding with
      | cons id rest =>
        have hm : id ∈ s.outstanding := by simp [ho]
        refine ⟨.work id, ?_⟩
        simp only [step, hne, if_false, hm, if_true]
        cases c.proc cfg id (cfg.store id) with
        | abort => simp
        | fine bl rep dr =>
          simp only
          cases cfg.store id with
          | missing => simp
          | tree nodes b => cases dr <;> simp
      | nil =>
        cases hd : s.done with
        | cons p rest =>
          have hm : (p.1, p.2) ∈ s.done := by simp [hd]
          exact ⟨.recv p.1 p.2, by simp only [step, hne, if_false, hm, if_true, Option.isSome_some]⟩
        | nil =>
          exfalso
          have : terminal s = true := (terminal_iff s).mpr ⟨hr, hp, hb, ho, hd⟩
          rw [this] at ht; cases ht

/-- terminal states have no enabled action -/
theorem terminal_final (cfg : Cfg ID) (c : Consumer ID) (s : State ID) (ht : terminal s = true)
    (a : Action ID) : step cfg c a s = none := by
  obtain ⟨hr, hp, hb, ho, hd⟩ := (terminal_iff s).mp ht
  cases a <;> simp [step, hr, hp, hb, ho, hd]

/-- the scheduler used by the correspondence driver produces executions in the sense of `Run`,
    so every theorem above applies to what the driver computes -/
theorem Run.head {cfg : Cfg ID} {c : Consumer ID} {a : Action ID} {s s' s'' : State ID}
    (hs : step cfg c a s = some s') (h : Run cfg c s' s'') : Run cfg c s s'' := by
  induction h with
  | refl => exact .tail a (.refl s) hs
  | tail b _ hb ih => exact .tail b ih hb

theorem run_Run (cfg : Cfg ID) (c : Consumer ID) (fuel : Nat) (ch : List Nat) (s : State ID) :
    Run cfg c s (run cfg c fuel ch s) := by
  induction fuel generalizing ch s with
  | zero => exact .refl s
  | succ n ih =>
    unfold run
    split
    · exact .refl s
    · split
      · exact .refl s
      · rename_i s' hs
        exact Run.head hs (ih _ s')

/-! ### The executable statement (`specOK`) means what it should -/

theorem mem_addNew (S xs : List ID) (x : ID) : x ∈ addNew S xs ↔ x ∈ S ∨ x ∈ xs := by
  unfold addNew
  induction xs generalizing S with
  | nil => simp
  | cons y ys ih =>
    simp only [List.foldl_cons, ih, List.mem_cons]
    by_cases hy : y ∈ S
    · simp only [hy, if_true]
      constructor
      · rintro (h | h)
        · exact Or.inl h
        · exact Or.inr (Or.inr h)
      · rintro (h | h | h)
        · exact Or.inl h
        · exact Or.inl (h ▸ hy)
        · exact Or.inr h
    · simp only [hy, if_false, List.mem_append, List.mem_singleton]
      constructor
      · rintro ((h | h) | h)
        · exact Or.inl h
        · exact Or.inr (Or.inl h)
        · exact Or.inr (Or.inr h)
      · rintro (h | h | h)
        · exact Or.inl (Or.inl h)
        · exact Or.inl (Or.inr h)
        · exact Or.inr h

theorem reachN_sound (cfg : Cfg ID) (roots : List ID) (n : Nat) :
    ∀ t ∈ reachN cfg roots n, Reach cfg roots t := by
  induction n with
  | zero =>
    intro t ht
    simp only [reachN, mem_addNew] at ht
    rcases ht with h | h
    · cases h
    · exact .root h
  | succ n ih =>
    intro t ht
    simp only [reachN, expand, mem_addNew, List.mem_flatMap] at ht
    rcases ht with h | ⟨u, hu, hc⟩
    · exact ih t h
    · exact .child (ih u hu) hc

theorem reachN_mono (cfg : Cfg ID) (roots : List ID) (n k : Nat) :
    ∀ t ∈ reachN cfg roots n, t ∈ reachN cfg roots (n + k) := by
  induction k with
  | zero => intro t ht; exact ht
  | succ k ih =>
    intro t ht
    show t ∈ expand cfg (reachN cfg roots (n + k))
    simp only [expand, mem_addNew]
    exact Or.inl (ih t ht)

/-- every reachable tree is found by the bounded search for a large enough bound -/
theorem reachN_complete (cfg : Cfg ID) (roots : List ID) {t : ID} (h : Reach cfg roots t) :
    ∃ n, t ∈ reachN cfg roots n := by
  induction h with
  | root hr => exact ⟨0, by simp [reachN, mem_addNew, hr]⟩
  | @child u c _ hc ih =>
    obtain ⟨n, hn⟩ := ih
    refine ⟨n + 1, ?_⟩
    simp only [reachN, expand, mem_addNew, List.mem_flatMap]
    exact Or.inr ⟨u, hn, hc⟩

theorem subsetB_iff (a b : List ID) : subsetB a b = true ↔ ∀ x ∈ a, x ∈ b := by
  simp [subsetB]

theorem closedB_iff (cfg : Cfg ID) (S : List ID) : closedB cfg S = true ↔ ClosedSet cfg S := by
  simp [closedB, ClosedSet]

/-- a closed set containing the roots contains everything reachable -/
theorem reach_sub_closed {cfg : Cfg ID} {roots S : List ID} (hr : ∀ r ∈ roots, r ∈ S)
    (hc : ClosedSet cfg S) : ∀ t, Reach cfg roots t → t ∈ S := by
  intro t h
  induction h with
  | root h => exact hr _ h
  | child _ hc' ih => exact hc _ ih _ hc'

/-- **specOK_sound**: what the driver evaluates on the implementation's output is the property:
    the tree set is exactly the reachable set, the data set exactly the file contents of the
    reachable trees, every reachable tree decoded completely, and each was loaded exactly once. -/
theorem specOK_sound {cfg : Cfg ID} {roots : List ID} {n : Nat} {trees data loads : List ID}
    (h : specOK cfg roots n trees data loads = true) :
    (∀ t, t ∈ trees ↔ Reach cfg roots t) ∧
    (∀ b, b ∈ data ↔ ∃ t, Reach cfg roots t ∧ b ∈ treeBlobs cfg t) ∧
    (∀ t, Reach cfg roots t → good cfg t = true) ∧
    (∀ t, Reach cfg roots t → loads.count t = 1) ∧ (∀ t ∈ loads, Reach cfg roots t) := by
  simp only [specOK, Bool.and_eq_true, subsetB_iff, closedB_iff, List.all_eq_true,
    decide_eq_true_eq, List.mem_flatMap] at h
  obtain ⟨⟨⟨⟨⟨⟨⟨⟨h1, h2⟩, h3⟩, h4⟩, h5⟩, h6⟩, h7⟩, h8⟩, h9⟩ := h
  have ht : ∀ t, t ∈ trees ↔ Reach cfg roots t := fun t =>
    ⟨fun h => reachN_sound cfg roots n t (h3 t h), reach_sub_closed h1 h2 t⟩
  refine ⟨ht, ?_, ?_, ?_, ?_⟩
  · intro b
    constructor
    · intro hb
      obtain ⟨t, htR, hbt⟩ := h4 b hb
      exact ⟨t, reachN_sound cfg roots n t htR, hbt⟩
    · rintro ⟨t, htR, hbt⟩
      exact h5 b ⟨t, (ht t).mpr htR, hbt⟩
  · intro t htR; exact h6 t ((ht t).mpr htR)
  · intro t htR
    have hm : t ∈ loads := h8 t ((ht t).mpr htR)
    have h1 := h7 t hm
    have h2 : 0 < loads.count t := List.count_pos_iff.mpr hm
    omega
  · intro t hm; exact (ht t).mp (h9 t hm)

/-- an error return is only accepted when some reachable tree really is missing or undecodable -/
theorem specErrOK_sound {cfg : Cfg ID} {roots : List ID} {n : Nat} {loads : List ID}
    (h : specErrOK cfg roots n loads = true) :
    (∃ t, Reach cfg roots t ∧ good cfg t = false) ∧ ∀ t, loads.count t ≤ 1 := by
  simp only [specErrOK, Bool.and_eq_true, List.any_eq_true, List.all_eq_true,
    decide_eq_true_eq, Bool.not_eq_true'] at h
  obtain ⟨⟨t, htR, hg⟩, h2⟩ := h
  refine ⟨⟨t, reachN_sound cfg roots n t htR, hg⟩, ?_⟩
  intro t
  by_cases hm : t ∈ loads
  · exact h2 t hm
  · simp [List.count_eq_zero.mpr hm]

/-! ### The transcription meets the executable statement -/

theorem loads_of_processed {cfg : Cfg ID} {c : Consumer ID} {s0 s : State ID}
    (h0 : ∀ t, ¬ processed s0 t) (h : Run cfg c s0 s) : ∀ t, processed s t → t ∈ s.loads := by
  induction h with
  | refl => intro t ht; exact absurd ht (h0 t)
  | @tail s' s'' a hrun hs ih =>
    have hst := step_Step hs
    cases hst with
    | popSkip _ _ _ _ => exact ih
    | popMark _ _ _ _ => exact ih
    | send _ _ => exact ih
    | workAbort _ _ _ => intro t ht; exact List.mem_cons_of_mem _ (ih t ht)
    | workPanic _ _ _ _ => intro t ht; exact List.mem_cons_of_mem _ (ih t ht)
    | @workDone id bl rep dr _ hm hpr =>
      rintro t (⟨subs, h⟩ | h)
      · rcases List.mem_cons.mp h with h | h
        · have : t = id := by simpa using congrArg Prod.fst h
          exact this ▸ List.mem_cons_self
        · exact List.mem_cons_of_mem _ (ih t (Or.inl ⟨subs, h⟩))
      · exact List.mem_cons_of_mem _ (ih t (Or.inr h))
    | @recv id subs _ hm =>
      rintro t (⟨subs', h⟩ | h)
      · exact ih t (Or.inl ⟨subs', List.mem_of_mem_erase h⟩)
      · rcases List.mem_cons.mp h with h | h
        · exact ih t (Or.inl ⟨subs, h ▸ hm⟩)
        · exact ih t (Or.inr h)

theorem reachN_cover (cfg : Cfg ID) (roots : List ID) (l : List ID)
    (h : ∀ t ∈ l, Reach cfg roots t) : ∃ n0, ∀ n, n0 ≤ n → ∀ t ∈ l, t ∈ reachN cfg roots n := by
  induction l with
  | nil => exact ⟨0, fun _ _ t ht => by cases ht⟩
  | cons x xs ih =>
    obtain ⟨n1, h1⟩ := ih (fun t ht => h t (List.mem_cons_of_mem _ ht))
    obtain ⟨n2, h2⟩ := reachN_complete cfg roots (h x List.mem_cons_self)
    refine ⟨n1 + n2, ?_⟩
    intro n hn t ht
    rcases List.mem_cons.mp ht with h | h
    · subst h
      have := reachN_mono cfg roots n2 (n - n2) t h2
      rwa [Nat.add_sub_cancel' (by omega)] at this
    · exact h1 n (by omega) t h

/-- **findUsed_meets_spec** (transcription ⇒ statement): whenever the model of `FindUsedBlobs`
    returns normally — under any schedule — its outputs satisfy `specOK` for every sufficiently
    large search bound of the reference computation. -/
theorem findUsed_meets_spec {cfg : Cfg ID} {roots : List ID} {s : State ID}
    (h : Run cfg findUsed (init roots [] []) s) (ht : terminal s = true) :
    ∃ n0, ∀ n, n0 ≤ n → specOK cfg roots n s.seen s.blobs s.loads = true := by
  have hT := traverse_exact_trees_empty h ht
  have hB := traverse_exact_blobs (findUsed_blobLaw cfg) h ht (by intro t ht; cases ht)
    (by intro t ht; cases ht)
  have hG := missing_tree_is_error (findUsed_strictLaw cfg) h ht (by intro t ht; cases ht)
  have hO := each_tree_once h
  have hP := seen_processed h ht
  have hL := loads_of_processed (init_not_processed roots [] []) h
  obtain ⟨n0, hn0⟩ := reachN_cover cfg roots s.seen (fun t ht => (hT t).mp ht)
  refine ⟨n0, fun n hn => ?_⟩
  simp only [specOK, Bool.and_eq_true, subsetB_iff, closedB_iff, List.all_eq_true,
    decide_eq_true_eq, List.mem_flatMap]
  refine ⟨⟨⟨⟨⟨⟨⟨⟨?_, ?_⟩, ?_⟩, ?_⟩, ?_⟩, ?_⟩, ?_⟩, ?_⟩, ?_⟩
  · intro r hr; exact (hT r).mpr (.root hr)
  · intro t ht c hc; exact (hT c).mpr (.child ((hT t).mp ht) hc)
  · exact hn0 n hn
  · intro b hb
    rcases (hB b).mp hb with h | ⟨t, htR, hbt⟩
    · cases h
    · exact ⟨t, hn0 n hn t ((hT t).mpr htR), hbt⟩
  · rintro b ⟨t, hts, hbt⟩
    exact (hB b).mpr (Or.inr ⟨t, (hT t).mp hts, hbt⟩)
  · intro t hts
    rcases hG t ((hT t).mp hts) with h | h
    · cases h
    · exact h
  · intro t _; exact hO.1 t
  · intro t hts
    rcases hP t hts with h | h
    · cases h
    · exact hL t (Or.inr h)
  · intro t hl; exact (hO.2 t hl).1

/-! ### Termination: every schedule finishes on a finite store -/

/-- work still queued, weighted by how many moves it is away from being received -/
def weight (s : State ID) : Nat :=
  4 * s.backlog.length + (if s.pending.isSome then 3 else 0) + 2 * s.outstanding.length + s.done.length

/-- trees of the (finite) universe `U` whose job has not been received yet -/
def unrecv (U : List ID) (s : State ID) : Nat :=
  (U.filter fun t => decide (t ∉ s.received)).length

theorem filter_length_le {l : List ID} {p q : ID → Bool} (hpq : ∀ x, q x = true → p x = true) :
    (l.filter q).length ≤ (l.filter p).length := by
  induction l with
  | nil => simp
  | cons y ys ih =>
    by_cases hqy : q y = true
    · rw [List.filter_cons_of_pos hqy, List.filter_cons_of_pos (hpq y hqy)]
      simp only [List.length_cons]; omega
    · rw [List.filter_cons_of_neg hqy]
      by_cases hpy : p y = true
      · rw [List.filter_cons_of_pos hpy]; simp only [List.length_cons]; omega
      · rw [List.filter_cons_of_neg hpy]; exact ih

theorem filter_length_lt {l : List ID} {p q : ID → Bool} (hpq : ∀ x, q x = true → p x = true)
    {a : ID} (ha : a ∈ l) (hp : p a = true) (hq : q a = false) :
    (l.filter q).length < (l.filter p).length := by
  induction l with
  | nil => cases ha
  | cons x xs ih =>
    have hle : (xs.filter q).length ≤ (xs.filter p).length := filter_length_le hpq
    rcases List.mem_cons.mp ha with h | h
    · subst h
      rw [List.filter_cons_of_pos hp, List.filter_cons_of_neg (by simp [hq])]
      simp only [List.length_cons]; omega
    · have := ih h
      by_cases hqx : q x = true
      · rw [List.filter_cons_of_pos hqx, List.filter_cons_of_pos (hpq x hqx)]
        simp only [List.length_cons]; omega
      · rw [List.filter_cons_of_neg hqx]
        by_cases hpx : p x = true
        · rw [List.filter_cons_of_pos hpx]; simp only [List.length_cons]; omega
        · rw [List.filter_cons_of_neg hpx]; exact this

/-- jobs handed back (waiting or received) never outnumber the loads of that tree -/
def Handed (s : State ID) : Prop :=
  ∀ t, (s.done.map Prod.fst).count t + s.received.count t ≤ s.loads.count t

theorem handed_step {cfg : Cfg ID} {c : Consumer ID} {s s' : State ID}
    (hh : Handed s) (h : Step cfg c s s') : Handed s' := by
  cases h with
  | popSkip _ _ _ _ => exact hh
  | popMark _ _ _ _ => exact hh
  | send _ _ => exact hh
  | workAbort _ _ _ => intro t; have := hh t; simp only [List.count_cons]; split <;> omega
  | workPanic _ _ _ _ => intro t; have := hh t; simp only [List.count_cons]; split <;> omega
  | workDone _ _ _ =>
    intro t; have := hh t
    simp only [List.map_cons, List.count_cons]
    split <;> omega
  | @recv id subs _ hm =>
    intro t
    have := hh t
    have hp : (s.done.map Prod.fst).Perm (id :: (s.done.erase (id, subs)).map Prod.fst) :=
      (List.perm_cons_erase hm).map Prod.fst
    have hc := hp.count_eq t
    by_cases ht : id = t
    · subst ht; simp at hc ⊢; omega
    · simp [ht] at hc ⊢; omega

theorem handed_run {cfg : Cfg ID} {c : Consumer ID} {roots seen0 blobs0 : List ID} {s : State ID}
    (h : Run cfg c (init roots seen0 blobs0) s) : Handed s := by
  generalize hs0 : init roots seen0 blobs0 = s0 at h
  induction h with
  | refl => subst hs0; intro t; simp [init]
  | tail a _ hs ih => exact handed_step ih (step_Step hs)

/-- **termination**: if the reachable trees lie in a finite list `U` (finite repository), every
    step of every schedule strictly decreases the lexicographic measure `(unrecv, weight)`;
    hence no schedule runs forever, and by `progress` every schedule ends terminal, failed (or,
    for a non-draining consumer, panicked). -/
theorem measure_decreases {cfg : Cfg ID} {c : Consumer ID} {roots seen0 blobs0 U : List ID}
    (hU : ∀ t, Reach cfg roots t → t ∈ U) {s s' : State ID}
    (h : Run cfg c (init roots seen0 blobs0) s) {a : Action ID} (hs : step cfg c a s = some s') :
    unrecv U s' < unrecv U s ∨ (unrecv U s' = unrecv U s ∧ weight s' < weight s) := by
  have hst := step_Step hs
  have hi := inv_run h hst.running
  have hh := handed_run h
  have ho := (each_tree_once h).1
  cases hst with
  | popSkip _ hp hb _ => right; simp [unrecv, weight, hp, hb] <;> omega
  | popMark _ hp hb _ => right; simp [unrecv, weight, hp, hb] <;> omega
  | send _ hp => right; simp [unrecv, weight, hp] <;> omega
  | workAbort _ hm _ =>
    right
    have := List.length_erase_of_mem hm
    have hpos : 0 < s.outstanding.length := List.length_pos_of_mem hm
    simp [unrecv, weight, this] <;> omega
  | workPanic _ hm _ _ =>
    right
    have := List.length_erase_of_mem hm
    have hpos : 0 < s.outstanding.length := List.length_pos_of_mem hm
    simp [unrecv, weight, this] <;> omega
  | workDone _ hm _ =>
    right
    have := List.length_erase_of_mem hm
    have hpos : 0 < s.outstanding.length := List.length_pos_of_mem hm
    simp [unrecv, weight, this] <;> omega
  | @recv id subs _ hm =>
    left
    have hidU : id ∈ U := hU id (hi.doneReach _ hm)
    have hnr : id ∉ s.received := by
      intro hr
      have h1 : 0 < s.received.count id := List.count_pos_iff.mpr hr
      have h2 : 0 < (s.done.map Prod.fst).count id :=
        List.count_pos_iff.mpr (List.mem_map.mpr ⟨(id, subs), hm, rfl⟩)
      have := hh id; have := ho id; omega
    unfold unrecv
    apply filter_length_lt (a := id) _ hidU
    · simpa using hnr
    · simp
    · intro x hx
      simp only [decide_eq_true_eq, List.mem_cons, not_or] at hx ⊢
      exact hx.2

/-! ### Non-vacuity and the negation witness for the unfixed checker -/

/-- a diamond: tree 4 is shared by 2 and 3 -/
def exStore : Nat → Loaded Nat
  | 1 => .tree [{ kind := .dir, content := [], subtree := some 2 }, { kind := .dir, content := [], subtree := some 3 },
                { kind := .dir, content := [], subtree := some 0 }] false
  | 2 => .tree [{ kind := .dir, content := [], subtree := some 4 }, { kind := .file, content := [10], subtree := none }] false
  | 3 => .tree [{ kind := .dir, content := [], subtree := some 4 }, { kind := .other, content := [12], subtree := some 9 }] false
  | 4 => .tree [{ kind := .file, content := [11, 10], subtree := none }] false
  | 5 => .tree [{ kind := .dir, content := [], subtree := some 4 }] true
  | _ => .missing

def exCfg : Cfg Nat := { store := exStore, isNull := fun t => t == 0 }

/-- sequential schedule and a different interleaving both end terminal with the same sets;
    tree 4 is loaded once although it is referenced twice -/
example : let s := run exCfg findUsed 100 [] (init [1] [] [])
    (terminal s, s.seen, s.blobs, s.loads.count 4) = (true, [4, 3, 2, 1], [11, 10, 10], 1) := by decide
example : let s := run exCfg findUsed 100 [1, 1, 1, 1, 1, 1, 1, 1, 1, 1, 1, 1] (init [1] [] [])
    (terminal s, s.loads.count 4, s.seen.length) = (true, 1, 4) := by decide
example : specOK exCfg [1] 5 [1, 2, 3, 4] [10, 11] [1, 2, 3, 4] = true := by decide
/-- a missing subtree makes FindUsedBlobs fail; a part-way undecodable tree too -/
example : (run exCfg findUsed 100 [] (init [1, 7] [] [])).status = .failed := by decide
example : (run exCfg findUsed 100 [] (init [5] [] [])).status = .failed := by decide
/-- the fixed checker reports tree 5 and still follows the subtree decoded before the error -/
example : let s := run exCfg (checker true) 100 [] (init [5] [] [])
    (terminal s, s.reported, s.seen) = (true, [5], [4, 5]) := by decide
/-- **negation witness (F15)**: with `break` instead of draining (`checker false`, the code before
    the fix) the same input reaches the "tree was not read completely" panic. -/
theorem checker_unfixed_panics :
    (run exCfg (checker false) 100 [] (init [5] [] [])).status = .panicked := by decide

/-! ### T1: facts regenerated from the source on every run -/

/-- `loadTreeWorker` asks the collector for the subtrees only after `process` has run (so the
    consumer's reading of the iterator is what fills it), `FindUsedBlobs`' skip callback tests
    before it inserts, and `checkTree` still looks up blobs and checks for null ids -/
theorem traversal_call_order :
    (Restic.Gen.loadTreeWorker_calls.idxOf "LoadTree" < Restic.Gen.loadTreeWorker_calls.idxOf "process") ∧
    (Restic.Gen.loadTreeWorker_calls.idxOf "process" < Restic.Gen.loadTreeWorker_calls.idxOf "collectSubtrees") ∧
    "collectSubtrees" ∈ Restic.Gen.loadTreeWorker_calls ∧
    (Restic.Gen.FindUsedBlobs_calls.idxOf "blobs.Has" < Restic.Gen.FindUsedBlobs_calls.idxOf "blobs.Insert") ∧
    "StreamTrees" ∈ Restic.Gen.FindUsedBlobs_calls ∧
    "c.repo.LookupBlobSize" ∈ Restic.Gen.checkTree_calls := by decide

end Restic.Props.C42
