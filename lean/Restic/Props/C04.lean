import Restic.Model.Secrecy
import Restic.Gen.Source
/-!
# C04 — Repository contents leak no plaintext and never reuse a nonce

PARTIAL BY NATURE. Computational secrecy of AES-CTR and the quality of `crypto/rand` cannot be
expressed here. What is proved, for every sequence of write operations of the symbolic model
(`Restic.Model.Secrecy`): every payload handed to the backend is built from sealed terms, public
framing and nonces only (`stored_sealed`), every `Seal` call consumes its own fresh draw of the
nonce supply (`nonce_fresh`), no draw occurs in two different stored objects (`stored_nonces_nodup`),
and every seal is stored right behind the nonce it was made with (`stored_well_framed`).

The tie to the code is T1: for each of the four functions that call `.Seal(` the regenerated call
list shows exactly one `crypto.NewRandomNonce` before exactly one `Seal`, `NewRandomNonce` reads
`crypto/rand`, and each backend `Save` of the package comes after the seal / finalize step. (That
these four are ALL sealing sites is checked by the correspondence run's nonce scan only; an
inventory fact needs a new extractor kind — requested in the report.)
-/
namespace Restic.Props.C04
open Restic.Model.Secrecy

/-! ### T1 -/

/-- each sealing function draws exactly one fresh nonce and seals exactly once, in this order -/
theorem seal_sites_fresh_nonce :
    (let c := Restic.Gen.repo_saveAndEncrypt_calls
     c.count "crypto.NewRandomNonce" = 1 ∧ c.count "r.key.Seal" = 1 ∧
     c.idxOf "crypto.NewRandomNonce" < c.idxOf "r.key.Seal" ∧ c.idxOf "r.key.Seal" < c.idxOf "pm.SaveBlob") ∧
    (let c := Restic.Gen.repo_saveUnpacked_calls
     c.count "crypto.NewRandomNonce" = 1 ∧ c.count "r.key.Seal" = 1 ∧
     c.idxOf "crypto.NewRandomNonce" < c.idxOf "r.key.Seal" ∧ c.idxOf "r.key.Seal" < c.idxOf "r.be.Save" ∧
     c.count "r.be.Save" = 1) ∧
    (let c := Restic.Gen.pack_Finalize_calls
     c.count "crypto.NewRandomNonce" = 1 ∧ c.count "p.k.Seal" = 1 ∧
     c.idxOf "crypto.NewRandomNonce" < c.idxOf "p.k.Seal" ∧ c.idxOf "p.k.Seal" < c.idxOf "p.wr.Write") ∧
    (let c := Restic.Gen.repo_AddKey_calls
     c.count "crypto.NewRandomNonce" = 1 ∧ c.count "newkey.user.Seal" = 1 ∧
     c.idxOf "crypto.NewRandomNonce" < c.idxOf "newkey.user.Seal" ∧
     c.idxOf "newkey.user.Seal" < c.idxOf "s.be.Save" ∧ c.count "s.be.Save" = 1) := by decide

/-- calls strictly between the first occurrences of `a` and `b` -/
def between (c : List String) (a b : String) : List String :=
  ((c.drop (c.idxOf a + 1)).take (c.idxOf b - c.idxOf a - 1))

/-- between the draw of the nonce and its use nothing is called that could touch it: only the
    allocation of the output buffer and the `append` that copies the nonce in front of it
    (a `copy`, a second draw or any helper in between makes this obligation fail) -/
theorem nonce_untouched_between_draw_and_seal :
    between Restic.Gen.repo_saveAndEncrypt_calls "crypto.NewRandomNonce" "r.key.Seal" =
      ["len", "crypto.CiphertextLength", "make", "append"] ∧
    between Restic.Gen.repo_saveUnpacked_calls "crypto.NewRandomNonce" "r.key.Seal" = ["append"] ∧
    between Restic.Gen.pack_Finalize_calls "crypto.NewRandomNonce" "p.k.Seal" = ["append"] ∧
    between Restic.Gen.repo_AddKey_calls "crypto.NewRandomNonce" "newkey.user.Seal" =
      ["len", "crypto.CiphertextLength", "make", "append"] := by decide

/-- a nonce is 16 bytes of `crypto/rand`, nothing else -/
theorem nonce_from_rand : Restic.Gen.crypto_NewRandomNonce_calls = ["make", "rand.Read", "panic"] := by decide

/-- a pack is uploaded only after `Finalize` sealed its header; `Packer.Add` itself seals nothing
    and writes what it is given (the ciphertext produced by `saveAndEncrypt`) -/
theorem pack_upload_after_finalize :
    (let c := Restic.Gen.repo_savePacker_calls
     c.idxOf "p.Packer.Finalize" < c.idxOf "r.be.Save" ∧ c.count "r.be.Save" = 1) ∧
    (∀ s ∈ Restic.Gen.pack_Add_calls, s ≠ "p.k.Seal" ∧ s ≠ "crypto.NewRandomNonce") := by decide

/-! ### invariants of `step` -/

theorem safe_foldr (l : List Term) (z : Term) (hl : ∀ t ∈ l, t.safe = true) (hz : z.safe = true) :
    (l.foldr Term.cat z).safe = true := by
  induction l with
  | nil => exact hz
  | cons a as ih =>
    simp only [List.foldr_cons, Term.safe, Bool.and_eq_true]
    exact ⟨hl a (List.mem_cons_self ..), ih (fun t ht => hl t (List.mem_cons_of_mem _ ht))⟩

def InvSafe (s : St) : Prop := (∀ t ∈ s.stored, t.safe = true) ∧ (∀ t ∈ s.packer, t.safe = true)

theorem step_safe (s : St) (op : Op) (h : InvSafe s) : InvSafe (step s op) := by
  obtain ⟨h1, h2⟩ := h
  cases op with
  | saveBlob data c =>
    refine ⟨h1, ?_⟩
    intro t ht
    simp only [step, List.mem_append, List.mem_singleton] at ht
    rcases ht with ht | ht
    · exact h2 t ht
    · subst ht; rfl
  | finalizePack header =>
    refine ⟨?_, by simp [step]⟩
    intro t ht
    simp only [step, List.mem_append, List.mem_singleton] at ht
    rcases ht with ht | ht
    · exact h1 t ht
    · subst ht; exact safe_foldr _ _ h2 rfl
  | saveUnpacked data c =>
    refine ⟨?_, h2⟩
    intro t ht
    simp only [step, List.mem_append, List.mem_singleton] at ht
    rcases ht with ht | ht
    · exact h1 t ht
    · subst ht; rfl
  | addKey info u mk =>
    refine ⟨?_, h2⟩
    intro t ht
    simp only [step, List.mem_append, List.mem_singleton] at ht
    rcases ht with ht | ht
    · exact h1 t ht
    · subst ht; rfl
  | resaveConfig i =>
    simp only [step]
    split
    · rename_i t hi
      refine ⟨?_, h2⟩
      intro t' ht'
      simp only [List.mem_append, List.mem_singleton] at ht'
      rcases ht' with ht' | ht'
      · exact h1 t' ht'
      · subst ht'; exact h1 _ (List.mem_of_getElem? hi)
    · exact ⟨h1, h2⟩

theorem foldl_inv {P : St → Prop} (hstep : ∀ s op, P s → P (step s op)) (ops : List Op) (s : St)
    (h : P s) : P (ops.foldl step s) := by
  induction ops generalizing s with
  | nil => exact h
  | cons op ops ih => exact ih _ (hstep s op h)

/-- **Everything handed to the backend is sealed**: in every payload of every operation sequence,
    user plaintext (`plain`) occurs only inside `Seal`; outside there is public framing, nonces,
    and — in key files — the informational fields. -/
theorem stored_sealed (ops : List Op) : ∀ t ∈ (run ops).stored, t.safe = true :=
  (foldl_inv step_safe ops {} ⟨by simp, by simp⟩).1

/-- **Every `Seal` call gets its own draw**: the k-th seal uses the k-th draw of the supply. -/
theorem seals_eq_range (ops : List Op) : (run ops).seals = List.range (run ops).next := by
  refine foldl_inv (P := fun s => s.seals = List.range s.next) ?_ ops {} rfl
  intro s op h
  cases op <;> simp only [step, h, List.range_succ]
  split <;> simp [h]

theorem nonce_fresh (ops : List Op) : (run ops).seals.Nodup := by
  rw [seals_eq_range]; exact List.nodup_range

/-! ### no draw occurs in two stored objects -/

theorem sealNonces_foldr (l : List Term) (z : Term) :
    (l.foldr Term.cat z).sealNonces = l.flatMap Term.sealNonces ++ z.sealNonces := by
  induction l with
  | nil => simp
  | cons a as ih => simp [Term.sealNonces, ih]

/-- operation sequences without the config re-upload of `upgrade_repo` -/
def NoResave (ops : List Op) : Prop := ∀ op ∈ ops, ∀ i, op ≠ Op.resaveConfig i

def allNonces (s : St) : List Nat := s.stored.flatMap Term.sealNonces ++ s.packer.flatMap Term.sealNonces

theorem step_nonces (s : St) (op : Op) (hop : ∀ i, op ≠ Op.resaveConfig i)
    (h : (allNonces s).Perm (List.range s.next)) :
    (allNonces (step s op)).Perm (List.range (step s op).next) := by
  cases op with
  | resaveConfig i => exact absurd rfl (hop i)
  | saveBlob data c =>
    simp only [step, allNonces, List.flatMap_append, List.range_succ, sealWithNonce, List.flatMap_cons,
      List.flatMap_nil, Term.sealNonces, List.nil_append, List.append_nil, ← List.append_assoc]
    exact List.Perm.append_right _ h
  | saveUnpacked data c =>
    simp only [step, allNonces, List.flatMap_append, List.range_succ, sealWithNonce, List.flatMap_cons,
      List.flatMap_nil, Term.sealNonces, List.nil_append, List.append_nil]
    have : (s.stored.flatMap Term.sealNonces ++ [s.next] ++ s.packer.flatMap Term.sealNonces).Perm
        (s.stored.flatMap Term.sealNonces ++ s.packer.flatMap Term.sealNonces ++ [s.next]) := by
      rw [List.append_assoc, List.append_assoc]
      exact List.Perm.append_left _ List.perm_append_comm
    exact this.trans (List.Perm.append_right _ h)
  | addKey info u mk =>
    simp only [step, allNonces, List.flatMap_append, List.range_succ, sealWithNonce, List.flatMap_cons,
      List.flatMap_nil, Term.sealNonces, List.nil_append, List.append_nil]
    have : (s.stored.flatMap Term.sealNonces ++ [s.next] ++ s.packer.flatMap Term.sealNonces).Perm
        (s.stored.flatMap Term.sealNonces ++ s.packer.flatMap Term.sealNonces ++ [s.next]) := by
      rw [List.append_assoc, List.append_assoc]
      exact List.Perm.append_left _ List.perm_append_comm
    exact this.trans (List.Perm.append_right _ h)
  | finalizePack header =>
    simp only [step, allNonces, List.flatMap_append, List.range_succ, sealWithNonce, List.flatMap_cons,
      List.flatMap_nil, Term.sealNonces, List.nil_append, List.append_nil, sealNonces_foldr]
    rw [← List.append_assoc]
    exact List.Perm.append_right _ h

/-- **No nonce is reused across the repository**: collecting the nonce of every seal in every
    stored object (and in the packer's pending blobs) gives each draw exactly once. -/
theorem stored_nonces_nodup (ops : List Op) (h : NoResave ops) : (allNonces (run ops)).Nodup := by
  have : (allNonces (run ops)).Perm (List.range (run ops).next) := by
    unfold run
    suffices hs : ∀ (s : St), (allNonces s).Perm (List.range s.next) →
        (allNonces (ops.foldl step s)).Perm (List.range (ops.foldl step s).next) from
      hs {} (by simp [allNonces])
    induction ops with
    | nil => intro s hs; exact hs
    | cons op ops ih =>
      intro s hs
      exact ih (fun o ho => h o (List.mem_cons_of_mem _ ho)) _
        (step_nonces s op (h op (List.mem_cons_self ..)) hs)
  exact this.nodup_iff.mpr List.nodup_range

/-- the only operation that stores an old nonce again re-uploads an identical payload -/
theorem resave_is_copy (s : St) (i : Nat) (t : Term) (h : s.stored[i]? = some t) :
    (step s (.resaveConfig i)).stored = s.stored ++ [t] ∧ (step s (.resaveConfig i)).seals = s.seals := by
  simp [step, h]

/-! ### the reader finds the right nonce -/

theorem wellFramed_foldr (l : List Term) (z : Term) (hl : ∀ t ∈ l, ∃ k n b, t = sealWithNonce k n b)
    (hz : z.wellFramed = true) : (l.foldr Term.cat z).wellFramed = true := by
  induction l with
  | nil => exact hz
  | cons a as ih =>
    obtain ⟨k, n, b, rfl⟩ := hl a (List.mem_cons_self ..)
    have := ih (fun t ht => hl t (List.mem_cons_of_mem _ ht))
    simp only [List.foldr_cons, sealWithNonce]
    unfold Term.wellFramed
    simp [Term.wellFramed, this]

def InvFramed (s : St) : Prop :=
  (∀ t ∈ s.stored, t.wellFramed = true) ∧ (∀ t ∈ s.packer, ∃ k n b, t = sealWithNonce k n b)

theorem step_framed (s : St) (op : Op) (h : InvFramed s) : InvFramed (step s op) := by
  obtain ⟨h1, h2⟩ := h
  cases op with
  | saveBlob data c =>
    refine ⟨h1, ?_⟩
    intro t ht
    simp only [step, List.mem_append, List.mem_singleton] at ht
    rcases ht with ht | ht
    · exact h2 t ht
    · exact ⟨_, _, _, ht⟩
  | finalizePack header =>
    refine ⟨?_, by simp [step]⟩
    intro t ht
    simp only [step, List.mem_append, List.mem_singleton] at ht
    rcases ht with ht | ht
    · exact h1 t ht
    · subst ht
      exact wellFramed_foldr _ _ h2 (by simp [sealWithNonce, Term.wellFramed])
  | saveUnpacked data c =>
    refine ⟨?_, h2⟩
    intro t ht
    simp only [step, List.mem_append, List.mem_singleton] at ht
    rcases ht with ht | ht
    · exact h1 t ht
    · subst ht; simp [sealWithNonce, Term.wellFramed]
  | addKey info u mk =>
    refine ⟨?_, h2⟩
    intro t ht
    simp only [step, List.mem_append, List.mem_singleton] at ht
    rcases ht with ht | ht
    · exact h1 t ht
    · subst ht; simp [sealWithNonce, Term.wellFramed]
  | resaveConfig i =>
    simp only [step]
    split
    · rename_i t hi
      refine ⟨?_, h2⟩
      intro t' ht'
      simp only [List.mem_append, List.mem_singleton] at ht'
      rcases ht' with ht' | ht'
      · exact h1 t' ht'
      · subst ht'; exact h1 _ (List.mem_of_getElem? hi)
    · exact ⟨h1, h2⟩

/-- every stored seal sits right behind the nonce it was made with -/
theorem stored_well_framed (ops : List Op) : ∀ t ∈ (run ops).stored, t.wellFramed = true :=
  (foldl_inv step_framed ops {} ⟨by simp, by simp⟩).1

/-! ### Non-vacuity -/

example : (run [.saveBlob [1] true, .saveBlob [2] false, .finalizePack [9], .saveUnpacked [3] true,
    .addKey [7] 0 [8], .resaveConfig 1]).seals = [0, 1, 2, 3, 4] := by decide
example : (run [.saveBlob [1] true, .saveBlob [2] false, .finalizePack [9]]).stored =
    [.cat (sealWithNonce .master 0 (.enc (.plain [1]))) (.cat (sealWithNonce .master 1 (.plain [2]))
      (.cat (sealWithNonce .master 2 (.plain [9])) (.pub [])))] := by decide
-- a (hypothetical) write path that stores data unsealed is NOT safe: the predicate is not vacuous
example : (Term.cat (.nonce 0) (.plain [1])).safe = false := by decide
example : specOK 0 [[1], [2]] = true ∧ specOK 0 [[1], [1]] = false ∧ specOK 1 [] = false := by decide

end Restic.Props.C04
