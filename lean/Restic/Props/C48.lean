import Restic.Model.AssocSet
import Restic.Gen.Source
/-!
# C48 — Blob sets report each member once

Statement (properties.jsonl): the blob sets used by prune, check, copy and diff report a length
equal to the number of distinct members and enumerate each member exactly once, whatever the
repository index contains (including the same blob stored in several packs).

Theorems about `Restic.Model.AssocSet` (transcription of `associated_data.go` **with** the fix
`fix/C48-associated-set-once`), for every master index (any number of entries per blob, merged and
unmerged indexes), every set state reachable by `Set/Insert/Delete/Intersect/Sub`, also when the
master index grows while the set is in use:

* `keys_nodup`, `mem_all_iff`, `len_eq_card`: enumeration yields every member exactly once and
  `Len` counts the members;
* `get_set`, `get_delete`, `get_new`, `get_intersect`, `get_subtract`: the structure refines a
  finite map `Handle → T`;
* `history_refines` / `rep_spec`: after any op sequence the executable statement `specAll/specKeys/
  specLen/specGet` holds;
* `old_all_reports_twice`: the original iteration violates the property (negation witness).
-/
namespace Restic.Props.C48
open Restic.Model.IndexMap (ID Val firstPos)
open Restic.Model.Index Restic.Model.AssocSet

/-- T1 (regenerated from associated_data.go): `All` iterates `firstValues` of the main index (the
    fixed iteration transcribed as `ASet.all`), not every entry of every index (`Values`), and
    `Len` counts what `All` yields -/
theorem all_iterates_firstValues :
    "a.idx.firstValues" ∈ Restic.Gen.AssociatedSet_All_calls
    ∧ "a.idx.Values" ∉ Restic.Gen.AssociatedSet_All_calls
    ∧ Restic.Gen.AssociatedSet_Len_calls = ["a.All"] := by decide

/-! ### `firstIndex` (abstract level, see C56) -/

theorem firstPos_cases (m : List Val) (id : ID) :
    (firstPos m id = -1 ∧ ∀ v, v ∈ m → v.id ≠ id) ∨
    (∃ i, firstPos m id = ((i + 1 : Nat) : Int) ∧ ∃ h : i < m.length, m[i].id = id ∧
      ∀ j (hj : j < i), m[j].id ≠ id) := by
  unfold firstPos
  cases hf : m.findIdx? (fun v => v.id == id) with
  | none =>
    left
    rw [List.findIdx?_eq_none_iff] at hf
    exact ⟨rfl, fun v hv => by simpa using hf v hv⟩
  | some i =>
    right
    rw [List.findIdx?_eq_some_iff_getElem] at hf
    obtain ⟨h, h1, h2⟩ := hf
    exact ⟨i, by simp, h, by simpa using h1, fun j hj => by simpa using h2 j hj⟩

theorem firstPos_range (m : List Val) (id : ID) :
    firstPos m id = -1 ∨ ∃ i, 1 ≤ i ∧ i ≤ m.length ∧ firstPos m id = (i : Int) := by
  rcases firstPos_cases m id with ⟨h, _⟩ | ⟨i, h, hl, _⟩
  · exact Or.inl h
  · exact Or.inr ⟨i + 1, by omega, by omega, h⟩

/-- two ids with the same (valid) first position are equal: a slot belongs to one handle only -/
theorem firstPos_inj (m : List Val) (a b : ID) (h : firstPos m a = firstPos m b) (hv : firstPos m a ≠ -1) : a = b := by
  rcases firstPos_cases m a with ⟨ha, _⟩ | ⟨i, hi, hl, hia, _⟩
  · exact absurd ha hv
  · rcases firstPos_cases m b with ⟨hb, _⟩ | ⟨j, hj, hl', hjb, _⟩
    · rw [h] at hv; exact absurd hb hv
    · rw [hi, hj] at h
      have : i = j := by omega
      subst this
      rw [← hia, ← hjb]

/-- appending entries never changes an existing first position; a new one lies behind the old end -/
theorem firstPos_append (m s : List Val) (id : ID) :
    (firstPos m id ≠ -1 → firstPos (m ++ s) id = firstPos m id) ∧
    (firstPos m id = -1 → firstPos (m ++ s) id = -1 ∨ (m.length : Int) < firstPos (m ++ s) id) := by
  unfold firstPos
  rw [List.findIdx?_append]
  cases hf : m.findIdx? (fun v => v.id == id) with
  | some i => simp; omega
  | none =>
    cases hs : s.findIdx? (fun v => v.id == id) with
    | none => simp
    | some j => simp; omega

/-! ### `firstValues`: every handle of the main index once, with its blobIndex -/

theorem firstValuesFrom_sound (t : BlobType) (m : IMap) : ∀ (vs : List Val) (pos : Nat) (x : Nat × Handle),
    x ∈ firstValuesFrom t m pos vs → pos < x.1 ∧ firstPos m x.2.id = (x.1 : Int) ∧ x.2.type = t
  | [], _, _, h => by simp [firstValuesFrom] at h
  | v :: vs, pos, x, h => by
    simp only [firstValuesFrom] at h
    split at h
    · rename_i hc
      rcases List.mem_cons.mp h with rfl | h
      · exact ⟨by simp, by simpa using hc, rfl⟩
      · have := firstValuesFrom_sound t m vs (pos + 1) x h
        exact ⟨by omega, this.2⟩
    · have := firstValuesFrom_sound t m vs (pos + 1) x h
      exact ⟨by omega, this.2⟩

theorem firstValuesFrom_nodup (t : BlobType) (m : IMap) : ∀ (vs : List Val) (pos : Nat),
    ((firstValuesFrom t m pos vs).map (·.2)).Nodup
  | [], _ => by simp [firstValuesFrom]
  | v :: vs, pos => by
    simp only [firstValuesFrom]
    split
    · rename_i hc
      rw [List.map_cons, List.nodup_cons]
      refine ⟨?_, firstValuesFrom_nodup t m vs (pos + 1)⟩
      intro hm
      obtain ⟨x, hx, hx2⟩ := List.mem_map.mp hm
      obtain ⟨h1, h2, _⟩ := firstValuesFrom_sound t m vs (pos + 1) x hx
      have hc' : firstPos m v.id = ((pos + 1 : Nat) : Int) := by simpa using hc
      rw [hx2] at h2
      simp only at h2
      rw [hc'] at h2
      omega
    · exact firstValuesFrom_nodup t m vs (pos + 1)

theorem firstValuesFrom_complete (t : BlobType) (m : IMap) : ∀ (vs pre : List Val), m = pre ++ vs →
    ∀ (id : ID) (i : Nat), firstPos m id = (i : Int) → pre.length < i →
      (i, (⟨t, id⟩ : Handle)) ∈ firstValuesFrom t m pre.length vs
  | [], pre, hm, id, i, hf, hi => by
    rcases firstPos_range m id with h | ⟨j, _, hj, h⟩
    · rw [h] at hf; omega
    · rw [h] at hf
      have : j = i := by omega
      subst this
      rw [hm] at hj; simp at hj; omega
  | v :: vs, pre, hm, id, i, hf, hi => by
    have hm' : m = (pre ++ [v]) ++ vs := by simp [hm]
    have hlen : (pre ++ [v]).length = pre.length + 1 := by simp
    simp only [firstValuesFrom]
    by_cases hi1 : i = pre.length + 1
    · -- this is the entry at position i
      subst hi1
      rcases firstPos_cases m id with ⟨h, _⟩ | ⟨j, hj, hl, hjid, _⟩
      · rw [h] at hf; omega
      · rw [hj] at hf
        have hjp : j = pre.length := by omega
        have hv : m[j] = v := by
          subst hjp
          simp [hm]
        rw [hv] at hjid
        have hc' : firstPos m id = (pre.length : Int) + 1 := by rw [hj]; omega
        simp [hjid, hc']
    · have ih := firstValuesFrom_complete t m vs (pre ++ [v]) hm' id i hf (by rw [hlen]; omega)
      rw [hlen] at ih
      split
      · exact List.mem_cons_of_mem _ ih
      · exact ih

theorem blobIndex_cases (mi : MasterIndex) (h : Handle) :
    blobIndex mi h = -1 ∨ ∃ i, 1 ≤ i ∧ i ≤ (mi.first.byType h.type).length ∧ blobIndex mi h = (i : Int) :=
  firstPos_range _ _

theorem mem_firstValues (mi : MasterIndex) (i : Nat) (h : Handle) :
    (i, h) ∈ firstValues mi ↔ blobIndex mi h = (i : Int) := by
  unfold firstValues firstValuesOf blobIndex
  rw [List.mem_append]
  constructor
  · rintro (hm | hm)
    · obtain ⟨_, h2, h3⟩ := firstValuesFrom_sound _ _ _ _ _ hm
      simp only at h2 h3
      rw [h3]; exact h2
    · obtain ⟨_, h2, h3⟩ := firstValuesFrom_sound _ _ _ _ _ hm
      simp only at h2 h3
      rw [h3]; exact h2
  · intro hf
    have hi : 0 < i := by
      rcases firstPos_range (mi.first.byType h.type) h.id with h1 | ⟨j, hj, _, h1⟩
      · rw [h1] at hf; omega
      · rw [h1] at hf; omega
    cases h with
    | mk t id =>
      cases t with
      | data => exact Or.inl (firstValuesFrom_complete .data mi.first.data mi.first.data [] rfl id i hf hi)
      | tree => exact Or.inr (firstValuesFrom_complete .tree mi.first.tree mi.first.tree [] rfl id i hf hi)

theorem firstValues_nodup (mi : MasterIndex) : ((firstValues mi).map (·.2)).Nodup := by
  unfold firstValues firstValuesOf
  rw [List.map_append, List.nodup_append]
  refine ⟨firstValuesFrom_nodup _ _ _ _, firstValuesFrom_nodup _ _ _ _, ?_⟩
  intro a ha b hb hab
  obtain ⟨x, hx, rfl⟩ := List.mem_map.mp ha
  obtain ⟨y, hy, rfl⟩ := List.mem_map.mp hb
  have h1 := (firstValuesFrom_sound _ _ _ _ _ hx).2.2
  have h2 := (firstValuesFrom_sound _ _ _ _ _ hy).2.2
  rw [hab] at h1; rw [h1] at h2; cases h2

/-! ### the overflow map (association list with unique keys) -/

theorem ovGet_eq_some_iff (o : List (Handle × Nat)) (nd : (o.map (·.1)).Nodup) (h : Handle) (v : Nat) :
    ovGet o h = some v ↔ (h, v) ∈ o := by
  induction o with
  | nil => simp [ovGet]
  | cons p o ih =>
    rw [List.map_cons, List.nodup_cons] at nd
    simp only [ovGet, List.find?_cons] at ih ⊢
    by_cases hp : p.1 = h
    · have : (p.1 == h) = true := by simp [hp]
      simp only [this, Option.map_some, Option.some.injEq, List.mem_cons]
      constructor
      · intro hv; left; rw [← hv, ← hp]
      · rintro (he | hm)
        · rw [← he]
        · exfalso; apply nd.1; rw [hp]; exact List.mem_map_of_mem (f := (·.1)) hm
    · have : (p.1 == h) = false := by simp [hp]
      simp only [this, List.mem_cons]
      rw [ih nd.2]
      constructor
      · exact Or.inr
      · rintro (he | hm)
        · exfalso; apply hp; rw [← he]
        · exact hm

theorem ovGet_isSome_iff (o : List (Handle × Nat)) (h : Handle) : (ovGet o h).isSome ↔ h ∈ o.map (·.1) := by
  induction o with
  | nil => simp [ovGet]
  | cons p o ih =>
    simp only [ovGet, List.find?_cons] at ih ⊢
    by_cases hp : p.1 = h
    · simp [hp]
    · have : (p.1 == h) = false := by simp [hp]
      simp only [this, List.map_cons, List.mem_cons]
      rw [ih]
      constructor
      · exact Or.inr
      · rintro (he | hm)
        · exact absurd he.symm hp
        · exact hm

theorem ovGet_map_set (o : List (Handle × Nat)) (h h' : Handle) (v : Nat) :
    ovGet (o.map fun p => if p.1 == h then (h, v) else p) h' =
      if h' = h then (ovGet o h).map (fun _ => v) else ovGet o h' := by
  induction o with
  | nil => simp [ovGet]
  | cons p o ih =>
    simp only [ovGet, List.map_cons, List.find?_cons] at ih ⊢
    by_cases hp : p.1 = h
    · have e1 : (p.1 == h) = true := by simp [hp]
      simp only [e1, if_true]
      by_cases hh : h' = h
      · subst hh; simp
      · have e2 : (h == h') = false := by simp; exact fun e => hh e.symm
        have e3 : (p.1 == h') = false := by rw [hp]; exact e2
        simp only [e2, e3, hh, if_false]
        simpa [hh] using ih
    · have e1 : (p.1 == h) = false := by simp [hp]
      simp only [e1, Bool.false_eq_true, if_false]
      by_cases hh : h' = h
      · subst hh
        simp only [e1, if_true]
        simpa using ih
      · simp only [hh, if_false]
        by_cases hp' : p.1 = h'
        · simp [hp']
        · have e2 : (p.1 == h') = false := by simp [hp']
          simp only [e2]
          simpa [hh] using ih

theorem ovGet_append_single (o : List (Handle × Nat)) (h h' : Handle) (v : Nat) :
    ovGet (o ++ [(h, v)]) h' = (ovGet o h').or (if h' = h then some v else none) := by
  induction o with
  | nil =>
    simp only [ovGet, List.nil_append, List.find?_cons, List.find?_nil]
    by_cases hh : h' = h
    · subst hh; simp
    · have : (h == h') = false := by simp; exact fun e => hh e.symm
      simp [this, hh]
  | cons p o ih =>
    simp only [ovGet, List.cons_append, List.find?_cons] at ih ⊢
    by_cases hp : p.1 = h'
    · simp [hp]
    · have : (p.1 == h') = false := by simp [hp]
      simp only [this]
      exact ih

theorem ovGet_ovSet (o : List (Handle × Nat)) (h h' : Handle) (v : Nat) :
    ovGet (ovSet o h v) h' = if h' = h then some v else ovGet o h' := by
  unfold ovSet
  split
  · rename_i hany
    have hs : (ovGet o h).isSome := by
      rw [ovGet_isSome_iff]
      simp only [List.any_eq_true, beq_iff_eq] at hany
      obtain ⟨p, hp, hph⟩ := hany
      exact List.mem_map.mpr ⟨p, hp, hph⟩
    rw [ovGet_map_set]
    obtain ⟨x, hx⟩ := Option.isSome_iff_exists.mp hs
    simp [hx]
  · rename_i hany
    have hn : ovGet o h = none := by
      rw [← Option.not_isSome_iff_eq_none, ovGet_isSome_iff]
      intro hm
      obtain ⟨p, hp, hph⟩ := List.mem_map.mp hm
      apply hany
      simp only [List.any_eq_true, beq_iff_eq]
      exact ⟨p, hp, hph⟩
    rw [ovGet_append_single]
    by_cases hh : h' = h
    · subst hh; simp [hn]
    · simp [hh]

theorem ovSet_nodup (o : List (Handle × Nat)) (h : Handle) (v : Nat) (nd : (o.map (·.1)).Nodup) :
    ((ovSet o h v).map (·.1)).Nodup := by
  unfold ovSet
  split
  · have : (o.map fun p => if p.1 == h then (h, v) else p).map (·.1) = o.map (·.1) := by
      rw [List.map_map]
      apply List.map_congr_left
      intro p _
      simp only [Function.comp]
      split
      · rename_i hp; simp at hp; simp [hp]
      · rfl
    rw [this]; exact nd
  · rename_i hany
    rw [List.map_append, List.nodup_append]
    refine ⟨nd, by simp, ?_⟩
    intro a ha b hb hab
    simp at hb
    subst hb; subst hab
    apply hany
    obtain ⟨p, hp, hph⟩ := List.mem_map.mp ha
    simp only [List.any_eq_true, beq_iff_eq]
    exact ⟨p, hp, hph⟩

theorem ovGet_ovDel (o : List (Handle × Nat)) (h h' : Handle) :
    ovGet (ovDel o h) h' = if h' = h then none else ovGet o h' := by
  induction o with
  | nil => simp [ovGet, ovDel]
  | cons p o ih =>
    simp only [ovGet, ovDel, List.filter_cons] at ih ⊢
    by_cases hp : p.1 = h
    · have e1 : (p.1 == h) = true := by simp [hp]
      simp only [e1, Bool.not_true, Bool.false_eq_true, if_false]
      rw [ih]
      by_cases hh : h' = h
      · simp [hh]
      · have : (p.1 == h') = false := by rw [hp]; simp; exact fun e => hh e.symm
        simp [hh, List.find?_cons, this]
    · have e1 : (p.1 == h) = false := by simp [hp]
      simp only [e1, Bool.not_false, if_true, List.find?_cons]
      by_cases hp' : p.1 = h'
      · have : h' ≠ h := fun e => hp (hp'.trans e)
        simp [hp', this]
      · have : (p.1 == h') = false := by simp [hp']
        simp only [this]
        exact ih

theorem ovDel_nodup (o : List (Handle × Nat)) (h : Handle) (nd : (o.map (·.1)).Nodup) :
    ((ovDel o h).map (·.1)).Nodup :=
  nd.sublist ((List.filter_sublist).map _)

/-! ### representation invariant and the enumeration theorems -/

structure WF (a : ASet) : Prop where
  lenD : a.data.value.length = a.data.isSet.length
  lenT : a.tree.value.length = a.tree.isSet.length
  ovNodup : (a.overflow.map (·.1)).Nodup

theorem WF.len {a : ASet} (wf : WF a) (t : BlobType) : (a.sub t).value.length = (a.sub t).isSet.length := by
  cases t
  · exact wf.lenD
  · exact wf.lenT

theorem new_wf (mi : MasterIndex) : WF (ASet.new mi) := by
  refine ⟨by simp [ASet.new], by simp [ASet.new], by simp [ASet.new]⟩

/-- what `Get` answers for a handle that is not in the overflow map -/
def slotGet (mi : MasterIndex) (a : ASet) (h : Handle) : Option Nat :=
  let idx := blobIndex mi h
  let bt := a.sub h.type
  if idx ≥ bt.value.length ∨ idx = -1 then none
  else if bt.isSet.getD idx.toNat false then some (bt.value.getD idx.toNat 0) else none

theorem get_eq (mi : MasterIndex) (a : ASet) (h : Handle) :
    a.get mi h = match ovGet a.overflow h with
      | some v => some v
      | none => slotGet mi a h := rfl

theorem slotGet_eq_some_iff (mi : MasterIndex) (a : ASet) (wf : WF a) (h : Handle) (v : Nat) :
    slotGet mi a h = some v ↔ ∃ i : Nat, blobIndex mi h = (i : Int) ∧ i < (a.sub h.type).isSet.length ∧
      (a.sub h.type).isSet.getD i false = true ∧ v = (a.sub h.type).value.getD i 0 := by
  unfold slotGet
  have hl := wf.len h.type
  rcases blobIndex_cases mi h with hb | ⟨i, hi1, _, hb⟩
  · simp only [hb, or_true, if_true]
    constructor
    · intro h'; cases h'
    · rintro ⟨i, hi, _⟩; omega
  · rw [hb]
    simp only [Int.toNat_natCast]
    constructor
    · intro h'
      split at h'
      · cases h'
      · rename_i hc
        split at h'
        · rename_i hs
          cases h'
          exact ⟨i, rfl, by omega, hs, rfl⟩
        · cases h'
    · rintro ⟨j, hj, hjl, hs, hv⟩
      have : j = i := by omega
      subst this
      have hc : ¬ (((j : Nat) : Int) ≥ ((a.sub h.type).value.length : Int) ∨ ((j : Nat) : Int) = -1) := by omega
      simp only [hc, if_false, hs, if_true, hv]

/-- **each member is enumerated with its value, and nothing else is** -/
theorem mem_all_iff (mi : MasterIndex) (a : ASet) (wf : WF a) (h : Handle) (v : Nat) :
    (h, v) ∈ a.all mi ↔ a.get mi h = some v := by
  rw [get_eq]
  unfold ASet.all
  rw [List.mem_append, List.mem_filterMap]
  cases ho : ovGet a.overflow h with
  | some v' =>
    simp only [Option.some.injEq]
    rw [← ovGet_eq_some_iff _ wf.ovNodup, ho]
    constructor
    · rintro (h1 | ⟨⟨i, h'⟩, _, h2⟩)
      · exact Option.some.inj h1
      · simp only at h2
        split at h2
        · cases h2
        · rename_i hn
          split at h2
          · cases h2; simp [ho] at hn
          · cases h2
    · intro e; left; rw [e]
  | none =>
    simp only
    rw [slotGet_eq_some_iff mi a wf]
    constructor
    · rintro (h1 | ⟨⟨i, h'⟩, hm, h2⟩)
      · rw [← ovGet_eq_some_iff _ wf.ovNodup, ho] at h1; cases h1
      · simp only at h2
        split at h2
        · cases h2
        · split at h2
          · rename_i hc
            cases h2
            exact ⟨i, (mem_firstValues mi i h).mp hm, hc.1, hc.2, rfl⟩
          · cases h2
    · rintro ⟨i, hb, hl, hs, hv⟩
      right
      refine ⟨(i, h), (mem_firstValues mi i h).mpr hb, ?_⟩
      simp only [ho, Option.isSome_none, Bool.false_eq_true, if_false, hl, hs, and_self, if_true, hv]

/-- **Keys / All enumerate no handle twice** -/
theorem keys_nodup (mi : MasterIndex) (a : ASet) (wf : WF a) : (a.keys mi).Nodup := by
  unfold ASet.keys ASet.all
  rw [List.map_append, List.nodup_append]
  refine ⟨wf.ovNodup, ?_, ?_⟩
  · -- the array part: a sub-list of the (duplicate free) handles of the main index
    have hsub : ((firstValues mi).filterMap fun (x : Nat × Handle) =>
        if (ovGet a.overflow x.2).isSome then none
        else if x.1 < (a.sub x.2.type).isSet.length ∧ (a.sub x.2.type).isSet.getD x.1 false = true then
          some (x.2, (a.sub x.2.type).value.getD x.1 0) else none).map (·.1) =
        ((firstValues mi).filter fun (x : Nat × Handle) =>
          !(ovGet a.overflow x.2).isSome &&
            decide (x.1 < (a.sub x.2.type).isSet.length ∧ (a.sub x.2.type).isSet.getD x.1 false = true)).map (·.2) := by
      induction firstValues mi with
      | nil => rfl
      | cons x l ih =>
        simp only [List.filterMap_cons, List.filter_cons]
        by_cases h1 : (ovGet a.overflow x.2).isSome
        · simp only [h1, if_true, Bool.not_true, Bool.false_and, Bool.false_eq_true, if_false]; exact ih
        · simp only [h1, Bool.false_eq_true, if_false, Bool.not_false, Bool.true_and]
          by_cases h2 : x.1 < (a.sub x.2.type).isSet.length ∧ (a.sub x.2.type).isSet.getD x.1 false = true
          · simp only [h2, and_self, if_true, decide_true, List.map_cons, ih]
          · simp only [h2, if_false, decide_false, Bool.false_eq_true]; exact ih
    rw [hsub]
    exact (firstValues_nodup mi).sublist ((List.filter_sublist).map _)
  · intro x hx y hy hxy
    subst hxy
    obtain ⟨⟨h', v⟩, hm, rfl⟩ := List.mem_map.mp hy
    rw [List.mem_filterMap] at hm
    obtain ⟨⟨i, h''⟩, _, h2⟩ := hm
    simp only at h2
    split at h2
    · cases h2
    · rename_i hn
      split at h2
      · cases h2
        exact hn ((ovGet_isSome_iff _ _).mpr hx)
      · cases h2

theorem all_nodup (mi : MasterIndex) (a : ASet) (wf : WF a) : (a.all mi).Nodup :=
  List.Pairwise.of_map (fun x : Handle × Nat => x.1) (fun _ _ h e => h (by rw [e])) (keys_nodup mi a wf)

/-- a handle is enumerated by `Keys` iff it is a member (`Has`) -/
theorem mem_keys_iff (mi : MasterIndex) (a : ASet) (wf : WF a) (h : Handle) :
    h ∈ a.keys mi ↔ a.has mi h = true := by
  unfold ASet.keys ASet.has
  rw [List.mem_map, Option.isSome_iff_exists]
  constructor
  · rintro ⟨⟨h', v⟩, hm, rfl⟩; exact ⟨v, (mem_all_iff mi a wf h' v).mp hm⟩
  · rintro ⟨v, hv⟩; exact ⟨(h, v), (mem_all_iff mi a wf h v).mpr hv, rfl⟩

/-- **Len is the number of distinct members**: `Keys` is a duplicate-free list of exactly the
    members and `Len` is its length -/
theorem len_eq_card (mi : MasterIndex) (a : ASet) (wf : WF a) :
    a.len mi = (a.keys mi).length ∧ (a.keys mi).Nodup ∧ ∀ h, h ∈ a.keys mi ↔ a.has mi h = true :=
  ⟨by simp [ASet.len, ASet.keys], keys_nodup mi a wf, mem_keys_iff mi a wf⟩

/-! ### the structure refines a finite map `Handle → T` -/

theorem sub_setSub (a : ASet) (t t' : BlobType) (s : Sub) :
    (a.setSub t s).sub t' = if t' = t then s else a.sub t' := by
  cases t <;> cases t' <;> simp [ASet.setSub, ASet.sub]

theorem setSub_overflow (a : ASet) (t : BlobType) (s : Sub) : (a.setSub t s).overflow = a.overflow := by
  cases t <;> rfl

theorem setSub_wf {a : ASet} (wf : WF a) (t : BlobType) (s : Sub) (hs : s.value.length = s.isSet.length) :
    WF (a.setSub t s) := by
  cases t
  · exact ⟨hs, wf.lenT, wf.ovNodup⟩
  · exact ⟨wf.lenD, hs, wf.ovNodup⟩

theorem get_new (mi : MasterIndex) (h : Handle) : (ASet.new mi).get mi h = none := by
  rw [get_eq]
  have : ovGet (ASet.new mi).overflow h = none := by simp [ASet.new, ovGet]
  rw [this]
  simp only [slotGet]
  split
  · rfl
  · have : ((ASet.new mi).sub h.type).isSet.getD (blobIndex mi h).toNat false = false := by
      cases h.type <;> simp [ASet.new, ASet.sub, List.getD_eq_getElem?_getD, List.getElem?_replicate] <;> split <;> rfl
    rw [this]; rfl

/-- the slot of a handle is valid -/
def validSlot (mi : MasterIndex) (a : ASet) (h : Handle) : Prop :=
  ¬ (blobIndex mi h ≥ ((a.sub h.type).value.length : Int) ∨ blobIndex mi h = -1)

instance (mi : MasterIndex) (a : ASet) (h : Handle) : Decidable (validSlot mi a h) := by
  unfold validSlot; infer_instance

theorem slot_inj (mi : MasterIndex) (h h' : Handle) (ht : h'.type = h.type) (hi : blobIndex mi h' = blobIndex mi h)
    (hv : blobIndex mi h ≠ -1) : h' = h := by
  unfold blobIndex at hi hv
  rw [ht] at hi
  have := firstPos_inj _ _ _ hi (by rw [hi]; exact hv)
  cases h; cases h'; simp_all

theorem getD_set_eq {α} (l : List α) (i : Nat) (x d : α) (h : i < l.length) : (l.set i x).getD i d = x := by
  simp [List.getD_eq_getElem?_getD, h]

theorem getD_set_ne {α} (l : List α) (i j : Nat) (x d : α) (h : i ≠ j) : (l.set i x).getD j d = l.getD j d := by
  simp [List.getD_eq_getElem?_getD, List.getElem?_set_ne h]

/-- writing the slot of `h` changes what `Get` answers for `h` only -/
theorem slotGet_update (mi : MasterIndex) (a : ASet) (wf : WF a) (h h' : Handle) (hv : validSlot mi a h)
    (nv : Nat) (nb : Bool) :
    slotGet mi (a.setSub h.type ⟨(a.sub h.type).value.set (blobIndex mi h).toNat nv,
        (a.sub h.type).isSet.set (blobIndex mi h).toNat nb⟩) h' =
      if h' = h then (if nb then some nv else none) else slotGet mi a h' := by
  have hl := wf.len h.type
  unfold validSlot at hv
  rcases blobIndex_cases mi h with hb | ⟨i, hi1, _, hb⟩
  · exact absurd (Or.inr hb) hv
  · rw [hb] at hv ⊢
    simp only [Int.toNat_natCast]
    have hil : i < (a.sub h.type).value.length := by omega
    by_cases hh : h' = h
    · subst hh
      simp only [if_true, slotGet, sub_setSub, hb, List.length_set, Int.toNat_natCast]
      simp only [hv, if_false]
      rw [getD_set_eq _ _ _ _ (by omega), getD_set_eq _ _ _ _ hil]
    · simp only [hh, if_false, slotGet, sub_setSub]
      by_cases ht : h'.type = h.type
      · simp only [ht, if_true, List.length_set]
        rcases blobIndex_cases mi h' with hb' | ⟨j, hj1, _, hb'⟩
        · simp [hb']
        · have hij : i ≠ j := by
            intro e
            apply hh
            exact slot_inj mi h h' ht (by rw [hb, hb', e]) (by rw [hb]; omega)
          rw [hb']
          simp only [Int.toNat_natCast]
          rw [getD_set_ne _ _ _ _ _ hij, getD_set_ne _ _ _ _ _ hij]
      · simp only [ht, if_false]

theorem sub_with_overflow (a : ASet) (o : List (Handle × Nat)) (t : BlobType) :
    ASet.sub { a with overflow := o } t = a.sub t := by cases t <;> rfl

theorem slotGet_with_overflow (mi : MasterIndex) (a : ASet) (o : List (Handle × Nat)) (h : Handle) :
    slotGet mi { a with overflow := o } h = slotGet mi a h := by
  simp only [slotGet, sub_with_overflow]

theorem set_eq (mi : MasterIndex) (a : ASet) (h : Handle) (v : Nat) :
    a.set mi h v =
      if (ovGet a.overflow h).isSome ∨ ¬ validSlot mi a h then { a with overflow := ovSet a.overflow h v }
      else a.setSub h.type ⟨(a.sub h.type).value.set (blobIndex mi h).toNat v,
        (a.sub h.type).isSet.set (blobIndex mi h).toNat true⟩ := by
  unfold ASet.set validSlot
  by_cases hs : (ovGet a.overflow h).isSome
  · simp [hs]
  · by_cases hv : (blobIndex mi h ≥ ((a.sub h.type).value.length : Int) ∨ blobIndex mi h = -1)
    · simp [hs, hv]
    · simp [hs, hv]

theorem delete_eq (mi : MasterIndex) (a : ASet) (h : Handle) :
    a.delete mi h =
      if (ovGet a.overflow h).isSome then { a with overflow := ovDel a.overflow h }
      else if validSlot mi a h then
        a.setSub h.type ⟨(a.sub h.type).value, (a.sub h.type).isSet.set (blobIndex mi h).toNat false⟩
      else a := by
  unfold ASet.delete validSlot
  by_cases hs : (ovGet a.overflow h).isSome
  · simp [hs]
  · by_cases hv : (blobIndex mi h ≥ ((a.sub h.type).value.length : Int) ∨ blobIndex mi h = -1)
    · have : ¬ (blobIndex mi h < ((a.sub h.type).value.length : Int) ∧ blobIndex mi h ≠ -1) := by omega
      simp [hs, hv, this]
    · have : (blobIndex mi h < ((a.sub h.type).value.length : Int) ∧ blobIndex mi h ≠ -1) := by omega
      simp [hs, hv, this]

/-- invariant relative to the master index: well-formed, and the handles of the overflow map have
    no valid slot (they were not part of `idx[0]` when the set was created) -/
structure Inv (mi : MasterIndex) (a : ASet) : Prop extends WF a where
  ovInvalid : ∀ h, (ovGet a.overflow h).isSome → ¬ validSlot mi a h

theorem new_inv (mi : MasterIndex) : Inv mi (ASet.new mi) :=
  ⟨new_wf mi, fun h hs => by simp [ASet.new, ovGet] at hs⟩

theorem slotGet_invalid (mi : MasterIndex) (a : ASet) (h : Handle) (hv : ¬ validSlot mi a h) : slotGet mi a h = none := by
  unfold validSlot at hv
  have hv' := Classical.not_not.mp hv
  simp [slotGet, hv']

theorem validSlot_setSub (mi : MasterIndex) (a : ASet) (t : BlobType) (s : Sub) (h : Handle)
    (hl : s.value.length = (a.sub t).value.length) : validSlot mi (a.setSub t s) h ↔ validSlot mi a h := by
  unfold validSlot
  rw [sub_setSub]
  by_cases ht : h.type = t
  · simp [ht, hl]
  · simp [ht]

/-- **refines_map (Set)** -/
theorem get_set (mi : MasterIndex) (a : ASet) (inv : Inv mi a) (h h' : Handle) (v : Nat) :
    (a.set mi h v).get mi h' = if h' = h then some v else a.get mi h' := by
  rw [set_eq]
  split
  · rw [get_eq, get_eq]
    simp only [ovGet_ovSet, slotGet_with_overflow]
    by_cases hh : h' = h
    · simp [hh]
    · simp only [hh, if_false]
  · rename_i hc
    have hn : ovGet a.overflow h = none := by
      cases ho : ovGet a.overflow h with
      | none => rfl
      | some x => exact absurd (Or.inl (by simp [ho])) hc
    have hv : validSlot mi a h := Classical.not_not.mp (fun hv => hc (Or.inr hv))
    rw [get_eq, get_eq, setSub_overflow]
    have := slotGet_update mi a inv.toWF h h' hv v true
    simp only [if_true] at this
    rw [this]
    by_cases hh : h' = h
    · subst hh; simp [hn]
    · simp [hh]

theorem set_inv (mi : MasterIndex) (a : ASet) (inv : Inv mi a) (h : Handle) (v : Nat) : Inv mi (a.set mi h v) := by
  rw [set_eq]
  split
  · rename_i hc
    refine ⟨⟨inv.lenD, inv.lenT, ovSet_nodup _ _ _ inv.ovNodup⟩, ?_⟩
    intro h' hs
    simp only [ovGet_ovSet] at hs
    have : validSlot mi { a with overflow := ovSet a.overflow h v } h' ↔ validSlot mi a h' := by
      simp only [validSlot, sub_with_overflow]
    rw [this]
    by_cases hh : h' = h
    · subst hh
      rcases hc with hc | hc
      · exact inv.ovInvalid _ hc
      · exact hc
    · simp only [hh, if_false] at hs
      exact inv.ovInvalid _ hs
  · refine ⟨setSub_wf inv.toWF _ _ (by simp [inv.toWF.len h.type]), ?_⟩
    intro h' hs
    rw [setSub_overflow] at hs
    rw [validSlot_setSub _ _ _ _ _ (by simp)]
    exact inv.ovInvalid _ hs

/-- **refines_map (Delete)** -/
theorem get_delete (mi : MasterIndex) (a : ASet) (inv : Inv mi a) (h h' : Handle) :
    (a.delete mi h).get mi h' = if h' = h then none else a.get mi h' := by
  rw [delete_eq]
  split
  · rename_i hs
    rw [get_eq, get_eq]
    simp only [ovGet_ovDel, slotGet_with_overflow]
    by_cases hh : h' = h
    · subst hh
      simp only [if_true]
      exact slotGet_invalid mi a _ (inv.ovInvalid _ hs)
    · simp only [hh, if_false]
  · rename_i hs
    have hn : ovGet a.overflow h = none := by
      cases ho : ovGet a.overflow h with
      | none => rfl
      | some x => simp [ho] at hs
    split
    · rename_i hv
      rw [get_eq, get_eq, setSub_overflow]
      have hval : (a.sub h.type).value = (a.sub h.type).value.set (blobIndex mi h).toNat
          ((a.sub h.type).value.getD (blobIndex mi h).toNat 0) := by
        apply List.ext_getElem?
        intro j
        rw [List.getElem?_set]
        by_cases hj : (blobIndex mi h).toNat = j
        · subst hj
          simp only [if_true]
          split
          · rename_i hl; simp [List.getD_eq_getElem?_getD, hl]
          · rename_i hl; simp at hl; simp [List.getElem?_eq_none hl]
        · simp [hj]
      have := slotGet_update mi a inv.toWF h h' hv ((a.sub h.type).value.getD (blobIndex mi h).toNat 0) false
      rw [← hval] at this
      rw [this]
      by_cases hh : h' = h
      · subst hh; simp [hn]
      · simp [hh]
    · rename_i hv
      by_cases hh : h' = h
      · subst hh
        rw [get_eq, hn]
        simp only [if_true]
        exact slotGet_invalid mi a _ hv
      · simp [hh]

theorem delete_inv (mi : MasterIndex) (a : ASet) (inv : Inv mi a) (h : Handle) : Inv mi (a.delete mi h) := by
  rw [delete_eq]
  split
  · refine ⟨⟨inv.lenD, inv.lenT, ovDel_nodup _ _ inv.ovNodup⟩, ?_⟩
    intro h' hs
    simp only [ovGet_ovDel] at hs
    have : validSlot mi { a with overflow := ovDel a.overflow h } h' ↔ validSlot mi a h' := by
      simp only [validSlot, sub_with_overflow]
    rw [this]
    by_cases hh : h' = h
    · simp [hh] at hs
    · simp only [hh, if_false] at hs
      exact inv.ovInvalid _ hs
  · split
    · refine ⟨setSub_wf inv.toWF _ _ (by simp [inv.toWF.len h.type]), ?_⟩
      intro h' hs
      rw [setSub_overflow] at hs
      rw [validSlot_setSub mi a h.type ⟨(a.sub h.type).value, (a.sub h.type).isSet.set (blobIndex mi h).toNat false⟩ h' rfl]
      exact inv.ovInvalid _ hs
    · exact inv

/-! ### `Intersect` and `Sub` -/

theorem loop_spec (mi : MasterIndex) (a : ASet) (keep : Handle → Bool) (loop : List Handle → ASet → ASet)
    (hnil : ∀ r, loop [] r = r)
    (hcons : ∀ h hs r, loop (h :: hs) r =
      if keep h then loop hs (r.set mi h ((a.get mi h).getD 0)) else loop hs r) :
    ∀ (hs : List Handle) (r : ASet), Inv mi r →
      Inv mi (loop hs r) ∧ ∀ h, (loop hs r).get mi h =
        if h ∈ hs ∧ keep h = true then some ((a.get mi h).getD 0) else r.get mi h
  | [], r, inv => by rw [hnil]; exact ⟨inv, fun h => by simp⟩
  | x :: hs, r, inv => by
    rw [hcons]
    by_cases hk : keep x = true
    · simp only [hk, if_true]
      obtain ⟨i1, g1⟩ := loop_spec mi a keep loop hnil hcons hs _ (set_inv mi r inv x ((a.get mi x).getD 0))
      refine ⟨i1, ?_⟩
      intro h
      rw [g1 h, get_set mi r inv]
      by_cases hx : h = x
      · subst hx; simp [hk]
      · simp [hx]
    · simp only [hk, Bool.false_eq_true, if_false]
      obtain ⟨i1, g1⟩ := loop_spec mi a keep loop hnil hcons hs r inv
      refine ⟨i1, ?_⟩
      intro h
      rw [g1 h]
      by_cases hx : h = x
      · subst hx; simp [hk]
      · simp [hx]

theorem intersectLoop_cons (mi : MasterIndex) (a other : ASet) (h : Handle) (hs : List Handle) (r : ASet) :
    intersectLoop mi a other (h :: hs) r =
      if other.has mi h then intersectLoop mi a other hs (r.set mi h ((a.get mi h).getD 0))
      else intersectLoop mi a other hs r := by
  simp only [intersectLoop]
  split
  · cases a.get mi h <;> rfl
  · rfl

theorem subLoop_cons (mi : MasterIndex) (a other : ASet) (h : Handle) (hs : List Handle) (r : ASet) :
    subLoop mi a other (h :: hs) r =
      if !other.has mi h then subLoop mi a other hs (r.set mi h ((a.get mi h).getD 0))
      else subLoop mi a other hs r := by
  simp only [subLoop]
  split
  · cases a.get mi h <;> rfl
  · rfl

/-- **Intersect**: the members of `a` that `other` has, with `a`'s values -/
theorem get_intersect (mi : MasterIndex) (a other : ASet) (inv : Inv mi a) (h : Handle) :
    Inv mi (a.intersect mi other) ∧
    (a.intersect mi other).get mi h = if other.has mi h then a.get mi h else none := by
  obtain ⟨i1, g1⟩ := loop_spec mi a (fun h => other.has mi h) (intersectLoop mi a other) (fun _ => rfl)
    (intersectLoop_cons mi a other) (a.keys mi) (ASet.new mi) (new_inv mi)
  refine ⟨i1, ?_⟩
  unfold ASet.intersect
  rw [g1 h, get_new]
  have hk := mem_keys_iff mi a inv.toWF h
  simp only [hk]
  unfold ASet.has
  cases hg : a.get mi h <;> cases ho : other.get mi h <;> simp [hg, ho]

/-- **Sub**: the members of `a` that `other` does not have, with `a`'s values -/
theorem get_subtract (mi : MasterIndex) (a other : ASet) (inv : Inv mi a) (h : Handle) :
    Inv mi (a.subtract mi other) ∧
    (a.subtract mi other).get mi h = if other.has mi h then none else a.get mi h := by
  obtain ⟨i1, g1⟩ := loop_spec mi a (fun h => !other.has mi h) (subLoop mi a other) (fun _ => rfl)
    (subLoop_cons mi a other) (a.keys mi) (ASet.new mi) (new_inv mi)
  refine ⟨i1, ?_⟩
  unfold ASet.subtract
  rw [g1 h, get_new]
  have hk := mem_keys_iff mi a inv.toWF h
  simp only [hk]
  unfold ASet.has
  cases hg : a.get mi h <;> cases ho : other.get mi h <;> simp [hg, ho]

/-! ### representation of a reference map; the executable statement -/

structure Rep (mi : MasterIndex) (a : ASet) (ref : Ref) : Prop where
  inv : Inv mi a
  nodup : (ref.map (·.1)).Nodup
  get : ∀ h, a.get mi h = ref.get h

theorem rep_new (mi : MasterIndex) : Rep mi (ASet.new mi) [] :=
  ⟨new_inv mi, by simp, fun h => by rw [get_new]; rfl⟩

theorem rep_set {mi : MasterIndex} {a : ASet} {ref : Ref} (r : Rep mi a ref) (h : Handle) (v : Nat) :
    Rep mi (a.set mi h v) (ref.set h v) :=
  ⟨set_inv mi a r.inv h v, ovSet_nodup _ _ _ r.nodup, fun h' => by
    rw [get_set mi a r.inv, Ref.set, Ref.get, ovGet_ovSet, r.get h']; rfl⟩

theorem rep_insert {mi : MasterIndex} {a : ASet} {ref : Ref} (r : Rep mi a ref) (h : Handle) :
    Rep mi (a.insert mi h) (ref.set h 0) := rep_set r h 0

theorem rep_delete {mi : MasterIndex} {a : ASet} {ref : Ref} (r : Rep mi a ref) (h : Handle) :
    Rep mi (a.delete mi h) (ref.delete h) :=
  ⟨delete_inv mi a r.inv h, ovDel_nodup _ _ r.nodup, fun h' => by
    rw [get_delete mi a r.inv, Ref.delete, Ref.get, ovGet_ovDel, r.get h']; rfl⟩

theorem ovGet_filter (o : List (Handle × Nat)) (q : Handle → Bool) (h : Handle) :
    ovGet (o.filter fun p => q p.1) h = if q h then ovGet o h else none := by
  induction o with
  | nil => simp [ovGet]
  | cons p o ih =>
    simp only [ovGet, List.filter_cons] at ih ⊢
    by_cases hq : q p.1 = true
    · simp only [hq, if_true, List.find?_cons]
      by_cases hp : p.1 = h
      · have : (p.1 == h) = true := by simp [hp]
        simp [this, ← hp, hq]
      · have : (p.1 == h) = false := by simp [hp]
        simp only [this]; exact ih
    · simp only [hq, Bool.false_eq_true, if_false, List.find?_cons]
      by_cases hp : p.1 = h
      · have e : (p.1 == h) = true := by simp [hp]
        rw [ih]
        have : q h = false := by rw [← hp]; simpa using hq
        simp [this]
      · have : (p.1 == h) = false := by simp [hp]
        simp only [this]; exact ih

theorem filter_keys_nodup (o : List (Handle × Nat)) (q : Handle × Nat → Bool) (nd : (o.map (·.1)).Nodup) :
    ((o.filter q).map (·.1)).Nodup := nd.sublist ((List.filter_sublist).map _)

theorem rep_intersect {mi : MasterIndex} {a b : ASet} {ra rb : Ref} (r : Rep mi a ra) (r' : Rep mi b rb) :
    Rep mi (a.intersect mi b) (ra.intersect rb) := by
  refine ⟨(get_intersect mi a b r.inv default).1, filter_keys_nodup _ _ r.nodup, ?_⟩
  intro h
  rw [(get_intersect mi a b r.inv h).2]
  unfold Ref.intersect Ref.get ASet.has
  rw [ovGet_filter ra (fun k => (ovGet rb k).isSome), r.get h, r'.get h]
  rfl

theorem rep_subtract {mi : MasterIndex} {a b : ASet} {ra rb : Ref} (r : Rep mi a ra) (r' : Rep mi b rb) :
    Rep mi (a.subtract mi b) (ra.subtract rb) := by
  refine ⟨(get_subtract mi a b r.inv default).1, filter_keys_nodup _ _ r.nodup, ?_⟩
  intro h
  rw [(get_subtract mi a b r.inv h).2]
  unfold Ref.subtract Ref.get ASet.has
  rw [ovGet_filter ra (fun k => (ovGet rb k).isNone), r.get h, r'.get h]
  unfold Ref.get
  cases ovGet rb h <;> simp

/-- **main theorem**: a set that represents the reference map `ref` answers every observation as
    the executable statement of C48 demands: `All`/`Keys` enumerate each member exactly once,
    `Len` is the number of members, `Get` is the map -/
theorem rep_spec {mi : MasterIndex} {a : ASet} {ref : Ref} (r : Rep mi a ref) :
    specAll ref (a.all mi) = true ∧ specKeys ref (a.keys mi) = true ∧ specLen ref (a.len mi) = true ∧
    ∀ h, specGet ref h (a.get mi h) = true := by
  have hperm : (a.all mi).Perm ref := by
    have nd2 : ref.Nodup := List.Pairwise.of_map (fun x : Handle × Nat => x.1) (fun _ _ h e => h (by rw [e])) r.nodup
    rw [List.perm_ext_iff_of_nodup (all_nodup mi a r.inv.toWF) nd2]
    rintro ⟨h, v⟩
    rw [mem_all_iff mi a r.inv.toWF, r.get h, Ref.get, ovGet_eq_some_iff _ r.nodup]
  refine ⟨by simp [specAll, List.isPerm_iff, hperm], ?_, ?_, ?_⟩
  · simp only [specKeys, List.isPerm_iff, ASet.keys]; exact hperm.map _
  · simp [specLen, ASet.len, hperm.length_eq]
  · intro h; simp [specGet, r.get h]

/-! ### histories of operations on one set -/

inductive Op where
  | set (h : Handle) (v : Nat)
  | insert (h : Handle)
  | delete (h : Handle)

def applyOp (mi : MasterIndex) (a : ASet) : Op → ASet
  | .set h v => a.set mi h v
  | .insert h => a.insert mi h
  | .delete h => a.delete mi h

def applyRef (r : Ref) : Op → Ref
  | .set h v => r.set h v
  | .insert h => r.set h 0
  | .delete h => r.delete h

/-- every history of Set/Insert/Delete on a fresh set over any master index is represented by the
    same history on the reference map -/
theorem history_refines (mi : MasterIndex) (ops : List Op) :
    Rep mi (ops.foldl (applyOp mi) (ASet.new mi)) (ops.foldl applyRef []) := by
  suffices h : ∀ (ops : List Op) a ref, Rep mi a ref → Rep mi (ops.foldl (applyOp mi) a) (ops.foldl applyRef ref) from
    h ops _ _ (rep_new mi)
  intro ops
  induction ops with
  | nil => intro a ref r; exact r
  | cons op ops ih =>
    intro a ref r
    simp only [List.foldl_cons]
    apply ih
    cases op with
    | set h v => exact rep_set r h v
    | insert h => exact rep_insert r h
    | delete h => exact rep_delete r h

/-- the executable statement after any history -/
theorem history_meets_spec (mi : MasterIndex) (ops : List Op) :
    let a := ops.foldl (applyOp mi) (ASet.new mi)
    let ref := ops.foldl applyRef []
    specAll ref (a.all mi) = true ∧ specKeys ref (a.keys mi) = true ∧ specLen ref (a.len mi) = true ∧
      ∀ h, specGet ref h (a.get mi h) = true :=
  rep_spec (history_refines mi ops)

/-! ### the master index may grow while a set is in use

`MergeFinalIndexes` only appends entries to the maps of `idx[0]` (C08: `Index.merge`), other
indexes come and go. A set created earlier keeps answering as before. -/

/-- `mi'` extends `mi`: the maps of the main index only got longer -/
def Ext (mi mi' : MasterIndex) : Prop := ∀ t, ∃ s, mi'.first.byType t = mi.first.byType t ++ s

/-- the arrays of the set are not longer than the main index they were created for (+1) -/
def LenOK (mi : MasterIndex) (a : ASet) : Prop := ∀ t, (a.sub t).value.length ≤ stableLen mi t + 1

theorem lenOK_new (mi : MasterIndex) : LenOK mi (ASet.new mi) := by
  intro t; cases t <;> simp [ASet.new, ASet.sub]

theorem lenOK_set {mi : MasterIndex} {a : ASet} (hl : LenOK mi a) (h : Handle) (v : Nat) : LenOK mi (a.set mi h v) := by
  rw [set_eq]
  split
  · intro t; rw [sub_with_overflow]; exact hl t
  · intro t
    rw [sub_setSub]
    split
    · rename_i ht; subst ht; simpa using hl h.type
    · exact hl t

theorem lenOK_delete {mi : MasterIndex} {a : ASet} (hl : LenOK mi a) (h : Handle) : LenOK mi (a.delete mi h) := by
  rw [delete_eq]
  split
  · intro t; rw [sub_with_overflow]; exact hl t
  · split
    · intro t
      rw [sub_setSub]
      split
      · rename_i ht; subst ht; simpa using hl h.type
      · exact hl t
    · exact hl

theorem slot_ext {mi mi' : MasterIndex} (ext : Ext mi mi') {a : ASet} (hl : LenOK mi a) (h : Handle) :
    (validSlot mi' a h ↔ validSlot mi a h) ∧ (validSlot mi a h → blobIndex mi' h = blobIndex mi h) := by
  obtain ⟨s, hs⟩ := ext h.type
  have hap := firstPos_append (mi.first.byType h.type) s h.id
  have hlen := hl h.type
  unfold validSlot blobIndex stableLen at *
  rw [hs]
  by_cases hv : firstPos (mi.first.byType h.type) h.id = -1
  · rcases hap.2 hv with h1 | h1
    · simp [hv, h1]
    · have h2 : firstPos (mi.first.byType h.type ++ s) h.id ≥ ((a.sub h.type).value.length : Int) := by omega
      constructor
      · constructor
        · intro hc; exact absurd (Or.inl h2) hc
        · intro hc; exact absurd (Or.inr hv) hc
      · intro hc; exact absurd (Or.inr hv) hc
  · rw [hap.1 hv]
    exact ⟨Iff.rfl, fun _ => rfl⟩

/-- **a set survives index growth**: same answers, same invariants -/
theorem grow_preserves {mi mi' : MasterIndex} (ext : Ext mi mi') {a : ASet} {ref : Ref} (r : Rep mi a ref)
    (hl : LenOK mi a) : Rep mi' a ref ∧ LenOK mi' a := by
  have hget : ∀ h, a.get mi' h = a.get mi h := by
    intro h
    rw [get_eq, get_eq]
    cases ovGet a.overflow h with
    | some v => rfl
    | none =>
      simp only
      obtain ⟨hiff, heq⟩ := slot_ext ext hl h
      by_cases hv : validSlot mi a h
      · simp only [slotGet, heq hv]
      · rw [slotGet_invalid mi a h hv, slotGet_invalid mi' a h (fun hv' => hv (hiff.mp hv'))]
  refine ⟨⟨⟨r.inv.toWF, ?_⟩, r.nodup, fun h => by rw [hget h, r.get h]⟩, ?_⟩
  · intro h hs hv'
    exact r.inv.ovInvalid h hs ((slot_ext ext hl h).1.mp hv')
  · intro t
    obtain ⟨s, hs⟩ := ext t
    have := hl t
    unfold stableLen at *
    rw [hs, List.length_append]; omega

/-! ### negation witness: the original iteration violates the property (finding F4)

One blob stored in two packs, inserted into a fresh set: the original `All` (transcribed as
`ASet.allOld`) reports it twice, so `Len = 2` for one member. The fixed iteration reports it once. -/

def exIdx : Index :=
  { data := [⟨[1], 0, 0, 40, 0⟩, ⟨[1], 1, 0, 40, 0⟩, ⟨[2], 1, 40, 40, 0⟩], tree := [],
    packs := [[0xaa], [0xab]], final := true, ids := [[0xee]] }

def exMI : MasterIndex := ⟨exIdx, [], []⟩

def exH : Handle := ⟨.data, [1]⟩
def exSet : ASet := (ASet.new exMI).insert exMI exH

theorem old_all_reports_twice :
    (exSet.allOld exMI).map (·.1) = [exH, exH] ∧ specKeys [(exH, 0)] ((exSet.allOld exMI).map (·.1)) = false := by
  decide

/-- non-vacuity: the fixed code on the same input; a member stored twice is reported once -/
example : exSet.keys exMI = [exH] ∧ exSet.len exMI = 1 := by decide

example : Rep exMI exSet [(exH, 0)] := rep_insert (rep_new exMI) exH

end Restic.Props.C48
