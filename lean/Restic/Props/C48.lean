import Restic.Model.AssocSet
namespace Restic.Props.C48
end Restic.Props.C48
