import Restic.Model.Dedup
namespace Restic.Props.C16
end Restic.Props.C16
