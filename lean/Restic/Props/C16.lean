import Restic.Proofs.C16_Inv
import Restic.Gen.Source
/-!
# C16 — identical content is stored once per repository

Theorems about `Restic.Model.Dedup` (transcription of `Repository.saveBlob`, `MasterIndex.AddPending`
and `storePack` as atomic steps of concurrently running calls). All statements hold for **every**
schedule (`sched : List Act`, any interleaving of the calls' steps with pack stores by the uploaders),
every multiset of calls (any amount of duplication) and every initial index.
-/
namespace Restic.Props.C16
open Restic.Model.Dedup Restic.Proofs.C16

theorem countP_le_of_imp {α} (p q : α → Bool) (l : List α) (h : ∀ x ∈ l, p x = true → q x = true) :
    l.countP p ≤ l.countP q := by
  induction l with
  | nil => simp
  | cons a l ih =>
    have ih' := ih (fun x hx => h x (List.mem_cons_of_mem _ hx))
    have ha := h a List.mem_cons_self
    simp only [List.countP_cons]
    by_cases hp : p a = true
    · simp [hp, ha hp]; omega
    · simp [hp]; omega

/-- without `storeDuplicate` a call that saved is a call that claimed -/
theorem savers_le_claimers {calls : List Call} {h : Handle} {s : St} (hc : s.threads.map (·.call) = calls)
    (hd : ∀ c ∈ calls, c.dup = false) : savers h s.threads ≤ claimers h s.threads := by
  apply countP_le_of_imp
  intro t ht hp
  have hdup : t.call.dup = false := hd _ (hc ▸ List.mem_map_of_mem ht)
  simp only [Bool.and_eq_true, beq_iff_eq] at hp ⊢
  refine ⟨hp.1, ?_⟩
  have := hp.2
  unfold saved at this; unfold claims
  split at this
  · rename_i k hk; rw [hk]; cases k <;> simp_all
  · simp at this

/-- **store_once**: for every schedule and every multiset of `saveBlob(h, storeDuplicate=false)`
    calls, `saveAndEncrypt` runs at most once for `h`, and never when `h` is in the loaded index. -/
theorem store_once (idx0 : List Handle) (calls : List Call) (sched : List Act)
    (hd : ∀ c ∈ calls, c.dup = false) (h : Handle) :
    (run idx0 calls sched).saves.count h ≤ 1 ∧ (h ∈ idx0 → (run idx0 calls sched).saves.count h = 0) := by
  have hinv := run_inv idx0 calls h sched
  have hle := savers_le_claimers (h := h) hinv.calls_eq hd
  rw [hinv.saves_eq]
  refine ⟨Nat.le_trans hle hinv.le_one, fun h0 => ?_⟩
  have := hinv.idx0_unclaimed h0
  omega

/-- AddPending succeeds for at most one call per blob, whatever the `storeDuplicate` flags -/
theorem claimed_at_most_once (idx0 : List Handle) (calls : List Call) (sched : List Act) (h : Handle) :
    claimers h (run idx0 calls sched).threads ≤ 1 ∧ (h ∈ idx0 → claimers h (run idx0 calls sched).threads = 0) :=
  ⟨(run_inv idx0 calls h sched).le_one, (run_inv idx0 calls h sched).idx0_unclaimed⟩

theorem allDone_iff {s : St} : allDone s = true ↔ ∀ t ∈ s.threads, ∃ k, t.pc = .done k := by
  simp only [allDone, List.all_eq_true]
  constructor
  · intro h t ht
    have := h t ht
    split at this
    · rename_i k hk; exact ⟨k, hk⟩
    · cases this
  · intro h t ht
    obtain ⟨k, hk⟩ := h t ht
    simp [hk]

/-- when every call has returned, a blob that was submitted and is not in the loaded index has been
    claimed by exactly one call -/
theorem claimed_exactly_once (idx0 : List Handle) (calls : List Call) (sched : List Act)
    (hdone : allDone (run idx0 calls sched) = true) (h : Handle) (hsub : ∃ c ∈ calls, c.h = h) (h0 : h ∉ idx0) :
    claimers h (run idx0 calls sched).threads = 1 := by
  have hinv := run_inv idx0 calls h sched
  obtain ⟨c, hc, hch⟩ := hsub
  rw [← hinv.calls_eq, List.mem_map] at hc
  obtain ⟨t, ht, htc⟩ := hc
  obtain ⟨k, hk⟩ := allDone_iff.mp hdone t ht
  cases k with
  | true =>
    rcases hinv.told t ht (htc ▸ hch) (by simp [toldKnown, hk]) with h1 | h1
    · exact h1
    · exact absurd h1 h0
  | false =>
    have h1 := hinv.le_one
    have : 1 ≤ claimers h (run idx0 calls sched).threads := by
      unfold claimers
      exact List.countP_pos_iff.mpr ⟨t, ht, by simp [claims, hk, htc, hch]⟩
    omega

/-- number of calls for `h` that found it known but store it anyway (`storeDuplicate`) -/
def dupKnown (h : Handle) (ts : List Thread) : Nat :=
  ts.countP fun t => t.call.h == h && toldKnown t && t.call.dup

theorem savers_eq_of_done {ts : List Thread} (h : Handle) (hd : ∀ t ∈ ts, ∃ k, t.pc = .done k) :
    savers h ts = claimers h ts + dupKnown h ts := by
  induction ts with
  | nil => rfl
  | cons t ts ih =>
    have ih' := ih (fun x hx => hd x (List.mem_cons_of_mem _ hx))
    obtain ⟨k, hk⟩ := hd t List.mem_cons_self
    simp only [savers, claimers, dupKnown, List.countP_cons] at ih' ⊢
    rw [ih']
    by_cases hh : t.call.h = h <;> cases k <;> cases hdp : t.call.dup <;> simp [saved, claims, toldKnown, hk, hh, hdp] <;> omega

/-- **stored exactly as often as requested** (the statement evaluated by the driver): when all calls
    have returned, a blob of the loaded index was stored only by `storeDuplicate` calls, any other
    submitted blob exactly once plus once per `storeDuplicate` call that found it known. -/
theorem stored_as_requested (idx0 : List Handle) (calls : List Call) (sched : List Act)
    (hdone : allDone (run idx0 calls sched) = true) (h : Handle) (hsub : ∃ c ∈ calls, c.h = h) :
    let s := run idx0 calls sched
    (h ∈ idx0 → claimers h s.threads = 0 ∧ s.saves.count h = dupKnown h s.threads) ∧
    (h ∉ idx0 → claimers h s.threads = 1 ∧ s.saves.count h = 1 + dupKnown h s.threads) := by
  intro s
  have hinv := run_inv idx0 calls h sched
  have heq := savers_eq_of_done h (allDone_iff.mp hdone)
  refine ⟨fun h0 => ?_, fun h0 => ?_⟩
  · have hc := hinv.idx0_unclaimed h0
    exact ⟨hc, by show (run idx0 calls sched).saves.count h = _; rw [hinv.saves_eq, heq, hc]; simp [s]⟩
  · have hc := claimed_exactly_once idx0 calls sched hdone h hsub h0
    exact ⟨hc, by show (run idx0 calls sched).saves.count h = _; rw [hinv.saves_eq, heq, hc]⟩

/-- without `storeDuplicate`: every submitted blob that is not in the loaded index is stored exactly
    once (so deduplication never loses a blob either) -/
theorem stored_exactly_once (idx0 : List Handle) (calls : List Call) (sched : List Act)
    (hd : ∀ c ∈ calls, c.dup = false) (hdone : allDone (run idx0 calls sched) = true)
    (h : Handle) (hsub : ∃ c ∈ calls, c.h = h) (h0 : h ∉ idx0) :
    (run idx0 calls sched).saves.count h = 1 := by
  have h1 := (store_once idx0 calls sched hd h).1
  have h2 := ((stored_as_requested idx0 calls sched hdone h hsub).2 h0).2
  omega

/-- after the final flush every submitted blob is in the index (so the next run finds it there) -/
theorem all_indexed_after_flush (idx0 : List Handle) (calls : List Call) (sched : List Act)
    (hdone : allDone (run idx0 calls (sched ++ [.flush])) = true) :
    ∀ c ∈ calls, c.h ∈ (run idx0 calls (sched ++ [.flush])).index := by
  intro c hc
  have hinv := run_inv idx0 calls c.h (sched ++ [.flush])
  have hpk : (run idx0 calls (sched ++ [.flush])).packed = [] := by
    simp only [run, List.foldl_append, List.foldl_cons, List.foldl_nil, step, storePack]
    rw [List.filter_eq_nil_iff]
    intro x hx; simp [hx]
  have hall := allDone_iff.mp hdone
  -- some thread saved c.h, or c.h was in the index from the start
  by_cases h0 : c.h ∈ idx0
  · exact hinv.idx_mono _ h0
  · have hcl := claimed_exactly_once idx0 calls _ hdone c.h ⟨c, hc, rfl⟩ h0
    have hpos : 0 < claimers c.h (run idx0 calls (sched ++ [.flush])).threads := by omega
    obtain ⟨t, ht, hp⟩ := List.countP_pos_iff.mp hpos
    simp only [Bool.and_eq_true, beq_iff_eq] at hp
    obtain ⟨k, hk⟩ := hall t ht
    have hsaved : saved t = true := by
      have := hp.2; unfold claims at this; rw [hk] at this
      cases k <;> simp_all [saved]
    rcases hinv.saved_somewhere t ht hp.1 hsaved with h1 | h1
    · rw [hpk] at h1; cases h1
    · exact h1

/-- **second_backup_adds_nothing**: run 1 (any calls, any schedule, ending with the flush, all calls
    returned) leaves an index `idx1`; a second run that starts from `idx1` (the loaded index, C08) and
    submits only blobs run 1 had submitted (same chunks: the chunker is deterministic, C17) stores
    nothing, under every schedule. -/
theorem second_backup_adds_nothing (idx0 : List Handle) (calls1 : List Call) (sched1 : List Act)
    (hdone : allDone (run idx0 calls1 (sched1 ++ [.flush])) = true)
    (calls2 : List Call) (sched2 : List Act)
    (hsame : ∀ c ∈ calls2, c.dup = false ∧ ∃ c1 ∈ calls1, c1.h = c.h) :
    (run (run idx0 calls1 (sched1 ++ [.flush])).index calls2 sched2).saves = [] := by
  have hidx := all_indexed_after_flush idx0 calls1 sched1 hdone
  rw [List.eq_nil_iff_forall_not_mem]
  intro h hmem
  have hcnt : 0 < (run (run idx0 calls1 (sched1 ++ [.flush])).index calls2 sched2).saves.count h :=
    List.count_pos_iff.mpr hmem
  have hinv := run_inv (run idx0 calls1 (sched1 ++ [.flush])).index calls2 h sched2
  rw [hinv.saves_eq] at hcnt
  obtain ⟨t, ht, hp⟩ := List.countP_pos_iff.mp hcnt
  simp only [Bool.and_eq_true, beq_iff_eq] at hp
  have htc : t.call ∈ calls2 := hinv.calls_eq ▸ List.mem_map_of_mem ht
  obtain ⟨hdup, c1, hc1, hch⟩ := hsame _ htc
  have hin : h ∈ (run idx0 calls1 (sched1 ++ [.flush])).index := by
    rw [← hp.1, ← hch]; exact hidx c1 hc1
  have hso := (store_once _ calls2 sched2 (fun c hc => (hsame c hc).1) h).2 hin
  rw [hinv.saves_eq] at hso
  omega

/-- the `known` results as the harness reports them -/
def knownsOf (s : St) : List Bool :=
  s.threads.map fun t => match t.pc with | .start => false | .checked k => k | .done k => k

theorem countP_congr_mem {α} {p q : α → Bool} {l : List α} (h : ∀ x ∈ l, p x = q x) : l.countP p = l.countP q := by
  induction l with
  | nil => rfl
  | cons a l ih =>
    simp only [List.countP_cons, h a List.mem_cons_self, ih (fun x hx => h x (List.mem_cons_of_mem _ hx))]

/-- **The transcription meets the executable statement**: for every schedule after which all calls
    have returned, `specOK` (the predicate the driver evaluates on the implementation's output) holds
    for the model's own `known` results and save log. -/
theorem run_specOK (idx0 : List Handle) (calls : List Call) (sched : List Act)
    (hdone : allDone (run idx0 calls sched) = true) :
    specOK idx0 calls (knownsOf (run idx0 calls sched)) (run idx0 calls sched).saves = true := by
  have hce := (run_inv idx0 calls 0 sched).calls_eq
  have hall := allDone_iff.mp hdone
  generalize hs : run idx0 calls sched = s at *
  simp only [specOK, Bool.and_eq_true, beq_iff_eq, List.all_eq_true]
  refine ⟨by simp [knownsOf, ← hce], fun h hh => ?_⟩
  have hsub : ∃ c ∈ calls, c.h = h := by
    rw [List.mem_eraseDups, List.mem_map] at hh; exact hh
  have hzip : calls.zip (knownsOf s) = s.threads.map (fun t => (t.call, match t.pc with | .start => false | .checked k => k | .done k => k)) := by
    rw [← hce, knownsOf, List.zip_map']
  have hreq := stored_as_requested idx0 calls sched (hs ▸ hdone) h hsub
  rw [hs] at hreq
  have hclaims : (List.filter (fun ck => !ck.2) (List.filter (fun ck => ck.1.h == h) (calls.zip (knownsOf s)))).length =
      claimers h s.threads := by
    rw [hzip, List.filter_filter, List.filter_map, List.length_map, ← List.countP_eq_length_filter]
    apply countP_congr_mem
    intro t ht
    obtain ⟨k, hk⟩ := hall t ht
    cases k <;> simp [claims, hk, Bool.and_comm]
  have hdupk : (List.filter (fun ck => ck.2 && ck.1.dup) (List.filter (fun ck => ck.1.h == h) (calls.zip (knownsOf s)))).length =
      dupKnown h s.threads := by
    rw [hzip, List.filter_filter, List.filter_map, List.length_map, ← List.countP_eq_length_filter]
    apply countP_congr_mem
    intro t ht
    obtain ⟨k, hk⟩ := hall t ht
    cases k <;> cases hd : t.call.dup <;> simp [toldKnown, hk, hd]
  simp only [hclaims, hdupk]
  by_cases h0 : h ∈ idx0
  · have := hreq.1 h0
    simp [h0, this.1, this.2]
  · have := hreq.2 h0
    simp [h0, this.1, this.2]

/-! ### facts regenerated from the source (tie T1) -/

/-- `AddPending` takes `idxMutex` (write lock) before the membership test and keeps it (released by
    `defer`) until after the insertion: test and set are one atomic step -/
theorem addPending_atomic :
    Restic.Gen.addPending_calls = ["mi.idxMutex.Lock", "mi.idxMutex.Unlock", "idx.Has"] := by decide

/-- `storePack` removes from `pendingBlobs` and inserts into the index under the same lock -/
theorem storePack_atomic :
    Restic.Gen.miStorePack_calls.take 3 = ["mi.idxMutex.Lock", "mi.idxMutex.Unlock", "delete"] ∧
    "idx.StorePack" ∈ Restic.Gen.miStorePack_calls := by decide

/-- `saveBlob` asks `AddPending` first and calls `saveAndEncrypt` afterwards (exactly one call site each) -/
theorem saveBlob_order :
    Restic.Gen.repoSaveBlob_calls.filter (fun c => c ∈ ["r.idx.AddPending", "r.saveAndEncrypt"]) =
      ["r.idx.AddPending", "r.saveAndEncrypt"] := by decide

/-! ### non-vacuity -/

/-- three concurrent calls for the same blob, interleaved: one claims, all return, one save -/
example : (run [] [⟨7, false⟩, ⟨7, false⟩, ⟨7, false⟩]
    [.thread 1, .thread 0, .thread 2, .thread 0, .thread 1, .thread 2, .flush]).saves = [7] ∧
    allDone (run [] [⟨7, false⟩, ⟨7, false⟩, ⟨7, false⟩]
    [.thread 1, .thread 0, .thread 2, .thread 0, .thread 1, .thread 2, .flush]) = true := by decide

/-- the pack is stored in the index between two calls: the later call finds the blob in the index -/
example : knownFlags (run [] [⟨7, false⟩, ⟨7, false⟩] [.thread 0, .thread 0, .store [7], .thread 1, .thread 1]) =
    [some false, some true] := by decide

/-- a blob of the loaded index is not stored, a `storeDuplicate` call stores it again -/
example : (run [5] [⟨5, false⟩, ⟨5, true⟩, ⟨6, false⟩] [.thread 0, .thread 1, .thread 2, .thread 0, .thread 1, .thread 2]).saves = [6, 5] := by
  decide

end Restic.Props.C16
