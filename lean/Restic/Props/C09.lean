import Restic.Proofs.C09_Exec
import Restic.Proofs.C09_Plan
import Restic.Gen.Source
/-!
# C09 — Prune never loses data still referenced by a remaining snapshot

Theorems over `Restic.Model.Prune` (transcription of `packInfoFromIndex`, `decidePackAction`, the
`keepBlobs` loop of `PlanPrune`, and the language of backend operation sequences of
`PrunePlan.Execute` / `MasterIndex.Rewrite`) and `Restic.Model.Repo`.

* `select_one`, `no_selection_panic` — the duplicate selection, through counter saturation;
* `plan_ok` — every plan the planner can return (any option set, any choice oracle, any order of
  the index entries and of the pack listing) satisfies the executable statement `planOK`;
* `prune_prefix_safe`, `prune_prefix_sound`, `prune_check_ok` — after every prefix of an accepted
  operation sequence every used blob is still indexed in a present pack / the index is sound /
  `CheckOK` holds;
* `prune_safe` — the composition for a repository state, its index and pack listing;
* T1 facts: call order of `Execute` and of `MasterIndex.Rewrite`.
-/
namespace Restic.Props.C09
open Restic.Model.Repo Restic.Model.Prune
open Restic.Proofs.C09Select Restic.Proofs.C09Plan Restic.Proofs.C09Exec

/-! ## Duplicate selection -/

/-- After `packInfoFromIndex`, every used blob has an index entry in a pack whose `usedBlobs`
    counter is positive (such a pack is never deleted), for every index order and any number of
    duplicates (the `uint8` counter saturates at 255). -/
theorem select_one (used : List BlobH) (idx : List PB) (st : Stats) (pi : PackInfoResult)
    (h : packInfoFromIndex used idx st = .ok pi) :
    ∀ b ∈ used, ∃ pb ∈ idx, pb.e.blob = b ∧ 1 ≤ ((pi.ip pb.pack).getD {}).usedBlobs :=
  (packInfo_spec h).1

/-- the sanity check `panic("internal error during blob selection")` is unreachable -/
theorem no_selection_panic (used : List BlobH) (idx : List PB) (st : Stats) :
    packInfoFromIndex used idx st ≠ .error .panicSelection := packInfo_no_panic used idx st

/-- a blob missing from the index makes planning fail (nothing is deleted) -/
theorem missing_blob_aborts (used : List BlobH) (idx : List PB) (st : Stats) (b : BlobH) (hb : b ∈ used)
    (hmiss : ∀ pb ∈ idx, pb.e.blob ≠ b) : packInfoFromIndex used idx st = .error .indexIncomplete := by
  unfold packInfoFromIndex
  have : (used.any fun b => (countPass used idx).f b == some 0) = true := by
    rw [List.any_eq_true]
    refine ⟨b, hb, ?_⟩
    rw [countPass_eq]
    have : occ b idx = 0 := by
      unfold occ
      rw [List.length_eq_zero_iff, List.filter_eq_nil_iff]
      intro pb hpb; simpa using hmiss pb hpb
    simp [hb, this]
  simp [this]

/-! ## The plan -/

theorem keepFold_mem (skip : Bool) (pl : Plan) (b : BlobH) : ∀ (l : List PB) (k : List BlobH),
    b ∈ l.foldl (keepStep skip pl) k ↔
      b ∈ k ∧ ∀ pb ∈ l, pb.e.blob = b → (pb.pack ∈ pl.remove ∨ pb.pack ∈ pl.repack ∨ (skip = true ∧ pb.pack ∈ pl.ignore)) := by
  intro l
  induction l with
  | nil => intro k; simp
  | cons pb l ih =>
    intro k
    simp only [List.foldl_cons, ih, List.mem_cons, forall_eq_or_imp]
    unfold keepStep
    split
    · rename_i hc
      constructor
      · rintro ⟨h1, h2⟩; exact ⟨h1, fun _ => hc, h2⟩
      · rintro ⟨h1, _, h2⟩; exact ⟨h1, h2⟩
    · rename_i hc
      simp only [List.mem_filter, decide_eq_true_eq, ne_eq]
      constructor
      · rintro ⟨⟨h1, h3⟩, h2⟩; exact ⟨h1, fun hb => absurd hb.symm h3, h2⟩
      · rintro ⟨h1, h3, h2⟩
        exact ⟨⟨h1, fun hb => hc (h3 hb.symm)⟩, h2⟩

/-- **plan_ok**: whatever the options, the choice oracle, the order of index entries and of the
    pack listing, a plan returned by the planner satisfies `planOK`: packs deleted first are
    unindexed, every used blob that is not repacked has a copy in a present pack that is neither
    deleted nor repacked, every blob to repack lies in a present pack that is repacked.
    (Hypothesis: the backend lists every pack file once.) -/
theorem plan_ok (o : Opts) (choice : ID → Bool) (used : List BlobH) (idx : List PB) (packs : List (ID × Nat))
    (pl : Plan) (hN : (packs.map (·.1)).Nodup) (h : planPrune o choice used idx packs = .ok pl) :
    planOK used idx packs pl = true := by
  unfold planPrune planPruneG at h
  split at h
  · exact absurd h (by simp)
  split at h
  · exact absurd h (by simp)
  split at h
  · exact absurd h (by simp)
  split at h
  · exact absurd h (by simp)
  rename_i pi hpi
  split at h
  · exact absurd h (by simp)
  rename_i pl0 hpl0
  injection h with h
  obtain ⟨hsel, hdom⟩ := packInfo_spec hpi
  obtain ⟨hrem, hign, hlisted, hfirst, hignabs⟩ := decide_spec hpl0
  have hkeys : ∀ pb ∈ idx, pb.pack ∈ packKeys idx := by
    intro pb hpb
    unfold packKeys
    rw [List.mem_eraseDups]
    exact List.mem_map_of_mem hpb
  -- the selected copy of a used blob lies in a listed pack that is neither removed nor ignored
  have hcopy : ∀ b ∈ used, ∃ pb ∈ idx, pb.e.blob = b ∧ pb.pack ∉ pl0.remove ∧ pb.pack ∉ pl0.ignore ∧
      pb.pack ∈ packs.map (·.1) := by
    intro b hb
    obtain ⟨pb, hpb, hpbb, hu⟩ := hsel b hb
    have h1 : pb.pack ∉ pl0.remove := fun hc => by have := (hrem _ hc).1; omega
    have h2 : pb.pack ∉ pl0.ignore := fun hc => by have := hign _ hc; omega
    refine ⟨pb, hpb, hpbb, h1, h2, ?_⟩
    rcases hlisted _ (hkeys pb hpb) (hdom pb hpb) with h3 | h3
    · exact h3
    · exact absurd h3 h2
  have hmemPacks : ∀ p, p ∈ packs.map (·.1) → (packs.any fun x => decide (x.1 = p)) = true := by
    intro p hp
    rw [List.any_eq_true]
    obtain ⟨x, hx, hxp⟩ := List.mem_map.mp hp
    exact ⟨x, hx, by simpa using hxp⟩
  subst h
  unfold planOK
  rw [Bool.and_eq_true, Bool.and_eq_true]
  refine ⟨⟨?_, ?_⟩, ?_⟩
  rotate_left 1
  · -- ignored packs are absent
    rw [List.all_eq_true]
    intro p hp
    simp only [Bool.not_eq_true', List.any_eq_false, decide_eq_true_eq]
    intro x hx hc
    exact hignabs p hp (List.mem_map.mpr ⟨x, hx, hc⟩)
  rotate_left 1
  · -- packs deleted first are not indexed
    rw [List.all_eq_true]
    intro p hp
    simp only [Bool.not_eq_true', List.any_eq_false, decide_eq_true_eq]
    intro pb hpb hc
    have := hfirst hN p hp
    have h2 := hdom pb hpb
    rw [hc, this] at h2
    simp at h2
  · rw [List.all_eq_true]
    intro b hb
    obtain ⟨pb, hpb, hpbb, hnr, hni, hl⟩ := hcopy b hb
    simp only
    split
    · -- nothing is repacked
      rename_i hk
      have hrep : pl0.repack = [] := by
        by_cases hc : pl0.repack = []
        · exact hc
        · simp [hc] at hk
      unfold hasCopyOutside
      rw [List.any_eq_true]
      refine ⟨pb, hpb, ?_⟩
      simp [hpbb, hrep, hnr, hmemPacks _ hl]
    · rename_i k hk
      have hk' : k = idx.foldl (keepStep true pl0) used := by
        by_cases hc : pl0.repack = []
        · simp [hc] at hk
        · simp only [ne_eq, hc, not_false_eq_true, if_true, Option.some.injEq] at hk
          exact hk.symm
      split
      · -- b is to be repacked: its selected copy lies in a repacked pack
        rename_i hbk
        have hbk' : b ∈ k := by simpa using hbk
        rw [hk', keepFold_mem] at hbk'
        have := hbk'.2 pb hpb hpbb
        have hin : pb.pack ∈ pl0.repack := by
          rcases this with h1 | h1 | h1
          · exact absurd h1 hnr
          · exact h1
          · exact absurd h1.2 hni
        unfold hasCopyIn
        rw [List.any_eq_true]
        exact ⟨pb, hpb, by simp [hpbb, hin, hmemPacks _ hl]⟩
      · -- b is not repacked: it has a copy in a pack that stays, and that pack is present
        rename_i hbk
        have hbk' : b ∉ k := by simpa using hbk
        rw [hk', keepFold_mem] at hbk'
        have : ∃ pb' ∈ idx, pb'.e.blob = b ∧ pb'.pack ∉ pl0.remove ∧ pb'.pack ∉ pl0.repack ∧ pb'.pack ∉ pl0.ignore := by
          apply Classical.byContradiction
          intro hcon
          apply hbk'
          refine ⟨hb, fun pb' hpb' hbb' => ?_⟩
          apply Classical.byContradiction
          intro hc2
          apply hcon
          refine ⟨pb', hpb', hbb', fun h1 => hc2 (Or.inl h1), fun h1 => hc2 (Or.inr (Or.inl h1)), fun h1 => hc2 (Or.inr (Or.inr ⟨rfl, h1⟩))⟩
        obtain ⟨pb', hpb', hbb', h1, h2, h3⟩ := this
        have hl' : pb'.pack ∈ packs.map (·.1) := by
          rcases hlisted _ (hkeys pb' hpb') (hdom pb' hpb') with h4 | h4
          · exact h4
          · exact absurd h4 h3
        unfold hasCopyOutside
        rw [List.any_eq_true]
        refine ⟨pb', hpb', ?_⟩
        simp [hbb', h1, h2, hmemPacks _ hl']


/-! ## Execution: every crash point -/

/-- the plan condition at repository level: every used blob has a witness outside the unindexed
    packs, and — unless it is going to be repacked — outside every pack scheduled for deletion -/
def planOKRepo (pl : XPlan) (used : List BlobH) (r : Repo) : Bool :=
  used.all fun b =>
    (pl.keep.contains b || hasWitness (pl.removeFirst ++ pl.exclude) r b) && hasWitness pl.removeFirst r b

/-- **prune_prefix_safe**: if the sequence of completed backend operations of a prune run is in
    the language `accept` and the plan is OK for the initial state, then after EVERY prefix of the
    sequence (= every crash point, every failure point, completion) every used blob is listed by
    a present index file for a present pack that holds it. -/
theorem prune_prefix_safe (pl : XPlan) (used : List BlobH) (r0 : Repo) (tr : List Ev)
    (hacc : accept pl r0 tr = true) (hplan : planOKRepo pl used r0 = true) :
    ∀ k, ∀ b ∈ used, Indexed (applyAll r0 (tr.take k)) b = true := by
  have hinit : Inv pl used 0 r0 := by
    intro b hb
    simp only [planOKRepo, List.all_eq_true, Bool.and_eq_true, Bool.or_eq_true, List.contains_eq_mem,
      decide_eq_true_eq] at hplan
    obtain ⟨h1, h2⟩ := hplan b hb
    refine ⟨fun hc => ?_, h2⟩
    rcases hc with hc | hc
    · omega
    · rcases h1 with h1 | h1
      · exact absurd h1 hc
      · exact h1
  intro k
  obtain ⟨ph', hI⟩ := acceptFrom_inv tr 0 r0 hinit hacc k
  exact inv_indexed hI

/-- every snapshot whose blobs are among the used blobs stays restorable at every prefix -/
theorem prune_prefix_restorable (pl : XPlan) (used : List BlobH) (r0 : Repo) (tr : List Ev) (s : Snap)
    (hs : ∀ b ∈ s.reach, b ∈ used)
    (hacc : accept pl r0 tr = true) (hplan : planOKRepo pl used r0 = true) :
    ∀ k, Restorable (applyAll r0 (tr.take k)) s = true := by
  intro k
  unfold Restorable
  rw [List.all_eq_true]
  intro b hb
  exact prune_prefix_safe pl used r0 tr hacc hplan k b (hs b hb)

/-- **prune_prefix_sound**: no prefix leaves an index entry pointing to a missing pack or to a blob
    its pack does not hold (if that was so before the run). -/
theorem prune_prefix_sound (pl : XPlan) (r0 : Repo) (tr : List Ev)
    (hacc : accept pl r0 tr = true) (h0 : IdxSound r0 = true) :
    ∀ k, IdxSound (applyAll r0 (tr.take k)) = true :=
  acceptFrom_sound tr 0 r0 h0 hacc

/-- snapshots are not touched by an accepted trace -/
theorem accept_snaps (pl : XPlan) : ∀ (tr : List Ev) (ph : Nat) (r : Repo), acceptFrom pl ph r tr = true →
    ∀ k, (applyAll r (tr.take k)).snaps = r.snaps := by
  intro tr
  induction tr with
  | nil => intro ph r _ k; simp [applyAll]
  | cons e tr ih =>
    intro ph r ha k
    cases k with
    | zero => simp [applyAll]
    | succ k =>
      simp only [acceptFrom] at ha
      split at ha
      · exact Bool.noConfusion ha
      · rename_i ph' hs
        have h1 := ih ph' (apply r e) ha k
        have h2 : (apply r e).snaps = r.snaps := by
          cases e with
          | read t id => rfl
          | remove t id => cases t <;> first | rfl | simp [step] at hs
          | save t id c => cases t <;> cases c <;> first | rfl | simp [step] at hs
        simp only [List.take_succ_cons, applyAll, List.foldl_cons] at h1 ⊢
        rw [← h2]; exact h1

/-- **C09 at model level**: `check` stays clean and every snapshot stays restorable at every
    prefix, when all snapshots' blobs are among the used blobs (prune computes `used` from all
    snapshots). -/
theorem prune_check_ok (pl : XPlan) (used : List BlobH) (r0 : Repo) (tr : List Ev)
    (hs : ∀ s ∈ r0.snaps, ∀ b ∈ s.2.reach, b ∈ used)
    (hacc : accept pl r0 tr = true) (hplan : planOKRepo pl used r0 = true) (h0 : IdxSound r0 = true) :
    ∀ k, CheckOK (applyAll r0 (tr.take k)) = true := by
  intro k
  unfold CheckOK
  rw [Bool.and_eq_true]
  refine ⟨prune_prefix_sound pl r0 tr hacc h0 k, ?_⟩
  rw [accept_snaps pl tr 0 r0 hacc k, List.all_eq_true]
  intro s hs'
  exact prune_prefix_restorable pl used r0 tr s.2 (hs s hs') hacc hplan k

/-! ## From the planner's view (index entries, pack listing) to the repository state -/

/-- how the planner's inputs relate to the repository state: index entries come from index files,
    listed packs are present, and present packs hold the blobs the index lists for them -/
structure Reflects (r : Repo) (idx : List PB) (packs : List (ID × Nat)) : Prop where
  fromIndex : ∀ pb ∈ idx, ∃ i ∈ r.indexes, ∃ x ∈ i.2, x.1 = pb.pack ∧ pb.e ∈ x.2
  listed : ∀ x ∈ packs, packPresent r x.1 = true
  truthful : ∀ i ∈ r.indexes, ∀ x ∈ i.2, ∀ e ∈ x.2, ∀ pk ∈ r.packs, pk.1 = x.1 → ∃ e' ∈ pk.2, e'.blob = e.blob

theorem planOK_repo (r : Repo) (used : List BlobH) (idx : List PB) (packs : List (ID × Nat)) (pl : Plan)
    (hr : Reflects r idx packs) (h : planOK used idx packs pl = true) : planOKRepo pl.toX used r = true := by
  unfold planOK at h
  simp only [Bool.and_eq_true, List.all_eq_true, Bool.not_eq_true', List.any_eq_false, decide_eq_true_eq] at h
  obtain ⟨⟨hfirst, hign⟩, hblobs⟩ := h
  -- an index entry in a listed pack gives a witness avoiding any set the pack is not in
  have wit : ∀ (avoid : List ID) (pb : PB), pb ∈ idx → pb.pack ∉ avoid → (∃ x ∈ packs, x.1 = pb.pack) →
      hasWitness avoid r pb.e.blob = true := by
    intro avoid pb hpb hav ⟨x, hx, hxp⟩
    rw [hasWitness_iff]
    obtain ⟨i, hi, y, hy, hyp, hye⟩ := hr.fromIndex pb hpb
    refine ⟨i, hi, y, hy, by rw [hyp]; exact hav, ⟨pb.e, hye, rfl⟩, ?_⟩
    rw [packHas_iff]
    have hp := hr.listed x hx
    simp only [packPresent, List.any_eq_true, decide_eq_true_eq] at hp
    obtain ⟨pk, hpk, hpk1⟩ := hp
    obtain ⟨e', he', hb'⟩ := hr.truthful i hi y hy pb.e hye pk hpk (by rw [hpk1, hxp, hyp])
    exact ⟨pk, hpk, by rw [hpk1, hxp, hyp], e', he', hb'⟩
  unfold planOKRepo
  rw [List.all_eq_true]
  intro b hb
  have hbl := hblobs b hb
  have notFirst : ∀ pb ∈ idx, pb.pack ∉ pl.removeFirst := fun pb hpb hc => hfirst _ hc pb hpb rfl
  have outside : hasCopyOutside idx packs (pl.remove ++ pl.repack) b = true →
      hasWitness (pl.toX.removeFirst ++ pl.toX.exclude) r b = true := by
    intro hco
    simp only [hasCopyOutside, List.any_eq_true, Bool.and_eq_true, decide_eq_true_eq, Bool.not_eq_true',
      List.contains_eq_mem, decide_eq_false_iff_not] at hco
    obtain ⟨pb, hpb, ⟨hpbb, hav⟩, x, hx, hxp⟩ := hco
    rw [← hpbb]
    apply wit _ pb hpb _ ⟨x, hx, hxp⟩
    simp only [Plan.toX, List.mem_append, not_or]
    simp only [List.mem_append, not_or] at hav
    exact ⟨notFirst pb hpb, ⟨hav.1, hav.2⟩, fun hc => hign _ hc x hx hxp⟩
  rw [Bool.and_eq_true]
  cases hk : pl.keep with
  | none =>
    simp only [hk] at hbl
    have hw := outside hbl
    exact ⟨by simp [hw], hasWitness_weaken hw⟩
  | some k =>
    simp only [hk] at hbl
    by_cases hbk : k.contains b = true
    · simp only [hbk, if_true] at hbl
      simp only [hasCopyIn, List.any_eq_true, Bool.and_eq_true, decide_eq_true_eq] at hbl
      obtain ⟨pb, hpb, ⟨hpbb, _⟩, x, hx, hxp⟩ := hbl
      refine ⟨by simp only [Plan.toX, hk, Option.getD_some, hbk, Bool.true_or], ?_⟩
      rw [← hpbb]
      exact wit _ pb hpb (notFirst pb hpb) ⟨x, hx, hxp⟩
    · simp only [hbk] at hbl
      have hw := outside hbl
      exact ⟨by simp [hw], hasWitness_weaken hw⟩

/-- **prune_safe** (composition): for a repository state `r0`, any order of its index entries and
    of its pack listing, any options and any choice oracle: if planning succeeds and the executed
    operation sequence is in the language of `Execute`, every used blob stays indexed at every
    prefix. Re-running prune on the state after any prefix is covered by the same theorem, because
    it holds for every repository state (`prune_rerun`). -/
theorem prune_safe (r0 : Repo) (o : Opts) (choice : ID → Bool) (used : List BlobH) (idx : List PB)
    (packs : List (ID × Nat)) (pl : Plan) (tr : List Ev)
    (hr : Reflects r0 idx packs) (hN : (packs.map (·.1)).Nodup)
    (hplan : planPrune o choice used idx packs = .ok pl) (hacc : accept pl.toX r0 tr = true) :
    ∀ k, ∀ b ∈ used, Indexed (applyAll r0 (tr.take k)) b = true :=
  prune_prefix_safe pl.toX used r0 tr hacc
    (planOK_repo r0 used idx packs pl hr (plan_ok o choice used idx packs pl hN hplan))

/-! ## T1: regenerated call orders -/

/-- `PrunePlan.Execute` (regenerated from internal/repository/prune.go on every run): delete
    unindexed packs, repack (`CopyBlobs`), check that everything was repacked, [unsafe-recovery
    index deletion], rewrite the index, and only then delete packs. -/
theorem execute_order :
    Restic.Gen.pruneExecute_calls.filter (fun c => c ∈ ["deleteFiles", "CopyBlobs", "plan.keepBlobs.Len", "rewriteIndexFiles"])
      = ["deleteFiles", "CopyBlobs", "plan.keepBlobs.Len", "deleteFiles", "rewriteIndexFiles", "deleteFiles"] := by
  decide

/-- `MasterIndex.Rewrite`: all index saves are joined (`wg.Wait`) before obsolete index files are
    removed. -/
theorem rewrite_order :
    Restic.Gen.indexRewrite_calls.filter (fun c => c ∈ ["idx.SaveIndex", "wg.Wait", "restic.ParallelRemove"])
      = ["idx.SaveIndex", "wg.Wait", "restic.ParallelRemove"] := by
  decide

/-- `repack`: a blob is taken off `keepBlobs` only by the worker that goes on to save it -/
theorem repack_order :
    Restic.Gen.repack_calls.filter (fun c => c ∈ ["keepBlobs.Delete", "uploader.SaveBlob"])
      = ["keepBlobs.Delete", "uploader.SaveBlob"] := by
  decide

/-! ## Finding F17 (negation witness) and non-vacuity -/

section Examples

private def bD (s : String) : BlobH := { tpe := .data, id := s }
private def en (p : ID) (b : String) (len : Nat) : PB := { pack := p, e := { blob := bD b, off := 0, len := len, unc := true } }

/-- index: pack P (missing from the repository) lists b and an unused blob; pack Q (present) lists
    b, an unused blob and c. Used: b, c. -/
private def exIdx : List PB := [en "P" "b" 100, en "P" "u1" 50, en "Q" "b" 100, en "Q" "u2" 70, en "Q" "c" 30]
private def exPacks : List (ID × Nat) := [("Q", 36 + 3 * 37 + 200)]
private def exOpts : Opts := { maxUnusedZero := true, smallPackBytes := 1 }

/-- F17: the planner as found at the pinned commit (`skipIgnored = false`) drops the used blob b
    from `keepBlobs` because of its index entry in the *missing* pack P, while the only real copy
    lies in Q, which is repacked and deleted: `planOK` is false for the plan it returns. -/
theorem f17_negation_witness :
    (match planPruneG false exOpts (fun _ => true) [bD "b", bD "c"] exIdx exPacks with
     | .ok pl => planOK [bD "b", bD "c"] exIdx exPacks pl
     | .error _ => true) = false := by decide

/-- the corrected planner keeps b -/
example :
    (match planPrune exOpts (fun _ => true) [bD "b", bD "c"] exIdx exPacks with
     | .ok pl => pl.keep == some [bD "b", bD "c"] && pl.repack == ["Q"] && pl.ignore == ["P"] &&
                 planOK [bD "b", bD "c"] exIdx exPacks pl
     | .error _ => false) = true := by decide

/-- non-vacuity of `prune_prefix_safe` / `prune_check_ok`: a repository with a duplicated blob, a
    repack and a complete, accepted operation sequence -/
private def e1 (b : String) (n : Nat) : Entry := { blob := bD b, off := 0, len := n, unc := true }
private def exRepo : Repo :=
  { packs := [("Q", [e1 "b" 100, e1 "u2" 70, e1 "c" 30]), ("R", [e1 "x" 10]), ("Z", [e1 "z" 5])]
    indexes := [("i1", [("Q", [e1 "b" 100, e1 "u2" 70, e1 "c" 30]), ("R", [e1 "x" 10])])]
    snaps := [("s1", { tree := "t", reach := [bD "b", bD "c"] })] }
private def exX : XPlan := { removeFirst := ["Z"], exclude := ["R", "Q"], keep := [bD "b", bD "c"] }
private def exTrace : List Ev :=
  [.remove .pack "Z", .save .pack "N" (.pack [e1 "b" 100, e1 "c" 30]),
   .save .index "i2" (.index [("N", [e1 "b" 100, e1 "c" 30])]), .remove .index "i1",
   .remove .pack "R", .remove .pack "Q"]

example : accept exX exRepo exTrace = true ∧ planOKRepo exX [bD "b", bD "c"] exRepo = true ∧
    IdxSound exRepo = true ∧ CheckOK (applyAll exRepo exTrace) = true := by decide

/-- deleting the pack before the index is rewritten is not in the language -/
example : accept exX exRepo [.remove .pack "Z", .save .pack "N" (.pack [e1 "b" 100, e1 "c" 30]),
    .save .index "i2" (.index [("N", [e1 "b" 100, e1 "c" 30])]), .remove .pack "Q"] = false := by decide

/-- removing the old index before the repacked blobs are indexed is not in the language -/
example : accept exX exRepo [.remove .pack "Z", .save .pack "N" (.pack [e1 "b" 100, e1 "c" 30]),
    .remove .index "i1"] = false := by decide

end Examples

end Restic.Props.C09
