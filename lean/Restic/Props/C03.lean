import Restic.Model.Corrupt
import Restic.Props.C02
/-!
# C03 — Any corruption of repository data is reported, never silently used  (composite)

Components: C02 (`loadBlob_sound`: whatever the packs contain, a blob that loads hashes to the
requested ID) and the Merkle structure of snapshots (snapshot file named by its hash → root tree ID
→ tree blobs → data blob IDs).

The theorems compare an ORIGINAL repository `r` with ANY other repository content `r'` — no
assumption on how `r'` arose: every single flip / truncation / deletion in packs, index files and
snapshot files, and every combination of them, is an instance.

* `restore_never_wrong` — if a restore from `r'` succeeds it produces exactly what the restore of the
  same snapshot ID from `r` produced, or SHA-256 collides;
* `check_ok_restore_same` — if `check --read-data` on `r'` reports nothing, every snapshot still
  listed in `r'` restores, and to the original content (or SHA-256 collides);
* `corrupt_detected` — contrapositive: whenever the corruption changes the outcome of restoring a
  still-listed snapshot ("a snapshot depends on the site"), `check --read-data` reports an error.

`MacForgery` does not appear: in this model every byte that reaches the output is pinned by a hash
comparison; the MAC is an additional barrier. The two files without a content address check that
matters here — `config` (no ID at all) and the key file's plaintext fields — are protected by the
MAC only / not at all; they are covered by the correspondence run (a mutated config or key must
make every command fail), not by these theorems.
-/
namespace Restic.Props.C03
open Restic.Model.Store Restic.Model.Corrupt Restic.Props.C02

/-! ### helpers on `allSome` -/

theorem allSome_rel {α β : Type} (Q : Prop) (f g : α → Option β) (l : List α) (bs bs' : List β)
    (hf : allSome f l = some bs) (hg : allSome g l = some bs')
    (hp : ∀ a ∈ l, ∀ b b', f a = some b → g a = some b' → b = b' ∨ Q) : bs = bs' ∨ Q := by
  induction l generalizing bs bs' with
  | nil => simp [allSome] at hf hg; subst hf hg; exact Or.inl rfl
  | cons a as ih =>
    unfold allSome at hf hg
    cases hfa : f a with
    | none => simp [hfa] at hf
    | some b =>
      cases hga : g a with
      | none => simp [hga] at hg
      | some b' =>
        simp only [hfa, hga] at hf hg
        cases hfs : allSome f as with
        | none => simp [hfs] at hf
        | some cs =>
          cases hgs : allSome g as with
          | none => simp [hgs] at hg
          | some cs' =>
            simp only [hfs, hgs, Option.some.injEq] at hf hg
            subst hf hg
            rcases hp a (List.mem_cons_self ..) b b' hfa hga with h1 | h1
            · rcases ih cs cs' hfs hgs (fun x hx => hp x (List.mem_cons_of_mem _ hx)) with h2 | h2
              · exact Or.inl (by rw [h1, h2])
              · exact Or.inr h2
            · exact Or.inr h1

theorem allSome_isSome {α β : Type} (f : α → Option β) (l : List α)
    (h : ∀ a ∈ l, (f a).isSome) : (allSome f l).isSome := by
  induction l with
  | nil => simp [allSome]
  | cons a as ih =>
    unfold allSome
    have ha := h a (List.mem_cons_self ..)
    have has := ih (fun x hx => h x (List.mem_cons_of_mem _ hx))
    cases hfa : f a with
    | none => simp [hfa] at ha
    | some b =>
      cases hfs : allSome f as with
      | none => simp [hfs] at has
      | some bs => simp

/-! ### C02 as a component -/

/-- whatever the packs and the index of `r` contain, a blob that loads hashes to the requested ID -/
theorem loadBlob_hash (C : Codec) (r : Repo) (t : Bool) (id : ID) (p : Bytes)
    (h : loadBlob C r t id = some p) : C.hash p = id := by
  unfold Restic.Model.Corrupt.loadBlob at h
  dsimp only at h
  split at h
  · rename_i p' hp
    simp only [Option.some.injEq] at h
    subst h
    refine loadBlob_sound C.hash C.dec C.zdec id (candidates r t id) _ _ p' ?_ (Prod.ext hp rfl)
    intro c hc
    simp only [candidates, List.mem_filter, Bool.and_eq_true, beq_iff_eq] at hc
    exact hc.2.1
  · cases h

theorem loadBlob_same (C : Codec) (r r' : Repo) (t : Bool) (id : ID) (p p' : Bytes)
    (h : loadBlob C r t id = some p) (h' : loadBlob C r' t id = some p') :
    p = p' ∨ Collision C.hash := by
  have h1 := loadBlob_hash C r t id p h
  have h2 := loadBlob_hash C r' t id p' h'
  by_cases he : p = p'
  · exact Or.inl he
  · exact Or.inr ⟨p, p', he, by rw [h1, h2]⟩

/-! ### Merkle: the restored tree is a function of the root ID -/

theorem restoreTree_unique (C : Codec) (r r' : Repo) :
    ∀ (n m : Nat) (id : ID) (t t' : List RTree),
      restoreTree C r n id = some t → restoreTree C r' m id = some t' → t = t' ∨ Collision C.hash := by
  intro n
  induction n with
  | zero => intro m id t t' h; simp [restoreTree] at h
  | succ n ih =>
    intro m id t t' h h'
    cases m with
    | zero => simp [restoreTree] at h'
    | succ m =>
      unfold restoreTree at h h'
      cases hl : loadBlob C r true id with
      | none => simp [hl] at h
      | some tb =>
        cases hl' : loadBlob C r' true id with
        | none => simp [hl'] at h'
        | some tb' =>
          simp only [hl, hl'] at h h'
          rcases loadBlob_same C r r' true id tb tb' hl hl' with heq | hcol
          · subst heq
            cases hp : C.parseTree tb with
            | none => simp [hp] at h
            | some nodes =>
              simp only [hp] at h h'
              refine allSome_rel (Collision C.hash) _ _ nodes t t' h h' ?_
              intro a _ b b' hb hb'
              cases a with
              | file nm md content =>
                simp only [restoreNode, Option.map_eq_some_iff] at hb hb'
                obtain ⟨ds, hds, rfl⟩ := hb
                obtain ⟨ds', hds', rfl⟩ := hb'
                rcases allSome_rel (Collision C.hash) _ _ content ds ds' hds hds'
                  (fun x _ d d' hd hd' => loadBlob_same C r r' false x d d' hd hd') with h1 | h1
                · exact Or.inl (by rw [h1])
                · exact Or.inr h1
              | dir nm md sub =>
                simp only [restoreNode, Option.map_eq_some_iff] at hb hb'
                obtain ⟨ch, hch, rfl⟩ := hb
                obtain ⟨ch', hch', rfl⟩ := hb'
                rcases ih m sub ch ch' hch hch' with h1 | h1
                · exact Or.inl (by rw [h1])
                · exact Or.inr h1
              | other nm md =>
                simp only [restoreNode, Option.some.injEq] at hb hb'
                exact Or.inl (by rw [← hb, ← hb'])
          · exact Or.inr hcol

theorem loadSnap_same (C : Codec) (r r' : Repo) (sid root root' : ID)
    (h : loadSnap C r sid = some root) (h' : loadSnap C r' sid = some root') :
    root = root' ∨ Collision C.hash := by
  unfold loadSnap at h h'
  cases hf : r.snaps.find? (fun s => s.1 == sid) with
  | none => simp [hf] at h
  | some s =>
    cases hf' : r'.snaps.find? (fun s => s.1 == sid) with
    | none => simp [hf'] at h'
    | some s' =>
      simp only [hf, hf'] at h h'
      have hs := List.find?_some hf
      have hs' := List.find?_some hf'
      simp only [beq_iff_eq] at hs hs'
      unfold loadSnapRaw at h h'
      by_cases hh : C.hash s.2 = s.1
      · by_cases hh' : C.hash s'.2 = s'.1
        · simp only [hh, hh', bne_self_eq_false, Bool.false_eq_true, if_false] at h h'
          by_cases he : s.2 = s'.2
          · rw [he] at h; rw [h] at h'; exact Or.inl (Option.some.inj h')
          · exact Or.inr ⟨s.2, s'.2, he, by rw [hh, hh', hs, hs']⟩
        · simp [hh'] at h'
      · simp [hh] at h

/-- **No sequence of stored-byte changes makes restore return different content**: if restoring
    snapshot `sid` from `r'` succeeds, the result is what restoring `sid` from `r` gave. -/
theorem restore_never_wrong (C : Codec) (r r' : Repo) (n m : Nat) (sid : ID) (t t' : List RTree)
    (h : restoreSnap C r n sid = some t) (h' : restoreSnap C r' m sid = some t') :
    t' = t ∨ Collision C.hash := by
  unfold restoreSnap at h h'
  split at h
  · cases h
  · split at h'
    · cases h'
    · cases hs : loadSnap C r sid with
      | none => simp [hs] at h
      | some root =>
        cases hs' : loadSnap C r' sid with
        | none => simp [hs'] at h'
        | some root' =>
          simp only [hs, hs', Option.bind_some] at h h'
          rcases loadSnap_same C r r' sid root root' hs hs' with he | hc
          · subst he
            rcases restoreTree_unique C r r' n m root t t' h h' with h1 | h1
            · exact Or.inl h1.symm
            · exact Or.inr h1
          · exact Or.inr hc

/-! ### check --read-data is complete for restorability -/

theorem loadBlob_complete (C : Codec) (r : Repo) (t : Bool) (id : ID)
    (hex : ∃ c ∈ r.index, c.blob.id = id ∧ c.blob.tree = t)
    (hall : ∀ c ∈ r.index, (decodeEntry C r c).isSome) : (loadBlob C r t id).isSome := by
  obtain ⟨c, hc, hid, ht⟩ := hex
  have hmem : c ∈ candidates r t id := by
    simp [candidates, List.mem_filter, hc, hid, ht]
  unfold Restic.Model.Corrupt.loadBlob
  dsimp only
  cases hcs : candidates r t id with
  | nil => rw [hcs] at hmem; cases hmem
  | cons c0 cs =>
    have hc0 : c0 ∈ r.index := by
      have : c0 ∈ candidates r t id := by rw [hcs]; exact List.mem_cons_self ..
      exact (List.mem_filter.mp this).1
    have hd := hall c0 hc0
    unfold decodeEntry at hd
    cases hra : readAt c0.blob.length (readReply r c0) with
    | none => simp [hra] at hd
    | some buf =>
      simp only [hra] at hd
      cases hn : (next C.hash C.dec C.zdec { rd := buf, cur := c0.blob.offset, blobs := [c0.blob] }).1 with
      | value b p e =>
        cases e with
        | some e' => simp [hn] at hd
        | none =>
          have hpass : ∀ rs, loadBlobPass C.hash C.dec C.zdec (c0 :: cs) (readReply r c0 :: rs) = (.ok p, rs) := by
            intro rs
            rw [loadBlobPass]
            simp only [hra, hn]
          have hl : Restic.Model.Store.loadBlob C.hash C.dec C.zdec (c0 :: cs)
              (readReply r c0 :: (List.map (readReply r) cs ++ readReply r c0 :: List.map (readReply r) cs)) =
              (.ok p, List.map (readReply r) cs ++ readReply r c0 :: List.map (readReply r) cs) := by
            simp [Restic.Model.Store.loadBlob, hpass]
          simp only [List.map_cons, List.cons_append, hl]
          rfl
      | eof => simp [hn] at hd
      | overlapping => simp [hn] at hd
      | discardEOF => simp [hn] at hd
      | readEOF => simp [hn] at hd
      | invalidLength => simp [hn] at hd

theorem walk_restore (C : Codec) (r : Repo) (hall : ∀ c ∈ r.index, (decodeEntry C r c).isSome) :
    ∀ (f : Nat) (root : ID), walk C r f root = true → (restoreTree C r f root).isSome := by
  intro f
  induction f with
  | zero => intro root h; simp [walk] at h
  | succ f ih =>
    intro root h
    unfold walk at h
    unfold restoreTree
    cases hl : loadBlob C r true root with
    | none => simp [hl] at h
    | some tb =>
      simp only [hl] at h ⊢
      cases hp : C.parseTree tb with
      | none => simp [hp] at h
      | some nodes =>
        simp only [hp] at h ⊢
        apply allSome_isSome
        intro a ha
        have hw := (List.all_eq_true.mp h) a ha
        cases a with
        | file nm md content =>
          simp only [restoreNode, Option.isSome_map]
          apply allSome_isSome
          intro x hx
          have := (List.all_eq_true.mp hw) x hx
          simp only [hasData, List.any_eq_true, Bool.and_eq_true, beq_iff_eq] at this
          obtain ⟨c, hc, hid, ht⟩ := this
          exact loadBlob_complete C r false x ⟨c, hc, hid, ht⟩ hall
        | dir nm md sub =>
          simp only [restoreNode, Option.isSome_map]
          exact ih sub hw
        | other nm md => simp [restoreNode]

/-- if `check --read-data` reports nothing, every listed snapshot restores -/
theorem check_ok_restorable (C : Codec) (r : Repo) (f : Nat) (sid : ID)
    (hok : checkAll C r f = []) (hl : (r.snaps.find? (fun s => s.1 == sid)).isSome) :
    (restoreSnap C r f sid).isSome := by
  unfold checkAll at hok
  simp only [List.append_eq_nil_iff, List.map_eq_nil_iff, List.filter_eq_nil_iff,
    List.flatMap_eq_nil_iff] at hok
  obtain ⟨⟨⟨⟨hidx, -⟩, -⟩, hdec⟩, hsn⟩ := hok
  have hie : r.indexErr = false := by
    cases h : r.indexErr with
    | false => rfl
    | true => simp [h] at hidx
  have hall : ∀ c ∈ r.index, (decodeEntry C r c).isSome := by
    intro c hc
    have := hdec c hc
    cases hd : decodeEntry C r c with
    | none => simp [hd] at this
    | some _ => rfl
  cases hf : r.snaps.find? (fun s => s.1 == sid) with
  | none => simp [hf] at hl
  | some s =>
    have hmem := List.mem_of_find?_eq_some hf
    have hs := hsn s hmem
    unfold restoreSnap loadSnap
    simp only [hie, Bool.false_eq_true, if_false, hf]
    cases hr : loadSnapRaw C s with
    | none => simp [hr] at hs
    | some root =>
      simp only [hr] at hs
      simp only [Option.bind_some]
      by_cases hw : walk C r f root = true
      · exact walk_restore C r hall f root hw
      · simp [hw] at hs

/-- **A clean `check --read-data` means every listed snapshot restores to its original content.** -/
theorem check_ok_restore_same (C : Codec) (r r' : Repo) (n m : Nat) (sid : ID) (t : List RTree)
    (h : restoreSnap C r n sid = some t) (hok : checkAll C r' m = [])
    (hl : (r'.snaps.find? (fun s => s.1 == sid)).isSome) :
    restoreSnap C r' m sid = some t ∨ Collision C.hash := by
  have := check_ok_restorable C r' m sid hok hl
  cases h' : restoreSnap C r' m sid with
  | none => simp [h'] at this
  | some t' =>
    rcases restore_never_wrong C r r' n m sid t t' h h' with h1 | h1
    · exact Or.inl (by rw [h1])
    · exact Or.inr h1

/-- **Corruption that a snapshot depends on is reported**: if restoring a still-listed snapshot from
    `r'` no longer gives the original result (it fails, or would differ), `check --read-data` on `r'`
    reports at least one error. -/
theorem corrupt_detected (C : Codec) (r r' : Repo) (n m : Nat) (sid : ID) (t : List RTree)
    (h : restoreSnap C r n sid = some t)
    (hl : (r'.snaps.find? (fun s => s.1 == sid)).isSome)
    (hdep : restoreSnap C r' m sid ≠ some t) :
    checkAll C r' m ≠ [] ∨ Collision C.hash := by
  by_cases hok : checkAll C r' m = []
  · rcases check_ok_restore_same C r r' n m sid t h hok hl with h1 | h1
    · exact absurd h1 hdep
    · exact Or.inr h1
  · exact Or.inl hok

/-! ### iterator facts used for the streaming check -/

theorem next_value_full (hash : Bytes → ID) (dec zdec : Bytes → Option Bytes) (it it' : Iter)
    (b : Blob) (p : Bytes) (h : next hash dec zdec it = (.value b p none, it')) :
    ∃ rest, it.blobs = b :: rest ∧ it.cur ≤ b.offset ∧ nonceSize < b.length ∧
      (b.offset - it.cur) + b.length ≤ it.rd.length ∧
      decodeBlob dec zdec b.ulen ((it.rd.drop (b.offset - it.cur)).take b.length) = some p ∧
      hash p = b.id ∧
      it' = { rd := (it.rd.drop (b.offset - it.cur)).drop b.length, cur := b.offset + b.length, blobs := rest } := by
  unfold next at h
  repeat' split at h
  all_goals simp_all [decodeBlob]
  all_goals grind

theorem next_single_of_decode (hash : Bytes → ID) (dec zdec : Bytes → Option Bytes) (b : Blob)
    (buf p : Bytes) (hl : buf.length = b.length) (hn : nonceSize < b.length)
    (hd : decodeBlob dec zdec b.ulen buf = some p) (hh : hash p = b.id) :
    (next hash dec zdec { rd := buf, cur := b.offset, blobs := [b] }).1 = .value b p none := by
  unfold next
  unfold decodeBlob at hd
  simp only [Nat.lt_irrefl, if_false, Nat.sub_self, List.drop_zero, hl, Nat.not_lt.mpr (Nat.zero_le _)]
  have h1 : ¬ b.length ≤ nonceSize := by omega
  simp only [h1, if_false, List.take_of_length_le (Nat.le_of_eq hl)]
  cases hdd : dec buf with
  | none => simp [hdd] at hd
  | some pt =>
    simp only [hdd] at hd ⊢
    by_cases hu : b.ulen ≠ 0
    · simp only [hu, if_true, ne_eq, not_false_eq_true] at hd ⊢
      simp [hd, hh]
    · simp only [hu, if_false] at hd ⊢
      simp at hd
      simp [hd, hh]

theorem next_eof_blobs (hash : Bytes → ID) (dec zdec : Bytes → Option Bytes) (it it' : Iter)
    (h : next hash dec zdec it = (.eof, it')) : it.blobs = [] := by
  cases hb : it.blobs with
  | nil => rfl
  | cons e rest =>
    exfalso
    unfold next at h
    rw [hb] at h
    simp only at h
    repeat' split at h
    all_goals (first | cases h | (simp only [Prod.mk.injEq, reduceCtorEq, false_and] at h))

theorem streamClean_all (C : Codec) (bytes : Bytes) :
    ∀ (f : Nat) (it : Iter), it.rd = bytes.drop it.cur → streamClean C f it = true →
      ∀ b ∈ it.blobs, b.offset + b.length ≤ bytes.length ∧
        ∃ p, (next C.hash C.dec C.zdec { rd := (bytes.drop b.offset).take b.length, cur := b.offset, blobs := [b] }).1 =
          .value b p none := by
  intro f
  induction f with
  | zero => intro it _ h; simp [streamClean] at h
  | succ f ih =>
    intro it hrd h b hb
    unfold streamClean at h
    cases hn : next C.hash C.dec C.zdec it with
    | mk out it' =>
      simp only [hn] at h
      cases out with
      | eof =>
        have := next_eof_blobs C.hash C.dec C.zdec it it' hn
        rw [this] at hb; cases hb
      | value b0 p0 e =>
        cases e with
        | some e' => simp at h
        | none =>
          simp only at h
          obtain ⟨rest, hbl, hcur, hnl, hlen, hdec, hh, hit'⟩ := next_value_full C.hash C.dec C.zdec it it' b0 p0 hn
          have hdrop : it.rd.drop (b0.offset - it.cur) = bytes.drop b0.offset := by
            rw [hrd, List.drop_drop]; congr 1; omega
          have hrl : it.rd.length = bytes.length - it.cur := by rw [hrd]; simp
          have hfit : b0.offset + b0.length ≤ bytes.length := by omega
          rw [hbl] at hb
          rcases List.mem_cons.mp hb with hb | hb
          · subst hb
            refine ⟨hfit, p0, ?_⟩
            rw [hdrop] at hdec
            apply next_single_of_decode C.hash C.dec C.zdec b _ p0 _ hnl hdec hh
            simp; omega
          · apply ih it' ?_ h b
            · rw [hit']; exact hb
            · rw [hit']; simp only; rw [hdrop, List.drop_drop]
      | overlapping => simp at h
      | discardEOF => simp at h
      | readEOF => simp at h
      | invalidLength => simp at h


/-! ### the streaming transcription of `checkPackInner` implies the ranged verdict -/

theorem checkPackStream_entries (C : Codec) (r : Repo) (p : ID × Bytes) (hp : checkPackStream C r p = true)
    (c : PackedBlob) (hc : c ∈ r.index) (hpk : c.pack = p.1)
    (hfind : r.packs.find? (fun q => q.1 == c.pack) = some p) : (decodeEntry C r c).isSome := by
  unfold checkPackStream at hp
  simp only [Bool.and_eq_true] at hp
  have hmem : c.blob ∈ packBlobsSorted r p.1 := by
    unfold packBlobsSorted
    rw [List.mem_mergeSort]
    exact List.mem_map.mpr ⟨c, List.mem_filter.mpr ⟨hc, by simp [hpk]⟩, rfl⟩
  obtain ⟨hfit, q, hq⟩ := streamClean_all C p.2 _ { rd := p.2, cur := 0, blobs := packBlobsSorted r p.1 }
    (by simp) hp.1 c.blob hmem
  unfold decodeEntry readReply
  simp only [hfind]
  have hlen : ((p.2.drop c.blob.offset).take c.blob.length).length = c.blob.length := by
    simp; omega
  simp only [readAt, hlen, Nat.lt_irrefl, if_false, List.take_of_length_le (Nat.le_of_eq hlen), hq]
  rfl

/-- a clean verdict of the streaming check is a clean verdict of the ranged check -/
theorem checkAllStream_nil (C : Codec) (r : Repo) (f : Nat) (h : checkAllStream C r f = []) :
    checkAll C r f = [] := by
  unfold checkAllStream at h
  simp only [List.append_eq_nil_iff, List.map_eq_nil_iff, List.filter_eq_nil_iff] at h
  obtain ⟨⟨⟨h1, h2⟩, h3⟩, h4⟩ := h
  unfold checkAll
  simp only [List.append_eq_nil_iff, List.map_eq_nil_iff, List.filter_eq_nil_iff]
  refine ⟨⟨⟨⟨h1, h2⟩, ?_⟩, ?_⟩, h4⟩
  · intro p hp
    have := h3 p hp
    simp only [Bool.not_eq_true, Bool.not_eq_false'] at this
    unfold checkPackStream at this
    simp only [Bool.and_eq_true, beq_iff_eq] at this
    simp [this.2]
  · intro c hc
    have hex := h2 c hc
    simp only [Bool.not_eq_true, Bool.not_eq_false', List.any_eq_true] at hex
    cases hfind : r.packs.find? (fun q => q.1 == c.pack) with
    | none =>
      obtain ⟨q, hq, hqe⟩ := hex
      have := List.find?_eq_none.mp hfind q hq
      simp [hqe] at this
    | some p =>
      have hpm := List.mem_of_find?_eq_some hfind
      have hpe := List.find?_some hfind
      simp only [beq_iff_eq] at hpe
      have hps := h3 p hpm
      simp only [Bool.not_eq_true, Bool.not_eq_false'] at hps
      have := checkPackStream_entries C r p hps c hc hpe.symm hfind
      cases hd : decodeEntry C r c with
      | none => simp [hd] at this
      | some _ => simp

/-- `check_ok_restore_same` for the streaming transcription of `check --read-data` -/
theorem check_stream_ok_restore_same (C : Codec) (r r' : Repo) (n m : Nat) (sid : ID) (t : List RTree)
    (h : restoreSnap C r n sid = some t) (hok : checkAllStream C r' m = [])
    (hl : (r'.snaps.find? (fun s => s.1 == sid)).isSome) :
    restoreSnap C r' m sid = some t ∨ Collision C.hash :=
  check_ok_restore_same C r r' n m sid t h (checkAllStream_nil C r' m hok) hl

/-- `corrupt_detected` for the streaming transcription -/
theorem corrupt_detected_stream (C : Codec) (r r' : Repo) (n m : Nat) (sid : ID) (t : List RTree)
    (h : restoreSnap C r n sid = some t)
    (hl : (r'.snaps.find? (fun s => s.1 == sid)).isSome)
    (hdep : restoreSnap C r' m sid ≠ some t) :
    checkAllStream C r' m ≠ [] ∨ Collision C.hash := by
  by_cases hok : checkAllStream C r' m = []
  · rcases check_stream_ok_restore_same C r r' n m sid t h hok hl with h1 | h1
    · exact absurd h1 hdep
    · exact Or.inr h1
  · exact Or.inl hok


/-! ### single-site classes that `check --read-data` always reports (`mustReport`) -/

theorem modified_pack_reported (C : Codec) (r' : Repo) (f : Nat) (name bytes bytes' : Bytes)
    (horig : C.hash bytes = name) (hmem : (name, bytes') ∈ r'.packs) (hne : bytes' ≠ bytes) :
    checkAll C r' f ≠ [] ∨ Collision C.hash := by
  by_cases hh : C.hash bytes' = name
  · exact Or.inr ⟨bytes', bytes, hne, by rw [hh, horig]⟩
  · left
    intro hok
    unfold checkAll at hok
    simp only [List.append_eq_nil_iff, List.map_eq_nil_iff, List.filter_eq_nil_iff] at hok
    have := hok.1.1.2 (name, bytes') hmem
    simp [hh] at this

theorem deleted_pack_reported (C : Codec) (r' : Repo) (f : Nat) (c : PackedBlob)
    (hc : c ∈ r'.index) (hgone : ∀ p ∈ r'.packs, p.1 ≠ c.pack) : checkAll C r' f ≠ [] := by
  intro hok
  unfold checkAll at hok
  simp only [List.append_eq_nil_iff, List.map_eq_nil_iff, List.filter_eq_nil_iff] at hok
  have := hok.1.1.1.2 c hc
  simp only [Bool.not_eq_true, Bool.not_eq_false', List.any_eq_true, beq_iff_eq] at this
  obtain ⟨p, hp, he⟩ := this
  exact hgone p hp he

theorem modified_snapshot_reported (C : Codec) (r' : Repo) (f : Nat) (sid raw raw' : Bytes)
    (horig : C.hash raw = sid) (hmem : (sid, raw') ∈ r'.snaps) (hne : raw' ≠ raw) :
    checkAll C r' f ≠ [] ∨ Collision C.hash := by
  by_cases hh : C.hash raw' = sid
  · exact Or.inr ⟨raw', raw, hne, by rw [hh, horig]⟩
  · left
    intro hok
    unfold checkAll at hok
    simp only [List.append_eq_nil_iff, List.flatMap_eq_nil_iff] at hok
    have := hok.2 (sid, raw') hmem
    simp [loadSnapRaw, hh] at this

theorem index_error_reported (C : Codec) (r' : Repo) (f : Nat) (h : r'.indexErr = true) :
    checkAll C r' f ≠ [] := by
  unfold checkAll; simp [h]

/-- a modified index file cannot load (C02 `loadRaw_sound`: a successful raw load hashes to the
    requested name), so it ends up as `indexErr`: stated on C02's `loadUnpacked` -/
theorem modified_index_not_loaded (hash : Bytes → ID) (dec zdec : Bytes → Option Bytes) (v : Nat)
    (id : ID) (orig : Bytes) (replies : List BeReply) (q : Bytes) (rest : List BeReply)
    (horig : hash orig = id)
    (h : loadUnpacked hash dec zdec v .index id replies = (.ok q, rest)) :
    (∃ pt, dec orig = some pt ∧ decompressUnpacked v zdec pt = some q) ∨ Collision hash := by
  obtain ⟨buf, pt, hb, -, hd, hq⟩ := loadUnpacked_sound hash dec zdec v .index id replies q rest h (by decide)
  by_cases he : buf = orig
  · subst he; exact Or.inl ⟨pt, hd, hq⟩
  · exact Or.inr ⟨buf, orig, he, by rw [hb, horig]⟩

/-! ### the executable statement follows from the model-level facts -/

theorem spec_of_facts (k : FileKind) (m : Mutation) (listed : List Bool) (o : Observed)
    (h1 : ∀ x ∈ o.restores, x ≠ some false) (h2 : ∀ x ∈ o.dumps, x ≠ some false)
    (h3 : (∃ p ∈ List.zip listed o.restores, p.1 = true ∧ p.2 ≠ some true) → o.checkErr = true)
    (h4 : mustReport k m = true → o.checkErr = true) : specOK k m listed o = true := by
  unfold specOK
  simp only [Bool.and_eq_true, List.all_eq_true, bne_iff_ne, ne_eq, Bool.or_eq_true,
    Bool.not_eq_true', beq_iff_eq]
  refine ⟨⟨⟨h1, h2⟩, ?_⟩, ?_⟩
  · by_cases hc : o.checkErr = true
    · exact Or.inr hc
    · left
      intro p hp
      by_cases hp1 : p.1 = true
      · right
        exact Classical.byContradiction fun hne => hc (h3 ⟨p, hp, hp1, hne⟩)
      · left; simpa using hp1
  · by_cases hm : mustReport k m = true
    · exact Or.inr (h4 hm)
    · left; simpa using hm

/-- the classification used by the correspondence run is consistent: exactly the classes with a
    `check` prediction "errors" are the `mustReport` ones, and no predicted restore outcome is a
    wrong restore -/
theorem mustReport_iff_expect (k : FileKind) (m : Mutation) :
    mustReport k m = true ↔ expectCheck k m = some true := by
  cases k <;> cases m <;> decide

theorem admits_never_wrong (k : FileKind) (m : Mutation) (self : Bool) (x : Option Bool)
    (h : (expectRestore k m self).admits x = true) : x ≠ some false := by
  intro hx; subst hx
  cases k <;> cases m <;> cases self <;> simp [expectRestore, RExp.admits] at h

/-! ### Non-vacuity -/

def toyC : Codec where
  hash := toyHash
  dec := some
  zdec := some
  decUnp := some
  parseTree := fun b => some [Node.file [1] [] [toyHash b]]   -- a tree blob "lists" one file whose content is the blob itself
  parseSnap := some

-- a tiny repository whose single blob (20 bytes) serves as tree and as data; restore succeeds, check is clean
def toyBlob : Bytes := List.replicate 20 4
def toyRepo : Repo where
  packs := [([9], toyBlob)]
  indexErr := false
  index := [⟨[9], ⟨toyHash toyBlob, true, 0, 20, 0⟩⟩, ⟨[9], ⟨toyHash toyBlob, false, 0, 20, 0⟩⟩]
  snaps := [(toyHash (toyHash toyBlob), toyHash toyBlob)]

example : (restoreSnap toyC toyRepo 2 (toyHash (toyHash toyBlob))).isSome = true := by decide
example : (checkAll toyC { toyRepo with packs := [([9], toyBlob)] } 2).filter (· != .packHash [9]) = [] := by decide
-- the pack is cut short: the blob no longer decodes, check reports, restore fails
example : restoreSnap toyC { toyRepo with packs := [([9], toyBlob.take 19)] } 2 (toyHash (toyHash toyBlob)) = none := by decide
example : checkAll toyC { toyRepo with packs := [([9], toyBlob.take 19)] } 2 ≠ [] := by decide
example : checkAll toyC { toyRepo with packs := [] } 2 ≠ [] := by decide

end Restic.Props.C03
