import Restic.Model.Dump
import Restic.Gen.Source
/-!
# C45 — dump writes exactly the snapshot's content

Theorems about `Restic.Model.Dump` (transcription of `printFromTree`, `DumpTree`, `sendTrees`,
`sendNodes`, `writeNode`, `dumpNodeTar`), for all trees, all blob tables and all schedules of the
loader goroutines.
-/
set_option linter.unusedSimpArgs false
set_option linter.unusedVariables false

namespace Restic.Props.C45
open Restic.Model.SnapTree Restic.Model.Dump

/-! ### writeNode: content order, for every schedule -/

/-- `write_node_exact` (functional form): whenever `writeNode` succeeds, the bytes written are the
    concatenation of the blobs in content order (repeated blobs included) -/
theorem write_node_exact (blobs : Blobs) : ∀ (ids : List Nat) (out : Bytes),
    writeNode blobs ids = some out → out = contentOf blobs ids
  | [], out, h => by simp only [writeNode, Option.some.injEq] at h; subst h; simp [contentOf]
  | id :: rest, out, h => by
    simp only [writeNode] at h
    cases hb : blobs id with
    | none => simp [hb] at h
    | some b =>
      cases hr : writeNode blobs rest with
      | none => simp [hb, hr] at h
      | some bs =>
        simp only [hb, hr, Option.some.injEq] at h
        have := write_node_exact blobs rest bs hr
        simp [contentOf, ← h, hb, this]

/-- it succeeds iff every blob can be loaded -/
theorem write_node_total (blobs : Blobs) : ∀ (ids : List Nat), (∀ i ∈ ids, (blobs i).isSome) →
    ∃ out, writeNode blobs ids = some out
  | [], _ => ⟨[], rfl⟩
  | id :: rest, h => by
    obtain ⟨b, hb⟩ := Option.isSome_iff_exists.mp (h id List.mem_cons_self)
    obtain ⟨bs, hr⟩ := write_node_total blobs rest (fun i hi => h i (List.mem_cons_of_mem _ hi))
    exact ⟨b ++ bs, by simp [writeNode, hb, hr]⟩

/-- invariant of the goroutine system of `writeNode` -/
def Inv (bs : List Bytes) (s : Sched) : Prop :=
  s.w ≤ s.q ∧ s.q ≤ bs.length ∧ s.out = (bs.take s.w).flatten

theorem step_inv (limit : Nat) (bs : List Bytes) (s s' : Sched) (st : Step) (hi : Inv bs s)
    (h : step limit bs s st = some s') : Inv bs s' := by
  obtain ⟨h1, h2, h3⟩ := hi
  cases st with
  | queue =>
    simp only [step] at h
    split at h
    · rename_i hc
      cases h
      exact ⟨by simp only; omega, by simp only; omega, h3⟩
    · cases h
  | finish i =>
    simp only [step] at h
    split at h
    · cases h; exact ⟨h1, h2, h3⟩
    · cases h
  | write =>
    simp only [step] at h
    split at h
    · rename_i hc
      cases h
      refine ⟨by simp only; omega, h2, ?_⟩
      simp only
      have hlt : s.w < bs.length := by omega
      have e : bs.take (s.w + 1) = bs.take s.w ++ [bs[s.w]] := by
        rw [List.take_add_one]; simp [List.getElem?_eq_getElem hlt]
      rw [h3, e, List.flatten_append]
      simp [List.getD, List.getElem?_eq_getElem hlt]
    · cases h

/-- **`write_node_exact` for every schedule.** Whatever order the loaders finish in and however
    the main loop, the loaders and the writer interleave: in every reachable state the output is
    the concatenation of the first `w` blobs, in content order. -/
theorem sched_safe (limit : Nat) (bs : List Bytes) : ∀ (steps : List Step) (s s' : Sched),
    Inv bs s → run limit bs s steps = some s' → Inv bs s'
  | [], s, s', hi, h => by simp [run] at h; exact h ▸ hi
  | st :: rest, s, s', hi, h => by
    simp only [run] at h
    cases hs : step limit bs s st with
    | none => simp [hs] at h
    | some s1 =>
      simp only [hs] at h
      exact sched_safe limit bs rest s1 s' (step_inv limit bs s s1 st hi hs) h

/-- a complete run (all blobs written) has written exactly the file content -/
theorem sched_complete (limit : Nat) (bs : List Bytes) (steps : List Step) (s' : Sched)
    (h : run limit bs ⟨0, [], 0, []⟩ steps = some s') (hw : s'.w = bs.length) : s'.out = bs.flatten := by
  obtain ⟨_, _, h3⟩ := sched_safe limit bs steps _ s' ⟨Nat.le_refl _, Nat.zero_le _, by simp⟩ h
  rw [h3, hw, List.take_length]

/-- the schedule model and the functional `writeNode` agree: any complete run over the blobs of a
    content list writes `contentOf`, the value `write_node_exact` gives for the function -/
theorem sched_matches_writeNode (limit : Nat) (blobs : Blobs) (ids : List Nat) (steps : List Step) (s' : Sched)
    (h : run limit (ids.map fun i => (blobs i).getD []) ⟨0, [], 0, []⟩ steps = some s')
    (hw : s'.w = ids.length) : s'.out = contentOf blobs ids := by
  have := sched_complete limit _ steps s' h (by simpa using hw)
  simpa [contentOf] using this

/-- no deadlock: as long as not everything is written, some goroutine can take a step -/
theorem sched_progress (limit : Nat) (bs : List Bytes) (s : Sched) (hi : Inv bs s) (hw : s.w < bs.length) :
    ∃ st s', step limit bs s st = some s' := by
  obtain ⟨h1, h2, _⟩ := hi
  by_cases hq : s.w = s.q
  · exact ⟨.queue, _, by simp only [step]; rw [if_pos ⟨by omega, by omega⟩]⟩
  · by_cases hd : s.w ∈ s.done
    · exact ⟨.write, _, by simp only [step]; rw [if_pos ⟨by omega, hd⟩]⟩
    · exact ⟨.finish s.w, _, by simp only [step]; rw [if_pos ⟨by omega, hd⟩]⟩

/-! ### the members of the archive -/

theorem mapOpt_map {α β : Type} (f : α → Option β) (g : α → β) : ∀ (l : List α) (r : List β),
    (∀ a ∈ l, ∀ b, f a = some b → b = g a) → mapOpt f l = some r → r = l.map g
  | [], r, _, h => by simp [mapOpt] at h; simp [← h]
  | a :: as, r, hf, h => by
    simp only [mapOpt] at h
    cases ha : f a with
    | none => simp [ha] at h
    | some b =>
      cases hr : mapOpt f as with
      | none => simp [ha, hr] at h
      | some bs =>
        simp only [ha, hr, Option.some.injEq] at h
        have e1 := hf a List.mem_cons_self b ha
        have e2 := mapOpt_map f g as bs (fun x hx => hf x (List.mem_cons_of_mem _ hx)) hr
        simp [← h, e1, e2]

mutual
theorem sendBelowT_eq : ∀ (pre : List Name) (t : Tree), shapeT t = true →
    sendBelowT pre t = (nodesT pre t).filter (fun pm => dumpable pm.2.type)
  | pre, .mk m kids, h => by
    simp only [shapeT, Bool.and_eq_true, Bool.or_eq_true, beq_iff_eq, List.isEmpty_iff] at h
    simp only [sendBelowT, nodesT, List.filter_cons]
    by_cases hd : m.type = .dir
    · simp only [hd, if_true]
      rw [sendBelowL_eq (pre ++ [m.name]) kids h.2]
      simp [dumpable]
    · have hk : kids = [] := h.1.resolve_left hd
      subst hk
      by_cases hdump : dumpable m.type = true <;> simp [hd, hdump, nodesL]
theorem sendBelowL_eq : ∀ (pre : List Name) (ts : List Tree), shapeL ts = true →
    sendBelowL pre ts = (nodesL pre ts).filter (fun pm => dumpable pm.2.type)
  | pre, [], _ => by simp [sendBelowL, nodesL]
  | pre, t :: ts, h => by
    simp only [shapeL, Bool.and_eq_true] at h
    simp only [sendBelowL, nodesL, List.filter_append, sendBelowT_eq pre t h.1, sendBelowL_eq pre ts h.2]
end

/-- `sendTrees` sends exactly the files, directories and symlinks below the dumped directory, each
    once, in tree order -/
theorem sendTrees_eq (root : List Name) : ∀ (ts : List Tree), shapeL ts = true →
    sendTrees root ts = (nodesL root ts).filter (fun pm => dumpable pm.2.type)
  | [], _ => by simp [sendTrees, nodesL]
  | t :: ts, h => by
    simp only [shapeL, Bool.and_eq_true] at h
    have ih := sendTrees_eq root ts h.2
    simp only [sendTrees] at ih
    simp only [sendTrees, List.flatMap_cons, nodesL, List.filter_append, ih]
    congr 1
    obtain ⟨m, kids⟩ := t
    have hs := h.1
    simp only [shapeT, Bool.and_eq_true, Bool.or_eq_true, beq_iff_eq, List.isEmpty_iff] at hs
    simp only [sendNodes, nodesT, List.filter_cons]
    by_cases hdump : dumpable m.type = true
    · simp only [hdump, Bool.not_true, Bool.false_eq_true, if_false, if_true]
      by_cases hd : m.type = .dir
      · simp only [hd, if_true]
        rw [sendBelowL_eq (root ++ [m.name]) kids hs.2]
      · have hk : kids = [] := hs.1.resolve_left hd
        subst hk
        simp [hd, nodesL]
    · have hd : m.type ≠ .dir := by
        intro e; simp [dumpable, e] at hdump
      have hk : kids = [] := hs.1.resolve_left hd
      subst hk
      simp [hdump, nodesL]

theorem entryOf_expected (blobs : Blobs) (p : List Name) (m : Meta) (e : Entry) (hd : dumpable m.type = true)
    (h : entryOf blobs p m = some e) :
    e = { path := p, slash := m.type == .dir,
          kind := (match m.type with | .dir => Kind.dir | .symlink => Kind.symlink | _ => Kind.reg),
          mode := tarMode m.mode,
          link := if m.type = .symlink then m.target else [],
          size := if m.type = .file then m.size else 0,
          data := if m.type = .file then contentOf blobs m.content else [] } := by
  unfold entryOf at h
  by_cases hf : m.type = .file
  · simp only [hf, if_true] at h
    cases hw : writeNode blobs m.content with
    | none => simp [hw] at h
    | some d =>
      simp only [hw] at h
      split at h
      · cases h
      · cases h
        have := write_node_exact blobs m.content d hw
        simp [hf, kindOf, this]
  · simp only [hf, if_false, writeNode, false_and, Option.some.injEq] at h
    subst h
    cases hk : m.type <;> simp_all [kindOf, dumpable]

/-- **`dump_entries`.** If `DumpTree` succeeds on a directory-shaped tree, the archive members are
    exactly `expectedEntries`: in tree order one member for each file, directory and symlink below
    the dumped directory, with its type, permission bits (setuid / setgid / sticky), link target and
    content — and no member for any other node type (`no_other_types`). -/
theorem dump_entries (blobs : Blobs) (root : List Name) (nodes : List Tree) (es : List Entry)
    (hs : shapeL nodes = true) (h : dumpTree blobs root nodes = some es) :
    specOK blobs root nodes es = true := by
  unfold dumpTree at h
  rw [sendTrees_eq root nodes hs] at h
  simp only [specOK, expectedEntries, beq_iff_eq]
  refine mapOpt_map (fun pm : List Name × Meta => entryOf blobs pm.1 pm.2) _ _ es ?_ h
  intro pm hpm e he
  have hd : dumpable pm.2.type = true := (List.mem_filter.mp hpm).2
  exact entryOf_expected blobs pm.1 pm.2 e hd he

/-- every member stems from a file, directory or symlink node -/
theorem no_other_types (blobs : Blobs) (root : List Name) (nodes : List Tree) (es : List Entry)
    (hs : shapeL nodes = true) (h : dumpTree blobs root nodes = some es) :
    ∀ e ∈ es, ∃ pm ∈ nodesL root nodes, dumpable pm.2.type = true ∧ e.path = pm.1 := by
  have hsp := dump_entries blobs root nodes es hs h
  simp only [specOK, expectedEntries, beq_iff_eq] at hsp
  intro e he
  rw [hsp] at he
  obtain ⟨pm, hpm, rfl⟩ := List.mem_map.mp he
  exact ⟨pm, (List.mem_filter.mp hpm).1, (List.mem_filter.mp hpm).2, rfl⟩

/-! ### the command: path lookup -/

/-- the directory the path components lead to -/
def resolveDir : List Name → List Tree → Option (List Tree)
  | [], ts => some ts
  | c :: rest, ts => match findFirst ts c with
    | some (.mk m kids) => if m.type == .dir then resolveDir rest kids else none
    | none => none

theorem shape_mem {ts : List Tree} {m : Meta} {kids : List Tree} (hs : shapeL ts = true)
    (hm : Tree.mk m kids ∈ ts) : shapeL kids = true := by
  induction ts with
  | nil => cases hm
  | cons t ts ih =>
    simp only [shapeL, Bool.and_eq_true] at hs
    rcases List.mem_cons.mp hm with rfl | h'
    · have := hs.1
      simp only [shapeT, Bool.and_eq_true] at this
      exact this.2
    · exact ih hs.2 h'

theorem shape_find {ts : List Tree} {c : Name} {m : Meta} {kids : List Tree} (hs : shapeL ts = true)
    (hf : findFirst ts c = some (.mk m kids)) : shapeL kids = true :=
  shape_mem hs (List.mem_of_find?_eq_some hf)

/-- **C45 for the command (archive).** When `dump <snapshot> <dir>` writes an archive, the path led
    to a directory of the snapshot and the archive is exactly the expected one for that directory
    (member names are prefixed with the path). -/
theorem printFromTree_archive (blobs : Blobs) : ∀ (comps pre : List Name) (nodes : List Tree) (es : List Entry),
    shapeL nodes = true → printFromTree blobs pre comps nodes = .archive es →
    ∃ kids, resolveDir comps nodes = some kids ∧
      specOK blobs (if comps.isEmpty then [] else pre ++ comps) kids es = true
  | [], pre, nodes, es, hs, h => by
    simp only [printFromTree] at h
    cases hd : dumpTree blobs [] nodes with
    | none => simp [hd] at h
    | some es' =>
      simp only [hd, Out.archive.injEq] at h
      subst h
      exact ⟨nodes, rfl, by simpa using dump_entries blobs [] nodes es' hs hd⟩
  | c :: rest, pre, nodes, es, hs, h => by
    simp only [printFromTree] at h
    cases hf : findFirst nodes c with
    | none => simp [hf] at h
    | some t =>
      obtain ⟨m, kids⟩ := t
      have hsk := shape_find hs hf
      simp only [hf] at h
      by_cases h1 : (rest.isEmpty && m.type == .file) = true
      · simp only [h1, if_true] at h
        cases hw : writeNode blobs m.content <;> simp [hw] at h
      · simp only [h1, Bool.false_eq_true, if_false] at h
        by_cases h2 : (!rest.isEmpty && m.type == .dir) = true
        · simp only [h2, if_true] at h
          obtain ⟨kids', hr, hsp⟩ := printFromTree_archive blobs rest (pre ++ [c]) kids es hsk h
          have hdir : (m.type == NType.dir) = true := by
            simp only [Bool.and_eq_true] at h2; exact h2.2
          have hne : rest.isEmpty = false := by
            simp only [Bool.and_eq_true, Bool.not_eq_true'] at h2; exact h2.1
          refine ⟨kids', by simp [resolveDir, hf, hdir, hr], ?_⟩
          simpa [hne] using hsp
        · simp only [h2, Bool.false_eq_true, if_false] at h
          by_cases h3 : (m.type == NType.dir) = true
          · simp only [h3, if_true] at h
            have hre : rest = [] := by
              cases rest with
              | nil => rfl
              | cons _ _ => simp [h3] at h2
            subst hre
            cases hd : dumpTree blobs (pre ++ [c]) kids with
            | none => simp [hd] at h
            | some es' =>
              simp only [hd, Out.archive.injEq] at h
              subst h
              exact ⟨kids, by simp [resolveDir, hf, h3], by simpa using dump_entries blobs _ kids es' hsk hd⟩
          · simp [h3] at h

/-- **C45 for the command (single file).** Dumping a file writes exactly its content. -/
theorem printFromTree_file (blobs : Blobs) : ∀ (comps pre : List Name) (nodes : List Tree) (d : Bytes),
    printFromTree blobs pre comps nodes = .file d →
    ∃ dir last kids m k, comps = dir ++ [last] ∧ resolveDir dir nodes = some kids ∧
      findFirst kids last = some (.mk m k) ∧ m.type = .file ∧ d = contentOf blobs m.content
  | [], pre, nodes, d, h => by
    simp only [printFromTree] at h
    cases hd : dumpTree blobs [] nodes <;> simp [hd] at h
  | c :: rest, pre, nodes, d, h => by
    simp only [printFromTree] at h
    cases hf : findFirst nodes c with
    | none => simp [hf] at h
    | some t =>
      obtain ⟨m, kids⟩ := t
      simp only [hf] at h
      by_cases h1 : (rest.isEmpty && m.type == .file) = true
      · simp only [h1, if_true] at h
        simp only [Bool.and_eq_true, List.isEmpty_iff, beq_iff_eq] at h1
        cases hw : writeNode blobs m.content with
        | none => simp [hw] at h
        | some d' =>
          simp only [hw, Out.file.injEq] at h
          subst h
          exact ⟨[], c, nodes, m, kids, by simp [h1.1], rfl, hf, h1.2, write_node_exact blobs _ _ hw⟩
      · simp only [h1, Bool.false_eq_true, if_false] at h
        by_cases h2 : (!rest.isEmpty && m.type == .dir) = true
        · simp only [h2, if_true] at h
          obtain ⟨dir, last, kids', m', k', e1, e2, e3, e4, e5⟩ := printFromTree_file blobs rest (pre ++ [c]) kids d h
          have hdir : (m.type == NType.dir) = true := by
            simp only [Bool.and_eq_true] at h2; exact h2.2
          exact ⟨c :: dir, last, kids', m', k', by simp [e1], by simp [resolveDir, hf, hdir, e2], e3, e4, e5⟩
        · simp only [h2, Bool.false_eq_true, if_false] at h
          by_cases h3 : (m.type == NType.dir) = true
          · simp only [h3, if_true] at h
            cases hd : dumpTree blobs (pre ++ [c]) kids <;> simp [hd] at h
          · simp [h3] at h

/-- T1 (regenerated from internal/dump/common.go on every run): `sendNodes` walks a directory with
    `walker.Walk`, and `writeNode` loads through the blob cache. -/
theorem dump_structure :
    "walker.Walk" ∈ Restic.Gen.sendNodes_calls ∧ "sendNodes" ∈ Restic.Gen.sendTrees_calls ∧
    "d.cache.GetOrCompute" ∈ Restic.Gen.writeNode_calls := by decide

/-- T1: `writeNode` makes exactly two channels kinds — the channel of futures, before the writer
    goroutine is started, and **one fresh channel per blob** inside the loop, i.e. after the writer's
    `wg.Go` and before the loader's `d.repo.LoadBlob`. This is what the `Sched` model assumes when it
    gives every loader its own slot (`finish i` can never deliver into the slot of another blob). -/
theorem fresh_channel_per_blob :
    (Restic.Gen.writeNode_calls.filter (· == "make")).length = 2 ∧
    ((Restic.Gen.writeNode_calls.drop (Restic.Gen.writeNode_calls.idxOf "wg.Go" + 1)).takeWhile
        (· != "d.repo.LoadBlob")).contains "make" = true ∧
    ((Restic.Gen.writeNode_calls.take (Restic.Gen.writeNode_calls.idxOf "wg.Go")).filter (· == "make")).length = 1 := by
  decide

/-! ### Non-vacuity, and the defect found (F11) -/

def exBlobs : Blobs := fun i => match i with | 1 => some [104, 105] | 2 => some [33] | _ => none

/-- directory with a two-blob file (one blob repeated), a setuid file, a symlink, a fifo, and a
    sub-directory holding a file and a socket -/
def exDir : List Tree :=
  [ .mk { name := [97], type := .file, mode := 420, size := 5, content := [1, 2, 1] } [],
    .mk { name := [98], type := .file, mode := 2 ^ 23 + 493, size := 0 } [],
    .mk { name := [108], type := .symlink, mode := 511, target := [97] } [],
    .mk { name := [112], type := .fifo, mode := 420 } [],
    .mk { name := [115], type := .dir, mode := 2 ^ 31 + 493 }
      [ .mk { name := [120], type := .file, mode := 384, size := 1, content := [2] } [],
        .mk { name := [121], type := .socket } [] ] ]

example : shapeL exDir = true := by decide

example : dumpTree exBlobs [[100]] exDir = some
    [ ⟨[[100], [97]], false, .reg, 420, [], 5, [104, 105, 33, 104, 105]⟩,
      ⟨[[100], [98]], false, .reg, 2048 + 493, [], 0, []⟩,
      ⟨[[100], [108]], false, .symlink, 511, [97], 0, []⟩,
      ⟨[[100], [115]], true, .dir, 493, [], 0, []⟩,
      ⟨[[100], [115], [120]], false, .reg, 384, [], 1, [33]⟩ ] := by decide

/-- a schedule in which the loaders finish in reverse order still writes the blobs in content order -/
example : (run 2 [[1], [2], [3]] ⟨0, [], 0, []⟩
    [.queue, .queue, .queue, .finish 2, .finish 1, .finish 0, .write, .write, .write]).map (·.out) = some [1, 2, 3] := by
  decide

/-- F11 (unchanged restic 0.19.1-dev): the fifo `p` directly below the dumped directory came out as
    an empty regular member; that output violates the statement. -/
theorem F11_output_violates_spec :
    specOK exBlobs [[100]] exDir
      [ ⟨[[100], [97]], false, .reg, 420, [], 5, [104, 105, 33, 104, 105]⟩,
        ⟨[[100], [98]], false, .reg, 2048 + 493, [], 0, []⟩,
        ⟨[[100], [108]], false, .symlink, 511, [97], 0, []⟩,
        ⟨[[100], [112]], false, .reg, 420, [], 0, []⟩,
        ⟨[[100], [115]], true, .dir, 493, [], 0, []⟩,
        ⟨[[100], [115], [120]], false, .reg, 384, [], 1, [33]⟩ ] = false := by decide

end Restic.Props.C45
