import Restic.Model.Retry
namespace Restic.Props.C35
end Restic.Props.C35
