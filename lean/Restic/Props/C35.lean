import Restic.Model.Retry
import Restic.Gen.Source
/-!
# C35 — Retried backend operations return correct results or fail

Theorems about `Restic.Model.Retry` (transcription of `retry.Backend`), for **all** fault scripts,
all backoff oracles `stop`, all configurations (feature flag on/off, flaky, atomic or not) and all
backend contents.
-/
namespace Restic.Props.C35
open Restic.Model.Retry

/-! ## generic facts about the retry loop -/

theorem retryLoop_cons_ok {σ φ : Type} (cfg : Cfg) (stop : Nat → Bool) (f : σ → φ → Att σ)
    (a : φ) (rest : List φ) (s : σ) (pl nt : Nat) (cd : Bool) (h : (f s a).err = none) :
    retryLoop cfg stop f (a :: rest) s pl nt cd =
      { st := (f s a).st, res := .ok, trace := [none], ctxDone := cd || (f s a).cancel } := by
  unfold retryLoop; simp only [h]

theorem retryLoop_cons_stop {σ φ : Type} (cfg : Cfg) (stop : Nat → Bool) (f : σ → φ → Att σ)
    (a : φ) (rest : List φ) (s : σ) (pl nt : Nat) (cd : Bool) (e : Err) (res : Res) (h : (f s a).err = some e)
    (hv : verdictAfterErr cfg stop (f s a).wrapped e (nextPl cfg (f s a).wrapped e pl) nt (cd || (f s a).cancel) = some res) :
    retryLoop cfg stop f (a :: rest) s pl nt cd =
      { st := (f s a).st, res := res, trace := [some e], ctxDone := cd || (f s a).cancel } := by
  conv => lhs; unfold retryLoop
  simp only [h, hv]

theorem retryLoop_cons_go {σ φ : Type} (cfg : Cfg) (stop : Nat → Bool) (f : σ → φ → Att σ)
    (a : φ) (rest : List φ) (s : σ) (pl nt : Nat) (cd : Bool) (e : Err) (h : (f s a).err = some e)
    (hv : verdictAfterErr cfg stop (f s a).wrapped e (nextPl cfg (f s a).wrapped e pl) nt (cd || (f s a).cancel) = none) :
    retryLoop cfg stop f (a :: rest) s pl nt cd =
      { retryLoop cfg stop f rest (f s a).st (nextPl cfg (f s a).wrapped e pl) (nt + 1) (cd || (f s a).cancel) with
        trace := some e :: (retryLoop cfg stop f rest (f s a).st (nextPl cfg (f s a).wrapped e pl) (nt + 1) (cd || (f s a).cancel)).trace } := by
  conv => lhs; unfold retryLoop
  simp only [h, hv]

/-- the verdict after a failing attempt is never `ok` -/
theorem verdict_not_ok (cfg : Cfg) (stop : Nat → Bool) (w : Bool) (e : Err) (pl nt : Nat) (cd : Bool) (res : Res)
    (h : verdictAfterErr cfg stop w e pl nt cd = some res) : res ≠ .ok := by
  unfold verdictAfterErr at h
  repeat' split at h
  all_goals (cases h; try simp)

/-- Invariant principle. `P` only has to be preserved by the *failing* attempts of the script
    (a successful attempt ends the loop): if the loop ends with `ok`, the final state is the
    result of a successful attempt started in a `P`-state; otherwise the final state satisfies `P`. -/
theorem retryLoop_inv {σ φ : Type} (cfg : Cfg) (stop : Nat → Bool) (f : σ → φ → Att σ) (P : σ → Prop)
    (script : List φ)
    (hP : ∀ s, ∀ a ∈ script, P s → (f s a).err ≠ none → P (f s a).st) :
    ∀ (s : σ) (pl nt : Nat) (cd : Bool), P s →
      ((retryLoop cfg stop f script s pl nt cd).res = .ok →
          ∃ s' a, a ∈ script ∧ P s' ∧ (f s' a).err = none ∧ (retryLoop cfg stop f script s pl nt cd).st = (f s' a).st) ∧
      ((retryLoop cfg stop f script s pl nt cd).res ≠ .ok → P (retryLoop cfg stop f script s pl nt cd).st) := by
  induction script with
  | nil => intro s pl nt cd hs; simp [retryLoop, hs]
  | cons a rest ih =>
    intro s pl nt cd hs
    have ih' := ih (fun s b hb => hP s b (List.mem_cons_of_mem _ hb))
    cases he : (f s a).err with
    | none =>
      rw [retryLoop_cons_ok cfg stop f a rest s pl nt cd he]
      simp only [ne_eq, not_true_eq_false, false_implies, and_true, forall_const]
      exact ⟨s, a, List.mem_cons_self, hs, he, rfl⟩
    | some e =>
      have hs' : P (f s a).st := hP s a List.mem_cons_self hs (by simp [he])
      cases hv : verdictAfterErr cfg stop (f s a).wrapped e (nextPl cfg (f s a).wrapped e pl) nt (cd || (f s a).cancel) with
      | some res =>
        rw [retryLoop_cons_stop cfg stop f a rest s pl nt cd e res he hv]
        have := verdict_not_ok _ _ _ _ _ _ _ _ hv
        exact ⟨fun h => absurd h this, fun _ => hs'⟩
      | none =>
        rw [retryLoop_cons_go cfg stop f a rest s pl nt cd e he hv]
        have := ih' (f s a).st (nextPl cfg (f s a).wrapped e pl) (nt + 1) (cd || (f s a).cancel) hs'
        refine ⟨fun h => ?_, fun h => this.2 h⟩
        obtain ⟨s', b, hb, h1, h2, h3⟩ := this.1 h
        exact ⟨s', b, List.mem_cons_of_mem _ hb, h1, h2, h3⟩

/-- a property preserved by every attempt holds at the end -/
theorem retryLoop_inv_all {σ φ : Type} (cfg : Cfg) (stop : Nat → Bool) (f : σ → φ → Att σ) (P : σ → Prop)
    (script : List φ) (hP : ∀ s, ∀ a ∈ script, P s → P (f s a).st)
    (s : σ) (pl nt : Nat) (cd : Bool) (hs : P s) :
    P (retryLoop cfg stop f script s pl nt cd).st := by
  have h := retryLoop_inv cfg stop f P script (fun s a ha hs _ => hP s a ha hs) s pl nt cd hs
  by_cases hr : (retryLoop cfg stop f script s pl nt cd).res = .ok
  · obtain ⟨s', a, ha, h1, _, h3⟩ := h.1 hr
    rw [h3]; exact hP s' a ha h1
  · exact h.2 hr

theorem retry_inv {σ φ : Type} (cfg : Cfg) (stop : Nat → Bool) (ctx : Bool) (f : σ → φ → Att σ) (P : σ → Prop)
    (script : List φ) (hP : ∀ s, ∀ a ∈ script, P s → (f s a).err ≠ none → P (f s a).st) (s : σ) (hs : P s) :
    ((retry cfg stop ctx f script s).res = .ok →
        ∃ s' a, a ∈ script ∧ P s' ∧ (f s' a).err = none ∧ (retry cfg stop ctx f script s).st = (f s' a).st) ∧
    ((retry cfg stop ctx f script s).res ≠ .ok → P (retry cfg stop ctx f script s).st) := by
  unfold retry
  split
  · simp [hs]
  · exact retryLoop_inv cfg stop f P script hP s _ _ _ hs

theorem retry_inv_all {σ φ : Type} (cfg : Cfg) (stop : Nat → Bool) (ctx : Bool) (f : σ → φ → Att σ) (P : σ → Prop)
    (script : List φ) (hP : ∀ s, ∀ a ∈ script, P s → P (f s a).st) (s : σ) (hs : P s) :
    P (retry cfg stop ctx f script s).st := by
  unfold retry
  split
  · exact hs
  · exact retryLoop_inv_all cfg stop f P script hP s _ _ _ hs

/-! ## permanent errors are not retried -/

theorem noRetry_cons (e : Err) (t : List (Option Err)) (he : e.isPerm = false)
    (ht : noRetryAfterPermanent t = true) : noRetryAfterPermanent (some e :: t) = true := by
  cases t with
  | nil => rfl
  | cons x xs => simp [noRetryAfterPermanent, he, ht]

/-- With the default error handling (`redesign`) and at most one permitted permanent error
    (`permanentErrorAttempts = 1`, i.e. the backend is not flaky), no attempt ever follows an
    attempt that returned a permanent error — for every script, oracle and closure. -/
theorem retryLoop_no_retry_after_permanent {σ φ : Type} (cfg : Cfg) (stop : Nat → Bool) (f : σ → φ → Att σ)
    (hr : cfg.redesign = true) (script : List φ) :
    ∀ (s : σ) (pl nt : Nat) (cd : Bool), pl ≤ 1 →
      noRetryAfterPermanent (retryLoop cfg stop f script s pl nt cd).trace = true := by
  induction script with
  | nil => intro s pl nt cd _; rfl
  | cons a rest ih =>
    intro s pl nt cd hpl
    cases he : (f s a).err with
    | none => rw [retryLoop_cons_ok cfg stop f a rest s pl nt cd he]; rfl
    | some e =>
      cases hv : verdictAfterErr cfg stop (f s a).wrapped e (nextPl cfg (f s a).wrapped e pl) nt (cd || (f s a).cancel) with
      | some res => rw [retryLoop_cons_stop cfg stop f a rest s pl nt cd e res he hv]; rfl
      | none =>
        rw [retryLoop_cons_go cfg stop f a rest s pl nt cd e he hv]
        simp only
        -- going on means: not wrapped, and the counter of permitted permanent errors is still positive
        have hgo : (f s a).wrapped = false ∧ nextPl cfg (f s a).wrapped e pl ≠ 0 := by
          unfold verdictAfterErr at hv
          split at hv
          · cases hv
          · rename_i h1
            simp only [Bool.or_eq_true, beq_iff_eq, not_or] at h1
            exact ⟨by simpa using h1.1, h1.2⟩
        have hperm : e.isPerm = false := by
          cases hp : e.isPerm with
          | false => rfl
          | true =>
            exfalso; apply hgo.2
            simp [nextPl, hr, hgo.1, hp]; omega
        apply noRetry_cons e _ hperm
        apply ih
        simp [nextPl, hperm]; exact hpl

theorem retry_no_retry_after_permanent {σ φ : Type} (cfg : Cfg) (stop : Nat → Bool) (ctx : Bool) (f : σ → φ → Att σ)
    (hr : cfg.redesign = true) (hf : cfg.flaky = false) (script : List φ) (s : σ) :
    noRetryAfterPermanent (retry cfg stop ctx f script s).trace = true := by
  unfold retry
  split
  · rfl
  · apply retryLoop_no_retry_after_permanent cfg stop f hr; simp [hf]

/-- `permanent_not_retried` in its simplest form: a first attempt that returns a permanent error
    is the only attempt, and its error is the result. -/
theorem permanent_not_retried {σ φ : Type} (cfg : Cfg) (stop : Nat → Bool) (f : σ → φ → Att σ)
    (hr : cfg.redesign = true) (hf : cfg.flaky = false) (a : φ) (rest : List φ) (s : σ) (e : Err)
    (he : (f s a).err = some e) (hp : e.isPerm = true) :
    (retry cfg stop false f (a :: rest) s).trace = [some e] ∧
    (retry cfg stop false f (a :: rest) s).res = .err e := by
  simp [retry, retryLoop, he, hr, hf, hp, nextPl, verdictAfterErr]

/-! ## Save -/

theorem set_same (c : Cells) (h : Name) (v : Option Bytes) : (c.set h v) h = v := by simp [Cells.set]
theorem set_other (c : Cells) (h : Name) (v : Option Bytes) (n : Name) (hn : n ≠ h) : (c.set h v) n = c n := by
  simp [Cells.set, hn]

/-- an attempt of Save touches no other file -/
theorem saveF_other (cfg : Cfg) (h : Name) (data : Bytes) (c : Cells) (a : SaveAtt) (n : Name) (hn : n ≠ h) :
    (saveF cfg h data c a).st n = c n := by
  obtain ⟨rw, kind, rm⟩ := a
  cases rw <;> cases kind <;> cases hat : cfg.atomic <;>
    simp [saveF, innerSave, innerRemove, Cells.set, hn, hat] <;> (repeat' split) <;> simp_all [Cells.set]

/-- an attempt of Save that reports success has stored exactly the data -/
theorem saveF_ok (cfg : Cfg) (h : Name) (data : Bytes) (c : Cells) (a : SaveAtt)
    (hok : (saveF cfg h data c a).err = none) : (saveF cfg h data c a).st h = some data := by
  obtain ⟨rw, kind, rm⟩ := a
  cases rw <;> cases kind <;> cases hat : cfg.atomic <;>
    simp_all [saveF, innerSave, innerRemove, Cells.set]

/-- on a backend with atomic replace an attempt leaves the previous or the complete content -/
theorem saveF_atomic (cfg : Cfg) (h : Name) (data : Bytes) (c : Cells) (a : SaveAtt) (hat : cfg.atomic = true) :
    (saveF cfg h data c a).st h = c h ∨ (saveF cfg h data c a).st h = some data := by
  obtain ⟨rw, kind, rm⟩ := a
  cases rw <;> cases kind <;> simp [saveF, innerSave, Cells.set, hat]

/-- without atomic replace a failing attempt whose cleanup `Remove` works leaves no file, or
    (rewind failed, nothing was touched) the previous content -/
theorem saveF_cleanup (cfg : Cfg) (h : Name) (data : Bytes) (c : Cells) (a : SaveAtt) (hat : cfg.atomic = false)
    (hrm : a.removeFails = false) (hk : ∀ k, a.kind ≠ .cancelFail k) (herr : (saveF cfg h data c a).err ≠ none) :
    (saveF cfg h data c a).st h = none ∨ (saveF cfg h data c a).st h = c h := by
  obtain ⟨rw, kind, rm⟩ := a
  simp only at hrm; subst hrm
  cases rw <;> cases kind <;> simp_all [saveF, innerSave, innerRemove, Cells.set] <;>
    (repeat' split) <;> simp_all [Cells.set]

/-- **save_ok_exact**: if the retried Save reports success, the backend holds exactly the data
    under the handle — whatever partial writes, failures and cleanups happened before. -/
theorem save_ok_exact (cfg : Cfg) (uni : Nat) (stop : Nat → Bool) (ctx : Bool) (m : MState) (h : Name)
    (data : Bytes) (script : List SaveAtt)
    (hok : (step cfg uni stop ctx m (.save h data script)).2.res = .ok) :
    (step cfg uni stop ctx m (.save h data script)).1.cells h = some data := by
  simp only [step] at hok ⊢
  obtain ⟨s', a, _, _, h2, h3⟩ :=
    (retry_inv cfg stop ctx (saveF cfg h data) (fun _ => True) script (fun _ _ _ _ _ => trivial) m.cells trivial).1 hok
  rw [h3]; exact saveF_ok cfg h data s' a h2

/-- a retried Save never touches another file -/
theorem save_other_untouched (cfg : Cfg) (uni : Nat) (stop : Nat → Bool) (ctx : Bool) (m : MState) (h : Name)
    (data : Bytes) (script : List SaveAtt) (n : Name) (hn : n ≠ h) :
    (step cfg uni stop ctx m (.save h data script)).1.cells n = m.cells n := by
  simp only [step]
  exact retry_inv_all cfg stop ctx (saveF cfg h data) (fun c => c n = m.cells n) script
    (fun s a _ hs => by rw [saveF_other cfg h data s a n hn]; exact hs) m.cells rfl

/-- **save_err_clean**, atomic backends: a failed Save leaves the previous content or the complete
    new content under the final name (never a partial file). -/
theorem save_err_clean_atomic (cfg : Cfg) (uni : Nat) (stop : Nat → Bool) (ctx : Bool) (m : MState) (h : Name)
    (data : Bytes) (script : List SaveAtt) (hat : cfg.atomic = true) :
    (step cfg uni stop ctx m (.save h data script)).1.cells h = m.cells h ∨
    (step cfg uni stop ctx m (.save h data script)).1.cells h = some data := by
  simp only [step]
  exact retry_inv_all cfg stop ctx (saveF cfg h data) (fun c => c h = m.cells h ∨ c h = some data) script
    (fun s a _ hs => by
      rcases saveF_atomic cfg h data s a hat with h1 | h1
      · rw [h1]; exact hs
      · exact Or.inr h1) m.cells (Or.inl rfl)

theorem cleanupsWork_mem (script : List SaveAtt) (hc : cleanupsWork script = true) (a : SaveAtt) (ha : a ∈ script) :
    a.removeFails = false ∧ ∀ k, a.kind ≠ .cancelFail k := by
  unfold cleanupsWork at hc
  have := List.all_eq_true.mp hc a ha
  simp only [Bool.and_eq_true, Bool.not_eq_true'] at this
  refine ⟨this.1, fun k hk => ?_⟩
  rw [hk] at this; simp at this

/-- **save_err_clean**, backends without atomic replace: if the Save fails and every cleanup
    `Remove` of the executed attempts worked (forced hypothesis: nothing can clean up when Remove
    itself fails or the context is cancelled), no file is left under the final name — or, when
    only rewinds failed, the untouched previous one. -/
theorem save_err_clean (cfg : Cfg) (uni : Nat) (stop : Nat → Bool) (ctx : Bool) (m : MState) (h : Name)
    (data : Bytes) (script : List SaveAtt) (hat : cfg.atomic = false) (hc : cleanupsWork script = true)
    (herr : (step cfg uni stop ctx m (.save h data script)).2.res ≠ .ok) :
    (step cfg uni stop ctx m (.save h data script)).1.cells h = none ∨
    (step cfg uni stop ctx m (.save h data script)).1.cells h = m.cells h := by
  simp only [step] at herr ⊢
  exact (retry_inv cfg stop ctx (saveF cfg h data) (fun c => c h = none ∨ c h = m.cells h) script
    (fun s a ha hs he => by
      obtain ⟨h1, h2⟩ := cleanupsWork_mem script hc a ha
      rcases saveF_cleanup cfg h data s a hat h1 h2 he with h3 | h3
      · exact Or.inl h3
      · rw [h3]; exact hs) m.cells (Or.inr rfl)).2 herr

/-! ## Load, Stat, Remove -/

theorem loadF_ok (c : Cells) (h : Name) (log : List Deliv) (k : LoadKind) (hok : (loadF c h log k).err = none) :
    ∃ d, c h = some d ∧ (loadF c h log k).st = log ++ [⟨d, true⟩] := by
  cases hc : c h with
  | none => cases k <;> simp [loadF, hc] at hok
  | some d => cases k <;> simp [loadF, hc] at hok ⊢

/-- **load_ok_same**: a retried Load that reports success handed the consumer, in its last
    invocation, the complete content the backend stores under the handle (earlier invocations may
    have seen partial data; they were all reported as failed to the retry loop). -/
theorem load_ok_same (cfg : Cfg) (uni : Nat) (stop : Nat → Bool) (ctx : Bool) (m : MState) (h : Name)
    (expired : Bool) (script : List LoadKind)
    (hok : (step cfg uni stop ctx m (.load h expired script)).2.res = .ok) :
    ∃ d, m.cells h = some d ∧
      (step cfg uni stop ctx m (.load h expired script)).2.delivs.getLast? = some ⟨d, true⟩ := by
  simp only [step] at hok ⊢
  split at hok
  · simp at hok
  · rename_i hb
    simp only [hb]
    obtain ⟨s', a, _, _, h2, h3⟩ :=
      (retry_inv cfg stop ctx (loadF m.cells h) (fun _ => True) script (fun _ _ _ _ _ => trivial) [] trivial).1 hok
    obtain ⟨d, hd, hst⟩ := loadF_ok m.cells h s' a h2
    refine ⟨d, hd, ?_⟩
    simp only [Bool.false_eq_true, if_false]
    rw [h3, hst]; simp

/-- Load never changes the backend content -/
theorem load_state_unchanged (cfg : Cfg) (uni : Nat) (stop : Nat → Bool) (ctx : Bool) (m : MState) (h : Name)
    (expired : Bool) (script : List LoadKind) :
    (step cfg uni stop ctx m (.load h expired script)).1.cells = m.cells := by
  simp only [step]; split <;> rfl

/-- circuit breaker: a handle recorded in `failedLoads` (and not expired) is answered with an
    error without any backend call -/
theorem breaker_open_no_backend_call (cfg : Cfg) (uni : Nat) (stop : Nat → Bool) (ctx : Bool) (m : MState)
    (h : Name) (script : List LoadKind) (hf : h ∈ m.failed) :
    (step cfg uni stop ctx m (.load h false script)).2 = { res := .err .breaker, trace := [] } := by
  simp [step, hf]

theorem statF_ok (c : Cells) (h : Name) (fi : Nat) (k : StatKind) (hok : (statF c h fi k).err = none) :
    ∃ d, c h = some d ∧ (statF c h fi k).st = d.length := by
  cases hc : c h with
  | none => cases k <;> simp [statF, hc] at hok
  | some d => cases k <;> simp [statF, hc] at hok ⊢

theorem stat_ok_same (cfg : Cfg) (uni : Nat) (stop : Nat → Bool) (ctx : Bool) (m : MState) (h : Name)
    (script : List StatKind) (hok : (step cfg uni stop ctx m (.stat h script)).2.res = .ok) :
    ∃ d, m.cells h = some d ∧ (step cfg uni stop ctx m (.stat h script)).2.size = d.length := by
  simp only [step] at hok ⊢
  obtain ⟨s', a, _, _, h2, h3⟩ :=
    (retry_inv cfg stop ctx (statF m.cells h) (fun _ => True) script (fun _ _ _ _ _ => trivial) 0 trivial).1 hok
  obtain ⟨d, hd, hst⟩ := statF_ok m.cells h s' a h2
  exact ⟨d, hd, by rw [h3, hst]⟩

/-- Stat of a missing file is answered after one attempt in every configuration -/
theorem stat_notExist_not_retried (cfg : Cfg) (uni : Nat) (stop : Nat → Bool) (m : MState) (h : Name)
    (rest : List StatKind) (hn : m.cells h = none) :
    (step cfg uni stop false m (.stat h (.none :: rest))).2 =
      { res := .err .notExist, trace := [some .notExist], size := 0 } := by
  simp [step, retry, retryLoop, statF, hn, verdictAfterErr]

theorem removeF_other (h : Name) (c : Cells) (k : RemoveKind) (n : Name) (hn : n ≠ h) :
    (removeF h c k).st n = c n := by
  cases k <;> simp [removeF, Cells.set, hn]
  split <;> simp [Cells.set, hn]

theorem removeF_mono (h : Name) (c : Cells) (k : RemoveKind) (hc : c h = none) : (removeF h c k).st h = none := by
  cases k <;> simp [removeF, Cells.set, hc]

theorem removeF_ok (h : Name) (c : Cells) (k : RemoveKind) (hok : (removeF h c k).err = none) :
    (c h).isSome = true ∧ (removeF h c k).st h = none := by
  cases k <;> simp [removeF] at hok ⊢
  split at hok
  · simp at hok
  · rename_i hx; simp [hx, Cells.set]; cases hc : c h <;> simp_all

/-- a retried Remove that reports success removed a file that existed before the operation,
    i.e. it did what the error-free backend does -/
theorem remove_ok (cfg : Cfg) (uni : Nat) (stop : Nat → Bool) (ctx : Bool) (m : MState) (h : Name)
    (script : List RemoveKind) (hok : (step cfg uni stop ctx m (.remove h script)).2.res = .ok) :
    (m.cells h).isSome = true ∧ (step cfg uni stop ctx m (.remove h script)).1.cells h = none := by
  simp only [step] at hok ⊢
  obtain ⟨s', a, _, h1, h2, h3⟩ :=
    (retry_inv cfg stop ctx (removeF h) (fun c => m.cells h = none → c h = none) script
      (fun s a _ hs _ hm => removeF_mono h s a (hs hm)) m.cells id).1 hok
  obtain ⟨h4, h5⟩ := removeF_ok h s' a h2
  refine ⟨?_, by rw [h3]; exact h5⟩
  cases hm : m.cells h with
  | some _ => rfl
  | none => rw [h1 hm] at h4; simp at h4

theorem remove_other_untouched (cfg : Cfg) (uni : Nat) (stop : Nat → Bool) (ctx : Bool) (m : MState) (h : Name)
    (script : List RemoveKind) (n : Name) (hn : n ≠ h) :
    (step cfg uni stop ctx m (.remove h script)).1.cells n = m.cells n := by
  simp only [step]
  exact retry_inv_all cfg stop ctx (removeF h) (fun c => c n = m.cells n) script
    (fun s a _ hs => by rw [removeF_other h s a n hn]; exact hs) m.cells rfl

/-! ## List -/

theorem feed_mono (ff : Option Nat) (ns : List Name) : ∀ (s : ListSt) (n : Name),
    n ∈ s.listed → n ∈ (feed ff s ns).1.listed := by
  induction ns with
  | nil => intro s n h; exact h
  | cons x xs ih =>
    intro s n h
    unfold feed
    split
    · exact ih s n h
    · simp only
      split
      · simp [h]
      · apply ih; simp [h]

theorem feed_nodup (ff : Option Nat) (ns : List Name) : ∀ (s : ListSt),
    s.listed.Nodup → (feed ff s ns).1.listed.Nodup := by
  induction ns with
  | nil => intro s h; exact h
  | cons x xs ih =>
    intro s h
    unfold feed
    split
    · exact ih s h
    · rename_i hx
      have hnd : (s.listed ++ [x]).Nodup := by
        rw [List.nodup_append]
        refine ⟨h, by simp, ?_⟩
        intro a ha b hb; simp at hb; subst hb; intro hab; subst hab; exact hx ha
      simp only
      split
      · exact hnd
      · exact ih _ hnd

theorem feed_subset (ff : Option Nat) (names : List Name) (ns : List Name) : ∀ (s : ListSt),
    (∀ n ∈ s.listed, n ∈ names) → (∀ n ∈ ns, n ∈ names) → ∀ n ∈ (feed ff s ns).1.listed, n ∈ names := by
  induction ns with
  | nil => intro s h _; exact h
  | cons x xs ih =>
    intro s h hns
    have hx : x ∈ names := hns x List.mem_cons_self
    have hxs : ∀ n ∈ xs, n ∈ names := fun n hn => hns n (List.mem_cons_of_mem _ hn)
    have h' : ∀ n ∈ s.listed ++ [x], n ∈ names := by
      intro n hn; simp at hn; rcases hn with hn | hn
      · exact h n hn
      · subst hn; exact hx
    unfold feed
    split
    · exact ih s h hxs
    · simp only
      split
      · exact h'
      · exact ih _ h' hxs

theorem feed_complete (ff : Option Nat) (ns : List Name) : ∀ (s : ListSt),
    (feed ff s ns).2 = false → ∀ n ∈ ns, n ∈ (feed ff s ns).1.listed := by
  induction ns with
  | nil => intro s _ n hn; cases hn
  | cons x xs ih =>
    intro s hab n hn
    unfold feed at hab ⊢
    split
    · rename_i hx
      simp only [hx, if_true] at hab
      rcases List.mem_cons.mp hn with rfl | hn
      · exact feed_mono ff xs s _ hx
      · exact ih s hab n hn
    · rename_i hx
      simp only [hx, if_false] at hab
      simp only
      split
      · rename_i he; simp only [he, if_true] at hab; cases hab
      · rename_i he
        simp only [he] at hab
        rcases List.mem_cons.mp hn with rfl | hn
        · apply feed_mono; simp
        · exact ih _ hab n hn

theorem feed_abort_err (ff : Option Nat) (ns : List Name) : ∀ (s : ListSt),
    (feed ff s ns).2 = true → (feed ff s ns).1.innerErr ≠ none := by
  induction ns with
  | nil => intro s h; simp [feed] at h
  | cons x xs ih =>
    intro s hab
    unfold feed at hab ⊢
    split
    · rename_i hx; simp only [hx, if_true] at hab; exact ih s hab
    · rename_i hx
      simp only [hx, if_false] at hab
      by_cases he : ff = some s.listed.length
      · simp [he]
      · simp only [he, if_false] at hab ⊢
        exact ih _ (by simpa using hab)

theorem mem_rotate (l : List Name) (r : Nat) (n : Name) : n ∈ rotate l r ↔ n ∈ l := by
  unfold rotate
  split
  · rfl
  · rw [List.mem_append, Or.comm, ← List.mem_append, List.take_append_drop]

theorem length_rotate (l : List Name) (r : Nat) : (rotate l r).length = l.length := by
  unfold rotate
  split
  · rfl
  · rw [List.length_append, Nat.add_comm, ← List.length_append, List.take_append_drop]

theorem delivered_subset (names : List Name) (a : ListAtt) : ∀ n ∈ delivered names a, n ∈ names := by
  intro n hn
  unfold delivered at hn
  have h1 : ∀ n ∈ (rotate names a.rot).take a.count, n ∈ names :=
    fun n hn => (mem_rotate names a.rot n).mp (List.mem_of_mem_take hn)
  split at hn
  · rcases List.mem_append.mp hn with h | h <;> exact h1 n h
  · exact h1 n hn

theorem delivered_complete (names : List Name) (a : ListAtt) (hc : names.length ≤ a.count) :
    ∀ n ∈ names, n ∈ delivered names a := by
  intro n hn
  have h1 : n ∈ (rotate names a.rot).take a.count := by
    rw [List.take_of_length_le (by rw [length_rotate]; exact hc)]
    exact (mem_rotate names a.rot n).mpr hn
  unfold delivered
  split
  · exact List.mem_append_left _ h1
  · exact h1

theorem nodupB_iff (l : List Name) : nodupB l = true ↔ l.Nodup := by
  induction l with
  | nil => simp [nodupB]
  | cons x xs ih => simp [nodupB, ih]

/-- **list_once**: the retried List hands every file name to the caller's callback at most once,
    whatever the wrapped backend delivers (partial listings, repeated names, different orders per
    attempt). -/
theorem list_once (cfg : Cfg) (uni : Nat) (stop : Nat → Bool) (ctx : Bool) (m : MState)
    (ff : Option Nat) (script : List ListAtt) :
    (step cfg uni stop ctx m (.list ff script)).2.reported.Nodup := by
  simp only [step]
  exact retry_inv_all cfg stop ctx (listF (present m.cells uni) ff) (fun st => st.listed.Nodup) script
    (fun s a _ hs => by
      unfold listF; simp only
      split <;> exact feed_nodup ff _ s hs) ⟨[], none⟩ List.nodup_nil

/-- every reported name is a file of the backend -/
theorem list_sound (cfg : Cfg) (uni : Nat) (stop : Nat → Bool) (ctx : Bool) (m : MState)
    (ff : Option Nat) (script : List ListAtt) :
    ∀ n ∈ (step cfg uni stop ctx m (.list ff script)).2.reported, n ∈ present m.cells uni := by
  simp only [step]
  exact retry_inv_all cfg stop ctx (listF (present m.cells uni) ff)
    (fun st => ∀ n ∈ st.listed, n ∈ present m.cells uni) script
    (fun s a _ hs => by
      unfold listF; simp only
      split <;> exact feed_subset ff _ _ s hs (delivered_subset _ a)) ⟨[], none⟩ (fun _ h => by cases h)

/-- **list_complete**: if the retried List reports success (and successful listings of the wrapped
    backend are complete), every file of the backend was reported. -/
theorem list_complete (cfg : Cfg) (uni : Nat) (stop : Nat → Bool) (ctx : Bool) (m : MState)
    (ff : Option Nat) (script : List ListAtt)
    (hc : okListsComplete (present m.cells uni).length script = true)
    (hok : (step cfg uni stop ctx m (.list ff script)).2.res = .ok) :
    ∀ n ∈ present m.cells uni, n ∈ (step cfg uni stop ctx m (.list ff script)).2.reported := by
  simp only [step] at hok ⊢
  split at hok
  · cases hok
  · obtain ⟨s', a, ha, _, h2, h3⟩ :=
      (retry_inv cfg stop ctx (listF (present m.cells uni) ff) (fun _ => True) script
        (fun _ _ _ _ _ => trivial) ⟨[], none⟩ trivial).1 hok
    rw [h3]
    unfold listF at h2 ⊢
    simp only at h2 ⊢
    split
    · rename_i hab
      simp only [hab, if_true] at h2
      exact absurd h2 (feed_abort_err ff _ s' hab)
    · rename_i hab
      simp only [hab] at h2
      have hab' : (feed ff s' (delivered (present m.cells uni) a)).2 = false := by simpa using hab
      have hcount : (present m.cells uni).length ≤ a.count := by
        have := List.all_eq_true.mp hc a ha
        have ho : a.outcome = none := h2
        simpa [ho] using this
      intro n hn
      exact feed_complete ff _ s' hab' n (delivered_complete _ a hcount n hn)

/-- "the error fn returned takes precedence" -/
theorem list_fn_error_wins (cfg : Cfg) (uni : Nat) (stop : Nat → Bool) (ctx : Bool) (m : MState)
    (ff : Option Nat) (script : List ListAtt)
    (hok : (step cfg uni stop ctx m (.list ff script)).2.res = .ok) :
    (retry cfg stop ctx (listF (present m.cells uni) ff) script ⟨[], none⟩).st.innerErr = none := by
  simp only [step] at hok
  split at hok
  · cases hok
  · assumption

/-! ## the transcription meets the executable statement of C35 -/

theorem step_trace_no_retry (cfg : Cfg) (uni : Nat) (stop : Nat → Bool) (ctx : Bool) (m : MState) (op : Op)
    (hr : cfg.redesign = true) (hf : cfg.flaky = false) :
    noRetryAfterPermanent (step cfg uni stop ctx m op).2.trace = true := by
  cases op with
  | save h data script => exact retry_no_retry_after_permanent cfg stop ctx _ hr hf script _
  | load h ex script =>
    simp only [step]
    split
    · rfl
    · exact retry_no_retry_after_permanent cfg stop ctx _ hr hf script _
  | stat h script => exact retry_no_retry_after_permanent cfg stop ctx _ hr hf script _
  | remove h script => exact retry_no_retry_after_permanent cfg stop ctx _ hr hf script _
  | list ff script => exact retry_no_retry_after_permanent cfg stop ctx _ hr hf script _

theorem stat_state_unchanged (cfg : Cfg) (uni : Nat) (stop : Nat → Bool) (ctx : Bool) (m : MState) (h : Name)
    (script : List StatKind) : (step cfg uni stop ctx m (.stat h script)).1.cells = m.cells := rfl

theorem list_state_unchanged (cfg : Cfg) (uni : Nat) (stop : Nat → Bool) (ctx : Bool) (m : MState)
    (ff : Option Nat) (script : List ListAtt) : (step cfg uni stop ctx m (.list ff script)).1.cells = m.cells := rfl

theorem cellsEq_of_forall (uni : Nat) (a b : Cells) (h : ∀ n, a n = b n) : cellsEq uni a b = true := by
  unfold cellsEq
  rw [List.all_eq_true]
  intro n _; rw [h n]; simp

theorem step_clause2 (cfg : Cfg) (uni : Nat) (stop : Nat → Bool) (ctx : Bool) (m : MState) (op : Op) :
    clause2 op (step cfg uni stop ctx m op).2 = none := by
  cases op <;> simp only [clause2]
  rename_i ff script
  rw [(nodupB_iff _).mpr (list_once cfg uni stop ctx m ff script)]; rfl

theorem step_clause4 (cfg : Cfg) (uni : Nat) (stop : Nat → Bool) (ctx : Bool) (m : MState) (op : Op) :
    clause4 cfg (step cfg uni stop ctx m op).2 = none := by
  unfold clause4
  cases hr : cfg.redesign <;> cases hf : cfg.flaky <;> simp
  exact step_trace_no_retry cfg uni stop ctx m op hr hf

theorem step_clause5 (cfg : Cfg) (uni : Nat) (stop : Nat → Bool) (ctx : Bool) (m : MState) (op : Op) :
    clause5 uni m.cells op (step cfg uni stop ctx m op).1.cells = none := by
  cases op with
  | save h data script =>
    simp only [clause5]
    rw [if_pos]
    rw [List.all_eq_true]; intro n _
    by_cases hn : n = h
    · simp [hn]
    · simp [save_other_untouched cfg uni stop ctx m h data script n hn]
  | remove h script =>
    simp only [clause5]
    rw [if_pos]
    rw [List.all_eq_true]; intro n _
    by_cases hn : n = h
    · simp [hn]
    · simp [remove_other_untouched cfg uni stop ctx m h script n hn]
  | load h ex script =>
    simp only [clause5, load_state_unchanged]
    rw [if_pos]; exact cellsEq_of_forall _ _ _ (fun _ => rfl)
  | stat h script =>
    simp only [clause5]
    rw [if_pos]; exact cellsEq_of_forall _ _ _ (fun n => by rw [stat_state_unchanged])
  | list ff script =>
    simp only [clause5]
    rw [if_pos]; exact cellsEq_of_forall _ _ _ (fun n => by rw [list_state_unchanged])

theorem step_clause3 (cfg : Cfg) (uni : Nat) (stop : Nat → Bool) (ctx : Bool) (m : MState) (op : Op) :
    clause3 cfg m.cells op (step cfg uni stop ctx m op).1.cells (step cfg uni stop ctx m op).2 = none := by
  cases op with
  | save h data script =>
    simp only [clause3]
    split
    · rename_i hc
      simp only [Bool.and_eq_true, bne_iff_ne, ne_eq, Bool.or_eq_true] at hc
      rw [if_pos]
      cases hat : cfg.atomic with
      | true =>
        rcases save_err_clean_atomic cfg uni stop ctx m h data script hat with h1 | h1 <;> simp [h1]
      | false =>
        have hcw : cleanupsWork script = true := by simpa [hat] using hc.2
        rcases save_err_clean cfg uni stop ctx m h data script hat hcw hc.1 with h1 | h1 <;> simp [h1]
    · rfl
  | load h ex script => rfl
  | stat h script => rfl
  | remove h script => rfl
  | list ff script => rfl

theorem sameSet_of (a b : List Name) (h1 : ∀ n ∈ a, n ∈ b) (h2 : ∀ n ∈ b, n ∈ a) : sameSet a b = true := by
  unfold sameSet
  simp only [Bool.and_eq_true, List.all_eq_true, decide_eq_true_eq]
  exact ⟨h1, h2⟩

theorem step_clause1 (cfg : Cfg) (uni : Nat) (stop : Nat → Bool) (ctx : Bool) (m : MState) (op : Op) :
    clause1 uni m.cells op (step cfg uni stop ctx m op).1.cells (step cfg uni stop ctx m op).2 = none := by
  unfold clause1
  simp only
  split
  · rename_i hok
    have hok' : (step cfg uni stop ctx m op).2.res = .ok := by simpa using hok
    cases op with
    | save h data script =>
      have : cellsEq uni (step cfg uni stop ctx m (.save h data script)).1.cells (plain uni m.cells (.save h data script)).1 = true := by
        apply cellsEq_of_forall
        intro n
        by_cases hn : n = h
        · subst hn; rw [save_ok_exact cfg uni stop ctx m n data script hok']; simp [plain, Cells.set]
        · rw [save_other_untouched cfg uni stop ctx m h data script n hn]; simp [plain, Cells.set, hn]
      simp [this]
    | load h ex script =>
      obtain ⟨d, hd, hl⟩ := load_ok_same cfg uni stop ctx m h ex script hok'
      have : cellsEq uni (step cfg uni stop ctx m (.load h ex script)).1.cells (plain uni m.cells (.load h ex script)).1 = true := by
        apply cellsEq_of_forall
        intro n; rw [load_state_unchanged]; simp [plain, hd]
      have this2 : cellsEq uni (step cfg uni stop ctx m (.load h ex script)).1.cells m.cells = true :=
        cellsEq_of_forall _ _ _ (fun n => by rw [load_state_unchanged])
      simp [this2, hl, plain, hd]
    | stat h script =>
      obtain ⟨d, hd, hl⟩ := stat_ok_same cfg uni stop ctx m h script hok'
      have : cellsEq uni (step cfg uni stop ctx m (.stat h script)).1.cells (plain uni m.cells (.stat h script)).1 = true := by
        apply cellsEq_of_forall
        intro n; simp [plain, hd, step]
      have this2 : cellsEq uni (step cfg uni stop ctx m (.stat h script)).1.cells m.cells = true :=
        cellsEq_of_forall _ _ _ (fun n => by rw [stat_state_unchanged])
      simp [this2, hl, plain, hd]
    | remove h script =>
      obtain ⟨h1, h2⟩ := remove_ok cfg uni stop ctx m h script hok'
      have hne : (m.cells h).isNone = false := by cases hc : m.cells h <;> simp_all
      have : cellsEq uni (step cfg uni stop ctx m (.remove h script)).1.cells (m.cells.set h none) = true := by
        apply cellsEq_of_forall
        intro n
        by_cases hn : n = h
        · subst hn; rw [h2]; simp [Cells.set]
        · rw [remove_other_untouched cfg uni stop ctx m h script n hn]; simp [Cells.set, hn]
      simp [this, plain, hne]
    | list ff script =>
      have : cellsEq uni (step cfg uni stop ctx m (.list ff script)).1.cells (plain uni m.cells (.list ff script)).1 = true := by
        apply cellsEq_of_forall
        intro n; simp [plain, step]
      simp only [this, Bool.not_true, Bool.false_eq_true, if_false]
      split
      · rfl
      · rename_i hc
        have hc' : okListsComplete (present m.cells uni).length script = true := by simpa using hc
        rw [if_pos]
        exact sameSet_of _ _ (list_sound cfg uni stop ctx m ff script)
          (list_complete cfg uni stop ctx m ff script hc' hok')
  · rfl

/-- **Main theorem (transcription ⇒ statement).** For every configuration, backend content,
    circuit-breaker state, backoff oracle, operation and fault script, the retry layer's step
    satisfies the executable reading of C35 (`specOK`): a completed operation gives exactly what
    the error-free backend gives, listings report each file at most once, a failed Save leaves no
    partial file (atomic backend, or working cleanups), permanent errors are not retried
    (default error handling, non-flaky backend), and nothing else changes. -/
theorem step_specOK (cfg : Cfg) (uni : Nat) (stop : Nat → Bool) (ctx : Bool) (m : MState) (op : Op) :
    specOK cfg uni m.cells op (step cfg uni stop ctx m op).1.cells (step cfg uni stop ctx m op).2 = true := by
  unfold specOK specViolation
  rw [step_clause1, step_clause2, step_clause3, step_clause4, step_clause5]
  rfl

/-! ## tie T1: the retry bound of the deprecated mode -/

/-- the model's `maxRetries` is the literal in `backoff.WithMaxRetries(b, 10)` of the current
    `Backend.retry` (regenerated `callargs` fact) -/
theorem gen_max_retries : maxRetriesOfCalls Restic.Gen.retry_callargs = some maxRetries := by decide

/-! ## non-vacuity: the hypotheses are satisfiable by non-trivial runs (examples, not theorems) -/

def exCfg : Cfg := { redesign := true, flaky := false, atomic := false, maxTries := 10 }
def exM : MState := { cells := fun n => if n = 1 then some [9, 9] else none, failed := [] }

/-- a Save that succeeds at the third attempt after a partial write and a write-then-fail -/
example : (step exCfg 3 (fun _ => false) false exM
    (.save 0 [1, 2, 3] [⟨false, .partialFail 2, false⟩, ⟨false, .writeThenFail, true⟩, ⟨false, .ok, false⟩])).2
    = { res := .ok, trace := [some .transient, some .transient, none] } := by decide

/-- a failing Save whose cleanups work: budget exhausted after two attempts, nothing left -/
def exRun2 := step exCfg 3 (fun _ => true) false exM
  (.save 0 [1, 2, 3] [⟨false, .partialFail 2, false⟩, ⟨false, .partialFail 1, false⟩, ⟨false, .ok, false⟩])
example : exRun2.2.res = .err .transient ∧ exRun2.1.cells 0 = none ∧ exRun2.2.trace.length = 2 := by decide

/-- the excluded point of `save_err_clean`: the cleanup Remove fails, a partial file stays -/
def exRun3 := step exCfg 3 (fun _ => true) false exM
  (.save 0 [1, 2, 3] [⟨false, .failBefore, false⟩, ⟨false, .partialFail 1, true⟩])
example : exRun3.2.res = .err .transient ∧ exRun3.1.cells 0 = some [1] := by decide

/-- a permanent error at the second attempt ends the loop there -/
example : (step exCfg 3 (fun _ => false) false exM (.load 1 false [.failBefore, .permanent, .none])).2
    = { res := .err .permanent, trace := [some .transient, some .permanent] } := by decide

/-- a listing over three attempts with overlaps and a repeated name reports each file once -/
example : (step exCfg 3 (fun _ => false) false { cells := fun _ => some [], failed := [] }
    (.list none [⟨1, 2, false, some .transient⟩, ⟨0, 2, true, some .transient⟩, ⟨2, 5, false, none⟩])).2.reported
    = [1, 2, 0] := by decide

end Restic.Props.C35
