import Restic.Proofs.C53_lines
import Restic.Proofs.C53_counts
import Restic.Gen.Source
/-!
# C53 — diff reports exactly the paths that differ between two snapshots

Theorems about `Restic.Model.Diff` (transcription of `DualTreeIterator`, `Comparer.diffTree`,
`printDir`, `collectDir`), for all pairs of trees of any size and depth.

Hypotheses used (each is what a restic repository guarantees, and each has an executable check):
* `sortedL`  — names strictly increasing in every tree blob (`TreeJSONBuilder.AddNode`);
* `shapeL`   — only directories have children;
* `Faithful` — content addressing: directories with the same subtree id have the same children
               (two different tree blobs with the same id would be a SHA-256 collision).
-/
set_option linter.unusedSimpArgs false
set_option linter.unusedVariables false

namespace Restic.Props.C53
open Restic.Model.SnapTree Restic.Model.Diff Restic.Proofs.C53

/-- `t` occurs somewhere in the forest -/
inductive Occurs : Tree → List Tree → Prop
  | top {t : Tree} {ts : List Tree} : t ∈ ts → Occurs t ts
  | under {t : Tree} {m : Meta} {kids ts : List Tree} : Tree.mk m kids ∈ ts → Occurs t kids → Occurs t ts

/-- content addressing of tree blobs -/
def Faithful (l1 l2 : List Tree) : Prop :=
  ∀ t1 t2, Occurs t1 l1 → Occurs t2 l2 → t1.meta.type = .dir → t2.meta.type = .dir →
    t1.meta.subtree = t2.meta.subtree → t1.kids = t2.kids

theorem Faithful.kids {l1 l2 : List Tree} (h : Faithful l1 l2) {m1 m2 : Meta} {k1 k2 : List Tree}
    (h1 : Tree.mk m1 k1 ∈ l1) (h2 : Tree.mk m2 k2 ∈ l2) : Faithful k1 k2 :=
  fun t1 t2 o1 o2 => h t1 t2 (Occurs.under h1 o1) (Occurs.under h2 o2)

mutual
theorem eqT_eq : ∀ (a b : Tree), eqT a b = true → a = b
  | .mk m k, .mk m' k', h => by
    simp only [eqT, Bool.and_eq_true, beq_iff_eq] at h
    rw [h.1, eqL_eq k k' h.2]
theorem eqL_eq : ∀ (a b : List Tree), eqL a b = true → a = b
  | [], [], _ => rfl
  | a :: as, b :: bs, h => by
    simp only [eqL, Bool.and_eq_true] at h
    rw [eqT_eq a b h.1, eqL_eq as bs h.2]
  | [], _ :: _, h => by simp [eqL] at h
  | _ :: _, [], h => by simp [eqL] at h
end

theorem mem_subL_of_mem {t : Tree} {ts : List Tree} (h : t ∈ ts) : t ∈ subL ts := by
  induction ts with
  | nil => cases h
  | cons x xs ih =>
    simp only [subL, List.mem_append]
    rcases List.mem_cons.mp h with rfl | h'
    · left; cases t; simp [subT]
    · right; exact ih h'

theorem subL_kids {m : Meta} {kids ts : List Tree} {t : Tree} (h : Tree.mk m kids ∈ ts) (ht : t ∈ subL kids) :
    t ∈ subL ts := by
  induction ts with
  | nil => cases h
  | cons x xs ih =>
    simp only [subL, List.mem_append]
    rcases List.mem_cons.mp h with rfl | h'
    · left; simp [subT, ht]
    · right; exact ih h'

theorem occurs_subL {t : Tree} {ts : List Tree} (h : Occurs t ts) : t ∈ subL ts := by
  induction h with
  | top h => exact mem_subL_of_mem h
  | under hm _ ih => exact subL_kids hm ih

/-- the executable check implies the hypothesis of the theorems -/
theorem faithful_of_check (l1 l2 : List Tree) (h : faithfulB l1 l2 = true) : Faithful l1 l2 := by
  intro t1 t2 o1 o2 d1 d2 hs
  simp only [faithfulB, List.all_eq_true, Bool.or_eq_true, Bool.not_eq_true', Bool.and_eq_false_iff,
    beq_eq_false_iff_ne, ne_eq] at h
  rcases h t1 (occurs_subL o1) t2 (occurs_subL o2) with ((h' | h') | h') | h'
  · exact absurd d1 h'
  · exact absurd d2 h'
  · exact absurd hs h'
  · exact eqL_eq _ _ h'

theorem depth_kids {m : Meta} {k ts : List Tree} (h : Tree.mk m k ∈ ts) : depthL k < depthL ts := by
  induction ts with
  | nil => cases h
  | cons t ts ih =>
    simp only [depthL]
    rcases List.mem_cons.mp h with rfl | h'
    · simp only [depthT]; omega
    · have := ih h'; omega

/-! ### `dual_merge` (DESIGN §5 C53), restated -/

/-- On strictly sorted inputs the dual iteration yields, for every name occurring in either tree,
    the pair (node of tree 1, node of tree 2) — `Tree1`/`Tree2` set iff present — and nothing else. -/
theorem dual_merge (l1 l2 : List Tree) (h1 : sortedL l1 = true) (h2 : sortedL l2 = true) (a b : Option Tree) :
    (a, b) ∈ dual l1 l2 ↔ ∃ n, a = find l1 n ∧ b = find l2 n ∧ (a.isSome ∨ b.isSome) :=
  mem_dual l1 l2 (levelSorted_of_sortedL _ h1) (levelSorted_of_sortedL _ h2) a b

/-! ### lines printed for one item of the dual iteration -/

/-- the part of `diffItem` that deals with what is below the two nodes -/
theorem sub_lines (md : Bool) (l : Line) (rec : List Name → List Tree → List Tree → List Ev) (pre' : List Name)
    (m1 m2 : Meta) (k1 k2 : List Tree)
    (so1 : sortedL k1 = true) (so2 : sortedL k2 = true) (sh1 : shapeL k1 = true) (sh2 : shapeL k2 = true)
    (hd1 : m1.type = .dir ∨ k1 = []) (hd2 : m2.type = .dir ∨ k2 = [])
    (hf : m1.type = .dir → m2.type = .dir → m1.subtree = m2.subtree → k1 = k2)
    (hrec : m1.type = .dir → m2.type = .dir →
      (Ev.line l ∈ rec pre' k1 k2 ↔ ∃ p l', expectedLine md k1 k2 p = some l' ∧ l = shift pre' l')) :
    Ev.line l ∈ (if m1.type == .dir && m2.type == .dir then
        (if m1.subtree == m2.subtree then collectL k1 else rec pre' k1 k2)
      else if m1.type == .dir then printDirL .removed pre' k1
      else if m2.type == .dir then printDirL .added pre' k2
      else []) ↔ ∃ p l', expectedLine md k1 k2 p = some l' ∧ l = shift pre' l' := by
  by_cases d1 : m1.type = .dir
  · by_cases d2 : m2.type = .dir
    · simp only [d1, d2, beq_self_eq_true, Bool.and_self, if_true]
      by_cases hs : m1.subtree = m2.subtree
      · have := hf d1 d2 hs
        subst this
        simp only [hs, beq_self_eq_true, if_true]
        constructor
        · intro h; exact absurd h (collectL_no_line l k1)
        · rintro ⟨p, l', he, _⟩; rw [expected_same] at he; cases he
      · have : (m1.subtree == m2.subtree) = false := by simpa using hs
        simp only [this, Bool.false_eq_true, if_false]
        exact hrec d1 d2
    · have hk : k2 = [] := hd2.resolve_left d2
      subst hk
      have : (m2.type == NType.dir) = false := by simpa using d2
      simp only [d1, this, beq_self_eq_true, Bool.and_false, Bool.false_eq_true, if_false, if_true]
      exact printDir_removed md l pre' k1 so1 sh1
  · have hk : k1 = [] := hd1.resolve_left d1
    subst hk
    have e1 : (m1.type == NType.dir) = false := by simpa using d1
    simp only [e1, Bool.false_and, Bool.false_eq_true, if_false]
    by_cases d2 : m2.type = .dir
    · simp only [d2, beq_self_eq_true, if_true]
      exact printDir_added md l pre' k2 so2 sh2
    · have hk : k2 = [] := hd2.resolve_left d2
      subst hk
      have e2 : (m2.type == NType.dir) = false := by simpa using d2
      simp only [e2, Bool.false_eq_true, if_false, List.not_mem_nil, false_iff]
      rintro ⟨p, l', he, _⟩
      rw [expected_same] at he; cases he

theorem not_line_blob (l : Line) (w : Which) (bs : List Blob) : Ev.line l ∉ bs.map (Ev.blob w) := by
  simp

/-- For the name `n`: the lines printed while the dual iteration handles `n` are exactly the
    expected line for the path `[n]` and the expected lines below it. -/
theorem item_lines (md : Bool) (l : Line) (rec : List Name → List Tree → List Tree → List Ev) (pre : List Name)
    (l1 l2 : List Tree) (n : Name)
    (so1 : sortedL l1 = true) (so2 : sortedL l2 = true) (sh1 : shapeL l1 = true) (sh2 : shapeL l2 = true)
    (hf : Faithful l1 l2)
    (hrec : ∀ m1 k1 m2 k2, Tree.mk m1 k1 ∈ l1 → Tree.mk m2 k2 ∈ l2 → m1.type = .dir → m2.type = .dir →
      (Ev.line l ∈ rec (pre ++ [n]) k1 k2 ↔ ∃ p l', expectedLine md k1 k2 p = some l' ∧ l = shift (pre ++ [n]) l')) :
    (((find l1 n).isSome ∨ (find l2 n).isSome) ∧ Ev.line l ∈ diffItem rec md pre (find l1 n, find l2 n)) ↔
      ((∃ l', expectedLine md l1 l2 [n] = some l' ∧ l = shift pre l') ∨
       (∃ p l', expectedLine md (kidsOf (find l1 n)) (kidsOf (find l2 n)) p = some l' ∧ l = shift (pre ++ [n]) l')) := by
  cases ha : find l1 n with
  | none =>
    cases hb : find l2 n with
    | none =>
      have hexp : expectedLine md l1 l2 [n] = none := by simp [expectedLine, lookup_single, ha, hb]
      rw [hexp]
      simp only [kidsOf, Option.isSome_none, Bool.false_eq_true, or_self, false_and, false_iff, not_or]
      refine ⟨by simp, ?_⟩
      rintro ⟨p, l', he, _⟩; rw [expected_same] at he; cases he
    | some t2 =>
      obtain ⟨m2, k2⟩ := t2
      obtain ⟨hm2, hn2⟩ := find_some hb
      have hn2' : m2.name = n := hn2
      obtain ⟨shk, hdk⟩ := shapeL_kids sh2 hm2
      have sok := sortedL_kids so2 hm2
      have hexp : expectedLine md l1 l2 [n] = some ⟨[n], m2.type == .dir, "+"⟩ := by
        simp [expectedLine, lookup_single, ha, hb, Tree.meta]
      rw [hexp]
      simp only [kidsOf, Tree.kids, Tree.meta, diffItem, Option.isSome_some, Option.isSome_none, or_true, true_and,
        List.mem_append, List.mem_cons, Ev.line.injEq, List.not_mem_nil, or_false, reduceCtorEq, Option.some.injEq, hn2']
      have e0 : Ev.line l ∉ (blobsOf m2).map (Ev.blob .after) := not_line_blob _ _ _
      have sub' : Ev.line l ∈ (if (m2.type == NType.dir) = true then printDirL Side.added (pre ++ [n]) k2 else []) ↔
          ∃ p l', expectedLine md [] k2 p = some l' ∧ l = shift (pre ++ [n]) l' := by
        by_cases d : m2.type = .dir
        · simp only [d, beq_self_eq_true, if_true]
          exact printDir_added md l (pre ++ [n]) k2 sok shk
        · have hk : k2 = [] := hdk.resolve_left d
          subst hk
          have e : (m2.type == NType.dir) = false := by simpa using d
          simp only [e, Bool.false_eq_true, if_false, List.not_mem_nil, false_iff]
          rintro ⟨p, l', he, _⟩; rw [expected_same] at he; cases he
      rw [← sub']
      constructor
      · rintro ((h | h) | h)
        · exact absurd h e0
        · left; exact ⟨_, rfl, by rw [h]; simp [shift]⟩
        · right; exact h
      · rintro (⟨l', rfl, h⟩ | h)
        · left; right; rw [h]; simp [shift]
        · right; exact h
  | some t1 =>
    obtain ⟨m1, k1⟩ := t1
    obtain ⟨hm1, hn1⟩ := find_some ha
    have hn1' : m1.name = n := hn1
    obtain ⟨shk1, hdk1⟩ := shapeL_kids sh1 hm1
    have sok1 := sortedL_kids so1 hm1
    cases hb : find l2 n with
    | none =>
      have hexp : expectedLine md l1 l2 [n] = some ⟨[n], m1.type == .dir, "-"⟩ := by
        simp [expectedLine, lookup_single, ha, hb, Tree.meta]
      rw [hexp]
      simp only [kidsOf, Tree.kids, Tree.meta, diffItem, Option.isSome_some, Option.isSome_none, true_or, true_and,
        List.mem_append, List.mem_cons, Ev.line.injEq, List.not_mem_nil, or_false, reduceCtorEq, Option.some.injEq, hn1']
      have e0 : Ev.line l ∉ (blobsOf m1).map (Ev.blob .before) := not_line_blob _ _ _
      have sub' : Ev.line l ∈ (if (m1.type == NType.dir) = true then printDirL Side.removed (pre ++ [n]) k1 else []) ↔
          ∃ p l', expectedLine md k1 [] p = some l' ∧ l = shift (pre ++ [n]) l' := by
        by_cases d : m1.type = .dir
        · simp only [d, beq_self_eq_true, if_true]
          exact printDir_removed md l (pre ++ [n]) k1 sok1 shk1
        · have hk : k1 = [] := hdk1.resolve_left d
          subst hk
          have e : (m1.type == NType.dir) = false := by simpa using d
          simp only [e, Bool.false_eq_true, if_false, List.not_mem_nil, false_iff]
          rintro ⟨p, l', he, _⟩; rw [expected_same] at he; cases he
      rw [← sub']
      constructor
      · rintro ((h | h) | h)
        · exact absurd h e0
        · left; exact ⟨_, rfl, by rw [h]; simp [shift]⟩
        · right; exact h
      · rintro (⟨l', rfl, h⟩ | h)
        · left; right; rw [h]; simp [shift]
        · right; exact h
    | some t2 =>
      obtain ⟨m2, k2⟩ := t2
      obtain ⟨hm2, hn2⟩ := find_some hb
      obtain ⟨shk2, hdk2⟩ := shapeL_kids sh2 hm2
      have sok2 := sortedL_kids so2 hm2
      have sub := sub_lines md l rec (pre ++ [n]) m1 m2 k1 k2 sok1 sok2 shk1 shk2 hdk1 hdk2
        (fun d1 d2 hs => hf _ _ (Occurs.top hm1) (Occurs.top hm2) d1 d2 hs)
        (fun d1 d2 => hrec m1 k1 m2 k2 hm1 hm2 d1 d2)
      have hexp : expectedLine md l1 l2 [n] =
          if modOf md m1 m2 != "" then some ⟨[n], m2.type == .dir, modOf md m1 m2⟩ else none := by
        simp [expectedLine, lookup_single, ha, hb, Tree.meta]
      rw [hexp]
      simp only [kidsOf, Tree.kids, Tree.meta, diffItem, Option.isSome_some, true_or, true_and,
        List.mem_append, hn1']
      rw [← sub]
      have e1 : Ev.line l ∉ (blobsOf m1).map (Ev.blob .before) := not_line_blob _ _ _
      have e2 : Ev.line l ∉ (blobsOf m2).map (Ev.blob .after) := not_line_blob _ _ _
      have e3 : Ev.line l ∉ (if isM m1 m2 = true then [Ev.changed] else []) := by split <;> simp
      by_cases hmod : modOf md m1 m2 = ""
      · simp only [hmod, bne_self_eq_false, Bool.false_eq_true, if_false, List.not_mem_nil, or_false, reduceCtorEq,
          false_and, exists_false, false_or]
        constructor
        · rintro ((((h | h)) | h) | h)
          · exact absurd h e1
          · exact absurd h e2
          · exact absurd h e3
          · exact h
        · intro h; right; exact h
      · have hne : (modOf md m1 m2 != "") = true := by simpa using hmod
        simp only [hne, if_true, List.mem_cons, Ev.line.injEq, List.not_mem_nil, or_false, Option.some.injEq]
        constructor
        · rintro ((((h | h) | h) | h) | h)
          · exact absurd h e1
          · exact absurd h e2
          · left; exact ⟨_, rfl, by rw [h]; simp [shift]⟩
          · exact absurd h e3
          · right; exact h
        · rintro (⟨l', rfl, h⟩ | h)
          · left; left; right; rw [h]; simp [shift]
          · right; exact h

/-! ### the main theorem -/

/-- **diff_exact.** For strictly sorted, directory-shaped trees with faithful subtree ids and enough
    fuel, `diffTree` prints exactly the expected lines: a line is printed iff it is the expected
    line of some path (prefixed with the directory being compared). -/
theorem diff_lines (md : Bool) (l : Line) : ∀ (fuel : Nat) (pre : List Name) (l1 l2 : List Tree),
    sortedL l1 = true → sortedL l2 = true → shapeL l1 = true → shapeL l2 = true → Faithful l1 l2 →
    depthL l1 < fuel →
    (Ev.line l ∈ diffTree md fuel pre l1 l2 ↔ ∃ p l', expectedLine md l1 l2 p = some l' ∧ l = shift pre l') := by
  intro fuel
  induction fuel with
  | zero => intro pre l1 l2 _ _ _ _ _ hd; omega
  | succ f ih =>
    intro pre l1 l2 so1 so2 sh1 sh2 hf hd
    simp only [diffTree, List.mem_flatMap]
    have step : ∀ n, (((find l1 n).isSome ∨ (find l2 n).isSome) ∧
          Ev.line l ∈ diffItem (diffTree md f) md pre (find l1 n, find l2 n)) ↔ _ :=
      fun n => item_lines md l (diffTree md f) pre l1 l2 n so1 so2 sh1 sh2 hf
        (fun m1 k1 m2 k2 hm1 hm2 _ _ =>
          ih (pre ++ [n]) k1 k2 (sortedL_kids so1 hm1) (sortedL_kids so2 hm2) (shapeL_kids sh1 hm1).1
            (shapeL_kids sh2 hm2).1 (hf.kids hm1 hm2) (by have := depth_kids hm1; omega))
    constructor
    · rintro ⟨⟨a, b⟩, hmem, hl⟩
      obtain ⟨n, rfl, rfl, hs⟩ := (dual_merge l1 l2 so1 so2 a b).mp hmem
      rcases (step n).mp ⟨hs, hl⟩ with ⟨l', he, hl'⟩ | ⟨p, l', he, hl'⟩
      · exact ⟨[n], l', he, hl'⟩
      · have hp : p ≠ [] := by
          intro e; subst e; rw [expected_nil_path] at he; cases he
        refine ⟨n :: p, consPath n l', ?_, by rw [shift_consPath]; exact hl'⟩
        rw [expected_cons md l1 l2 n p hp, he]; rfl
    · rintro ⟨p, l', he, hl'⟩
      cases p with
      | nil => rw [expected_nil_path] at he; cases he
      | cons n rest =>
        have key : ((find l1 n).isSome ∨ (find l2 n).isSome) ∧
            Ev.line l ∈ diffItem (diffTree md f) md pre (find l1 n, find l2 n) := by
          apply (step n).mpr
          by_cases hr : rest = []
          · subst hr; left; exact ⟨l', he, hl'⟩
          · right
            rw [expected_cons md l1 l2 n rest hr] at he
            cases he' : expectedLine md (kidsOf (find l1 n)) (kidsOf (find l2 n)) rest with
            | none => simp [he'] at he
            | some l'' =>
              simp only [he', Option.map_some, Option.some.injEq] at he
              exact ⟨rest, l'', he', by rw [hl', ← he, shift_consPath]⟩
        exact ⟨(find l1 n, find l2 n), (dual_merge l1 l2 so1 so2 _ _).mpr ⟨n, rfl, rfl, key.1⟩, key.2⟩

theorem lookup_mem_paths : ∀ (p : List Name) (ts : List Tree) (pre : List Name) (t : Tree),
    lookup ts p = some t → pre ++ p ∈ pathsL pre ts := by
  intro p
  induction p with
  | nil => intro ts pre t h; simp [lookup] at h
  | cons n rest ih =>
    intro ts
    induction ts with
    | nil => intro pre t h; rw [lookup_nil] at h; cases h
    | cons x xs ihx =>
      intro pre t h
      obtain ⟨m, kids⟩ := x
      rw [lookup_cons] at h
      simp only [pathsL, pathsT, List.mem_append, List.mem_cons]
      by_cases hn : nm (Tree.mk m kids) = n
      · have hn' : m.name = n := hn
        simp only [hn, if_true] at h
        left
        by_cases hr : rest.isEmpty = true
        · have : rest = [] := List.isEmpty_iff.mp hr
          subst this
          left; rw [hn']
        · simp only [hr] at h
          right
          have := ih kids (pre ++ [m.name]) t h
          rw [hn'] at this ⊢
          simpa using this
      · simp only [hn, if_false] at h
        right
        exact ihx pre t h

/-- **C53 (main theorem, on the printed lines).** The lines printed by the model of `diff` satisfy
    the executable statement of the property: every path that exists in only one snapshot is listed
    as added / removed, every path with a type or content change (or, with `--metadata`, a metadata
    change) is listed with exactly the modifiers that apply, and nothing else is listed — in
    particular nothing for identical subtrees. -/
theorem diff_spec (md : Bool) (fuel : Nat) (l1 l2 : List Tree)
    (so1 : sortedL l1 = true) (so2 : sortedL l2 = true) (sh1 : shapeL l1 = true) (sh2 : shapeL l2 = true)
    (hf : Faithful l1 l2) (hd : depthL l1 < fuel) :
    specLines md l1 l2 (lines (diffTree md fuel [] l1 l2)) = true := by
  have mem_lines : ∀ l, l ∈ lines (diffTree md fuel [] l1 l2) ↔ Ev.line l ∈ diffTree md fuel [] l1 l2 := by
    intro l
    simp only [lines, List.mem_filterMap]
    constructor
    · rintro ⟨e, he, h⟩
      cases e <;> simp [prLine] at h
      subst h; exact he
    · intro h; exact ⟨_, h, rfl⟩
  have main := fun l => diff_lines md l fuel [] l1 l2 so1 so2 sh1 sh2 hf hd
  have shift_nil : ∀ l' : Line, shift [] l' = l' := fun l' => by simp [shift]
  have in_paths : ∀ p l', expectedLine md l1 l2 p = some l' → p ∈ pathsL [] l1 ++ pathsL [] l2 := by
    intro p l' he
    unfold expectedLine at he
    rw [List.mem_append]
    cases h1 : lookup l1 p with
    | some t1 => left; simpa using lookup_mem_paths p l1 [] t1 h1
    | none =>
      cases h2 : lookup l2 p with
      | some t2 => right; simpa using lookup_mem_paths p l2 [] t2 h2
      | none => simp [h1, h2] at he
  simp only [specLines, Bool.and_eq_true, List.all_eq_true, List.any_eq_true, beq_iff_eq]
  constructor
  · intro p _
    cases he : expectedLine md l1 l2 p with
    | none => rfl
    | some l' =>
      simp only [List.contains_iff_mem]
      rw [mem_lines, main]
      exact ⟨p, l', he, (shift_nil l').symm⟩
  · intro l hl
    rw [mem_lines, main] at hl
    obtain ⟨p, l', he, rfl⟩ := hl
    exact ⟨p, in_paths p l' he, by rw [he, shift_nil]⟩

mutual
theorem printDirT_no_exh (s : Side) : ∀ (pre : List Name) (t : Tree), Ev.exhausted ∉ printDirT s pre t
  | pre, .mk m kids => by
    simp only [printDirT, List.mem_append, List.mem_cons, List.mem_map, reduceCtorEq, List.not_mem_nil, or_false,
      and_false, exists_false, false_or, not_or, not_false_eq_true, true_and]
    split
    · exact printDirL_no_exh s _ kids
    · simp
theorem printDirL_no_exh (s : Side) : ∀ (pre : List Name) (ts : List Tree), Ev.exhausted ∉ printDirL s pre ts
  | pre, [] => by simp [printDirL]
  | pre, t :: ts => by
    simp only [printDirL, List.mem_append, not_or]
    exact ⟨printDirT_no_exh s pre t, printDirL_no_exh s pre ts⟩
end

mutual
theorem collectT_no_exh : ∀ (t : Tree), Ev.exhausted ∉ collectT t
  | .mk m kids => by
    simp only [collectT, List.mem_append, List.mem_map, reduceCtorEq, and_false, exists_false, false_or]
    split
    · exact collectL_no_exh kids
    · simp
theorem collectL_no_exh : ∀ (ts : List Tree), Ev.exhausted ∉ collectL ts
  | [] => by simp [collectL]
  | t :: ts => by
    simp only [collectL, List.mem_append, not_or]
    exact ⟨collectT_no_exh t, collectL_no_exh ts⟩
end

/-- the lines of `runDiff` are those of `diffTree` from the root -/
theorem runDiff_lines (md : Bool) (fuel r1 r2 : Nat) (l1 l2 : List Tree) (size : Blob → Nat) :
    (runDiff md fuel r1 r2 l1 l2 size).lines = lines (diffTree md fuel [] l1 l2) := by
  simp only [runDiff, lines, List.cons_append, List.nil_append, List.filterMap_cons, prLine]

/-- **C53 for the command**: the change lines of `runDiff` satisfy the executable statement -/
theorem runDiff_spec (md : Bool) (fuel r1 r2 : Nat) (l1 l2 : List Tree) (size : Blob → Nat)
    (so1 : sortedL l1 = true) (so2 : sortedL l2 = true) (sh1 : shapeL l1 = true) (sh2 : shapeL l2 = true)
    (hf : Faithful l1 l2) (hd : depthL l1 < fuel) :
    specLines md l1 l2 (runDiff md fuel r1 r2 l1 l2 size).lines = true := by
  rw [runDiff_lines]; exact diff_spec md fuel l1 l2 so1 so2 sh1 sh2 hf hd

/-! ### the counters -/

theorem diffItem_both (rec : List Name → List Tree → List Tree → List Ev) (md : Bool) (pre : List Name)
    (m1 m2 : Meta) (k1 k2 : List Tree) :
    diffItem rec md pre (some (.mk m1 k1), some (.mk m2 k2)) =
      (blobsOf m1).map (Ev.blob .before) ++ (blobsOf m2).map (Ev.blob .after) ++
      (if modOf md m1 m2 != "" then [Ev.line ⟨pre ++ [m1.name], m2.type == .dir, modOf md m1 m2⟩] else []) ++
      (if isM m1 m2 then [Ev.changed] else []) ++ subEvs rec (pre ++ [m1.name]) m1 m2 k1 k2 := rfl

/-- **removed items.** The nodes counted in `stats.Removed` are exactly, in tree order, the nodes
    whose path exists in the first snapshot only. -/
theorem removed_items (md : Bool) : ∀ (fuel : Nat) (pre : List Name) (l1 l2 : List Tree),
    sortedL l1 = true → sortedL l2 = true → shapeL l1 = true → shapeL l2 = true → Faithful l1 l2 →
    depthL l1 < fuel → statItems .removed (diffTree md fuel pre l1 l2) = onlyIn l1 l2 := by
  intro fuel
  induction fuel with
  | zero => intro pre l1 l2 _ _ _ _ _ hd; omega
  | succ f ih =>
    intro pre l1 l2 so1 so2 sh1 sh2 hf hd
    have ls1 := levelSorted_of_sortedL _ so1
    have ls2 := levelSorted_of_sortedL _ so2
    have hR : ∀ b, (diffItem (diffTree md f) md pre (none, b)).filterMap (prStat .removed) = [] := by
      intro b
      cases b with
      | none => rfl
      | some y =>
        obtain ⟨m2, k2⟩ := y
        simp only [diffItem, List.filterMap_append, stat_blobs, List.filterMap_cons, prStat, List.filterMap_nil,
          List.nil_append, reduceCtorEq, if_false]
        split
        · exact stat_printDirL_ne _ _ (by decide) _ _
        · rfl
    unfold statItems onlyIn
    simp only [diffTree]
    rw [filterMap_flatMap', flatMap_left _ hR, dual_left l1 l2 ls1 ls2, flatMap_map', specList_decomp gOnly l1 l2 ls1]
    apply flatMap_congr'
    intro x hx
    obtain ⟨m1, k1⟩ := x
    obtain ⟨shk1, hdk1⟩ := shapeL_kids sh1 hx
    have sok1 := sortedL_kids so1 hx
    simp only [nm, Tree.meta]
    cases hb : find l2 m1.name with
    | none =>
      rw [only_nil_T (Tree.mk m1 k1) (by simpa [sortedT] using sok1)]
      simp only [diffItem, List.filterMap_append, stat_blobs, List.filterMap_cons, prStat, List.filterMap_nil,
        List.nil_append, if_true, flattenT]
      by_cases d : m1.type = .dir
      · simp [d, stat_printDirL _ _ _ _ shk1]
      · have hk : k1 = [] := hdk1.resolve_left d
        subst hk
        have e : (m1.type == NType.dir) = false := by simpa using d
        simp [e, flattenL]
    | some y =>
      obtain ⟨m2, k2⟩ := y
      obtain ⟨hm2, _⟩ := find_some hb
      obtain ⟨shk2, hdk2⟩ := shapeL_kids sh2 hm2
      rw [diffItem_both]
      simp only [List.filterMap_append, stat_blobs, stat_ite_line, stat_ite_changed, List.nil_append]
      rw [sub_removed _ _ m1 m2 k1 k2 sok1 shk1 hdk1 hdk2
        (fun d1 d2 hs => hf _ _ (Occurs.top hx) (Occurs.top hm2) d1 d2 hs)
        (fun _ _ => ih _ k1 k2 sok1 (sortedL_kids so2 hm2) shk1 shk2 (hf.kids hx hm2) (by have := depth_kids hx; omega))]
      simp [specAt, gOnly, kidsOf, Tree.kids]

/-- **added items.** The nodes counted in `stats.Added` are exactly, in tree order, the nodes whose
    path exists in the second snapshot only. -/
theorem added_items (md : Bool) : ∀ (fuel : Nat) (pre : List Name) (l1 l2 : List Tree),
    sortedL l1 = true → sortedL l2 = true → shapeL l1 = true → shapeL l2 = true → Faithful l1 l2 →
    depthL l1 < fuel → statItems .added (diffTree md fuel pre l1 l2) = onlyIn l2 l1 := by
  intro fuel
  induction fuel with
  | zero => intro pre l1 l2 _ _ _ _ _ hd; omega
  | succ f ih =>
    intro pre l1 l2 so1 so2 sh1 sh2 hf hd
    have ls1 := levelSorted_of_sortedL _ so1
    have ls2 := levelSorted_of_sortedL _ so2
    have hR : ∀ a, (diffItem (diffTree md f) md pre (a, none)).filterMap (prStat .added) = [] := by
      intro a
      cases a with
      | none => rfl
      | some x =>
        obtain ⟨m1, k1⟩ := x
        simp only [diffItem, List.filterMap_append, stat_blobs, List.filterMap_cons, prStat, List.filterMap_nil,
          List.nil_append, reduceCtorEq, if_false]
        split
        · exact stat_printDirL_ne _ _ (by decide) _ _
        · rfl
    unfold statItems onlyIn
    simp only [diffTree]
    rw [filterMap_flatMap', flatMap_right _ hR, dual_right l1 l2 ls1 ls2, flatMap_map', specList_decomp gOnly l2 l1 ls2]
    apply flatMap_congr'
    intro y hy
    obtain ⟨m2, k2⟩ := y
    obtain ⟨shk2, hdk2⟩ := shapeL_kids sh2 hy
    have sok2 := sortedL_kids so2 hy
    simp only [nm, Tree.meta]
    cases ha : find l1 m2.name with
    | none =>
      rw [only_nil_T (Tree.mk m2 k2) (by simpa [sortedT] using sok2)]
      simp only [diffItem, List.filterMap_append, stat_blobs, List.filterMap_cons, prStat, List.filterMap_nil,
        List.nil_append, if_true, flattenT]
      by_cases d : m2.type = .dir
      · simp [d, stat_printDirL _ _ _ _ shk2]
      · have hk : k2 = [] := hdk2.resolve_left d
        subst hk
        have e : (m2.type == NType.dir) = false := by simpa using d
        simp [e, flattenL]
    | some x =>
      obtain ⟨m1, k1⟩ := x
      obtain ⟨hm1, hn1⟩ := find_some ha
      have hn1' : m1.name = m2.name := hn1
      obtain ⟨shk1, hdk1⟩ := shapeL_kids sh1 hm1
      rw [diffItem_both]
      simp only [List.filterMap_append, stat_blobs, stat_ite_line, stat_ite_changed, List.nil_append]
      rw [sub_added _ _ m1 m2 k1 k2 sok2 shk2 hdk1 hdk2
        (fun d1 d2 hs => hf _ _ (Occurs.top hm1) (Occurs.top hy) d1 d2 hs)
        (fun _ _ => ih _ k1 k2 (sortedL_kids so1 hm1) sok2 shk1 shk2 (hf.kids hm1 hy) (by have := depth_kids hm1; omega))]
      simp [specAt, gOnly, kidsOf, Tree.kids]

/-- **changed files.** `ChangedFiles` counts exactly the paths that are regular files with different
    content lists in both snapshots. -/
theorem changed_files (md : Bool) : ∀ (fuel : Nat) (pre : List Name) (l1 l2 : List Tree),
    sortedL l1 = true → sortedL l2 = true → shapeL l1 = true → shapeL l2 = true → Faithful l1 l2 →
    depthL l1 < fuel → (diffTree md fuel pre l1 l2).filterMap prChanged = specList gChanged l1 l2 := by
  intro fuel
  induction fuel with
  | zero => intro pre l1 l2 _ _ _ _ _ hd; omega
  | succ f ih =>
    intro pre l1 l2 so1 so2 sh1 sh2 hf hd
    have ls1 := levelSorted_of_sortedL _ so1
    have ls2 := levelSorted_of_sortedL _ so2
    have hR : ∀ b, (diffItem (diffTree md f) md pre (none, b)).filterMap prChanged = [] := by
      intro b
      cases b with
      | none => rfl
      | some y =>
        obtain ⟨m2, k2⟩ := y
        simp only [diffItem, List.filterMap_append, changed_blobs, List.filterMap_cons, prChanged, List.filterMap_nil,
          List.nil_append]
        split
        · exact changed_printDirL _ _ _
        · rfl
    simp only [diffTree]
    rw [filterMap_flatMap', flatMap_left _ hR, dual_left l1 l2 ls1 ls2, flatMap_map', specList_decomp gChanged l1 l2 ls1]
    apply flatMap_congr'
    intro x hx
    obtain ⟨m1, k1⟩ := x
    obtain ⟨shk1, hdk1⟩ := shapeL_kids sh1 hx
    simp only [nm, Tree.meta]
    cases hb : find l2 m1.name with
    | none =>
      simp only [diffItem, List.filterMap_append, changed_blobs, List.filterMap_cons, prChanged, List.filterMap_nil,
        List.nil_append, specAt, gChanged, Option.toList, kidsOf, Tree.kids, changed_nil_right]
      split
      · exact changed_printDirL _ _ _
      · rfl
    | some y =>
      obtain ⟨m2, k2⟩ := y
      obtain ⟨hm2, _⟩ := find_some hb
      obtain ⟨shk2, hdk2⟩ := shapeL_kids sh2 hm2
      rw [diffItem_both]
      simp only [List.filterMap_append, changed_blobs, changed_ite_line, changed_ite_changed, List.nil_append]
      rw [sub_changed _ _ m1 m2 k1 k2 hdk1 hdk2
        (fun d1 d2 hs => hf _ _ (Occurs.top hx) (Occurs.top hm2) d1 d2 hs)
        (fun _ _ => ih _ k1 k2 (sortedL_kids so1 hx) (sortedL_kids so2 hm2) shk1 shk2 (hf.kids hx hm2)
          (by have := depth_kids hx; omega))]
      simp only [specAt, gChanged, kidsOf, Tree.kids, Tree.meta]
      by_cases hm : isM m1 m2 = true <;> simp [hm]

/-- **C53, counters of the command.** `runDiff`'s item counters (added / removed files, dirs,
    others) and `changed_files` satisfy the executable statement `specCounts`. -/
theorem runDiff_counts (md : Bool) (fuel r1 r2 : Nat) (l1 l2 : List Tree) (size : Blob → Nat)
    (so1 : sortedL l1 = true) (so2 : sortedL l2 = true) (sh1 : shapeL l1 = true) (sh2 : shapeL l2 = true)
    (hf : Faithful l1 l2) (hd : depthL l1 < fuel) :
    specCounts l1 l2 (runDiff md fuel r1 r2 l1 l2 size) = true := by
  have hr := removed_items md fuel [] l1 l2 so1 so2 sh1 sh2 hf hd
  have ha := added_items md fuel [] l1 l2 so1 so2 sh1 sh2 hf hd
  have hc := changed_files md fuel [] l1 l2 so1 so2 sh1 sh2 hf hd
  have e1 : statItems .removed ([Ev.blob .before ⟨true, r1⟩, Ev.blob .after ⟨true, r2⟩] ++ diffTree md fuel [] l1 l2)
      = onlyIn l1 l2 := by
    rw [← hr]; simp only [statItems, List.cons_append, List.nil_append, List.filterMap_cons, prStat]
  have e2 : statItems .added ([Ev.blob .before ⟨true, r1⟩, Ev.blob .after ⟨true, r2⟩] ++ diffTree md fuel [] l1 l2)
      = onlyIn l2 l1 := by
    rw [← ha]; simp only [statItems, List.cons_append, List.nil_append, List.filterMap_cons, prStat]
  have e3 : changedCount ([Ev.blob .before ⟨true, r1⟩, Ev.blob .after ⟨true, r2⟩] ++ diffTree md fuel [] l1 l2)
      = changedIn l1 l2 := by
    simp only [changedCount, changedIn, ← hc, List.cons_append, List.nil_append, List.filterMap_cons, prChanged]
  simp only [specCounts, runDiff, e1, e2, e3, cntOK, mkStat, beq_self_eq_true, Bool.and_self]

/-- with enough fuel the recursion never runs dry -/
theorem not_exhausted (md : Bool) : ∀ (fuel : Nat) (pre : List Name) (l1 l2 : List Tree),
    sortedL l1 = true → sortedL l2 = true → depthL l1 < fuel → Ev.exhausted ∉ diffTree md fuel pre l1 l2 := by
  intro fuel
  induction fuel with
  | zero => intro pre l1 l2 _ _ hd; omega
  | succ f ih =>
    intro pre l1 l2 so1 so2 hd
    simp only [diffTree, List.mem_flatMap, not_exists, not_and]
    rintro ⟨a, b⟩ hmem
    obtain ⟨n, rfl, rfl, hs⟩ := (dual_merge l1 l2 so1 so2 a b).mp hmem
    cases ha : find l1 n with
    | none =>
      cases hb : find l2 n with
      | none => simp [diffItem]
      | some t2 =>
        obtain ⟨m2, k2⟩ := t2
        simp only [diffItem, List.mem_append, List.mem_map, List.mem_cons, reduceCtorEq, and_false, exists_false,
          List.not_mem_nil, or_false, false_or, not_or]
        split
        · exact printDirL_no_exh _ _ _
        · simp
    | some t1 =>
      obtain ⟨m1, k1⟩ := t1
      obtain ⟨hm1, _⟩ := find_some ha
      cases hb : find l2 n with
      | none =>
        simp only [diffItem, List.mem_append, List.mem_map, List.mem_cons, reduceCtorEq, and_false, exists_false,
          List.not_mem_nil, or_false, false_or, not_or]
        split
        · exact printDirL_no_exh _ _ _
        · simp
      | some t2 =>
        obtain ⟨m2, k2⟩ := t2
        obtain ⟨hm2, _⟩ := find_some hb
        simp only [diffItem, List.mem_append, List.mem_map, reduceCtorEq, and_false, exists_false, false_or, not_or]
        refine ⟨⟨?_, ?_⟩, ?_⟩
        · split <;> simp
        · split <;> simp
        · split
          · split
            · exact collectL_no_exh _
            · exact ih _ k1 k2 (sortedL_kids so1 hm1) (sortedL_kids so2 hm2) (by have := depth_kids hm1; omega)
          · split
            · exact printDirL_no_exh _ _ _
            · split
              · exact printDirL_no_exh _ _ _
              · simp

/-- T1 (regenerated from cmd/restic/cmd_diff.go on every run): `diffTree` iterates with
    `DualTreeIterator`, skips identical subtrees with `collectDir`, and calls `printDir` in four
    places — removed directory, added directory and the two directory type changes (the F5 fix). -/
theorem diffTree_structure :
    (Restic.Gen.diffTree_calls.filter (· == "c.printDir")).length = 4 ∧
    "data.DualTreeIterator" ∈ Restic.Gen.diffTree_calls ∧ "c.collectDir" ∈ Restic.Gen.diffTree_calls ∧
    "c.diffTree" ∈ Restic.Gen.diffTree_calls := by decide

/-! ### Non-vacuity and the defect found (F5) -/

def exA : List Tree :=
  [ .mk { name := [97], type := .file, content := [1] } [],
    .mk { name := [100], type := .dir, subtree := 10 }
      [ .mk { name := [120], type := .file, content := [2] } [],
        .mk { name := [121], type := .dir, subtree := 11 } [ .mk { name := [122], type := .symlink } [] ] ],
    .mk { name := [101], type := .dir, subtree := 12 } [ .mk { name := [113], type := .file, content := [3] } [] ] ]

/-- second snapshot: `a` modified, `d` became a regular file, `e` unchanged (same subtree id), `f` new -/
def exB : List Tree :=
  [ .mk { name := [97], type := .file, content := [4] } [],
    .mk { name := [100], type := .file, content := [5] } [],
    .mk { name := [101], type := .dir, subtree := 12 } [ .mk { name := [113], type := .file, content := [3] } [] ],
    .mk { name := [102], type := .fifo } [] ]

example : sortedL exA = true ∧ sortedL exB = true ∧ shapeL exA = true ∧ shapeL exB = true := by decide

/-- what the (fixed) code prints for this pair: the children of the directory that became a file are
    listed as removed; the unchanged directory `e` produces nothing -/
example : lines (diffTree false 5 [] exA exB) =
    [ ⟨[[97]], false, "M?"⟩, ⟨[[100]], false, "T"⟩, ⟨[[100], [120]], false, "-"⟩, ⟨[[100], [121]], true, "-"⟩,
      ⟨[[100], [121], [122]], false, "-"⟩, ⟨[[102]], false, "+"⟩ ] := by decide

example : specLines false exA exB (lines (diffTree false 5 [] exA exB)) = true := by decide

example : Faithful exA exB := faithful_of_check _ _ (by decide)

/-- the main theorem applies to the example (all hypotheses are satisfiable together) -/
example : specLines true exA exB (lines (diffTree true 4 [] exA exB)) = true :=
  diff_spec true 4 exA exB (by decide) (by decide) (by decide) (by decide) (faithful_of_check _ _ (by decide)) (by decide)

/-- the counters of the example: 3 nodes removed below `/d`, one fifo added, one file changed -/
example : specCounts exA exB (runDiff false 5 1 2 exA exB (fun _ => 1)) = true ∧
    onlyIn exA exB = [{ name := [120], type := .file, content := [2] }, { name := [121], type := .dir, subtree := 11 },
      { name := [122], type := .symlink }] ∧ changedIn exA exB = 1 := by decide

/-- F5 (unchanged restic 0.19.1-dev printed only the `T` line for `/d`): that output violates the
    statement — `/d/x` exists only in the first snapshot and is not listed. -/
theorem F5_output_violates_spec :
    specLines false exA exB [ ⟨[[97]], false, "M?"⟩, ⟨[[100]], false, "T"⟩, ⟨[[102]], false, "+"⟩ ] = false := by
  decide

end Restic.Props.C53
